import Harper.Basic.Span
/-!
# `harper-core/src/title_case.rs` — `make_title_case`

Text is a list of code points. The token list is the real one, handed over by the harness with,
per token, exactly the data `make_title_case` / `should_capitalize_token` consult:

* the span, and whether the kind is word-like (`iter_word_likes`);
* `canon` — `Some c` iff the kind is `Word(Some(md))`, `md.is_proper_noun()` and
  `dict.get_correct_capitalization_of(orig_text) = Some(c)`;
* `hasMeta` — the kind is `Word(Some(_))` (every other kind: `should_capitalize_token = true`);
  `prep`, `det` — `preposition` / `determiner` of the token's metadata merged (`.or`) with
  `dict.get_word_metadata(chars_lower)`; `lower` — `chars.to_lower()` (Unicode), compared with the
  five special conjunctions.

The case mapping of the code is ASCII (`to_ascii_uppercase` / `to_ascii_lowercase`), modelled on
code points. Every index / slice / subtraction of the Rust code that can panic is checked.
-/
namespace Harper.Title

/-- `char::to_ascii_uppercase` on a code point -/
def up (c : Nat) : Nat := if 97 ≤ c ∧ c ≤ 122 then c - 32 else c

/-- `char::to_ascii_lowercase` on a code point -/
def low (c : Nat) : Nat := if 65 ≤ c ∧ c ≤ 90 then c + 32 else c

structure TTok where
  start    : Nat
  stop     : Nat
  wordLike : Bool
  hasMeta  : Bool
  prep     : Bool
  det      : Bool
  lower    : List Nat
  canon    : Option (List Nat)
  deriving Repr, DecidableEq, Inhabited

/-- `SPECIAL_CONJUNCTIONS`: and, but, for, or, nor -/
def specialConjunctions : List (List Nat) :=
  [[97, 110, 100], [98, 117, 116], [102, 111, 114], [111, 114], [110, 111, 114]]

/-- `should_capitalize_token` -/
def shouldCapToken (t : TTok) : Bool :=
  if t.hasMeta then
    let isShortPreposition := t.prep && decide (t.stop - t.start ≤ 4)
    !isShortPreposition && !t.det && !specialConjunctions.contains t.lower
  else true

/-- what one iteration of the `while let` loop does to the character at buffer index `i`
(`a`, `b` = the token's span relative to `start_index`) -/
def eff (a b : Nat) (canon : Option (List Nat)) (cap : Bool) (i x : Nat) : Nat :=
  let x1 := match canon with
    | some c => if a ≤ i ∧ i < b then c.getD (i - a) x else x
    | none => x
  if cap then (if i = a then up x1 else x1) else (if a ≤ i ∧ i < b then low x1 else x1)

/-- would the iteration panic? (`len` = length of the output buffer, `si` = `start_index`) -/
def stepPanics (si len : Nat) (w : TTok) (cap : Bool) : Bool :=
  let a := w.start - si
  let b := w.stop - si
  -- `output[word.span.start - start_index..word.span.end - start_index]`, `correct_caps[idx]`
  (match w.canon with
    | some c => decide (w.start < si) || decide (w.stop < si) || decide (a > b) || decide (b > len)
                  || decide (c.length < b - a)
    | none => false)
  ||
  (if cap then
    -- `output[word.span.start - start_index]`
    decide (w.start < si) || decide (a ≥ len)
  else
    -- `for i in word.span { output[i - start_index] … }`
    decide (w.start < w.stop) && (decide (w.start < si) || decide (b > len)))

/-- one iteration -/
def step (si : Nat) (w : TTok) (cap : Bool) (out : List Nat) : Except Panic (List Nat) :=
  if stepPanics si out.length w cap then .error .sliceOOB
  else .ok (out.mapIdx (fun i x => eff (w.start - si) (w.stop - si) w.canon cap i x))

/-- the `while let Some((index, word)) = word_likes.next()` loop;
`should_capitalize = should_capitalize_token(..) || index == 0 || word_likes.peek().is_none()` -/
def loop (si : Nat) : Nat → List TTok → List Nat → Except Panic (List Nat)
  | _, [], out => .ok out
  | index, w :: rest, out =>
    let cap := shouldCapToken w || index == 0 || rest.isEmpty
    match step si w cap out with
    | .error e => .error e
    | .ok out' => loop si (index + 1) rest out'

/-- `toks.span()`: min and max over all starts and ends -/
def spanOf : List TTok → Option (Nat × Nat)
  | [] => none
  | t :: ts =>
    let lo0 := min t.start t.stop
    let hi0 := max t.start t.stop
    match spanOf ts with
    | none => some (lo0, hi0)
    | some (lo, hi) => some (min lo0 lo, max hi0 hi)

/-- `make_title_case(toks, source, dict)` -/
def makeTitleCase (toks : List TTok) (src : List Nat) : Except Panic (List Nat) :=
  match toks with
  | [] => .ok []
  | first :: _ =>
    match spanOf toks with
    | none => .error .unwrapNone
    | some (lo, hi) =>
      match Span.getContent ⟨lo, hi⟩ src with
      | .error e => .error e
      | .ok out0 => loop first.start 0 (toks.filter (·.wordLike)) out0

/-- the data of a token that `make_title_case` depends on -/
def TTok.consulted (t : TTok) : Nat × Nat × Bool × Option (List Nat) × Bool :=
  (t.start, t.stop, t.wordLike, t.canon, shouldCapToken t)

/-- `make_title_case_str` for a lexer-plus-dictionary `lexd` (text ↦ tokens with consulted data) -/
def titleCaseStr (lexd : List Nat → List TTok) (src : List Nat) : Except Panic (List Nat) :=
  makeTitleCase (lexd src) src

/-- `CaseStable`: re-lexing the title-cased text gives tokens with the same consulted data
(spans, word-likeness, canonical spellings, capitalisation decisions). A monitor of the harness. -/
def CaseStable (lexd : List Nat → List TTok) (src out : List Nat) : Prop :=
  (lexd out).map TTok.consulted = (lexd src).map TTok.consulted

/-- ASCII letters -/
def isAsciiLower (c : Nat) : Bool := decide (97 ≤ c ∧ c ≤ 122)
def isAsciiUpper (c : Nat) : Bool := decide (65 ≤ c ∧ c ≤ 90)

/-- `y` is `x`, or its ASCII upper- or lower-case variant -/
def CaseOf (x y : Nat) : Prop := y = x ∨ y = up x ∨ y = low x

instance (x y : Nat) : Decidable (CaseOf x y) := by unfold CaseOf; exact inferInstance

/-- the tokens span the whole text (true of `PlainEnglish`, which lexes every character; a
monitor of the harness) -/
def Covers (toks : List TTok) (src : List Nat) : Prop := spanOf toks = some (0, src.length)

instance (toks : List TTok) (src : List Nat) : Decidable (Covers toks src) := by
  unfold Covers; exact inferInstance

/-- every token lies in `[si, hi]`, word-like tokens are non-empty, canonical spellings are at
least as long as their token -/
def Bounded (si hi : Nat) (toks : List TTok) : Prop :=
  ∀ w ∈ toks, si ≤ w.start ∧ w.start ≤ w.stop ∧ w.stop ≤ hi ∧ (w.wordLike = true → w.start < w.stop) ∧
    ∀ c, w.canon = some c → w.stop - w.start ≤ c.length

end Harper.Title
