/-!
# The statistics log (`harper-stats/src/lib.rs`, `summary.rs`) and the two library layers it rests on

* `escape` / `escapeChar` — serde_json's string escaping (`ser.rs`, table `ESCAPE` +
  `format_escaped_str_contents` + `write_char_escape`): `"`→`\"`, `\`→`\\`, 0x08→`\b`, 0x0C→`\f`,
  0x0A→`\n`, 0x0D→`\r`, 0x09→`\t`, every other byte < 0x20 → `\u00XX` (lower-case hex), all other
  characters (0x7F, non-ASCII, U+2028 …) verbatim.
* `unescape` / `parseJsonString` — serde_json's string parser (`read.rs`: `parse_str_bytes`,
  `parse_escape`, `parse_unicode_escape` with `validate = true`): raw `"` ends the string, raw
  control characters are rejected, `\uXXXX` accepts both hex cases, surrogates must be paired.
* `lines` — `std::io::BufRead::lines` (= `str::lines`): a line is what `read_line` returns, minus
  the terminating `\n`, minus ONE `\r` directly before that `\n`; no line after a final `\n`; a
  last line without `\n` keeps a trailing `\r`.
* `writeLog` / `readLog` — `Stats::write` (serialised record + `'\n'`, per record) and
  `Stats::read` (`lines` then `serde_json::from_str` per line, first error aborts).
* `summarize` — `Stats::summarize` with `Summary::inc_lint_count` / `inc_misspelled_count`.

Import-free. Text is `List Char`.
-/
namespace Harper.Stats

/-! ## serde_json string escaping -/

/-- `HEX_DIGITS = b"0123456789abcdef"` -/
def hexDigit (n : Nat) : Char :=
  if n < 10 then Char.ofNat (48 + n) else Char.ofNat (87 + n)

/-- one character through the `ESCAPE` table (`__` = 0 = verbatim). Multi-byte characters consist
of bytes ≥ 0x80 whose table entries are all `__`, so they are copied unchanged. -/
def escapeChar (c : Char) : List Char :=
  if c = '"' then ['\\', '"']
  else if c = '\\' then ['\\', '\\']
  else if c = '\x08' then ['\\', 'b']
  else if c = '\x0c' then ['\\', 'f']
  else if c = '\n' then ['\\', 'n']
  else if c = '\r' then ['\\', 'r']
  else if c = '\t' then ['\\', 't']
  else if c.toNat < 0x20 then
    ['\\', 'u', '0', '0', hexDigit (c.toNat / 16), hexDigit (c.toNat % 16)]
  else [c]

/-- `format_escaped_str_contents` (the surrounding quotes are `jsonString`'s business) -/
def escape : List Char → List Char
  | [] => []
  | c :: cs => escapeChar c ++ escape cs

/-- `format_escaped_str`: `"` + contents + `"` — `serde_json::to_string(&String)` -/
def jsonString (s : List Char) : List Char := '"' :: (escape s ++ ['"'])

/-! ## serde_json string parsing -/

/-- `decode_hex_val` -/
def hexVal (c : Char) : Option Nat :=
  let n := c.toNat
  if 48 ≤ n ∧ n ≤ 57 then some (n - 48)
  else if 97 ≤ n ∧ n ≤ 102 then some (n - 87)
  else if 65 ≤ n ∧ n ≤ 70 then some (n - 55)
  else none

/-- `decode_hex_escape` -/
def hex4 (a b c d : Char) : Option Nat :=
  match hexVal a, hexVal b, hexVal c, hexVal d with
  | some a, some b, some c, some d => some (((a * 16 + b) * 16 + c) * 16 + d)
  | _, _, _, _ => none

/-- the single-character escapes of `parse_escape` -/
def simpleEscape (e : Char) : Option Char :=
  if e = '"' then some '"'
  else if e = '\\' then some '\\'
  else if e = '/' then some '/'
  else if e = 'b' then some '\x08'
  else if e = 'f' then some '\x0c'
  else if e = 'n' then some '\n'
  else if e = 'r' then some '\r'
  else if e = 't' then some '\t'
  else none

/-- Decode one character from the front of a string body: `none` = the parser rejects here
(raw quote, raw control character, bad escape, unpaired surrogate, truncated escape). -/
def unescapeStep : List Char → Option (Char × List Char)
  | [] => none
  | c :: rest =>
    if c = '\\' then
      match rest with
      | [] => none
      | e :: rest' =>
        if e = 'u' then
          match rest' with
          | h1 :: h2 :: h3 :: h4 :: r =>
            match hex4 h1 h2 h3 h4 with
            | none => none
            | some n =>
              if 0xDC00 ≤ n ∧ n ≤ 0xDFFF then none
              else if 0xD800 ≤ n ∧ n ≤ 0xDBFF then
                match r with
                | '\\' :: 'u' :: k1 :: k2 :: k3 :: k4 :: r' =>
                  match hex4 k1 k2 k3 k4 with
                  | none => none
                  | some m =>
                    if 0xDC00 ≤ m ∧ m ≤ 0xDFFF then
                      some (Char.ofNat (0x10000 + (n - 0xD800) * 0x400 + (m - 0xDC00)), r')
                    else none
                | _ => none
              else some (Char.ofNat n, r)
          | _ => none
        else
          match simpleEscape e with
          | some x => some (x, rest')
          | none => none
    else if c = '"' ∨ c.toNat < 0x20 then none
    else some (c, rest)

/-- the parse loop; every step consumes at least one character, so `fuel = length` suffices -/
def unescapeFuel : Nat → List Char → Option (List Char)
  | _, [] => some []
  | 0, _ :: _ => none
  | fuel + 1, c :: cs =>
    match unescapeStep (c :: cs) with
    | none => none
    | some (x, rest) =>
      match unescapeFuel fuel rest with
      | none => none
      | some out => some (x :: out)

/-- contents of a JSON string literal (between the quotes) → the string -/
def unescape (s : List Char) : Option (List Char) := unescapeFuel s.length s

/-- a JSON string literal, nothing before or after it: `"` body `"` -/
def parseQuoted : List Char → Option (List Char)
  | '"' :: rest =>
    match rest.reverse with
    | '"' :: bodyRev => unescape bodyRev.reverse
    | _ => none
  | _ => none

/-- JSON white space (`parse_whitespace`: space, `\n`, `\t`, `\r`) -/
def isJsonWs (c : Char) : Bool := c = ' ' || c = '\n' || c = '\t' || c = '\r'

/-- white space before the value and after it (`Deserializer::end`) is skipped -/
def trimJsonWs (l : List Char) : List Char :=
  ((l.dropWhile isJsonWs).reverse.dropWhile isJsonWs).reverse

/-- `serde_json::from_str::<String>` -/
def parseJsonString (l : List Char) : Option (List Char) := parseQuoted (trimJsonWs l)

/-! ### a record that is a fixed skeleton around one string

`{"kind":{"Lint":{"kind":"Spelling","context":[{"content":` **string** `,"kind":"Unlintable"}]}},"when":0,"uuid":"…"}`:
the derive-generated skeleton is an opaque prefix/suffix pair (handed over by the harness), the
user-controlled text is the string. -/

def stripPrefix : List Char → List Char → Option (List Char)
  | [], l => some l
  | _ :: _, [] => none
  | p :: ps, c :: cs => if p = c then stripPrefix ps cs else none

def stripSuffix (suf l : List Char) : Option (List Char) :=
  match stripPrefix suf.reverse l.reverse with
  | some r => some r.reverse
  | none => none

def frameSer (pre suf s : List Char) : List Char := pre ++ (jsonString s ++ suf)

/-- exact skeleton (no white space between tokens), white space around the record skipped -/
def frameParse (pre suf l : List Char) : Option (List Char) :=
  match stripPrefix pre (trimJsonWs l) with
  | none => none
  | some r =>
    match stripSuffix suf r with
    | none => none
    | some m => parseQuoted m

/-! ## `BufRead::lines` -/

/-- `read_line` returned a buffer ending in `\n`: pop it (it is never pushed on `accRev`), then pop
one `\r` if the buffer now ends with one. `accRev` is the buffer reversed. -/
def finishLine : List Char → List Char
  | '\r' :: r => r.reverse
  | r => r.reverse

/-- `accRev` = the current `read_line` buffer, reversed. At end of input an empty buffer means
`read_line` returned `Ok(0)`: the iterator ends; a non-empty one is a last, unterminated line. -/
def linesGo (accRev : List Char) : List Char → List (List Char)
  | [] => if accRev.isEmpty then [] else [accRev.reverse]
  | c :: rest =>
    if c = '\n' then finishLine accRev :: linesGo [] rest
    else linesGo (c :: accRev) rest

def lines (s : List Char) : List (List Char) := linesGo [] s

/-! ## `Stats::write` / `Stats::read` -/

/-- `Stats::write` on already serialised records: each followed by `'\n'` -/
def writeLog : List (List Char) → List Char
  | [] => []
  | l :: ls => l ++ '\n' :: writeLog ls

/-- `Stats::write` with the record serialiser `ser` (`serde_json::Serializer` on a `Record`) -/
def write {ρ} (ser : ρ → List Char) (rs : List ρ) : List Char := writeLog (rs.map ser)

/-- the `for line_res in br.lines()` loop: the first line that does not parse aborts the read -/
def parseAll {ρ} (parse : List Char → Option ρ) : List (List Char) → Option (List ρ)
  | [] => some []
  | l :: ls =>
    match parse l with
    | none => none
    | some r =>
      match parseAll parse ls with
      | none => none
      | some rs => some (r :: rs)

/-- `Stats::read` with the record parser `parse` (`serde_json::from_str::<Record>`) -/
def read {ρ} (parse : List Char → Option ρ) (s : List Char) : Option (List ρ) :=
  parseAll parse (lines s)

/-- the log of JSON-string records (the concrete instance the theorems are instantiated with) -/
def readLog (s : List Char) : Option (List (List Char)) := read parseJsonString s

/-! ## `Stats::summarize` -/

/-- What `summarize` looks at in a record: the lint kind and the contents of the context tokens of
kind `Word(None)` (words not in the dictionary), or the configuration of a config update.
Kinds and configurations are opaque numbers (configuration 0 = `LintGroupConfig::default()`). -/
inductive Rec where
  | lint (kind : Nat) (unknownWords : List (List Char))
  | configUpdate (cfg : Nat)
  deriving Repr, DecidableEq, Inhabited

structure Summary where
  /-- `lint_counts: HashMap<LintKind, u32>` as an association list in first-insertion order -/
  lintCounts : List (Nat × Nat) := []
  totalApplied : Nat := 0
  finalConfig : Nat := 0
  /-- `misspelled: HashMap<String, u32>` in first-insertion order -/
  misspelled : List (List Char × Nat) := []
  deriving Repr, DecidableEq, Inhabited

/-- `entry(k).and_modify(|c| *c += 1).or_insert(1)` (also the shape of `inc_misspelled_count`) -/
def bump {κ} [DecidableEq κ] (k : κ) : List (κ × Nat) → List (κ × Nat)
  | [] => [(k, 1)]
  | (k', n) :: m => if k' = k then (k', n + 1) :: m else (k', n) :: bump k m

/-- `map.get(k).copied().unwrap_or(0)` -/
def getCount {κ} [DecidableEq κ] (k : κ) : List (κ × Nat) → Nat
  | [] => 0
  | (k', n) :: m => if k' = k then n else getCount k m

def bumpAll (ws : List (List Char)) (m : List (List Char × Nat)) : List (List Char × Nat) :=
  ws.foldl (fun m w => bump w m) m

/-- the body of the `for record in &self.records` loop -/
def Summary.step (s : Summary) : Rec → Summary
  | .lint kind ws =>
    { s with lintCounts := bump kind s.lintCounts, totalApplied := s.totalApplied + 1,
             misspelled := bumpAll ws s.misspelled }
  | .configUpdate cfg => { s with finalConfig := cfg }

def summarizeFrom (s : Summary) (rs : List Rec) : Summary := rs.foldl Summary.step s

def summarize (rs : List Rec) : Summary := summarizeFrom {} rs

end Harper.Stats
