import Harper.Basic.Token
import Harper.Model.Rules
import Harper.Model.Leaves
/-!
# Hand-written (`Linter`) rules, batch 2 (`insert_struct_rule!` of `lint_group.rs`)

Same conventions as `Model/Rules.lean`: `ruleX : Env → List Char → List Tok → Except Panic (List RuleLint)`;
panics are values (`Span::new`, `get_span_content`, `unwrap`, slice indexing, `usize` subtraction);
what a rule reads that a `Tok` does not carry is `Env` data of the token's TEXT.

Three shapes of iteration:

* per token (`perTok`): SpelledNumbers, CapitalizePersonalPronouns, AvoidCurses, WordPressDotcom;
* per chunk / per sentence (`overPieces`): LinkingVerbs (its own loop over the chunk), OxfordComma and
  NoOxfordComma (their own `loop` over a sentence — `run_on_chunk`'s shape, `runOnChunkGo`, started at a
  cursor — around a `SequencePattern` built from the real leaves, `Leaves.RPat`), WidelyAccepted and TheHowWhy
  (`PatternLinter`s registered as struct rules: `run_on_chunk` + their own `match_to_lint`);
* **over the whole document with index arithmetic** (`walkE`): CommaFixes (`get_token(ci ± 1, 2)`),
  MergeWords (`document.tokens().tuple_windows()`), AdjectiveOfA (`get_token(i + 1 … i + 4)`),
  InflectedVerbAfterTo (`get_token(pi + 1)`, `get_token(pi + 2)`; registered with `out.add`). `walkE f`
  calls `f` at every position with the tokens BEFORE it (nearest first) and the tokens FROM it on.

Word-metadata bits used here beyond those of `Model/Leaves.lean` (0–17): 18 `TokenKind::is_swear`,
19 `FstDictionary::curated().contains_word(text)` (MergeWords asks it of a token's text and of the
concatenations `a ++ b`, `a ++ "'" ++ b`).
`Env.numVal t = .int n` here means: the `Number`'s value passes SpelledNumbers' test
`(value - value.floor()).abs() < f64::EPSILON` and `n = value as u64`.

Message codes (lint kind and priority are constants of the code, checked by the harness):
21 SpelledNumbers · 22 CapitalizePersonalPronouns · 23 AvoidCurses · 24 WordPressDotcom · 25 LinkingVerbs ·
26 CommaFixes (arg = which of the three messages are joined: 1 space-before + 2 asian + 4 space-after) ·
27 MergeWords (merge) · 28 MergeWords (contraction) · 29 OxfordComma · 30 NoOxfordComma · 31 AdjectiveOfA ·
32 WidelyAccepted · 33 TheHowWhy · 34 InflectedVerbAfterTo.
-/
namespace Harper.Rules2
open Harper Harper.Chunks Harper.Rules Harper.Leaves

/-- bit `bit` of the metadata of an arbitrary text (not necessarily a token's) -/
def textFlag (env : Env) (w : List Char) (bit : Nat) : Bool := flagBit (env.wordFlags w) bit

/-! ## SpelledNumbers (per number token) -/

/-- `spell_out_number(n)` for the only arguments the rule can pass (`value < 10.`): the first ten arms -/
def spellDigit : Nat → Option (List Char)
  | 0 => some ['z', 'e', 'r', 'o']
  | 1 => some ['o', 'n', 'e']
  | 2 => some ['t', 'w', 'o']
  | 3 => some ['t', 'h', 'r', 'e', 'e']
  | 4 => some ['f', 'o', 'u', 'r']
  | 5 => some ['f', 'i', 'v', 'e']
  | 6 => some ['s', 'i', 'x']
  | 7 => some ['s', 'e', 'v', 'e', 'n']
  | 8 => some ['e', 'i', 'g', 'h', 't']
  | 9 => some ['n', 'i', 'n', 'e']
  | _ => none

/-- `let Number { value, suffix: None, .. } = … else { continue }`, the integrality test, `value < 10.`,
`spell_out_number(value as u64).unwrap()` -/
def spelledNumbersTok (env : Env) (src : List Char) (t : Tok) : Except Panic (List RuleLint) :=
  match t.kind with
  | .number _ none =>
    match env.numVal (textOf src t.span) with
    | .int n =>
      if n < 10 then
        match spellDigit n with
        | some s => .ok [⟨t.span, [.replaceWith s], 21, 0⟩]
        | none => .error .unwrapNone
      else .ok []
    | .nonInt => .ok []
  | _ => .ok []

def ruleSpelledNumbers (env : Env) : PieceRule := perTok (spelledNumbersTok env)

/-! ## CapitalizePersonalPronouns (per word token) -/

/-- the six slices of the `matches!` (the fourth is `i'd\ve` in the source) -/
def lowerIForms : List (List Char) :=
  [['i'], ['i', '\'', 'd'], ['i', '\'', 'd', '\\', 'v', 'e'], ['i', '\'', 'l', 'l'], ['i', '\'', 'm'], ['i', '\'', 'v', 'e']]

def capitalizePronounTok (src : List Char) (t : Tok) : Except Panic (List RuleLint) :=
  if !t.kind.isWord then .ok []
  else
    match t.span.getContent src with
    | .error e => .error e
    | .ok cs =>
      if lowerIForms.contains cs then .ok [⟨t.span, [.replaceWith ('I' :: cs.drop 1)], 22, 0⟩] else .ok []

def ruleCapitalizePersonalPronouns (_env : Env) : PieceRule := perTok capitalizePronounTok

/-! ## AvoidCurses (per word token) -/

def avoidCursesTok (env : Env) (src : List Char) (t : Tok) : Except Panic (List RuleLint) :=
  if hasFlag env src t 18 then .ok [⟨t.span, [], 23, 0⟩] else .ok []

def ruleAvoidCurses (env : Env) : PieceRule := perTok (avoidCursesTok env)

/-! ## WordPressDotcom (per hostname token) -/

def wordPressCorrect : List Char := ['W', 'o', 'r', 'd', 'P', 'r', 'e', 's', 's', '.', 'c', 'o', 'm']

def isHostname : Kind → Bool
  | .hostname => true
  | _ => false

def wordPressTok (env : Env) (src : List Char) (t : Tok) : Except Panic (List RuleLint) :=
  if !isHostname t.kind then .ok []
  else
    match t.span.getContent src with
    | .error e => .error e
    | .ok text =>
      if wordPressCorrect != text && toLowerCow env text == toLowerCow env wordPressCorrect then
        .ok [⟨t.span, [.replaceWith wordPressCorrect], 24, 0⟩]
      else .ok []

def ruleWordPressDotcom (env : Env) : PieceRule := perTok (wordPressTok env)

/-! ## LinkingVerbs (per chunk) -/

/-- the body for the linking verb `t` with `prev = chunk[0..idx].last_word()`: the previous word must be
known to the dictionary (`Word(Some(_))`) and not a nominal; `get_span_content` of the verb (for the message) -/
def linkingAt (env : Env) (src : List Char) (prev : Option Tok) (t : Tok) : Except Panic (List RuleLint) :=
  if hasFlag env src t 11 then
    match prev with
    | none => .ok []
    | some p =>
      if hasFlag env src p 15 && !hasFlag env src p 6 then
        match t.span.getContent src with
        | .error e => .error e
        | .ok _ => .ok [⟨t.span, [], 25, 0⟩]
      else .ok []
  else .ok []

/-- `for idx in chunk.iter_linking_verb_indices()`; `prev` = the last word token before the cursor -/
def linkingGo (env : Env) (src : List Char) : Option Tok → List Tok → Except Panic (List RuleLint)
  | _, [] => .ok []
  | prev, t :: ts =>
    match linkingAt env src prev t with
    | .error e => .error e
    | .ok l =>
      match linkingGo env src (if t.kind.isWord then some t else prev) ts with
      | .error e => .error e
      | .ok r => .ok (l ++ r)

def linkingVerbsPiece (env : Env) : PieceRule := fun src chunk => linkingGo env src none chunk

def ruleLinkingVerbs (env : Env) : PieceRule := overPieces iterChunks (linkingVerbsPiece env)

/-! ## rules that index the whole document -/

/-- `for i in 0..tokens.len() { body(tokens[..i] (nearest first), tokens[i..]) }` -/
def walkE (f : List Tok → List Tok → Except Panic (List RuleLint)) : List Tok → List Tok → Except Panic (List RuleLint)
  | _, [] => .ok []
  | pre, t :: ts =>
    match f pre (t :: ts) with
    | .error e => .error e
    | .ok a =>
      match walkE f (t :: pre) ts with
      | .error e => .error e
      | .ok b => .ok (a ++ b)

/-! ### CommaFixes -/

/-- what the arms of the `match kinds` distinguish of a neighbour: `Some(Word(_))`, `Some(Space(_))`,
`Some(Unlintable)`, anything else (`None` included) -/
inductive KC where
  | word | space | unl | other
  deriving Repr, DecidableEq, Inhabited

def kcOf : Option Tok → KC
  | some t =>
    match t.kind with
    | .word => .word
    | .space _ => .space
    | .unlintable => .unl
    | _ => .other
  | none => .other

/-- the character under the comma token: `','`, `'、' | '，'`, anything else -/
inductive CommaCh where
  | ascii | asian | other
  deriving Repr, DecidableEq, Inhabited

def commaChOf (c : Char) : CommaCh :=
  if c == ',' then .ascii else if c == '、' || c == '，' then .asian else .other

/-- which span the lint gets: the comma token, the space token before it, from that space to the comma -/
inductive CommaSpan where
  | comma | spaceBefore | spaceToComma
  deriving Repr, DecidableEq, Inhabited

/-- the `match kinds { … }`, arm by arm in source order; `none` = `continue` -/
def commaDecide (k0 k1 : KC) (c : CommaCh) (k3 k4 : KC) : Option (CommaSpan × Sugg × Nat) :=
  match k0, k1, c, k3, k4 with
  | _, .word, .asian, .space, .word => some (.comma, .replaceWith [','], 2)
  | .word, .space, .ascii, .space, .word => some (.spaceBefore, .remove, 1)
  | .word, .space, .asian, .space, .word => some (.spaceToComma, .replaceWith [','], 3)
  | _, .word, .ascii, .word, _ => some (.comma, .insertAfter [' '], 4)
  | _, .word, .asian, .word, _ => some (.comma, .replaceWith [',', ' '], 6)
  | .word, .space, .ascii, .word, _ => some (.spaceToComma, .replaceWith [',', ' '], 5)
  | .word, .space, .asian, .word, _ => some (.spaceToComma, .replaceWith [',', ' '], 7)
  | _, .unl, .asian, _, _ => none
  | _, _, .asian, .unl, _ => none
  | _, _, .asian, _, _ => some (.comma, .replaceWith [','], 2)
  | _, _, _, _, _ => none

/-- the loop body at one position: `pre` = the tokens before (nearest first), `suf` = from the comma on -/
def commaAt (src : List Char) (pre suf : List Tok) : Except Panic (List RuleLint) :=
  match suf with
  | [] => .ok []
  | c :: rest =>
    if !isComma c.kind then .ok []
    else
      -- `*toks.2.span.get_content(source).first().unwrap()`
      match c.span.getContent src with
      | .error e => .error e
      | .ok cs =>
        match cs.head? with
        | none => .error .unwrapNone
        | some ch =>
          match commaDecide (kcOf pre[1]?) (kcOf pre[0]?) (commaChOf ch) (kcOf rest[0]?) (kcOf rest[1]?) with
          | none => .ok []
          | some (.comma, sg, arg) => .ok [⟨c.span, [sg], 26, arg⟩]
          | some (.spaceBefore, sg, arg) =>
            match pre[0]? with
            | none => .error .unwrapNone
            | some s => .ok [⟨s.span, [sg], 26, arg⟩]
          | some (.spaceToComma, sg, arg) =>
            match pre[0]? with
            | none => .error .unwrapNone
            | some s =>
              match Span.new s.span.start c.span.stop with
              | .error e => .error e
              | .ok sp => .ok [⟨sp, [sg], 26, arg⟩]

def ruleCommaFixes (_env : Env) : PieceRule := fun src toks => walkE (commaAt src) [] toks

/-! ### MergeWords -/

/-- `if dict.contains_word(&merged) && (!dict.contains_word(a) || !dict.contains_word(b)) { lints.push(Lint { span: Span::new(a.start, b.end), … }) }` -/
def mergeLint (cond : Bool) (a b : Tok) (merged : List Char) (code : Nat) : Except Panic (List RuleLint) :=
  if cond then
    match Span.new a.span.start b.span.stop with
    | .error e => .error e
    | .ok sp => .ok [⟨sp, [.replaceWith merged], code, 0⟩]
  else .ok []

/-- the body of `for (a, w, b) in document.tokens().tuple_windows()` at the window that starts here -/
def mergeAt (env : Env) (src : List Char) (_pre suf : List Tok) : Except Panic (List RuleLint) :=
  match suf with
  | a :: w :: b :: _ =>
    if !a.kind.isWord || !w.kind.isWhitespace || !b.kind.isWord then .ok []
    else
      match a.span.getContent src with
      | .error e => .error e
      | .ok ac =>
        match b.span.getContent src with
        | .error e => .error e
        | .ok bc =>
          if (ac.length == 1 && ac.all env.isUpper) || (bc.length == 1 && bc.all env.isUpper) then .ok []
          else if ac == ['a'] || bc == ['a'] then .ok []
          else
            let split := !textFlag env ac 19 || !textFlag env bc 19
            match mergeLint (textFlag env (ac ++ bc) 19 && split) a b (ac ++ bc) 27 with
            | .error e => .error e
            | .ok l1 =>
              match mergeLint (textFlag env (ac ++ '\'' :: bc) 19 && split) a b (ac ++ '\'' :: bc) 28 with
              | .error e => .error e
              | .ok l2 => .ok (l1 ++ l2)
  | _ => .ok []

def ruleMergeWords (env : Env) : PieceRule := fun src toks => walkE (mergeAt env src) [] toks

/-! ### AdjectiveOfA -/

def adjFalsePositives : List (List Char) :=
  [['a', 'l', 'l'], ['e', 'm', 'b', 'l', 'e', 'm', 'a', 't', 'i', 'c'], ['e', 'q', 'u', 'i', 'v', 'a', 'l', 'e', 'n', 't'],
   ['f', 'u', 'l', 'l'], ['f', 'u', 'n'], ['i', 'n', 's', 'i', 'd', 'e'], ['m', 'o', 'r', 'e'], ['m', 'u', 'c', 'h'], ['o', 'f', 'f'],
   ['o', 'u', 't'], ['s', 'h', 'y'], ['u', 'p'], ['b', 'a', 'c', 'k'], ['b', 'i', 't'], ['b', 'o', 't', 't', 'o', 'm'],
   ['c', 'h', 'a', 'n', 'c', 'e'], ['c', 'l', 'o', 'c', 'k', 'w', 'o', 'r', 'k'], ['d', 'e', 'r', 'i', 'v', 'a', 't', 'i', 'v', 'e'],
   ['d', 'r', 'e', 'a', 'm'], ['e', 'i', 'g', 'h', 't', 'h'], ['f', 'r', 'o', 'n', 't'], ['h', 'a', 'l', 'f'], ['h', 'e', 'a', 'd'],
   ['k', 'i', 'n', 'd'], ['l', 'e', 'f', 't'], ['m', 'e', 'a', 'n', 'i', 'n', 'g'], ['m', 'i', 'd', 'd', 'l', 'e'], ['o', 'n', 'e'],
   ['p', 'a', 'r', 't'], ['p', 'o', 't', 'e', 'n', 't', 'i', 'a', 'l'], ['p', 'r', 'e', 'c', 'i', 's', 'i', 'o', 'n'],
   ['s', 'h', 'a', 'd', 'o', 'w'], ['s', 'i', 'd', 'e'], ['s', 'h', 'o', 'r', 't'], ['s', 'o', 'm', 'e', 't', 'h', 'i', 'n', 'g'],
   ['s', 'o', 'u', 'n', 'd']]

/-- `word.eq_ignore_ascii_case(false_pos)` (on `String`s; the list is ASCII, so byte-wise = character-wise) -/
def isFalsePositive (cs : List Char) : Bool :=
  adjFalsePositives.any fun w => cs.length == w.length && eqIgnoreAsciiCase cs w

/-- `slice.ends_with(suffix)` -/
def endsWith (cs sfx : List Char) : Bool := sfx.length ≤ cs.length && cs.drop (cs.length - sfx.length) == sfx

/-- the loop body after the tests on the adjective itself: `rest` = the tokens after it -/
def adjOfATail (src : List Char) (adj : Tok) (adjc : List Char) (rest : List Tok) : Except Panic (List RuleLint) :=
  match rest with
  | s1 :: wOf :: s2 :: a :: _ =>
    if !s1.kind.isWhitespace then .ok []
    else if !wOf.kind.isWord then .ok []
    else
      match wOf.span.getContent src with
      | .error e => .error e
      | .ok ofc =>
        if ofc != ['o', 'f'] then .ok []
        else if !s2.kind.isWhitespace then .ok []
        else if !a.kind.isWord then .ok []
        else
          match a.span.getContent src with
          | .error e => .error e
          | .ok ac =>
            if ac != ['a'] && ac != ['a', 'n'] then .ok []
            else
              match s1.span.getContent src with
              | .error e => .error e
              | .ok s1c =>
                match s2.span.getContent src with
                | .error e => .error e
                | .ok s2c =>
                  let sugg1 := adjc ++ s1c ++ ac
                  let sugg2 := adjc ++ s2c ++ ac
                  match Span.new adj.span.start a.span.stop with
                  | .error e => .error e
                  | .ok sp =>
                    .ok [⟨sp, .replaceWith sugg1 :: (if sugg1 != sugg2 then [.replaceWith sugg2] else []), 31, 0⟩]
  | _ => .ok []

/-- the loop body at the adjective `adj = suf[0]` -/
def adjOfAAt (env : Env) (src : List Char) (_pre suf : List Tok) : Except Panic (List RuleLint) :=
  match suf with
  | [] => .ok []
  | adj :: rest =>
    if !hasFlag env src adj 3 then .ok []
    else
      match adj.span.getContent src with
      | .error e => .error e
      | .ok adjc =>
        if isFalsePositive adjc then .ok []
        else if endsWith adjc ['e', 'r'] || endsWith adjc ['s', 't'] then .ok []
        else if endsWith adjc ['i', 'n', 'g'] && (hasFlag env src adj 8 && hasFlag env src adj 7) then .ok []
        else adjOfATail src adj adjc rest

def ruleAdjectiveOfA (env : Env) : PieceRule := fun src toks => walkE (adjOfAAt env src) [] toks

/-! ### InflectedVerbAfterTo (`out.add("InflectedVerbAfterTo", …)` after the macro block) -/

/-- one push after the other; the first panic wins -/
def thenE (a b : Except Panic (List RuleLint)) : Except Panic (List RuleLint) :=
  match a with
  | .error e => .error e
  | .ok x =>
    match b with
    | .error e => .error e
    | .ok y => .ok (x ++ y)

/-- `if chars.ends_with(sfx) { check_stem(stem) }` (`ends` = the test): `dictionary.get_word_metadata(stem)` is
`Some`, a verb and not a noun → `Span::new(prep.start, word.end)` and `prep_to ++ " " ++ stem` -/
def checkStem (env : Env) (ends : Bool) (prep word : Tok) (prepTo stem : List Char) : Except Panic (List RuleLint) :=
  if ends && (textFlag env stem 15 && textFlag env stem 7 && !textFlag env stem 8) then
    match Span.new prep.span.start word.span.stop with
    | .error e => .error e
    | .ok sp => .ok [⟨sp, [.replaceWith (prepTo ++ ' ' :: stem)], 34, 0⟩]
  else .ok []

/-- the loop body at the preposition `prep = suf[0]`: `get_token(pi + 1)`, `get_token(pi + 2)` -/
def inflectedAt (env : Env) (src : List Char) (_pre suf : List Tok) : Except Panic (List RuleLint) :=
  match suf with
  | prep :: space :: word :: _ =>
    if !hasFlag env src prep 0 then .ok []
    else if !space.kind.isWhitespace || !word.kind.isWord then .ok []
    else
      match prep.span.getContent src with
      | .error e => .error e
      | .ok prepTo =>
        if prepTo != ['t', 'o'] && prepTo != ['T', 'o'] then .ok []
        else
          match word.span.getContent src with
          | .error e => .error e
          | .ok chars =>
            if chars.length < 4 then .ok []
            else
              let stem := fun k => chars.take (chars.length - k)
              let ed := endsWith chars ['e', 'd']
              thenE (thenE (checkStem env ed prep word prepTo (stem 2)) (checkStem env ed prep word prepTo (stem 1)))
                (thenE (checkStem env (endsWith chars ['e', 's']) prep word prepTo (stem 2))
                  (checkStem env (endsWith chars ['s']) prep word prepTo (stem 1)))
  | _ => .ok []

def ruleInflectedVerbAfterTo (env : Env) : PieceRule := fun src toks => walkE (inflectedAt env src) [] toks

/-! ## pattern trees, written with lists -/

def sq (ps : List RPat) : RPat := .seq (RPats.ofList ps)
def kp (q : KP) : RPat := .leaf (.kind q false)
def ws : RPat := .leaf .whitespace
def aco (w : List Char) : RPat := .leaf (.anyCap w)
def wset (ws : List (List Char)) : RPat := .leaf (.wordSet ws)

def andOrNor : List (List Char) := [['a', 'n', 'd'], ['o', 'r'], ['n', 'o', 'r']]

/-! ## OxfordComma (per sentence) -/

/-- `then_determiner().then_whitespace().then_nominal().or(then_nominal())` -/
def oxfordItem : RPat := .either (RPats.ofList [sq [kp .determiner, ws, kp .nominal], sq [kp .nominal]])

/-- `then_one_or_more(item , ␣).then(item).then_whitespace().then(WordSet[and, or, nor]).then_whitespace().then(item)` -/
def oxfordPat : RPat :=
  sq [oneOrMore (sq [oxfordItem, kp .comma, ws]), oxfordItem, ws, wset andOrNor, ws, oxfordItem]

/-- `iter().rev().position(p).map(|i| len - i - 1)` (`last_conjunction_index`, `last_comma_index`): the last
index whose token satisfies `p` -/
def lastIndexWhere (p : Tok → Bool) : List Tok → Option Nat
  | [] => none
  | t :: ts =>
    match lastIndexWhere p ts with
    | some i => some (i + 1)
    | none => if p t then some 0 else none

/-- `iter().position(p)` -/
def firstIndexWhere (p : Tok → Bool) : List Tok → Option Nat
  | [] => none
  | t :: ts => if p t then some 0 else (firstIndexWhere p ts).map (· + 1)

/-- `OxfordComma::match_to_lint`: `matched_toks[conj_index - 2]` (the subtraction is checked) -/
def oxfordMatch (env : Env) (src : List Char) (m : List Tok) : Except Panic (List RuleLint) :=
  match lastIndexWhere (fun t => hasFlag env src t 1) m with
  | none => .ok []
  | some ci =>
    if ci < 2 then .error .underflow
    else
      match m[ci - 2]? with
      | none => .error .sliceOOB
      | some off => .ok [⟨off.span, [.insertAfter [',']], 29, 0⟩]

/-- the words the dictionary knows: `sentence.iter_words().filter_map(|v| v.kind.as_word()).flatten()` -/
def knownWords (env : Env) (src : List Char) (sent : List Tok) : List Tok :=
  sent.filter fun t => hasFlag env src t 15

/-- where the loop starts: at the first comma (or at the end) when the first two known words are a
preposition and a likely homograph -/
def oxfordStart (env : Env) (src : List Char) (sent : List Tok) : Nat :=
  match knownWords env src sent with
  | first :: second :: _ =>
    if hasFlag env src first 0 && hasFlag env src second 2 then
      match firstIndexWhere (fun t => isComma t.kind) sent with
      | some i => i
      | none => sent.length
    else 0
  | _ => 0

def oxfordPiece (env : Env) : PieceRule := fun src sent =>
  runOnChunkGo (oxfordPat.matcher env) (oxfordMatch env) src (oxfordStart env src sent) sent

def ruleOxfordComma (env : Env) : PieceRule := overPieces iterSentences (oxfordPiece env)

/-! ## NoOxfordComma (per sentence) -/

def noOxfordPat : RPat :=
  sq [.leaf .nominalPhrase, kp .comma, ws, .leaf .nominalPhrase, kp .comma, ws, wset andOrNor]

def noOxfordMatch (_env : Env) (_src : List Char) (m : List Tok) : Except Panic (List RuleLint) :=
  match lastIndexWhere (fun t => isComma t.kind) m with
  | none => .ok []
  | some ci =>
    match m[ci]? with
    | none => .error .sliceOOB
    | some off => .ok [⟨off.span, [.remove], 30, 0⟩]

def noOxfordPiece (env : Env) : PieceRule := fun src sent =>
  runOnChunkGo (noOxfordPat.matcher env) (noOxfordMatch env) src 0 sent

def ruleNoOxfordComma (env : Env) : PieceRule := overPieces iterSentences (noOxfordPiece env)

/-! ## WidelyAccepted, TheHowWhy (`PatternLinter`s: `run_on_chunk` per chunk) -/

def widelyPat : RPat :=
  sq [aco ['w', 'i', 'd', 'e'], ws,
    wset [['a', 'c', 'c', 'e', 'p', 't', 'e', 'd'], ['a', 'c', 'c', 'e', 'p', 't', 'a', 'b', 'l', 'e'], ['u', 's', 'e', 'd']]]

/-- `matched_tokens.first()?`, its text, `replace_with_match_case_str("widely", wide_chars)` -/
def widelyMatch (env : Env) (src : List Char) (m : List Tok) : Except Panic (List RuleLint) :=
  match m.head? with
  | none => .ok []
  | some wide =>
    match wide.span.getContent src with
    | .error e => .error e
    | .ok wc => .ok [⟨wide.span, [.replaceWith (matchCase env ['w', 'i', 'd', 'e', 'l', 'y'] wc)], 32, 0⟩]

def widelyPiece (env : Env) : PieceRule := fun src chunk =>
  runOnChunkGo (widelyPat.matcher env) (widelyMatch env) src 0 chunk

def ruleWidelyAccepted (env : Env) : PieceRule := overPieces iterChunks (widelyPiece env)

def theW (w : List Char) : List RPat := [aco ['t', 'h', 'e'], ws, aco w]

def theHowWhyPat : RPat :=
  .either (RPats.ofList [
    sq (theW ['h', 'o', 'w'] ++ [.invert (sq [ws, aco ['t', 'o']])]),
    sq (theW ['w', 'h', 'o'] ++ [.invert (sq [ws, aco ['\'', 's'], ws, aco ['w', 'h', 'o']])]),
    sq (theW ['w', 'h', 'y']),
    sq (theW ['w', 'h', 'e', 'n']),
    sq (theW ['w', 'h', 'a', 't'])])

/-- `matched_tokens[0..2].span()?`, `matched_tokens.get(2)?`, its text (for the message), `Remove` -/
def theHowWhyMatch (_env : Env) (src : List Char) (m : List Tok) : Except Panic (List RuleLint) :=
  match sliceE m 0 2 with
  | .error e => .error e
  | .ok two =>
    match spanOf two with
    | none => .ok []
    | some sp =>
      match m[2]? with
      | none => .ok []
      | some q =>
        match q.span.getContent src with
        | .error e => .error e
        | .ok _ => .ok [⟨sp, [.remove], 33, 0⟩]

def theHowWhyPiece (env : Env) : PieceRule := fun src chunk =>
  runOnChunkGo (theHowWhyPat.matcher env) (theHowWhyMatch env) src 0 chunk

def ruleTheHowWhy (env : Env) : PieceRule := overPieces iterChunks (theHowWhyPiece env)

/-! ## the table the driver dispatches on -/

def ruleByName2 (name : String) : Option (Env → PieceRule) :=
  match name with
  | "SpelledNumbers" => some ruleSpelledNumbers
  | "CapitalizePersonalPronouns" => some ruleCapitalizePersonalPronouns
  | "AvoidCurses" => some ruleAvoidCurses
  | "WordPressDotcom" => some ruleWordPressDotcom
  | "LinkingVerbs" => some ruleLinkingVerbs
  | "CommaFixes" => some ruleCommaFixes
  | "MergeWords" => some ruleMergeWords
  | "AdjectiveOfA" => some ruleAdjectiveOfA
  | "OxfordComma" => some ruleOxfordComma
  | "NoOxfordComma" => some ruleNoOxfordComma
  | "WidelyAccepted" => some ruleWidelyAccepted
  | "TheHowWhy" => some ruleTheHowWhy
  | "InflectedVerbAfterTo" => some ruleInflectedVerbAfterTo
  | _ => none

end Harper.Rules2
