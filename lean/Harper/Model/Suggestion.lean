import Harper.Basic.Span
/-!
# L5 — `harper-core/src/linting/suggestion.rs:Suggestion::apply`, and the span arithmetic of the
chunk cache in `linting/lint_group.rs:LintGroup::lint` / `token_string_ext.rs:span`

Import-free. The model follows the Rust branches primitive by primitive (`Vec::split_off`,
`source[i] = c`, `Span::len` with overflow checks on, the shifting loop, `truncate`), so that it
panics exactly where the real code (dev profile) panics — also on spans that do not point into the
text. Generic over the element type; the driver instantiates it with code points (`Nat`).
-/
namespace Harper

/-- `Span::len` = `self.end - self.start`; with overflow checks on (dev profile) `start > end`
panics ("attempt to subtract with overflow"). -/
def Span.lenChecked (s : Span) : Except Panic Nat :=
  if s.start > s.stop then .error .underflow else .ok (s.stop - s.start)

namespace Vec

/-- `Vec::split_off(at)`: panics if `at > len`; otherwise `(self[..at], self[at..])`. -/
def splitOff {α} (src : List α) (at_ : Nat) : Except Panic (List α × List α) :=
  if at_ > src.length then .error .sliceOOB else .ok (src.take at_, src.drop at_)

/-- `source[i] = c`: panics when `i` is out of bounds. -/
def setAt {α} (src : List α) (i : Nat) (c : α) : Except Panic (List α) :=
  if i < src.length then .ok (src.set i c) else .error .sliceOOB

/-- `source[i]` (read): panics when `i` is out of bounds. -/
def getAt {α} (src : List α) (i : Nat) : Except Panic α :=
  match src[i]? with
  | some v => .ok v
  | none => .error .sliceOOB

/-- `usize` subtraction with overflow checks on. -/
def checkedSub (a b : Nat) : Except Panic Nat :=
  if b > a then .error .underflow else .ok (a - b)

end Vec

/-- A suggested edit (`enum Suggestion`), over an arbitrary element type. -/
inductive Suggestion (α : Type) where
  | replaceWith (r : List α)
  | insertAfter (r : List α)
  | remove
  deriving Repr, DecidableEq, Inhabited

/-- `for (index, c) in chars.iter().enumerate() { source[index + span.start] = *c }` -/
def overwriteLoop {α} (start : Nat) : Nat → List α → List α → Except Panic (List α)
  | _, [], src => .ok src
  | idx, c :: cs, src =>
    match Vec.setAt src (idx + start) c with
    | .error p => .error p
    | .ok src' => overwriteLoop start (idx + 1) cs src'

/-- `for i in span.end..source.len() { source[i - span.len()] = source[i]; }` —
`k` = iterations left (the range is fixed before the loop starts), `i` = loop variable.
`span.len()` is re-evaluated in the body, hence only panics if the body runs. -/
def shiftLoop {α} (span : Span) : Nat → Nat → List α → Except Panic (List α)
  | 0, _, src => .ok src
  | k + 1, i, src =>
    match span.lenChecked with
    | .error p => .error p
    | .ok l =>
      match Vec.checkedSub i l with
      | .error p => .error p
      | .ok j =>
        match Vec.getAt src i with
        | .error p => .error p
        | .ok v =>
          match Vec.setAt src j v with
          | .error p => .error p
          | .ok src' => shiftLoop span k (i + 1) src'

/-- `Suggestion::apply(&self, span, source: &mut Vec<char>)`; the new contents of `source`, or the
panic. -/
def Suggestion.apply {α} : Suggestion α → Span → List α → Except Panic (List α)
  | .replaceWith chars, span, source =>
    -- `if chars.len() == span.len()`
    match span.lenChecked with
    | .error p => .error p
    | .ok l =>
      if chars.length = l then
        overwriteLoop span.start 0 chars source
      else
        -- `let popped = source.split_off(span.start);`
        match Vec.splitOff source span.start with
        | .error p => .error p
        | .ok (kept, popped) =>
          -- `source.extend(chars); source.extend(popped.into_iter().skip(span.len()));`
          .ok (kept ++ chars ++ popped.drop l)
  | .remove, span, source =>
    match shiftLoop span (source.length - span.stop) span.stop source with
    | .error p => .error p
    | .ok shifted =>
      -- `source.truncate(source.len() - span.len());`
      match span.lenChecked with
      | .error p => .error p
      | .ok l =>
        match Vec.checkedSub shifted.length l with
        | .error p => .error p
        | .ok n => .ok (shifted.take n)
  | .insertAfter chars, span, source =>
    -- `let popped = source.split_off(span.end);`
    match Vec.splitOff source span.stop with
    | .error p => .error p
    | .ok (kept, popped) => .ok (kept ++ chars ++ popped)

/-- The text a suggestion puts in place of the flagged text `flagged`. -/
def Suggestion.newText {α} : Suggestion α → List α → List α
  | .replaceWith r, _ => r
  | .insertAfter r, flagged => flagged ++ r
  | .remove, _ => []

/-! ### "Fix all": one suggestion per lint, applied from the last lint to the first -/

/-- Apply the edits from the LAST to the FIRST with `Suggestion.apply` (what a client does after
`remove_overlaps`, so that earlier spans stay valid). -/
def fixAllBackToFront {α} : List (Span × Suggestion α) → List α → Except Panic (List α)
  | [], src => .ok src
  | (sp, sug) :: rest, src =>
    match fixAllBackToFront rest src with
    | .error p => .error p
    | .ok src' => sug.apply sp src'

/-- The simultaneous substitution, left to right: the text from `pos` up to the first span, the
new text of the first edit, and so on; finally the rest of the text. -/
def substAllFrom {α} (pos : Nat) : List (Span × Suggestion α) → List α → List α
  | [], src => src.drop pos
  | (sp, sug) :: rest, src =>
    (src.drop pos).take (sp.start - pos)
      ++ sug.newText ((src.drop sp.start).take (sp.stop - sp.start))
      ++ substAllFrom sp.stop rest src

def substAll {α} (edits : List (Span × Suggestion α)) (src : List α) : List α :=
  substAllFrom 0 edits src

/-! ### Span arithmetic of the chunk cache -/

/-- `TokenStringExt::span` of a token slice (tokens as their spans): the minimum and maximum of
all endpoints (`flat_map(|v| [v.span.start, v.span.end]).minmax()`), `None` for an empty slice.
`Span::new(min, max)` cannot panic. -/
def tokenSpan (toks : List Span) : Option Span :=
  match toks.flatMap (fun t => [t.start, t.stop]) with
  | [] => none
  | x :: xs => some ⟨xs.foldl min x, xs.foldl max x⟩

/-- What `LintGroup::lint` does to the span of a pattern lint found in a chunk starting at `c`
when the result is stored in the cache (`pull_by(c)`) and then replayed for a chunk starting at
`c'` (`push_by(c')`). On a cache miss `c' = c`. -/
def rebase (s : Span) (c c' : Nat) : Except Panic Span :=
  match s.pullBy c with
  | .error p => .error p
  | .ok rel => .ok (rel.pushBy c')

end Harper
