import Harper.Basic.Span
/-!
# `harper-core/src/ignored_lints/{mod.rs, lint_context.rs}` — the ignore list

The tokens are the real tokens of the real document, handed over by the harness: each token is
its span plus the two things `Token::to_fat` / `#[derive(Hash)] FatToken` feed to the hasher:

* `content` — the characters under the span (code points);
* `kind`    — the `TokenKind`, encoded as an opaque list of naturals that is injective on what
  the derived `Hash` sees. In particular a quotation mark is encoded as
  `[1, quoteCode, 1, twin_loc]` / `[1, quoteCode, 0]`: `Quote { twin_loc : Option<usize> }` is part
  of the kind, and `twin_loc` is an index into the *whole document's* token vector.

`LintContext::from_lint` is modelled as written:

```text
problem  = token_indices_intersecting(lint.span)
prequel  = lint.span.with_len(2).pulled_by(2)      -- [s-2, s)   ; `None` (→ no tokens) when 2 > s
sequel   = lint.span.with_len(2).pushed_by(2)      -- [s+2, s+4) ; relative to the START of the lint
tokens   = prequel ++ problem ++ sequel            (as fat tokens)
```

The real `IgnoredLints` stores the 64-bit `DefaultHasher` value of the context; the model stores
the context itself (that the hash is injective on the contexts seen is a monitor of the harness).
-/
namespace Harper.Ignore

/-- a token of the document: span + what enters the hash (`FatToken {content, kind}`) -/
structure Tok where
  kind    : List Nat
  content : List Nat
  start   : Nat
  stop    : Nat
  deriving Repr, DecidableEq, Inhabited

/-- `FatToken` (field order of the Rust struct) -/
structure Fat where
  content : List Nat
  kind    : List Nat
  deriving Repr, DecidableEq, Inhabited

/-- `Token::to_fat` -/
def Tok.fat (t : Tok) : Fat := ⟨t.content, t.kind⟩

/-- a lint: span, the four hashed fields, and `id` (its index in the lint list; not hashed) -/
structure LintM where
  id          : Nat
  start       : Nat
  stop        : Nat
  kind        : Nat
  suggestions : List (List Nat)
  message     : List Nat
  priority    : Nat
  deriving Repr, DecidableEq, Inhabited

/-- `LintContext` -/
structure Context where
  kind        : Nat
  suggestions : List (List Nat)
  message     : List Nat
  priority    : Nat
  tokens      : List Fat
  deriving Repr, DecidableEq, Inhabited

/-- `tok.span.overlaps_with(Span{s,e})`: `(tok.start < e) && (s < tok.end)` -/
def Tok.overlaps (t : Tok) (s e : Nat) : Bool := decide (t.start < e) && decide (s < t.stop)

/-- `token_indices_intersecting(span)` followed by `get_token(idx).to_fat(..)`, in token order -/
def fatsIn (toks : List Tok) (s e : Nat) : List Fat :=
  (toks.filter (·.overlaps s e)).map Tok.fat

/-- `lint.span.with_len(2).pulled_by(2).map(..).unwrap_or_default()` -/
def prequel (toks : List Tok) (l : LintM) : List Fat :=
  if 2 > l.start then [] else fatsIn toks (l.start - 2) (l.start + 2 - 2)

def problem (toks : List Tok) (l : LintM) : List Fat := fatsIn toks l.start l.stop

/-- `lint.span.with_len(2).pushed_by(2)` = `[start+2, start+4)` -/
def sequel (toks : List Tok) (l : LintM) : List Fat := fatsIn toks (l.start + 2) (l.start + 2 + 2)

/-- `LintContext::from_lint` -/
def contextOf (l : LintM) (toks : List Tok) : Context :=
  { kind := l.kind, suggestions := l.suggestions, message := l.message, priority := l.priority,
    tokens := prequel toks l ++ problem toks l ++ sequel toks l }

/-- `IgnoredLints { context_hashes }` with the hash abstracted away: the contexts, in insertion
order, without duplicates. -/
abbrev IgnoreSet := List Context

/-- `HashSet::insert` -/
def insertCtx (s : IgnoreSet) (c : Context) : IgnoreSet := if s.contains c then s else s ++ [c]

def ignoreLint (s : IgnoreSet) (l : LintM) (toks : List Tok) : IgnoreSet :=
  insertCtx s (contextOf l toks)

def isIgnored (s : IgnoreSet) (l : LintM) (toks : List Tok) : Bool := s.contains (contextOf l toks)

/-- `remove_ignored`: early return on an empty set, otherwise `retain(!is_ignored)` -/
def removeIgnored (s : IgnoreSet) (lints : List LintM) (toks : List Tok) : List LintM :=
  if s.isEmpty then lints else lints.filter (fun l => !isIgnored s l toks)

/-- `IgnoredLints::append`: `self.context_hashes.extend(other.context_hashes)` -/
def append (s other : IgnoreSet) : IgnoreSet := other.foldl insertCtx s

/-- `Serialize`: the sequence of stored entries -/
def exportL (s : IgnoreSet) : List Context := s

/-- `Deserialize`: a fresh set into which the entries of the sequence are inserted one by one -/
def importL (l : List Context) : IgnoreSet := l.foldl insertCtx []

/-- ignore the lints of `lints` whose `id` is listed, in the order listed -/
def ignoreIds (s : IgnoreSet) (lints : List LintM) (toks : List Tok) : List Nat → IgnoreSet
  | [] => s
  | i :: is =>
    match lints.find? (·.id == i) with
    | some l => ignoreIds (ignoreLint s l toks) lints toks is
    | none => ignoreIds s lints toks is

/-- moving a token / a lint by `d` characters (payload untouched) -/
def Tok.shift (d : Nat) (t : Tok) : Tok := { t with start := t.start + d, stop := t.stop + d }
def LintM.shift (d : Nat) (l : LintM) : LintM := { l with start := l.start + d, stop := l.stop + d }

/-! ### Vocabulary of the stability clause

"The flagged text and the tokens within two characters of it are untouched": the three windows
hold the same tokens — same characters, same kind — where for a quotation mark "same kind" cannot
mean "same `twin_loc`", an index into the whole document that moves whenever a token is inserted
before it. -/

/-- forget a quotation mark's `twin_loc` (`[1,0,…]` is the harness's encoding of `Quote`) -/
def Fat.eraseTwin (f : Fat) : Fat :=
  match f.kind with
  | 1 :: 0 :: _ => { f with kind := [1, 0] }
  | _ => f

def Fat.isQuote (f : Fat) : Bool :=
  match f.kind with
  | 1 :: 0 :: _ => true
  | _ => false

/-- the lint is the same lint (everything but its position) and the three windows hold the same
tokens up to quotes' `twin_loc` -/
def Untouched (toks toks' : List Tok) (l l' : LintM) : Prop :=
  l'.kind = l.kind ∧ l'.suggestions = l.suggestions ∧ l'.message = l.message ∧
  l'.priority = l.priority ∧
  (prequel toks' l').map Fat.eraseTwin = (prequel toks l).map Fat.eraseTwin ∧
  (problem toks' l').map Fat.eraseTwin = (problem toks l).map Fat.eraseTwin ∧
  (sequel toks' l').map Fat.eraseTwin = (sequel toks l).map Fat.eraseTwin

instance (toks toks' : List Tok) (l l' : LintM) : Decidable (Untouched toks toks' l l') := by
  unfold Untouched; exact inferInstance

/-- no window of the lint holds a quotation mark -/
def NoQuote (toks : List Tok) (l : LintM) : Prop :=
  ∀ f ∈ prequel toks l ++ problem toks l ++ sequel toks l, f.isQuote = false

instance (toks : List Tok) (l : LintM) : Decidable (NoQuote toks l) := by
  unfold NoQuote; exact inferInstance

/-- the property's wording read literally — "the tokens within two characters of it": the tokens
overlapping `[s-2,s)` (clipped at 0), `[s,e)` and `[e,e+2)` are the same up to quotes' `twin_loc` -/
def UntouchedLiteral (toks toks' : List Tok) (l l' : LintM) : Prop :=
  l'.kind = l.kind ∧ l'.suggestions = l.suggestions ∧ l'.message = l.message ∧
  l'.priority = l.priority ∧
  (fatsIn toks' (l'.start - 2) l'.start).map Fat.eraseTwin =
    (fatsIn toks (l.start - 2) l.start).map Fat.eraseTwin ∧
  (problem toks' l').map Fat.eraseTwin = (problem toks l).map Fat.eraseTwin ∧
  (fatsIn toks' l'.stop (l'.stop + 2)).map Fat.eraseTwin =
    (fatsIn toks l.stop (l.stop + 2)).map Fat.eraseTwin

instance (toks toks' : List Tok) (l l' : LintM) : Decidable (UntouchedLiteral toks toks' l l') := by
  unfold UntouchedLiteral; exact inferInstance

end Harper.Ignore
