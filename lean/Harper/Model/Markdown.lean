import Harper.Basic.Token
import Harper.Model.Overlaps
import Harper.Model.Mask
import Harper.Model.LexExt
import Harper.Model.Condense
import Harper.Model.Chunks
/-!
# The Markdown front-end's own logic and the two wrapper parsers

* `harper-core/src/parsers/markdown.rs`: the event loop of `Markdown::parse` over pulldown-cmark's
  `(Event, Range<usize>)` stream — the events are DATA (variant name, byte range, number of
  characters of the event's text); everything Harper does with them is modelled: the
  `traversed_bytes / traversed_chars` pair (`mdAdvance`, `Model/Mask.lean`), the tag stack, which
  event produces which token and WHERE (`Span::new_with_len(traversed_chars, …)`), the inner
  `PlainEnglish` parse of `source[traversed_chars .. traversed_chars + chunk_len]` (clamped to the
  source) shifted by `traversed_chars`, the trailing-break pop, `remove_hidden_wikilink_tokens`,
  `remove_wikilink_brackets`, the final clamp-and-drop pass (both on top of `Harper.removeIndices`, the model of
  `Vec::remove_indices`).
* `harper-core/src/parsers/collapse_identifiers.rs`: `CollapseIdentifiers::parse` after the inner
  parser, with dictionary membership as a function given as data.
* `harper-core/src/parsers/isolate_english.rs` + `language_detection.rs`: `IsolateEnglish::parse`
  after the inner parser, with the per-chunk verdict as a function; `is_likely_english` itself is
  modelled too (`isLikelyEnglish`, dictionary membership as data; its two floating point
  comparisons are exact integer comparisons for counts below 2^21, see there).

Panics are values. Loops are structural recursions.
-/
namespace Harper

/-! ## UTF-8 (the `String` the parser builds from `&[char]`) -/

/-- `char::encode_utf8` -/
def utf8Enc (c : Char) : List Nat :=
  let n := c.toNat
  if n < 128 then [n]
  else if n < 2048 then [192 + n / 64, 128 + n % 64]
  else if n < 65536 then [224 + n / 4096, 128 + n / 64 % 64, 128 + n % 64]
  else [240 + n / 262144, 128 + n / 4096 % 64, 128 + n / 64 % 64, 128 + n % 64]

/-- `source.iter().collect::<String>()` as bytes -/
def utf8Bytes (src : List Char) : List Nat := (src.map utf8Enc).flatten

/-! ## pulldown-cmark events as data -/

/-- `pulldown_cmark::Tag` / `TagEnd` variant names (0.13); payloads are not looked at -/
inductive MdTag where
  | Paragraph | Heading | BlockQuote | CodeBlock | HtmlBlock | List | Item | FootnoteDefinition
  | DefinitionList | DefinitionListTitle | DefinitionListDefinition | Table | TableHead | TableRow
  | TableCell | Emphasis | Strong | Strikethrough | Superscript | Subscript | Link | Image
  | MetadataBlock
  deriving Repr, DecidableEq, Inhabited

/-- `pulldown_cmark::Event`, as far as `Markdown::parse` distinguishes the variants.
`code` = `Code | InlineMath | DisplayMath`, `html` = `Html | InlineHtml` (one match arm each);
`other` = `FootnoteReference | Rule | TaskListMarker` (the `_ => ()` arm).
`len` = `text.chars().count()` of the event's `CowStr`. -/
inductive MdEv where
  | softBreak
  | hardBreak
  | start (t : MdTag)
  | stop (t : MdTag)
  | code (len : Nat)
  | text (len : Nat)
  | html (len : Nat)
  | other
  deriving Repr, DecidableEq, Inhabited

/-- one item of `into_offset_iter()`: the event and its BYTE range -/
structure MdEvent where
  ev : MdEv
  rs : Nat
  re : Nat
  deriving Repr, DecidableEq, Inhabited

/-! ## the event loop -/

/-- `End(Paragraph | Item | Heading(_) | CodeBlock | TableCell)` push a `ParagraphBreak` -/
def isBreakEnd : MdTag → Bool
  | .Paragraph | .Item | .Heading | .CodeBlock | .TableCell => true
  | _ => false

/-- the tags under which a `Text` event is prose (the `Link` case depends on the option and is
decided before this list is consulted) -/
def isProseTag : MdTag → Bool
  | .Paragraph | .Link | .Heading | .Item | .TableCell | .Emphasis | .Strong | .Strikethrough => true
  | _ => false

inductive TextAct where
  | unlintable | skip | parse
  deriving Repr, DecidableEq

/-- what a `Text` event becomes, by `stack.last()` and `ignore_link_title` -/
def textAct (ilt : Bool) : Option MdTag → TextAct
  | none => .parse
  | some .CodeBlock => .unlintable
  | some .Link => if ilt then .unlintable else .parse
  | some t => if isProseTag t then .parse else .skip

/-- `Span::new_with_len` -/
def spanWithLen (s n : Nat) : Span := ⟨s, s + n⟩

/-- the tag stack after an event: `Start(tag)` pushes (the `List` arm too), every `End(_)` pops
(`Vec::pop` on an empty stack is `None`, not a panic) -/
def stackAfter (stack : List MdTag) : MdEv → List MdTag
  | .start t => t :: stack
  | .stop _ => stack.drop 1
  | _ => stack

/-- one iteration of `for (event, range) in md_parser.into_offset_iter()`: the new cursor and the
tokens pushed (`stack` is the stack BEFORE the event; its update is `stackAfter`) -/
def mdStep (bs : List Nat) (src : List Char) (inner : List Char → Except Panic (List Tok))
    (ilt : Bool) (c : Cursor) (stack : List MdTag) (e : MdEvent) :
    Except Panic (Cursor × List Tok) := do
  let c' ← mdAdvance bs c e.rs
  let tc := c'.char
  match e.ev with
  | .softBreak => pure (c', [⟨spanWithLen tc 1, .newline 1⟩])
  | .hardBreak => pure (c', [⟨spanWithLen tc 1, .newline 2⟩])
  | .start .List => pure (c', [⟨spanWithLen tc 0, .newline 2⟩])
  | .start _ => pure (c', [])
  | .stop t => pure (c', if isBreakEnd t then [⟨spanWithLen tc 0, .paragraphBreak⟩] else [])
  | .code n => pure (c', [⟨spanWithLen tc n, .unlintable⟩])
  | .html n => pure (c', [⟨spanWithLen tc n, .unlintable⟩])
  | .text n =>
    match textAct ilt stack.head? with
    | .unlintable => pure (c', [⟨spanWithLen tc n, .unlintable⟩])
    | .skip => pure (c', [])
    | .parse => do
      -- `chunk_end = (traversed_chars + chunk_len).min(source.len())`,
      -- `chunk_start = traversed_chars.min(chunk_end)`, `&source[chunk_start..chunk_end]`;
      -- the tokens are still pushed by `traversed_chars`
      let chunkEnd := min (tc + n) src.length
      let chunkStart := min tc chunkEnd
      let chunk ← sliceE src chunkStart chunkEnd
      let toks ← inner chunk
      pure (c', toks.map (·.shift tc))
  | .other => pure (c', [])

/-- the whole `for` loop: the tokens pushed from here on -/
def mdLoop (bs : List Nat) (src : List Char) (inner : List Char → Except Panic (List Tok))
    (ilt : Bool) : Cursor → List MdTag → List MdEvent → Except Panic (List Tok)
  | _, _, [] => .ok []
  | c, st, e :: es => do
    let (c', ts) ← mdStep bs src inner ilt c st e
    let rest ← mdLoop bs src inner ilt c' (stackAfter st e.ev) es
    pure (ts ++ rest)

/-- `if matches!(tokens.last(), Some(Newline(_) | ParagraphBreak)) && source.last() != Some('\n')
{ tokens.pop(); }` -/
def popTrailingBreak (src : List Char) (toks : List Tok) : List Tok :=
  match toks.getLast? with
  | some t =>
    if (t.kind.isNewline || t.kind.isParagraphBreak) && src.getLast? != some '\n' then toks.dropLast
    else toks
  | none => toks

/-! ## `EventsOK`: what the theorems assume about pulldown-cmark's event list

Decidable, stated on the data the model is given (byte ranges, the bytes of the text), evaluated by
the driver on every real event list (op `evok`) — an assumption monitor. -/

/-- the length of the character-covering token an event pushes, if it pushes one (`Text` under a
tag that is not prose pushes nothing; a `Text` that is parsed pushes tokens inside `n` characters) -/
def leafLen (ilt : Bool) (stack : List MdTag) : MdEv → Option Nat
  | .softBreak => some 1
  | .hardBreak => some 1
  | .code n => some n
  | .html n => some n
  | .text n =>
    match textAct ilt stack.head? with
    | .skip => none
    | _ => some n
  | _ => none

/-- one event, given `cur` = `traversed_bytes` before it and `le` = the range end of the last
token-producing event:
* a token-producing event has a range `rs ≤ re ≤ len` on character boundaries, starts at or after
  every earlier event's start (`cur ≤ rs`: the cursor is exactly at its start) and at or after the
  end of the previous token-producing event (`le ≤ rs`: ranges disjoint and increasing), and its
  text is not longer than its range (in characters);
* any other event only moves the cursor: if its start is ahead of the cursor it must be a character
  boundary inside the text. -/
def eventOK (bs : List Nat) (cur le : Nat) (e : MdEvent) : Option Nat → Bool
  | some n =>
    decide (e.rs ≤ e.re) && decide (e.re ≤ bs.length) && isBoundary bs e.rs && isBoundary bs e.re &&
    decide (cur ≤ e.rs) && decide (le ≤ e.rs) &&
    decide (n ≤ charCount ((bs.drop e.rs).take (e.re - e.rs)))
  | none => decide (e.rs ≤ cur) || (decide (e.rs ≤ bs.length) && isBoundary bs e.rs)

def eventsOK (bs : List Nat) (ilt : Bool) : Nat → Nat → List MdTag → List MdEvent → Bool
  | _, _, _, [] => true
  | cur, le, st, e :: es =>
    let leaf := leafLen ilt st e.ev
    eventOK bs cur le e leaf &&
      eventsOK bs ilt (max cur e.rs) (if leaf.isSome then e.re else le) (stackAfter st e.ev) es

/-- the whole event list, from the initial state of `parse` -/
def EventsOK (bs : List Nat) (ilt : Bool) (events : List MdEvent) : Prop :=
  eventsOK bs ilt 0 0 [] events = true

instance (bs : List Nat) (ilt : Bool) (events : List MdEvent) : Decidable (EventsOK bs ilt events) :=
  inferInstanceAs (Decidable (_ = true))

/-- the only thing `Markdown::parse` still needs of the events in order not to panic: whenever an
event's start is ahead of the cursor, `source_str[traversed_bytes..range.start]` must be a valid
`str` slice (a char boundary inside the text). Implied by `EventsOK`. -/
def startsOK (bs : List Nat) : Nat → List MdEvent → Bool
  | _, [] => true
  | cur, e :: es =>
    (decide (e.rs ≤ cur) || (decide (e.rs ≤ bs.length) && isBoundary bs e.rs)) &&
      startsOK bs (max cur e.rs) es

def StartsOK (bs : List Nat) (events : List MdEvent) : Prop := startsOK bs 0 events = true

instance (bs : List Nat) (events : List MdEvent) : Decidable (StartsOK bs events) :=
  inferInstanceAs (Decidable (_ = true))

/-- this event does not push an EMPTY `Unlintable` -/
def solidEv (ilt : Bool) (st : List MdTag) : MdEv → Bool
  | .code n => decide (1 ≤ n)
  | .html n => decide (1 ≤ n)
  | .text n => textAct ilt st.head? != .unlintable || decide (1 ≤ n)
  | _ => true

/-- no event pushes an EMPTY `Unlintable` (needed only for "zero-width tokens are structural") -/
def solidOK (ilt : Bool) : List MdTag → List MdEvent → Bool
  | _, [] => true
  | st, e :: es => solidEv ilt st e.ev && solidOK ilt (stackAfter st e.ev) es

/-! ## `remove_hidden_wikilink_tokens` -/

def isOpenSquare : Kind → Bool
  | .punct .OpenSquare => true
  | _ => false

def isCloseSquare : Kind → Bool
  | .punct .CloseSquare => true
  | _ => false

def isPipe : Kind → Bool
  | .punct .Pipe => true
  | _ => false

/-- "Locate preceding `[[`": the `loop` that walks `cursor` down from `pipe_idx - 2` -/
def findOpen (ks : List Kind) : Nat → Option Nat
  | 0 =>
    match ks[0]?, ks[1]? with
    | some a, some b =>
      if a.isNewline then none
      else if isOpenSquare a && isOpenSquare b then some 0
      else none
    | _, _ => none
  | c + 1 =>
    match ks[c + 1]?, ks[c + 2]? with
    | some a, some b =>
      if a.isNewline then none
      else if isOpenSquare a && isOpenSquare b then some (c + 1)
      else findOpen ks c
    | _, _ => none

/-- "Locate succeeding `]]`": the `loop` that walks `cursor` up from `pipe_idx + 1`; the list is
`tokens[cursor..]` -/
def findCloseFrom : Nat → List Kind → Option Nat
  | cursor, a :: b :: rest =>
    if a.isNewline then none
    else if isCloseSquare a && isCloseSquare b then some cursor
    else findCloseFrom (cursor + 1) (b :: rest)
  | _, _ => none

def findClose (ks : List Kind) (cursor : Nat) : Option Nat := findCloseFrom cursor (ks.drop cursor)

/-- `iter_pipe_indices()` -/
def pipeIndices (i : Nat) : List Kind → List Nat
  | [] => []
  | k :: ks => if isPipe k then i :: pipeIndices (i + 1) ks else pipeIndices (i + 1) ks

/-- what one pipe pushes on `to_remove`: `open..=pipe`, then `close`, `close + 1` -/
def hiddenPush (ks : List Kind) (p : Nat) : List Nat :=
  if p < 2 then []
  else
    match findOpen ks (p - 2), findClose ks (p + 1) with
    | some o, some c => rangeFrom o (p + 1 - o) ++ [c, c + 1]
    | _, _ => []

/-- the queue handed to `remove_indices`, in push order — NOT sorted, NOT duplicate-free when one
`[[ … ]]` span holds several pipes -/
def hiddenIdx (ks : List Kind) : List Nat := (pipeIndices 0 ks).flatMap (hiddenPush ks)

def removeHiddenWikilinkTokens (toks : List Tok) : List Tok :=
  removeIndices 0 (hiddenIdx (toks.map (·.kind))) toks

/-! ## `remove_wikilink_brackets` -/

/-- the `loop` over `cursor`; the list is `tokens[cursor..]`, `o` = `open_brackets` -/
def bracketGo : Nat → Option Nat → List Kind → List Nat
  | c, some o, a :: b :: rest =>
    if a.isNewline then bracketGo (c + 1) none (b :: rest)
    else if isCloseSquare a && isCloseSquare b then
      [o, o + 1, c, c + 1] ++ bracketGo (c + 1) none (b :: rest)
    else bracketGo (c + 1) (some o) (b :: rest)
  | c, none, a :: b :: rest =>
    if isOpenSquare a && isOpenSquare b then bracketGo (c + 1) (some c) (b :: rest)
    else bracketGo (c + 1) none (b :: rest)
  | _, _, _ => []

def bracketIdx (ks : List Kind) : List Nat := bracketGo 0 none ks

def removeWikilinkBrackets (toks : List Tok) : List Tok :=
  removeIndices 0 (bracketIdx (toks.map (·.kind))) toks

/-- the two clean-up passes in the order `parse` calls them -/
def wikilinkCleanup (toks : List Tok) : List Tok :=
  removeWikilinkBrackets (removeHiddenWikilinkTokens toks)

/-! ## the final `retain_mut` pass: no token reaches past the end of the source -/

/-- the closure of `tokens.retain_mut(..)`: `was_empty = span.is_empty()` (`len() == 0`, i.e.
`end - start`, which underflows when `start > end`), `end = end.min(len)`,
`start = start.min(end)`, keep iff `was_empty || !span.is_empty()` -/
def clampTok (n : Nat) (t : Tok) : Except Panic (Option Tok) :=
  if t.span.start > t.span.stop then .error .underflow
  else
    let wasEmpty := t.span.start == t.span.stop
    let e := min t.span.stop n
    let s := min t.span.start e
    .ok (if wasEmpty || s != e then some ⟨⟨s, e⟩, t.kind⟩ else none)

def clampAll (n : Nat) : List Tok → Except Panic (List Tok)
  | [] => .ok []
  | t :: ts => do
    let r ← clampTok n t
    let rest ← clampAll n ts
    pure (match r with
      | some t' => t' :: rest
      | none => rest)

/-! ## `Markdown::parse` -/

/-- `Markdown::parse` given the bytes of the `String`, the characters, the inner parser, the
option and pulldown's events -/
def mdParse (bs : List Nat) (src : List Char) (inner : List Char → Except Panic (List Tok))
    (ilt : Bool) (events : List MdEvent) : Except Panic (List Tok) := do
  let toks ← mdLoop bs src inner ilt ⟨0, 0⟩ [] events
  clampAll src.length (wikilinkCleanup (popTrailingBreak src toks))

/-- … with the bytes computed from the characters and `PlainEnglish` as the inner parser: what the
driver runs -/
def mdParseSrc (cls : Cls) (src : List Char) (ilt : Bool) (events : List MdEvent) :
    Except Panic (List Tok) :=
  mdParse (utf8Bytes src) src (parsePlainFull cls) ilt events

/-! ## `CollapseIdentifiers` -/

/-- `TokenKind::is_case_separator` -/
def isCaseSeparator : Kind → Bool
  | .punct .Underscore => true
  | .punct .Hyphen => true
  | _ => false

/-- `WORD_OR_NUMBER`: `then_any_word().then_one_or_more(then_case_separator().then_any_word())`;
`then_one_or_more` is `RepeatingPattern::new(_, 0)`, and a `SequencePattern` fails on a step that
matched nothing, which is what makes it "one or more" -/
def wordOrNumberPat : Matcher :=
  seqPat [kindAtom Kind.isWord,
    repPat (seqPat [kindAtom isCaseSeparator, kindAtom Kind.isWord]) 0]

/-- the `for tok_span in …find_all_matches(&tokens, source)` loop: it reads the vector it writes -/
def collapseLoop (dict : List Char → Bool) (src : List Char) :
    List Span → List Tok → List Nat → Except Panic (List Tok × List Nat)
  | [], toks, rem => .ok (toks, rem)
  | m :: ms, toks, rem =>
    if m.stop = 0 then .error .underflow
    else
      match toks[m.start]?, toks[m.stop - 1]? with
      | some s, some e => do
        let cs ← Span.new s.span.start e.span.stop
        let content ← cs.getContent src
        if dict content then
          collapseLoop dict src ms (toks.set m.start ⟨cs, .word⟩)
            (rem ++ rangeFrom (m.start + 1) (m.stop - (m.start + 1)))
        else collapseLoop dict src ms toks rem
      | _, _ => .error .sliceOOB

/-- insert into a strictly increasing list, dropping a duplicate -/
def insertUniq (x : Nat) : List Nat → List Nat
  | [] => [x]
  | y :: ys => if x < y then x :: y :: ys else if x = y then y :: ys else y :: insertUniq x ys

/-- `.into_iter().sorted().unique().collect()` -/
def sortUniq (l : List Nat) : List Nat := l.foldr insertUniq []

/-- `CollapseIdentifiers::parse` after `self.inner.parse(source)` -/
def collapseIdentifiers (dict : List Char → Bool) (src : List Char) (toks : List Tok) :
    Except Panic (List Tok) := do
  let ms ← findAllMatches wordOrNumberPat src toks
  let (toks', rem) ← collapseLoop dict src ms toks []
  pure (removeIndices 0 (sortUniq rem) toks')

/-! ## `IsolateEnglish` -/

structure LangCounts where
  total : Nat
  valid : Nat
  punct : Nat
  unl : Nat
  deriving Repr, DecidableEq

/-- the `match token.kind` of `is_likely_english` (a quote is a `Punctuation`) -/
def countTok (dict : List Char → Bool) (src : List Char) (c : LangCounts) (t : Tok) :
    Except Panic LangCounts :=
  match t.kind with
  | .word => do
    let w ← t.span.getContent src
    pure { c with total := c.total + 1, valid := if dict w then c.valid + 1 else c.valid }
  | .punct _ => pure { c with punct := c.punct + 1 }
  | .quote _ => pure { c with punct := c.punct + 1 }
  | .unlintable => pure { c with unl := c.unl + 1 }
  | _ => pure c

def countToks (dict : List Char → Bool) (src : List Char) :
    LangCounts → List Tok → Except Panic LangCounts
  | c, [] => .ok c
  | c, t :: ts => do
    let c' ← countTok dict src c t
    countToks dict src c' ts

/-- the four tests of `is_likely_english`. `punctuation as f32 * 1.25 > valid_words as f32` is
`5 * p > 4 * v` and `valid as f64 / total as f64 < 0.7` is `10 * v < 7 * t` exactly, for counts
below 2^21 (products exact in `f32`; a quotient of such counts that is not `7/10` differs from it
by ≥ 1/(10·2^21), far more than the rounding of the division and of the literal; `0/0` is `NaN`
and compares false, as does `0 < 0`). -/
def verdictOf (c : LangCounts) : Bool :=
  !(decide (c.total ≤ 7) && decide (c.total - c.valid > 0)) &&
  !decide (c.unl > c.valid) &&
  !decide (5 * c.punct > 4 * c.valid) &&
  !decide (10 * c.valid < 7 * c.total)

/-- `language_detection::is_likely_english` -/
def isLikelyEnglish (dict : List Char → Bool) (src : List Char) (toks : List Tok) :
    Except Panic Bool := do
  let c ← countToks dict src ⟨0, 0, 0, 0⟩ toks
  pure (verdictOf c)

/-- the `for chunk in tokens.iter_chunks()` loop -/
def isolateGo (verdict : List Tok → Except Panic Bool) : List (List Tok) → Except Panic (List Tok)
  | [] => .ok []
  | ch :: rest => do
    let keep ← if ch.length < 4 then pure true else verdict ch
    let r ← isolateGo verdict rest
    pure (if keep then ch ++ r else r)

/-- `IsolateEnglish::parse` after `self.inner.parse(source)`, the per-chunk verdict as data -/
def isolateEnglish (verdict : List Tok → Except Panic Bool) (toks : List Tok) :
    Except Panic (List Tok) :=
  isolateGo verdict (Chunks.iterChunks toks)

/-- … with the modelled verdict -/
def isolateEnglishDict (dict : List Char → Bool) (src : List Char) (toks : List Tok) :
    Except Panic (List Tok) :=
  isolateEnglish (isLikelyEnglish dict src) toks

end Harper
