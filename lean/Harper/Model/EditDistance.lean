import Harper.Basic.Span
/-!
# L7 — `harper-core/src/edit_distance.rs:edit_distance_min_alloc`

The model follows the code: two rows of `u8` cells, `previous_row = 0u8..=(row_width as u8)`,
`current_row` of `row_width + 1` cells, the `j`/`i` loops, the three sums in the order the code
evaluates them, the final `previous_row[row_width]`.

The arithmetic is a parameter (`Arith`):

* `.checked`  — the dev profile the harness is built with (`debug_assertions`, overflow checks):
  the `assert!(source.len() <= 255 && target.len() <= 255)` fires, `u8 + u8` panics above 255;
* `.wrapping` — the release profile: no assertion, sums wrap, `usize as u8` truncates, slice
  indexing still panics (this mode is *not* exercised by the correspondence run, which is a dev
  build; it is here so that the bound theorems are stated for both profiles);
* `.nat`      — unbounded cells: the textbook Wagner–Fischer recurrence the `u8` code implements.

All three run the same loop code below; the driver's `ed` op runs `.checked`, `edn` runs `.nat`.
-/
namespace Harper

inductive Arith where
  | nat
  | checked
  | wrapping
  deriving Repr, DecidableEq, Inhabited

namespace Arith

/-- `a + b` on cells -/
def add : Arith → Nat → Nat → Except Panic Nat
  | .nat, a, b => .ok (a + b)
  | .checked, a, b => if a + b ≤ 255 then .ok (a + b) else .error .overflow
  | .wrapping, a, b => .ok ((a + b) % 256)

/-- `n as u8` -/
def cast : Arith → Nat → Nat
  | .nat, n => n
  | _, n => n % 256

/-- `if cfg!(debug_assertions) { assert!(len <= 255 ...) }` -/
def lenOk : Arith → Nat → Bool
  | .checked, n => n ≤ 255
  | _, _ => true

end Arith

/-- `let cost = if source[i - 1] == target[j - 1] { 0 } else { 1 };` -/
def edCost {α} [DecidableEq α] (a b : α) : Nat := if a = b then 0 else 1

/-- The inner loop `for i in 1..=row_width` for one target character `b`.
`left = current_row[i-1]`, `diag = previous_row[i-1]`, the list argument is `previous_row[i..]`,
the `source` argument is `source[i-1..]`. Returns `current_row[i..]`.
A too-short `previous_row` is the index panic of `previous_row[i]`. -/
def nextRowAux {α} [DecidableEq α] (m : Arith) (b : α) :
    Nat → Nat → List α → List Nat → Except Panic (List Nat)
  | _, _, [], _ => .ok []
  | _, _, _ :: _, [] => .error .sliceOOB
  | left, diag, a :: s, p :: ps =>
    match m.add p 1 with
    | .error e => .error e
    | .ok x =>
      match m.add left 1 with
      | .error e => .error e
      | .ok y =>
        match m.add diag (edCost a b) with
        | .error e => .error e
        | .ok z =>
          let v := min (min x y) z
          match nextRowAux m b v p s ps with
          | .error e => .error e
          | .ok rest => .ok (v :: rest)

/-- The outer loop `for j in 1..=col_height` (`j` is the loop variable, the list is
`target[j-1..]`), then `previous_row[row_width]`. -/
def edRows {α} [DecidableEq α] (m : Arith) (source : List α) :
    Nat → List α → List Nat → Except Panic Nat
  | _, [], prev =>
    match prev[source.length]? with
    | some v => .ok v
    | none => .error .sliceOOB
  | j, b :: t, prev =>
    let c0 := m.cast j
    match nextRowAux m b c0 (prev.headD 0) source prev.tail with
    | .error e => .error e
    | .ok rest => edRows m source (j + 1) t (c0 :: rest)

/-- `edit_distance_min_alloc(source, target, ..)`; the two buffers carry no information between
calls (`previous_row` is cleared and refilled, every cell of `current_row` is written before it
is read), so they are not arguments. -/
def editDistance {α} [DecidableEq α] (m : Arith) (source target : List α) : Except Panic Nat :=
  if m.lenOk source.length && m.lenOk target.length then
    edRows m source 1 target (List.range (m.cast source.length + 1))
  else .error .assertFail

end Harper
