import Harper.Model.Spell
import Harper.Model.Stats
/-!
# L9 — user / file dictionaries on disk and in memory

`harper-ls/src/dictionary_io.rs` (`save_dict`, `write_word_list`, `load_dict`, `dict_from_word_list`),
`harper-ls/src/backend.rs` (`execute_command` arms `HarperAddToUserDict` / `HarperAddToFileDict`,
`load_user_dictionary`, `load_file_dictionary`, `generate_file_dictionary`, `update_document`),
`harper-core/src/spell/{mutable_dictionary,word_map,merged_dictionary}.rs`,
`harper-wasm/src/lib.rs` (`import_words`, `export_words`, `synchronize_lint_dict`).

What the code does (validated on the real code, see `notes/asbuilt_w11.md`):

* **In memory** a `MutableDictionary` is a hash map `WordId ↦ canonical spelling`, `WordId` being a hash
  of `lower (normalize w)`. Here: a list of canonical spellings, the key computed by `Spell.key`;
  `insert` replaces the entry with the same key (so `zqxv` and `Zqxv` collide and the later wins).
  `words_iter` walks the hash table: its order is *not modelled*; it is per-op data (`ord`), used only
  if it is a permutation of the model's own dictionary (`orderOf`).
* **save** (`save_dict`) = `File::create` (open with `O_TRUNC`), a tokio `BufWriter` (8 KiB) receiving
  `word`, `"\n"`, `word`, `"\n"` …, one `write` syscall per flush of that buffer (`strace`: no write at
  all for an empty dictionary, one write for a small one, 8190+810 bytes for 1000 nine-byte lines, a
  piece of ≥ 8192 bytes goes out directly), `flush`, then `close` on drop. No `fsync`, no temp file.
* **load** (`load_dict`) = `read_to_string` (fails on invalid UTF-8, e.g. a character torn by a
  crash) + `str::lines` + `extend_words` of EVERY line: no trimming, no filtering — an empty line is
  the empty word, `" a "` keeps its spaces. The language server maps a failed load to the empty
  dictionary (`unwrap_or(MutableDictionary::new())`).
* The language server keeps **no** user dictionary in memory: every command and every document update
  re-reads the files (`generate_file_dictionary`); `mem` below is the copy inside the linter that was
  built last, and `lint` refreshes it first, as `update_document` does.
* A `MergedDictionary` [curated, user, file] answers `get_word_metadata` from the FIRST child that
  has the key and `contains_exact_word` from ANY child; `SpellCheck` accepts a word token iff its
  metadata (assigned by `Document::new` with the same merged dictionary) exists, admits the dialect,
  and the word or its lower-cased form is contained exactly.
* The handlers look at the document URL twice — is the scheme `untitled`, does `to_file_path()`
  succeed — and `HarperAddToFileDict` / a document check behave differently in each of the four cases
  (`UrlKind`, validated on the real server: `notes/asbuilt_w24_s6.md`).
* The JS `Linter` keeps `user_dictionary` and a lint dictionary built from it by
  `synchronize_lint_dict`, which `import_words` only calls when `word_count` grew.

Text is `List Char`; a file is `Disk` (absent | characters + "ends in a torn UTF-8 sequence").
-/
namespace Harper.DictIO
open Harper.Spell

abbrev Word := List Char

/-! ## bytes -/

/-- `char::len_utf8` -/
def utf8Len (c : Char) : Nat :=
  let n := c.toNat
  if n < 0x80 then 1 else if n < 0x800 then 2 else if n < 0x10000 then 3 else 4

def byteLen : List Char → Nat
  | [] => 0
  | c :: cs => utf8Len c + byteLen cs

/-- the first `j` bytes of the UTF-8 encoding of `cs`: the characters that fit completely, and
whether the cut falls inside a character -/
def takeBytes : List Char → Nat → List Char × Bool
  | [], _ => ([], false)
  | c :: cs, j =>
    if j = 0 then ([], false)
    else if utf8Len c ≤ j then
      let r := takeBytes cs (j - utf8Len c)
      (c :: r.1, r.2)
    else ([], true)

/-! ## the file -/

inductive Disk where
  | absent
  /-- `torn` = the bytes end in an incomplete UTF-8 sequence (after `cs`) -/
  | file (cs : List Char) (torn : Bool)
  deriving Repr, DecidableEq, Inhabited

/-- `File::open` + `read_to_string`: `none` = `Err` (no such file / invalid UTF-8) -/
def readToString : Disk → Option (List Char)
  | .absent => none
  | .file _ true => none
  | .file cs false => some cs

/-! ## the in-memory dictionary -/

/-- `WordMap::insert`: `HashMap::insert` under the key `lower (normalize w)` replaces the value -/
def insert (f : Fns) (w : Word) : List Word → List Word
  | [] => [w]
  | e :: d => if key f e == key f w then w :: d else e :: insert f w d

/-- `extend_words` -/
def insertAll (f : Fns) (d : List Word) (ws : List Word) : List Word :=
  ws.foldl (fun d w => insert f w d) d

/-- `dict_from_word_list` on the file's text: every line of `str::lines` is a word -/
def loadWords (f : Fns) (s : List Char) : List Word := insertAll f [] (Stats.lines s)

/-- `load_dict` -/
def loadDict (f : Fns) (d : Disk) : Option (List Word) := (readToString d).map (loadWords f)

/-- `load_user_dictionary` / `load_file_dictionary`: a failed load is the empty dictionary -/
def loadOrEmpty (f : Fns) (d : Disk) : List Word := (loadDict f d).getD []

/-- `words_iter` order is the hash table's: taken from the harness if it is a permutation of the
model's dictionary, else the model's own order (the driver reports `bad-iter` in that case) -/
def orderOf (ord d : List Word) : List Word := if ord.isPerm d then ord else d

/-! ## save: syscall trace -/

inductive Sys where
  | openTrunc
  | write (cs : List Char)
  | close
  deriving Repr, DecidableEq

/-- what `write_word_list` hands to the `BufWriter`, one `write_all` each -/
def pieces : List Word → List (List Char)
  | [] => []
  | w :: ws => w :: ['\n'] :: pieces ws

/-- tokio `BufWriter::poll_write` with capacity `cap`, followed by the final `flush`:
flush the buffer first if the piece does not fit (`buf.len() + piece.len() > cap`); then a piece of
at least `cap` bytes bypasses the (now empty) buffer, a smaller one is appended to it.
`buf` = buffered characters. Result = payloads of the `write` syscalls in order. -/
def chunkGo (cap : Nat) (buf : List Char) : List (List Char) → List (List Char)
  | [] => if buf.isEmpty then [] else [buf]
  | p :: ps =>
    let m := byteLen p
    if byteLen buf + m > cap then
      let flushed := if buf.isEmpty then [] else [buf]
      if m ≥ cap then flushed ++ p :: chunkGo cap [] ps
      else flushed ++ chunkGo cap p ps
    else if m ≥ cap then p :: chunkGo cap buf ps
    else chunkGo cap (buf ++ p) ps

/-- `DEFAULT_BUF_SIZE` of tokio's `BufWriter` -/
def bufCap : Nat := 8192

def chunks (ws : List Word) : List (List Char) := chunkGo bufCap [] (pieces ws)

/-- `save_dict` of a dictionary whose `words_iter` yields `ws` -/
def saveTrace (ws : List Word) : List Sys :=
  .openTrunc :: ((chunks ws).map .write ++ [.close])

def exec : Disk → Sys → Disk
  | _, .openTrunc => .file [] false
  | .file cs t, .write x => .file (cs ++ x) t
  | .absent, .write _ => .absent
  | d, .close => d

def run (tr : List Sys) (d : Disk) : Disk := tr.foldl exec d

/-- the process dies after `k` complete syscalls of `tr` and, if the next one is a `write`, after `j`
bytes of it reached the file -/
def crashDisk (tr : List Sys) (k j : Nat) (d : Disk) : Disk :=
  let d' := run (tr.take k) d
  match tr[k]?, d' with
  | some (.write x), .file cs false =>
    let r := takeBytes x j
    .file (cs ++ r.1) r.2
  | _, _ => d'

/-- byte offset `b` into the saved file ↦ crash point: number of complete syscalls (the `open`
included) and bytes of the next `write`. `tr` = the trace after the `open`, `k` = syscalls done. -/
def locateGo : List Sys → Nat → Nat → Nat × Nat
  | .write x :: tr, b, k => if byteLen x ≤ b then locateGo tr (b - byteLen x) (k + 1) else (k, b)
  | _, _, k => (k, 0)

def locate (tr : List Sys) (b : Nat) : Nat × Nat := locateGo tr.tail b 1

/-! ## accept over the merged dictionary -/

def entries (d : List Word) : List Entry := d.map fun w => ⟨w, true⟩

/-- `MergedDictionary::get_word_metadata`: first child that has the key -/
def lookupM (f : Fns) (ch : List (List Entry)) (w : Word) : Option Entry :=
  ch.findSome? fun c => lookup f c w

/-- `MergedDictionary::contains_exact_word`: any child -/
def containsExactM (f : Fns) (ch : List (List Entry)) (w : Word) : Bool :=
  ch.any fun c => containsExact f c w

/-- `SpellCheck::lint` does not report the word token `w` -/
def acceptM (f : Fns) (ch : List (List Entry)) (w : Word) : Bool :=
  match lookupM f ch w with
  | some e => e.dialectOk && (containsExactM f ch w || containsExactM f ch (f.lower w))
  | none => false

/-! ## `MergedDictionary` equality: the rebuild decision of `update_document`

`merged_dictionary.rs`: `add_dictionary` stores `hash_dictionary(child)` next to the child;
`PartialEq` compares the `child_hashes` vectors. `hash_dictionary` is the constant `1` for the curated
dictionary (`Arc::ptr_eq` with `FstDictionary::curated()`), otherwise ONE hasher is fed
`write_u32(c)` for every character of every word in `words_iter` order — nothing marks where a word
ends — and `finish`ed. `update_document` keeps the document's old dictionary and linter when the
freshly loaded merged dictionary compares equal to the one it holds. -/

/-- what the hasher sees of one child -/
def stream (it : List Word) : List Char := it.flatten

/-- a child of the merged dictionary, as `words_iter` enumerates it -/
inductive Child where
  | curated
  | words (it : List Word)
  deriving Repr, DecidableEq

/-- `hash_dictionary`; `h` = the hash of a character sequence (foldhash `quality::FixedState`) -/
def childHash (h : List Char → Nat) : Child → Nat
  | .curated => 1
  | .words it => h (stream it)

/-- `child_hashes` -/
def fingerprint (h : List Char → Nat) (ch : List Child) : List Nat := ch.map (childHash h)

/-- `impl PartialEq for MergedDictionary` -/
def mergedEq (h : List Char → Nat) (a b : List Child) : Bool := fingerprint h a == fingerprint h b

/-- `if doc_state.dict != dict { doc_state.dict = dict; rebuild the linter }`: the dictionary the
document is parsed and linted with after an update that loaded `loaded` -/
def heldAfter (h : List Char → Nat) (held loaded : List Child) : List Child :=
  if mergedEq h held loaded then held else loaded

/-- an injective stand-in for the hash, used by the driver: the sequence as a number in base
0x110001 with digits `c + 1` -/
def hashInj (s : List Char) : Nat := s.foldl (fun acc c => acc * 0x110001 + (c.toNat + 1)) 0

/-- the order-independent fingerprint of the seeded change: XOR of a per-character hash `g` -/
def xorHash (g : Char → Nat) (s : List Char) : Nat := s.foldl (fun acc c => acc ^^^ g c) 0

/-! ## the JS linter (`harper-wasm`) -/

structure Js where
  /-- `user_dictionary` -/
  user : List Word := []
  /-- the user part of `dictionary` / `lint_group`'s dictionary (as of the last synchronise) -/
  lint : List Word := []
  deriving Repr, DecidableEq, Inhabited

/-- `Linter::import_words` -/
def Js.importWords (f : Fns) (ws : List Word) (js : Js) : Js :=
  let u := insertAll f js.user ws
  { user := u, lint := if u.length > js.user.length then u else js.lint }

/-! ## the state machine -/

structure State where
  /-- the user dictionary file (`user_dict_path`) -/
  user : Disk := .absent
  /-- the per-file dictionaries under `file_dict_path`, by (abstract) `file_dict_name` -/
  files : List (Nat × Disk) := []
  /-- the user dictionary inside the most recently built linter (`doc_state.dict`) -/
  mem : List Word := []
  js : Js := {}
  deriving Repr, DecidableEq, Inhabited

def fileDisk (files : List (Nat × Disk)) (name : Nat) : Disk := (files.lookup name).getD .absent

/-! ### the document URL, as far as the handlers look at it

`harper-ls/src/backend.rs` makes exactly two tests on a document URL (`tower_lsp::lsp_types::Url`, crate
`url` 2.5.4):

* `url.scheme() == "untitled"` — `load_file_dictionary` answers `Ok(MutableDictionary::new())` at once
  ("VS Code's unsaved documents have "untitled" scheme");
* `url.to_file_path()` — `file_dict_name` (hence `get_file_dict_path`: both `load_file_dictionary` for
  the other schemes and `save_file_dictionary`) and `update_document_from_file`. It succeeds iff the URL
  has path segments (is not "cannot-be-a-base") and no host other than `localhost`; **the scheme is not
  tested**. So `untitled:Untitled-1` (an unsaved VS Code buffer) has no path, `untitled:/home/u/new.md`
  (an unsaved buffer with an associated file name) HAS one, `zq:opaque` and `zq://host/a.md` have none.

The four combinations are four behaviours of `HarperAddToFileDict` and of a document check. -/
structure UrlKind where
  /-- `url.scheme() == "untitled"` -/
  untitled : Bool
  /-- `url.to_file_path().is_ok()` -/
  path : Bool
  deriving Repr, DecidableEq, Inhabited

/-- `file:///a/b.md` (and any host-less hierarchical URL of another scheme) -/
abbrev fileUrl : UrlKind := ⟨false, true⟩
/-- `untitled:Untitled-1` -/
abbrev untitledUrl : UrlKind := ⟨true, false⟩
/-- `untitled:/a/b.md` -/
abbrev untitledPathUrl : UrlKind := ⟨true, true⟩
/-- `zq:opaque`, `zq://host/a.md` -/
abbrev opaqueUrl : UrlKind := ⟨false, false⟩

/-- `Backend::load_file_dictionary` on the dictionary file `disk` of the document's name: `none` = `Err`
(`get_file_dict_path` failed: "Unable to get the file path."). For an `untitled:` URL the file is not
even looked at. -/
def loadFileDict (f : Fns) (u : UrlKind) (disk : Disk) : Option (List Word) :=
  if u.untitled then some []
  else if u.path then some (loadOrEmpty f disk)
  else none

inductive Op where
  /-- `HarperAddToUserDict` -/
  | add (w : Word) (ord : List Word)
  /-- `HarperAddToFileDict` for a document whose URL answers the two tests as `u` and whose
  `file_dict_name` is `name` (meaningless, and never used, when `u.path = false`) -/
  | addFile (u : UrlKind) (name : Nat) (w : Word) (ord : List Word)
  /-- server restart: everything in memory is gone -/
  | restart
  /-- `HarperAddToUserDict` whose `save_dict` dies at crash point `(k, j)`; then a restart -/
  | crashAdd (w : Word) (ord : List Word) (k j : Nat)
  /-- a document update (`update_document`, from `didOpen` / `didChange`) of a document of URL kind `u`:
  reload the dictionaries, check the word tokens `qs` -/
  | lint (u : UrlKind) (name : Nat) (qs : List Word)
  /-- `Linter::import_words` -/
  | jsImport (ws : List Word)
  /-- `Linter::lint` on a text whose word tokens are `qs` -/
  | jsLint (qs : List Word)
  /-- `new Linter` + `import_words(export_words())`, `ord` = the order `export_words` returned -/
  | jsRestart (ord : List Word)
  deriving Repr, DecidableEq

/-- the `words_iter` sequence written by the save of `add w` on the file `disk` -/
def savedWords (f : Fns) (disk : Disk) (w : Word) (ord : List Word) : List Word :=
  orderOf ord (insert f w (loadOrEmpty f disk))

/-- the children of the merged dictionary `generate_file_dictionary` builds for a document -/
def children (f : Fns) (cur : List Entry) (s : State) (name : Nat) : List (List Entry) :=
  [cur, entries (loadOrEmpty f s.user), entries (loadOrEmpty f (fileDisk s.files name))]

/-- `generate_file_dictionary` for a document of URL kind `u`: `none` = `Err` ("Unable to load the file
dictionary."); for an `untitled:` URL the third child is always empty; `childrenOf … fileUrl` is
`some (children …)` -/
def childrenOf (f : Fns) (cur : List Entry) (s : State) (u : UrlKind) (name : Nat) :
    Option (List (List Entry)) :=
  (loadFileDict f u (fileDisk s.files name)).map fun fd =>
    [cur, entries (loadOrEmpty f s.user), entries fd]

/-- one operation; the `Bool`s are the accept answers of the lint ops.

`addFile` is the `HarperAddToFileDict` arm of `execute_command`, step by step:
`load_file_dictionary(url)` — on `Err` the handler logs and **returns `Ok(None)`**: nothing saved, the
document not re-read, nothing published; otherwise `append_word`, then `save_file_dictionary(url, dict)`
— `get_file_dict_path` fails when the URL has no path: the error is logged and dropped, **nothing is
written**, the dictionary with the new word is dropped with the handler's frame (the server keeps no
file dictionary in memory) — then `update_document_from_file(url)` — fails likewise, so the document
keeps its dictionary, linter and lints — then `publish_diagnostics(url)` (the unchanged lints are
published again). The response is `Ok(None)` in every case: the client is told nothing.
For an `untitled:` URL `save_file_dictionary` returns `Ok(())` at once WITHOUT writing (same guard as
`load_file_dictionary`; repo commit 861d597): nothing is written and nothing is kept, with or without a
path. (Before 861d597 `untitled:/a/b.md` saved the dictionary `{w}` alone — the old file was never
loaded — and so REPLACED the file dictionary of `/a/b.md`; finding of w24, repaired.) For
`untitled:/a/b.md` the document is then re-read from its path like a `file:` document (`mem`).
(`mem` for a URL with a path assumes, as for `file:` URLs, that the path can be read from disk.)

`lint`: when `generate_file_dictionary` fails, `update_document` returns `Err` before it touches
`doc_state`; `didOpen` / `didChange` log it and publish what the document state holds — for a document
that could never be opened, nothing: no word is ever reported. -/
def step (f : Fns) (cur : List Entry) (s : State) : Op → State × List Bool
  | .add w ord =>
    let disk := run (saveTrace (savedWords f s.user w ord)) s.user
    ({ s with user := disk, mem := loadOrEmpty f disk }, [])
  | .addFile u name w ord =>
    let old := fileDisk s.files name
    match loadFileDict f u old with
    | none => (s, [])
    | some d =>
      if u.path then
        if u.untitled then ({ s with mem := loadOrEmpty f s.user }, [])
        else
          let disk := run (saveTrace (orderOf ord (insert f w d))) old
          ({ s with files := (name, disk) :: s.files, mem := loadOrEmpty f s.user }, [])
      else (s, [])
  | .restart => ({ s with mem := [] }, [])
  | .crashAdd w ord k j =>
    ({ s with user := crashDisk (saveTrace (savedWords f s.user w ord)) k j s.user, mem := [] }, [])
  | .lint u name qs =>
    match childrenOf f cur s u name with
    | some ch => ({ s with mem := loadOrEmpty f s.user }, qs.map (acceptM f ch))
    | none => (s, qs.map fun _ => true)
  | .jsImport ws => ({ s with js := s.js.importWords f ws }, [])
  | .jsLint qs => (s, qs.map (acceptM f [cur, entries s.js.lint]))
  | .jsRestart ord => ({ s with js := Js.importWords f (orderOf ord s.js.user) {} }, [])

def runOps (f : Fns) (cur : List Entry) (s : State) (ops : List Op) : State :=
  ops.foldl (fun s op => (step f cur s op).1) s

/-! ## the rest of the lints

Non-spelling rules are functions of the text (and of the token metadata of words the curated
dictionary knows): `other text` stands for their output. That they do not read the user / file
dictionary is C11's independence clause; here it is a modelling assumption, monitored by the
oracle on every case (all non-spelling lints before and after an add). -/
def lintAll (f : Fns) (cur : List Entry) (other : List Char → List Nat) (s : State) (name : Nat)
    (text : List Char) (qs : List Word) : List Bool × List Nat :=
  (qs.map (acceptM f (children f cur s name)), other text)

end Harper.DictIO
