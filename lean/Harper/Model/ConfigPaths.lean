import Harper.Model.Effects
/-!
# How a configured path string becomes the path that is written (C10)

`harper-ls/src/config.rs` (`Config::default`, `Config::from_lsp_config`) with its two helpers:
`dirs::{config_dir, data_local_dir}` (Linux: `$XDG_…` if set to an ABSOLUTE path, else below `$HOME`)
and `resolve_path::PathResolveExt::try_resolve` (resolve-path 0.1.0):

* an absolute path is returned unchanged;
* a path whose FIRST COMPONENT is `~` (the string `~`, or `~/…`) has the `~` replaced by the home
  directory (`~user/…` is NOT expanded: its first component is `~user`);
* anything else is joined to the current directory. `.` and `..` components are not resolved by the
  crate (`..` is left to the kernel), repeated slashes and `.` disappear when the result is split
  into components.

Quirks of `from_lsp_config` that are modelled because they exist: an EMPTY `userDictPath` /
`fileDictPath` keeps the default; the `statsPath` key sets the FILE-DICTIONARY directory (also when
it is empty: the current directory) and the statistics file always stays at its default; a value
that is not a string rejects the whole configuration (the previous one stays in force).
-/
namespace Harper.Effects

/-- `try_resolve` with `dirs::home_dir() = home` and `current_dir() = cwd` -/
def resolvePath (home cwd : Path) (p : List Char) : Path :=
  if p.head? = some '/' then components p
  else if p = ['~'] ∨ p.take 2 = ['~', '/'] then home ++ components (p.drop 1)
  else cwd ++ components p

/-- `std::path::absolute`-like resolution WITHOUT tilde expansion (what the code must not do) -/
def absoluteOnly (cwd : Path) (p : List Char) : Path :=
  if p.head? = some '/' then components p else cwd ++ components p

/-- the environment `dirs` reads -/
structure DirsEnv where
  home : Path
  xdgConfig : Option (List Char)
  xdgData : Option (List Char)

def xdgOr (v : Option (List Char)) (fallback : Path) : Path :=
  match v with
  | some s => if s.head? = some '/' then components s else fallback
  | none => fallback

def configDir (e : DirsEnv) : Path := xdgOr e.xdgConfig (e.home ++ [".config".toList])
def dataDir (e : DirsEnv) : Path := xdgOr e.xdgData (e.home ++ [".local".toList, "share".toList])

/-- `Config::default()` -/
def defaultPaths (e : DirsEnv) : Paths :=
  { userDict := configDir e ++ ["harper-ls".toList, "dictionary.txt".toList],
    fileDir := dataDir e ++ ["harper-ls".toList, "file_dictionaries".toList],
    stats := dataDir e ++ ["harper-ls".toList, "stats.txt".toList] }

/-- the JSON value under a key, as far as `from_lsp_config` distinguishes -/
inductive Val where
  | str (s : List Char)
  | other
  deriving DecidableEq, Repr

/-- the three path keys of the `harper-ls` settings object (`none` = key absent) -/
structure PathCfg where
  userDictPath : Option Val
  fileDictPath : Option Val
  statsPath : Option Val
  deriving Repr

/-- `Config::from_lsp_config`, path part. `none` = `Err` (the configuration is rejected). -/
def fromLspConfig (e : DirsEnv) (cwd : Path) (c : PathCfg) : Option Paths :=
  let base := defaultPaths e
  -- userDictPath
  match (match c.userDictPath with
    | none => some base
    | some .other => none
    | some (.str s) => some (if s = [] then base else { base with userDict := resolvePath e.home cwd s })) with
  | none => none
  | some base =>
    -- fileDictPath
    match (match c.fileDictPath with
      | none => some base
      | some .other => none
      | some (.str s) => some (if s = [] then base else { base with fileDir := resolvePath e.home cwd s })) with
    | none => none
    | some base =>
      -- statsPath: sets file_dict_path (sic), no empty-string rule
      match c.statsPath with
      | none => some base
      | some .other => none
      | some (.str s) => some { base with fileDir := resolvePath e.home cwd s }

/- `normDots` (lexical `..` resolution, used to compare with traced system calls) lives in
`Model/Effects.lean` since w24 (`dirsCreated` needs it); same definition, same namespace. -/

end Harper.Effects

namespace Harper.Effects

/-- a file the configuration (or its default) names: user dictionary or statistics file -/
def ConfiguredFile (e : DirsEnv) (cwd : Path) (c : PathCfg) (q : Path) : Prop :=
  q = (defaultPaths e).userDict ∨ q = (defaultPaths e).stats ∨
  ∃ s, c.userDictPath = some (.str s) ∧ q = resolvePath e.home cwd s

/-- a directory the configuration (or its default) names for the per-document dictionaries
(`fileDictPath`, or — the quirk — `statsPath`) -/
def ConfiguredDir (e : DirsEnv) (cwd : Path) (c : PathCfg) (d : Path) : Prop :=
  d = (defaultPaths e).fileDir ∨
  ∃ s, (c.fileDictPath = some (.str s) ∨ c.statsPath = some (.str s)) ∧ d = resolvePath e.home cwd s

/-- one NORMAL path component (`std::path::Component::Normal`): not empty, no `/`, neither `.`
nor `..` — the only kind of name under which something can be placed directly inside a directory.
This is what `file_dict_name` yields for every document path but the root
(`fileDictName_single_component`, `fileDictPath_inside`). -/
def NormalName (n : List Char) : Prop := n ≠ [] ∧ '/' ∉ n ∧ n ≠ ['.'] ∧ n ≠ ['.', '.']

/-- where a handler may write, in terms of the RESOLVED configured values: a configured file or the
directory containing it; the configured dictionary directory, its parent, or a direct child of it
whose name is ONE NORMAL path component (w24: the empty name and `.` are excluded, as `..` was — the
old predicate let `d ++ [[]]` and `d ++ [['.']]` through, which no code path produces) -/
def AllowedWrite (e : DirsEnv) (cwd : Path) (c : PathCfg) (p : Path) : Prop :=
  (∃ q, ConfiguredFile e cwd c q ∧ (p = q ∨ p = parent q)) ∨
  (∃ d, ConfiguredDir e cwd c d ∧
    (p = d ∨ p = parent d ∨ ∃ n, NormalName n ∧ p = d ++ [n]))

/-- a directory the server makes sure exists (`create_dir_all`): the one containing a configured
file, or the configured dictionary directory. (`parent d` for a configured DIRECTORY `d` — made
only when the document is the root path, `file_dict_name = ""` — is an ancestor of `d`.) -/
def AllowedRoot (e : DirsEnv) (cwd : Path) (c : PathCfg) (t : Path) : Prop :=
  (∃ q, ConfiguredFile e cwd c q ∧ t = parent q) ∨ ConfiguredDir e cwd c t

/-- what a handler may CREATE: an allowed write, or — the honest part — a non-root ANCESTOR of an
allowed root. `create_dir_all` makes every missing directory on the way down to the configured one,
and those lie OUTSIDE the configured directory (above it): with `userDictPath = /a/b/d.txt` on a
machine without `/a`, the server creates `/a`. -/
def AllowedCreate (e : DirsEnv) (cwd : Path) (c : PathCfg) (p : Path) : Prop :=
  AllowedWrite e cwd c p ∨ (p ≠ [] ∧ ∃ t, AllowedRoot e cwd c t ∧ p <+: t)

end Harper.Effects
