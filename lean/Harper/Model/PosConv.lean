import Harper.Basic.Span
/-!
# L8 — `harper-ls/src/pos_conv.rs`, the `TextEdit` construction of `diagnostics.rs`, the
code-action filter of `document_state.rs`, and an LSP *client*

Import-free. The server side follows the Rust code line by line (newline-index list,
`.take(line + 1)`, the two `pop`s, the scanning loop with its two fall-through returns; slices
that can go out of bounds are `Except Panic`). `len16 : Char → Nat` is `char::len_utf16`, supplied
per character by the harness (1 or 2) — Unicode is not re-implemented here.

The client side (`clientOffset`, `clientApply`) is *not* harper code: it is the reading of a
`Position` prescribed by the LSP specification (lines end at `\n`, `\r\n` or `\r`; `character`
counts UTF-16 code units and is clamped to the line length), i.e. what an editor does with the
ranges the server sends.

Remark (width): the Rust code casts `lines`/`cols` to `u32`; the model uses unbounded `Nat`
(a text needs 2^32 lines or a 2^32-unit line to tell the difference).
-/
namespace Harper.PosConv
open Harper

/-- `tower_lsp::lsp_types::Position` -/
structure Position where
  line      : Nat
  character : Nat
  deriving Repr, DecidableEq, Inhabited

/-- `tower_lsp::lsp_types::Range` -/
structure Range where
  start : Position
  stop  : Position
  deriving Repr, DecidableEq, Inhabited

/-- `.iter().enumerate().filter_map(|(idx, c)| if *c == '\n' { Some(idx + 1) } else { None })`,
the enumeration having reached `k`. -/
def nlIdx (k : Nat) : List Char → List Nat
  | [] => []
  | c :: cs => if c = '\n' then (k + 1) :: nlIdx (k + 1) cs else nlIdx (k + 1) cs

/-- `.iter().map(|c| c.len_utf16()).sum()` -/
def sum16 (len16 : Char → Nat) : List Char → Nat
  | [] => 0
  | c :: cs => len16 c + sum16 len16 cs

/-- `&source[a..b]` (panics when `a > b` or `b > len`). -/
def slice (src : List Char) (a b : Nat) : Except Panic (List Char) :=
  if a > b ∨ b > src.length then .error .sliceOOB else .ok ((src.drop a).take (b - a))

/-- `index_to_position` -/
def indexToPosition (len16 : Char → Nat) (src : List Char) (index : Nat) : Except Panic Position :=
  match slice src 0 index with
  | .error e => .error e
  | .ok before =>
    let newlineIndices := nlIdx 0 before
    let lines := newlineIndices.length
    let lastNewlineIdx := newlineIndices.getLast?.getD 0
    match slice src lastNewlineIdx index with
    | .error e => .error e
    | .ok seg => .ok ⟨lines, sum16 len16 seg⟩

/-- the `for (traversed_chars, c) in … .enumerate()` loop of `position_to_index`:
`.inl k` = early `return line_start_idx + k`; `.inr cols` = loop finished with `traversed_cols`. -/
def scanLoop (len16 : Char → Nat) (col : Nat) : Nat → Nat → List Char → Sum Nat Nat
  | trav, _, [] => .inr trav
  | trav, k, c :: cs => if trav = col then .inl k else scanLoop len16 col (trav + len16 c) (k + 1) cs

/-- `position_to_index` -/
def positionToIndex (len16 : Char → Nat) (src : List Char) (p : Position) : Except Panic Nat :=
  let newlineIndices := (nlIdx 0 src).take (p.line + 1)
  let lineEndIdx := newlineIndices.getLast?.getD src.length        -- first `pop`
  let newlineIndices' := newlineIndices.dropLast
  let lineStartIdx := newlineIndices'.getLast?.getD 0              -- second `pop`
  match slice src lineStartIdx lineEndIdx with
  | .error e => .error e
  | .ok seg =>
    match scanLoop len16 p.character 0 0 seg with
    | .inl k => .ok (lineStartIdx + k)
    | .inr trav => if trav > 0 then .ok lineEndIdx else .ok lineStartIdx

/-- `span_to_range` -/
def spanToRange (len16 : Char → Nat) (src : List Char) (sp : Span) : Except Panic Range :=
  match indexToPosition len16 src sp.start with
  | .error e => .error e
  | .ok a =>
    match indexToPosition len16 src sp.stop with
    | .error e => .error e
    | .ok b => .ok ⟨a, b⟩

/-- `range_to_span` (`Span::new` panics when `start > end`) -/
def rangeToSpan (len16 : Char → Nat) (src : List Char) (r : Range) : Except Panic Span :=
  match positionToIndex len16 src r.start with
  | .error e => .error e
  | .ok a =>
    match positionToIndex len16 src r.stop with
    | .error e => .error e
    | .ok b => Span.new a b

/-! ### `diagnostics.rs`: the `TextEdit` of a suggestion -/

/-- `harper_core::linting::Suggestion` -/
inductive Sugg where
  | replaceWith (r : List Char)
  | insertAfter (r : List Char)
  | remove
  deriving Repr, DecidableEq, Inhabited

/-- `tower_lsp::lsp_types::TextEdit` -/
structure TextEdit where
  range   : Range
  newText : List Char
  deriving Repr, DecidableEq, Inhabited

/-- the `TextEdit` built by `lint_to_code_actions` for one suggestion of a lint with span `sp`:
`range = span_to_range(source, lint.span)` first, then the `replace_string` match
(`InsertAfter` re-sends the flagged text followed by the insertion). -/
def editOf (len16 : Char → Nat) (src : List Char) (sugg : Sugg) (sp : Span) : Except Panic TextEdit :=
  match spanToRange len16 src sp with
  | .error e => .error e
  | .ok range =>
    match sugg with
    | .replaceWith r => .ok ⟨range, r⟩
    | .remove => .ok ⟨range, []⟩
    | .insertAfter r =>
      match sp.getContent src with
      | .error e => .error e
      | .ok content => .ok ⟨range, content ++ r⟩

/-- What `Suggestion::apply` does to the text for a span inside it (`start ≤ end ≤ len`): the
splice. (The out-of-bounds behaviour of `apply` is C03's subject and not modelled here.) -/
def applySpec (sugg : Sugg) (sp : Span) (src : List Char) : List Char :=
  match sugg with
  | .replaceWith r => src.take sp.start ++ r ++ src.drop sp.stop
  | .remove => src.take sp.start ++ src.drop sp.stop
  | .insertAfter r => src.take sp.stop ++ r ++ src.drop sp.stop

/-! ### `document_state.rs`: which lints a code-action request selects -/

/-- the filter of `generate_code_actions`:
`lint.span.overlaps_with(range_to_span(source, range).with_len(1))` -/
def selects (len16 : Char → Nat) (src : List Char) (request : Range) (lint : Span) : Except Panic Bool :=
  match rangeToSpan len16 src request with
  | .error e => .error e
  | .ok sp => .ok (lint.overlapsWith (sp.withLen 1))

/-! ### The LSP client (specification side) -/

/-- inside one line: how many characters to advance to consume `col` UTF-16 units. Stops at a
line terminator (`character` is clamped to the line length). A `col` strictly inside a surrogate
pair is not a valid position; the client stays before that character. -/
def clientCol (len16 : Char → Nat) : Nat → List Char → Nat
  | _, [] => 0
  | col, c :: cs =>
    if c = '\n' ∨ c = '\r' then 0
    else if col < len16 c then 0
    else 1 + clientCol len16 (col - len16 c) cs

/-- character offset denoted by `(line, col)` for an LSP client: lines end at `\n`, `\r\n`
(one terminator: the `\r` of a `\r\n` does not end a line by itself, the `\n` does) or a lone
`\r`; a line beyond the last resolves to the end of the text. -/
def clientOffsetLC (len16 : Char → Nat) : List Char → Nat → Nat → Nat
  | [], _, _ => 0
  | c :: cs, 0, col => clientCol len16 col (c :: cs)
  | c :: cs, line + 1, col =>
    if c = '\n' then 1 + clientOffsetLC len16 cs line col
    else if c = '\r' ∧ cs.head? ≠ some '\n' then 1 + clientOffsetLC len16 cs line col
    else 1 + clientOffsetLC len16 cs (line + 1) col

def clientOffset (len16 : Char → Nat) (src : List Char) (p : Position) : Nat :=
  clientOffsetLC len16 src p.line p.character

/-- a client applying a `TextEdit`: replace the characters between the decoded positions. -/
def clientApply (len16 : Char → Nat) (src : List Char) (e : TextEdit) : List Char :=
  src.take (clientOffset len16 src e.range.start) ++ e.newText ++
    src.drop (clientOffset len16 src e.range.stop)

end Harper.PosConv
