import Harper.Basic.Span
import Harper.Basic.Token
/-!
# L6 — the offset glue of the wrapped front-ends

Executable models of the code that sits between a third-party parser (tree-sitter, pulldown-cmark,
typst-syntax) or a line-oriented convention (comment leaders, bird tracks, the `#` of a commit
message) and Harper's char-indexed tokens. Third-party outputs are *data* (byte ranges, inner
parser tokens); the arithmetic that turns them into char offsets is what is modelled:

* (a) `harper-tree-sitter/src/lib.rs:byte_spans_to_char_spans` (sort, retain, byte→char loop);
* (b) `harper-core/src/mask/mod.rs` (`push_allowed`, `merge_whitespace_sep`) and
      `harper-core/src/parsers/mask.rs` (`Mask::parse`);
* (b2) `harper-comments/src/masker.rs` (`CommentMasker::create_mask`: the ignore-marker filter and
      `Mask::from_iter`);
* (c) `harper-comments/src/comment_parsers/{mod,unit,jsdoc,javadoc,go}.rs` (`without_initiators`, the per-line
      leader stripping of `Unit::parse` / `JsDoc::parse`, `mark_inline_tags`/`parse_inline_tag`,
      `JavaDoc::parse` with its block-tag loop, `Go::parse` with its directive handling);
* (d) `harper-literate-haskell/src/masker.rs` (bird tracks / `\begin{code}` state machine);
* (e) `harper-ls/src/git_commit_parser.rs` (cut at the first `#`);
* (f) `harper-typst/src/offset_cursor.rs:push_to` and the `traversed_bytes/traversed_chars` pair of
      `harper-core/src/parsers/markdown.rs`.

Panics are values, loops that are not structural are fuel-indexed. `isWs` (`char::is_whitespace`)
is a parameter supplied per character by the harness.
-/
namespace Harper

/-- the sub-list `l[s.start .. s.stop]` (total: clipped like `drop`/`take`) -/
def slice {α} (l : List α) (s : Span) : List α := (l.drop s.start).take (s.stop - s.start)

/-- `token.span.push_by(n)` -/
def Tok.shift (t : Tok) (n : Nat) : Tok := ⟨t.span.pushBy n, t.kind⟩

/-- `slice.split(|c| *c == '\n')`: always at least one piece -/
def splitNl : List Char → List (List Char)
  | [] => [[]]
  | c :: cs =>
    if c = '\n' then [] :: splitNl cs
    else match splitNl cs with
      | l :: ls => (c :: l) :: ls
      | [] => [[c]]

/-! ## (a) `byte_spans_to_char_spans` -/

/-- UTF-8 continuation byte `10xxxxxx` -/
def isCont (b : Nat) : Bool := decide (128 ≤ b) && decide (b < 192)

/-- `str::is_char_boundary` -/
def isBoundary (bs : List Nat) (i : Nat) : Bool :=
  i == 0 || (match bs[i]? with
    | some b => !isCont b
    | none => i == bs.length)

/-- `str.chars().count()` of well-formed UTF-8: the bytes that start a character -/
def charCount (bs : List Nat) : Nat := bs.countP (fun b => !isCont b)

/-- `source[a..b].chars().count()`; the slice panics unless `a ≤ b ≤ len` on char boundaries -/
def sliceCount (bs : List Nat) (a b : Nat) : Except Panic Nat :=
  if a ≤ b ∧ b ≤ bs.length ∧ isBoundary bs a = true ∧ isBoundary bs b = true then
    .ok (charCount ((bs.drop a).take (b - a)))
  else .error .sliceOOB

/-- stable insertion: `x` preceded every element of the list in the input -/
def insertByStart (x : Span) : List Span → List Span
  | [] => [x]
  | y :: ys => if x.start ≤ y.start then x :: y :: ys else y :: insertByStart x ys

/-- `byte_spans.sort_by_key(|s| s.start)` (stable) -/
def sortByStart : List Span → List Span
  | [] => []
  | x :: xs => insertByStart x (sortByStart xs)

/-- the `retain` closure: element `k ≥ 1` of the *sorted, unfiltered* list is kept iff it does
not overlap element `k-1` of that same list (`cloned.get(i.wrapping_sub(2))`) -/
def retainAux (prev : Span) : List Span → List Span
  | [] => []
  | c :: cs => if c.overlapsWith prev then retainAux c cs else c :: retainAux c cs

def retainStep : List Span → List Span
  | [] => []
  | c :: cs => c :: retainAux c cs

/-- the `iter_mut().for_each` loop with `last_byte_pos`, `last_char_pos` -/
def convLoop (bs : List Nat) : Nat → Nat → List Span → Except Panic (List Span)
  | _, _, [] => .ok []
  | lb, lc, s :: rest => do
    let n1 ← sliceCount bs lb s.start
    let n2 ← sliceCount bs s.start s.stop
    let rest' ← convLoop bs s.stop (lc + n1 + n2) rest
    pure (⟨lc + n1, lc + n1 + n2⟩ :: rest')

def byteSpansToCharSpans (bs : List Nat) (spans : List Span) : Except Panic (List Span) :=
  convLoop bs 0 0 (retainStep (sortByStart spans))

/-! ## (b) `Mask` -/

/-- `Mask::push_allowed`: asserts `allowed.start >= last.end`; abutting spans are fused -/
def pushAllowed (m : List Span) (a : Span) : Except Panic (List Span) :=
  match m.getLast? with
  | none => .ok [a]
  | some last =>
    if a.start < last.stop then .error .assertFail
    else if a.start = last.stop then .ok (m.dropLast ++ [⟨last.start, a.stop⟩])
    else .ok (m ++ [a])

def pushAll : List Span → List Span → Except Panic (List Span)
  | m, [] => .ok m
  | m, a :: as => do
    let m' ← pushAllowed m a
    pushAll m' as

/-- one sweep of `merge_whitespace_sep`: a merged pair is pushed and *both* are consumed -/
def wsPass (isWs : Char → Bool) (src : List Char) : List Span → Except Panic (List Span)
  | [] => .ok []
  | [a] => .ok [a]
  | a :: b :: rest => do
    let sep ← Span.new a.stop b.start
    let c ← sep.getContent src
    if c.all isWs then do
      let m ← Span.new a.start b.stop
      let r ← wsPass isWs src rest
      pure (m :: r)
    else do
      let r ← wsPass isWs src (b :: rest)
      pure (a :: r)

/-- `merge_whitespace_sep` recurses until a sweep changes nothing -/
def mergeWhitespaceSep (isWs : Char → Bool) (src : List Char) : Nat → List Span → Except Panic (List Span)
  | 0, _ => .error .outOfFuel
  | fuel + 1, m => do
    let after ← wsPass isWs src m
    if after.length ≠ m.length then mergeWhitespaceSep isWs src fuel after else pure after

/-- `TreeSitterMasker::create_mask` after the tree walk: node byte ranges → mask -/
def treeSitterMask (isWs : Char → Bool) (bs : List Nat) (src : List Char) (ranges : List Span) :
    Except Panic (List Span) := do
  let cs ← byteSpansToCharSpans bs ranges
  let m ← pushAll [] cs
  mergeWhitespaceSep isWs src (m.length + 1) m

/-- `parsers::Mask::parse`: per allowed span, run the inner parser on the span's characters and
shift its tokens by `span.start`; a `ParagraphBreak` over the gap when the gap contains `\n` -/
def gapBreak (src : List Char) (last : Option Span) (s : Span) : Except Panic (List Tok) :=
  match last with
  | none => .ok []
  | some l => do
    let iv ← Span.new l.stop s.start
    let c ← iv.getContent src
    pure (if c.contains '\n' then [(⟨iv, .paragraphBreak⟩ : Tok)] else [])

def maskLoop (src : List Char) (inner : List Char → List Tok) :
    Option Span → List Span → Except Panic (List Tok)
  | _, [] => .ok []
  | last, s :: rest => do
    let content ← s.getContent src
    let brk ← gapBreak src last s
    let rest' ← maskLoop src inner (some s) rest
    pure (brk ++ (inner content).map (·.shift s.start) ++ rest')

def maskParse (src : List Char) (mask : List Span) (inner : List Char → List Tok) :
    Except Panic (List Tok) :=
  maskLoop src inner none mask

/-! ## (b2) `CommentMasker` (`harper-comments/src/masker.rs`) -/

/-- `str::contains(pat)`: `pat` occurs as a contiguous run of characters (the patterns are ASCII, so
the byte-wise search of `str` and this character-wise search agree on well-formed UTF-8) -/
def containsSub (pat : List Char) : List Char → Bool
  | [] => pat.isEmpty
  | c :: cs => pat.isPrefixOf (c :: cs) || containsSub pat cs

/-- the eight `text.contains("…")` literals of `CommentMasker::new`, in source order -/
def ignoreMarkers : List (List Char) := [
  ['s','p','e','l','l','c','h','e','c','k','e','r',':','i','g','n','o','r','e'],
  ['s','p','e','l','l','c','h','e','c','k','e','r',':',' ','i','g','n','o','r','e'],
  ['s','p','e','l','l','-','c','h','e','c','k','e','r',':','i','g','n','o','r','e'],
  ['s','p','e','l','l','-','c','h','e','c','k','e','r',':',' ','i','g','n','o','r','e'],
  ['s','p','e','l','l','c','h','e','c','k',':','i','g','n','o','r','e'],
  ['s','p','e','l','l','c','h','e','c','k',':',' ','i','g','n','o','r','e'],
  ['h','a','r','p','e','r',':','i','g','n','o','r','e'],
  ['h','a','r','p','e','r',':',' ','i','g','n','o','r','e']]

/-- the default `ignore_condition` of `CommentMasker::new`: one of the eight markers anywhere in the
text of the allowed span, or the text starts with `#!` (a shebang line) -/
def ignoreCondition (text : List Char) : Bool :=
  ignoreMarkers.any (fun mk => containsSub mk text) || ['#', '!'].isPrefixOf text

/-- `.iter_allowed(source).map(..).filter(|(_, text)| !ignore(text)).map(|(span, _)| span)`:
`iter_allowed` takes `span.get_content(source)` of every allowed span (a panic value); a span whose
text satisfies the ignore condition is dropped, the others are kept in order -/
def ignoreFilter (ign : List Char → Bool) (src : List Char) : List Span → Except Panic (List Span)
  | [] => .ok []
  | s :: rest => do
    let c ← s.getContent src
    let r ← ignoreFilter ign src rest
    pure (if ign c then r else s :: r)

/-- `allowed.is_sorted_by(|a, b| a.end <= b.start)` -/
def adjacentDisjoint : List Span → Bool
  | a :: b :: rest => decide (a.stop ≤ b.start) && adjacentDisjoint (b :: rest)
  | _ => true

/-- `impl FromIterator<Span> for Mask`: stable sort by start, then the assertion; abutting spans are
NOT fused here (unlike `push_allowed`) -/
def maskFromIter (spans : List Span) : Except Panic (List Span) :=
  let sorted := sortByStart spans
  if adjacentDisjoint sorted then .ok sorted else .error .assertFail

/-- what `CommentMasker::create_mask` does with the inner masker's mask: filter, then `collect()` -/
def commentFilter (ign : List Char → Bool) (src : List Char) (m : List Span) :
    Except Panic (List Span) := do
  let kept ← ignoreFilter ign src m
  maskFromIter kept

/-- `CommentMasker::create_mask` after the tree walk: `TreeSitterMasker::create_mask` (byte→char,
`push_allowed`, `merge_whitespace_sep`) composed with the ignore filter. The filter sees the spans
AFTER whitespace merging: a marker in one comment drops every comment merged into the same span. -/
def commentMask (ign : List Char → Bool) (isWs : Char → Bool) (bs : List Nat) (src : List Char)
    (ranges : List Span) : Except Panic (List Span) := do
  let m ← treeSitterMask isWs bs src ranges
  commentFilter ign src m

/-! ## (c) comment leaders -/

def isCommentChar (c : Char) : Bool :=
  c == '#' || c == '-' || c == '/' || c == '*' || c == '!'

/-- `without_initiators`: `position(..).unwrap_or(len)` from the front,
`len - rev().position(..).unwrap_or(0)` from the back -/
def withoutInitiators (isWs : Char → Bool) (src : List Char) : Except Panic Span :=
  let keep := fun c => !isCommentChar c && !isWs c
  let start := src.findIdx keep
  let trail := if src.reverse.any keep then src.reverse.findIdx keep else 0
  Span.new start (src.length - trail)

def lineIsCodeFence (isWs : Char → Bool) (line : List Char) : Except Panic Bool := do
  let a ← withoutInitiators isWs line
  let c ← a.getContent line
  pure (c.take 3 == ['`', '`', '`'])

/-- `unit.rs:parse_line` -/
def parseLine (isWs : Char → Bool) (inner : List Char → List Tok) (line : List Char) :
    Except Panic (List Tok) := do
  let a ← withoutInitiators isWs line
  if a.isEmpty then pure []
  else do
    let c ← a.getContent line
    pure ((inner c).map (·.shift a.start))

/-- the newline token `Unit`/`JsDoc` put after every line but the last -/
def lineBreakTok (total trav : Nat) (line : List Char) : List Tok :=
  if trav + line.length < total then [⟨⟨line.length, line.length + 1⟩, .newline 1⟩] else []

/-- `Unit::parse` loop; `trav` = `chars_traversed` -/
def unitLoop (isWs : Char → Bool) (total : Nat) (inner : List Char → List Tok) :
    Nat → Bool → List (List Char) → Except Panic (List Tok)
  | _, _, [] => .ok []
  | trav, fence, line :: rest => do
    let isF ← lineIsCodeFence isWs line
    let fence' := if isF then !fence else fence
    if fence' then unitLoop isWs total inner (trav + line.length + 1) fence' rest
    else do
      let nt ← parseLine isWs inner line
      let r ← unitLoop isWs total inner (trav + line.length + 1) fence' rest
      pure ((nt ++ lineBreakTok total trav line).map (·.shift trav) ++ r)

def unitParse (isWs : Char → Bool) (src : List Char) (inner : List Char → List Tok) :
    Except Panic (List Tok) :=
  unitLoop isWs src.length inner 0 false (splitNl src)

/-- `parse_inline_tag`'s cursor loop from `cursor` on: index of the closing `}` -/
def inlineTagLoop (ks : List Kind) : Nat → Nat → Except Panic (Option Nat)
  | 0, _ => .error .outOfFuel
  | fuel + 1, cursor =>
    match ks[cursor]? with
    | some (.punct .CloseCurly) => .ok (some (cursor + 1))
    | some _ => inlineTagLoop ks fuel (cursor + 1)
    | none => .ok none

/-- `parse_inline_tag`: does the slice begin with `{ @ word …  }`? returns the tag's length -/
def parseInlineTag (fuel : Nat) (ks : List Kind) : Except Panic (Option Nat) :=
  match ks with
  | .punct .OpenCurly :: .punct .At :: .word :: _ => inlineTagLoop ks fuel 3
  | _ => .ok none

def markUnlintable (toks : List Tok) (a b : Nat) : List Tok :=
  toks.mapIdx fun i t => if a ≤ i ∧ i < b then ⟨t.span, .unlintable⟩ else t

/-- position of the first `{` at or after `cursor` -/
def nextOpenCurly (toks : List Tok) (cursor : Nat) : Option Nat :=
  ((toks.drop cursor).findIdx? (fun t => t.kind == .punct .OpenCurly)).map (· + cursor)

/-- `mark_inline_tags` -/
def markInlineTags : Nat → List Tok → Nat → Except Panic (List Tok)
  | 0, _, _ => .error .outOfFuel
  | fuel + 1, toks, cursor =>
    if cursor ≥ toks.length then .ok toks
    else match nextOpenCurly toks cursor with
      | none => .ok toks
      | some c => do
        let r ← parseInlineTag (toks.length + 1) ((toks.drop c).map (·.kind))
        match r with
        | some p => markInlineTags fuel (markUnlintable toks c (c + p)) (c + p)
        | none => markInlineTags fuel toks (c + 1)

/-- the block tag: from the first adjacent `@ word` pair to the end of the line -/
def blockTagStart : List Tok → Option Nat
  | a :: b :: rest =>
    if a.kind == .punct .At && b.kind == .word then some 0
    else (blockTagStart (b :: rest)).map (· + 1)
  | _ => none

/-- `jsdoc.rs:parse_line` -/
def jsdocLine (isWs : Char → Bool) (inner : List Char → List Tok) (line : List Char) :
    Except Panic (List Tok) := do
  let a ← withoutInitiators isWs line
  if a.isEmpty then pure []
  else do
    let c ← a.getContent line
    let t0 := inner c
    let t1 ← markInlineTags (t0.length + 1) t0 0
    let t2 := match blockTagStart t1 with
      | some k => markUnlintable t1 k t1.length
      | none => t1
    pure (t2.map (·.shift a.start))

def jsdocLoop (isWs : Char → Bool) (total : Nat) (inner : List Char → List Tok) :
    Nat → List (List Char) → Except Panic (List Tok)
  | _, [] => .ok []
  | trav, line :: rest => do
    let nt ← jsdocLine isWs inner line
    let r ← jsdocLoop isWs total inner (trav + line.length + 1) rest
    pure ((nt ++ lineBreakTok total trav line).map (·.shift trav) ++ r)

def jsdocParse (isWs : Char → Bool) (src : List Char) (inner : List Char → List Tok) :
    Except Panic (List Tok) :=
  jsdocLoop isWs src.length inner 0 (splitNl src)


/-! ## (c2) JavaDoc block tags, Go directives -/

def isAtKind : Kind → Bool
  | .punct .At => true
  | _ => false

def isStarKind : Kind → Bool
  | .punct .Star => true
  | _ => false

/-- `token.kind = TokenKind::Unlintable` -/
def unl (t : Tok) : Tok := ⟨t.span, .unlintable⟩

/-- the `@tag argument` window of javadoc.rs: `At, Word, Space, Word` -/
def tagWindow (a b c d : Tok) : Bool :=
  isAtKind a.kind && b.kind.isWord && c.kind.isSpace && d.kind.isWord

/-- javadoc.rs: after a `Newline` token, leading `*` and space tokens are collected and removed
(`remove_indices`); the first other token ends the run and is itself looked at as a newline -/
def jdStrip : Bool → List Tok → List Tok
  | _, [] => []
  | afterNl, t :: ts =>
    if afterNl && (isStarKind t.kind || t.kind.isSpace) then jdStrip true ts
    else t :: jdStrip t.kind.isNewline ts

/-- javadoc.rs: `for i in 3..tokens.len()` looks at `tokens[i-3..=i]` of the CURRENT vector and
marks all four Unlintable on a match. `n` = iterations left, `j = i - 3`; indexing is a panic value -/
def jdLoop : Nat → Nat → List Tok → Except Panic (List Tok)
  | 0, _, cur => .ok cur
  | n + 1, j, cur =>
    match cur[j]?, cur[j + 1]?, cur[j + 2]?, cur[j + 3]? with
    | some a, some b, some c, some d =>
      jdLoop n (j + 1)
        (if tagWindow a b c d then cur.take j ++ [unl a, unl b, unl c, unl d] ++ cur.drop (j + 4)
         else cur)
    | _, _, _, _ => .error .sliceOOB

def javadocMark (toks : List Tok) : Except Panic (List Tok) := jdLoop (toks.length - 3) 0 toks

/-- `JavaDoc::parse`: strip the comment delimiters, HTML-parse the rest (inner), drop leaders,
shift, mark inline tags, mark block tags -/
def javadocParse (isWs : Char → Bool) (src : List Char) (inner : List Char → List Tok) :
    Except Panic (List Tok) := do
  let a ← withoutInitiators isWs src
  let c ← a.getContent src
  let t1 := (jdStrip false (inner c)).map (·.shift a.start)
  let t2 ← markInlineTags (t1.length + 1) t1 0
  javadocMark t2

/-- `Span::try_get_content`; `is_empty` computes `end - start`, which underflows when
`start > end` (overflow checks on) -/
def tryGetContent {α} (s : Span) (src : List α) : Except Panic (Option (List α)) :=
  if s.start > s.stop ∨ s.start ≥ src.length ∨ s.stop > src.length then
    -- after fix `Span::try_get_content no longer underflows on an inverted span` the test is
    -- `start == end`, not `is_empty()` (whose `len()` underflowed when `start > end`)
    (if s.stop == s.start then .ok (some []) else .ok none)
  else .ok (some (slice src s))

/-- `Go::parse`: a comment block that starts with `go:` is cut at the first line break of the
*source*; the remaining span is then looked up in the already cut `actual_source` -/
def goParse (isWs : Char → Bool) (src : List Char) (inner : List Char → List Tok) :
    Except Panic (List Tok) := do
  let a ← withoutInitiators isWs src
  let c ← a.getContent src
  if c.take 3 == ['g', 'o', ':'] then
    match src.findIdx? (· == '\n') with
    | none => pure []
    | some term =>
      let a' : Span := ⟨a.start + term, a.stop⟩
      match ← tryGetContent a' c with
      | none => pure []
      | some c' => pure ((inner c').map (·.shift a'.start))
  else pure ((inner c).map (·.shift a.start))

/-! ## (d) Literate Haskell -/

/-- `str::trim` -/
def trimWs (isWs : Char → Bool) (l : List Char) : List Char :=
  ((l.dropWhile isWs).reverse.dropWhile isWs).reverse

def beginCode : List Char := ['\\', 'b', 'e', 'g', 'i', 'n', '{', 'c', 'o', 'd', 'e', '}']
def endCode : List Char := ['\\', 'e', 'n', 'd', '{', 'c', 'o', 'd', 'e', '}']

structure LhsSt where
  loc : Nat
  inCode : Bool
  lastBlank : Bool
  deriving Repr, DecidableEq

/-- what one line does: the next state and, if the line is selected, its span -/
def lhsStep (isWs : Char → Bool) (text code : Bool) (st : LhsSt) (line : List Char) :
    LhsSt × Option (Nat × Nat) :=
  let trimmed := trimWs isWs line
  let bird := line.head? == some '>'
  let isBegin := trimmed == beginCode
  let isEnd := trimmed == endCode
  let latex := isBegin || isEnd
  let codeStart := isBegin || (st.lastBlank && bird)
  let codeEnd := isEnd || trimmed.isEmpty
  let toggle := (!st.inCode && codeStart) || (st.inCode && codeEnd)
  let inCode' := if toggle then !st.inCode else st.inCode
  if toggle && latex then (⟨st.loc + line.length + 1, inCode', trimmed.isEmpty⟩, none)
  else if toggle && trimmed.isEmpty then (⟨st.loc + line.length + 1, inCode', true⟩, none)
  else
    let endLoc := st.loc + line.length
    let sel := (!inCode' && text) || (inCode' && code)
    let startLoc := if bird then min (st.loc + 2) endLoc else st.loc
    (⟨endLoc + 1, inCode', trimmed.isEmpty⟩, if sel then some (startLoc, endLoc) else none)

def lhsLoop (isWs : Char → Bool) (text code : Bool) :
    LhsSt → List Span → List (List Char) → Except Panic (List Span)
  | _, m, [] => .ok m
  | st, m, line :: rest =>
    match lhsStep isWs text code st line with
    | (st', none) => lhsLoop isWs text code st' m rest
    | (st', some (a, b)) => do
      let sp ← Span.new a b
      let m' ← pushAllowed m sp
      lhsLoop isWs text code st' m' rest

/-- `LiterateHaskellMasker::create_mask` -/
def lhsMask (isWs : Char → Bool) (text code : Bool) (src : List Char) : Except Panic (List Span) := do
  let m ← lhsLoop isWs text code ⟨0, false, false⟩ [] (splitNl src)
  mergeWhitespaceSep isWs src (m.length + 1) m

/-! ## (e) git commit -/

/-- the text before the first `#` -/
def gitCommitCut (src : List Char) : List Char := src.take (src.findIdx (· == '#'))

def gitCommitParse (inner : List Char → List Tok) (src : List Char) : List Tok :=
  inner (gitCommitCut src)

/-! ## (f) cursors -/

structure Cursor where
  char : Nat
  byte : Nat
  deriving Repr, DecidableEq

/-- `OffsetCursor::push_to`: `assert!(new_byte >= self.byte)`; `doc.get(byte..new_byte).unwrap()` -/
def Cursor.pushTo (bs : List Nat) (c : Cursor) (newByte : Nat) : Except Panic Cursor :=
  if newByte < c.byte then .error .assertFail
  else if newByte = c.byte then .ok c
  else match sliceCount bs c.byte newByte with
    | .ok n => .ok ⟨c.char + n, newByte⟩
    | .error _ => .error .unwrapNone

def Cursor.pushAll (bs : List Nat) : Cursor → List Nat → Except Panic (List Cursor)
  | _, [] => .ok []
  | c, b :: rest => do
    let c' ← c.pushTo bs b
    let r ← Cursor.pushAll bs c' rest
    pure (c' :: r)

/-- Markdown: `if range.start > traversed_bytes { traversed_chars += …; traversed_bytes = … }` -/
def mdAdvance (bs : List Nat) (c : Cursor) (rangeStart : Nat) : Except Panic Cursor :=
  if rangeStart > c.byte then do
    let n ← sliceCount bs c.byte rangeStart
    pure ⟨c.char + n, rangeStart⟩
  else pure c

def mdAdvanceAll (bs : List Nat) : Cursor → List Nat → Except Panic (List Cursor)
  | _, [] => .ok []
  | c, b :: rest => do
    let c' ← mdAdvance bs c b
    let r ← mdAdvanceAll bs c' rest
    pure (c' :: r)

end Harper
