import Harper.Model.Lex
/-!
# L1b — `lex_hostname_token`, `lex_url`, `lex_email_address`
(`harper-core/src/lexing/{hostname,url,email_address}.rs`)

`Harper.Model.Lex` takes these three lexers as a parameter (`Ext`, a table supplied by the
harness). Here they are modelled function by function, so that the table can be *computed* from
the text (`extOfSrc`) and `parsePlainFull` has no trusted parameter left except the Unicode class
tables. None of the three lexers consults a Unicode class: they use ASCII ranges, exact
characters and the code-point test `c > '\u{7F}'` only, hence no `Cls` argument.

Every slice expression of the Rust code is in range by construction (shown by the `_le`/`_lt`
lemmas of `Harper.Lemmas.LexExt`), so no lexer needs a panic value; the two places where the Rust
code indexes `source[0]` without a length test (`lex_xchar`, `lex_uchar`) are only reached from
loops guarded by `cursor != source.len()` and are inlined into those loops here.

Quirks reproduced on purpose (all confirmed on the real code by the correspondence run):
* `lex_hostport`: after `host:` the port scan restarts at index 0 of the *host*, so
  `http://abc:80/x` lexes the URL `http://` only, and `http://127.0.0.1:80` lexes `http://127`;
* `lex_login`: the user-name check runs over `user:password` including the colon, which is not a
  `uchar`, so every login with a password is rejected (and the URL stops after `//`);
* `lex_url` looks for the first `:` and `lex_login` for the first `@` in the whole rest of the text;
  `lex_email_address` takes the LAST `@` of the whole rest of the text;
* an empty scheme is accepted (`://x`), a URL may be just `s://`.
-/
namespace Harper

/-- `iter().position(p)` -/
def position (p : Char → Bool) : List Char → Option Nat
  | [] => none
  | c :: cs => if p c then some 0 else (position p cs).map (· + 1)

/-- `iter().enumerate().rev().find(p)`: index of the last match -/
def lastPosition (p : Char → Bool) : List Char → Option Nat
  | [] => none
  | c :: cs =>
    match lastPosition p cs with
    | some i => some (i + 1)
    | none => if p c then some 0 else none

/-! ## `hostname.rs` -/

/-- `matches!(c, 'A'..='Z' | 'a'..='z' | '0'..='9' | '-')` -/
def isHostChar (c : Char) : Bool := isAsciiAlnum c || c == '-'

/-- The nested loops of `lex_hostname` (`for label in source.split('.') { for c in label {…} }`)
as one pass over the characters; the result is the value `passed_chars - 1` that is returned.
A `.` ends a label (`passed_chars += 1` after the inner loop); any other character is counted
(`passed_chars += 1`) and, if it is not a host character, `passed_chars - 1` is returned; the end
of the text ends the last label (`passed_chars += 1`) and `passed_chars - 1` is returned
(`passed_chars == 0` is impossible there). -/
def hostnameLoop (passed : Nat) : List Char → Nat
  | [] => passed
  | c :: cs =>
    if c == '.' then hostnameLoop (passed + 1) cs
    else if isHostChar c then hostnameLoop (passed + 1) cs
    else passed

/-- `lex_hostname` -/
def lexHostname (src : List Char) : Option Nat :=
  match src with
  | [] => none
  | first :: _ => if !isAsciiAlnum first then none else some (hostnameLoop 0 src)

/-- `lex_hostname_token` -/
def lexHostnameToken (src : List Char) : Found :=
  match lexHostname src with
  | none => none
  | some len =>
    if len ≤ 1 then none
    -- `source.get(1..len - 1)?`
    else if src.length < len - 1 then none
    else if !((src.take (len - 1)).drop 1).contains '.' then none
    else if src[len - 1]? == some '.' then none
    else some (.hostname, len)

/-! ## `url.rs` -/

def validSchemeChar (c : Char) : Bool :=
  isAsciiAlpha c || isAsciiDigit c || c == '.' || c == '-' || c == '+'

def isReserved (c : Char) : Bool :=
  c == ';' || c == '/' || c == '?' || c == ':' || c == '@' || c == '&' || c == '=' || c == '#'

def isSafe (c : Char) : Bool := c == '$' || c == '-' || c == '_' || c == '.' || c == '+'

def isExtra (c : Char) : Bool :=
  c == '!' || c == '*' || c == '\'' || c == '(' || c == ')' || c == ','

def isUnreserved (c : Char) : Bool := isAsciiAlpha c || isAsciiDigit c || isSafe c || isExtra c

/-- `lex_xchar_string`: `while cursor != len { match lex_xchar(&source[cursor..]) … }` with
`lex_xchar`/`lex_uchar`/`lex_escaped` inlined: a reserved or unreserved character advances by 1,
`%` + two hex digits by 3, anything else (including a `%` with fewer than two characters after
it: `source.len() < 3`) stops the loop. -/
def lexXcharString : List Char → Nat
  | [] => 0
  | c :: cs =>
    if isReserved c || isUnreserved c then lexXcharString cs + 1
    else match cs with
      | h1 :: h2 :: r =>
        if c == '%' && isAsciiHex h1 && isAsciiHex h2 then lexXcharString r + 3 else 0
      | _ => 0

/-- `is_uchar_plus_string` (user names and passwords), `lex_uchar`/`lex_escaped` inlined -/
def isUcharPlusString : List Char → Bool
  | [] => true
  | c :: cs =>
    if c == ';' || c == '?' || c == '&' || c == '=' then isUcharPlusString cs
    else if isUnreserved c then isUcharPlusString cs
    else match cs with
      | h1 :: h2 :: r =>
        if c == '%' && isAsciiHex h1 && isAsciiHex h2 then isUcharPlusString r else false
      | _ => false

/-- `lex_hostport`. The port scan `source.iter().enumerate().find(|c| !c.is_ascii_digit())`
starts at the beginning of `source` (the host), not after the colon. -/
def lexHostport (src : List Char) : Option Nat :=
  match lexHostname src with
  | none => none
  | some hostnameEnd =>
    if src[hostnameEnd]? == some ':' then
      some ((position (fun c => !isAsciiDigit c) src).getD src.length)
    else some hostnameEnd

/-- the password test of `lex_login` on `cred = source[0..cred_end]`:
`if let Some(pass_beg) = cred.position(':') { is_uchar_plus_string(&source[pass_beg + 1..cred_end]) }` -/
def loginPasswordOk (cred : List Char) : Bool :=
  match position (· == ':') cred with
  | some passBeg => isUcharPlusString (cred.drop (passBeg + 1))
  | none => true

/-- where `lex_login` starts the host-port part (`none` = `return None`) -/
def loginHostportStart (src : List Char) : Option Nat :=
  match position (· == '@') src with
  | some credEnd =>
    let cred := src.take credEnd
    if !loginPasswordOk cred then none
    -- "Check username": runs over the whole of `source[0..cred_end]`, colon and password included
    else if !isUcharPlusString cred then none
    else some (credEnd + 1)
  | none => some 0

/-- `lex_login` -/
def lexLogin (src : List Char) : Option Nat :=
  let hostportStart := loginHostportStart src
  match hostportStart with
  | none => none
  | some hs =>
    match lexHostport (src.drop hs) with
    | none => none
    | some he => some (hs + he)

/-- the "endpoint path" loop of `lex_ip_schemepart` on `rest[cursor..]`; result: how far the
cursor advances. One iteration consumes at least the `/`, so fuel `length + 1` is never used up
(`pathLoop_fuel` in the lemmas). -/
def pathLoop : Nat → List Char → Nat
  | 0, _ => 0
  | fuel + 1, rest =>
    match rest with
    | [] => 0
    | c :: r =>
      if c != '/' then 0 else
      let n := lexXcharString r
      if n == 0 then 1 else 1 + n + pathLoop fuel (r.drop n)

/-- `lex_ip_schemepart`; `rest[cursor]` is in range because `lex_login(rest) ≤ rest.len()` -/
def lexIpSchemepart (src : List Char) : Option Nat :=
  match src with
  | '/' :: '/' :: rest =>
    let loginEnd := (lexLogin rest).getD 0
    some (loginEnd + pathLoop (rest.length + 1) (rest.drop loginEnd) + 2)
  | _ => none

/-- `lex_url` -/
def lexUrl (src : List Char) : Found :=
  match position (· == ':') src with
  | none => none
  | some sep =>
    if !(src.take sep).all validSchemeChar then none else
    match lexIpSchemepart (src.drop (sep + 1)) with
    | none => none
    | some urlEnd => some (.url, urlEnd + sep + 1)

/-! ## `email_address.rs` -/

def unquotedOthers : List Char :=
  ['!', '#', '$', '%', '&', '\'', '*', '+', '-', '/', '=', '?', '^', '_', '`', '{', '|', '}',
   '~', '.']

/-- `valid_unquoted_character` -/
def validUnquotedChar (c : Char) : Bool :=
  isAsciiAlnum c || '\x7f' < c || unquotedOthers.contains c

def quotedAlsoValid : List Char := ['(', ')', ',', ':', ';', '<', '>', '@', '[', ']', ' ']

/-- the `while let Some(c) = iter.next()` loop over a quoted local part: a backslash skips the
next character (if any) -/
def quotedBodyOk : List Char → Bool
  | [] => true
  | c :: cs =>
    if c == '\\' then
      (match cs with
       | [] => true
       | _ :: r => quotedBodyOk r)
    else if !validUnquotedChar c && !quotedAlsoValid.contains c then false
    else quotedBodyOk cs

/-- `for (c, n) in local_part.iter().tuple_windows()`: no `..` -/
def noDoubleDot : List Char → Bool
  | c :: n :: r => if c == '.' && n == '.' then false else noDoubleDot (n :: r)
  | _ => true

/-- `validate_local_part` -/
def validateLocalPart (lp : List Char) : Bool :=
  if lp.length > 64 || lp.isEmpty then false else
  let isQuoted := lp.head? == some '"' && lp.getLast? == some '"'
  if isQuoted && lp.length < 2 then false
  else if isQuoted then quotedBodyOk ((lp.take (lp.length - 1)).drop 1)
  else if !lp.all validUnquotedChar then false
  else if lp.head? == some '.' || lp.getLast? == some '.' then false
  else noDoubleDot lp

/-- `lex_email_address` -/
def lexEmailAddress (src : List Char) : Found :=
  match lastPosition (· == '@') src with
  | none => none
  | some atLoc =>
    if !validateLocalPart (src.take atLoc) then none else
    match lexHostname (src.drop (atLoc + 1)) with
    | none => none
    | some domainLen => if domainLen == 0 then none else some (.email, atLoc + 1 + domainLen)

/-! ## the `Ext` table computed from the text -/

/-- what the three lexers, tried in the order of `lex_token` (`lex_url`, `lex_email_address`,
`lex_hostname_token`), find on `src[pos..]`. `runLexer` asks `ext pos` once per lexer name and
accepts only the entry of the matching kind: an e-mail entry is therefore seen only when
`lex_url` failed, a hostname entry only when both failed — exactly the cases in which the real
`lex_token` reaches those lexers (`lexToken_extOfSrc` in the lemmas). -/
def extOfSrc (src : List Char) : Ext := fun pos =>
  let s := src.drop pos
  match lexUrl s with
  | some f => some f
  | none =>
    match lexEmailAddress s with
    | some f => some f
    | none => lexHostnameToken s

/-- `PlainEnglish::parse` with every lexer modelled -/
def parsePlainFull (cls : Cls) (src : List Char) : Except Panic (List Tok) :=
  parsePlain cls (extOfSrc src) src

/-! ## `lex_token` with the three lexers called directly (no table) -/

def runLexerFull (cls : Cls) (src : List Char) : LexerName → Found
  | .lex_url => lexUrl src
  | .lex_email_address => lexEmailAddress src
  | .lex_hostname_token => lexHostnameToken src
  | l => runLexer cls (fun _ => none) 0 src l

def firstFoundFull (cls : Cls) (src : List Char) : List LexerName → Found
  | [] => none
  | l :: ls =>
    match runLexerFull cls src l with
    | some f => some f
    | none => firstFoundFull cls src ls

/-- `lex_token` -/
def lexTokenFull (cls : Cls) (src : List Char) : Found :=
  firstFoundFull cls src Tables.lexerOrder

/-- the `loop` of `PlainEnglish::parse` calling `lex_token(&source[cursor..])` directly -/
def parseLoopDirect (cls : Cls) : Nat → Nat → List Char → Except Panic (List Tok)
  | 0, _, _ => .error .outOfFuel
  | fuel + 1, cursor, rest =>
    match rest with
    | [] => .ok []
    | _ :: _ =>
      match lexTokenFull cls rest with
      | none => .error .assertFail
      | some (k, n) =>
        match parseLoopDirect cls fuel (cursor + n) (rest.drop n) with
        | .ok ts => .ok (⟨⟨cursor, cursor + n⟩, k⟩ :: ts)
        | .error e => .error e

/-- `PlainEnglish::parse`, table-free formulation; equal to `parsePlainFull`
(`parsePlainFull_eq_direct`) -/
def parsePlainDirect (cls : Cls) (src : List Char) : Except Panic (List Tok) :=
  parseLoopDirect cls (src.length + 1) 0 src

end Harper
