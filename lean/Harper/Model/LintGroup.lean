import Harper.Basic.Span
/-!
# L5 — `harper-core/src/linting/lint_group.rs` (and the `word_cache` of `spell_check.rs`)

* `LintGroupConfig { inner: BTreeMap<String, Option<bool>> }` is an association list with unique
  keys (`Cfg.WF`), order-free: `ins` replaces in place or appends. The real map is ordered by key;
  the driver sorts keys on output and when it parses a configuration, so equal maps are equal lists
  wherever a configuration is used as (part of) a cache key.
* Rules are ABSTRACT functions. `Rules.doc` are the whole-document rules (`linters`), `Rules.pat`
  the pattern rules (`pattern_linters`), both in `BTreeMap` key order. A pattern rule maps the
  *chunk content* `γ` (= the chunk's characters and its tokens' kinds and spans relative to the
  chunk start — exactly what enters the real cache key) to lints whose spans are *relative to the
  chunk start*. That a rule's output, relative to the chunk start, depends on nothing else is the
  hypothesis `H_loc` of DESIGN §6 C05; it is built into this type (and monitored by the harness).
  The real code obtains the relative lints with `pull_by(chunk_span.start)` on absolute ones; that
  subtraction is not modelled (it is the identity under `H_loc`).
* `LruCache` is an LRU list, most-recently-used first, of arbitrary capacity `cap`
  (`NonZero`: a capacity of 0 behaves as 1). The real key is `(chunk chars, hash((config, relative
  tokens)))`; the model keys on the values themselves (the 64-bit hash is modelled as injective).
-/
namespace Harper.LG

/-! ## Configuration algebra -/

/-- `LintGroupConfig.inner` -/
abbrev Cfg (κ : Type) := List (κ × Option Bool)

section Config
variable {κ : Type} [DecidableEq κ]

/-- `inner.get(key)` -/
def get (k : κ) : Cfg κ → Option (Option Bool)
  | [] => none
  | (k', v) :: r => if k = k' then some v else get k r

def keys (c : Cfg κ) : List κ := c.map (·.1)

/-- a map: no key twice -/
def Cfg.WF (c : Cfg κ) : Prop := (keys c).Nodup

/-- `inner.insert(key, v)` -/
def ins (k : κ) (v : Option Bool) : Cfg κ → Cfg κ
  | [] => [(k, v)]
  | (k', v') :: r => if k = k' then (k, v) :: r else (k', v') :: ins k v r

/-- `set_rule_enabled` -/
def setRule (k : κ) (b : Bool) (c : Cfg κ) : Cfg κ := ins k (some b) c

/-- `unset_rule_enabled`: `inner.remove(key)` -/
def unset (k : κ) (c : Cfg κ) : Cfg κ := c.filter (fun p => !decide (p.1 = k))

/-- `set_rule_enabled_if_unset`: the test is `contains_key`, so a key that is present with value
`None` (e.g. after `clear`) counts as set. -/
def setIfUnset (k : κ) (b : Bool) (c : Cfg κ) : Cfg κ :=
  match get k c with
  | some _ => c
  | none => setRule k b c

/-- `is_rule_enabled`: `inner.get(key).cloned().flatten().unwrap_or(false)` -/
def isEnabled (c : Cfg κ) (k : κ) : Bool :=
  match get k c with
  | some (some b) => b
  | _ => false

/-- `clear`: every value becomes `None`; the keys stay. -/
def clear (c : Cfg κ) : Cfg κ := c.map (fun p => (p.1, none))

/-- the loop of `merge_from`: `Some` values of `other` are inserted into `self`, `None` skipped -/
def mergeInto (self : Cfg κ) : Cfg κ → Cfg κ
  | [] => self
  | (_, none) :: r => mergeInto self r
  | (k, some b) :: r => mergeInto (ins k (some b) self) r

/-- `self.merge_from(&mut other)`: returns `(self', other')`; `other` is cleared, not emptied. -/
def mergeFrom (self other : Cfg κ) : Cfg κ × Cfg κ := (mergeInto self other, clear other)

/-- `fill_with_curated`: `temp = curated; swap(self, temp); self.merge_from(&mut temp)` —
the user's configuration is merged *into* the curated one. -/
def fillWithCurated (curated user : Cfg κ) : Cfg κ := (mergeFrom curated user).1

end Config

/-! ## Lints, rules, documents -/

/-- a lint as far as the group is concerned: span and an opaque payload
(kind, message, suggestions, priority — interned by the harness) -/
structure PLint where
  s  : Nat
  e  : Nat
  id : Nat
  deriving Repr, DecidableEq, Inhabited

/-- `Span::push_by` -/
def PLint.pushBy (off : Nat) (l : PLint) : PLint := ⟨l.s + off, l.e + off, l.id⟩

/-- the two rule maps of a `LintGroup`, in `BTreeMap` key order -/
structure Rules (κ δ γ : Type) where
  doc : List (κ × (δ → List PLint))
  pat : List (κ × (γ → List PLint))

/-- what a `LintGroup` sees of a `Document`: `whole` is whatever the whole-document rules look at,
`chunks` the non-empty chunks of `iter_chunks()` in order as (start offset, content). -/
structure Doc (δ γ : Type) where
  whole  : δ
  chunks : List (Nat × γ)

section Lint
variable {κ δ γ : Type} [DecidableEq κ] [DecidableEq γ]

/-- `for (key, linter) in &mut map { if self.config.is_rule_enabled(key) { results.extend(..) } }` -/
def runEnabled {α : Type} (c : Cfg κ) (x : α) : List (κ × (α → List PLint)) → List PLint
  | [] => []
  | (k, f) :: r => if isEnabled c k then f x ++ runEnabled c x r else runEnabled c x r

/-- what a cache miss computes for a chunk: the enabled pattern rules in key order -/
def compute (R : Rules κ δ γ) (c : Cfg κ) (g : γ) : List PLint := runEnabled c g R.pat

/-! ### LRU cache (`lru::LruCache`), most recently used first -/

abbrev Lru (K V : Type) := List (K × V)

section Lru
variable {K V : Type} [DecidableEq K]

def Lru.find (k : K) : Lru K V → Option V
  | [] => none
  | (k', v) :: r => if k = k' then some v else Lru.find k r

def Lru.erase (k : K) (l : Lru K V) : Lru K V := l.filter (fun e => !decide (e.1 = k))

/-- `get`: a hit moves the entry to the front -/
def Lru.get (k : K) (l : Lru K V) : Option (V × Lru K V) :=
  match Lru.find k l with
  | some v => some (v, (k, v) :: Lru.erase k l)
  | none => none

/-- `put`: (re)insert at the front; at capacity the least recently used entry (the last) goes -/
def Lru.put (cap : Nat) (k : K) (v : V) (l : Lru K V) : Lru K V :=
  (k, v) :: (Lru.erase k l).take (cap - 1)

/-- the memoisation pattern both caches use: `if let Some(hit) = cache.get(k) { hit.clone() }
else { let v = f(k); cache.put(k, v.clone()); v }` -/
def Lru.memo (f : K → V) (cap : Nat) (k : K) (l : Lru K V) : V × Lru K V :=
  match Lru.get k l with
  | some (v, l') => (v, l')
  | none => let v := f k; (v, Lru.put cap k v l)

end Lru

/-- `chunk_pattern_cache`: key = (chunk content, configuration) -/
abbrev Cache (κ γ : Type) := Lru (γ × Cfg κ) (List PLint)

/-- the `for chunk in document.iter_chunks()` loop -/
def lintChunks (R : Rules κ δ γ) (cap : Nat) (c : Cfg κ) :
    Cache κ γ → List (Nat × γ) → List PLint × Cache κ γ
  | st, [] => ([], st)
  | st, (off, g) :: rest =>
    let (rel, st1) := Lru.memo (fun k => compute R k.2 k.1) cap (g, c) st
    let (more, st2) := lintChunks R cap c st1 rest
    (rel.map (PLint.pushBy off) ++ more, st2)

/-- `LintGroup::lint` with configuration `c` and cache `st`: lints in output order, new cache -/
def lint (R : Rules κ δ γ) (cap : Nat) (st : Cache κ γ) (c : Cfg κ) (d : Doc δ γ) :
    List PLint × Cache κ γ :=
  let whole := runEnabled c d.whole R.doc
  let (cl, st') := lintChunks R cap c st d.chunks
  (whole ++ cl, st')

/-! ### Histories -/

inductive Op (κ δ γ : Type) where
  | setConfig (c : Cfg κ)
  | lint (d : Doc δ γ)

structure State (κ γ : Type) where
  cfg   : Cfg κ
  cache : Cache κ γ

def step (R : Rules κ δ γ) (cap : Nat) (s : State κ γ) : Op κ δ γ → State κ γ × Option (List PLint)
  | .setConfig c => ({ s with cfg := c }, none)
  | .lint d =>
    let (out, ca) := lint R cap s.cache s.cfg d
    ({ s with cache := ca }, some out)

/-- the results of the `lint` ops of a history run on ONE long-lived group -/
def run (R : Rules κ δ γ) (cap : Nat) : State κ γ → List (Op κ δ γ) → List (List PLint)
  | _, [] => []
  | s, op :: ops =>
    match step R cap s op with
    | (s', some out) => out :: run R cap s' ops
    | (s', none) => run R cap s' ops

/-- the state a history leaves behind -/
def exec (R : Rules κ δ γ) (cap : Nat) : State κ γ → List (Op κ δ γ) → State κ γ
  | s, [] => s
  | s, op :: ops => exec R cap (step R cap s op).1 ops

/-- the same history where every `lint` is served by a brand-new group (empty cache) carrying the
configuration current at that point -/
def runFresh (R : Rules κ δ γ) (cap : Nat) : Cfg κ → List (Op κ δ γ) → List (List PLint)
  | _, [] => []
  | _, .setConfig c :: ops => runFresh R cap c ops
  | c, .lint d :: ops => (lint R cap [] c d).1 :: runFresh R cap c ops

end Lint

/-! ## `SpellCheck` and its `word_cache` -/

section Spell
variable {ω σ : Type} [DecidableEq ω]

/-- `SpellCheck::lint` as far as the cache is concerned. `known w` = the dictionary test that
skips a word, `suggest` = the uncached back-off search + dialect filter (a function of the word's
exact characters — the cache key is case-sensitive), `post w sugg` = truncation to three and
capitalisation, done on a *clone* of the cached vector. One output per flagged word. -/
def spellLint (known : ω → Bool) (suggest : ω → σ) (post : ω → σ → PLint) (cap : Nat) :
    Lru ω σ → List ω → List PLint × Lru ω σ
  | st, [] => ([], st)
  | st, w :: ws =>
    if known w then spellLint known suggest post cap st ws
    else
      let (sg, st1) := Lru.memo suggest cap w st
      let (more, st2) := spellLint known suggest post cap st1 ws
      (post w sg :: more, st2)

end Spell

end Harper.LG
