import Harper.Basic.Token
import Harper.Model.Condense
import Harper.Model.Chunks
import Harper.Model.Rules
import Harper.Model.EditDistance
import Harper.Model.Title
/-!
# The leaf patterns of `harper-core/src/patterns/*.rs` and the generic rule constructions

`Model/Pattern.lean` proves the combinators safe UNDER the contract "a leaf returns at most the
length of its slice" (`Pat.fn f` is an arbitrary leaf); `Model/Rules.lean` has eleven hand-written
rules. Most of the ~290 shipped rules, however, are INSTANCES of a few generic constructions
(`MapPhraseLinter` for the 168 rows of `phrase_corrections.rs` and the 47 of `closed_compounds.rs`,
`ProperNounCapitalizationLinter` for the 25 entries of `proper_noun_rules.json`, `merge_linters!`)
over pattern trees whose leaves are the REAL leaf patterns. This file models

* every leaf (`Leaf`, `Leaf.matcher`) exactly as coded: `AnyCapitalization`, `WordSet`,
  `then_exact_word`, the `then_<quality>` / `then_anything_but_<quality>` closures (`KP`),
  `then_strict`, the `Punctuation` / `Number` closures of `ExactPhrase`, `WithinEditDistance`
  (through `editDistance .checked`, the `u8` routine of the dev profile: panics are values),
  `WhitespacePattern`, `AnyPattern`, `NominalPhrase`, `ImpliesQuantity`, `SplitCompoundWord`;
* every combinator over them (`RPat`): `SequencePattern`, `RepeatingPattern`, `EitherPattern`, `All`,
  `Invert`, `ConsumesRemainingPattern`, `NaivePatternGroup` / `PatternMap` (first non-zero),
  `SimilarToPhrase`, `IsNotTitleCase`, `WordPatternGroup`, `TokenKindPatternGroup`; `IndefiniteArticle`,
  `ExactPhrase::from_document`, `SimilarToPhrase::from_doc` are functions that BUILD such trees;
* the generic constructions: `MapPhraseLinter::match_to_lint` + `run_on_chunk` + `iter_chunks`
  (`ruleMapPhrase`), `new_closed_compound`, `ProperNounCapitalizationLinter` (`ruleProperNoun`),
  `merge_linters!` (`mergeLinters`).

A pattern is a `Matcher` (`Model/Condense.lean`): source characters and a token slice in, the number
of matched tokens (or the panic) out. What a leaf reads that a `Tok` does not carry comes from
`Rules.Env`, functions of the token's TEXT. Word-metadata bits used here (the harness computes them
with `TokenKind::is_*` of the real token; bits 0–7 as in `Rules.Env.wordFlags`):
0 preposition · 1 conjunction · 2 likely homograph · 3 adjective · 4 determiner · 5 proper noun ·
6 nominal · 7 verb · 8 noun · 9 possessive nominal · 10 plural nominal · 11 linking verb ·
12 pronoun · 13 adverb · 14 not-plural nominal · 15 the dictionary knows the word (`Word(Some(_))`;
for a text that is not a token: `get_word_metadata(text).is_some()`) · 16 / 17 `preposition` /
`determiner` of the metadata merged with that of the lower-cased word (what `should_capitalize_token`
reads) · (18 / 19: `Model/Rules2.lean`) · 20 `is_nominal() && !is_adjective()` / 21 `is_noun() && !is_proper_noun()` (the
predicates `SplitCompoundWord::new` is given by the compound-noun rules, `Model/MergeRules.lean`) · 22 auxiliary verb.
-/
namespace Harper.Leaves
open Harper Harper.Chunks Harper.Rules

/-! ## leaves -/

/-- a `TokenKind::is_<quality>` of `gen_then_from_is!` (and `is_word` of `then_any_word`) -/
inductive KP where
  | nominal | noun | possessiveNominal | pluralNominal | verb | linkingVerb | pronoun | punctuation
  | conjunction | comma | period | number | caseSeparator | adverb | adjective | apostrophe | hyphen
  | determiner | properNoun | preposition | notPluralNominal | word
  deriving Repr, DecidableEq, Inhabited

def isComma : Kind → Bool
  | .punct .Comma => true
  | _ => false

def isHyphen : Kind → Bool
  | .punct .Hyphen => true
  | _ => false

def isUnderscore : Kind → Bool
  | .punct .Underscore => true
  | _ => false

/-- `tok.kind.is_<quality>()` -/
def KP.holds (env : Env) (src : List Char) (t : Tok) : KP → Bool
  | .nominal => hasFlag env src t 6
  | .noun => hasFlag env src t 8
  | .possessiveNominal => hasFlag env src t 9
  | .pluralNominal => hasFlag env src t 10
  | .verb => hasFlag env src t 7
  | .linkingVerb => hasFlag env src t 11
  | .pronoun => hasFlag env src t 12
  | .punctuation => t.kind.isPunctuation
  | .conjunction => hasFlag env src t 1
  | .comma => isComma t.kind
  | .period => t.kind.isPeriod
  | .number => t.kind.isNumber
  | .caseSeparator => isUnderscore t.kind || isHyphen t.kind
  | .adverb => hasFlag env src t 13
  | .adjective => hasFlag env src t 3
  | .apostrophe => t.kind.isApostrophe
  | .hyphen => isHyphen t.kind
  | .determiner => hasFlag env src t 4
  | .properNoun => hasFlag env src t 5
  | .preposition => hasFlag env src t 0
  -- `let TokenKind::Word(Some(metadata)) = self else { return true };`
  | .notPluralNominal => !t.kind.isWord || hasFlag env src t 14
  | .word => t.kind.isWord

/-- closures `|tok, source| …` that shipped rules pass to `then(..)` / `or(..)` as patterns (the blanket
`impl Pattern for F: Fn(&Token, &[char]) -> bool`) -/
inductive Closure where
  /-- then_than.rs `is_comparative_adjective`: an adjective whose text ends in `er` or is `less` / `more` / `worse` -/
  | comparativeAdjective
  /-- possessive_your.rs: `is_nominal() && !is_likely_homograph() && content != ['g','u','y','s']` -/
  | yourNominal
  /-- confident.rs: `is_verb() || is_determiner()` -/
  | verbOrDeterminer
  /-- compound_nouns/general_compound_nouns.rs, first element: `let Some(Some(meta)) = tok.kind.as_word() else { return false };
  meta.determiner || meta.is_adjective()` -/
  | determinerOrAdjective
  /-- … its third and fifth element: `tok.span.len() > 1 && !meta.determiner && !meta.preposition && !meta.is_adverb()` behind the
  same `let … else`; `Span::len` subtracts (`start > end` is an overflow panic) -/
  | compoundPart
  /-- compound_nouns/implied_instantiated_compound_nouns.rs: `tok.kind.is_auxiliary_verb()` (bit 22) -/
  | auxiliaryVerb
  /-- pronoun_contraction/avoid_contraction.rs: `tok.kind.is_nominal() && !tok.kind.is_likely_homograph()` -/
  | nominalNotHomograph
  deriving Repr, DecidableEq, Inhabited

/-- `slice::ends_with` -/
def endsWith (cs sfx : List Char) : Bool := decide (sfx.length ≤ cs.length) && cs.drop (cs.length - sfx.length) == sfx

/-- the closure's body: `get_content` is reached only behind the `&&` / `then(||…)` guards in front of it -/
def Closure.test (env : Env) (c : Closure) (src : List Char) (t : Tok) : Except Panic Bool :=
  match c with
  | .comparativeAdjective =>
    if !hasFlag env src t 3 then .ok false else
    match t.span.getContent src with
    | .error e => .error e
    | .ok cs => .ok (endsWith cs ['e', 'r'] || cs == ['l', 'e', 's', 's'] || cs == ['m', 'o', 'r', 'e'] || cs == ['w', 'o', 'r', 's', 'e'])
  | .yourNominal =>
    if !hasFlag env src t 6 then .ok false
    else if hasFlag env src t 2 then .ok false
    else
      match t.span.getContent src with
      | .error e => .error e
      | .ok cs => .ok (cs != ['g', 'u', 'y', 's'])
  | .verbOrDeterminer => .ok (hasFlag env src t 7 || hasFlag env src t 4)
  | .determinerOrAdjective => .ok (hasFlag env src t 15 && (hasFlag env src t 4 || hasFlag env src t 3))
  | .compoundPart =>
    if !hasFlag env src t 15 then .ok false
    else if t.span.start > t.span.stop then .error .underflow
    else .ok (decide (t.span.len > 1) && !hasFlag env src t 4 && !hasFlag env src t 0 && !hasFlag env src t 13)
  | .auxiliaryVerb => .ok (hasFlag env src t 22)
  | .nominalNotHomograph => .ok (hasFlag env src t 6 && !hasFlag env src t 2)

inductive Leaf where
  /-- `then_<q>()` (`neg = false`) / `then_anything_but_<q>()` (`neg = true`) / `then_any_word()` -/
  | kind (q : KP) (neg : Bool)
  /-- `then_strict(kind)` and the quote case of `ExactPhrase`'s punctuation closure: `tok.kind == kind`
  (kinds as far as the model distinguishes them: no word metadata, no number value) -/
  | strict (k : Kind)
  /-- `ExactPhrase`: `t.kind.as_punctuation().cloned() == Some(p)` -/
  | punctIs (p : Punct)
  /-- `ExactPhrase`: `tok.kind == TokenKind::Number(n)` — radix, suffix, and value + precision through
  `Number::to_string()` -/
  | numberIs (radix : Nat) (sfx : Option Suffix) (disp : List Char)
  /-- `then_exact_word(word)` -/
  | exactWord (w : List Char)
  /-- `AnyCapitalization` -/
  | anyCap (w : List Char)
  /-- `WordSet` -/
  | wordSet (ws : List (List Char))
  /-- `WithinEditDistance::new(word, max_edit_dist)` -/
  | withinEdit (w : List Char) (d : Nat)
  /-- `WhitespacePattern` -/
  | whitespace
  /-- `AnyPattern` -/
  | any
  /-- `NominalPhrase` -/
  | nominalPhrase
  /-- `ImpliesQuantity` -/
  | impliesQuantity
  /-- `SplitCompoundWord::new(|meta| <flag `bit` of meta>)` -/
  | splitCompound (bit : Nat)
  /-- a rule's own closure used as a pattern -/
  | closure (c : Closure)
  deriving Repr, DecidableEq, Inhabited

/-- `impl Pattern for F: Fn(&Token, &[char]) -> bool` with a closure that may index the source -/
def tokAtomE (f : List Char → Tok → Except Panic Bool) : Matcher := fun src toks =>
  match toks with
  | [] => .ok 0
  | t :: _ =>
    match f src t with
    | .error e => .error e
    | .ok b => .ok (if b then 1 else 0)

/-- a closure that only looks at the token (and `Env` data of its text) -/
def tokAtom (f : List Char → Tok → Bool) : Matcher := fun src toks =>
  match toks with
  | [] => .ok 0
  | t :: _ => .ok (if f src t then 1 else 0)

/-- the closure of `then_exact_word`: `get_content` after the kind test; then character by character
against `word.chars()` and the two lengths — i.e. equality -/
def exactWordTest (w : List Char) (src : List Char) (t : Tok) : Except Panic Bool :=
  if !t.kind.isWord then .ok false else
  match t.span.getContent src with
  | .error e => .error e
  | .ok cs => .ok (cs == w)

def numberIsTest (env : Env) (radix : Nat) (sfx : Option Suffix) (disp : List Char) (src : List Char) (t : Tok) : Bool :=
  match t.kind with
  | .number r s => r == radix && s == sfx && env.numStr (textOf src t.span) == disp
  | _ => false

def punctIsTest (p : Punct) (t : Tok) : Bool :=
  match t.kind with
  | .punct q => q == p
  | _ => false

/-- `CharStringExt::to_lower`: borrowed when every character `is_lowercase`, else `flat_map(to_lowercase)` -/
def toLowerCow (env : Env) (cs : List Char) : List Char :=
  if cs.all env.isLower then cs else cs.flatMap env.lower

/-- `WithinEditDistance::matches`: the `u8` Wagner–Fischer routine of the dev profile on the two
lower-cased words; `<= self.max_edit_dist` -/
def withinEditAtom (env : Env) (w : List Char) (d : Nat) : Matcher := fun src toks =>
  match toks with
  | [] => .ok 0
  | t :: _ =>
    if !t.kind.isWord then .ok 0 else
    match t.span.getContent src with
    | .error e => .error e
    | .ok cs =>
      match editDistance .checked (toLowerCow env cs) (toLowerCow env w) with
      | .error e => .error e
      | .ok dist => .ok (if dist ≤ d then 1 else 0)

/-- `AnyPattern` -/
def anyAtom : Matcher := fun _ toks => .ok (if toks.isEmpty then 0 else 1)

/-- the `loop` of `NominalPhrase::matches`; `c` = `cursor`, the list = `tokens[cursor..]` -/
def nominalGo (env : Env) (src : List Char) : Nat → List Tok → Nat
  | _, [] => 0
  | c, t :: rest =>
    if hasFlag env src t 3 || hasFlag env src t 4 then
      match rest with
      | [] => 0
      | n :: rest' => if !n.kind.isWhitespace then 0 else nominalGo env src (c + 2) rest'
    else if hasFlag env src t 6 then c + 1
    else 0

def nominalPhraseAtom (env : Env) : Matcher := fun src toks => .ok (nominalGo env src 0 toks)

/-- `ImpliesQuantity::implies_plurality(tokens, source).is_some()` -/
def impliesQuantityAtom (env : Env) : Matcher := fun src toks =>
  match toks with
  | [] => .ok 0
  | t :: _ =>
    match t.kind with
    | .word =>
      if !hasFlag env src t 15 then .ok 0            -- `Word(None)`
      else if hasFlag env src t 4 then .ok 1         -- `word_metadata.determiner`
      else
        match t.span.getContent src with
        | .error e => .error e
        | .ok cs => .ok (if cs == ['a'] || cs == ['a', 'n'] || cs == ['m', 'a', 'n', 'y'] then 1 else 0)
    | .number _ _ => .ok 1
    | _ => .ok 0

def flagBit (f bit : Nat) : Bool := (f / 2 ^ bit) % 2 == 1

/-- `SplitCompoundWord::matches`: the inner `then_any_word().then_whitespace().then_any_word()` must
match exactly 3 tokens; `get_merged_word` looks the concatenation up in the curated dictionary
(`Env.wordFlags` bit 15 = known, `bit` = the predicate) and `unwrap`s its canonical capitalisation -/
def splitCompoundAtom (env : Env) (bit : Nat) : Matcher := fun src toks =>
  match seqPat [kindAtom Kind.isWord, whitespaceAtom, kindAtom Kind.isWord] src toks with
  | .error e => .error e
  | .ok n =>
    if n != 3 then .ok 0 else
    match toks[0]?, toks[2]? with
    | some a, some b =>
      match a.span.getContent src with
      | .error e => .error e
      | .ok ca =>
        match b.span.getContent src with
        | .error e => .error e
        | .ok cb =>
          let f := env.wordFlags (ca ++ cb)
          if flagBit f 15 && flagBit f bit then
            match env.canonical (ca ++ cb) with
            | none => .error .unwrapNone
            | some _ => .ok 3
          else .ok 0
    | _, _ => .error .sliceOOB

/-- `Pattern::matches` of a leaf -/
def Leaf.matcher (env : Env) : Leaf → Matcher
  | .kind q neg => tokAtom fun src t => if neg then !(q.holds env src t) else q.holds env src t
  | .strict k => tokAtom fun _ t => t.kind == k
  | .punctIs p => tokAtom fun _ t => punctIsTest p t
  | .numberIs r s d => tokAtom (numberIsTest env r s d)
  | .exactWord w => tokAtomE (exactWordTest w)
  | .anyCap w => anyCapAtom w
  | .wordSet ws => wordSetAtom ws
  | .withinEdit w d => withinEditAtom env w d
  | .whitespace => whitespaceAtom
  | .any => anyAtom
  | .nominalPhrase => nominalPhraseAtom env
  | .impliesQuantity => impliesQuantityAtom env
  | .splitCompound bit => splitCompoundAtom env bit
  | .closure c => tokAtomE (c.test env)

/-! ## combinators not yet in `Model/Condense.lean` -/

/-- `All::matches`: 0 as soon as a child returns 0, else the longest -/
def allGo (src : List Char) (toks : List Tok) : List Matcher → Nat → Except Panic Nat
  | [], mx => .ok mx
  | p :: ps, mx =>
    match p src toks with
    | .error e => .error e
    | .ok n => if n = 0 then .ok 0 else allGo src toks ps (if n > mx then n else mx)

def allPat (ps : List Matcher) : Matcher := fun src toks => allGo src toks ps 0

/-- `Invert::matches` (as repaired: 0 on the empty slice) -/
def invertPat (p : Matcher) : Matcher := fun src toks =>
  if toks.isEmpty then .ok 0 else
  match p src toks with
  | .error e => .error e
  | .ok n => .ok (if n != 0 then 0 else 1)

/-- `ConsumesRemainingPattern::matches` -/
def consumesPat (p : Matcher) : Matcher := fun src toks =>
  match p src toks with
  | .error e => .error e
  | .ok n => .ok (if n = toks.length then n else 0)

/-- `NaivePatternGroup::matches` and `PatternMap::matches`: the first child that returns non-zero -/
def firstGo (src : List Char) (toks : List Tok) : List Matcher → Except Panic Nat
  | [] => .ok 0
  | p :: ps =>
    match p src toks with
    | .error e => .error e
    | .ok n => if n != 0 then .ok n else firstGo src toks ps

def firstPat (ps : List Matcher) : Matcher := fun src toks => firstGo src toks ps

/-- `SimilarToPhrase::matches`: both sequences are run; `exact == 0 && fuzzy > 0` → `max` -/
def similarPat (exact fuzzy : Matcher) : Matcher := fun src toks =>
  match exact src toks with
  | .error e => .error e
  | .ok a =>
    match fuzzy src toks with
    | .error e => .error e
    | .ok b => .ok (if a = 0 ∧ b > 0 then max a b else 0)

/-- a token as `make_title_case` sees it (`Model/Title.lean`): the data come from `Env` -/
def toTTok (env : Env) (src : List Char) (t : Tok) : Title.TTok where
  start := t.span.start
  stop := t.span.stop
  wordLike := isWordLike t.kind
  hasMeta := hasFlag env src t 15
  prep := hasFlag env src t 16
  det := hasFlag env src t 17
  lower := (toLowerCow env (textOf src t.span)).map Char.toNat
  canon := if hasFlag env src t 5 then (env.canonical (textOf src t.span)).map (·.map Char.toNat) else none

/-- `IsNotTitleCase::matches`: `tokens[0..inner_match]`, `.span().unwrap().get_content(source)`, then
`make_title_case` of the same slice -/
def notTitleCasePat (env : Env) (inner : Matcher) : Matcher := fun src toks =>
  match inner src toks with
  | .error e => .error e
  | .ok n =>
    if n = 0 then .ok 0 else
    match sliceE toks 0 n with
    | .error e => .error e
    | .ok m =>
      match spanOf m with
      | none => .error .unwrapNone
      | some sp =>
        match sp.getContent src with
        | .error e => .error e
        | .ok matched =>
          match Title.makeTitleCase (m.map (toTTok env src)) (src.map Char.toNat) with
          | .error e => .error e
          | .ok tc => .ok (if tc != matched.map Char.toNat then n else 0)

/-- `WordPatternGroup<NaivePatternGroup>`: `rows` = the `add(word, pat)` calls in order; the group of
a word is every pattern added under exactly that spelling -/
def wordGroupPat (rows : List (List Char × Matcher)) : Matcher := fun src toks =>
  match toks with
  | [] => .ok 0
  | t :: _ =>
    if !t.kind.isWord then .ok 0 else
    match t.span.getContent src with
    | .error e => .error e
    | .ok cs =>
      match (rows.filter fun r => r.1 == cs).map (·.2) with
      | [] => .ok 0                                   -- `self.patterns.get(word_chars)` is `None`
      | g => firstPat g src toks

/-- `TokenKindPatternGroup`: the pattern stored under the first token's kind -/
def kindGroupPat (rows : List (Kind × Matcher)) : Matcher := fun src toks =>
  match toks with
  | [] => .ok 0
  | t :: _ =>
    match rows.find? fun r => r.1 == t.kind with
    | none => .ok 0
    | some r => r.2 src toks

/-! ## pattern trees over the real leaves -/

mutual
inductive RPat where
  | leaf (l : Leaf)
  /-- `SequencePattern` -/
  | seq (ps : RPats)
  /-- `RepeatingPattern::new(p, required_repetitions)` -/
  | rep (p : RPat) (req : Nat)
  /-- `EitherPattern` -/
  | either (ps : RPats)
  /-- `All` -/
  | all (ps : RPats)
  /-- `Invert` -/
  | invert (p : RPat)
  /-- `ConsumesRemainingPattern` -/
  | consumes (p : RPat)
  /-- `NaivePatternGroup`, `PatternMap` -/
  | first (ps : RPats)
  /-- `SimilarToPhrase { phrase, fuzzy_phrase }` -/
  | similar (exact fuzzy : RPat)
  /-- `IsNotTitleCase::new(inner, dict)` -/
  | notTitleCase (p : RPat)
  /-- `WordPatternGroup` -/
  | wordGroup (rows : WRows)
  /-- `TokenKindPatternGroup` -/
  | kindGroup (rows : KRows)
inductive RPats where
  | nil
  | cons (p : RPat) (ps : RPats)
inductive WRows where
  | nil
  | cons (w : List Char) (p : RPat) (rest : WRows)
inductive KRows where
  | nil
  | cons (k : Kind) (p : RPat) (rest : KRows)
end

def RPats.ofList : List RPat → RPats
  | [] => .nil
  | p :: ps => .cons p (RPats.ofList ps)

def RPats.toList : RPats → List RPat
  | .nil => []
  | .cons p ps => p :: ps.toList

def WRows.ofList : List (List Char × RPat) → WRows
  | [] => .nil
  | r :: rs => .cons r.1 r.2 (WRows.ofList rs)

def KRows.ofList : List (Kind × RPat) → KRows
  | [] => .nil
  | r :: rs => .cons r.1 r.2 (KRows.ofList rs)

mutual
/-- `Pattern::matches` of a tree -/
def RPat.matcher (env : Env) : RPat → Matcher
  | .leaf l => l.matcher env
  | .seq ps => seqPat (RPats.matchers env ps)
  | .rep p req => repPat (RPat.matcher env p) req
  | .either ps => eitherPat (RPats.matchers env ps)
  | .all ps => allPat (RPats.matchers env ps)
  | .invert p => invertPat (RPat.matcher env p)
  | .consumes p => consumesPat (RPat.matcher env p)
  | .first ps => firstPat (RPats.matchers env ps)
  | .similar a b => similarPat (RPat.matcher env a) (RPat.matcher env b)
  | .notTitleCase p => notTitleCasePat env (RPat.matcher env p)
  | .wordGroup rows => wordGroupPat (WRows.rows env rows)
  | .kindGroup rows => kindGroupPat (KRows.rows env rows)
def RPats.matchers (env : Env) : RPats → List Matcher
  | .nil => []
  | .cons p ps => RPat.matcher env p :: RPats.matchers env ps
def WRows.rows (env : Env) : WRows → List (List Char × Matcher)
  | .nil => []
  | .cons w p rest => (w, RPat.matcher env p) :: WRows.rows env rest
def KRows.rows (env : Env) : KRows → List (Kind × Matcher)
  | .nil => []
  | .cons k p rest => (k, RPat.matcher env p) :: KRows.rows env rest
end

/-! ## patterns that are built from other patterns -/

/-- `IndefiniteArticle::default()`: `SequencePattern::default().then(WordSet::new(&["a", "an"]))` -/
def indefiniteArticle : RPat := .seq (.cons (.leaf (.wordSet [['a'], ['a', 'n']])) .nil)

/-- `then_one_or_more(pat)`: `RepeatingPattern::new(Box::new(pat), 0)` -/
def oneOrMore (p : RPat) : RPat := .rep p 0

/-- `then_exact_word` is how `WordPatternGroup::add_word` builds its pattern -/
def addWordRow (w : List Char) : List Char × RPat := (w, .seq (.cons (.leaf (.exactWord w)) .nil))

/-- what `ExactPhrase::from_document` pushes for one (fat) token of the phrase document; `none` =
`panic!("Fell out of expected document formats.")` (a construction-time panic) -/
def exactPhraseLeaf (env : Env) (psrc : List Char) (t : Tok) : Option Leaf :=
  match t.kind with
  | .word => some (.anyCap (textOf psrc t.span))
  | .space _ => some .whitespace
  | .punct p => some (.punctIs p)
  | .quote tw => some (.strict (.quote tw))      -- `Punctuation::Quote(Quote { twin_loc })` compared whole
  | .paragraphBreak => some .whitespace
  | .number r s => some (.numberIs r s (env.numStr (textOf psrc t.span)))
  | _ => none

def leavesToRPats : List Leaf → RPats
  | [] => .nil
  | l :: ls => .cons (.leaf l) (leavesToRPats ls)

/-- `ExactPhrase::from_document(doc)` for a phrase document given by its source and tokens -/
def exactPhraseOf (env : Env) (psrc : List Char) (ptoks : List Tok) : Option RPat :=
  (ptoks.mapM (exactPhraseLeaf env psrc)).map fun ls => .seq (leavesToRPats ls)

/-- one token of `SimilarToPhrase::from_doc`: the leaf of `phrase` and the leaf of `fuzzy_phrase` -/
def similarLeaves (psrc : List Char) (d : Nat) (t : Tok) : Option (Leaf × Leaf) :=
  match t.kind with
  | .word => some (.anyCap (textOf psrc t.span), .withinEdit (textOf psrc t.span) d)
  | .space _ => some (.whitespace, .whitespace)
  | .paragraphBreak => some (.whitespace, .whitespace)
  | _ => none

/-- `SimilarToPhrase::from_doc(document, max_edit_dist)` -/
def similarToPhraseOf (psrc : List Char) (ptoks : List Tok) (d : Nat) : Option RPat :=
  (ptoks.mapM (similarLeaves psrc d)).map fun ls =>
    .similar (.seq (leavesToRPats (ls.map (·.1)))) (.seq (leavesToRPats (ls.map (·.2))))

/-! ## `MapPhraseLinter` (phrase corrections, closed compounds) -/

/-- `MapPhraseLinter::match_to_lint`: the span of the matched tokens (`?`), the text under it, one
`replace_with_match_case(correct_form, matched_text)` per correct form. Message code 13; the message
text, `LintKind::Miscellaneous` and priority 31 are checked by the harness against the rule's table row. -/
def mapPhraseMatch (env : Env) (forms : List (List Char)) : List Char → List Tok → Except Panic (List RuleLint) :=
  fun src m =>
    match spanOf m with
    | none => .ok []
    | some sp =>
      match sp.getContent src with
      | .error e => .error e
      | .ok txt => .ok [⟨sp, forms.map (fun f => .replaceWith (matchCase env f txt)), 13, 0⟩]

/-- `run_on_chunk(linter, chunk, source)` for a `MapPhraseLinter` with pattern `p` -/
def mapPhrasePiece (env : Env) (p : RPat) (forms : List (List Char)) : PieceRule := fun src chunk =>
  runOnChunkGo (p.matcher env) (mapPhraseMatch env forms) src 0 chunk

/-- the blanket `impl Linter for L: PatternLinter`: `for chunk in document.iter_chunks()` -/
def ruleMapPhrase (env : Env) (p : RPat) (forms : List (List Char)) : PieceRule :=
  overPieces iterChunks (mapPhrasePiece env p forms)

/-- `MapPhraseLinter::new_exact_phrases(phrases, …)`: `EitherPattern` of one `ExactPhrase` per phrase
document (source, tokens); `none` = a phrase the constructor panics on -/
def exactPhrasesOf (env : Env) (docs : List (List Char × List Tok)) : Option RPat :=
  (docs.mapM fun d => exactPhraseOf env d.1 d.2).map fun ps => .either (RPats.ofList ps)

/-- `MapPhraseLinter::new_closed_compound(phrase, correct_form)` = `new_exact_phrase(phrase, [correct_form], …)` -/
def ruleClosedCompound (env : Env) (psrc : List Char) (ptoks : List Tok) (good : List Char) : Option PieceRule :=
  (exactPhraseOf env psrc ptoks).map fun p => ruleMapPhrase env p [good]

/-! ## `ProperNounCapitalizationLinter` -/

/-- one canonical version: the `ExactPhrase` of its document, the contents of the document's (fat)
tokens, and the document's source -/
structure PNRow where
  pat : RPat
  contents : List (List Char)
  canon : List Char

/-- `PatternMap::lookup`: the element of the first row whose key matches -/
def lookupRow (env : Env) (src : List Char) (m : List Tok) : List PNRow → Except Panic (Option PNRow)
  | [] => .ok none
  | r :: rest =>
    match r.pat.matcher env src m with
    | .error e => .error e
    | .ok n => if n != 0 then .ok (some r) else lookupRow env src m rest

/-- `for (err_token, correct_token) in matched_tokens.iter().zip(canonical_case.fat_tokens())`: does some
token's text differ from the canonical token's content? (`break` at the first difference) -/
def zipBroken (src : List Char) : List Tok → List (List Char) → Except Panic Bool
  | t :: ts, c :: cs =>
    match t.span.getContent src with
    | .error e => .error e
    | .ok txt => if txt != c then .ok true else zipBroken src ts cs
  | _, _ => .ok false

/-- `ProperNounCapitalizationLinter::match_to_lint`; message code 14 -/
def properNounMatch (env : Env) (rows : List PNRow) : List Char → List Tok → Except Panic (List RuleLint) :=
  fun src m =>
    match lookupRow env src m rows with
    | .error e => .error e
    | .ok none => .error .unwrapNone
    | .ok (some r) =>
      match zipBroken src m r.contents with
      | .error e => .error e
      | .ok false => .ok []
      | .ok true =>
        match spanOf m with
        | none => .ok []
        | some sp => .ok [⟨sp, [.replaceWith r.canon], 14, 0⟩]

/-- the `PatternMap` as a pattern -/
def pnPattern (rows : List PNRow) : RPat := .first (RPats.ofList (rows.map (·.pat)))

def properNounPiece (env : Env) (rows : List PNRow) : PieceRule := fun src chunk =>
  runOnChunkGo ((pnPattern rows).matcher env) (properNounMatch env rows) src 0 chunk

def ruleProperNoun (env : Env) (rows : List PNRow) : PieceRule :=
  overPieces iterChunks (properNounPiece env rows)

/-- a row of `ProperNounCapitalizationLinter::new` from the canonical version's document -/
def pnRowOf (env : Env) (psrc : List Char) (ptoks : List Tok) : Option PNRow :=
  (exactPhraseOf env psrc ptoks).map fun p => ⟨p, ptoks.map fun t => textOf psrc t.span, psrc⟩

/-! ## `merge_linters!` -/

/-- `lints.extend(a.lint(document)); lints.extend(b.lint(document)); …; remove_overlaps(&mut lints)` -/
def mergeLinters (rs : List PieceRule) : PieceRule := fun src toks =>
  (collectE (fun (r : PieceRule) => r src toks) rs).map removeOverlapsRL

end Harper.Leaves
