import Harper.Model.PatternRules
/-!
# The four `merge_linters!` rules (harper-core/src/linting/{hop_hope, compound_nouns, pronoun_contraction, lets_confusion}/)

```
merge_linters!(HopHope => ToHop, ToHope => …);
merge_linters!(CompoundNouns => GeneralCompoundNouns, ImpliedInstantiatedCompoundNouns, ImpliedOwnershipCompoundNouns => …);
merge_linters!{PronounContraction => ShouldContract, AvoidContraction => …}
merge_linters!(LetsConfusion => LetUsRedundancy, NoContractionWithVerb => …);
```

`merge_linters!` (`merge_linters.rs`) builds a struct with one field per child; its `lint` runs the children IN
ORDER on the whole document, `extend`s one vector with their lints and calls `remove_overlaps` on it
(`Leaves.mergeLinters`). The nine children are `PatternLinter`s: a pattern tree (`RPat`) and a `match_to_lint`
(`Spec`), run by the blanket `impl Linter for L: PatternLinter` (`PRule.rule`: `run_on_chunk` over `iter_chunks`).

What the children need beyond `Model/PatternRules.lean`:

* four closures used as patterns (`Closure.determinerOrAdjective`, `.compoundPart`, `.auxiliaryVerb`,
  `.nominalNotHomograph`, in `Model/Leaves.lean`);
* `Sel.drop a` = `matched_tokens[a..].span()?` (in `Model/PatternRules.lean`);
* `SplitCompoundWord::new(pred)`: `Leaf.splitCompound bit` with the predicate as one bit of the word table —
  bit 20 = `is_nominal() && !is_adjective()` (GeneralCompoundNouns), bit 21 = `is_noun() && !is_proper_noun()`
  (ImpliedInstantiatedCompoundNouns), bit 8 = `is_noun()` (ImpliedOwnershipCompoundNouns); the harness computes the bits
  from the metadata of the concatenated word with these formulas, the real rule with its closure;
* five computations of their own (`Step.custom`): `toHopCorrect`, `contractForms` (with ShouldContract's `panic!`
  arm as `Panic.assertFail`), `mergedWord` (`SplitCompoundWord::get_merged_word`, `unwrap` included), `letsGuard`.

Message codes (lint kind, priority and the message text are checked by the harness when it computes the code):
50 ToHop · 51 ToHope · 52 ShouldContract · 53 AvoidContraction · 54 LetUsRedundancy · 55 NoContractionWithVerb ·
56 GeneralCompoundNouns · 57 ImpliedInstantiatedCompoundNouns · 58 ImpliedOwnershipCompoundNouns.
-/
namespace Harper.MergeRules
open Harper Harper.Chunks Harper.Rules Harper.Leaves Harper.PatternRules

/-! ## HopHope -/

def patToHop : RPat :=
  seqOf [wset [c!"hoping", c!"hoped", c!"hope"], ws, aco c!"on", ws, kp .determiner, ws,
    wset [c!"airplane", c!"plane", c!"bus", c!"call", c!"train"]]

/-- `ToHop::to_correct` -/
def toHopTable : List (List Char × List Char) :=
  [(c!"hoping", c!"hopping"), (c!"hoped", c!"hopped"), (c!"hope", c!"hop")]

/-- `let offending_word = &matched_tokens[0]; let word_chars = offending_word.span.get_content(source);
let word = word_chars.to_string(); let correct = Self::to_correct(&word)?;` (`word.to_lowercase()` inside) -/
def toHopCorrect : CustomFn := fun env src l =>
  match l[0]? with
  | none => .error .sliceOOB
  | some t =>
    match t.span.getContent src with
    | .error e => .error e
    | .ok cs =>
      match toHopTable.lookup (toLower env cs) with
      | none => .ok none
      | some c => .ok (some [c])

def specToHop : Spec where
  before := [.custom 1 toHopCorrect]
  span := .tok 0
  suggs := fun _ => [.matchCase (.var 0) (.sel (.tok 0))]
  msg := 50

def patToHope : RPat := seqOf [kp .notPluralNominal, ws, wset [c!"hop", c!"hopped"], ws, kp .nominal]

def specToHope : Spec where
  span := .tok 2
  suggs := fun _ => [.matchCase (.lit c!"hope") (.sel (.tok 2))]
  msg := 51

/-! ## PronounContraction -/

def patShouldContract : RPat := seqOf [wset [c!"your", c!"were"], ws, kp .determiner, ws, kp .adjective]

/-- `ShouldContract::mistake_to_correct` -/
def contractTable : List (List Char × List (List Char)) :=
  [(c!"your", [c!"you're", c!"you are"]), (c!"were", [c!"we're", c!"we are"])]

/-- `let mistake = matched_tokens[0].span.get_content(source);` … `Self::mistake_to_correct(&mistake.to_lower().to_string())`
with `match mistake.to_lowercase().as_str() { "your" => …, "were" => …, _ => panic!("The pattern in this linter should make a
fall-through impossible.") }`: the two forms, or the panic -/
def contractForms : CustomFn := fun env src l =>
  match l[0]? with
  | none => .error .sliceOOB
  | some t =>
    match t.span.getContent src with
    | .error e => .error e
    | .ok cs =>
      match contractTable.lookup (toLower env (toLowerCow env cs)) with
      | none => .error .assertFail
      | some forms => .ok (some forms)

def specShouldContract : Spec where
  before := [.custom 1 contractForms]
  span := .tok 0
  suggs := fun _ => [.matchCase (.var 0) (.sel (.tok 0)), .matchCase (.var 1) (.sel (.tok 0))]
  msg := 52

def patAvoidContraction : RPat := seqOf [aco c!"you're", ws, .leaf (.closure .nominalNotHomograph)]

def specAvoidContraction : Spec where
  span := .tok 0
  suggs := fun _ => [.matchCase (.lit c!"your") (.sel (.tok 0))]
  msg := 53

/-! ## LetsConfusion -/

def patLetUsRedundancy : RPat := seqOf [aco c!"let's", ws, kp .pronoun]

/-- `let template = matched_tokens.span()?.get_content(source); let pronoun = matched_tokens.last()?.span.get_content_string(source);`
then `format!("lets {pronoun}")` and `"let's"`, both `replace_with_match_case(.., template)` -/
def specLetUsRedundancy : Spec where
  before := [.bind (.sel .whole), .bind (.sel .last)]
  span := .whole
  suggs := fun _ => [.matchCase (.cat (.lit c!"lets ") (.var 1)) (.var 0), .matchCase (.lit c!"let's") (.var 0)]
  msg := 54

def patNoContractionWithVerb : RPat := seqOf [wset [c!"lets", c!"let"], ws, kp .verb]

def specNoContractionWithVerb : Spec where
  span := .first
  suggs := fun _ => [.matchCase (.lit c!"let's") (.sel .first), .matchCase (.lit c!"let us") (.sel .first)]
  msg := 55

/-! ## CompoundNouns -/

/-- `self.split_pattern.get_merged_word(&matched_tokens[i], &matched_tokens[j], source)?`: the two texts concatenated, looked up
in the curated dictionary (`Env.wordFlags`: bit 15 = known, `bit` = the predicate of this `SplitCompoundWord`), replaced by
`get_correct_capitalization_of(..).unwrap()` -/
def mergedWord (i j bit : Nat) : CustomFn := fun env src l =>
  match l[i]?, l[j]? with
  | some a, some b =>
    match a.span.getContent src with
    | .error e => .error e
    | .ok ca =>
      match b.span.getContent src with
      | .error e => .error e
      | .ok cb =>
        let f := env.wordFlags (ca ++ cb)
        if flagBit f 15 && flagBit f bit then
          match env.canonical (ca ++ cb) with
          | none => .error .unwrapNone
          | some c => .ok (some [c])
        else .ok none
  | _, _ => .error .sliceOOB

def patGeneralCompoundNouns : RPat :=
  allOf [
    seqOf [.leaf (.closure .determinerOrAdjective), ws, .leaf (.closure .compoundPart), ws, .leaf (.closure .compoundPart)],
    seqOf [.leaf .any, .leaf .any, .leaf (.splitCompound 20)]]

/-- `let span = matched_tokens[2..].span()?; let orig = span.get_content(source); let word = …get_merged_word([2], [4])?;` -/
def specGeneralCompoundNouns : Spec where
  span := .drop 2
  after := [.bind (.sel (.drop 2)), .custom 5 (mergedWord 2 4 20)]
  suggs := fun _ => [.matchCase (.var 1) (.var 0)]
  msg := 56

def patImpliedInstantiatedCompoundNouns : RPat := seqOf [.leaf (.splitCompound 21), ws, .leaf (.closure .auxiliaryVerb)]

/-- `let span = matched_tokens[0..3].span()?; let orig = span.get_content(source); let word = …get_merged_word([0], [2])?;`
and, in the message, `matched_tokens[4].span.get_content(source)` -/
def specImpliedInstantiatedCompoundNouns : Spec where
  span := .slice 0 3
  after := [.bind (.sel (.slice 0 3)), .custom 3 (mergedWord 0 2 21), .bind (.sel (.tok 4))]
  suggs := fun _ => [.matchCase (.var 1) (.var 0)]
  msg := 57

def patImpliedOwnershipCompoundNouns : RPat := seqOf [kp .possessiveNominal, ws, .leaf (.splitCompound 8)]

/-- `let possessive = matched_tokens[0].span.get_content(source); if possessive == ['l','e','t','\'','s'] || possessive ==
['L','e','t','\'','s'] { return None; }` -/
def letsGuard : CustomFn := fun _ src l =>
  match l[0]? with
  | none => .error .sliceOOB
  | some t =>
    match t.span.getContent src with
    | .error e => .error e
    | .ok cs => .ok (if cs == c!"let's" || cs == c!"Let's" then none else some [])

def specImpliedOwnershipCompoundNouns : Spec where
  before := [.custom 1 letsGuard]
  span := .drop 2
  after := [.custom 5 (mergedWord 2 4 8)]
  suggs := fun _ => [.replace (.var 0)]
  msg := 58

/-! ## the children and the merged rules -/

def toHop : PRule := ⟨patToHop, specToHop⟩
def toHope : PRule := ⟨patToHope, specToHope⟩
def shouldContract : PRule := ⟨patShouldContract, specShouldContract⟩
def avoidContraction : PRule := ⟨patAvoidContraction, specAvoidContraction⟩
def letUsRedundancy : PRule := ⟨patLetUsRedundancy, specLetUsRedundancy⟩
def noContractionWithVerb : PRule := ⟨patNoContractionWithVerb, specNoContractionWithVerb⟩
def generalCompoundNouns : PRule := ⟨patGeneralCompoundNouns, specGeneralCompoundNouns⟩
def impliedInstantiatedCompoundNouns : PRule := ⟨patImpliedInstantiatedCompoundNouns, specImpliedInstantiatedCompoundNouns⟩
def impliedOwnershipCompoundNouns : PRule := ⟨patImpliedOwnershipCompoundNouns, specImpliedOwnershipCompoundNouns⟩

/-- the children by struct name (ops `mrulem`, `mchild`) -/
def allChildren : List (String × PRule) :=
  [("ToHop", toHop), ("ToHope", toHope), ("ShouldContract", shouldContract), ("AvoidContraction", avoidContraction),
    ("LetUsRedundancy", letUsRedundancy), ("NoContractionWithVerb", noContractionWithVerb),
    ("GeneralCompoundNouns", generalCompoundNouns), ("ImpliedInstantiatedCompoundNouns", impliedInstantiatedCompoundNouns),
    ("ImpliedOwnershipCompoundNouns", impliedOwnershipCompoundNouns)]

def childByName (name : String) : Option PRule := allChildren.lookup name

/-- the fields of the struct `merge_linters!` generates, in declaration order -/
def hopHopeChildren : List PRule := [toHop, toHope]
def compoundNounsChildren : List PRule := [generalCompoundNouns, impliedInstantiatedCompoundNouns, impliedOwnershipCompoundNouns]
def pronounContractionChildren : List PRule := [shouldContract, avoidContraction]
def letsConfusionChildren : List PRule := [letUsRedundancy, noContractionWithVerb]

/-- `merge_linters!(Name => children…)`: `lints.extend(child.lint(document))` for every child in order, then
`remove_overlaps(&mut lints)` -/
def mergedRule (env : Env) (children : List PRule) : PieceRule := mergeLinters (children.map fun c => c.rule env)

def ruleHopHope (env : Env) : PieceRule := mergedRule env hopHopeChildren
def ruleCompoundNouns (env : Env) : PieceRule := mergedRule env compoundNounsChildren
def rulePronounContraction (env : Env) : PieceRule := mergedRule env pronounContractionChildren
def ruleLetsConfusion (env : Env) : PieceRule := mergedRule env letsConfusionChildren

def allMergedRules : List (String × List PRule) :=
  [("HopHope", hopHopeChildren), ("CompoundNouns", compoundNounsChildren), ("PronounContraction", pronounContractionChildren),
    ("LetsConfusion", letsConfusionChildren)]

def mergedByName (name : String) : Option (List PRule) := allMergedRules.lookup name

end Harper.MergeRules
