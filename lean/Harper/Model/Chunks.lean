import Harper.Basic.Token
/-!
# `iter_chunks` / `iter_sentences` / `iter_paragraphs` (harper-core/src/token_string_ext.rs)

All three have the same shape: `[0..=t₁]`, `[t₁+1..=t₂]`, …, and `[t_k+1..]` if that is not empty;
the whole slice (even an empty one) if there is no terminator. Structural model: cut after every
terminator. (Local to the C12 slice — namespace `Harper.Chunks`.)
-/
namespace Harper.Chunks
open Harper

/-- `TokenKind::is_sentence_terminator` -/
def isSentenceTerminator : Kind → Bool
  | .punct .Period => true
  | .punct .Bang => true
  | .punct .Question => true
  | .paragraphBreak => true
  | _ => false

/-- `TokenKind::is_chunk_terminator` -/
def isChunkTerminator (k : Kind) : Bool :=
  isSentenceTerminator k ||
    (match k with
     | .punct .Comma => true
     | .quote _ => true
     | .punct .Colon => true
     | _ => false)

/-- cut after every terminator; `cur` = the piece being collected, most recent token first -/
def splitGo (term : Kind → Bool) : List Tok → List Tok → List (List Tok)
  | cur, [] => if cur.isEmpty then [] else [cur.reverse]
  | cur, t :: ts =>
    if term t.kind then (cur.reverse ++ [t]) :: splitGo term [] ts else splitGo term (t :: cur) ts

/-- an empty slice has no terminator, so it is returned whole: one empty piece -/
def split (term : Kind → Bool) (toks : List Tok) : List (List Tok) :=
  if toks.isEmpty then [[]] else splitGo term [] toks

def iterParagraphs := split Kind.isParagraphBreak
def iterSentences := split isSentenceTerminator
def iterChunks := split isChunkTerminator

end Harper.Chunks

namespace Harper.Chunks
open Harper

/-! ## rules as abstract functions of one piece (paragraph / sentence / chunk) -/

/-- a lint as far as C12 is concerned: where it is, and an opaque payload (kind, message,
suggestions, priority) -/
structure PLint where
  span : Span
  id : Nat
  deriving Repr, DecidableEq

def shiftLints (k : Nat) (ls : List PLint) : List PLint :=
  ls.map fun l => ⟨⟨l.span.start + k, l.span.stop + k⟩, l.id⟩

/-- `twin_loc` is a token index: it moves when tokens are put in front -/
def shiftTwin (j : Nat) : Kind → Kind
  | .quote (some i) => .quote (some (i + j))
  | k => k

/-- move a document's tokens `k` characters and `j` token places to the right -/
def shiftDoc (k j : Nat) (toks : List Tok) : List Tok :=
  toks.map fun t => ⟨⟨t.span.start + k, t.span.stop + k⟩, shiftTwin j t.kind⟩

/-- a rule sees the source text and one piece of the token vector -/
abbrev Rule := List Char → List Tok → List PLint

/-- a rule run over every piece, results concatenated in order -/
def lintBy (pieces : List Tok → List (List Tok)) (r : Rule) (src : List Char) (toks : List Tok) : List PLint :=
  (pieces toks).flatMap (r src)

/-- a group of rules: rule after rule (`LintGroup::lint` concatenates linter by linter) -/
def lintGroup (pieces : List Tok → List (List Tok)) (rs : List Rule) (src : List Char) (toks : List Tok) :
    List PLint :=
  rs.flatMap fun r => lintBy pieces r src toks

end Harper.Chunks
