import Harper.Basic.Span
/-!
# L8 — `harper-core/src/lib.rs:remove_overlaps` and `vec_ext.rs:remove_indices`

The model follows the code line for line: stable sort by `(start, MAX - end)`, the sweep with
a running `cur` that *collects indices*, and the queue-driven `retain` of `remove_indices`.
-/
namespace Harper

/-- A lint as far as overlap removal is concerned: its span and an opaque payload. -/
structure Lint where
  s  : Nat
  e  : Nat
  id : Nat
  deriving Repr, DecidableEq, Inhabited

/-- sort key order of `sort_by_key(|l| (l.span.start, !0 - l.span.end))`: `a ≤ b` -/
def Lint.le (a b : Lint) : Bool := a.s < b.s || (a.s == b.s && b.e ≤ a.e)

/-- insert `x` (which preceded every element of the list in the input) *before* the first
element it is `≤` to — equal keys keep their input order (stability). -/
def insertSorted (x : Lint) : List Lint → List Lint
  | [] => [x]
  | y :: ys => if Lint.le x y then x :: y :: ys else y :: insertSorted x ys

/-- stable insertion sort: the model of Rust's stable `sort_by_key`. -/
def isort : List Lint → List Lint
  | [] => []
  | x :: xs => insertSorted x (isort xs)

/-- the `for (i, lint) in lints.iter().enumerate()` loop: indices to remove, in push order. -/
def sweepIdx (cur i : Nat) : List Lint → List Nat
  | [] => []
  | l :: ls => if l.s < cur then i :: sweepIdx cur (i + 1) ls else sweepIdx l.e (i + 1) ls

/-- `Vec::remove_indices`: `retain` driven by a queue of indices (`i` = running index,
`q` = `next_remove :: to_remove`). -/
def removeIndices {α} (i : Nat) : List Nat → List α → List α
  | _, [] => []
  | [], x :: xs => x :: removeIndices (i + 1) [] xs
  | r :: q, x :: xs =>
    if i = r then removeIndices (i + 1) q xs else x :: removeIndices (i + 1) (r :: q) xs

def removeOverlaps (ls : List Lint) : List Lint :=
  if ls.length < 2 then ls
  else
    let sorted := isort ls
    removeIndices 0 (sweepIdx 0 0 sorted) sorted

/-- the lints `remove_overlaps` drops (same code path, complementary selection) -/
def keepIndices {α} (i : Nat) : List Nat → List α → List α
  | _, [] => []
  | [], _ :: _ => []
  | r :: q, x :: xs =>
    if i = r then x :: keepIndices (i + 1) q xs else keepIndices (i + 1) (r :: q) xs

def droppedBy (ls : List Lint) : List Lint :=
  if ls.length < 2 then []
  else
    let sorted := isort ls
    keepIndices 0 (sweepIdx 0 0 sorted) sorted

end Harper
