import Harper.Basic.Span
import Harper.Model.EditDistance
/-!
# L7 — dictionaries (`harper-core/src/spell/{word_map,mutable_dictionary,merged_dictionary,fst_dictionary}.rs`)

`WordMap` is a hash map from `WordId` (a hash of `lower(normalized(word))`) to an entry; the model
is an association list keyed by that lower-cased, normalised spelling itself (`WordId` injective on
the keys seen is an assumption monitor). The key of every word and of every query, and the
normalised / lower-cased forms of a query, are *inputs*: the harness computes them with the real
`CharStringExt::{normalized,to_lower}`; nothing of Unicode is re-implemented here.

Hash-map iteration order is not modelled: `fuzzyMatch` takes the word list in *some* order and
results are compared after canonicalising ties (see `Driver/EditDistance.lean`).
-/
namespace Harper

/-- `WordMapEntry` with its key; `md` is an opaque payload standing for `WordMetadata`. -/
structure DictEntry where
  word : List Char          -- canonical_spelling, as inserted
  key  : List Char          -- lower(normalized(word)): what `WordId` hashes
  md   : Nat
  deriving Repr, DecidableEq, Inhabited

/-- a `MutableDictionary`: at most one entry per key -/
abbrev Dict := List DictEntry

namespace Dict

/-- `WordMap::insert`: `HashMap::insert` replaces the value stored under an equal key. -/
def insert (e : DictEntry) : Dict → Dict
  | [] => [e]
  | x :: xs => if x.key = e.key then e :: xs else x :: insert e xs

/-- `extend_words` on an empty dictionary -/
def ofList (es : List DictEntry) : Dict := es.foldl (fun d e => insert e d) []

/-- `WordMap::get_with_chars` (the argument is the key of the query) -/
def lookup (d : Dict) (kq : List Char) : Option DictEntry := d.find? (fun e => e.key = kq)

/-- `contains_word` -/
def containsWord (d : Dict) (kq : List Char) : Bool := (lookup d kq).isSome

/-- `contains_exact_word`: the stored spelling equals the *normalised* query `nq` -/
def containsExact (d : Dict) (nq kq : List Char) : Bool :=
  match lookup d kq with
  | some e => e.word = nq
  | none => false

/-- `get_correct_capitalization_of` -/
def canonical (d : Dict) (kq : List Char) : Option (List Char) := (lookup d kq).map (·.word)

/-- `get_word_metadata` -/
def metadata (d : Dict) (kq : List Char) : Option Nat := (lookup d kq).map (·.md)

/-- `words_iter` (in the association list's order) -/
def words (d : Dict) : List (List Char) := d.map (·.word)

end Dict

/-! ## `MutableDictionary::fuzzy_match` -/

/-- insert before the first element with a strictly larger distance: equal distances keep their
input order (stable) -/
def insertByDist {β} (x : β × Nat) : List (β × Nat) → List (β × Nat)
  | [] => [x]
  | y :: ys => if x.2 ≤ y.2 then x :: y :: ys else y :: insertByDist x ys

/-- stable insertion sort by distance: `sorted_unstable_by_key(|a| a.1)` / `sorted_by_key`
up to the order of ties (the harness canonicalises ties) -/
def sortByDist {β} : List (β × Nat) → List (β × Nat)
  | [] => []
  | x :: xs => insertByDist x (sortByDist xs)

/-- the `filter` on word length -/
def inWindow (qlen bound wlen : Nat) : Bool :=
  let shortest := if qlen ≤ bound then 1 else qlen - bound
  let longest := qlen + bound
  shortest ≤ wlen && wlen ≤ longest

/-- the `filter_map` over candidate words: `(word, min(dist, lowercase_dist))` when within the
bound. `q` = normalised query, `ql` = its `to_lower()`. A panic of either distance computation
propagates. -/
def fuzzyScan {β} (m : Arith) (bound : Nat) (q ql : List Char) :
    List (β × List Char) → Except Panic (List (β × Nat))
  | [] => .ok []
  | (x, w) :: ws =>
    if inWindow q.length bound w.length then
      match editDistance m q w with
      | .error e => .error e
      | .ok d1 =>
        match editDistance m ql w with
        | .error e => .error e
        | .ok d2 =>
          let sm := min d1 d2
          match fuzzyScan m bound q ql ws with
          | .error e => .error e
          | .ok rest => if sm ≤ bound then .ok ((x, sm) :: rest) else .ok rest
    else fuzzyScan m bound q ql ws

/-- `MutableDictionary::fuzzy_match(word, max_distance, max_results)` over the words
`ws` (each tagged with a payload identifying it), before the final `take`. -/
def fuzzyAll {β} (m : Arith) (bound : Nat) (q ql : List Char) (ws : List (β × List Char)) :
    Except Panic (List (β × Nat)) :=
  match fuzzyScan m bound q ql ws with
  | .error e => .error e
  | .ok l => .ok (sortByDist l)

def fuzzyMatch {β} (m : Arith) (bound cap : Nat) (q ql : List Char) (ws : List (β × List Char)) :
    Except Panic (List (β × Nat)) :=
  match fuzzyAll m bound q ql ws with
  | .error e => .error e
  | .ok l => .ok (l.take cap)

/-- a dictionary's words, each tagged with itself -/
def Dict.tagged (d : Dict) : List (List Char × List Char) := d.map (fun e => (e.word, e.word))

/-! ## `FstDictionary::fuzzy_match`

The FST map and the Levenshtein automata are third-party; what they stream is modelled by its
specification (`fstStream`: every word of the FST's sorted word list within the bound of the
automaton's query, in key order, with its exact distance — an assumption, checked by the
correspondence run and by the oracle). Modelled as written: the *positional* `zip` of the stream
for the query with the stream for the lower-cased query, the sort by word + `dedup_by_key`, the
sort by distance, `truncate`. Words are identified by their index in the sorted word list. -/

/-- the (index, distance) pairs an automaton for `q` streams over the FST of `ws` -/
def fstStream (bound : Nat) (q : List Char) (ws : List (Nat × List Char)) : List (Nat × Nat) :=
  ws.filterMap fun iw =>
    match editDistance .nat q iw.2 with
    | .ok d => if d ≤ bound then some (iw.1, d) else none
    | .error _ => none

/-- `for ((i_u, dist_u), (i_l, dist_l)) in upper.zip(lower)`: the closer of the two entries *at the
same stream position* (they need not be the same word) -/
def zipPick : List (Nat × Nat) → List (Nat × Nat) → List (Nat × Nat)
  | u :: us, l :: ls => (if u.2 ≤ l.2 then u else l) :: zipPick us ls
  | _, _ => []

/-- `merged.sort_unstable_by_key(|v| v.word)` (stable model; words are in index order) -/
def sortByIdx (l : List (Nat × Nat)) : List (Nat × Nat) :=
  (sortByDist (l.map Prod.swap)).map Prod.swap

/-- `dedup_by_key(|v| v.word)`: of consecutive entries for one word the first is kept -/
def dedupAux (prev : Nat) : List (Nat × Nat) → List (Nat × Nat)
  | [] => []
  | y :: r => if y.1 = prev then dedupAux prev r else y :: dedupAux y.1 r

def dedupIdx : List (Nat × Nat) → List (Nat × Nat)
  | [] => []
  | x :: r => x :: dedupAux x.1 r

def zipMergeAll (us ls : List (Nat × Nat)) : List (Nat × Nat) :=
  sortByDist (dedupIdx (sortByIdx (zipPick us ls)))

/-- … `sort_unstable_by_key(|v| v.edit_distance)`, `truncate(max_results)` -/
def zipMerge (cap : Nat) (us ls : List (Nat × Nat)) : List (Nat × Nat) :=
  (zipMergeAll us ls).take cap

/-- `FstDictionary::fuzzy_match`; `sql` is `String::to_lowercase` of the normalised query -/
def fstFuzzy (bound cap : Nat) (q sql : List Char) (ws : List (Nat × List Char)) :=
  zipMerge cap (fstStream bound q ws) (fstStream bound sql ws)

/-! ## `MergedDictionary` -/

abbrev Merged := List Dict

namespace Merged

/-- `get_word_metadata` / `get_correct_capitalization_of`: the first child that knows the key -/
def lookup (ds : Merged) (kq : List Char) : Option DictEntry := ds.findSome? (fun d => d.lookup kq)

def containsWord (ds : Merged) (kq : List Char) : Bool := ds.any (fun d => d.containsWord kq)

/-- `contains_exact_word` (and, since the fix, `contains_exact_word_str`): *any* child -/
def containsExact (ds : Merged) (nq kq : List Char) : Bool := ds.any (fun d => d.containsExact nq kq)

def canonical (ds : Merged) (kq : List Char) : Option (List Char) := (lookup ds kq).map (·.word)

def metadata (ds : Merged) (kq : List Char) : Option Nat := (lookup ds kq).map (·.md)

/-- the `flat_map` of the children's (already capped) results -/
def fuzzyFlat (m : Arith) (bound cap : Nat) (q ql : List Char) :
    List Dict → Except Panic (List (List Char × Nat))
  | [] => .ok []
  | d :: ds =>
    match fuzzyMatch m bound cap q ql d.tagged with
    | .error e => .error e
    | .ok r =>
      match fuzzyFlat m bound cap q ql ds with
      | .error e => .error e
      | .ok rs => .ok (r ++ rs)

/-- `MergedDictionary::fuzzy_match`: children's results, stable `sorted_by_key`, `take` -/
def fuzzyMatch (m : Arith) (bound cap : Nat) (q ql : List Char) (ds : Merged) :
    Except Panic (List (List Char × Nat)) :=
  match fuzzyFlat m bound cap q ql ds with
  | .error e => .error e
  | .ok l => .ok ((sortByDist l).take cap)

end Merged
end Harper
