/-!
# L7 — the accept/flag decision of `SpellCheck::lint` over an abstract dictionary

`spell_check.rs:lint`, `mutable_dictionary.rs:{get_word_metadata, contains_exact_word}`,
`word_map.rs`, `word_id.rs`. The word map is keyed by `WordId = hash(lower(normalize(w)))`; here the
key is `lower (normalize w)` itself (hash injectivity on the words seen is a monitor). `lower` and
`normalize` are parameters (`CharStringExt::{to_lower, normalized}`): the harness supplies their
values per string, theorems quantify over them with the laws they use.
-/
namespace Harper.Spell

/-- a dictionary entry: canonical spelling and whether its dialect tag admits the active dialect
(`metadata.dialect.is_none_or(|d| d == self.dialect)`) -/
structure Entry where
  canon : List Char
  dialectOk : Bool
  deriving Repr, DecidableEq

/-- the string functions the code uses -/
structure Fns where
  lower : List Char → List Char
  normalize : List Char → List Char

def key (f : Fns) (w : List Char) : List Char := f.lower (f.normalize w)

/-- `WordMap::get_with_chars` -/
def lookup (f : Fns) (dict : List Entry) (w : List Char) : Option Entry :=
  dict.find? (fun e => key f e.canon == key f w)

/-- `contains_exact_word` -/
def containsExact (f : Fns) (dict : List Entry) (w : List Char) : Bool :=
  match lookup f dict (f.normalize w) with
  | some e => e.canon == f.normalize w
  | none => false

/-- `contains_word` -/
def containsWord (f : Fns) (dict : List Entry) (w : List Char) : Bool :=
  (lookup f dict w).isSome

/-- the `continue` condition of `SpellCheck::lint`: the word is accepted -/
def accept (f : Fns) (dict : List Entry) (w : List Char) : Bool :=
  match lookup f dict w with
  | some e => e.dialectOk && (containsExact f dict w || containsExact f dict (f.lower w))
  | none => false

/-- suggestion post-processing: dialect filter (`retain`), at most three, first letter upper-cased
when the misspelt word starts with an upper-case letter. `fuzzy` = what
`suggest_correct_spelling` returned; `upperFirst` = `to_uppercase().next()` on the first char. -/
def suggestions (f : Fns) (dict : List Entry) (fuzzy : List (List Char)) (capitalise : Bool)
    (upperFirst : List Char → List Char) : List (List Char) :=
  let kept := fuzzy.filter fun s =>
    match lookup f dict s with
    | some e => e.dialectOk
    | none => false            -- the real code `unwrap()`s here: a fuzzy result must be a word
  let top := kept.take 3
  if capitalise then top.map upperFirst else top

end Harper.Spell
