import Harper.Basic.Span
/-!
# L7 — the accept/flag decision of `SpellCheck::lint` over an abstract dictionary

`spell_check.rs:lint`, `mutable_dictionary.rs:{get_word_metadata, contains_exact_word}`,
`word_map.rs`, `word_id.rs`. The word map is keyed by `WordId = hash(lower(normalize(w)))`; here the
key is `lower (normalize w)` itself (hash injectivity on the words seen is a monitor). `lower` and
`normalize` are parameters (`CharStringExt::{to_lower, normalized}`): the harness supplies their
values per string, theorems quantify over them with the laws they use.
-/
namespace Harper.Spell

/-- a dictionary entry: canonical spelling and whether its dialect tag admits the active dialect
(`metadata.dialect.is_none_or(|d| d == self.dialect)`) -/
structure Entry where
  canon : List Char
  dialectOk : Bool
  deriving Repr, DecidableEq

/-- the string functions the code uses -/
structure Fns where
  lower : List Char → List Char
  normalize : List Char → List Char

def key (f : Fns) (w : List Char) : List Char := f.lower (f.normalize w)

/-- `WordMap::get_with_chars` -/
def lookup (f : Fns) (dict : List Entry) (w : List Char) : Option Entry :=
  dict.find? (fun e => key f e.canon == key f w)

/-- `contains_exact_word` -/
def containsExact (f : Fns) (dict : List Entry) (w : List Char) : Bool :=
  match lookup f dict (f.normalize w) with
  | some e => e.canon == f.normalize w
  | none => false

/-- `contains_word` -/
def containsWord (f : Fns) (dict : List Entry) (w : List Char) : Bool :=
  (lookup f dict w).isSome

/-- the `continue` condition of `SpellCheck::lint`: the word is accepted -/
def accept (f : Fns) (dict : List Entry) (w : List Char) : Bool :=
  match lookup f dict w with
  | some e => e.dialectOk && (containsExact f dict w || containsExact f dict (f.lower w))
  | none => false

/-- suggestion post-processing: dialect filter (`retain`), at most three, first letter upper-cased
when the misspelt word starts with an upper-case letter. `fuzzy` = what
`suggest_correct_spelling` returned; `upperFirst` = `to_uppercase().next()` on the first char. -/
def suggestions (f : Fns) (dict : List Entry) (fuzzy : List (List Char)) (capitalise : Bool)
    (upperFirst : List Char → List Char) : List (List Char) :=
  let kept := fuzzy.filter fun s =>
    match lookup f dict s with
    | some e => e.dialectOk
    | none => false            -- the real code `unwrap()`s here: a fuzzy result must be a word
  let top := kept.take 3
  if capitalise then top.map upperFirst else top

/-! ## what `SpellCheck::lint` offers for one flagged word (w24)

`spell_check.rs`, `cached_suggest_correct_spelling` + the part of `lint` after it:

```
let mut suggestions = Vec::new(); let mut dist = 2;
while suggestions.is_empty() && dist < 5 { suggestions = suggest_correct_spelling(word, 100, dist, &dict)…; dist += 1; }
suggestions.retain(|v| dict.get_word_metadata(v).unwrap().dialect.is_none_or(|d| d == self.dialect));
…
if possibilities.len() > 3 { possibilities.resize_with(3, || panic!()); }
if let Some(mis_f) = word_chars.first() { if mis_f.is_uppercase() {
    for sug_f in possibilities.iter_mut().filter_map(|w| w.first_mut()) { *sug_f = sug_f.to_uppercase().next().unwrap(); } } }
```

The three search results (`dist = 2, 3, 4`; ordered by `order_suggestions`) are data (`rounds`); everything the code does
with them is `lintSuggestions` — the function op `sugg` of the driver runs. It goes through `suggestions` above. -/

/-- `*sug_f = sug_f.to_uppercase().next().unwrap()` on `w.first_mut()` (an empty suggestion is skipped by `filter_map`);
`up` = `c.to_uppercase().next().unwrap()` (never panics: `to_uppercase` yields at least one character) -/
def capFirst (up : Char → Char) : List Char → List Char
  | [] => []
  | c :: cs => up c :: cs

/-- the back-off loop: the first non-empty search result, nothing when all are empty; later searches are not looked at -/
def backoff : List (List (List Char)) → List (List Char)
  | [] => []
  | r :: rs => if r.isEmpty then backoff rs else r

/-- `suggestions` with the `unwrap()` of the `retain` closure as it is in the code: `retain` visits every candidate, a
candidate `get_word_metadata` does not know panics (whatever the others are); otherwise `suggestions` -/
def suggestionsE (f : Fns) (dict : List Entry) (fuzzy : List (List Char)) (capitalise : Bool)
    (upperFirst : List Char → List Char) : Except Panic (List (List Char)) :=
  if fuzzy.all (fun s => (lookup f dict s).isSome) then .ok (suggestions f dict fuzzy capitalise upperFirst)
  else .error .unwrapNone

/-- `mis_f.is_uppercase()` on `word_chars.first()` -/
def startsUpper (isUpper : Char → Bool) : List Char → Bool
  | c :: _ => isUpper c
  | [] => false

/-- **the suggestion list of the lint `SpellCheck` reports on the flagged word `w`** (or the panic): back-off, dialect filter,
at most three, first letters upper-cased when `w` starts with an upper-case letter -/
def lintSuggestions (f : Fns) (dict : List Entry) (isUpper : Char → Bool) (up : Char → Char) (w : List Char)
    (rounds : List (List (List Char))) : Except Panic (List (List Char)) :=
  suggestionsE f dict (backoff rounds) (startsUpper isUpper w) (capFirst up)

end Harper.Spell
