import Harper.Basic.Span
import Harper.Model.Overlaps
import Harper.Model.Ignore
import Harper.Model.Suggestion
/-!
# `harper-wasm/src/lib.rs` — the linter object exposed to JavaScript, as a state machine

The API object is a composition of parts that already have models:

```text
Linter::lint(text, language) =
    config overlay (curated ← user config) → LintGroup::lint(document)      -- NOT modelled: data
    → remove_overlaps                    (Harper/Model/Overlaps.lean,   C13)
    → ignored_lints.remove_ignored       (Harper/Model/Ignore.lean,     C14)
    → attach problem_text = span.get_content_string(source)   (Harper/Basic/Span.lean)
Linter::apply_suggestion(text, lint, suggestion) = log a stats record; suggestion.apply(lint.span, text)
                                                  (Harper/Model/Suggestion.lean, C03)
Linter::ignore_lint(text, lint)      = ignored_lints.ignore_lint(lint, Document(text, lint.language, dictionary))
export/import/clear_ignored_lints    = serde of IgnoredLints / `append` / `IgnoredLints::new()`
import_words / export_words          = MutableDictionary (a hash map keyed by `WordId`, the hash of the
                                       normalised lower-cased word) + `synchronize_lint_dict` ONLY when
                                       the number of entries grew
get/set_lint_config(_from_json)      = LintGroupConfig (`merge_from`: only `Some` entries are copied)
```

What `LintGroup::lint` returns for a document (the *raw lints*) and the tokens of that document are
**data supplied by the harness with each op** — they are inputs of the modelled core, computed by
the real rule set for a stated user dictionary. Because the dictionary the Linter lints with
(`dictionary` / `lint_group`, rebuilt by `synchronize_lint_dict`) can lag behind `user_dictionary`,
an op carries one alternative (`Alt`) per candidate dictionary and the model selects the alternative
of the dictionary that is in force according to ITS state (`synced`); the real Linter selects by
actually linting. (There is no `clear_words` in this version of `lib.rs`.)
-/
namespace Harper.Wasm
open Harper Harper.Ignore

/-- a raw lint = what `remove_ignored` hashes + its span (`id` is an opaque tag of the payload,
chosen by the harness; the model never looks at it) -/
abbrev RawLint := Ignore.LintM

/-- an entry of the user dictionary: `key` stands for `WordId::from_word_chars` (hash of the
normalised, lower-cased word — interned by the harness with Rust's own case tables), `chars` for the
canonical spelling -/
structure Word where
  key   : Nat
  chars : List Nat
  deriving Repr, DecidableEq, Inhabited

/-- what the harness computed with the real rule set for ONE candidate user dictionary: that word
list, `LintGroup::lint` of the document, and the document's tokens -/
structure Alt where
  dict : List (List Nat)
  raw  : List RawLint
  toks : List Tok
  deriving Repr, DecidableEq, Inhabited

/-- the `Some` entries of `LintGroupConfig` (rule id ↦ enabled). The `None` entries are the fixed
set of curated rule names and never change. -/
abbrev Config := List (Nat × Bool)

structure State where
  /-- `ignored_lints` -/
  ignored   : IgnoreSet
  /-- `user_dictionary`: entries in insertion order; an entry with a known key is replaced in place -/
  userWords : List Word
  /-- the user words inside `dictionary` / `lint_group` (as of the last `synchronize_lint_dict`) -/
  synced    : List Word
  /-- `lint_group.config` (the `Some` entries) -/
  config    : Config
  /-- `stats.records.len()` -/
  records   : Nat
  deriving Repr, DecidableEq, Inhabited

/-- `Linter::new(dialect)` -/
def init : State := ⟨[], [], [], [], 0⟩

/-- the wrapper `Lint { inner, problem_text, language }` -/
structure WLint where
  lint        : RawLint
  problemText : List Nat
  lang        : Nat
  deriving Repr, DecidableEq, Inhabited

inductive Op where
  /-- `lint(text, language)` -/
  | lint (text : List Nat) (lang : Nat) (alts : List Alt)
  /-- `apply_suggestion(text, lint, suggestion)`: only the lint's span matters -/
  | apply (text : List Nat) (span : Span) (sugg : Suggestion Nat)
  /-- `ignore_lint(text, lint)`; the alternatives carry the tokens of `text` (parsed with
  `lint.language`) for each candidate dictionary -/
  | ignore (l : RawLint) (alts : List Alt)
  | exportIgnored
  /-- `import_ignored_lints(json)`: `payload` = the entries of the JSON list -/
  | importIgnored (payload : List Context)
  | clearIgnored
  | importWords (ws : List Word)
  | exportWords
  /-- `set_lint_config_from_json`: `none` = a `null` entry -/
  | setConfig (entries : List (Nat × Option Bool))
  | getConfig
  /-- `generate_stats_file().lines().count()` -/
  | statsCount
  deriving Repr, Inhabited

inductive Out where
  | lints (ls : List WLint)
  | text (t : List Nat)
  | ignoredList (cs : List Context)
  | words (ws : List Word)
  | config (c : Config)
  | count (n : Nat)
  | unit
  | panic (p : Panic)
  /-- the op carried no alternative for the dictionary in force (a protocol error of the caller of
  the model, never silently defaulted) -/
  | noAlt
  deriving Repr, DecidableEq, Inhabited

/-! ### user dictionary -/

/-- `WordMap::insert` = `HashMap::insert(WordId, entry)`: a known key keeps its slot, the entry is
replaced -/
def insertWord (m : List Word) (w : Word) : List Word :=
  if m.any (·.key == w.key) then m.map (fun x => if x.key == w.key then w else x) else m ++ [w]

/-- `import_words`: `extend_words`, then `synchronize_lint_dict` only `if word_count() > init_len` -/
def importWords (s : State) (ws : List Word) : State :=
  let u := ws.foldl insertWord s.userWords
  if u.length > s.userWords.length then { s with userWords := u, synced := u }
  else { s with userWords := u }

/-- two word lists denote the same dictionary: same set of spellings -/
def sameDict (a b : List (List Nat)) : Bool := a.all b.contains && b.all a.contains

/-- the alternative computed for the dictionary in force -/
def pickAlt (synced : List Word) (alts : List Alt) : Option Alt :=
  alts.find? (fun a => sameDict a.dict (synced.map (·.chars)))

/-! ### config -/

/-- `BTreeMap::insert` -/
def setRule (c : Config) (k : Nat) (v : Bool) : Config :=
  if c.any (·.1 == k) then c.map (fun x => if x.1 == k then (k, v) else x) else c ++ [(k, v)]

/-- `LintGroupConfig::merge_from`: `None` entries are skipped -/
def mergeConfig (c : Config) : List (Nat × Option Bool) → Config
  | [] => c
  | (_, none) :: es => mergeConfig c es
  | (k, some v) :: es => mergeConfig (setRule c k v) es

/-! ### `lint` -/

/-- the view of a raw lint that `remove_overlaps` looks at; `id` = position in the raw list -/
def toOv (raw : List RawLint) : List Harper.Lint :=
  raw.zipIdx.map (fun p => ⟨p.1.start, p.1.stop, p.2⟩)

/-- `remove_overlaps(&mut lints)`: the C13 model on `(start, end, position)`, then each survivor is
looked up again by position (the order is the one `remove_overlaps` leaves: sorted by start) -/
def dedup (raw : List RawLint) : List RawLint :=
  (removeOverlaps (toOv raw)).filterMap (fun o => raw[o.id]?)

/-- `Lint::new(l, l.span.get_content_string(&source), language)`; `get_content` panics on a span
that does not denote a slice of the text -/
def attach (text : List Nat) (lang : Nat) (l : RawLint) : Except Panic WLint :=
  match (Span.mk l.start l.stop).getContent text with
  | .ok t => .ok ⟨l, t, lang⟩
  | .error p => .error p

def attachAll (text : List Nat) (lang : Nat) : List RawLint → Except Panic (List WLint)
  | [] => .ok []
  | l :: ls =>
    match attach text lang l with
    | .error p => .error p
    | .ok w =>
      match attachAll text lang ls with
      | .error p => .error p
      | .ok ws => .ok (w :: ws)

/-- the body of `Linter::lint` after `LintGroup::lint`: remove_overlaps, THEN remove_ignored, then
problem texts -/
def lintCore (ig : IgnoreSet) (text : List Nat) (lang : Nat) (raw : List RawLint) (toks : List Tok) :
    Except Panic (List WLint) :=
  attachAll text lang (removeIgnored ig (dedup raw) toks)

/-! ### the transition function -/

def step (s : State) : Op → State × Out
  | .lint text lang alts =>
    match pickAlt s.synced alts with
    | none => (s, .noAlt)
    | some a =>
      match lintCore s.ignored text lang a.raw a.toks with
      | .ok ls => (s, .lints ls)
      | .error p => (s, .panic p)
  | .apply text span sugg =>
    -- the record is pushed before the edit is attempted
    let s' := { s with records := s.records + 1 }
    match sugg.apply span text with
    | .ok t => (s', .text t)
    | .error p => (s', .panic p)
  | .ignore l alts =>
    match pickAlt s.synced alts with
    | none => (s, .noAlt)
    | some a => ({ s with ignored := ignoreLint s.ignored l a.toks }, .unit)
  | .exportIgnored => (s, .ignoredList (exportL s.ignored))
  | .importIgnored payload => ({ s with ignored := Ignore.append s.ignored (importL payload) }, .unit)
  | .clearIgnored => ({ s with ignored := [] }, .unit)
  | .importWords ws => (importWords s ws, .unit)
  | .exportWords => (s, .words s.userWords)
  | .setConfig es => ({ s with config := mergeConfig s.config es }, .unit)
  | .getConfig => (s, .config s.config)
  | .statsCount => (s, .count s.records)

/-- the state after a sequence of calls -/
def final : State → List Op → State
  | s, [] => s
  | s, op :: ops => final (step s op).1 ops

/-- what the calls returned -/
def run : State → List Op → List Out
  | _, [] => []
  | s, op :: ops => (step s op).2 :: run (step s op).1 ops

end Harper.Wasm
