import Harper.Basic.Span
import Harper.Model.Overlaps
/-!
# L6 — the pattern framework (`harper-core/src/patterns/*.rs`, `linting/pattern_linter.rs`,
`token_string_ext.rs`)

Tokens are abstracted to their *kind code* (a `Nat`): the leaf predicates of the modelled
combinators only look at the kind of the first token, and the combinators themselves only at
lengths. The codes the harness uses (`harness/src/c01_pattern.rs:code`):

| code | `TokenKind` |
|---|---|
| 0 | `Word(_)` |
| 1 | `Space(_)` |
| 2 | `Punctuation(Period)` |
| 3 | `Punctuation(Comma)` |
| 4 | `Newline(_)` |
| 5 | `ParagraphBreak` |
| 6 | anything else |
| 7 | `Punctuation(Bang | Question)` |
| 8 | `Punctuation(Colon | Quote(_))` |

`Pattern::matches(&self, tokens, source) -> usize` is `Pat.matchLen : Pat → List Nat → Except Panic Nat`
(`matches` is a Lean keyword).
Every `&tokens[cursor..]` of the Rust code is `sliceFrom`, which *panics* (`.error .sliceOOB`) when
`cursor > tokens.len()` — `SequencePattern` and `RepeatingPattern` slice by the lengths their
children return, `run_on_chunk` slices `&chunk[c..c + match_len]`. `RepeatingPattern`'s `loop` and
`run_on_chunk`'s `loop` are fuel-indexed; running out of fuel (`.error .outOfFuel`) is a hang.
-/
namespace Harper

mutual
inductive Pat where
  /-- `impl Pattern for F: Fn(&Token, &[char]) -> bool` with `F = |t, _| code(t.kind) == k` -/
  | leaf (k : Nat)
  /-- an arbitrary `impl Pattern` leaf: may return any length (used to state the contract) -/
  | fn (f : List Nat → Nat)
  /-- `AnyPattern` -/
  | any
  /-- `WhitespacePattern` -/
  | whitespace
  /-- `SequencePattern` -/
  | seq (ps : PatList)
  /-- `RepeatingPattern::new(p, required_repetitions)` -/
  | rep (p : Pat) (n : Nat)
  /-- `EitherPattern` -/
  | either (ps : PatList)
  /-- `All` -/
  | all (ps : PatList)
  /-- `Invert` -/
  | invert (p : Pat)
  /-- `ConsumesRemainingPattern` -/
  | consumes (p : Pat)
inductive PatList where
  | nil
  | cons (p : Pat) (ps : PatList)
end

/-- `vec![p₁, p₂, …]` -/
def PatList.ofList : List Pat → PatList
  | [] => .nil
  | p :: ps => .cons p (PatList.ofList ps)

namespace Pat

/-- results are compared by `decide` in the concrete examples -/
instance instDecEqResult {α} [DecidableEq α] : DecidableEq (Except Panic α)
  | .ok a, .ok b => if h : a = b then isTrue (by rw [h]) else isFalse (by intro e; cases e; exact h rfl)
  | .error a, .error b => if h : a = b then isTrue (by rw [h]) else isFalse (by intro e; cases e; exact h rfl)
  | .ok _, .error _ => isFalse (by intro e; cases e)
  | .error _, .ok _ => isFalse (by intro e; cases e)

/-- `TokenKind::is_whitespace` on kind codes: `Space(_) | Newline(_)` -/
def isWs (k : Nat) : Bool := k == 1 || k == 4

/-- `&tokens[c..]`: panics when `c > tokens.len()` -/
def sliceFrom (toks : List Nat) (c : Nat) : Except Panic (List Nat) :=
  if c > toks.length then .error .sliceOOB else .ok (toks.drop c)

/-- `tokens.iter().position(|t| !t.kind.is_whitespace()).unwrap_or(tokens.len())` -/
def wsLen : List Nat → Nat
  | [] => 0
  | t :: ts => if isWs t then wsLen ts + 1 else 0

/-- The `loop` of `RepeatingPattern::matches` around an inner matcher `m`:
`c` = `tok_cursor`, `r` = `repetition`. One unit of fuel per iteration. -/
def repLoop (m : List Nat → Except Panic Nat) (req : Nat) (toks : List Nat) :
    Nat → Nat → Nat → Except Panic Nat
  | 0, _, _ => .error .outOfFuel
  | fuel + 1, c, r =>
    match sliceFrom toks c with
    | .error e => .error e
    | .ok s =>
      match m s with
      | .error e => .error e
      | .ok n =>
        if n = 0 then (if r ≥ req then .ok c else .ok 0)
        else repLoop m req toks fuel (c + n) (r + 1)

mutual
/-- `Pattern::matches`, combinator by combinator. -/
def matchLen : Pat → List Nat → Except Panic Nat
  | .leaf k, toks =>
    match toks with
    | [] => .ok 0
    | t :: _ => .ok (if t = k then 1 else 0)
  | .fn f, toks => .ok (f toks)
  | .any, toks => .ok (if toks.isEmpty then 0 else 1)
  | .whitespace, toks => .ok (wsLen toks)
  | .seq ps, toks => seqLoop ps toks 0
  -- fuel: `len + 1` iterations suffice when the inner pattern keeps the contract
  -- (`C01.rep_fuel_tight`); one more lets a contract-breaking inner pattern run into the slice
  -- panic the real code runs into, instead of being cut off by the fuel.
  | .rep p n, toks => repLoop (matchLen p) n toks (toks.length + 2) 0 0
  | .either ps, toks => eitherLoop ps toks 0
  | .all ps, toks => allLoop ps toks 0
  | .invert p, toks =>
    if toks.isEmpty then .ok 0
    else
      match matchLen p toks with
      | .error e => .error e
      | .ok n => .ok (if n ≠ 0 then 0 else 1)
  | .consumes p, toks =>
    match matchLen p toks with
    | .error e => .error e
    | .ok n => .ok (if n = toks.length then n else 0)
/-- `SequencePattern::matches`: `for pat in self.token_patterns.iter()` with `c` = `tok_cursor` -/
def seqLoop : PatList → List Nat → Nat → Except Panic Nat
  | .nil, _, c => .ok c
  | .cons p ps, toks, c =>
    match sliceFrom toks c with
    | .error e => .error e
    | .ok s =>
      match matchLen p s with
      | .error e => .error e
      | .ok n => if n = 0 then .ok 0 else seqLoop ps toks (c + n)
/-- `EitherPattern::matches`: the longest match -/
def eitherLoop : PatList → List Nat → Nat → Except Panic Nat
  | .nil, _, longest => .ok longest
  | .cons p ps, toks, longest =>
    match matchLen p toks with
    | .error e => .error e
    | .ok n => eitherLoop ps toks (if n > longest then n else longest)
/-- `All::matches`: 0 as soon as one child returns 0, else the longest -/
def allLoop : PatList → List Nat → Nat → Except Panic Nat
  | .nil, _, mx => .ok mx
  | .cons p ps, toks, mx =>
    match matchLen p toks with
    | .error e => .error e
    | .ok n => if n = 0 then .ok 0 else allLoop ps toks (if n > mx then n else mx)
end

/-- The `loop` of `run_on_chunk` (`c` = `tok_cursor`); result: `(start, len)` of every match
handed to `match_to_lint`. One unit of fuel per iteration of the loop *body* (the `break` test
is free), so "no `outOfFuel` with fuel `chunk.length`" is "at most `chunk.length` iterations". -/
def runLoop (p : Pat) (chunk : List Nat) : Nat → Nat → Except Panic (List (Nat × Nat))
  | 0, c => if c ≥ chunk.length then .ok [] else .error .outOfFuel
  | fuel + 1, c =>
    if c ≥ chunk.length then .ok []
    else
      match sliceFrom chunk c with
      | .error e => .error e
      | .ok s =>
        match matchLen p s with
        | .error e => .error e
        | .ok n =>
          if n ≠ 0 then
            -- `&chunk[tok_cursor..tok_cursor + match_len]`
            if c + n > chunk.length then .error .sliceOOB
            else
              match runLoop p chunk fuel (c + n) with
              | .error e => .error e
              | .ok ms => .ok ((c, n) :: ms)
          else runLoop p chunk fuel (c + 1)

/-- `run_on_chunk(linter, chunk, source)` with `match_to_lint` returning `Some` of the match -/
def runOnChunk (p : Pat) (chunk : List Nat) : Except Panic (List (Nat × Nat)) :=
  runLoop p chunk chunk.length 0

/-- `find_all_matches`, first loop: `for i in 0..tokens.len()` with `&tokens[i..]` (never out
of range: the suffix starting at `i`), keeping `(i, len)` when `len > 0`. -/
def collectMatches (p : Pat) : Nat → List Nat → Except Panic (List (Nat × Nat))
  | _, [] => .ok []
  | i, t :: ts =>
    match matchLen p (t :: ts) with
    | .error e => .error e
    | .ok n =>
      match collectMatches p (i + 1) ts with
      | .error e => .error e
      | .ok rest => .ok (if n > 0 then (i, n) :: rest else rest)

/-- `Span::overlaps_with` on `(start, len)` pairs -/
def overlaps (a b : Nat × Nat) : Bool := a.1 < b.1 + b.2 && b.1 < a.1 + a.2

/-- second loop of `find_all_matches`: `for i in 0..found.len() - 1`, comparing `found[i]` with
`found[i + 1]` **of the unfiltered list** and queueing `i + 1`. -/
def adjOverlapIdx : Nat → List (Nat × Nat) → List Nat
  | i, a :: b :: rest =>
    if overlaps a b then (i + 1) :: adjOverlapIdx (i + 1) (b :: rest)
    else adjOverlapIdx (i + 1) (b :: rest)
  | _, _ => []

/-- `PatternExt::find_all_matches` -/
def findAllMatches (p : Pat) (toks : List Nat) : Except Panic (List (Nat × Nat)) :=
  match collectMatches p 0 toks with
  | .error e => .error e
  | .ok found =>
    if found.length < 2 then .ok found
    else .ok (removeIndices 0 (adjOverlapIdx 0 found) found)

/-! ### `iter_chunks` / `iter_sentences` / `iter_paragraphs` -/

/-- `is_sentence_terminator` on kind codes: `Period | Bang | Question`, `ParagraphBreak` -/
def isSentenceTerm (k : Nat) : Bool := k == 2 || k == 7 || k == 5
/-- `is_chunk_terminator`: sentence terminators and `Comma | Quote | Colon` -/
def isChunkTerm (k : Nat) : Bool := isSentenceTerm k || k == 3 || k == 8
/-- `is_paragraph_break` -/
def isParBreak (k : Nat) : Bool := k == 5

/-- The slices after at least one token: each piece runs up to and **includes** the next
terminator; trailing tokens after the last terminator form a last piece (no empty piece). -/
def chunksTail (term : Nat → Bool) : List Nat → List (List Nat)
  | [] => []
  | t :: ts =>
    if term t then [t] :: chunksTail term ts
    else
      match chunksTail term ts with
      | [] => [[t]]
      | c :: cs => (t :: c) :: cs

/-- `iter_chunks` &c. for a terminator predicate: `first.chain(rest).chain(last)` where
`first = [0..=t₀]`, `rest = [tᵢ+1..=tᵢ₊₁]`, `last = [t_last+1..]` if non-empty — and, when there
is **no** terminator, the whole slice *even if it is empty* (`Some(self)`). -/
def iterSplit (term : Nat → Bool) (toks : List Nat) : List (List Nat) :=
  if toks.any term then chunksTail term toks else [toks]

def iterChunks (toks : List Nat) : List (List Nat) := iterSplit isChunkTerm toks
def iterSentences (toks : List Nat) : List (List Nat) := iterSplit isSentenceTerm toks
def iterParagraphs (toks : List Nat) : List (List Nat) := iterSplit isParBreak toks

/-- `impl Linter for L: PatternLinter`: `for chunk in document.iter_chunks()` run `run_on_chunk`;
`off` = index of the chunk's first token in the document, results in document indices. -/
def lintChunks (p : Pat) : Nat → List (List Nat) → Except Panic (List (Nat × Nat))
  | _, [] => .ok []
  | off, c :: cs =>
    match runOnChunk p c with
    | .error e => .error e
    | .ok ms =>
      match lintChunks p (off + c.length) cs with
      | .error e => .error e
      | .ok rest => .ok (ms.map (fun m => (m.1 + off, m.2)) ++ rest)

def lintDoc (p : Pat) (toks : List Nat) : Except Panic (List (Nat × Nat)) :=
  lintChunks p 0 (iterChunks toks)

end Pat
end Harper
