import Harper.Model.Leaves
/-!
# The shipped `PatternLinter` rules (harper-core/src/linting/<rule>.rs)

`LintGroup::new_curated` registers 26 rules with `insert_pattern_rule!` (ModalOf is in `Model/Rules.lean`)
and two more `PatternLinter`s with `insert_struct_rule!` (TheHowWhy, WidelyAccepted). Every one is

```
impl PatternLinter { fn pattern(&self) -> &dyn Pattern; fn match_to_lint(&self, matched_tokens, source) -> Option<Lint> }
```

run through `run_on_chunk` over `iter_chunks` (`Rules.runOnChunkGo`, `Chunks.iterChunks`). Here:

* the pattern of every rule as an `RPat` value (`pat<Rule>`), built with the constructors the Rust builder
  chain uses (`SequencePattern::then…` = `.seq`, `EitherPattern` / `.or(..)` = `.either`, `All`, `Invert`,
  `WordPatternGroup`, `then_one_or_more` = `.rep _ 0`, `ExactPhrase::from_phrase` = `phrase`, …); the
  three closures that rules pass as patterns are `Leaf.closure`;
* `match_to_lint` of every rule as a `Spec`: the fallible steps in source order (`before`), which tokens of the
  match the lint's span covers (`Sel`), the steps after the span was taken, the suggestions (`SuggSpec`: a
  literal, the text under a selection, a text computed by a step, `replace_with_match_case` of two texts), and
  the message code. `Spec.run` interprets it: `Option<Lint>` is a list of 0 or 1 lints, panics (`matched[i]`,
  `matched[a..b]`, `len - 3`, `get_content`, `panic!`) are values. Five rules compute something of their own
  before the lint is built (`Step.custom`): BackInTheDay, PiqueInterest, MultipleSequentialPronouns,
  DotInitialisms, ExpandTimeShorthands.

Message codes (lint kind, priority and the message text are checked by the harness when it computes the code):
20 BackInTheDay · 21 Dashes (arg 2 en / 3 em) · 22 OutOfDate · 23 ThenThan · 24 PiqueInterest · 25 WasAloud ·
26 HyphenateNumberDay · 27 LeftRightHand · 28 Hereby · 29 Likewise · 30 Nobody · 31 Whereas · 32 PossessiveYour ·
33 MultipleSequentialPronouns · 34 DotInitialisms · 35 BoringWords · 36 UseGenitive · 37 ThatWhich ·
38 SomewhatSomething · 39 DespiteOf · 40 ChockFull (arg 1: "and it should be hyphenated") · 41 Confident ·
42 Oxymorons · 43 Hedging · 44 ExpandTimeShorthands · 45 ForNoun · 46 TheHowWhy · 47 WidelyAccepted.
-/
namespace Harper.PatternRules
open Harper Harper.Chunks Harper.Rules Harper.Leaves

-- `c!"abc"` = `['a', 'b', 'c']` (a list literal: it reduces in the kernel, a `String` does not)
open Lean in
macro:max "c!" s:str : term => do
  let elems := s.getString.toList.toArray.map fun c => Syntax.mkCharLit c
  `([$elems,*])

/-! ## `match_to_lint` as data -/

/-- which tokens of the match a span covers -/
inductive Sel where
  /-- `matched_tokens.span()?` -/
  | whole
  /-- `matched_tokens[i].span` -/
  | tok (i : Nat)
  /-- `matched_tokens.first()?.span` -/
  | first
  /-- `matched_tokens.last()?.span` -/
  | last
  /-- `matched_tokens[a..b].span()?` -/
  | slice (a b : Nat)
  /-- `matched_tokens[matched_tokens.len() - k].span` -/
  | fromEnd (k : Nat)
  /-- `matched_tokens[a..].span()?` -/
  | drop (a : Nat)
  deriving Repr, DecidableEq, Inhabited

/-- `none` = the `?` returns `None` from `match_to_lint` -/
def Sel.eval (l : List Tok) : Sel → Except Panic (Option Span)
  | .whole => .ok (spanOf l)
  | .tok i =>
    match l[i]? with
    | some t => .ok (some t.span)
    | none => .error .sliceOOB
  | .first => .ok (l.head?.map (·.span))
  | .last => .ok (l.getLast?.map (·.span))
  | .slice a b =>
    match sliceE l a b with
    | .error e => .error e
    | .ok s => .ok (spanOf s)
  | .fromEnd k =>
    if l.length < k then .error .underflow
    else
      match l[l.length - k]? with
      | some t => .ok (some t.span)
      | none => .error .sliceOOB
  | .drop a =>
    match sliceE l a l.length with
    | .error e => .error e
    | .ok s => .ok (spanOf s)

/-- a text a suggestion is made of -/
inductive Txt where
  | lit (cs : List Char)
  /-- `span.get_content(source)` of a selection -/
  | sel (s : Sel)
  /-- the `i`-th text computed by the steps so far -/
  | var (i : Nat)
  /-- `format!("{a}{b}")` -/
  | cat (a b : Txt)
  deriving Repr, DecidableEq, Inhabited

def Txt.eval (src : List Char) (l : List Tok) (vars : List (List Char)) : Txt → Except Panic (Option (List Char))
  | .lit cs => .ok (some cs)
  | .sel s =>
    match s.eval l with
    | .error e => .error e
    | .ok none => .ok none
    | .ok (some sp) =>
      match sp.getContent src with
      | .error e => .error e
      | .ok cs => .ok (some cs)
  | .var i => .ok (some (vars.getD i []))
  | .cat a b =>
    match a.eval src l vars with
    | .error e => .error e
    | .ok none => .ok none
    | .ok (some x) =>
      match b.eval src l vars with
      | .error e => .error e
      | .ok none => .ok none
      | .ok (some y) => .ok (some (x ++ y))

inductive SuggSpec where
  /-- `Suggestion::ReplaceWith(text)` -/
  | replace (t : Txt)
  /-- `Suggestion::replace_with_match_case(value, template)` -/
  | matchCase (value template : Txt)
  /-- `Suggestion::Remove` -/
  | remove
  deriving Repr, DecidableEq, Inhabited

def SuggSpec.eval (env : Env) (src : List Char) (l : List Tok) (vars : List (List Char)) : SuggSpec → Except Panic (Option Sugg)
  | .replace t =>
    match t.eval src l vars with
    | .error e => .error e
    | .ok none => .ok none
    | .ok (some cs) => .ok (some (.replaceWith cs))
  | .matchCase v t =>
    match v.eval src l vars with
    | .error e => .error e
    | .ok none => .ok none
    | .ok (some vs) =>
      match t.eval src l vars with
      | .error e => .error e
      | .ok none => .ok none
      | .ok (some ts) => .ok (some (.replaceWith (Rules.matchCase env vs ts)))
  | .remove => .ok (some .remove)

def evalSuggs (env : Env) (src : List Char) (l : List Tok) (vars : List (List Char)) : List SuggSpec → Except Panic (Option (List Sugg))
  | [] => .ok (some [])
  | s :: ss =>
    match s.eval env src l vars with
    | .error e => .error e
    | .ok none => .ok none
    | .ok (some x) =>
      match evalSuggs env src l vars ss with
      | .error e => .error e
      | .ok none => .ok none
      | .ok (some xs) => .ok (some (x :: xs))

/-- what a rule computes of its own: the texts it hands on, `none` = `return None` -/
abbrev CustomFn := Env → List Char → List Tok → Except Panic (Option (List (List Char)))

/-- a fallible step of `match_to_lint` -/
inductive Step where
  /-- `matched_tokens.get(i)?` -/
  | get (i : Nat)
  /-- `matched_tokens[i].kind.as_number()?` -/
  | numberAt (i : Nat)
  /-- a `let` of a text that later steps or the message use -/
  | bind (t : Txt)
  /-- the rule's own computation; it is total on in-text slices of at least `need` tokens -/
  | custom (need : Nat) (f : CustomFn)

def Step.run (env : Env) (src : List Char) (l : List Tok) (vars : List (List Char)) : Step → Except Panic (Option (List (List Char)))
  | .get i => .ok (if i < l.length then some vars else none)
  | .numberAt i =>
    match l[i]? with
    | none => .error .sliceOOB
    | some t => .ok (if t.kind.isNumber then some vars else none)
  | .bind t =>
    match t.eval src l vars with
    | .error e => .error e
    | .ok none => .ok none
    | .ok (some cs) => .ok (some (vars ++ [cs]))
  | .custom _ f =>
    match f env src l with
    | .error e => .error e
    | .ok none => .ok none
    | .ok (some vs) => .ok (some (vars ++ vs))

def runSteps (env : Env) (src : List Char) (l : List Tok) : List Step → List (List Char) → Except Panic (Option (List (List Char)))
  | [], vars => .ok (some vars)
  | s :: ss, vars =>
    match s.run env src l vars with
    | .error e => .error e
    | .ok none => .ok none
    | .ok (some vars') => runSteps env src l ss vars'

/-- the numeric argument of the message code -/
inductive ArgSpec where
  | const (n : Nat)
  /-- `matched_toks[i].kind.is_whitespace()` inside `format!` (ChockFull) -/
  | wsAt (i : Nat)
  /-- `match matched_tokens.len() { 2 => …, 3 => …, _ => panic!("Received unexpected number of tokens.") }` (Dashes) -/
  | dash
  deriving Repr, DecidableEq, Inhabited

def ArgSpec.eval (l : List Tok) : ArgSpec → Except Panic Nat
  | .const n => .ok n
  | .wsAt i =>
    match l[i]? with
    | none => .error .sliceOOB
    | some t => .ok (if t.kind.isWhitespace then 1 else 0)
  | .dash => if l.length = 2 then .ok 2 else if l.length = 3 then .ok 3 else .error .assertFail

/-- one `match_to_lint`: the steps in source order around the place where the span is taken -/
structure Spec where
  before : List Step := []
  span : Sel
  after : List Step := []
  /-- the suggestions (a function of the number of matched tokens: Dashes, MultipleSequentialPronouns) -/
  suggs : Nat → List SuggSpec
  msg : Nat
  arg : ArgSpec := .const 0

/-- `match_to_lint(matched_tokens, source)` -/
def Spec.run (env : Env) (s : Spec) : List Char → List Tok → Except Panic (List RuleLint) := fun src l =>
  match runSteps env src l s.before [] with
  | .error e => .error e
  | .ok none => .ok []
  | .ok (some vars) =>
    match s.span.eval l with
    | .error e => .error e
    | .ok none => .ok []
    | .ok (some sp) =>
      match runSteps env src l s.after vars with
      | .error e => .error e
      | .ok none => .ok []
      | .ok (some vars') =>
        match evalSuggs env src l vars' (s.suggs l.length) with
        | .error e => .error e
        | .ok none => .ok []
        | .ok (some sg) =>
          match s.arg.eval l with
          | .error e => .error e
          | .ok a => .ok [⟨sp, sg, s.msg, a⟩]

/-- a shipped rule: its pattern and its `match_to_lint` -/
structure PRule where
  pat : RPat
  spec : Spec

/-- `run_on_chunk(linter, chunk, source)` -/
def PRule.piece (env : Env) (r : PRule) : PieceRule := fun src chunk =>
  runOnChunkGo (r.pat.matcher env) (r.spec.run env) src 0 chunk

/-- the blanket `impl Linter for L: PatternLinter` (and the pattern-linter loop of `LintGroup::lint`):
`for chunk in document.iter_chunks()` -/
def PRule.rule (env : Env) (r : PRule) : PieceRule := overPieces iterChunks (r.piece env)

/-! ## builders -/

def seqOf (ps : List RPat) : RPat := .seq (RPats.ofList ps)
def eitherOf (ps : List RPat) : RPat := .either (RPats.ofList ps)
def allOf (ps : List RPat) : RPat := .all (RPats.ofList ps)
/-- `then_whitespace()` / `WhitespacePattern` -/
def ws : RPat := .leaf .whitespace
/-- `t_aco(w)` / `AnyCapitalization::of(w)` -/
def aco (w : List Char) : RPat := .leaf (.anyCap w)
def wset (ws : List (List Char)) : RPat := .leaf (.wordSet ws)
/-- `then_exact_word(w)` -/
def xw (w : List Char) : RPat := .leaf (.exactWord w)
/-- `then_<quality>()` -/
def kp (q : KP) : RPat := .leaf (.kind q false)

/-- the words of a phrase with `WhitespacePattern` between them -/
def wordLeaves : List (List Char) → List Leaf
  | [] => []
  | [w] => [.anyCap w]
  | w :: rest => .anyCap w :: .whitespace :: wordLeaves rest

/-- `ExactPhrase::from_phrase(..)` of a phrase given by the leaves `from_document` pushes for its tokens -/
def phraseOf (ls : List Leaf) : RPat := .seq (leavesToRPats ls)

/-- `ExactPhrase::from_phrase("w₁ w₂ …")` -/
def phrase (ws : List (List Char)) : RPat := phraseOf (wordLeaves ws)

/-! ## the rules -/

/-! ### BackInTheDay -/

def backExceptions : List (List Char) := [c!"before", c!"of", c!"when"]

def patBackInTheDay : RPat :=
  let ph := phrase [c!"back", c!"in", c!"the", c!"days"]
  eitherOf [seqOf [ph, ws, wset backExceptions], ph]

/-- `if let Some(tail) = matched_tokens.get(8..) { if self.exceptions.matches(tail, source) != 0 { return None; } }` -/
def backGuard : CustomFn := fun _ src l =>
  if l.length < 8 then .ok (some [])
  else
    match wordSetAtom backExceptions src (l.drop 8) with
    | .error e => .error e
    | .ok n => .ok (if n != 0 then none else some [])

def specBackInTheDay : Spec where
  before := [.custom 0 backGuard]
  span := .whole
  suggs := fun _ => [.matchCase (.lit c!"back in the day") (.sel .whole)]
  msg := 20

/-! ### Dashes -/

def patDashes : RPat :=
  eitherOf [seqOf [kp .hyphen, kp .hyphen, kp .hyphen], seqOf [kp .hyphen, kp .hyphen]]

def specDashes : Spec where
  span := .whole
  suggs := fun n => if n = 2 then [.replace (.lit ['–'])] else [.replace (.lit ['—'])]
  msg := 21
  arg := .dash

/-! ### OutOfDate -/

def patOutOfDate : RPat :=
  eitherOf [phrase [c!"out", c!"of", c!"date"],
    phraseOf [.anyCap c!"out", .punctIs .Hyphen, .anyCap c!"of", .whitespace, .anyCap c!"date"],
    phraseOf [.anyCap c!"out", .whitespace, .anyCap c!"of", .punctIs .Hyphen, .anyCap c!"date"]]

def specOutOfDate : Spec where
  span := .whole
  suggs := fun _ => [.matchCase (.lit c!"out-of-date") (.sel .whole)]
  msg := 22

/-! ### ThenThan -/

def patThenThan : RPat :=
  allOf [
    eitherOf [
      seqOf [eitherOf [aco c!"other", .leaf (.closure .comparativeAdjective)], ws, aco c!"then", ws, .invert (aco c!"that")],
      seqOf [wset [c!"more", c!"less"], ws, kp .adjective, ws, aco c!"then", ws, .invert (aco c!"that")]],
    .invert (wset [c!"back", c!"this", c!"so", c!"but"])]

/-- `let span = matched_tokens[matched_tokens.len() - 3].span;` -/
def specThenThan : Spec where
  span := .fromEnd 3
  suggs := fun _ => [.matchCase (.lit c!"than") (.sel (.fromEnd 3))]
  msg := 23

/-! ### PiqueInterest -/

def patPiqueInterest : RPat :=
  seqOf [wset [c!"peak", c!"peaked", c!"peek", c!"peeked", c!"peeking", c!"peaking"], ws, kp .notPluralNominal, ws,
    aco c!"interest"]

/-- `PiqueInterest::to_correct` -/
def piqueTable : List (List Char × List Char) :=
  [(c!"peak", c!"pique"), (c!"peek", c!"pique"), (c!"peeked", c!"piqued"), (c!"peaked", c!"piqued"),
    (c!"peaking", c!"piquing"), (c!"peeking", c!"piquing")]

/-- `let word = matched_tokens[0].span.get_content_string(source).to_lowercase(); let correct = Self::to_correct(&word)?;` -/
def piqueCorrect : CustomFn := fun env src l =>
  match l[0]? with
  | none => .error .sliceOOB
  | some t =>
    match t.span.getContent src with
    | .error e => .error e
    | .ok cs =>
      match piqueTable.lookup (toLower env (toLower env cs)) with
      | none => .ok none
      | some c => .ok (some [c])

def specPiqueInterest : Spec where
  before := [.custom 1 piqueCorrect]
  span := .tok 0
  suggs := fun _ => [.matchCase (.var 0) (.sel (.tok 0))]
  msg := 24

/-! ### WasAloud -/

def patWasAloud : RPat := seqOf [wset [c!"was", c!"were", c!"be", c!"been"], ws, xw c!"aloud"]

def specWasAloud : Spec where
  before := [.bind (.sel (.tok 0))]
  span := .whole
  suggs := fun _ => [.matchCase (.cat (.var 0) (.lit c!" allowed")) (.sel (.tok 0))]
  msg := 25

/-! ### HyphenateNumberDay -/

def patHyphenateNumberDay : RPat :=
  seqOf [kp .number, ws, aco c!"day",
    eitherOf [seqOf [ws, .leaf .nominalPhrase], seqOf [kp .hyphen, kp .adjective, ws, .leaf .nominalPhrase]]]

def specHyphenateNumberDay : Spec where
  before := [.numberAt 0]
  span := .tok 1
  suggs := fun _ => [.replace (.lit ['-'])]
  msg := 26

/-! ### LeftRightHand -/

def patLeftRightHand : RPat := seqOf [wset [c!"left", c!"right"], ws, aco c!"hand", ws, kp .noun]

def specLeftRightHand : Spec where
  span := .tok 1
  suggs := fun _ => [.replace (.lit ['-'])]
  msg := 27

/-! ### Hereby, Nobody -/

def patHereby : RPat := seqOf [aco c!"here", ws, aco c!"by", ws, kp .verb]

def specHereby : Spec where
  span := .slice 0 3
  suggs := fun _ => [.matchCase (.lit c!"hereby") (.sel (.slice 0 3))]
  msg := 28

def patNobody : RPat := seqOf [aco c!"no", ws, aco c!"body", ws, kp .verb]

def specNobody : Spec where
  span := .slice 0 3
  suggs := fun _ => [.matchCase (.lit c!"nobody") (.sel (.slice 0 3))]
  msg := 30

/-! ### Likewise -/

def patLikewise : RPat :=
  allOf [seqOf [aco c!"like", ws, aco c!"wise"], .invert (seqOf [.leaf .any, ws, .leaf .any, ws, kp .noun])]

def specLikewise : Spec where
  span := .whole
  suggs := fun _ => [.matchCase (.lit c!"likewise") (.sel .whole)]
  msg := 29

/-! ### Whereas -/

def patWhereas : RPat := seqOf [aco c!"where", ws, aco c!"as"]

def specWhereas : Spec where
  span := .whole
  suggs := fun _ => [.matchCase (.lit c!"whereas") (.sel .whole)]
  msg := 31

/-! ### PossessiveYour -/

def patPossessiveYour : RPat := seqOf [aco c!"you", ws, .leaf (.closure .yourNominal)]

def specPossessiveYour : Spec where
  span := .first
  suggs := fun _ => [.matchCase (.lit c!"your") (.sel .first), .matchCase (.lit c!"you're an") (.sel .first)]
  msg := 32

/-! ### MultipleSequentialPronouns -/

/-- the `WordSet`s as `WordSet::new` leaves them (`add` skips a word it already has) -/
def pronouns : List (List Char) :=
  [c!"i", c!"you", c!"he", c!"she", c!"it", c!"me", c!"him", c!"her", c!"we", c!"they", c!"us", c!"them", c!"mine",
    c!"yours", c!"his", c!"hers", c!"ours", c!"theirs", c!"my", c!"your", c!"its", c!"our", c!"their"]
def subjectPronouns : List (List Char) := [c!"i", c!"you", c!"he", c!"she", c!"it", c!"we", c!"they"]
def objectPronouns : List (List Char) := [c!"me", c!"you", c!"him", c!"her", c!"it", c!"us", c!"them"]
def possessiveAdjectives : List (List Char) := [c!"my", c!"your", c!"his", c!"her", c!"its", c!"our", c!"their"]

def patMultipleSequentialPronouns : RPat := seqOf [wset pronouns, .rep (seqOf [ws, wset pronouns]) 0]

/-- the `if matched_tokens.len() == 3 { … }` block: the four `return None` exceptions, else the two words -/
def pronounGuard : CustomFn := fun _ src l =>
  if l.length = 3 then
    match l[0]?, l[2]? with
    | some a, some b =>
      match a.span.getContent src with
      | .error e => .error e
      | .ok raw =>
        match b.span.getContent src with
        | .error e => .error e
        | .ok second =>
          let first := raw.map lowerAscii
          if objectPronouns.contains first && possessiveAdjectives.contains second then .ok none
          else if objectPronouns.contains first && subjectPronouns.contains second then .ok none
          else if possessiveAdjectives.contains first && second == c!"US" then .ok none
          else if raw == c!"US" && subjectPronouns.contains second then .ok none
          else .ok (some [raw, second])
    | _, _ => .error .sliceOOB
  else .ok (some [])

def specMultipleSequentialPronouns : Spec where
  before := [.custom 0 pronounGuard]
  span := .whole
  suggs := fun n => if n = 3 then [.replace (.var 0), .replace (.var 1)] else []
  msg := 33

/-! ### DotInitialisms -/

def initialisms : List (List Char × List Char) := [(c!"ie", c!"i.e."), (c!"eg", c!"e.g.")]

def patDotInitialisms : RPat :=
  .wordGroup (WRows.ofList (initialisms.map fun r => (r.1, seqOf [xw r.1, kp .punctuation])))

/-- `let found_word_tok = matched_tokens.first()?; … let correction = self.corrections.get(found_word.as_str())?;` -/
def initialismCorrection : CustomFn := fun _ src l =>
  match l.head? with
  | none => .ok none
  | some t =>
    match t.span.getContent src with
    | .error e => .error e
    | .ok cs =>
      match initialisms.lookup cs with
      | none => .ok none
      | some c => .ok (some [c])

def specDotInitialisms : Spec where
  before := [.custom 0 initialismCorrection]
  span := .whole
  suggs := fun _ => [.replace (.var 0)]
  msg := 34

/-! ### BoringWords -/

def patBoringWords : RPat :=
  .wordGroup (WRows.ofList ([c!"very", c!"interesting", c!"several", c!"most", c!"many"].map addWordRow))

def specBoringWords : Spec where
  before := [.bind (.sel .whole)]
  span := .whole
  suggs := fun _ => []
  msg := 35

/-! ### UseGenitive -/

def patUseGenitive : RPat :=
  let environment := seqOf [ws, eitherOf [seqOf [.rep (kp .adjective) 0, ws, kp .noun], seqOf [kp .noun]]]
  let primary := RPat.wordGroup (WRows.ofList ([c!"there", c!"they're"].map fun w => (w, seqOf [xw w, environment])))
  seqOf [.invert (eitherOf [seqOf [aco c!"is"], seqOf [aco c!"were"], seqOf [kp .adjective]]), ws, primary]

def specUseGenitive : Spec where
  span := .tok 2
  suggs := fun _ => [.replace (.lit c!"their")]
  msg := 36

/-! ### ThatWhich -/

def patThatWhich : RPat :=
  let m := seqOf [aco c!"that", ws, aco c!"that"]
  .wordGroup (WRows.ofList [(c!"that", m), (c!"That", m)])

def specThatWhich : Spec where
  before := [.bind (.sel (.tok 0))]
  span := .whole
  suggs := fun _ => [.replace (.cat (.var 0) (.lit c!" which"))]
  msg := 37

/-! ### SomewhatSomething -/

def patSomewhatSomething : RPat := seqOf [aco c!"somewhat", ws, aco c!"of", ws, aco c!"a"]

def specSomewhatSomething : Spec where
  span := .first
  suggs := fun _ => [.matchCase (.lit c!"something") (.sel .first)]
  msg := 38

/-! ### DespiteOf -/

def patDespiteOf : RPat := seqOf [aco c!"despite", ws, xw c!"of"]

def specDespiteOf : Spec where
  span := .whole
  suggs := fun _ => [.matchCase (.lit c!"despite") (.sel .whole), .matchCase (.lit c!"in spite of") (.sel .whole)]
  msg := 39

/-! ### ChockFull -/

def patChockFull : RPat := seqOf [wset [c!"chalk", c!"choke"], eitherOf [ws, kp .hyphen], xw c!"full"]

def specChockFull : Spec where
  span := .whole
  suggs := fun _ => [.matchCase (.lit c!"chock-full") (.sel .whole)]
  msg := 40
  arg := .wsAt 1

/-! ### Confident -/

def patConfident : RPat :=
  seqOf [eitherOf [.leaf (.closure .verbOrDeterminer), aco c!"very"], ws, aco c!"confidant"]

def specConfident : Spec where
  span := .last
  suggs := fun _ => [.replace (.lit c!"confident")]
  msg := 41

/-! ### Oxymorons, Hedging -/

def patOxymorons : RPat :=
  eitherOf [
    phrase [c!"amateur", c!"expert"],
    phrase [c!"increasingly", c!"less"],
    phraseOf [.anyCap c!"advancing", .whitespace, .anyCap c!"backwards", .punctIs .Question],
    phrase [c!"alludes", c!"explicitly", c!"to"],
    phrase [c!"explicitly", c!"alludes", c!"to"],
    phrase [c!"totally", c!"obsolescent"],
    phrase [c!"completely", c!"obsolescent"],
    phrase [c!"generally", c!"always"],
    phrase [c!"usually", c!"always"],
    phrase [c!"build", c!"down"],
    phrase [c!"conspicuous", c!"absence"],
    phrase [c!"exact", c!"estimate"],
    phrase [c!"found", c!"missing"],
    phrase [c!"intense", c!"apathy"],
    phrase [c!"mandatory", c!"choice"],
    phrase [c!"nonworking", c!"mother"],
    phrase [c!"organized", c!"mess"]]

def specOxymorons : Spec where
  before := [.bind (.sel .whole)]
  span := .whole
  suggs := fun _ => []
  msg := 42

def patHedging : RPat :=
  eitherOf [
    phrase [c!"I", c!"would", c!"argue", c!"that"],
    phraseOf (.punctIs .Comma :: .whitespace :: wordLeaves [c!"so", c!"to", c!"speak"]),
    phrase [c!"to", c!"a", c!"certain", c!"degree"]]

def specHedging : Spec where
  span := .whole
  suggs := fun _ => []
  msg := 43

/-! ### ExpandTimeShorthands -/

def hotwords : List (List Char) :=
  [c!"hr", c!"hrs", c!"min", c!"mins", c!"sec", c!"secs", c!"ms", c!"msec", c!"msecs"]

def patExpandTimeShorthands : RPat :=
  seqOf [.leaf .impliesQuantity, eitherOf [seqOf [wset hotwords], seqOf [ws, wset hotwords], seqOf [kp .hyphen, wset hotwords]]]

/-- `ImpliesQuantity::implies_plurality(tokens, source)` -/
def impliesPlurality (env : Env) (src : List Char) (l : List Tok) : Except Panic (Option Bool) :=
  match l with
  | [] => .ok none
  | t :: _ =>
    match t.kind with
    | .word =>
      if !hasFlag env src t 15 then .ok none
      else if hasFlag env src t 4 then .ok (some false)
      else
        match t.span.getContent src with
        | .error e => .error e
        | .ok cs =>
          .ok (if cs == ['a'] || cs == ['a', 'n'] then some false else if cs == ['m', 'a', 'n', 'y'] then some true else none)
    -- `(number.value.abs() - 1.).abs() > f64::EPSILON`
    | .number _ _ => .ok (some (env.numVal (textOf src t.span) != .int 1))
    | _ => .ok none

/-- `ExpandTimeShorthands::get_replacement(abbreviation, plural)` -/
def timeReplacement (abbr : List Char) (plural : Option Bool) : Option (List Char) :=
  let isPlural := plural.getD ([c!"hrs", c!"mins", c!"secs", c!"msecs"].contains abbr)
  if abbr == c!"hr" || abbr == c!"hrs" then some (if isPlural then c!"hours" else c!"hour")
  else if abbr == c!"min" || abbr == c!"mins" then some (if isPlural then c!"minutes" else c!"minute")
  else if abbr == c!"sec" || abbr == c!"secs" then some (if isPlural then c!"seconds" else c!"second")
  else if abbr == c!"ms" || abbr == c!"msec" || abbr == c!"msecs" then some (if isPlural then c!"milliseconds" else c!"millisecond")
  else none

/-- everything between `matched_tokens.last()?` and `if replacement_chars == offending_text { return None; }` -/
def timeExpansion : CustomFn := fun env src l =>
  match l.getLast? with
  | none => .ok none
  | some t =>
    match impliesPlurality env src l with
    | .error e => .error e
    | .ok plural =>
      match t.span.getContent src with
      | .error e => .error e
      | .ok text =>
        match timeReplacement text plural with
        | none => .ok none
        | some rep =>
          let chars := (if l.length = 2 then [' '] else []) ++ rep
          .ok (if chars == text then none else some [chars])

def specExpandTimeShorthands : Spec where
  before := [.custom 0 timeExpansion]
  span := .last
  suggs := fun _ => [.replace (.var 0)]
  msg := 44

/-! ### ForNoun -/

def patForNoun : RPat := seqOf [aco c!"fro", ws, eitherOf [.leaf .nominalPhrase, aco c!"sure"]]

def specForNoun : Spec where
  span := .first
  suggs := fun _ => [.matchCase (.lit c!"for") (.sel .first)]
  msg := 45

/-! ### TheHowWhy, WidelyAccepted (`PatternLinter`s registered with `insert_struct_rule!`) -/

def patTheHowWhy : RPat :=
  eitherOf [
    seqOf [aco c!"the", ws, aco c!"how", .invert (seqOf [ws, aco c!"to"])],
    seqOf [aco c!"the", ws, aco c!"who", .invert (seqOf [ws, aco c!"'s", ws, aco c!"who"])],
    seqOf [aco c!"the", ws, aco c!"why"],
    seqOf [aco c!"the", ws, aco c!"when"],
    seqOf [aco c!"the", ws, aco c!"what"]]

/-- `let the_token_span = matched_tokens[0..2].span()?; let question_word_token = matched_tokens.get(2)?;
let question_word = question_word_token.span.get_content(source);` -/
def specTheHowWhy : Spec where
  span := .slice 0 2
  after := [.get 2, .bind (.sel (.tok 2))]
  suggs := fun _ => [.remove]
  msg := 46

def patWidelyAccepted : RPat := seqOf [aco c!"wide", ws, wset [c!"accepted", c!"acceptable", c!"used"]]

def specWidelyAccepted : Spec where
  span := .first
  suggs := fun _ => [.matchCase (.lit c!"widely") (.sel .first)]
  msg := 47

/-! ## the table the driver dispatches on -/

def allPatternRules : List (String × PRule) :=
  [("BackInTheDay", ⟨patBackInTheDay, specBackInTheDay⟩),
    ("Dashes", ⟨patDashes, specDashes⟩),
    ("OutOfDate", ⟨patOutOfDate, specOutOfDate⟩),
    ("ThenThan", ⟨patThenThan, specThenThan⟩),
    ("PiqueInterest", ⟨patPiqueInterest, specPiqueInterest⟩),
    ("WasAloud", ⟨patWasAloud, specWasAloud⟩),
    ("HyphenateNumberDay", ⟨patHyphenateNumberDay, specHyphenateNumberDay⟩),
    ("LeftRightHand", ⟨patLeftRightHand, specLeftRightHand⟩),
    ("Hereby", ⟨patHereby, specHereby⟩),
    ("Likewise", ⟨patLikewise, specLikewise⟩),
    ("Nobody", ⟨patNobody, specNobody⟩),
    ("Whereas", ⟨patWhereas, specWhereas⟩),
    ("PossessiveYour", ⟨patPossessiveYour, specPossessiveYour⟩),
    ("MultipleSequentialPronouns", ⟨patMultipleSequentialPronouns, specMultipleSequentialPronouns⟩),
    ("DotInitialisms", ⟨patDotInitialisms, specDotInitialisms⟩),
    ("BoringWords", ⟨patBoringWords, specBoringWords⟩),
    ("UseGenitive", ⟨patUseGenitive, specUseGenitive⟩),
    ("ThatWhich", ⟨patThatWhich, specThatWhich⟩),
    ("SomewhatSomething", ⟨patSomewhatSomething, specSomewhatSomething⟩),
    ("DespiteOf", ⟨patDespiteOf, specDespiteOf⟩),
    ("ChockFull", ⟨patChockFull, specChockFull⟩),
    ("Confident", ⟨patConfident, specConfident⟩),
    ("Oxymorons", ⟨patOxymorons, specOxymorons⟩),
    ("Hedging", ⟨patHedging, specHedging⟩),
    ("ExpandTimeShorthands", ⟨patExpandTimeShorthands, specExpandTimeShorthands⟩),
    ("ForNoun", ⟨patForNoun, specForNoun⟩),
    ("TheHowWhy", ⟨patTheHowWhy, specTheHowWhy⟩),
    ("WidelyAccepted", ⟨patWidelyAccepted, specWidelyAccepted⟩)]

def patternRuleByName (name : String) : Option PRule := allPatternRules.lookup name

end Harper.PatternRules
