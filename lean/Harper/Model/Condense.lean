import Harper.Basic.Token
import Harper.Model.Lex
import Harper.Model.Overlaps
import Harper.Model.NumberSuffix
/-!
# L2 — `Document::parse` (harper-core/src/document.rs): the condensing passes

`Document::new` = `parser.parse` (`parsePlain`, `Model/Lex.lean`) followed by, in this order,
`condense_spaces`, `condense_newlines`, `newlines_to_breaks`, `condense_contractions`,
`condense_dotted_initialisms`, `condense_number_suffixes`, `condense_ellipsis`, `condense_latin`,
`match_quotes` (`articles_imply_nouns` and the dictionary look-up only touch word metadata, which
`Tok` does not carry).

Shape of the models.
* The three cursor loops that *collect indices and then call `remove_indices`*
  (`condense_spaces`, `condense_newlines`, `condense_dotted_initialisms`) are structural
  recursions that follow the cursor: every recursive call is one cursor advance, so no fuel is
  needed (the cursor strictly increases). They produce the mutated token vector together with a
  flag per token "its index was pushed on the removal queue"; the queue is then the list of flagged
  indices (`flaggedIdx`, ascending, exactly the order in which the Rust code pushes) and the result
  is `removeIndices` (the model of `Vec::remove_indices`, `Model/Overlaps.lean`) applied to it.
  The start token of a run is mutated by the Rust loop while the cursor moves on; here it is held
  back (`held` = tokens already passed, most recent first) and emitted when the run ends.
* `condense_spaces` and `condense_newlines` are the same loop up to one difference, made explicit
  in `RunCfg`: `condense_spaces` checks that the child is adjacent in the source ("Only condense
  adjacent spans"); `condense_newlines` does not. (`condense_spaces` used to advance its cursor a
  second time after a merge; that was repaired in /repo and the model's `dbl`/`skip` is gone.)
* `find_all_matches`, `condense_pattern`, `condense_indices` index into vectors; they are modelled
  with `Except Panic` on `List` (`drop`/`take`/`set`), literally: the overlap filter of
  `find_all_matches` looks at adjacent pairs of the ORIGINAL list, `condense_pattern` reads the
  vector it is mutating, `condense_indices` copies slices.
* patterns: the few combinators the four condense patterns use (`SequencePattern`,
  `RepeatingPattern`, `EitherPattern`, closures on the token kind, `WordSet`, `AnyCapitalization`,
  `WhitespacePattern`) as functions `Matcher`. Word text is compared with
  `char::eq_ignore_ascii_case`, i.e. after ASCII lower-casing (`lowerAscii`).
-/
namespace Harper

/-! ## flagged token vectors and `remove_indices` -/

/-- the removal queue: indices (counted from `i`) of the flagged elements, ascending -/
def flaggedIdx {α} (i : Nat) : List (α × Bool) → List Nat
  | [] => []
  | (_, true) :: r => i :: flaggedIdx (i + 1) r
  | (_, false) :: r => flaggedIdx (i + 1) r

/-- `self.tokens.remove_indices(queue)` on a flagged vector -/
def dropFlagged {α} (l : List (α × Bool)) : List α :=
  removeIndices 0 (flaggedIdx 0 l) (l.map (·.1))

/-! ## `condense_spaces` / `condense_newlines` -/

structure RunCfg where
  /-- `if let TokenKind::Space(n) = kind` -/
  sel : Kind → Option Nat
  mkKind : Nat → Kind
  /-- "Only condense adjacent spans": `start_tok.span.end != child_tok.span.start → break` -/
  adj : Bool

inductive RunMode where
  /-- outer `while`: looking for the start of a run -/
  | scan
  /-- inner `loop` after `cursor += 1`: the start token has span `s` and count `n` so far -/
  | absorb (s : Span) (n : Nat) (held : List (Tok × Bool))

def runGo (cfg : RunCfg) : RunMode → List Tok → List (Tok × Bool)
  | .scan, [] => []
  | .scan, t :: rest =>
    match cfg.sel t.kind with
    | some n => runGo cfg (.absorb t.span n []) rest
    | none => (t, false) :: runGo cfg .scan rest
  -- `cursor >= copy.len()`: break, `cursor += 1`, the outer loop ends
  | .absorb s n held, [] => (⟨s, cfg.mkKind n⟩, false) :: held.reverse
  | .absorb s n held, c :: r =>
    if cfg.adj && s.stop != c.span.start then
      -- break; `cursor += 1`: the child is not a start candidate either
      (⟨s, cfg.mkKind n⟩, false) :: (held.reverse ++ (c, false) :: runGo cfg .scan r)
    else
      match cfg.sel c.kind with
      | some m => runGo cfg (.absorb ⟨s.start, c.span.stop⟩ (n + m) ((c, true) :: held)) r
      | none => (⟨s, cfg.mkKind n⟩, false) :: (held.reverse ++ (c, false) :: runGo cfg .scan r)

def spacesCfg : RunCfg where
  sel := fun | .space n => some n | _ => none
  mkKind := .space
  adj := true

def newlinesCfg : RunCfg where
  sel := fun | .newline n => some n | _ => none
  mkKind := .newline
  adj := false

def condenseSpaces (toks : List Tok) : List Tok := dropFlagged (runGo spacesCfg .scan toks)
def condenseNewlines (toks : List Tok) : List Tok := dropFlagged (runGo newlinesCfg .scan toks)

/-! ## `newlines_to_breaks` -/

def breakKind : Kind → Kind
  | .newline n => if n ≥ 2 then .paragraphBreak else .newline n
  | k => k

def newlinesToBreaks (toks : List Tok) : List Tok := toks.map fun t => { t with kind := breakKind t.kind }

/-! ## slices -/

/-- `&v[a..b]`: panics when `a > b` or `b > len` -/
def sliceE {α} (l : List α) (a b : Nat) : Except Panic (List α) :=
  if a > b ∨ b > l.length then .error .sliceOOB else .ok ((l.drop a).take (b - a))

/-- `a..b` -/
def rangeFrom (a : Nat) : Nat → List Nat
  | 0 => []
  | n + 1 => a :: rangeFrom (a + 1) n

/-! ## patterns -/

/-- `Pattern::matches(&tokens[..], source)`: how many tokens match (0 = no match) -/
abbrev Matcher := List Char → List Tok → Except Panic Nat

/-- a closure `|tok, _source| pred(tok.kind)` used as a pattern -/
def kindAtom (p : Kind → Bool) : Matcher := fun _ toks =>
  match toks with
  | [] => .ok 0
  | t :: _ => .ok (if p t.kind then 1 else 0)

/-- `zip(..).all(|(a, b)| a.eq_ignore_ascii_case(b))` -/
def eqIgnoreAsciiCase : List Char → List Char → Bool
  | a :: as, b :: bs => lowerAscii a == lowerAscii b && eqIgnoreAsciiCase as bs
  | _, _ => true

/-- `WordSet::matches`: `get_content` comes before the length test -/
def wordSetAtom (ws : List (List Char)) : Matcher := fun src toks =>
  match toks with
  | [] => .ok 0
  | t :: _ =>
    if !t.kind.isWord then .ok 0 else
    match t.span.getContent src with
    | .error e => .error e
    | .ok cs => .ok (if ws.any (fun w => cs.length == w.length && eqIgnoreAsciiCase cs w) then 1 else 0)

/-- `AnyCapitalization::matches`: the length test (`span.len()`, which underflows when
`start > end`) comes before `get_content` -/
def anyCapAtom (w : List Char) : Matcher := fun src toks =>
  match toks with
  | [] => .ok 0
  | t :: _ =>
    if !t.kind.isWord then .ok 0 else
    if t.span.start > t.span.stop then .error .underflow else
    if t.span.len != w.length then .ok 0 else
    match t.span.getContent src with
    | .error e => .error e
    | .ok cs => .ok (if eqIgnoreAsciiCase cs w then 1 else 0)

/-- `WhitespacePattern`: the number of leading whitespace tokens -/
def whitespaceAtom : Matcher := fun _ toks => .ok (countWhile (fun t => t.kind.isWhitespace) toks)

/-- `SequencePattern::matches`: `acc` = `tok_cursor` -/
def seqGo (src : List Char) : List Matcher → Nat → List Tok → Except Panic Nat
  | [], acc, _ => .ok acc
  | p :: ps, acc, toks =>
    match p src toks with
    | .error e => .error e
    | .ok n =>
      if n = 0 then .ok 0
      else if n > toks.length then .error .sliceOOB   -- `&tokens[tok_cursor..]`
      else seqGo src ps (acc + n) (toks.drop n)

def seqPat (ps : List Matcher) : Matcher := fun src toks => seqGo src ps 0 toks

/-- `RepeatingPattern::matches` -/
def repGo (inner : Matcher) (req : Nat) (src : List Char) : Nat → Nat → Nat → List Tok → Except Panic Nat
  | 0, _, _, _ => .error .outOfFuel
  | fuel + 1, cursor, rep, toks =>
    match inner src toks with
    | .error e => .error e
    | .ok n =>
      if n = 0 then .ok (if rep ≥ req then cursor else 0)
      else if n > toks.length then .error .sliceOOB
      else repGo inner req src fuel (cursor + n) (rep + 1) (toks.drop n)

def repPat (inner : Matcher) (req : Nat) : Matcher := fun src toks =>
  repGo inner req src (toks.length + 1) 0 0 toks

/-- `EitherPattern::matches`: the longest -/
def eitherGo (src : List Char) (toks : List Tok) : List Matcher → Nat → Except Panic Nat
  | [], longest => .ok longest
  | p :: ps, longest =>
    match p src toks with
    | .error e => .error e
    | .ok n => eitherGo src toks ps (if n > longest then n else longest)

def eitherPat (ps : List Matcher) : Matcher := fun src toks => eitherGo src toks ps 0

/-- `then_any_word().then_apostrophe().then_any_word()` -/
def contractionPat : Matcher :=
  seqPat [kindAtom Kind.isWord, kindAtom Kind.isApostrophe, kindAtom Kind.isWord]

/-- `RepeatingPattern::new(SequencePattern::default().then_period(), 2)` -/
def ellipsisPat : Matcher := repPat (seqPat [kindAtom Kind.isPeriod]) 2

/-- `(etc|vs) .` or `et <whitespace> al .`, any capitalisation -/
def latinPat : Matcher :=
  eitherPat [
    seqPat [wordSetAtom [['e', 't', 'c'], ['v', 's']], kindAtom Kind.isPeriod],
    seqPat [anyCapAtom ['e', 't'], whitespaceAtom, anyCapAtom ['a', 'l'], kindAtom Kind.isPeriod]]

/-! ## `find_all_matches` -/

/-- `for i in 0..tokens.len() { let len = self.matches(&tokens[i..], source); … }` -/
def foundFrom (m : Matcher) (src : List Char) : Nat → List Tok → Except Panic (List Span)
  | _, [] => .ok []
  | i, t :: ts =>
    match m src (t :: ts) with
    | .error e => .error e
    | .ok n =>
      match foundFrom m src (i + 1) ts with
      | .error e => .error e
      | .ok rest => .ok (if n > 0 then ⟨i, i + n⟩ :: rest else rest)

/-- `for i in 0..found.len() - 1 { if found[i].overlaps_with(found[i + 1]) { push(i + 1) } }`;
`i` = index of the second element of the pair -/
def overlapNext (i : Nat) : List Span → List Nat
  | a :: b :: r => if a.overlapsWith b then i :: overlapNext (i + 1) (b :: r) else overlapNext (i + 1) (b :: r)
  | _ => []

def findAllMatches (m : Matcher) (src : List Char) (toks : List Tok) : Except Panic (List Span) :=
  match foundFrom m src 0 toks with
  | .error e => .error e
  | .ok found =>
    if found.length < 2 then .ok found
    else .ok (removeIndices 0 (overlapNext 1 found) found)

/-! ## `condense_pattern` -/

/-- `.windows(2).all(|w| w[0].span.end == w[1].span.start)` -/
def contiguous : List Tok → Bool
  | a :: b :: r => a.span.stop == b.span.start && contiguous (b :: r)
  | _ => true

/-- `TokenStringExt::span`: min and max over all starts and ends (`Span::new(min, max)`) -/
def spanOf : List Tok → Option Span
  | [] => none
  | t :: ts =>
    let lo := ts.foldl (fun m x => min (min m x.span.start) x.span.stop) (min t.span.start t.span.stop)
    let hi := ts.foldl (fun m x => max (max m x.span.start) x.span.stop) (max t.span.start t.span.stop)
    some ⟨lo, hi⟩

/-- the `for m in matches` loop; it reads and writes the token vector it walks over -/
def condLoop (edit : Kind → Kind) : List Span → List Tok → List Nat → Except Panic (List Tok × List Nat)
  | [], toks, rem => .ok (toks, rem)
  | m :: ms, toks, rem =>
    match sliceE toks m.start m.stop with
    | .error e => .error e
    | .ok slice =>
      if !contiguous slice then condLoop edit ms toks rem
      else
        match spanOf slice with
        | none => .error .unwrapNone
        | some sp =>
          match toks[m.start]? with
          | none => .error .sliceOOB
          | some t =>
            condLoop edit ms (toks.set m.start ⟨sp, edit t.kind⟩)
              (rem ++ rangeFrom (m.start + 1) (m.stop - (m.start + 1)))

def condensePattern (m : Matcher) (edit : Kind → Kind) (src : List Char) (toks : List Tok) :
    Except Panic (List Tok) :=
  match findAllMatches m src toks with
  | .error e => .error e
  | .ok ms =>
    match condLoop edit ms toks [] with
    | .error e => .error e
    | .ok (toks', rem) => .ok (removeIndices 0 rem toks')

def condenseContractions := condensePattern contractionPat id
def condenseEllipsis := condensePattern ellipsisPat (fun _ => .punct .Ellipsis)
def condenseLatin := condensePattern latinPat id

/-! ## `condense_dotted_initialisms` -/

/-- `a.kind.is_word() && a.span.len() == 1 && b.kind.is_period()` -/
def isInitialismChunk (a b : Tok) : Bool :=
  a.kind.isWord && a.span.len == 1 && b.kind.isPeriod

inductive InitMode where
  | idle
  /-- `initialism_start = Some(_)`: the start token, the end of the last period consumed
  (`self.tokens[cursor - 2].span.end`), the tokens passed since -/
  | inside (start : Tok) (lastEnd : Nat) (held : List (Tok × Bool))

/-- the `loop`; the list is `tokens[cursor - 1 ..]` -/
def initGo : InitMode → List Tok → List (Tok × Bool)
  | .idle, a :: b :: rest =>
    if isInitialismChunk a b then initGo (.inside a b.span.stop [(b, true)]) rest
    else (a, false) :: initGo .idle (b :: rest)
  | .idle, rest => rest.map (·, false)
  | .inside st e held, a :: b :: rest =>
    if isInitialismChunk a b then initGo (.inside st b.span.stop ((b, true) :: (a, true) :: held)) rest
    else (⟨⟨st.span.start, e⟩, st.kind⟩, false) :: (held.reverse ++ (a, false) :: initGo .idle (b :: rest))
  -- the loop has ended: "Close an initialism that runs up to the end of the document."
  | .inside st e held, rest => (⟨⟨st.span.start, e⟩, st.kind⟩, false) :: (held.reverse ++ rest.map (·, false))

def dottedInitialisms (toks : List Tok) : List Tok := dropFlagged (initGo .idle toks)

/-! ## `condense_indices` and `condense_number_suffixes` -/

/-- "Update spans": `for idx in indices { tokens[idx].span.end = tokens[idx + stretch_len - 1].span.end }` -/
def stretchSpans (stretch : Nat) : List Nat → List Tok → Except Panic (List Tok)
  | [], toks => .ok toks
  | idx :: rest, toks =>
    if idx + stretch = 0 then .error .underflow else
    match toks[idx + stretch - 1]?, toks[idx]? with
    | some e, some s => stretchSpans stretch rest (toks.set idx ⟨⟨s.span.start, e.span.stop⟩, s.kind⟩)
    | _, _ => .error .sliceOOB

/-- the `while let (Some(a_idx), b) = (iter.next(), iter.peek())` loop -/
def keepPieces (stretch : Nat) (old : List Tok) : List Nat → Except Panic (List Tok)
  | [] => .ok []
  | [a] =>
    match old[a]? with
    | some t => .ok [t]
    | none => .error .sliceOOB
  | a :: b :: r =>
    match old[a]?, sliceE old (a + stretch) b, keepPieces stretch old (b :: r) with
    | some t, .ok mid, .ok rest => .ok (t :: mid ++ rest)
    | none, _, _ => .error .sliceOOB
    | _, .error e, _ => .error e
    | _, _, .error e => .error e

def condenseIndices (indices : List Nat) (stretch : Nat) (toks : List Tok) : Except Panic (List Tok) :=
  match stretchSpans stretch indices toks with
  | .error e => .error e
  | .ok old =>
    match sliceE old 0 (indices.head?.getD indices.length),
          keepPieces stretch old indices,
          sliceE old ((indices.getLast?.map (· + stretch)).getD indices.length) old.length with
    | .ok first, .ok mid, .ok last => .ok (first ++ mid ++ last)
    | .error e, _, _ => .error e
    | _, .error e, _ => .error e
    | _, _, .error e => .error e

def setSuffix (s : Suffix) : Kind → Kind
  | .number r _ => .number r (some s)
  | k => k

/-- the body of the `for idx in 0..self.tokens.len() - 1` loop for `a = tokens[idx]`,
`b = tokens[idx + 1]`: the suffix found, if any -/
def suffixHit (src : List Char) (a b : Tok) : Except Panic (Option Suffix) :=
  if a.kind.isNumber && b.kind.isWord then
    if b.span.start > b.span.stop then .error .underflow      -- `b.span.len()`
    else if b.span.len != 2 then .ok none
    else
      match b.span.getContent src with
      | .error e => .error e
      | .ok cs => fromChars cs
  else .ok none

/-- the `for idx in 0..self.tokens.len() - 1` loop: the vector with suffixes set, and `replace_starts` -/
def suffixScan (src : List Char) : Nat → List Tok → Except Panic (List Tok × List Nat)
  | i, a :: b :: rest =>
    match suffixHit src a b with
    | .error e => .error e
    | .ok hit =>
      match suffixScan src (i + 1) (b :: rest) with
      | .error e => .error e
      | .ok (ts, idx) =>
        match hit with
        | some s => .ok (⟨a.span, setSuffix s a.kind⟩ :: ts, i :: idx)
        | none => .ok (a :: ts, idx)
  | _, rest => .ok (rest, [])

def numberSuffixes (src : List Char) (toks : List Tok) : Except Panic (List Tok) :=
  if toks.length < 2 then .ok toks else
  match suffixScan src 0 toks with
  | .error e => .error e
  | .ok (toks', idx) => condenseIndices idx 2 toks'

/-! ## `match_quotes` -/

/-- `iter_quote_indices` -/
def quoteIdx (i : Nat) : List Tok → List Nat
  | [] => []
  | t :: ts => if t.kind.isQuote then i :: quoteIdx (i + 1) ts else quoteIdx (i + 1) ts

/-- `for i in 0..quote_indices.len() / 2`: `(a_i, b_i)` both ways -/
def twinTable : List Nat → List (Nat × Nat)
  | a :: b :: r => (a, b) :: (b, a) :: twinTable r
  | _ => []

def setTwins (tab : List (Nat × Nat)) (i : Nat) : List Tok → List Tok
  | [] => []
  | t :: ts =>
    (match t.kind, tab.lookup i with
     | .quote _, some j => ⟨t.span, .quote (some j)⟩
     | _, _ => t) :: setTwins tab (i + 1) ts

def matchQuotes (toks : List Tok) : List Tok := setTwins (twinTable (quoteIdx 0 toks)) 0 toks

/-! ## `Document::new(text, &PlainEnglish, _)` -/

/-- the passes of `Document::parse`, in order -/
def condenseAll (src : List Char) (t0 : List Tok) : Except Panic (List Tok) :=
  let t3 := newlinesToBreaks (condenseNewlines (condenseSpaces t0))
  match condenseContractions src t3 with
  | .error e => .error e
  | .ok t4 =>
    match numberSuffixes src (dottedInitialisms t4) with
    | .error e => .error e
    | .ok t6 =>
      match condenseEllipsis src t6 with
      | .error e => .error e
      | .ok t7 =>
        match condenseLatin src t7 with
        | .error e => .error e
        | .ok t8 => .ok (matchQuotes t8)

def document (cls : Cls) (ext : Ext) (src : List Char) : Except Panic (List Tok) :=
  match parsePlain cls ext src with
  | .error e => .error e
  | .ok t0 => condenseAll src t0

end Harper
