import Harper.Basic.Token
import Harper.Model.Lex
import Harper.Model.Condense
import Harper.Model.Chunks
import Harper.Model.Overlaps
import Harper.Model.NumberSuffix
/-!
# Concrete rules (harper-core/src/linting/*.rs), as the code iterates

Every rule is `ruleX : Env → List Char → List Tok → Except Panic (List RuleLint)`: the source
characters and the token vector of the `Document` in, the lints (or the panic) out. Rules that
iterate `document.iter_chunks()` / `iter_sentences()` are `overPieces` of a *piece-level* function
(`…Piece`); rules that iterate the document's tokens are `perTok` of a per-token function.
`CurrencyPlacement` additionally runs `remove_overlaps` (`Harper.removeOverlaps`) on everything it
collected.

Panics are values: `Span::new` (`Span.new`), `get_span_content` (`Span.getContent`), `unwrap`,
slice indexing, and `Span::len`'s subtraction (`is_empty` on a span with `start > end`).

**What a rule consults that a `Tok` does not carry** is `Env`: functions of the CHARACTERS under a
token (never of its position): the `Display` string and the value of a `Number` token, the word
metadata flags of a `Word` token (all three are computed by Rust from the token's text alone:
`str::parse::<f64>` of the literal, `Dictionary::get_word_metadata(text)`), and the Unicode
case tables (`char::to_lowercase`, `is_lowercase`, `is_uppercase`). The driver receives them as
tables from the harness; theorems quantify over every `Env`.

Lints: span, suggestions, and a message code (+ one numeric message argument); lint kind and
priority are constants of the message code and are checked by the harness when it computes the code:
1 LongSentences · 2 CurrencyPlacement · 3 Spaces (n spaces) · 4 Spaces (before the terminator) ·
5 RepeatedWords · 6 EllipsisLength · 7 NumberSuffixCapitalization · 8 UnclosedQuotes ·
9 CorrectNumberSuffix · 10 ModalOf · 11 AnA · 12 SentenceCapitalization.
-/
namespace Harper.Rules
open Harper Harper.Chunks

/-- `Suggestion` -/
inductive Sugg where
  | replaceWith (cs : List Char)
  | remove
  | insertAfter (cs : List Char)
  deriving Repr, DecidableEq, Inhabited

/-- a `Lint`: where, what to do, and which message (code + numeric argument) -/
structure RuleLint where
  span : Span
  suggs : List Sugg
  msg : Nat
  arg : Nat
  deriving Repr, DecidableEq, Inhabited

/-- what the rules read besides kinds, spans and source characters; all functions of a token's TEXT -/
structure Env where
  /-- `Number::to_string()` of the `Number` token with this text -/
  numStr : List Char → List Char
  /-- `Number.value` as `correct_suffix_for` sees it -/
  numVal : List Char → NumVal
  /-- word metadata of the `Word` token with this text: bit 0 preposition, 1 conjunction,
  2 likely homograph, 3 adjective, 4 determiner, 5 proper noun, 6 nominal (noun or pronoun), 7 verb -/
  wordFlags : List Char → Nat
  /-- `char::to_lowercase` -/
  lower : Char → List Char
  /-- `char::is_lowercase` -/
  isLower : Char → Bool
  /-- `char::is_uppercase` -/
  isUpper : Char → Bool
  /-- `char::is_alphabetic` -/
  isAlpha : Char → Bool
  /-- `char::is_alphanumeric` -/
  isAlnum : Char → Bool
  /-- `char::is_whitespace` -/
  isWs : Char → Bool
  /-- `Dictionary::get_correct_capitalization_of(text)` -/
  canonical : List Char → Option (List Char)

abbrev PieceRule := List Char → List Tok → Except Panic (List RuleLint)

/-- the characters under a span (total; for `Env` look-ups only — not a Rust operation) -/
def textOf (src : List Char) (sp : Span) : List Char := (src.drop sp.start).take (sp.stop - sp.start)

/-- run `f` on every element in order and concatenate; the first panic ends the run -/
def collectE {α} (f : α → Except Panic (List RuleLint)) : List α → Except Panic (List RuleLint)
  | [] => .ok []
  | x :: xs =>
    match f x with
    | .error e => .error e
    | .ok a =>
      match collectE f xs with
      | .error e => .error e
      | .ok b => .ok (a ++ b)

/-- `for piece in document.iter_…() { … }` -/
def overPieces (pieces : List Tok → List (List Tok)) (r : PieceRule) : PieceRule :=
  fun src toks => collectE (r src) (pieces toks)

/-- `for tok in document.tokens() { … }` (also `iter_numbers()`, `iter_ellipsiss()`: the kind test is
inside the per-token function) -/
def perTok (f : List Char → Tok → Except Panic (List RuleLint)) : PieceRule :=
  fun src toks => collectE (f src) toks

/-- `tuple_windows::<(_, _)>()` -/
def pairs {α} : List α → List (α × α)
  | a :: b :: r => (a, b) :: pairs (b :: r)
  | _ => []

/-- `tuple_windows::<(_, _, _, _)>()` -/
def quads {α} : List α → List (α × α × α × α)
  | p :: a :: b :: c :: r => (p, a, b, c) :: quads (a :: b :: c :: r)
  | _ => []

def hasFlag (env : Env) (src : List Char) (t : Tok) (bit : Nat) : Bool :=
  t.kind.isWord && (env.wordFlags (textOf src t.span) / 2 ^ bit) % 2 == 1

/-! ## LongSentences (per sentence) -/

def longThreshold : Nat := 40

def wordCount (sent : List Tok) : Nat := (sent.filter fun t => t.kind.isWord).length

/-- `sentence.iter().filter(|t| !t.span.is_empty())`, consumed to the end by `min` / `max`;
`is_empty` = `len() == 0` and `len` subtracts: `start > end` is an overflow panic -/
def coveringE : List Tok → Except Panic (List Tok)
  | [] => .ok []
  | t :: ts =>
    if t.span.start > t.span.stop then .error .underflow
    else
      match coveringE ts with
      | .error e => .error e
      | .ok r => .ok (if t.span.stop - t.span.start == 0 then r else t :: r)

def minStart : List Tok → Option Nat
  | [] => none
  | t :: ts =>
    match minStart ts with
    | none => some t.span.start
    | some m => some (min t.span.start m)

def maxStop : List Tok → Option Nat
  | [] => none
  | t :: ts =>
    match maxStop ts with
    | none => some t.span.stop
    | some m => some (max t.span.stop m)

def longSentencesPiece : PieceRule := fun _ sent =>
  let wc := wordCount sent
  if wc > longThreshold then
    match coveringE sent with
    | .error e => .error e
    | .ok cov =>
      match minStart cov, maxStop cov with
      | some s, some e =>
        match Span.new s e with
        | .error p => .error p
        | .ok sp => .ok [⟨sp, [], 1, wc⟩]
      | _, _ => .error .unwrapNone
  else .ok []

def ruleLongSentences (_env : Env) : PieceRule := overPieces iterSentences longSentencesPiece

/-! ## CurrencyPlacement (per chunk, then `remove_overlaps` on everything) -/

inductive Currency where
  | dollar | cent | euro | ruble | lira | pound | yen | baht | won | kip
  deriving Repr, DecidableEq, Inhabited

/-- the variants in the order of `Currency::from_char`'s arms (= `Tables.currencyChars`) -/
def allCurrencies : List Currency := [.dollar, .cent, .euro, .ruble, .lira, .pound, .yen, .baht, .won, .kip]

/-- `Currency::from_char` -/
def currencyOfChar (c : Char) : Option Currency :=
  (Tables.currencyChars.zip allCurrencies).lookup c.toNat

/-- `Currency::format_amount` (`c` = `to_char()`, the symbol itself) -/
def formatAmount (cur : Currency) (c : Char) (amount : List Char) : List Char :=
  match cur with
  | .dollar => c :: amount
  | .cent => amount ++ [c]
  | .euro => c :: amount
  | .ruble => amount ++ [' ', c]
  | .lira => amount ++ [' ', c]
  | .pound => c :: amount
  | .yen => c :: ' ' :: amount
  | .baht => amount ++ [' ', c]
  | .won => c :: ' ' :: amount
  | .kip => c :: amount

def isCurrency : Kind → Bool
  | .punct .Currency => true
  | _ => false

/-- `a.or(b)` on "is this token a …" -/
def firstOf (p : Kind → Bool) (a b : Tok) : Option Tok :=
  if p a.kind then some a else if p b.kind then some b else none

/-- `generate_lint_for_tokens(a, b, document)`. The `Currency` variant is part of the Rust token; the
model's `Kind.punct .Currency` does not carry it and reads the symbol under the token (the lexer
makes a Currency token only over a currency symbol; over anything else: nothing). -/
def currencyPair (env : Env) (src : List Char) (a b : Tok) : Except Panic (List RuleLint) :=
  match firstOf Kind.isPunctuation a b with
  | none => .ok []
  | some p =>
    if !isCurrency p.kind then .ok []
    else
      match (textOf src p.span).head? with
      | none => .ok []
      | some c =>
        match currencyOfChar c with
        | none => .ok []
        | some cur =>
          match firstOf Kind.isNumber a b with
          | none => .ok []
          | some n =>
            match Span.new a.span.start b.span.stop with
            | .error e => .error e
            | .ok sp =>
              let correct := formatAmount cur c (env.numStr (textOf src n.span))
              match sp.getContent src with
              | .error e => .error e
              | .ok actual =>
                if correct != actual then .ok [⟨sp, [.replaceWith correct], 2, 0⟩] else .ok []

/-- the body of the second loop: `(p, a, b, c)` -/
def currencyQuad (env : Env) (src : List Char) (q : Tok × Tok × Tok × Tok) : Except Panic (List RuleLint) :=
  if !q.2.2.1.kind.isWhitespace || isCurrency q.1.kind then .ok []
  else currencyPair env src q.2.1 q.2.2.2

/-- both loops over one chunk -/
def currencyChunk (env : Env) : PieceRule := fun src chunk =>
  match collectE (fun ab => currencyPair env src ab.1 ab.2) (pairs chunk) with
  | .error e => .error e
  | .ok l1 =>
    match collectE (currencyQuad env src) (quads chunk) with
    | .error e => .error e
    | .ok l2 => .ok (l1 ++ l2)

/-- everything pushed before `remove_overlaps` -/
def currencyCandidates (env : Env) : PieceRule := overPieces iterChunks (currencyChunk env)

/-- tag the `i`-th lint with its index, as the payload `Harper.removeOverlaps` carries around -/
def tagLints (i : Nat) : List RuleLint → List Lint
  | [] => []
  | l :: ls => ⟨l.span.start, l.span.stop, i⟩ :: tagLints (i + 1) ls

/-- `remove_overlaps(&mut lints)`: `Harper.removeOverlaps` (`Model/Overlaps.lean`) on the spans -/
def removeOverlapsRL (ls : List RuleLint) : List RuleLint :=
  (removeOverlaps (tagLints 0 ls)).filterMap fun l => ls[l.id]?

def ruleCurrencyPlacement (env : Env) : PieceRule := fun src toks =>
  (currencyCandidates env src toks).map removeOverlapsRL

/-- the seeded change `C12r2`: both windows slide over `document.tokens()` -/
def ruleCurrencyPlacementWholeDoc (env : Env) : PieceRule := fun src toks =>
  (currencyChunk env src toks).map removeOverlapsRL

/-! ## Spaces (per sentence) -/

def spaceCount : Kind → Option Nat
  | .space n => some n
  | _ => none

def spacesMulti (t : Tok) : List RuleLint :=
  match spaceCount t.kind with
  | some n => if n > 1 then [⟨t.span, [.replaceWith [' ']], 3, n⟩] else []
  | none => []

/-- `matches!(sentence, [.., Word, Space, Punctuation])` → `sentence[len-2..len-1].span().unwrap()` -/
def spacesTrailing (sent : List Tok) : Except Panic (List RuleLint) :=
  match sent.reverse with
  | p :: s :: w :: _ =>
    if w.kind.isWord && s.kind.isSpace && p.kind.isPunctuation then
      match spanOf [s] with
      | none => .error .unwrapNone
      | some sp => .ok [⟨sp, [.remove], 4, 0⟩]
    else .ok []
  | _ => .ok []

def spacesPiece : PieceRule := fun _ sent =>
  match spacesTrailing sent with
  | .error e => .error e
  | .ok tr => .ok (sent.flatMap spacesMulti ++ tr)

def ruleSpaces (_env : Env) : PieceRule := overPieces iterSentences spacesPiece

/-! ## RepeatedWords (per chunk) -/

/-- `CharStringExt::to_lower` -/
def toLower (env : Env) (cs : List Char) : List Char := cs.flatMap env.lower

/-- `tok_a.kind.is_preposition() || is_conjunction() || !is_likely_homograph() || is_special_case(word_a)` -/
def repeatCandidate (env : Env) (src : List Char) (a : Tok) (wa : List Char) : Bool :=
  hasFlag env src a 0 || hasFlag env src a 1 || !hasFlag env src a 2 || toLower env wa == ['t', 'h', 'i', 's']

/-- the body of the `while let` loop for the consecutive word tokens `a`, `t`; `onlyWs` = every token
of `chunk[idx_a + 1..idx_b]` is whitespace -/
def repeatedPair (env : Env) (src : List Char) (a : Tok) (onlyWs : Bool) (t : Tok) : Except Panic (List RuleLint) :=
  match a.span.getContent src with
  | .error e => .error e
  | .ok wa =>
    match t.span.getContent src with
    | .error e => .error e
    | .ok wb =>
      if repeatCandidate env src a wa && toLower env wa == toLower env wb then
        if !onlyWs then .ok []
        else
          match Span.new a.span.start t.span.stop with
          | .error e => .error e
          | .ok sp => .ok [⟨sp, [.replaceWith wa], 5, 0⟩]
      else .ok []

/-- the `while let` loop over consecutive word tokens of the chunk; `prev` = the previous word token
and whether every token since is whitespace -/
def repeatedGo (env : Env) (src : List Char) : Option (Tok × Bool) → List Tok → Except Panic (List RuleLint)
  | _, [] => .ok []
  | prev, t :: ts =>
    if t.kind.isWord then
      match prev with
      | none => repeatedGo env src (some (t, true)) ts
      | some (a, onlyWs) =>
        match repeatedPair env src a onlyWs t with
        | .error e => .error e
        | .ok l =>
          match repeatedGo env src (some (t, true)) ts with
          | .error e => .error e
          | .ok r => .ok (l ++ r)
    else
      repeatedGo env src (prev.map fun p => (p.1, p.2 && t.kind.isWhitespace)) ts

def repeatedWordsPiece (env : Env) : PieceRule := fun src chunk => repeatedGo env src none chunk

def ruleRepeatedWords (env : Env) : PieceRule := overPieces iterChunks (repeatedWordsPiece env)

/-! ## EllipsisLength (per ellipsis token) -/

def isEllipsis : Kind → Bool
  | .punct .Ellipsis => true
  | _ => false

/-- `Itertools::all_equal` -/
def allEqual : List Char → Bool
  | a :: b :: r => a == b && allEqual (b :: r)
  | _ => true

def ellipsisTok (src : List Char) (t : Tok) : Except Panic (List RuleLint) :=
  if !isEllipsis t.kind then .ok []
  else
    match t.span.getContent src with
    | .error e => .error e
    | .ok cs =>
      if cs.isEmpty then .ok []
      else if cs.head? == some '.' && allEqual cs && cs.length != 3 then
        .ok [⟨t.span, [.replaceWith ['.', '.', '.']], 6, 0⟩]
      else .ok []

def ruleEllipsisLength (_env : Env) : PieceRule := perTok ellipsisTok

/-! ## NumberSuffixCapitalization / CorrectNumberSuffix (per number token) -/

def numSuffix : Kind → Option (Option Suffix)
  | .number _ s => some s
  | _ => none

def numberSuffixCapTok (env : Env) (src : List Char) (t : Tok) : Except Panic (List RuleLint) :=
  match numSuffix t.kind with
  | none => .ok []
  | some none => .ok []
  | some (some _) =>
    -- `Span::new_with_len(end, 2).pulled_by(2).unwrap()`
    match suffixSpan t.span with
    | none => .error .unwrapNone
    | some sp =>
      match sp.getContent src with
      | .error e => .error e
      | .ok cs =>
        if cs.any (fun c => !env.isLower c) then .ok [⟨sp, [.replaceWith (cs.map lowerAscii)], 7, 0⟩]
        else .ok []

def ruleNumberSuffixCapitalization (env : Env) : PieceRule := perTok (numberSuffixCapTok env)

/-- `CorrectNumberSuffix`: the token-level model `lintNumber` of `Model/NumberSuffix.lean` on the
document's number tokens (value from `Env`) -/
def correctNumberSuffixTok (env : Env) (src : List Char) (t : Tok) : Except Panic (List RuleLint) :=
  match numSuffix t.kind with
  | none => .ok []
  | some sfx =>
    match lintNumber ⟨env.numVal (textOf src t.span), sfx, t.span⟩ with
    | none => .ok []
    | some l => .ok [⟨l.span, [.replaceWith l.replacement], 9, 0⟩]

def ruleCorrectNumberSuffix (env : Env) : PieceRule := perTok (correctNumberSuffixTok env)

/-! ## UnclosedQuotes (per token of the whole document) -/

def isOpenQuote : Kind → Bool
  | .quote none => true
  | _ => false

def unclosedQuoteTok (_src : List Char) (t : Tok) : Except Panic (List RuleLint) :=
  if isOpenQuote t.kind then .ok [⟨t.span, [], 8, 0⟩] else .ok []

def ruleUnclosedQuotes (_env : Env) : PieceRule := perTok unclosedQuoteTok

/-! ## ModalOf: `match_to_lint` and the pattern linter around it -/

def isAsciiUpper (c : Char) : Bool := 'A' ≤ c && c ≤ 'Z'
def upperAscii (c : Char) : Char := if 'a' ≤ c && c ≤ 'z' then Char.ofNat (c.toNat - 32) else c

/-- `Suggestion::replace_with_match_case(value, template)` -/
def matchCase (env : Env) : List Char → List Char → List Char
  | v :: vs, t :: ts =>
    (if isAsciiUpper v != isAsciiUpper t then (if env.isUpper t then upperAscii v else lowerAscii v) else v)
      :: matchCase env vs ts
  | vs, [] => vs
  | [], _ :: _ => []

/-- what `match matched_toks.len() { … }` yields: the index of the modal, or "no lint" -/
def modalIndex (env : Env) (src : List Char) (m : List Tok) : Except Panic (Option Nat) :=
  if m.length = 3 then .ok (some 0)
  else if m.length = 5 then
    match m.getLast?, m.head? with
    | some w3, some w1 =>
      match w3.span.getContent src with
      | .error e => .error e
      | .ok cs =>
        if cs != ['o', 'f'] then .ok none
        else if hasFlag env src w1 3 || hasFlag env src w1 4 then .ok none
        else .ok (some 2)
    | _, _ => .error .unwrapNone
  else .ok none   -- 7, and "whitespace made of several tokens"

/-- `ModalOf::match_to_lint(matched_toks, source)` -/
def modalOfMatch (env : Env) (src : List Char) (m : List Tok) : Except Panic (List RuleLint) :=
  match modalIndex env src m with
  | .error e => .error e
  | .ok none => .ok []
  | .ok (some i) =>
    match sliceE m i (i + 3) with
    | .error e => .error e
    | .ok sub =>
      match spanOf sub with
      | none => .error .unwrapNone
      | some sp =>
        match m[i]? with
        | none => .error .sliceOOB
        | some modal =>
          match modal.span.getContent src with
          | .error e => .error e
          | .ok mc =>
            match sp.getContent src with
            | .error e => .error e
            | .ok tpl => .ok [⟨sp, [.replaceWith (matchCase env (mc ++ [' ', 'h', 'a', 'v', 'e']) tpl)], 10, 0⟩]

def modalWords : List (List Char) :=
  let ms : List (List Char) := [['c', 'o', 'u', 'l', 'd'], ['m', 'i', 'g', 'h', 't'], ['m', 'u', 's', 't'],
    ['s', 'h', 'o', 'u', 'l', 'd'], ['w', 'o', 'u', 'l', 'd']]
  ms ++ ms.map (· ++ ['n', '\'', 't'])

/-- the pattern of `ModalOf::default()`, from the combinators of `Model/Condense.lean` -/
def modalOfPat : Matcher :=
  let modalOf := seqPat [wordSetAtom modalWords, whitespaceAtom, anyCapAtom ['o', 'f']]
  let wsCourse := seqPat [whitespaceAtom, anyCapAtom ['c', 'o', 'u', 'r', 's', 'e']]
  let anywordMightOf := seqPat [kindAtom Kind.isWord, whitespaceAtom, anyCapAtom ['m', 'i', 'g', 'h', 't'],
    whitespaceAtom, anyCapAtom ['o', 'f']]
  eitherPat [seqPat [anywordMightOf, wsCourse], seqPat [modalOf, wsCourse], anywordMightOf, modalOf]

/-- `run_on_chunk`: `skip` = tokens the cursor jumps over after a match -/
def runOnChunkGo (m : Matcher) (f : List Char → List Tok → Except Panic (List RuleLint)) (src : List Char) :
    Nat → List Tok → Except Panic (List RuleLint)
  | _, [] => .ok []
  | skip + 1, _ :: ts => runOnChunkGo m f src skip ts
  | 0, t :: ts =>
    match m src (t :: ts) with
    | .error e => .error e
    | .ok n =>
      if n = 0 then runOnChunkGo m f src 0 ts
      else if n > (t :: ts).length then .error .sliceOOB
      else
        match f src ((t :: ts).take n) with
        | .error e => .error e
        | .ok l =>
          match runOnChunkGo m f src (n - 1) ts with
          | .error e => .error e
          | .ok r => .ok (l ++ r)

def modalOfPiece (env : Env) : PieceRule := fun src chunk => runOnChunkGo modalOfPat (modalOfMatch env) src 0 chunk

def ruleModalOf (env : Env) : PieceRule := overPieces iterChunks (modalOfPiece env)

/-! ## AnA (per chunk) -/

/-- `to_lower_word`: lower-cased only if some character is upper case -/
def toLowerWord (env : Env) (w : List Char) : List Char :=
  if w.any env.isUpper then w.flatMap env.lower else w

/-- `starts_with_vowel` (an_a.rs), arm by arm -/
def startsWithVowel (env : Env) (word : List Char) : Bool :=
  if word.all env.isUpper && !word.isEmpty then
    match word.head? with
    | some c => ['A', 'E', 'F', 'H', 'I', 'L', 'M', 'N', 'O', 'R', 'S', 'X'].contains c
    | none => false
  else
    let w := toLowerWord env word
    if (match w with
        | [] => true
        | 'u' :: 'k' :: _ => true
        | 'e' :: 'u' :: 'p' :: 'h' :: _ => true
        | 'e' :: 'u' :: 'g' :: _ => true
        | 'e' :: 'u' :: 'l' :: _ => true
        | 'e' :: 'u' :: 'c' :: _ => true
        | ['o', 'n', 'e'] => true
        | ['o', 'n', 'c', 'e'] => true
        | _ => false) then false
    else if (match w with
        | 'h' :: 'o' :: 'u' :: 'r' :: _ => true
        | 'h' :: 'o' :: 'n' :: _ => true
        | 'u' :: 'n' :: 'i' :: 'n' :: _ => true
        | 'u' :: 'n' :: 'i' :: 'm' :: _ => true
        | 'u' :: 'n' :: 'a' :: _ => true
        | 'u' :: 'n' :: 'u' :: _ => true
        | 'h' :: 'e' :: 'r' :: 'b' :: _ => true
        | 'u' :: 'r' :: 'b' :: _ => true
        | 'i' :: 'n' :: 't' :: _ => true
        | _ => false) then true
    else if (match w with
        | 'u' :: c2 :: c3 :: _ => (c2 == 'n' || c2 == 's') && (c3 == 'i' || c3 == 'a' || c3 == 'u')
        | _ => false) then false
    else if (match w with
        | 'u' :: 'n' :: _ => true
        | _ => false) then true
    else if (match w with
        | 'u' :: 'r' :: 'g' :: _ => true
        | _ => false) then true
    else if (match w with
        | 'u' :: c2 :: _ => c2 == 't' || c2 == 'r' || c2 == 'n' || c2 == 'w'
        | _ => false) ||
        (match w with
        | 'e' :: 'u' :: 'r' :: _ => true
        | 'u' :: 's' :: 'e' :: _ => true
        | _ => false) then false
    else if (match w with
        | 'o' :: 'n' :: 'e' :: c4 :: c5 :: _ =>
          (c4 == 'a' || c4 == 'e' || c4 == 'i' || c4 == 'u') && (c5 == 'l' || c5 == 'd')
        | _ => false) then true
    else if (match w with
        | 'o' :: 'n' :: 'e' :: c4 :: _ => c4 == 'a' || c4 == 'e' || c4 == 'i' || c4 == 'u' || c4 == '-' || c4 == 's'
        | _ => false) then false
    else if (match w with
        | ['s', 'o', 's'] => true
        | 'r' :: 'z' :: _ => true
        | 'n' :: 'g' :: _ => true
        | 'n' :: 'v' :: _ => true
        | ['x'] => true
        | ['x', 'b', 'o', 'x'] => true
        | 'h' :: 'e' :: 'i' :: 'r' :: _ => true
        | 'h' :: 'o' :: 'n' :: 'o' :: 'r' :: _ => true
        | _ => false) then true
    else if (match w with
        | 'j' :: c2 :: 'n' :: _ => c2 == 'u' || c2 == 'o'
        | _ => false) ||
        (match w with
        | 'j' :: 'u' :: 'r' :: c4 :: _ => c4 == 'a' || c4 == 'i' || c4 == 'o'
        | _ => false) then false
    else if (match w with
        | 'x' :: c2 :: _ => c2 == '-' || c2 == '\'' || c2 == '.' || c2 == 'o' || c2 == 's'
        | _ => false) then true
    else
      match w with
      | c :: _ => c == 'a' || c == 'e' || c == 'i' || c == 'o' || c == 'u'
      | [] => false

def isUnlintable : Kind → Bool
  | .unlintable => true
  | _ => false

/-- `TokenKind::is_word_like` -/
def isWordLike : Kind → Bool
  | .word => true
  | .email => true
  | .hostname => true
  | .decade => true
  | .number _ _ => true
  | _ => false

/-- the loop body for two consecutive word tokens with nothing word-like or unlintable between -/
def anaPair (env : Env) (src : List Char) (first second : Tok) : Except Panic (List RuleLint) :=
  match first.span.getContent src with
  | .error e => .error e
  | .ok cf =>
    match second.span.getContent src with
    | .error e => .error e
    | .ok cs =>
      -- `.split(|c| !c.is_alphanumeric()).next()`: the first segment (always present)
      let cs' := cs.takeWhile env.isAlnum
      let isAAn : Option Bool :=
        if cf == ['a'] || cf == ['A'] then some true
        else if cf == ['a', 'n'] || cf == ['A', 'n'] then some false
        else none
      match isAAn with
      | none => .ok []
      | some aAn =>
        if aAn != !startsWithVowel env cs' then
          .ok [⟨first.span, [.replaceWith (matchCase env (if aAn then ['a', 'n'] else ['a']) cf)], 11, 0⟩]
        else .ok []

/-- `for (first_idx, second_idx) in chunk.iter_word_indices().tuple_windows()`; `prev` = the previous
word token and whether a word-like or unlintable token has been seen since -/
def anaGo (env : Env) (src : List Char) : Option (Tok × Bool) → List Tok → Except Panic (List RuleLint)
  | _, [] => .ok []
  | prev, t :: ts =>
    if t.kind.isWord then
      match prev with
      | none => anaGo env src (some (t, false)) ts
      | some (a, blocked) =>
        match (if blocked then .ok [] else anaPair env src a t) with
        | .error e => .error e
        | .ok l =>
          match anaGo env src (some (t, false)) ts with
          | .error e => .error e
          | .ok r => .ok (l ++ r)
    else
      anaGo env src (prev.map fun p => (p.1, p.2 || isUnlintable t.kind || isWordLike t.kind)) ts

def anaPiece (env : Env) : PieceRule := fun src chunk => anaGo env src none chunk

def ruleAnA (env : Env) : PieceRule := overPieces iterChunks (anaPiece env)

/-! ## SentenceCapitalization (per paragraph, then per sentence) -/

/-- `is_full_sentence`: some word is a nominal and some word is a verb -/
def isFullSentence (env : Env) (src : List Char) (sent : List Tok) : Bool :=
  sent.any (fun t => hasFlag env src t 6) && sent.any (fun t => hasFlag env src t 7)

/-- "Skip if it's a proper noun or contains uppercase letters before a separator": only when the
dictionary knows a capitalisation of the word -/
def capSkip (env : Env) (src : List Char) (fw : Tok) (wc : List Char) : Bool :=
  match env.canonical wc with
  | some canon =>
    hasFlag env src fw 5 ||
      ((canon.drop 1).takeWhile fun c => !env.isWs c && c != '-' && c != '\'').any env.isUpper
  | none => false

/-- the body of `for sentence in paragraph.iter_sentences()` -/
def sentCapSentence (env : Env) (src : List Char) (sent : List Tok) : Except Panic (List RuleLint) :=
  if !isFullSentence env src sent then .ok []
  else
    match sent.find? (fun t => !t.kind.isWhitespace) with   -- `first_non_whitespace`
    | none => .ok []
    | some fw =>
      if !fw.kind.isWord then .ok []
      else
        match fw.span.getContent src with
        | .error e => .error e
        | .ok wc =>
          match wc.head? with
          | none => .ok []
          | some c =>
            if env.isAlpha c && !env.isUpper c && !capSkip env src fw wc then
              .ok [⟨fw.span.withLen 1, [.replaceWith [upperAscii c]], 12, 0⟩]
            else .ok []

/-- "Allows short, label-like comments in code": the paragraph is a single sentence none of whose
chunks has more than five words -/
def shortLabel (par : List Tok) : Bool :=
  if (iterSentences par).length == 1 then
    match (iterSentences par).head? with
    | some only => !(iterChunks only).any (fun c => decide (wordCount c > 5))
    | none => false
  else false

def sentCapParagraph (env : Env) : PieceRule := fun src par =>
  if shortLabel par then .ok [] else collectE (sentCapSentence env src) (iterSentences par)

def ruleSentenceCapitalization (env : Env) : PieceRule := overPieces iterParagraphs (sentCapParagraph env)

/-! ## the table the driver dispatches on -/

def ruleByName (name : String) : Option (Env → PieceRule) :=
  match name with
  | "LongSentences" => some ruleLongSentences
  | "CurrencyPlacement" => some ruleCurrencyPlacement
  | "Spaces" => some ruleSpaces
  | "RepeatedWords" => some ruleRepeatedWords
  | "EllipsisLength" => some ruleEllipsisLength
  | "NumberSuffixCapitalization" => some ruleNumberSuffixCapitalization
  | "CorrectNumberSuffix" => some ruleCorrectNumberSuffix
  | "UnclosedQuotes" => some ruleUnclosedQuotes
  | "ModalOf" => some ruleModalOf
  | "AnA" => some ruleAnA
  | "SentenceCapitalization" => some ruleSentenceCapitalization
  | _ => none

end Harper.Rules
