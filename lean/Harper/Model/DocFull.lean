import Harper.Model.Condense
import Harper.Model.LexExt
/-!
# `Document::new(text, &PlainEnglish, _)`, table-free

`Harper.document cls ext src` (`Model/Condense.lean`) takes the answers of `lex_url`,
`lex_email_address`, `lex_hostname_token` as a parameter `ext` (driver op `doc`: the harness hands
the real lexers' tokens over). `documentFull` is the same pipeline with the table computed by the
model's own three lexers (`extOfSrc`, `Model/LexExt.lean`): `PlainEnglish::parse` as
`parsePlainFull`, then every condensing pass of `Document::parse`. Nothing is handed over but the
text and the Unicode class of each of its characters. Driver op `docfull`
(`Driver/LexExt.lean`); theorems `C02.documentFull_tiles`, `C02.documentFull_inbounds_sorted`.
-/
namespace Harper

/-- `Document::new(text, &PlainEnglish, _).get_tokens()` with every lexer modelled -/
def documentFull (cls : Cls) (src : List Char) : Except Panic (List Tok) :=
  document cls (extOfSrc src) src

end Harper
