import Harper.Model.Rules
import Harper.Model.Spell
import Harper.Model.LintGroup
/-!
# `SpellCheck` as a rule (harper-core/src/linting/spell_check.rs)

```
for word in document.iter_words() {
    let word_chars = document.get_span_content(&word.span);
    if let Some(metadata) = word.kind.as_word().unwrap() {
        if metadata.dialect.is_none_or(|d| d == self.dialect)
            && (self.dictionary.contains_exact_word(word_chars) || self.dictionary.contains_exact_word(&word_chars.to_lower())) { continue; }
    };
    let mut possibilities = self.cached_suggest_correct_spelling(word_chars);
    if possibilities.len() > 3 { possibilities.resize_with(3, || panic!()); }
    if let Some(mis_f) = word_chars.first() { if mis_f.is_uppercase() { /* first letter of every suggestion: to_uppercase().next().unwrap() */ } }
    … Lint { span: word.span, lint_kind: Spelling, suggestions: ReplaceWith(..) each, message, priority: 63 }
}
```

The three subsystems this rule is made of have their own models: the accept / flag decision over a dictionary (`Model/Spell.lean`,
C06), the fuzzy search (`Model/Dict.lean`, `Model/EditDistance.lean`, C15), the LRU `word_cache` (`Model/LintGroup.lean`, C05).
Here they are COMPOSED into the rule. What the dictionary answers about one word text is data (`WordData`): whether the token
carries metadata, whether its dialect tag admits the active dialect, the two `contains_exact_word` answers, and the result of the
UNCACHED `cached_suggest_correct_spelling` (back-off search `dist = 2, 3, 4` + dialect filter; `none` = its `unwrap` panics on a
fuzzy result the dictionary does not know). `accepted` is the `continue` condition (`Lemmas/SpellRule.lean`: it is `Spell.accept`
when the data come from a `Spell` dictionary); `postProcess` is `Spell.suggestions` after the dialect filter.

* `ruleSpellCheck senv` — the rule without a cache, a `PieceRule` (`perTok`);
* `spellGo senv key cap src st toks` — `SpellCheck::lint` of an instance whose `word_cache` is `st` (capacity `cap`; 10000 in the
  code), returning the lints (or the panic) AND the cache it leaves behind. `key` is what the cache is keyed by: the word itself in
  the code (`spellCheckLint` = `key := id`); the seeded change C12r3 keys by the lower-cased word.
* `spellSession` — one long-lived instance linting several documents in turn.

Message code 60; argument 1 = exactly one suggestion (`Did you mean “…”?`), 0 otherwise (`Did you mean to spell “…” this way?`).
-/
namespace Harper.SpellRule
open Harper Harper.Rules

/-- what `SpellCheck` learns from the token and the dictionary about one word text -/
structure WordData where
  /-- the token is `Word(Some(metadata))` -/
  known : Bool
  /-- `metadata.dialect.is_none_or(|d| d == self.dialect)` -/
  dialectOk : Bool
  /-- `dictionary.contains_exact_word(word)` -/
  exact : Bool
  /-- `dictionary.contains_exact_word(&word.to_lower())` -/
  exactLower : Bool
  /-- the uncached search: back-off `suggest_correct_spelling(word, 100, dist, ..)` for `dist = 2, 3, 4` until non-empty, then the
  dialect filter; `none` = `get_word_metadata(v).unwrap()` panics -/
  suggest : Option (List (List Char))
  deriving Repr, DecidableEq, Inhabited

structure SpellEnv where
  data : List Char → WordData
  /-- `char::is_uppercase` -/
  isUpper : Char → Bool
  /-- `c.to_uppercase().next().unwrap()` -/
  upperFirst : Char → Char

/-- the `continue` condition -/
def accepted (d : WordData) : Bool := d.known && d.dialectOk && (d.exact || d.exactLower)

/-- `*sug_f = sug_f.to_uppercase().next().unwrap()` on `w.first_mut()` -/
def capitaliseFirst (up : Char → Char) : List Char → List Char
  | [] => []
  | c :: cs => up c :: cs

/-- what is done to a CLONE of the cached vector: at most three, capitalised when the misspelt word is -/
def postProcess (senv : SpellEnv) (w : List Char) (sg : List (List Char)) : List (List Char) :=
  let top := sg.take 3
  match w with
  | c :: _ => if senv.isUpper c then top.map (capitaliseFirst senv.upperFirst) else top
  | [] => top

def spellLintOf (senv : SpellEnv) (sp : Span) (w : List Char) (sg : List (List Char)) : RuleLint :=
  let out := postProcess senv w sg
  ⟨sp, out.map Sugg.replaceWith, 60, if out.length = 1 then 1 else 0⟩

/-- the loop body for one token, without the cache -/
def spellTok (senv : SpellEnv) (src : List Char) (t : Tok) : Except Panic (List RuleLint) :=
  if !t.kind.isWord then .ok []
  else
    match t.span.getContent src with
    | .error e => .error e
    | .ok w =>
      if accepted (senv.data w) then .ok []
      else
        match (senv.data w).suggest with
        | none => .error .unwrapNone
        | some sg => .ok [spellLintOf senv t.span w sg]

/-- **SpellCheck without its cache** -/
def ruleSpellCheck (senv : SpellEnv) : PieceRule := perTok (spellTok senv)

/-! ## with the `word_cache` -/

/-- `LruCache<CharString, Vec<CharString>>`, most recently used first -/
abbrev WordCache := LG.Lru (List Char) (List (List Char))

/-- `cached_suggest_correct_spelling`: a hit is promoted and returned; a miss computes, `put`s and returns. The result and the
cache afterwards (unchanged when the search panics). -/
def cachedSuggest (senv : SpellEnv) (key : List Char → List Char) (cap : Nat) (w : List Char) (st : WordCache) :
    Except Panic (List (List Char)) × WordCache :=
  match LG.Lru.get (key w) st with
  | some (v, st') => (.ok v, st')
  | none =>
    match (senv.data w).suggest with
    | none => (.error .unwrapNone, st)
    | some v => (.ok v, LG.Lru.put cap (key w) v st)

/-- `SpellCheck::lint`: the lints (or the panic) and the cache it leaves behind -/
def spellGo (senv : SpellEnv) (key : List Char → List Char) (cap : Nat) (src : List Char) :
    WordCache → List Tok → Except Panic (List RuleLint) × WordCache
  | st, [] => (.ok [], st)
  | st, t :: ts =>
    if !t.kind.isWord then spellGo senv key cap src st ts
    else
      match t.span.getContent src with
      | .error e => (.error e, st)
      | .ok w =>
        if accepted (senv.data w) then spellGo senv key cap src st ts
        else
          match cachedSuggest senv key cap w st with
          | (.error e, st1) => (.error e, st1)
          | (.ok sg, st1) =>
            let r := spellGo senv key cap src st1 ts
            (r.1.map (spellLintOf senv t.span w sg :: ·), r.2)

/-- the code: the cache is keyed by the word's exact characters -/
def spellCheckLint (senv : SpellEnv) (cap : Nat) (st : WordCache) (src : List Char) (toks : List Tok) :
    Except Panic (List RuleLint) × WordCache := spellGo senv id cap src st toks

/-- one long-lived `SpellCheck` linting several documents in turn -/
def spellSession (senv : SpellEnv) (key : List Char → List Char) (cap : Nat) :
    WordCache → List (List Char × List Tok) → List (Except Panic (List RuleLint))
  | _, [] => []
  | st, d :: ds =>
    let r := spellGo senv key cap d.1 st d.2
    r.1 :: spellSession senv key cap r.2 ds

end Harper.SpellRule
