import Harper.Basic.Span
import Harper.Basic.Suffix
import Harper.Tables.NumberSuffix
/-!
# Ordinal suffixes: `NumberSuffix` (number.rs), the suffix step of
`Document::condense_number_suffixes` (document.rs) and the rule `CorrectNumberSuffix`
(linting/correct_number_suffix.rs)

Everything table-shaped (`correct_suffix_for`'s arms, `from_chars`' rows, `to_chars`) is NOT written
here: it is read from `Harper.Tables.NumberSuffix`, which `tools/tables.py` regenerates from the
Rust source on every run. The functions below are the control flow around those tables.

**Values.** `Number.value` is an `f64`. `correct_suffix_for` returns `None` when the value is
negative, has a fractional part `> f64::EPSILON`, or exceeds `u64::MAX`; otherwise it converts with
`number as u64` (exact for every integer-valued `f64` in range) and does integer arithmetic.
The model does the arithmetic on `Nat` and represents the value as `NumVal`:
`int n` — the literal denotes the natural number `n` and the `f64` holds it exactly (true for all
decimal digit strings with value `< 2^53`, monitored by the harness); `nonInt` — a value rejected by
the guard (e.g. the literal `3.5`). Naturals `≥ 2^53` are rounded by `str::parse::<f64>` before the
rule sees them and are outside the model (and outside property C17).
-/
namespace Harper
open Harper.Tables.NumberSuffix

/-! ### `NumberSuffix` -/

/-- `match integer % 10 { … }`: first arm whose pattern is `d`, else the `_` arm -/
def lastDigitLookup (d : Nat) : Option Suffix :=
  match lastDigitArms.lookup d with
  | some r => r
  | none => lastDigitDefault

/-- `NumberSuffix::correct_suffix_for` after `let integer = number as u64` -/
def correctSuffixFor (n : Nat) : Option Suffix :=
  let r := n % teensMod
  if teensLo ≤ r ∧ r ≤ teensHi then teensResult
  else lastDigitLookup (n % lastDigitMod)

/-- value of a `Number` token as `correct_suffix_for` sees it -/
inductive NumVal where
  | int (n : Nat)   -- an integer-valued, exactly represented, non-negative `f64 ≤ u64::MAX`
  | nonInt          -- rejected by the guard (fractional part `> EPSILON`, negative, `> u64::MAX`)
  deriving Repr, DecidableEq, Inhabited

/-- `NumberSuffix::correct_suffix_for(value)` -/
def correctSuffixForVal : NumVal → Option Suffix
  | .int n => correctSuffixFor n
  | .nonInt => none

/-- the row of `from_chars`' match for `(a, b)` (first match wins), `_ => None` -/
def fromCharsRow (a b : Char) : Option Suffix :=
  (fromCharsRows.find? (fun r => r.1 == a && r.2.1 == b)).map (·.2.2)

/-- `NumberSuffix::from_chars`: length guard, then `(chars[0], chars[1])` (indexing panics if the
guard were weaker than 2) -/
def fromChars (cs : List Char) : Except Panic (Option Suffix) :=
  if cs.length < fromCharsMinLen then .ok none
  else match cs with
    | a :: b :: _ => .ok (fromCharsRow a b)
    | _ => .error .sliceOOB

/-- `NumberSuffix::to_chars` (the Rust match is exhaustive; the extractor checks every variant has
exactly one row) -/
def toChars (s : Suffix) : List Char :=
  match toCharsRows.lookup s with
  | some cs => cs
  | none => []

/-! ### `Document::condense_number_suffixes`, for one `Number` token followed by one `Word` token -/

/-- the suffix a `Number` token acquires from the `Word` token `w` directly after it
(`if b.span.len() != 2 { continue }`, then `from_chars`); `none` = not condensed -/
def condenseSuffix (w : List Char) : Except Panic (Option Suffix) :=
  if w.length ≠ 2 then .ok none else fromChars w

/-! ### `CorrectNumberSuffix::lint` -/

/-- a `Number` token: what the rule reads of it -/
structure NumTok where
  value : NumVal
  suffix : Option Suffix
  span : Span
  deriving Repr, DecidableEq

/-- a lint of this rule: its span and the characters of its only suggestion `ReplaceWith(..)` -/
structure SuffixLint where
  span : Span
  replacement : List Char
  deriving Repr, DecidableEq

/-- `Span::new_with_len(tok.span.end, 2).pulled_by(2)` -/
def suffixSpan (tok : Span) : Option Span :=
  (Span.withLen ⟨tok.stop, tok.stop⟩ 2).pulledBy 2

/-- the loop body of `CorrectNumberSuffix::lint` for one number token -/
def lintNumber (t : NumTok) : Option SuffixLint :=
  match suffixSpan t.span with
  | none => none
  | some sp =>
    match t.suffix with
    | none => none
    | some s =>
      match correctSuffixForVal t.value with
      | none => none
      | some c => if s ≠ c then some ⟨sp, toChars c⟩ else none

/-- `CorrectNumberSuffix::lint` over the document's number tokens, in order -/
def lintNumbers (ts : List NumTok) : List SuffixLint := ts.filterMap lintNumber

/-- The rule on a written ordinal: a number literal with value `v` occupying, together with the
word `w` directly after it, the span `sp` (`sp.stop` = end of `w`). `w` is condensed into the
number token exactly when `condenseSuffix` says so; otherwise the number token has no suffix (and
ends before `w` — immaterial, a token without suffix is never reported). -/
def ruleOnWritten (v : NumVal) (w : List Char) (sp : Span) : Except Panic (Option SuffixLint) :=
  match condenseSuffix w with
  | .error p => .error p
  | .ok sfx => .ok (lintNumber ⟨v, sfx, sp⟩)

end Harper
