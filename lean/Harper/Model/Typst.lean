import Harper.Basic.Token
import Harper.Model.Mask
import Harper.Model.LexExt
import Harper.Model.Markdown
/-!
# The Typst front-end's own logic (`harper-typst/src/{lib.rs, typst_translator.rs, offset_cursor.rs}`)
# and the `Space` clamp of `harper-html/src/lib.rs`

typst-syntax's tree is DATA. A `TNode` is what the translator sees of one syntax node: which `match`
arm of `parse_expr` / `parse_pattern` it takes, the byte range `doc.range(node.span())` gives for it
(`none` for a detached / synthesised node: `unwrap_or_default()` placeholders), the node's own text
where the translator reads it (`Text::get`, `Str`'s `to_untyped().text()`, `Named::name().as_str()`),
and — as children — exactly the results of the accessors that arm calls, in the order it calls them
(`FuncCall`: `callee()`, `args().items()`; `LetBinding`: `kind()`, `init()`; `Named`: `name()`,
`expr()`; `Parenthesized` pattern: `expr()`, `pattern()`; …). Every accessor result is a subtree of
its own: when two accessors of typst-syntax fall back to the same child (`Named::expr()` is
`cast_last_match`, `name()` is `cast_first_match`: for `lang:` they are the same identifier), the
subtree simply occurs twice, and the model — like the translator — translates it twice.

Modelled, arm by arm: `Typst::parse` (`convert_parbreaks`, the `filter_map` over the top-level
expressions, a fresh cursor per expression), `parse_expr`, `parse_pattern`, `parse_ident`,
`parse_spread`, the closures `iter_recurse`, `parse_params`, `parse_args`, `parse_func_call` /
`parse_args_ignored`, `parse_english` (inner tokens shifted by `offset.char`), the macros
`def_token!` (`?` on a `None` range leaves the ENCLOSING function or closure with `None`),
`merge!` (flatten the `Some`s), `get_text!` (the empty text for a node without a readable range),
`OffsetCursor::{push_to, push_to_span}` (`Model/Mask.lean`: `Cursor.pushTo`).

Panics are values: `push_to`'s `assert!` and its `doc.get(..).unwrap()`,
`chars.next().unwrap()` of the `Space` arm, `&string[1..string.len() - 1]` of the `Str` arm.
The inner parser is a parameter (`PlainEnglish` = `parsePlainFull cls` in the driver).

`None` versus `Some(vec![])`: no caller of `parse_expr` / `parse_pattern` distinguishes them
(`merge!`, `filter_map(..).flatten()`, `and_then`), so where the Rust code returns the `Option` of a
single recursion directly (`recurse!(x)`, `opt.and_then(|e| recurse!(e))`, `parse_spread`) and
where it wraps several in `merge!`, the list-valued helpers below are used for both.
-/
namespace Harper.Typst
open Harper

/-- `doc.range(span)`: the byte range of the node carrying that span, `none` for a detached one -/
abbrev BRange := Option (Nat × Nat)

/-- the arms of `parse_expr` that are one `token!` over the node's own range -/
inductive LeafKind where
  /-- `Expr::Linebreak` → `Newline(1)` -/
  | linebreak
  /-- `Expr::Parbreak` → `ParagraphBreak` -/
  | parbreak
  /-- `Expr::SmartQuote` with `double()` → `Punctuation(Quote { twin_loc: None })` -/
  | quoteDouble
  /-- `Expr::SmartQuote`, single → `Punctuation(Apostrophe)` -/
  | quoteSingle
  /-- `Expr::Link` → `Url` -/
  | link
  /-- the default arm `a => token!(a, Unlintable)`: Escape, Shorthand, Raw, Label, Ref, Equation,
  Math*, Ident, None, Auto, Bool, Int, Float, Numeric, Unary, Binary, Import, Include, Break,
  Continue, Return -/
  | other
  deriving Repr, DecidableEq

/-- the arms that are `iter_recurse(&mut x.body().exprs())` -/
inductive BodyKind where
  | strong | emph | heading | list | enum
  /-- `term().exprs().chain(description().exprs())` -/
  | term
  | content | code
  deriving Repr, DecidableEq

/-- the arms that are `recurse!(x)` of one accessor -/
inductive Rec1Kind where
  | parenthesized | destructAssign | contextual
  deriving Repr, DecidableEq

/-- the arms that are a `merge!` of recursions only: `While` (condition, body), `For` (iterable,
body), `Conditional` (condition, if_body, else_body?), `Show` (transform, selector? — in THAT
order) -/
inductive RecKind where
  | whileLoop | forLoop | conditional | showRule
  deriving Repr, DecidableEq

mutual
/-- one syntax node as the translator sees it (expression view, or pattern view for the last
three constructors) -/
inductive TNode where
  /-- `Expr::Text`: `text.get()` -/
  | text (r : BRange) (txt : List Char)
  /-- `Expr::Space` -/
  | space (r : BRange)
  | leaf (k : LeafKind) (r : BRange)
  | body (k : BodyKind) (r : BRange) (exprs : TNodes)
  /-- `Expr::Str`: `text.to_untyped().text()` (with its quotes) -/
  | str (r : BRange) (txt : List Char)
  | rec1 (k : Rec1Kind) (r : BRange) (e : TNode)
  | recN (k : RecKind) (r : BRange) (es : TNodes)
  /-- `Expr::Array`: `items()` -/
  | array (r : BRange) (items : TItems)
  /-- `Expr::Dict`: `items()` -/
  | dict (r : BRange) (items : TItems)
  /-- `Expr::FieldAccess`: `target()`, the range of `field()` -/
  | fieldAccess (r : BRange) (target : TNode) (field : BRange)
  /-- `Expr::Let`: `kind()` (a pattern view, or `letClosure`), `init()` (0 or 1) -/
  | letBinding (r : BRange) (kind : TNode) (init : TNodes)
  /-- `LetBindingKind::Closure(ident)`: "The closure in `init` yields its own name." -/
  | letClosure (ident : BRange)
  /-- `Expr::Set`: `target()`, `condition()` (0 or 1), `args().items()` -/
  | setRule (r : BRange) (target : TNode) (cond : TNodes) (args : TItems)
  /-- `Expr::Closure`: `name()` (0 or 1, as `Expr::Ident`), `params().children()`, `body()` -/
  | closure (r : BRange) (name : TNodes) (params : TItems) (body : TNode)
  /-- `Expr::FuncCall`: the range of `callee()`, `args().items()` -/
  | funcCall (r : BRange) (callee : BRange) (args : TItems)
  /-- `Pattern::Placeholder` -/
  | patPlaceholder (r : BRange)
  /-- `Pattern::Parenthesized`: `expr()`, `pattern()` (both `cast_first_match`) -/
  | patParen (r : BRange) (e : TNode) (p : TNode)
  /-- `Pattern::Destructuring`: `items()` -/
  | patDestruct (r : BRange) (items : TItems)
inductive TNodes where
  | nil
  | cons (n : TNode) (ns : TNodes)
/-- `Arg` / `Param` / `ArrayItem` / `DictItem` / `DestructuringItem` -/
inductive TItem where
  /-- `Arg::Pos(expr)`, `ArrayItem::Pos(expr)`, `Param::Pos(pattern)`,
  `DestructuringItem::Pattern(pattern)`: the node in the view the closure uses -/
  | pos (n : TNode)
  /-- `Arg | Param | DictItem ::Named`: `name()` as `Expr::Ident`, `name().as_str()`, `expr()` -/
  | named (r : BRange) (name : TNode) (nameTxt : List Char) (value : TNode)
  /-- `DestructuringItem::Named`: the range of `name()`, `pattern()` -/
  | dnamed (r : BRange) (name : BRange) (pat : TNode)
  /-- `DictItem::Keyed`: `key()`, `expr()` -/
  | keyed (r : BRange) (key : TNode) (value : TNode)
  /-- `Spread`: `[expr()]` in arguments, parameters and dictionaries (`parse_spread`),
  `sink_expr()` (0 or 1) in a destructuring, nothing in an array (no accessor is called) -/
  | spread (r : BRange) (es : TNodes)
inductive TItems where
  | nil
  | cons (i : TItem) (is : TItems)
end

def TNodes.ofList : List TNode → TNodes
  | [] => .nil
  | n :: ns => .cons n (TNodes.ofList ns)

def TItems.ofList : List TItem → TItems
  | [] => .nil
  | i :: is => .cons i (TItems.ofList is)

def TNode.range : TNode → BRange
  | .text r _ => r | .space r => r | .leaf _ r => r | .body _ r _ => r | .str r _ => r
  | .rec1 _ r _ => r | .recN _ r _ => r | .array r _ => r | .dict r _ => r
  | .fieldAccess r _ _ => r | .letBinding r _ _ => r | .letClosure r => r | .setRule r _ _ _ => r
  | .closure r _ _ _ => r | .funcCall r _ _ => r | .patPlaceholder r => r | .patParen r _ _ => r
  | .patDestruct r _ => r

/-- `Arg::span()` etc.: the item's own node -/
def TItem.range : TItem → BRange
  | .pos n => n.range
  | .named r _ _ _ => r | .dnamed r _ _ => r | .keyed r _ _ => r | .spread r _ => r

/-! ## what the environment supplies -/

structure Env where
  /-- the UTF-8 bytes of the document (`Source::text`) -/
  bs : List Nat
  /-- the same text as characters -/
  src : List Char
  /-- `PlainEnglish.parse_str` -/
  inner : List Char → Except Panic (List Tok)

/-- the result of `parse_expr` / `parse_pattern`: a panic, `None`, or `Some(tokens)` -/
abbrev Res := Except Panic (Option (List Tok))

/-! ## macros and cursor -/

/-- `OffsetCursor::push_to_span`: a node without a range leaves the cursor where it is -/
def pushToSpan (bs : List Nat) (c : Cursor) : BRange → Except Panic Cursor
  | none => .ok c
  | some (s, _) => c.pushTo bs s

/-- `def_token!(doc, a, kind, offset)`: `let range = doc.range(a.span())?` — the `none` result is
the `?`; what it leaves is decided where the macro is used -/
def defToken (bs : List Nat) (r : BRange) (k : Kind) (c : Cursor) : Res :=
  match r with
  | none => .ok none
  | some (s, e) => do
    let start ← c.pushTo bs s
    let stop ← start.pushTo bs e
    pure (some [⟨⟨start.char, stop.char⟩, k⟩])

/-- `get_text!`: `doc.range(span).and_then(|range| doc.get(range)).unwrap_or_default()` — a node
without a range, or with a range that is not a slice on character boundaries (`str::get` is `None`),
has the empty text; no panic (repair `0f1b3ac`; before it both steps were unwrapped) -/
def getText (bs : List Nat) (src : List Char) : BRange → List Char
  | none => []
  | some (s, e) =>
    match sliceCount bs 0 s, sliceCount bs s e with
    | .ok n1, .ok n2 => (src.drop n1).take n2
    | _, _ => []

def leafKind : LeafKind → Kind
  | .linebreak => .newline 1
  | .parbreak => .paragraphBreak
  | .quoteDouble => .quote none
  | .quoteSingle => .punct .Apostrophe
  | .link => .url
  | .other => .unlintable

/-- `parse_expr` on a node of a `token!` arm: move the cursor to the node, one token over it -/
def parseLeaf (bs : List Nat) (k : LeafKind) (r : BRange) (c : Cursor) : Res := do
  let c1 ← pushToSpan bs c r
  defToken bs r (leafKind k) c1

/-- `parse_english(str, offset)`: every inner token `push_by(offset.char)` -/
def parseEnglish (inner : List Char → Except Panic (List Tok)) (txt : List Char) (c : Cursor) : Res := do
  let toks ← inner txt
  pure (some (toks.map (·.shift c.char)))

/-- `&string[1..string.len() - 1]` on the UTF-8 string of a `Str` node: `len - 1` underflows on
the empty string; otherwise byte 1 and byte `len - 1` must be character boundaries with
`1 ≤ len - 1`, i.e. at least two characters, the first and the last one byte wide -/
def strInner (txt : List Char) : Except Panic (List Char) :=
  match txt with
  | [] => .error .underflow
  | c :: rest =>
    match rest.getLast? with
    | none => .error .sliceOOB
    | some l => if c.toNat < 128 ∧ l.toNat < 128 then .ok rest.dropLast else .error .sliceOOB

/-- the `Expr::Space` arm: `get_text!(a).chars()`, `chars.next().unwrap()`, `chars.count() + 1` -/
def parseSpace (E : Env) (r : BRange) (c : Cursor) : Res := do
  let c1 ← pushToSpan E.bs c r
  match getText E.bs E.src r with
  | [] => .error .unwrapNone
  | ch :: rest =>
    if ch = '\n' then defToken E.bs r (.newline 1) c1
    else defToken E.bs r (.space (rest.length + 1)) c1

/-! ## `convert_parbreaks` -/

/-- what `should_parbreak` looks at -/
inductive Shape where
  | space | headingOrList | other
  deriving Repr, DecidableEq

def TNode.shape : TNode → Shape
  | .space _ => .space
  | .body .heading _ _ => .headingOrList
  | .body .list _ _ => .headingOrList
  | _ => .other

def TNodes.shapes : TNodes → List Shape
  | .nil => []
  | .cons n ns => n.shape :: ns.shapes

def TNodes.length : TNodes → Nat
  | .nil => 0
  | .cons _ ns => ns.length + 1

/-- `should_parbreak(e1, e2, e3)` -/
def shouldParbreak (e1 e2 e3 : Shape) : Bool :=
  e2 == .space && (e1 == .headingOrList || e3 == .headingOrList)

/-- the `tuple_windows` loop: `prev` = `last_element`; the element of the window is converted iff
there was a previous element and `should_parbreak(prev, cur, next)`; the last element is pushed
unchanged ("excluded by tuple_windows") -/
def convFlags : Option Shape → List Shape → List Bool
  | _, [] => []
  | _, [_] => [false]
  | none, e :: n :: rest => false :: convFlags (some e) (n :: rest)
  | some p, e :: n :: rest => shouldParbreak p e n :: convFlags (some e) (n :: rest)

/-- `convert_parbreaks(buf, exprs)`: which expressions are replaced by a `Parbreak` synthesised
with the expression's own span -/
def convertParbreaks (shapes : List Shape) : List Bool := convFlags none shapes

/-! ## `parse_func_call`: which arguments are ignored -/

def lit (s : String) : List Char := s.toList

/-- the `match text { … }` of `parse_func_call`: `(ignore_pos, ignore_nameds)` -/
def ignoreSpec (callee : List Char) : Option (Bool × List (List Char)) :=
  if callee = lit "std.rgb" ∨ callee = lit "color.rgb" ∨ callee = lit "rgb" then some (true, [])
  else if callee = lit "std.plugin" ∨ callee = lit "plugin" then some (true, [])
  else if callee = lit "std.bibliography" ∨ callee = lit "bibliography" then some (true, [lit "style"])
  else if callee = lit "std.cite" ∨ callee = lit "cite" then some (true, [lit "style"])
  else if callee = lit "std.raw" ∨ callee = lit "raw" then some (false, [lit "syntaxes", lit "theme"])
  else if callee = lit "std.image" ∨ callee = lit "image" then some (true, [])
  else if callee = lit "std.regex" ∨ callee = lit "regex" then some (true, [])
  else if (lit ".display").isSuffixOf callee then some (true, [])
  else none

/-- the `partition` predicate of `parse_args_ignored` -/
def isDead (spec : Bool × List (List Char)) : TItem → Bool
  | .pos _ => spec.1
  | .named _ _ nameTxt _ => spec.2.contains nameTxt
  | _ => false

/-- `dead.iter().flat_map(|a| token!(a, TokenKind::Unlintable))`: the `?` leaves the closure -/
def deadTokens (bs : List Nat) (spec : Bool × List (List Char)) : TItems → Cursor → Except Panic (List Tok)
  | .nil, _ => .ok []
  | .cons i is, c => do
    let a ← if isDead spec i then defToken bs i.range .unlintable c else pure none
    let b ← deadTokens bs spec is c
    pure (a.getD [] ++ b)

/-! ## the translator -/

mutual
/-- `parse_expr(expr, offset)` for the expression views, `parse_pattern(pat, offset)` for the three
pattern views (`Pattern::Normal(expr)` IS `parse_expr(expr, offset)`). Only `parse_expr` moves the
cursor to the node (`offset.push_to_span(expr.span())`). -/
def parseExpr (E : Env) : TNode → Cursor → Res
  | .text r txt, c => do
    let c1 ← pushToSpan E.bs c r
    let c2 ← pushToSpan E.bs c1 r
    parseEnglish E.inner txt c2
  | .space r, c => parseSpace E r c
  | .leaf k r, c => parseLeaf E.bs k r c
  | .body _ r es, c => do
    let c1 ← pushToSpan E.bs c r
    let ts ← parseSeq E (convertParbreaks es.shapes) es c1
    pure (some ts)
  | .str r txt, c => do
    let c1 ← pushToSpan E.bs c r
    let c2 ← pushToSpan E.bs c1 r
    let content ← strInner txt
    let toks ← E.inner content
    pure (some (toks.map (·.shift (c2.char + 1))))
  | .rec1 _ r e, c => do
    let c1 ← pushToSpan E.bs c r
    parseExpr E e c1
  | .recN _ r es, c => do
    let c1 ← pushToSpan E.bs c r
    let ts ← parseAll E es c1
    pure (some ts)
  | .array r items, c => do
    let c1 ← pushToSpan E.bs c r
    let ts ← parseItems E (fun _ => true) items c1
    pure (some ts)
  | .dict r items, c => do
    let c1 ← pushToSpan E.bs c r
    let ts ← parseItems E (fun _ => true) items c1
    pure (some ts)
  | .fieldAccess r target field, c => do
    let c1 ← pushToSpan E.bs c r
    let a ← parseExpr E target c1
    -- `token!(field_access.field(), Word(None))`: its `?` leaves `parse_expr`
    match ← defToken E.bs field .word c1 with
    | none => pure none
    | some f => pure (some (a.getD [] ++ f))
  | .letBinding r kind init, c => do
    let c1 ← pushToSpan E.bs c r
    let a ← parseExpr E kind c1
    let b ← parseAll E init c1
    pure (some (a.getD [] ++ b))
  | .letClosure _, _ => pure none
  | .setRule r target cond args, c => do
    let c1 ← pushToSpan E.bs c r
    let a ← parseExpr E target c1
    let b ← parseAll E cond c1
    let d ← parseItems E (fun _ => true) args c1
    pure (some (a.getD [] ++ b ++ d))
  | .closure r name params body, c => do
    let c1 ← pushToSpan E.bs c r
    let a ← parseAll E name c1
    let p ← parseItems E (fun _ => true) params c1
    let b ← parseExpr E body c1
    pure (some (a ++ p ++ b.getD []))
  | .funcCall r callee args, c => do
    let c1 ← pushToSpan E.bs c r
    -- `token!(func.callee(), Unlintable)`: its `?` leaves the closure `parse_func_call` — a call
    -- whose callee is the detached placeholder (`_(…)`) yields nothing at all, arguments included
    match ← defToken E.bs callee .unlintable c1 with
    | none => pure none
    | some ct =>
      match ignoreSpec (getText E.bs E.src callee) with
      | some spec => do
        -- `.chain(parse_args(&mut alive.into_iter()))` is evaluated before the lazy `flat_map`
        let alive ← parseItems E (fun i => !isDead spec i) args c1
        let dead ← deadTokens E.bs spec args c1
        pure (some (ct ++ dead ++ alive))
      | none => do
        let a ← parseItems E (fun _ => true) args c1
        pure (some (ct ++ a))
  | .patPlaceholder r, c => defToken E.bs r .unlintable c
  | .patParen _ e p, c => do
    let a ← parseExpr E e c
    let b ← parseExpr E p c
    pure (some (a.getD [] ++ b.getD []))
  | .patDestruct _ items, c => do
    let ts ← parseItems E (fun _ => true) items c
    pure (some ts)

/-- `iter_recurse`: `convert_parbreaks`, then `filter_map(|e| recurse!(e)).flatten()`; `flags` are
the conversions still to be applied, position by position -/
def parseSeq (E : Env) : List Bool → TNodes → Cursor → Except Panic (List Tok)
  | _, .nil, _ => pure []
  | fl, .cons e es, c => do
    let a ← if fl.headD false then parseLeaf E.bs .parbreak e.range c else parseExpr E e c
    let b ← parseSeq E (fl.drop 1) es c
    pure (a.getD [] ++ b)

/-- `merge![recurse!(a), recurse!(b), …]` / `opt.and_then(|e| recurse!(e))` -/
def parseAll (E : Env) : TNodes → Cursor → Except Panic (List Tok)
  | .nil, _ => pure []
  | .cons e es, c => do
    let a ← parseExpr E e c
    let b ← parseAll E es c
    pure (a.getD [] ++ b)

/-- one arm of the `filter_map` closures of `parse_args`, `parse_params`, the `Array` / `Dict` arms
and `parse_pattern`'s `Destructuring` arm -/
def parseItem (E : Env) : TItem → Cursor → Res
  | .pos n, c => parseExpr E n c
  | .named _ name _ value, c => do
    -- `merge![self.parse_ident(named.name(), offset), recurse!(named.expr())]`
    let a ← parseExpr E name c
    let b ← parseExpr E value c
    pure (some (a.getD [] ++ b.getD []))
  | .dnamed _ name pat, c => do
    -- `merge![token!(named.name(), Word(None)), self.parse_pattern(named.pattern(), offset)]`:
    -- the `?` leaves the closure before the pattern is looked at
    match ← defToken E.bs name .word c with
    | none => pure none
    | some a => do
      let b ← parseExpr E pat c
      pure (some (a ++ b.getD []))
  | .keyed _ key value, c => do
    let a ← parseExpr E key c
    let b ← parseExpr E value c
    pure (some (a.getD [] ++ b.getD []))
  | .spread _ es, c => do
    let ts ← parseAll E es c
    pure (some ts)

/-- `items.filter_map(..).flatten()` over the items that satisfy `keep` (`alive` of
`parse_args_ignored`; everything elsewhere) -/
def parseItems (E : Env) (keep : TItem → Bool) : TItems → Cursor → Except Panic (List Tok)
  | .nil, _ => pure []
  | .cons i is, c => do
    let a ← if keep i then parseItem E i c else pure none
    let b ← parseItems E keep is c
    pure (a.getD [] ++ b)
end

/-- `Typst::parse`: `convert_parbreaks` over the top-level expressions, every expression from a
fresh cursor (`OffsetCursor::new`), `filter_map(..).flatten()` -/
def typstParse (E : Env) (top : TNodes) : Except Panic (List Tok) :=
  parseSeq E (convertParbreaks top.shapes) top ⟨0, 0⟩

/-- the environment the driver runs with: the bytes computed from the characters (`utf8Bytes`,
`Model/Markdown.lean`), the model of `PlainEnglish` as the inner parser -/
def envOfSrc (cls : Cls) (src : List Char) : Env := ⟨utf8Bytes src, src, parsePlainFull cls⟩

/-- … and `Typst::parse` in it (op `typst`) -/
def typstParseSrc (cls : Cls) (src : List Char) (top : TNodes) : Except Panic (List Tok) :=
  typstParse (envOfSrc cls src) top

/-! ## `TreeOK`: what the theorems assume about typst-syntax's tree

Decidable, stated on the data the model is given, evaluated on every real tree (op `typok`). -/

/-- a range lies in `[lo, hi]` (the nearest ranged ancestor's range), inside the text, on
character boundaries -/
def rangeOK (bs : List Nat) (lo hi : Nat) : BRange → Bool
  | none => true
  | some (s, e) =>
    decide (lo ≤ s) && decide (s ≤ e) && decide (e ≤ hi) && decide (e ≤ bs.length) &&
      isBoundary bs s && isBoundary bs e

/-- the range the children are checked against -/
def sub (lo hi : Nat) : BRange → Nat × Nat
  | none => (lo, hi)
  | some (s, e) => (s, e)

/-- the node's text is not longer than its range (a detached node has no text) -/
def textFits (bs : List Nat) (r : BRange) (n : Nat) : Bool :=
  match r with
  | some (s, e) => decide (n ≤ charCount ((bs.drop s).take (e - s)))
  | none => n == 0

def strOK (txt : List Char) : Bool :=
  match strInner txt with
  | .ok _ => true
  | .error _ => false

mutual
def treeOK (bs : List Nat) (lo hi : Nat) : TNode → Bool
  | .text r txt => rangeOK bs lo hi r && textFits bs r txt.length
  | .space r =>
    rangeOK bs lo hi r &&
      (match r with
        | some (s, e) => decide (1 ≤ charCount ((bs.drop s).take (e - s)))
        | none => false)
  | .leaf _ r => rangeOK bs lo hi r
  | .body _ r es => rangeOK bs lo hi r && treesOK bs (sub lo hi r).1 (sub lo hi r).2 es
  | .str r txt => rangeOK bs lo hi r && strOK txt && textFits bs r txt.length
  | .rec1 _ r e => rangeOK bs lo hi r && treeOK bs (sub lo hi r).1 (sub lo hi r).2 e
  | .recN _ r es => rangeOK bs lo hi r && treesOK bs (sub lo hi r).1 (sub lo hi r).2 es
  | .array r items => rangeOK bs lo hi r && itemsOK bs (sub lo hi r).1 (sub lo hi r).2 items
  | .dict r items => rangeOK bs lo hi r && itemsOK bs (sub lo hi r).1 (sub lo hi r).2 items
  | .fieldAccess r target field =>
    rangeOK bs lo hi r && treeOK bs (sub lo hi r).1 (sub lo hi r).2 target &&
      rangeOK bs (sub lo hi r).1 (sub lo hi r).2 field
  | .letBinding r kind init =>
    rangeOK bs lo hi r && treeOK bs (sub lo hi r).1 (sub lo hi r).2 kind &&
      treesOK bs (sub lo hi r).1 (sub lo hi r).2 init
  | .letClosure r => rangeOK bs lo hi r
  | .setRule r target cond args =>
    rangeOK bs lo hi r && treeOK bs (sub lo hi r).1 (sub lo hi r).2 target &&
      treesOK bs (sub lo hi r).1 (sub lo hi r).2 cond && itemsOK bs (sub lo hi r).1 (sub lo hi r).2 args
  | .closure r name params body =>
    rangeOK bs lo hi r && treesOK bs (sub lo hi r).1 (sub lo hi r).2 name &&
      itemsOK bs (sub lo hi r).1 (sub lo hi r).2 params && treeOK bs (sub lo hi r).1 (sub lo hi r).2 body
  | .funcCall r callee args =>
    rangeOK bs lo hi r && rangeOK bs (sub lo hi r).1 (sub lo hi r).2 callee &&
      itemsOK bs (sub lo hi r).1 (sub lo hi r).2 args
  | .patPlaceholder r => rangeOK bs lo hi r
  | .patParen r e p =>
    rangeOK bs lo hi r && treeOK bs (sub lo hi r).1 (sub lo hi r).2 e &&
      treeOK bs (sub lo hi r).1 (sub lo hi r).2 p
  | .patDestruct r items => rangeOK bs lo hi r && itemsOK bs (sub lo hi r).1 (sub lo hi r).2 items
def treesOK (bs : List Nat) (lo hi : Nat) : TNodes → Bool
  | .nil => true
  | .cons n ns => treeOK bs lo hi n && treesOK bs lo hi ns
def itemOK (bs : List Nat) (lo hi : Nat) : TItem → Bool
  | .pos n => treeOK bs lo hi n
  | .named r name _ value =>
    rangeOK bs lo hi r && treeOK bs (sub lo hi r).1 (sub lo hi r).2 name &&
      treeOK bs (sub lo hi r).1 (sub lo hi r).2 value
  | .dnamed r name pat =>
    rangeOK bs lo hi r && rangeOK bs (sub lo hi r).1 (sub lo hi r).2 name &&
      treeOK bs (sub lo hi r).1 (sub lo hi r).2 pat
  | .keyed r key value =>
    rangeOK bs lo hi r && treeOK bs (sub lo hi r).1 (sub lo hi r).2 key &&
      treeOK bs (sub lo hi r).1 (sub lo hi r).2 value
  | .spread r es => rangeOK bs lo hi r && treesOK bs (sub lo hi r).1 (sub lo hi r).2 es
def itemsOK (bs : List Nat) (lo hi : Nat) : TItems → Bool
  | .nil => true
  | .cons i is => itemOK bs lo hi i && itemsOK bs lo hi is
end

/-- ranges lie in their parents' ranges and on character boundaries, texts are not longer than
their ranges, a `Space` covers at least one character, a `Str` has its two quotes — the two
facts the translator still `unwrap`s / slices on (a `FuncCall`'s callee may be detached: `get_text!`
gives the empty text since the repair `0f1b3ac`) -/
def TreeOK (bs : List Nat) (top : TNodes) : Prop := treesOK bs 0 bs.length top = true

instance (bs : List Nat) (top : TNodes) : Decidable (TreeOK bs top) :=
  inferInstanceAs (Decidable (_ = true))

/-! ## `NoAlias`: no two accessor results of one node are the same child -/

/-- the non-empty ranges among `rs` are pairwise different -/
def nodupRanges : List BRange → Bool
  | [] => true
  | none :: rs => nodupRanges rs
  | some (s, e) :: rs => (decide (e ≤ s) || !rs.contains (some (s, e))) && nodupRanges rs

def TNodes.ranges : TNodes → List BRange
  | .nil => []
  | .cons n ns => n.range :: ns.ranges

def TItems.ranges : TItems → List BRange
  | .nil => []
  | .cons i is => i.range :: is.ranges

mutual
def noAlias : TNode → Bool
  | .body _ _ es => nodupRanges es.ranges && noAliasL es
  | .rec1 _ _ e => noAlias e
  | .recN _ _ es => nodupRanges es.ranges && noAliasL es
  | .array _ items => nodupRanges items.ranges && noAliasIs items
  | .dict _ items => nodupRanges items.ranges && noAliasIs items
  | .fieldAccess _ target field => nodupRanges [target.range, field] && noAlias target
  | .letBinding _ kind init => nodupRanges (kind.range :: init.ranges) && noAlias kind && noAliasL init
  | .setRule _ target cond args =>
    nodupRanges (target.range :: (cond.ranges ++ args.ranges)) && noAlias target && noAliasL cond &&
      noAliasIs args
  | .closure _ name params body =>
    nodupRanges (name.ranges ++ (params.ranges ++ [body.range])) && noAliasL name && noAliasIs params &&
      noAlias body
  | .funcCall _ callee args => nodupRanges (callee :: args.ranges) && noAliasIs args
  | .patParen _ e p => nodupRanges [e.range, p.range] && noAlias e && noAlias p
  | .patDestruct _ items => nodupRanges items.ranges && noAliasIs items
  | _ => true
def noAliasL : TNodes → Bool
  | .nil => true
  | .cons n ns => noAlias n && noAliasL ns
def noAliasI : TItem → Bool
  | .pos n => noAlias n
  | .named _ name _ value => nodupRanges [name.range, value.range] && noAlias name && noAlias value
  | .dnamed _ name pat => nodupRanges [name, pat.range] && noAlias pat
  | .keyed _ key value => nodupRanges [key.range, value.range] && noAlias key && noAlias value
  | .spread _ es => noAliasL es
def noAliasIs : TItems → Bool
  | .nil => true
  | .cons i is => noAliasI i && noAliasIs is
end

def NoAlias (top : TNodes) : Prop := (nodupRanges top.ranges && noAliasL top) = true

instance (top : TNodes) : Decidable (NoAlias top) := inferInstanceAs (Decidable (_ = true))

/-! ## `InOrder`: the translator's visiting order is the source order

`cur` is threaded through the tree in the order in which the translator produces tokens: a ranged
leaf must start at or after `cur` and moves it to its end; a ranged inner node must start at or
after `cur`, its children are threaded from its start, and it moves `cur` to its end; a detached
node is transparent. `none` = some visit goes backwards (or visits the same child twice). -/

def leafOrder (cur : Nat) : BRange → Option Nat
  | none => some cur
  | some (s, e) => if cur ≤ s then some e else none

def enter (cur : Nat) : BRange → Option Nat
  | none => some cur
  | some (s, _) => if cur ≤ s then some s else none

def leave (inner : Nat) : BRange → Nat
  | none => inner
  | some (_, e) => e

/-- the dead arguments of `parse_args_ignored` come first -/
def deadOrder (spec : Bool × List (List Char)) : TItems → Nat → Option Nat
  | .nil, cur => some cur
  | .cons i is, cur =>
    if isDead spec i then (leafOrder cur i.range).bind (deadOrder spec is) else deadOrder spec is cur

mutual
def inOrder (E : Env) : TNode → Nat → Option Nat
  | .text r _, cur => leafOrder cur r
  | .space r, cur => leafOrder cur r
  | .leaf _ r, cur => leafOrder cur r
  | .str r _, cur => leafOrder cur r
  | .patPlaceholder r, cur => leafOrder cur r
  | .letClosure _, cur => some cur
  | .body _ r es, cur => do
    let c0 ← enter cur r
    let c1 ← inOrderL E es c0
    pure (leave c1 r)
  | .rec1 _ r e, cur => do
    let c0 ← enter cur r
    let c1 ← inOrder E e c0
    pure (leave c1 r)
  | .recN _ r es, cur => do
    let c0 ← enter cur r
    let c1 ← inOrderL E es c0
    pure (leave c1 r)
  | .array r items, cur => do
    let c0 ← enter cur r
    let c1 ← inOrderIs E (fun _ => true) items c0
    pure (leave c1 r)
  | .dict r items, cur => do
    let c0 ← enter cur r
    let c1 ← inOrderIs E (fun _ => true) items c0
    pure (leave c1 r)
  | .fieldAccess r target field, cur => do
    let c0 ← enter cur r
    let c1 ← inOrder E target c0
    let c2 ← leafOrder c1 field
    pure (leave c2 r)
  | .letBinding r kind init, cur => do
    let c0 ← enter cur r
    let c1 ← inOrder E kind c0
    let c2 ← inOrderL E init c1
    pure (leave c2 r)
  | .setRule r target cond args, cur => do
    let c0 ← enter cur r
    let c1 ← inOrder E target c0
    let c2 ← inOrderL E cond c1
    let c3 ← inOrderIs E (fun _ => true) args c2
    pure (leave c3 r)
  | .closure r name params body, cur => do
    let c0 ← enter cur r
    let c1 ← inOrderL E name c0
    let c2 ← inOrderIs E (fun _ => true) params c1
    let c3 ← inOrder E body c2
    pure (leave c3 r)
  | .funcCall r callee args, cur => do
    let c0 ← enter cur r
    let c1 ← leafOrder c0 callee
    let c3 ←
      match ignoreSpec (getText E.bs E.src callee) with
      | some spec => do
        let c2 ← deadOrder spec args c1
        inOrderIs E (fun i => !isDead spec i) args c2
      | none => inOrderIs E (fun _ => true) args c1
    pure (leave c3 r)
  | .patParen r e p, cur => do
    let c0 ← enter cur r
    let c1 ← inOrder E e c0
    let c2 ← inOrder E p c1
    pure (leave c2 r)
  | .patDestruct r items, cur => do
    let c0 ← enter cur r
    let c1 ← inOrderIs E (fun _ => true) items c0
    pure (leave c1 r)
def inOrderL (E : Env) : TNodes → Nat → Option Nat
  | .nil, cur => some cur
  | .cons n ns, cur => do
    let c1 ← inOrder E n cur
    inOrderL E ns c1
def inOrderI (E : Env) : TItem → Nat → Option Nat
  | .pos n, cur => inOrder E n cur
  | .named r name _ value, cur => do
    let c0 ← enter cur r
    let c1 ← inOrder E name c0
    let c2 ← inOrder E value c1
    pure (leave c2 r)
  | .dnamed r name pat, cur => do
    let c0 ← enter cur r
    let c1 ← leafOrder c0 name
    let c2 ← inOrder E pat c1
    pure (leave c2 r)
  | .keyed r key value, cur => do
    let c0 ← enter cur r
    let c1 ← inOrder E key c0
    let c2 ← inOrder E value c1
    pure (leave c2 r)
  | .spread r es, cur => do
    let c0 ← enter cur r
    let c1 ← inOrderL E es c0
    pure (leave c1 r)
def inOrderIs (E : Env) (keep : TItem → Bool) : TItems → Nat → Option Nat
  | .nil, cur => some cur
  | .cons i is, cur => do
    let c1 ← if keep i then inOrderI E i cur else pure cur
    inOrderIs E keep is c1
end

def InOrder (E : Env) (top : TNodes) : Prop := (inOrderL E top 0).isSome = true

instance (E : Env) (top : TNodes) : Decidable (InOrder E top) := inferInstanceAs (Decidable (_ = true))

/-! ## `RangesSolid`: what `def_token!` turns into a non-structural token covers a character

The fourth assumption predicate (w24), for the clause "zero-width tokens are only structural breaks".
`TreeOK` allows an EMPTY range (`s = e`) everywhere but on a `Space`; `def_token!` over an empty range
is a zero-width token. The ranges the translator hands to `def_token!` with a kind that is NOT a
structural break are: the node of a `token!` arm other than `Linebreak` / `Parbreak` (`SmartQuote`,
`Link`, the default arm), `Pattern::Placeholder`, `FieldAccess::field()`, `FuncCall::callee()`, every
argument of a call (an ignored argument of `rgb` / `raw` / … becomes ONE `Unlintable` over the whole
argument), `DestructuringItem::Named`'s `name()`. Each must be detached or cover at least one
character. (`Text` and `Str` produce the inner parser's tokens only; `Space` is covered by `TreeOK`;
a converted paragraph break, a `Linebreak`, a `Parbreak` are structural whatever their width.)
Decidable, evaluated on every real tree (op `typok`, fourth field). -/

/-- detached, or at least one character between the two bytes (the same count as `TreeOK`'s
condition on a `Space`) -/
def solidR (bs : List Nat) : BRange → Bool
  | none => true
  | some (s, e) => decide (1 ≤ charCount ((bs.drop s).take (e - s)))

/-- the arms of `token!` whose token is a structural break -/
def LeafKind.structural : LeafKind → Bool
  | .linebreak => true
  | .parbreak => true
  | _ => false

mutual
def solidN (bs : List Nat) : TNode → Bool
  | .text _ _ => true
  | .space _ => true
  | .str _ _ => true
  | .letClosure _ => true
  | .leaf k r => k.structural || solidR bs r
  | .patPlaceholder r => solidR bs r
  | .body _ _ es => solidL bs es
  | .rec1 _ _ e => solidN bs e
  | .recN _ _ es => solidL bs es
  | .array _ items => solidIs bs items
  | .dict _ items => solidIs bs items
  | .fieldAccess _ target field => solidN bs target && solidR bs field
  | .letBinding _ kind init => solidN bs kind && solidL bs init
  | .setRule _ target cond args => solidN bs target && solidL bs cond && solidIs bs args
  | .closure _ name params body => solidL bs name && solidIs bs params && solidN bs body
  | .funcCall _ callee args => solidR bs callee && solidArgs bs args
  | .patParen _ e p => solidN bs e && solidN bs p
  | .patDestruct _ items => solidIs bs items
def solidL (bs : List Nat) : TNodes → Bool
  | .nil => true
  | .cons n ns => solidN bs n && solidL bs ns
def solidI (bs : List Nat) : TItem → Bool
  | .pos n => solidN bs n
  | .named _ name _ value => solidN bs name && solidN bs value
  | .dnamed _ name pat => solidR bs name && solidN bs pat
  | .keyed _ key value => solidN bs key && solidN bs value
  | .spread _ es => solidL bs es
def solidIs (bs : List Nat) : TItems → Bool
  | .nil => true
  | .cons i is => solidI bs i && solidIs bs is
/-- the arguments of a call: the item's own range too (`parse_args_ignored`'s `token!(a, Unlintable)`) -/
def solidArgs (bs : List Nat) : TItems → Bool
  | .nil => true
  | .cons i is => solidR bs i.range && solidI bs i && solidArgs bs is
end

/-- `rangesSolid bs top`: the Boolean the driver prints (op `typok`) -/
def rangesSolid (bs : List Nat) (top : TNodes) : Bool := solidL bs top

def RangesSolid (bs : List Nat) (top : TNodes) : Prop := rangesSolid bs top = true

instance (bs : List Nat) (top : TNodes) : Decidable (RangesSolid bs top) :=
  inferInstanceAs (Decidable (_ = true))

/-! ## HTML: the `Space` clamp of `HtmlParser::parse` -/

/-- `*v = (*v).clamp(0, 1)` on a `Space(v)` token; any other token is left alone -/
def clampTok (t : Tok) : Tok :=
  match t.kind with
  | .space v => ⟨t.span, .space (min v 1)⟩
  | _ => t

/-- the `for token in &mut tokens` loop -/
def htmlSpaceClamp (toks : List Tok) : List Tok := toks.map clampTok

/-- `HtmlParser::parse`: the `Mask` parse (`Model/Mask.lean`: `maskParse` over the mask of the
grammar's `text` nodes), then the clamp -/
def htmlParse (src : List Char) (mask : List Span) (inner : List Char → List Tok) :
    Except Panic (List Tok) := do
  let toks ← maskParse src mask inner
  pure (htmlSpaceClamp toks)

/-- `PlainEnglish::parse` as the TOTAL inner parser `parsers::Mask` is given: the model of the lexer
never fails (`C02.parsePlainFull_total`; `plainInner_eq` in `Lemmas/Typst.lean`), so the `[]` of the
second arm is never taken -/
def plainInner (cls : Cls) (chunk : List Char) : List Tok :=
  match parsePlainFull cls chunk with
  | .ok toks => toks
  | .error _ => []

/-- `HtmlParser::default().parse(src)` with the mask of the grammar's `text` nodes as data and the
model of `PlainEnglish` as the inner parser: what the driver runs (op `htmlparse`) -/
def htmlParseSrc (cls : Cls) (src : List Char) (mask : List Span) : Except Panic (List Tok) :=
  htmlParse src mask (plainInner cls)

end Harper.Typst
