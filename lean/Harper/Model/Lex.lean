import Harper.Basic.Token
import Harper.Basic.LexerName
import Harper.Tables.Punct
import Harper.Tables.LexerOrder
/-!
# L1 — the lexers of `harper-core/src/lexing/mod.rs` and `PlainEnglish::parse`

Unicode character classes are parameters (`Cls`): the theorems hold for any tables, the
driver runs with Rust's own (supplied per character by the harness). `lex_url`,
`lex_email_address` and `lex_hostname_token` are a parameter too (`Ext`): the harness reports
where the real lexer produced such a token; everything before them in the lexer order, the
word and catch-all lexers, and the parse loop are modelled here.
-/
namespace Harper

structure Cls where
  lingual : Char → Bool      -- `CharExt::is_english_lingual`
  numeric : Char → Bool      -- `char::is_numeric`
  alnum   : Char → Bool      -- `char::is_alphanumeric`

/-- result of a lexer: kind and `next_index` -/
abbrev Found := Option (Kind × Nat)

/-- the three external lexers: absolute position ↦ what the real lexer found there -/
abbrev Ext := Nat → Found

def isAsciiDigit (c : Char) : Bool := '0' ≤ c && c ≤ '9'
def isAsciiHex (c : Char) : Bool :=
  isAsciiDigit c || ('a' ≤ c && c ≤ 'f') || ('A' ≤ c && c ≤ 'F')
def isAsciiAlpha (c : Char) : Bool := ('a' ≤ c && c ≤ 'z') || ('A' ≤ c && c ≤ 'Z')
def isAsciiAlnum (c : Char) : Bool := isAsciiDigit c || isAsciiAlpha c

def countWhile {α} (p : α → Bool) : List α → Nat
  | [] => 0
  | x :: xs => if p x then countWhile p xs + 1 else 0

/-! ## individual lexers -/

def lexWord (cls : Cls) (src : List Char) : Found :=
  let n := countWhile (fun c => cls.lingual c || isAsciiDigit c) src
  if n = 0 then none else some (.word, n)

def lexNewlines (src : List Char) : Found :=
  let n := countWhile (· == '\n') src
  if n > 0 then some (.newline n, n) else none

def lexTabs (src : List Char) : Found :=
  let n := countWhile (· == '\t') src
  if n > 0 then some (.space (n * 2), n) else none

def lexSpaces (src : List Char) : Found :=
  let n := countWhile (· == ' ') src
  if n > 0 then some (.space n, n) else none

def punctOfChar (c : Char) : Option Punct :=
  match Tables.punctRows.lookup c.toNat with
  | some p => some p
  | none => if Tables.currencyChars.contains c.toNat then some .Currency else none

def lexPunctuation (src : List Char) : Found :=
  match src with
  | [] => none
  | c :: _ =>
    if Tables.quoteChars.contains c.toNat then some (.quote none, 1)
    else match punctOfChar c with
      | some p => some (.punct p, 1)
      | none => none

def lexCatch (_src : List Char) : Found := some (.unlintable, 1)

/-- the `loop` of `lex_regexish` after the opening bracket; `i` = chars consumed so far -/
def regexishLoop (cls : Cls) : Nat → Nat → List Char → Option Nat
  | 0, _, _ => none
  | fuel + 1, i, rest =>
    match rest with
    | [] => none
    | c :: r1 =>
      if !cls.alnum c then none else
      -- i += 1
      match r1 with
      | '-' :: r2 =>
        (match r2 with
         | [] => none
         | d :: r3 =>
           if !cls.alnum d then none else
           match r3 with
           | ']' :: _ => some (i + 3 + 1)
           | _ => regexishLoop cls fuel (i + 3) r3)
      | ']' :: _ => some (i + 1 + 1)
      | _ => regexishLoop cls fuel (i + 1) r1

def lexRegexish (cls : Cls) (src : List Char) : Found :=
  match src with
  | '[' :: rest =>
    match regexishLoop cls (rest.length + 1) 1 rest with
    | some n => some (.regexish, n)
    | none => none
  | _ => none

/-- `while i < len` loop of `lex_hex_number` over the characters after `0x`:
number of hex digits, or `none` if an alphanumeric non-hex character follows -/
def hexScan (cls : Cls) : List Char → Option Nat
  | [] => some 0
  | c :: cs =>
    if isAsciiHex c then (hexScan cls cs).map (· + 1)
    else if cls.alnum c then none else some 0

def hexVal (c : Char) : Nat :=
  if isAsciiDigit c then c.toNat - 48
  else if 'a' ≤ c && c ≤ 'f' then c.toNat - 87 else c.toNat - 55

def hexValue (cs : List Char) : Nat := cs.foldl (fun acc c => acc * 16 + hexVal c) 0

def lexHexNumber (cls : Cls) (src : List Char) : Found :=
  match src with
  | z :: x :: c :: rest =>
    if z == '0' && x == 'x' && isAsciiHex c then
      match hexScan cls (c :: rest) with
      | none => none
      | some k =>
        -- `u64::from_str_radix` fails on overflow
        if hexValue ((c :: rest).take k) < 2 ^ 64 then some (.number 16 none, k + 2) else none
    else none
  | _ => none

def lexLongDecade (cls : Cls) (src : List Char) : Found :=
  match src with
  | a :: b :: c :: d :: e :: rest =>
    if (a == '1' || a == '2') && isAsciiDigit b && isAsciiDigit c && d == '0' && e == 's' then
      match rest with
      | f :: _ => if cls.alnum f then none else some (.decade, 5)
      | [] => some (.decade, 5)
    else none
  | _ => none

/-- the `if l > i && src[i] == 's'` part of `lex_plural_digit`; `i` chars consumed so far -/
def pluralTail (i : Nat) (r1 : List Char) : Found :=
  match r1 with
  | 's' :: r2 =>
    (match r2 with
     | [] => some (.word, i + 1)
     | d :: _ => if !isAsciiAlnum d then some (.word, i + 1) else none)
  | _ => none

def lexPluralDigit (src : List Char) : Found :=
  match src with
  | [] => none
  | c :: r0 =>
    if !isAsciiAlnum c then none else
    match r0 with
    | '\'' :: r => pluralTail 2 r
    | _ => pluralTail 1 r0

/-! ### `str::parse::<f64>` as a grammar recogniser

`Float ::= Sign? ( 'inf' | 'infinity' | 'nan' | Number )`,
`Number ::= ( Digit+ | Digit+ '.' Digit* | Digit* '.' Digit+ ) Exp?`, `Exp ::= [eE] Sign? Digit+`
(case-insensitive). Monitored against Rust on every candidate the harness sees. -/

def dropDigits : List Char → List Char
  | [] => []
  | c :: cs => if isAsciiDigit c then dropDigits cs else c :: cs

def isExp (s : List Char) : Bool :=
  match s with
  | e :: rest =>
    if e == 'e' || e == 'E' then
      let r := match rest with
        | '+' :: r => r
        | '-' :: r => r
        | _ => rest
      r != [] && dropDigits r == []
    else false
  | [] => false

def lowerAscii (c : Char) : Char := if 'A' ≤ c && c ≤ 'Z' then Char.ofNat (c.toNat + 32) else c

/-- `Sign?` -/
def stripSign (s : List Char) : List Char :=
  match s with
  | c :: r => if c == '+' || c == '-' then r else s
  | [] => []

/-- `'inf' | 'infinity' | 'nan'` (already lower-cased) -/
def isSpecialFloat (low : List Char) : Bool :=
  low == ['i', 'n', 'f'] || low == ['i', 'n', 'f', 'i', 'n', 'i', 't', 'y'] || low == ['n', 'a', 'n']

/-- `Number` -/
def parsesNumber (s : List Char) : Bool :=
  let afterInt := dropDigits s
  let intDigits := s.length - afterInt.length
  match afterInt with
  | [] => intDigits > 0
  | c :: r =>
    if c == '.' then
      let afterFrac := dropDigits r
      let fracDigits := r.length - afterFrac.length
      (intDigits + fracDigits > 0) && (afterFrac == [] || isExp afterFrac)
    else intDigits > 0 && isExp afterInt

def parsesF64 (s : List Char) : Bool :=
  let s := stripSign s
  if isSpecialFloat (s.map lowerAscii) then true else parsesNumber s

/-- index of the last ASCII digit -/
def lastDigitIdx (src : List Char) : Option Nat :=
  let rec go (i : Nat) (best : Option Nat) : List Char → Option Nat
    | [] => best
    | c :: cs => go (i + 1) (if isAsciiDigit c then some i else best) cs
  go 0 none src

/-- the `while !s.is_empty()` loop of `lex_number`: try prefixes of length `L, L-1, …, 1` -/
def numberLoop (src : List Char) : Nat → Option Nat
  | 0 => none
  | L + 1 =>
    let cand := src.take (L + 1)
    if cand.getLast? == some '.' then numberLoop src L
    else if parsesF64 cand then some (L + 1)
    else numberLoop src L

def lexNumber (cls : Cls) (src : List Char) : Found :=
  match src with
  | [] => none
  | c :: _ =>
    if !cls.numeric c then none else
    match lastDigitIdx src with
    | none => none
    | some e =>
      match numberLoop src (e + 1) with
      | some n => some (.number 10 none, n)
      | none => none

/-! ## `lex_token` -/

def runLexer (cls : Cls) (ext : Ext) (pos : Nat) (src : List Char) : LexerName → Found
  | .lex_regexish => lexRegexish cls src
  | .lex_punctuation => lexPunctuation src
  | .lex_tabs => lexTabs src
  | .lex_spaces => lexSpaces src
  | .lex_newlines => lexNewlines src
  | .lex_plural_digit => lexPluralDigit src
  | .lex_hex_number => lexHexNumber cls src
  | .lex_long_decade => lexLongDecade cls src
  | .lex_number => lexNumber cls src
  | .lex_url => (match ext pos with | some (.url, n) => some (.url, n) | _ => none)
  | .lex_email_address => (match ext pos with | some (.email, n) => some (.email, n) | _ => none)
  | .lex_hostname_token => (match ext pos with | some (.hostname, n) => some (.hostname, n) | _ => none)
  | .lex_word => lexWord cls src
  | .lex_catch => lexCatch src

def firstFound (cls : Cls) (ext : Ext) (pos : Nat) (src : List Char) : List LexerName → Found
  | [] => none
  | l :: ls =>
    match runLexer cls ext pos src l with
    | some f => some f
    | none => firstFound cls ext pos src ls

/-- `lex_token`, trying the lexers in the order regenerated from the source -/
def lexToken (cls : Cls) (ext : Ext) (pos : Nat) (src : List Char) : Found :=
  firstFound cls ext pos src Tables.lexerOrder

/-! ## `PlainEnglish::parse` -/

/-- the `loop` of `PlainEnglish::parse`; `lex_token` returning `None` is `panic!()`;
`Span::new` cannot panic since `cursor ≤ cursor + next_index`. Fuel = remaining length + 1. -/
def parseLoop (cls : Cls) (ext : Ext) : Nat → Nat → List Char → Except Panic (List Tok)
  | 0, _, _ => .error .outOfFuel
  | fuel + 1, cursor, rest =>
    match rest with
    | [] => .ok []
    | _ :: _ =>
      match lexToken cls ext cursor rest with
      | none => .error .assertFail
      | some (k, n) =>
        match parseLoop cls ext fuel (cursor + n) (rest.drop n) with
        | .ok ts => .ok (⟨⟨cursor, cursor + n⟩, k⟩ :: ts)
        | .error e => .error e

def parsePlain (cls : Cls) (ext : Ext) (src : List Char) : Except Panic (List Tok) :=
  parseLoop cls ext (src.length + 1) 0 src

end Harper
