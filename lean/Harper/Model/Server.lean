/-!
# `harper-ls/src/backend.rs` as interleavable atomic segments

Import-free. The model is about WHICH text / configuration / dictionary a publication is computed
from, not about what the diagnostics are: a publication is the record (`Pub`) of its inputs.

* `State`  — the server's `config`, `doc_state` map, the files it reads and writes (documents on
  disk, user dictionary, per-file dictionaries) and what it has published.
* `Seg`    — one atomic piece of a handler: the code between two `.await`s of `backend.rs`.
  `tower-lsp` polls at most four handler futures on one task, so segments never overlap in time;
  they interleave. The only await whose completion the client controls is the
  `workspace/configuration` round trip (`Seg.pull`) that every document update starts with.
* `prog`   — the segment list of each handler, read off the code.
* `runSeq` — one handler alone, configuration requests answered at once.
* `Sys`, `Act`, `micro`, `settle`, `macroStep` — up to four handlers in flight; a schedule is a
  list of client actions (`recv` a message, `reply` to the i-th oldest configuration request) and,
  for finer interleavings, `step id`.
-/
namespace Harper.Server

abbrev Url := Nat
/-- configuration version: which client configuration a value was taken from -/
abbrev CfgV := Nat
abbrev Word := Nat

/-- A text version. `idents` names the set of identifiers `create_ident_dict` extracts from it
(tree-sitter languages only); `0` = the empty set. -/
structure Text where
  ver : Nat
  idents : Nat
  deriving DecidableEq, Repr, Inhabited

/-- `language_id` as far as `update_document` distinguishes: a tree-sitter language (`ts`: ident
dictionary + `CollapseIdentifiers`), `markdown`, `plain` (and the other parsers without an ident
dictionary), or an id no parser exists for. -/
inductive Lang where
  | plain | markdown | ts | unknown
  deriving DecidableEq, Repr, Inhabited

/-- `DocumentState`, by provenance. -/
structure Doc where
  text : Text
  lang : Lang
  /-- configuration `markdown_options` / `isolate_english` were copied from when `document` was built -/
  parseCfg : CfgV
  /-- configuration `lint_config` / `dialect` were copied from when `linter` was built -/
  lintCfg : CfgV
  /-- `dict`: the user-dictionary words it was loaded with -/
  dictUser : List Word
  /-- `dict`: the file-dictionary words it was loaded with -/
  dictFile : List Word
  /-- `dict`: `some i` when the identifier dictionary `i` is merged into it (a fourth child) -/
  dictIdent : Option Nat
  /-- `ident_dict` (`0` = the default, empty one) -/
  identDict : Nat
  /-- `ignored_lints` holds the client's ignore request -/
  ignored : Bool
  deriving DecidableEq, Repr

/-- What a non-empty `publishDiagnostics` was computed from. -/
structure Pub where
  text : Text
  lang : Lang
  /-- configuration `diagnostic_severity` was read from (at publish time) -/
  sevCfg : CfgV
  lintCfg : CfgV
  parseCfg : CfgV
  dictUser : List Word
  dictFile : List Word
  dictIdent : Option Nat
  ignored : Bool
  deriving DecidableEq, Repr

inductive Out where
  | never            -- nothing published yet
  | empty            -- `diagnostics: []`
  | diag (p : Pub)
  deriving DecidableEq, Repr

structure State where
  /-- `Backend::config` -/
  config : CfgV
  /-- `Backend::doc_state` -/
  docs : Url → Option Doc
  /-- document files on disk -/
  disk : Url → Option Text
  /-- the user-dictionary file (`[]` = missing or empty: `load_dict` errors become an empty dictionary) -/
  userDict : List Word
  /-- the per-document dictionary files -/
  fileDict : Url → List Word
  /-- last publication per URL -/
  outbox : Url → Out
  /-- every publication, newest first -/
  log : List (Url × Out)
  /-- every URL ever inserted into `doc_state` -/
  seen : List Url
  /-- a `didChangeConfiguration` handler was given a key order that is not an enumeration of `doc_state` -/
  badOrder : Bool

def State.init : State :=
  { config := 0, docs := fun _ => none, disk := fun _ => none, userDict := [], fileDict := fun _ => [],
    outbox := fun _ => .never, log := [], seen := [], badOrder := false }

/-- handler-local variables that live across awaits -/
structure Regs where
  /-- number of following segments to skip (early `return` / `?` of the Rust code) -/
  skip : Nat := 0
  /-- the configuration the client's reply carried -/
  reply : CfgV := 0
  /-- configuration copied by `update_document` (`lint_config, markdown_options, isolate_english, dialect`) -/
  rcfg : CfgV := 0
  /-- user / file dictionary as loaded -/
  du : List Word := []
  df : List Word := []
  /-- the text to install: from the notification, or read from disk -/
  txt : Option Text := none
  /-- configuration `diagnostic_severity` was copied from -/
  sev : CfgV := 0
  deriving Repr

inductive Seg where
  /-- `client.configuration(..).await`: send the request, wait for the client -/
  | pull
  /-- `update_config_from_obj`: `config.write().await; *config = new`. `some k`: the settings of a
      `didChangeConfiguration`; `none`: the pulled reply -/
  | cfgWrite (k : Option CfgV)
  /-- `config.read().await` at the top of `update_document` -/
  | cfgRead
  /-- `load_user_dictionary` -/
  | loadUser
  /-- `load_file_dictionary(url)` -/
  | loadFile (u : Url)
  /-- `dict.append_word(w); save_user_dictionary(dict)` on the copy loaded before -/
  | saveUser (w : Word)
  | saveFile (u : Url) (w : Word)
  /-- `tokio::fs::read_to_string(url)`; on error the next `skip` segments are not executed -/
  | readDisk (u : Url) (skip : Nat)
  /-- `doc_state.lock().await` … end of `update_document` (entry-or-insert, dictionary comparison,
      ident dictionary, parser choice, `Document::new`) -/
  | replace (u : Url) (lang : Option Lang)
  /-- `config.read().await` of `generate_diagnostics` -/
  | sevRead
  /-- `doc_state.lock().await`, lint, `send_notification` -/
  | lintSend (u : Url)
  /-- `did_close` -/
  | close (u : Url)
  /-- `did_change_watched_files`, the URLs that match a deleted path -/
  | delete (us : List Url)
  /-- `HarperIgnoreLint`; when the document is not loaded the handler returns (skip) -/
  | ignore (u : Url) (skip : Nat)
  /-- `did_change_configuration`: new `LintGroup` for every document, collect the keys -/
  | rebuildAll (order : List Url)
  deriving DecidableEq, Repr

def setF {α} (f : Url → α) (u : Url) (a : α) : Url → α := fun v => if v = u then a else f v

/-- `MutableDictionary::append_word` followed by `words_iter`: a word already present is not added again -/
def addWord (w : Word) (l : List Word) : List Word := if w ∈ l then l else l ++ [w]

def publish (s : State) (u : Url) (o : Out) : State :=
  { s with outbox := setF s.outbox u o, log := (u, o) :: s.log }

/-- `doc_state.dict != dict`: `MergedDictionary` equality compares the list of child hashes
(curated, user, file [, ident]) -/
def dictDiffers (d : Doc) (du df : List Word) : Bool :=
  d.dictUser != du || d.dictFile != df || d.dictIdent.isSome

/-- The critical section of `update_document`: `rcfg` = the configuration copied at the top of the
function, `du`/`df` = the dictionaries as loaded, `t` = the text to install. -/
def replaceDoc (s : State) (rcfg : CfgV) (du df : List Word) (t : Text) (u : Url)
    (lang : Option Lang) : State :=
  let entry : Option Doc :=
    match s.docs u with
    | some d => some d
    | none => lang.map fun l =>
        { text := t, lang := l, parseCfg := rcfg, lintCfg := rcfg, dictUser := du,
          dictFile := df, dictIdent := none, identDict := 0, ignored := false }
  match entry with
  | none => s   -- fresh entry without a language id: removed again
  | some d =>
    let d := if dictDiffers d du df
      then { d with dictUser := du, dictFile := df, dictIdent := none, lintCfg := rcfg } else d
    match d.lang with
    | .unknown => { s with docs := setF s.docs u none }
    | .ts =>
      -- `use_ident_dict`: a changed identifier set reloads the dictionaries and merges it in
      let d := if d.identDict != t.idents
        then { d with identDict := t.idents, dictUser := s.userDict, dictFile := s.fileDict u,
                      dictIdent := some t.idents, lintCfg := rcfg }
        else d
      { s with docs := setF s.docs u (some { d with text := t, parseCfg := rcfg }),
               seen := if u ∈ s.seen then s.seen else u :: s.seen }
    | _ =>
      { s with docs := setF s.docs u (some { d with text := t, parseCfg := rcfg }),
               seen := if u ∈ s.seen then s.seen else u :: s.seen }

/-- what `generate_diagnostics` computes a document's diagnostics from -/
def pubOf (d : Doc) (sev : CfgV) : Pub :=
  { text := d.text, lang := d.lang, sevCfg := sev, lintCfg := d.lintCfg, parseCfg := d.parseCfg,
    dictUser := d.dictUser, dictFile := d.dictFile, dictIdent := d.dictIdent, ignored := d.ignored }

def lintSendDoc (s : State) (sev : CfgV) (u : Url) : State :=
  match s.docs u with
  | none => publish s u .empty
  | some d => publish s u (.diag (pubOf d sev))

def deleteDocs (s : State) : List Url → State
  | [] => s
  | u :: us =>
    match s.docs u with
    | none => deleteDocs s us
    | some _ => deleteDocs (publish { s with docs := setF s.docs u none } u .empty) us

/-- `order` enumerates exactly the keys of `doc_state` -/
def validOrder (s : State) (order : List Url) : Bool :=
  order.all (fun v => (s.docs v).isSome) &&
  s.seen.all (fun v => (s.docs v).isNone || order.contains v) &&
  order.length == (order.eraseDups).length

/-- one segment other than `pull` -/
def step (s : State) (r : Regs) : Seg → State × Regs
  | .pull => (s, r)
  | .cfgWrite (some k) => ({ s with config := k }, r)
  | .cfgWrite none => ({ s with config := r.reply }, r)
  | .cfgRead => (s, { r with rcfg := s.config })
  | .loadUser => (s, { r with du := s.userDict })
  | .loadFile u => (s, { r with df := s.fileDict u })
  | .saveUser w => ({ s with userDict := addWord w r.du }, r)
  | .saveFile u w => ({ s with fileDict := setF s.fileDict u (addWord w r.df) }, r)
  | .readDisk u k =>
    match s.disk u with
    | none => (s, { r with skip := k })
    | some t => (s, { r with txt := some t })
  | .replace u lang =>
    match r.txt with
    | none => (s, r)
    | some t => (replaceDoc s r.rcfg r.du r.df t u lang, r)
  | .sevRead => (s, { r with sev := s.config })
  | .lintSend u => (lintSendDoc s r.sev u, r)
  | .close u => (publish { s with docs := setF s.docs u none } u .empty, r)
  | .delete us => (deleteDocs s us, r)
  | .ignore u k =>
    match s.docs u with
    | none => (s, { r with skip := k })
    | some d => ({ s with docs := setF s.docs u (some { d with ignored := true }) }, r)
  | .rebuildAll order =>
    ({ s with docs := fun v => (s.docs v).map fun d => { d with lintCfg := s.config },
              badOrder := s.badOrder || !validOrder s order }, r)

/-! ## handler programs -/

/-- `update_document(url, text, language_id)`; the text is in `Regs.txt` -/
def update (u : Url) (lang : Option Lang) : List Seg :=
  [.pull, .cfgWrite none, .cfgRead, .loadUser, .loadFile u, .replace u lang]

/-- `publish_diagnostics(url)` -/
def publishSegs (u : Url) : List Seg := [.sevRead, .lintSend u]

/-- `update_document_from_file(url, None)` followed by `publish_diagnostics(url)` (the publication
happens whether or not the file could be read) -/
def rereadAndPublish (u : Url) : List Seg := .readDisk u 6 :: update u none ++ publishSegs u

inductive Msg where
  | didOpen (u : Url) (l : Lang) (t : Text)
  | didChange (u : Url) (t : Text)
  | didSave (u : Url)
  | didClose (u : Url)
  | deleted (us : List Url)
  /-- `order`: the iteration order of `doc_lock.keys()` (a `HashMap`) -/
  | didChangeConfiguration (k : CfgV) (order : List Url)
  | addUser (w : Word) (u : Url)
  | addFile (w : Word) (u : Url)
  | ignore (u : Url)
  /-- any other request (`workspace/executeCommand` with an unknown command) -/
  | noop
  deriving Repr

def prog : Msg → List Seg × Regs
  | .didOpen u l t => (update u (some l) ++ publishSegs u, { txt := some t })
  | .didChange u t => (update u none ++ publishSegs u, { txt := some t })
  | .didSave u => (rereadAndPublish u, {})
  | .didClose u => ([.close u], {})
  | .deleted us => ([.delete us], {})
  | .didChangeConfiguration k order =>
    (.cfgWrite (some k) :: .rebuildAll order :: order.flatMap rereadAndPublish, {})
  | .addUser w u => (.loadUser :: .saveUser w :: rereadAndPublish u, {})
  | .addFile w u => (.loadFile u :: .saveFile u w :: rereadAndPublish u, {})
  | .ignore u => (.ignore u 2 :: publishSegs u, {})
  | .noop => ([], {})

/-! ## one handler at a time -/

/-- run a handler's segments to completion; every configuration request is answered with `ck` at once -/
def runSeq (ck : CfgV) : State → Regs → List Seg → State
  | s, _, [] => s
  | s, r, seg :: rest =>
    if r.skip > 0 then runSeq ck s { r with skip := r.skip - 1 } rest
    else match seg with
      | .pull => runSeq ck s { r with reply := ck } rest
      | seg => runSeq ck (step s r seg).1 (step s r seg).2 rest

def handle (ck : CfgV) (s : State) (m : Msg) : State := runSeq ck s (prog m).2 (prog m).1

/-! ## up to four handlers in flight -/

structure Handler where
  id : Nat
  segs : List Seg
  regs : Regs
  /-- blocked in `Seg.pull` (request sent, reply outstanding) -/
  waiting : Bool
  deriving Repr

structure Sys where
  st : State
  run : List Handler
  /-- messages received while four handlers were in flight (`buffer_unordered(4)`) -/
  queue : List (List Seg × Regs)
  /-- ids of the handlers waiting for a configuration reply, oldest request first -/
  pend : List Nat
  nextId : Nat

def Sys.init (s : State) : Sys := { st := s, run := [], queue := [], pend := [], nextId := 0 }

def maxConcurrency : Nat := 4

def startOrQueue (y : Sys) (p : List Seg × Regs) : Sys :=
  if y.run.length < maxConcurrency then
    { y with run := y.run ++ [{ id := y.nextId, segs := p.1, regs := p.2, waiting := false }],
             nextId := y.nextId + 1 }
  else { y with queue := y.queue ++ [p] }

def setHandler (h : Handler) : List Handler → List Handler
  | [] => []
  | g :: gs => if g.id = h.id then h :: gs else g :: setHandler h gs

def dropHandler (id : Nat) : List Handler → List Handler
  | [] => []
  | g :: gs => if g.id = id then gs else g :: dropHandler id gs

def findHandler (id : Nat) : List Handler → Option Handler
  | [] => none
  | g :: gs => if g.id = id then some g else findHandler id gs

/-- one step of handler `id` (nothing happens when it waits for the client or does not exist) -/
def stepHandler (y : Sys) (id : Nat) : Sys :=
  match findHandler id y.run with
  | none => y
  | some h =>
    if h.waiting then y else
    match h.segs with
    | [] =>
      -- finished: its slot goes to the oldest queued message
      let y := { y with run := dropHandler id y.run }
      match y.queue with
      | [] => y
      | p :: q => startOrQueue { y with queue := q } p
    | seg :: rest =>
      if h.regs.skip > 0 then
        { y with run := setHandler { h with segs := rest, regs := { h.regs with skip := h.regs.skip - 1 } } y.run }
      else match seg with
        | .pull => { y with run := setHandler { h with waiting := true } y.run, pend := y.pend ++ [id] }
        | seg =>
          let (s, r) := step y.st h.regs seg
          { y with st := s, run := setHandler { h with segs := rest, regs := r } y.run }

def removeNth {α} : Nat → List α → List α
  | _, [] => []
  | 0, _ :: xs => xs
  | n + 1, x :: xs => x :: removeNth n xs

/-- the client answers the `idx`-th oldest configuration request with configuration `k` -/
def reply (y : Sys) (idx : Nat) (k : CfgV) : Sys :=
  match y.pend[idx]? with
  | none => y
  | some id =>
    match findHandler id y.run with
    | none => y
    | some h =>
      { y with pend := removeNth idx y.pend,
               run := setHandler { h with waiting := false, segs := h.segs.drop 1, regs := { h.regs with reply := k } } y.run }

inductive Act where
  | recv (m : Msg)
  | reply (idx : Nat) (k : CfgV)
  | step (id : Nat)
  /-- the client (not the server) writes or removes a document file -/
  | disk (u : Url) (t : Option Text)
  deriving Repr

def micro (y : Sys) : Act → Sys
  | .recv m => startOrQueue y (prog m)
  | .reply i k => reply y i k
  | .step id => stepHandler y id
  | .disk u t => { y with st := { y.st with disk := setF y.st.disk u t } }

/-- first handler that can take a step -/
def runnable : List Handler → Option Nat
  | [] => none
  | h :: hs => if h.waiting then runnable hs else some h.id

/-- let the server run until every handler in flight waits for the client -/
def settle : Nat → Sys → Sys
  | 0, y => y
  | fuel + 1, y =>
    match runnable y.run with
    | none => y
    | some id => settle fuel (stepHandler y id)

def settleFuel : Nat := 4096

/-- a client action followed by the server running until it is idle — what the harness does -/
def macroStep (y : Sys) (a : Act) : Sys := settle settleFuel (micro y a)

def runMacro (y : Sys) (as : List Act) : Sys := as.foldl macroStep y

def runMicro (y : Sys) (as : List Act) : Sys := as.foldl micro y

/-- publications of `u`, oldest first -/
def pubsOf (s : State) (u : Url) : List Out :=
  (s.log.reverse.filter (fun p => p.1 == u)).map (·.2)

/-! ## the client's side: what the last word ought to be -/

/-- What the client knows: its buffers (text and language of every open document), its current
configuration version, and which documents it has asked to ignore the lint in (since they were
opened). -/
structure Client where
  buf : Url → Option (Text × Lang)
  ck : CfgV
  ign : Url → Bool

def Client.init : Client := { buf := fun _ => none, ck := 0, ign := fun _ => false }

/-- the effect of sending a message on the client's own state -/
def clientStep (c : Client) : Msg → Client
  | .didOpen u l t => { c with buf := setF c.buf u (some (t, l)), ign := setF c.ign u false }
  | .didChange u t =>
    match c.buf u with
    | some (_, l) => { c with buf := setF c.buf u (some (t, l)) }
    | none => c
  | .didClose u => { c with buf := setF c.buf u none, ign := setF c.ign u false }
  | .deleted us =>
    { c with buf := fun v => if v ∈ us then none else c.buf v,
             ign := fun v => if v ∈ us then false else c.ign v }
  | .didChangeConfiguration k _ => { c with ck := k }
  | .ignore u =>
    match c.buf u with
    | some (_, l) => if l = .unknown then c else { c with ign := setF c.ign u true }
    | none => c
  | _ => c

/-- the identifier dictionary a brand-new `DocumentState` of this text would have merged -/
def freshIdent (l : Lang) (t : Text) : Option Nat :=
  if l = .ts ∧ t.idents ≠ 0 then some t.idents else none

/-- **The specification**: what a fresh lint of the newest text the client sent for `u`, under the
client's current configuration and the dictionaries as they are now, is computed from — and
"no diagnostics" for documents that are closed, deleted or of a language no parser exists for. -/
def truth (c : Client) (s : State) (u : Url) : Out :=
  match c.buf u with
  | none => .empty
  | some (t, l) =>
    if l = .unknown then .empty
    else .diag { text := t, lang := l, sevCfg := c.ck, lintCfg := c.ck, parseCfg := c.ck,
                 dictUser := s.userDict, dictFile := s.fileDict u, dictIdent := freshIdent l t,
                 ignored := c.ign u }

/-- the property C09 for one URL: the last publication is the truth (a document that was never
opened may also have no publication at all) -/
def LatestAt (c : Client) (s : State) (u : Url) : Prop :=
  s.outbox u = truth c s u ∨ (c.buf u = none ∧ s.outbox u = .never)

def Latest (c : Client) (s : State) : Prop := ∀ u, LatestAt c s u

/-- `LatestAt` is decidable (the driver op `srvseq` prints it per URL) -/
instance (c : Client) (s : State) (u : Url) : Decidable (LatestAt c s u) := by
  unfold LatestAt; infer_instance

/-- a history step: the client touches a file, or sends a message -/
inductive Op where
  | disk (u : Url) (t : Option Text)
  | msg (m : Msg)
  deriving Repr

/-- one step of a history executed ONE HANDLER AT A TIME: the handler runs to completion, every
configuration request answered at once with the client's configuration -/
def seqStep (w : Client × State) : Op → Client × State
  | .disk u t => (w.1, { w.2 with disk := setF w.2.disk u t })
  | .msg m => (clientStep w.1 m, handle (clientStep w.1 m).ck w.2 m)

def seqRun (w : Client × State) (ops : List Op) : Client × State := ops.foldl seqStep w

/-- `disk = buffer` for `u`, if the client has it open -/
def DiskIsBuf (c : Client) (s : State) (u : Url) : Prop :=
  ∀ t l, c.buf u = some (t, l) → s.disk u = some t

/-- The side conditions of `sequential_latest_partial`, per step:
* a client opens only documents it has closed, and (tree-sitter languages) the texts it sends
  contain no identifiers — otherwise `c09-ident-dict-dropped` applies;
* `didSave`, add-to-dictionary and `didChangeConfiguration` happen when the file on disk holds the
  buffer of the affected open documents — otherwise `c09-reread-from-disk` applies;
* `order` (the `HashMap` iteration order of the configuration handler) enumerates `doc_state`;
* a word is added to the user dictionary only while no OTHER document is loaded (or it is already
  in the dictionary) — otherwise `c09-user-dict-other-docs` applies. -/
def OpOk (c : Client) (s : State) : Op → Prop
  | .disk _ _ => True
  | .msg (.didOpen u l t) => c.buf u = none ∧ (l = .ts → t.idents = 0)
  | .msg (.didChange u t) => ∀ t0, c.buf u = some (t0, .ts) → t.idents = 0
  | .msg (.didSave u) => DiskIsBuf c s u
  | .msg (.didChangeConfiguration _ order) =>
    (∀ u, DiskIsBuf c s u) ∧ (∀ u, u ∈ order ↔ (s.docs u).isSome = true)
  | .msg (.addUser w u) => DiskIsBuf c s u ∧ (w ∈ s.userDict ∨ ∀ v, v ≠ u → s.docs v = none)
  | .msg (.addFile _ u) => DiskIsBuf c s u
  | .msg _ => True

/-- every step of the history satisfies its side condition in the state it is executed in -/
def HistOk : Client × State → List Op → Prop
  | _, [] => True
  | w, op :: ops => OpOk w.1 w.2 op ∧ HistOk (seqStep w op) ops

/-- What `didChangeConfiguration` needs of a document to bring it up to date — the STRUCTURE of the
`DocumentState`, nothing about how current it is: a loaded document of the client's language,
no identifier dictionary, the client's ignore request; closed documents not loaded. The text, all
three configuration facets, the dictionaries, `Backend::config` and the last publication are
arbitrary (e.g. left behind by updates that pulled a configuration the client never announced). -/
def WeakAt (c : Client) (s : State) (u : Url) : Prop :=
  match c.buf u with
  | none => s.docs u = none ∧ (s.outbox u = .empty ∨ s.outbox u = .never)
  | some (t, l) =>
    (l = .ts → t.idents = 0) ∧
    if l = .unknown then s.docs u = none ∧ s.outbox u = .empty
    else ∃ d, s.docs u = some d ∧ d.lang = l ∧ d.dictIdent = none ∧ d.identDict = 0 ∧
      d.ignored = c.ign u

/-- the client side of an arbitrary schedule -/
def clientOfAct (c : Client) : Act → Client
  | .recv m => clientStep c m
  | _ => c

def clientAfter (as : List Act) : Client := as.foldl clientOfAct Client.init

/-! ## the schedule of a history executed one handler at a time

`seqRun` is the big-step reading of "one handler at a time"; `seqActs` is the same history as a list
of CLIENT ACTIONS for the scheduler (`runMacro`): every message is followed at once by the answers to
its handler's configuration requests, each carrying the client's configuration. The driver op
`srvseq` runs both on the same `Op` list; `Lemmas/Server.lean` (`macro_is_seq`) proves they end in
the same state. -/

/-- the number of `Seg.pull` of a program: an upper bound of the configuration requests its handler
sends (a `readDisk` that fails skips one). Answers nobody waits for are ignored by `reply`. -/
def pullCount : List Seg → Nat
  | [] => 0
  | .pull :: rest => pullCount rest + 1
  | _ :: rest => pullCount rest

/-- the client's side of one history step -/
def clientOfOp (c : Client) : Op → Client
  | .disk _ _ => c
  | .msg m => clientStep c m

/-- one history step as client actions: the message, then one answer (to the oldest — the only —
outstanding request, with the client's configuration) per configuration request of its handler -/
def actsOfOp (c : Client) : Op → List Act
  | .disk u t => [.disk u t]
  | .msg m => .recv m :: List.replicate (pullCount (prog m).1) (.reply 0 (clientStep c m).ck)

/-- the sequential schedule of a history, for a client that starts as `c` -/
def seqActs : Client → List Op → List Act
  | _, [] => []
  | c, op :: ops => actsOfOp c op ++ seqActs (clientOfOp c op) ops

end Harper.Server
