/-!
# Effect traces of Harper's entry points (C10)

Import-free. What each library entry point and each `harper-ls` handler does to the outside world,
as a list of effects read off the code (`harper-ls/src/{main,backend,dictionary_io}.rs`,
`harper-stats/src/lib.rs`). The theorem side is deliberately shallow: the model CAN only perform
the effects listed here, and the harness compares the list with a syscall trace of the real code.

`file_dict_name` (dictionary_io.rs) is modelled on characters: how a document path is rewritten
into ONE file name inside the file-dictionary directory.
-/
namespace Harper.Effects

/-- a path as its list of components below the root (absolute paths only) -/
abbrev Path := List (List Char)

inductive Eff where
  | readFile (p : Path)
  /-- `File::create`: create or truncate, then write -/
  | createFile (p : Path)
  /-- `OpenOptions::new().read(true).append(true).create(true)` -/
  | appendFile (p : Path)
  /-- `create_dir_all` -/
  | mkdirs (p : Path)
  /-- `TcpListener::bind(addr)` -/
  | listen (ip : List Nat) (port : Nat)
  | accept
  /-- effects no entry point has; they are in the type so that "never happens" is a statement -/
  | connect (ip : List Nat) (port : Nat)
  | resolve (host : List Char)
  | sendDatagram (ip : List Nat) (port : Nat)
  /-- `open::that(url)` of the `HarperOpen` command: starts the desktop's URL handler (out of scope) -/
  | spawnOpener (url : List Char)
  deriving DecidableEq, Repr

/-! ## `file_dict_name` -/

/-- split at `/` -/
def splitSlash : List Char → List (List Char)
  | [] => [[]]
  | c :: cs =>
    match splitSlash cs with
    | [] => [[c]]
    | g :: gs => if c = '/' then [] :: g :: gs else (c :: g) :: gs

/-- `Path::components()` of an absolute Unix path, without the `RootDir`: empty components (repeated
slashes) and `.` are dropped, `..` is kept (`ParentDir`) -/
def components (path : List Char) : List (List Char) :=
  (splitSlash path).filter (fun c => c ≠ [] ∧ c ≠ ['.'])

/-- `file_dict_name`: every component followed by `%` -/
def fileDictName (path : List Char) : List Char :=
  (components path).flatMap (fun c => c ++ ['%'])

/-- `PathBuf::join(name)` for a directory given by its components: an absolute `name` replaces the
base; otherwise its components are appended (`..` is NOT resolved by `join`; the kernel would) -/
def joinName (dir : Path) (name : List Char) : Path :=
  if name.head? = some '/' then components name else dir ++ components name

/-! ## configured paths and entry points -/

structure Paths where
  /-- `config.user_dict_path` -/
  userDict : Path
  /-- `config.file_dict_path` -/
  fileDir : Path
  /-- `config.stats_path` -/
  stats : Path

def parent (p : Path) : Path := p.dropLast

/-- `Path::parent()` of an ABSOLUTE path given by its components: `None` for the root `/` (no
component), otherwise the path without its last component (the parent of `/a` is the root, `[]`).
`save_dict` and `save_stats` do `if let Some(parent) = path.parent() { create_dir_all(parent) }`,
so for the root path there is NO `mkdir` at all. -/
def parent? : Path → Option Path
  | [] => none
  | p => some (parent p)

/-- `if let Some(parent) = q.parent() { create_dir_all(parent) }` -/
def mkParent (q : Path) : List Eff :=
  match parent? q with
  | none => []
  | some d => [.mkdirs d]

/-- `save_dict(q, …)` (dictionary_io.rs): make the directory that contains `q`, then `File::create(q)` -/
def saveDictEff (q : Path) : List Eff := mkParent q ++ [.createFile q]

/-- `save_stats` (backend.rs): make the directory that contains the statistics file, then open it
for appending (`create(true)`) -/
def saveStatsEff (q : Path) : List Eff := mkParent q ++ [.appendFile q]

/-- the per-document dictionary file -/
def fileDictPath (P : Paths) (doc : List Char) : Path := joinName P.fileDir (fileDictName doc)

inductive Entry where
  /-- `Document::new` with any parser; `LintGroup::lint`; everything in harper-core / harper-comments
      / harper-html / harper-typst / harper-literate-haskell (the curated dictionary is compiled in) -/
  | library
  /-- any method of `harper_wasm::Linter` (dictionary, ignore list and statistics are strings
      handed to the caller) -/
  | wasm
  /-- `harper-ls --stdio` -/
  | startStdio
  /-- `harper-ls` (TCP): `TcpListener::bind("127.0.0.1:4000")`, one `accept` -/
  | startTcp
  /-- `harper-ls` (TCP) while `127.0.0.1:4000` is taken by another process: `bind` fails,
      `.unwrap()` panics, the process ends — no listener on any other address, no `accept` -/
  | startTcpTaken
  /-- `didOpen` / `didChange`: `update_document` loads both dictionaries; `twice` = the identifier
      dictionary changed, so `use_ident_dict` loads them again -/
  | update (doc : List Char) (twice : Bool)
  /-- `didSave`: reads the document from disk first (`exists` = the read succeeded) -/
  | save (doc : List Char) (fileExists : Bool) (twice : Bool)
  | close
  | deleted
  /-- `didChangeConfiguration`: re-reads every open document -/
  | configuration (docs : List (List Char × Bool × Bool))
  | addUser (doc : List Char) (fileExists : Bool) (twice : Bool)
  | addFile (doc : List Char) (fileExists : Bool) (twice : Bool)
  | ignoreLint
  | recordLint
  | codeAction
  /-- `HarperOpen` -/
  | openUrl (url : List Char)
  /-- `shutdown`: `save_stats` -/
  | shutdown
  deriving Repr

/-- `generate_file_dictionary(url)` -/
def loadDicts (P : Paths) (doc : List Char) : List Eff :=
  [.readFile P.userDict, .readFile (fileDictPath P doc)]

def updateEff (P : Paths) (doc : List Char) (twice : Bool) : List Eff :=
  loadDicts P doc ++ (if twice then loadDicts P doc else [])

/-- `update_document_from_file(url)` -/
def rereadEff (P : Paths) (doc : List Char) (fileExists twice : Bool) : List Eff :=
  .readFile (components doc) :: (if fileExists then updateEff P doc twice else [])

def trace (P : Paths) : Entry → List Eff
  | .library => []
  | .wasm => []
  | .startStdio => []
  | .startTcp => [.listen [127, 0, 0, 1] 4000, .accept]
  | .startTcpTaken => []
  | .update doc twice => updateEff P doc twice
  | .save doc e twice => rereadEff P doc e twice
  | .close => []
  | .deleted => []
  | .configuration docs => docs.flatMap fun d => rereadEff P d.1 d.2.1 d.2.2
  | .addUser doc e twice =>
    [.readFile P.userDict] ++ saveDictEff P.userDict ++ rereadEff P doc e twice
  | .addFile doc e twice =>
    [.readFile (fileDictPath P doc)] ++ saveDictEff (fileDictPath P doc) ++ rereadEff P doc e twice
  | .ignoreLint => []
  | .recordLint => []
  | .codeAction => []
  | .openUrl url => [.spawnOpener url]
  | .shutdown => saveStatsEff P.stats

def traceAll (P : Paths) (h : List Entry) : List Eff := h.flatMap (trace P)

def Entry.isTcp : Entry → Bool
  | .startTcp => true
  | _ => false

def Eff.isNetwork : Eff → Bool
  | .connect _ _ | .resolve _ | .sendDatagram _ _ => true
  | _ => false

/-- the path an effect writes (creates, truncates, appends to, or makes directories for) -/
def Eff.written : Eff → Option Path
  | .createFile p | .appendFile p | .mkdirs p => some p
  | _ => none

/-! ## what an effect can CREATE

`create_dir_all(p)` is not one `mkdir`: it makes `p` AND every ancestor of `p` that does not exist
yet (`mkdir p` → `ENOENT` → `create_dir_all(p.parent())` → `mkdir p`). The root always exists, so
what it can create is every NON-ROOT prefix of `p`; which of them it does create depends on the
file system (`dirsCreated` below). -/

/-- the non-empty prefixes of a component list, shortest first: `/a`, `/a/b`, …, `p` itself -/
def nonRootPrefixes : Path → List Path
  | [] => []
  | c :: cs => [c] :: (nonRootPrefixes cs).map (c :: ·)

/-- every path an effect MAY bring into existence: `mkdirs p` ↦ every non-root prefix of `p`
(the ancestors `create_dir_all` makes when they are missing, and `p`); `createFile` / `appendFile`
(`create(true)`) ↦ the file -/
def Eff.created : Eff → List Path
  | .mkdirs p => nonRootPrefixes p
  | .createFile p | .appendFile p => [p]
  | _ => []

/-- lexical `..` resolution (what the kernel does when no symlink is involved) -/
def normDots : Path → Path → Path
  | acc, [] => acc.reverse
  | acc, c :: cs => if c = ['.', '.'] then normDots (acc.drop 1) cs else normDots (c :: acc) cs

/-- The directories the `mkdirs` effects of `es` DO create on a file system whose existing
directories are `existing` and their ancestors (no symbolic links, nothing removed meanwhile): the
`..`-resolved prefixes that are not there yet (the root — what `/w/..` resolves to — always is). This is what the harness observes (new
directories after the real `save_dict`; successful `mkdir` calls of a traced server). -/
def dirsCreated (existing : List Path) (es : List Eff) : List Path :=
  ((es.filter fun e => match e with | .mkdirs _ => true | _ => false).flatMap Eff.created).map (normDots [])
    |>.filter fun q => !q.isEmpty && !(existing.any fun x => q.isPrefixOf x)

end Harper.Effects
