import Harper.Lemmas.LintGroup
/-!
# C05 — lint results depend only on text, language, dictionary and configuration

Property theorems only. Model: `Harper/Model/LintGroup.lean` — `LintGroup::lint` with its
`chunk_pattern_cache` as an LRU list of arbitrary capacity, keyed by
`(chunk content, configuration)` where the chunk content `γ` is the chunk's characters AND its
tokens' kinds and spans relative to the chunk start (the key of the current code; before the fix
`131eac6` the tokens were missing and the property was false across languages).

`H_loc` — a pattern rule's output, relative to the chunk start, depends only on the chunk content
and whether the rule is enabled — is the *type* of `Rules.pat` (`γ → List PLint`), so it is built
into every statement below rather than being a hypothesis; the harness monitors it on the real
rules (same chunk at different offsets / in different documents). Whole-document rules are
functions of the document (`δ → List PLint`); the one stateful whole-document rule, `SpellCheck`,
is treated separately (`spell_history_independent`). The 64-bit key hash is modelled as injective.
Threads and processes are not modelled (exercised by the harness only).
-/
namespace Harper.C05
open Harper Harper.LG

variable {κ δ γ : Type} [DecidableEq κ] [DecidableEq γ]

/-- `cache_inv`, base: the empty cache satisfies the invariant
"every entry `((g, c), v)` has `v = compute R c g`". -/
theorem cache_inv_init (R : Rules κ δ γ) : CacheInv R ([] : Cache κ γ) := Lru.inv_nil _

/-- `cache_inv`, step: `lint` preserves the invariant (whatever the capacity, the configuration,
the document) — and a `setConfig` does not touch the cache. -/
theorem cache_inv_step (R : Rules κ δ γ) (cap : Nat) (s : State κ γ) (op : Op κ δ γ)
    (h : CacheInv R s.cache) : CacheInv R (step R cap s op).1.cache := by
  cases op with
  | setConfig c => exact h
  | lint d => exact (lint_spec R cap s.cfg d h).2

/-- `cache_inv`: every state reachable from a fresh group by any history satisfies the invariant -/
theorem cache_inv (R : Rules κ δ γ) (cap : Nat) (c₀ : Cfg κ) (ops : List (Op κ δ γ)) :
    CacheInv R (exec R cap ⟨c₀, []⟩ ops).cache := by
  suffices h : ∀ (s : State κ γ), CacheInv R s.cache → CacheInv R (exec R cap s ops).cache from
    h _ (cache_inv_init R)
  induction ops with
  | nil => intro s hs; exact hs
  | cons op ops ih => intro s hs; exact ih _ (cache_inv_step R cap s op hs)

/-- under the invariant the cache is unobservable: a long-lived group returns what a fresh group
(of any capacity) returns -/
theorem lint_cache_unobservable (R : Rules κ δ γ) (cap cap' : Nat) (st : Cache κ γ) (c : Cfg κ)
    (d : Doc δ γ) (h : CacheInv R st) : (lint R cap st c d).1 = (lint R cap' [] c d).1 := by
  rw [(lint_spec R cap c d h).1, (lint_spec R cap' c d (Lru.inv_nil _)).1]

/-- History independence, from any state satisfying the invariant. -/
theorem lint_history_independent_from (R : Rules κ δ γ) (cap : Nat) (s : State κ γ)
    (ops : List (Op κ δ γ)) (h : CacheInv R s.cache) :
    run R cap s ops = runFresh R cap s.cfg ops := by
  induction ops generalizing s with
  | nil => rfl
  | cons op ops ih =>
    cases op with
    | setConfig c =>
      show run R cap { s with cfg := c } ops = runFresh R cap c ops
      exact ih { s with cfg := c } h
    | lint d =>
      have hs := lint_spec R cap s.cfg d h
      show (lint R cap s.cache s.cfg d).1 :: run R cap { s with cache := (lint R cap s.cache s.cfg d).2 } ops
        = (lint R cap [] s.cfg d).1 :: runFresh R cap s.cfg ops
      rw [lint_cache_unobservable R cap cap s.cache s.cfg d h]
      congr 1
      exact ih { s with cache := (lint R cap s.cache s.cfg d).2 } hs.2

/-- **History independence.** For EVERY sequence of operations (`setConfig c` | `lint doc`), every
capacity and every initial configuration, on one long-lived group starting from the empty cache,
every `lint` returns exactly (lints and their order) what a brand-new group with the then-current
configuration returns for that document. -/
theorem lint_history_independent (R : Rules κ δ γ) (cap : Nat) (c₀ : Cfg κ)
    (ops : List (Op κ δ γ)) : run R cap ⟨c₀, []⟩ ops = runFresh R cap c₀ ops :=
  lint_history_independent_from R cap ⟨c₀, []⟩ ops (cache_inv_init R)

/-- the capacity is unobservable too -/
theorem capacity_unobservable (R : Rules κ δ γ) (cap cap' : Nat) (c₀ : Cfg κ)
    (ops : List (Op κ δ γ)) : run R cap ⟨c₀, []⟩ ops = run R cap' ⟨c₀, []⟩ ops := by
  rw [lint_history_independent, lint_history_independent]
  induction ops generalizing c₀ with
  | nil => rfl
  | cons op ops ih =>
    cases op with
    | setConfig c => exact ih c
    | lint d =>
      show (lint R cap [] c₀ d).1 :: runFresh R cap c₀ ops = (lint R cap' [] c₀ d).1 :: runFresh R cap' c₀ ops
      rw [lint_cache_unobservable R cap cap' [] c₀ d (Lru.inv_nil _), ih c₀]

/-- the cache never grows beyond its capacity (`NonZero`: at least one entry) -/
theorem cache_bounded (R : Rules κ δ γ) (cap : Nat) (c₀ : Cfg κ) (ops : List (Op κ δ γ)) :
    (exec R cap ⟨c₀, []⟩ ops).cache.length ≤ max cap 1 := by
  suffices h : ∀ (s : State κ γ), s.cache.length ≤ max cap 1 →
      (exec R cap s ops).cache.length ≤ max cap 1 from h _ (by simp)
  induction ops with
  | nil => intro s hs; exact hs
  | cons op ops ih =>
    intro s hs
    apply ih
    cases op with
    | setConfig c => exact hs
    | lint d => exact lintChunks_length R cap s.cfg d.chunks hs

/-- C11's `unknown_keys_harmless` through the cache: an unknown key changes the cache key, so it
can only cost misses. Whatever the history (any state with the invariant), linting under `c₂` gives
what a fresh group gives under any `c₁` that agrees with `c₂` on every registered rule. -/
theorem unknown_keys_harmless_cached (R : Rules κ δ γ) (cap : Nat) (st : Cache κ γ)
    (c₁ c₂ : Cfg κ) (d : Doc δ γ) (hst : CacheInv R st)
    (h : ∀ r ∈ R.doc.map (·.1) ++ R.pat.map (·.1), isEnabled c₁ r = isEnabled c₂ r) :
    (lint R cap st c₂ d).1 = (lint R cap [] c₁ d).1 := by
  rw [(lint_spec R cap c₂ d hst).1, (lint_spec R cap c₁ d (Lru.inv_nil _)).1]
  exact (lintSpec_congr R d h).symm

/-- The same for `SpellCheck.word_cache`: from any cache state whose entries are what `suggest`
computes (in particular from any state reached from the empty cache), the lints for a document's
words are those of a fresh `SpellCheck` — one lint per unknown word, built from `suggest w`. The key
is the exact word (`Teh` and `teh` are different keys), and truncation / capitalisation (`post`)
happens after the lookup on a clone, so it cannot leak into the cache. -/
theorem spell_history_independent {ω σ : Type} [DecidableEq ω] (known : ω → Bool)
    (suggest : ω → σ) (post : ω → σ → PLint) (cap cap' : Nat) (st : Lru ω σ) (ws : List ω)
    (h : Lru.Inv suggest st) :
    (spellLint known suggest post cap st ws).1 = (spellLint known suggest post cap' [] ws).1 ∧
      Lru.Inv suggest (spellLint known suggest post cap st ws).2 := by
  have a := spellLint_spec known suggest post cap ws h
  have b := spellLint_spec known suggest post cap' ws (Lru.inv_nil suggest)
  exact ⟨by rw [a.1, b.1], a.2⟩

/-- The same over a whole history of documents: after ANY list of earlier documents `hist` checked by
one long-lived `SpellCheck` (empty word cache at the start, any capacity), the lints for the next
document are those of a fresh `SpellCheck`. -/
theorem spell_history_independent_seq {ω σ : Type} [DecidableEq ω] (known : ω → Bool)
    (suggest : ω → σ) (post : ω → σ → PLint) (cap cap' : Nat) (hist : List (List ω)) (ws : List ω) :
    (spellLint known suggest post cap
        (hist.foldl (fun st d => (spellLint known suggest post cap st d).2) []) ws).1 =
      (spellLint known suggest post cap' [] ws).1 := by
  have hinv : ∀ (st : Lru ω σ), Lru.Inv suggest st →
      Lru.Inv suggest (hist.foldl (fun st d => (spellLint known suggest post cap st d).2) st) := by
    induction hist with
    | nil => intro st h; exact h
    | cons d ds ih =>
      intro st h
      exact ih _ (spell_history_independent known suggest post cap cap st d h).2
  exact (spell_history_independent known suggest post cap cap' _ ws (hinv [] (Lru.inv_nil _))).1

/-- The property in one line: after ANY history `hist` (documents and configuration changes, any
capacity) on a group that started with an empty cache, linting `d` gives exactly what a brand-new
group (of any capacity `cap'`) with the configuration then in force gives. -/
theorem lint_after_any_history (R : Rules κ δ γ) (cap cap' : Nat) (c₀ : Cfg κ)
    (hist : List (Op κ δ γ)) (d : Doc δ γ) :
    (lint R cap (exec R cap ⟨c₀, []⟩ hist).cache (exec R cap ⟨c₀, []⟩ hist).cfg d).1 =
      (lint R cap' [] (exec R cap ⟨c₀, []⟩ hist).cfg d).1 :=
  lint_cache_unobservable R cap cap' _ _ d (cache_inv R cap c₀ hist)

/-! ## Non-vacuity: a concrete history with hits, misses and evictions (capacity 2) -/

/-- two pattern rules (2, 3) and a whole-document rule (1); chunk contents are numbers -/
def exR : Rules Nat Nat Nat where
  doc := [(1, fun d => [⟨d, d + 1, 10⟩])]
  pat := [(2, fun g => [⟨g, g + 2, 20⟩]), (3, fun g => if g = 7 then [⟨0, 1, 30⟩] else [])]

def cOn : Cfg Nat := [(1, some true), (2, some true), (3, some true)]
def cOff3 : Cfg Nat := [(1, some true), (2, some true), (3, some false)]

def exOps : List (Op Nat Nat Nat) :=
  [.lint ⟨0, [(10, 7), (20, 8)]⟩,      -- miss 7, miss 8
   .lint ⟨1, [(50, 7)]⟩,               -- hit 7 at another offset
   .setConfig cOff3,
   .lint ⟨2, [(0, 7)]⟩,                -- miss (7, cOff3): evicts (8, cOn), the least recently used
   .setConfig cOn,
   .lint ⟨3, [(5, 8), (9, 7)]⟩]        -- miss 8 again (evicts (7, cOn)), then miss 7 (evicts (7, cOff3))

example : run exR 2 ⟨cOn, []⟩ exOps =
    [[⟨0, 1, 10⟩, ⟨17, 19, 20⟩, ⟨10, 11, 30⟩, ⟨28, 30, 20⟩],
     [⟨1, 2, 10⟩, ⟨57, 59, 20⟩, ⟨50, 51, 30⟩],
     [⟨2, 3, 10⟩, ⟨7, 9, 20⟩],
     [⟨3, 4, 10⟩, ⟨13, 15, 20⟩, ⟨16, 18, 20⟩, ⟨9, 10, 30⟩]] := by decide

/-- after the first lint both chunks are cached, most recent first: the second lint is a hit -/
example : (exec exR 2 ⟨cOn, []⟩ (exOps.take 1)).cache =
    [((8, cOn), [⟨8, 10, 20⟩]), ((7, cOn), [⟨7, 9, 20⟩, ⟨0, 1, 30⟩])] := by decide
example : Lru.find (7, cOn) (exec exR 2 ⟨cOn, []⟩ (exOps.take 1)).cache =
    some [⟨7, 9, 20⟩, ⟨0, 1, 30⟩] := by decide

/-- the hit moved `(7, cOn)` to the front, so the next miss evicts `(8, cOn)` -/
example : (exec exR 2 ⟨cOn, []⟩ (exOps.take 4)).cache =
    [((7, cOff3), [⟨7, 9, 20⟩]), ((7, cOn), [⟨7, 9, 20⟩, ⟨0, 1, 30⟩])] := by decide

/-- at the end three distinct keys have been evicted; the cache holds `cap = 2` entries -/
example : (exec exR 2 ⟨cOn, []⟩ exOps).cache =
    [((7, cOn), [⟨7, 9, 20⟩, ⟨0, 1, 30⟩]), ((8, cOn), [⟨8, 10, 20⟩])] := by decide

/-- capacity 1: every other lookup evicts; same results -/
example : run exR 1 ⟨cOn, []⟩ exOps = run exR 2 ⟨cOn, []⟩ exOps := by decide

/-- why the tokens must be part of the key (the defect fixed by `131eac6`): two chunk contents
with the same characters but different tokens are different `γ`s, hence different keys; here
`(chars, toks)` pairs — plain text then Markdown of the same characters -/
def exRtok : Rules Nat Nat (Nat × Nat) where
  doc := []
  pat := [(2, fun g => if g.2 = 1 then [⟨0, 5, 20⟩] else [])]

example : run exRtok 9 ⟨[(2, some true)], []⟩ [.lint ⟨0, [(0, (7, 0))]⟩, .lint ⟨0, [(0, (7, 1))]⟩] =
    [[], [⟨0, 5, 20⟩]] := by decide

/-- `SpellCheck`: `Teh` (1) and `teh` (2) are different keys; word 3 is known; capacity 1 evicts -/
example : (spellLint (fun w => w == 3) (fun w => w * 10) (fun w s => ⟨w, w, s⟩) 1 [] [1, 3, 2, 1, 1]).1 =
    [⟨1, 1, 10⟩, ⟨2, 2, 20⟩, ⟨1, 1, 10⟩, ⟨1, 1, 10⟩] := by decide

/-- the non-empty cache the first lint of `exOps` leaves behind -/
theorem exCache_inv : CacheInv exR [((8, cOn), [⟨8, 10, 20⟩]), ((7, cOn), [⟨7, 9, 20⟩, ⟨0, 1, 30⟩])] := by
  have := cache_inv exR 2 cOn (exOps.take 1)
  have e : (exec exR 2 ⟨cOn, []⟩ (exOps.take 1)).cache =
      [((8, cOn), [⟨8, 10, 20⟩]), ((7, cOn), [⟨7, 9, 20⟩, ⟨0, 1, 30⟩])] := by decide
  rwa [e] at this

/-- non-vacuity of cache_inv_step -/
example : CacheInv exR (step exR 2 ⟨cOn, [((8, cOn), [⟨8, 10, 20⟩]), ((7, cOn), [⟨7, 9, 20⟩, ⟨0, 1, 30⟩])]⟩
    (.lint ⟨2, [(0, 7), (3, 9)]⟩)).1.cache :=
  cache_inv_step exR 2 ⟨cOn, _⟩ _ exCache_inv

/-- non-vacuity of lint_cache_unobservable: a hit (chunk 7) and a miss (chunk 9) on a two-entry
cache of capacity 2 give what a fresh group of capacity 5 gives -/
example : (lint exR 2 [((8, cOn), [⟨8, 10, 20⟩]), ((7, cOn), [⟨7, 9, 20⟩, ⟨0, 1, 30⟩])] cOn ⟨2, [(0, 7), (3, 9)]⟩).1 =
    (lint exR 5 [] cOn ⟨2, [(0, 7), (3, 9)]⟩).1 :=
  lint_cache_unobservable exR 2 5 _ cOn _ exCache_inv

/-- non-vacuity of lint_history_independent_from: the rest of `exOps` from that state -/
example : run exR 2 ⟨cOn, [((8, cOn), [⟨8, 10, 20⟩]), ((7, cOn), [⟨7, 9, 20⟩, ⟨0, 1, 30⟩])]⟩ (exOps.drop 1) =
    runFresh exR 2 cOn (exOps.drop 1) :=
  lint_history_independent_from exR 2 ⟨cOn, _⟩ _ exCache_inv

/-- non-vacuity of unknown_keys_harmless_cached: an unknown key 9 (on) and an unknown key 8 (off) -/
example : (lint exR 2 [((8, cOn), [⟨8, 10, 20⟩]), ((7, cOn), [⟨7, 9, 20⟩, ⟨0, 1, 30⟩])]
      (cOn ++ [(9, some true), (8, some false)]) ⟨2, [(0, 7)]⟩).1 = (lint exR 2 [] cOn ⟨2, [(0, 7)]⟩).1 :=
  unknown_keys_harmless_cached exR 2 _ cOn _ _ exCache_inv (by decide)

/-- non-vacuity of spell_history_independent: a cache that already holds `1 ↦ 10` -/
example : (spellLint (fun w => w == 3) (fun w => w * 10) (fun w s => ⟨w, w, s⟩) 1 [(1, 10)] [1, 3, 2]).1 =
    (spellLint (fun w => w == 3) (fun w => w * 10) (fun w s => ⟨w, w, s⟩) 4 [] [1, 3, 2]).1 :=
  (spell_history_independent _ _ _ 1 4 [(1, 10)] [1, 3, 2]
    (by intro e he; simp at he; subst he; rfl)).1

/-- a capacity of 0 behaves as 1 (`NonZero`): same results, one entry -/
example : run exR 0 ⟨cOn, []⟩ exOps = run exR 2 ⟨cOn, []⟩ exOps := by decide
example : (exec exR 0 ⟨cOn, []⟩ exOps).cache = [((7, cOn), [⟨7, 9, 20⟩, ⟨0, 1, 30⟩])] := by decide

/-- the property read on the example: the long-lived results are the fresh ones, lint by lint -/
example : run exR 2 ⟨cOn, []⟩ exOps = runFresh exR 2 cOn exOps := lint_history_independent exR 2 cOn exOps
example : (runFresh exR 2 cOn exOps).length = 4 := by decide

/-- `lint_after_any_history` on the example: the configuration in force after `exOps.take 3` is
`cOff3`, the cache is not empty, and chunk 7 under `cOff3` has not been seen -/
example : (lint exR 2 (exec exR 2 ⟨cOn, []⟩ (exOps.take 3)).cache cOff3 ⟨2, [(0, 7)]⟩).1 =
    (lint exR 9 [] cOff3 ⟨2, [(0, 7)]⟩).1 :=
  lint_after_any_history exR 2 9 cOn (exOps.take 3) ⟨2, [(0, 7)]⟩

/-- `spell_history_independent_seq`: two earlier documents, capacity 1 -/
example : (spellLint (fun w => w == 3) (fun w => w * 10) (fun w s => ⟨w, w, s⟩) 1
      ([[1, 2], [2, 3, 4]].foldl (fun st d => (spellLint (fun w => w == 3) (fun w => w * 10) (fun w s => ⟨w, w, s⟩) 1 st d).2) [])
      [4, 1]).1 = [⟨4, 4, 40⟩, ⟨1, 1, 10⟩] := by decide


end Harper.C05
