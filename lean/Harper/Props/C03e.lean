import Harper.Lemmas.Rules2
import Harper.Lemmas.Rules2Walk
import Harper.Lemmas.Rules2Pat
import Harper.Props.C03
import Harper.Props.C03b
import Harper.Props.C03c
/-!
# C03 (hand-written rules, batch 2) — spans point into the text; suggestions are local edits

For the thirteen rules of `Model/Rules2.lean` (compared lint for lint with the real struct rule, run alone, on
every run of the check):

* `<rule>_spans_wf`: on the tokens of a document (`Tiles toks 0 src.length` — what `document_tiles` proves of
  every plain-English document) the rule returns — no `Span::new`, `get_span_content`, slice, `unwrap` or
  subtraction panic — and every lint has `start ≤ stop ≤ src.length` (`RunsWF`). The rules built around a
  pattern tree need no token order (`…_spans_wf_any_order`: well-formed tokens inside the text, zero-width ones
  included — what the Markdown front-end delivers); the four rules that do index arithmetic over the whole
  document (CommaFixes, MergeWords, AdjectiveOfA, InflectedVerbAfterTo: `Span::new(first.start, last.end)`) need the text order, with
  a kernel-checked witness that they panic without it.
* OxfordComma's `matched_toks[conj_index - 2]` is safe under `ConjOK`: every word that `WordSet[and, or, nor]`
  accepts is a conjunction for the dictionary (monitored on every real document; the word list is ASCII and
  the dictionary lower-cases). Without it the subtraction underflows: kernel-checked witness.
* `suggestions_local`: **every suggestion of every lint of a run that `RunsWF` is a local edit**: the modelled
  `Suggestion::apply` returns `src[..start] ++ new ++ src[end..]` (from `apply_spec` of `Props/C03.lean`);
  instantiated for each rule (`<rule>_suggestions_local`).
-/
namespace Harper.C03
open Harper Harper.Chunks Harper.Rules Harper.Leaves Harper.Rules2
open Harper.C12 (docRule env0 noExt)
open Harper.C02 (asciiCls)

/-! ## suggestions are local edits -/

/-- a rule's suggestion as the `Suggestion` of `Model/Suggestion.lean` -/
def toSuggestion : Sugg → Suggestion Char
  | .replaceWith cs => .replaceWith cs
  | .remove => .remove
  | .insertAfter cs => .insertAfter cs

/-- every suggestion of every lint applies, and changes the text only inside the lint's span -/
def SuggestionsLocal (r : PieceRule) (src : List Char) (toks : List Tok) : Prop :=
  ∀ ls, r src toks = .ok ls → ∀ l ∈ ls, ∀ sg ∈ l.suggs,
    (toSuggestion sg).apply l.span src =
      .ok (src.take l.span.start ++ (toSuggestion sg).newText ((src.drop l.span.start).take (l.span.stop - l.span.start)) ++
        src.drop l.span.stop)

/-- **a run whose lints point into the text offers only local edits** -/
theorem suggestions_local (r : PieceRule) (src : List Char) (toks : List Tok) (h : RunsWF r src toks) :
    SuggestionsLocal r src toks := by
  obtain ⟨ls, e, hl⟩ := h
  intro ls' e' l hlm sg _
  rw [e] at e'
  cases e'
  exact apply_spec (toSuggestion sg) src l.span (hl l hlm).1 (hl l hlm).2

/-- non-vacuity of `suggestions_local` (and of `SuggestionsLocal`, which alone says nothing of a run that panics: every
`<rule>_suggestions_local` below carries the hypotheses of `<rule>_spans_wf`, which gives `.ok`): a run that returns the
lint `0..1` / `I` on the tiling tokens of `i ate`; the theorem gives the splice `I ate` -/
example : (toSuggestion (.replaceWith ['I'])).apply ⟨0, 1⟩ ['i', ' ', 'a', 't', 'e'] = .ok ['I', ' ', 'a', 't', 'e'] :=
  suggestions_local (ruleCapitalizePersonalPronouns env0) ['i', ' ', 'a', 't', 'e'] [⟨⟨0, 1⟩, .word⟩, ⟨⟨1, 2⟩, .space 1⟩, ⟨⟨2, 5⟩, .word⟩]
    ⟨[⟨⟨0, 1⟩, [.replaceWith ['I']], 22, 0⟩], by decide, by decide⟩ [⟨⟨0, 1⟩, [.replaceWith ['I']], 22, 0⟩] (by decide)
    ⟨⟨0, 1⟩, [.replaceWith ['I']], 22, 0⟩ (List.mem_singleton.mpr rfl) (.replaceWith ['I']) (List.mem_singleton.mpr rfl)

/-! ## the per-token rules -/

theorem spelledNumbers_spans_wf (env : Env) (src : List Char) (toks : List Tok) (h : Tiles toks 0 src.length) :
    RunsWF (ruleSpelledNumbers env) src toks :=
  perTok_ok _ _ src toks (fun t ht => spelledNumbers_ok env _ src t ((ord_of_tiles toks _ h).2 t ht))
/-- non-vacuity of `spelledNumbers_spans_wf`: the tokens of `i ate 9.` tile the text and the rule fires -/
example : Tiles [⟨⟨0, 1⟩, .word⟩, ⟨⟨1, 2⟩, .space 1⟩, ⟨⟨2, 5⟩, .word⟩, ⟨⟨5, 6⟩, .space 1⟩, ⟨⟨6, 7⟩, .number 10 none⟩, ⟨⟨7, 8⟩, .punct .Period⟩] 0 (['i', ' ', 'a', 't', 'e', ' ', '9', '.']).length ∧
    ruleSpelledNumbers ({ env0 with numVal := fun _ => .int 9 }) ['i', ' ', 'a', 't', 'e', ' ', '9', '.']
      [⟨⟨0, 1⟩, .word⟩, ⟨⟨1, 2⟩, .space 1⟩, ⟨⟨2, 5⟩, .word⟩, ⟨⟨5, 6⟩, .space 1⟩, ⟨⟨6, 7⟩, .number 10 none⟩, ⟨⟨7, 8⟩, .punct .Period⟩] =
    .ok [⟨⟨6, 7⟩, [.replaceWith ['n', 'i', 'n', 'e']], 21, 0⟩] := by decide

theorem capitalizePersonalPronouns_spans_wf (env : Env) (src : List Char) (toks : List Tok) (h : Tiles toks 0 src.length) :
    RunsWF (ruleCapitalizePersonalPronouns env) src toks :=
  perTok_ok _ _ src toks (fun t ht => capitalizePronoun_ok src t ((ord_of_tiles toks _ h).2 t ht))
/-- non-vacuity of `capitalizePersonalPronouns_spans_wf`: the tokens of `i ate 9.` tile the text and the rule fires -/
example : Tiles [⟨⟨0, 1⟩, .word⟩, ⟨⟨1, 2⟩, .space 1⟩, ⟨⟨2, 5⟩, .word⟩, ⟨⟨5, 6⟩, .space 1⟩, ⟨⟨6, 7⟩, .number 10 none⟩, ⟨⟨7, 8⟩, .punct .Period⟩] 0 (['i', ' ', 'a', 't', 'e', ' ', '9', '.']).length ∧
    ruleCapitalizePersonalPronouns (env0) ['i', ' ', 'a', 't', 'e', ' ', '9', '.']
      [⟨⟨0, 1⟩, .word⟩, ⟨⟨1, 2⟩, .space 1⟩, ⟨⟨2, 5⟩, .word⟩, ⟨⟨5, 6⟩, .space 1⟩, ⟨⟨6, 7⟩, .number 10 none⟩, ⟨⟨7, 8⟩, .punct .Period⟩] =
    .ok [⟨⟨0, 1⟩, [.replaceWith ['I']], 22, 0⟩] := by decide

theorem avoidCurses_spans_wf (env : Env) (src : List Char) (toks : List Tok) (h : Tiles toks 0 src.length) :
    RunsWF (ruleAvoidCurses env) src toks :=
  perTok_ok _ _ src toks (fun t ht => avoidCurses_ok env _ src t ((ord_of_tiles toks _ h).2 t ht))
/-- non-vacuity of `avoidCurses_spans_wf`: the tokens of `damn it` tile the text and the rule fires -/
example : Tiles [⟨⟨0, 4⟩, .word⟩, ⟨⟨4, 5⟩, .space 1⟩, ⟨⟨5, 7⟩, .word⟩] 0 (['d', 'a', 'm', 'n', ' ', 'i', 't']).length ∧
    ruleAvoidCurses ({ env0 with wordFlags := fun w => if w == ['d', 'a', 'm', 'n'] then 262144 else 0 }) ['d', 'a', 'm', 'n', ' ', 'i', 't']
      [⟨⟨0, 4⟩, .word⟩, ⟨⟨4, 5⟩, .space 1⟩, ⟨⟨5, 7⟩, .word⟩] =
    .ok [⟨⟨0, 4⟩, [], 23, 0⟩] := by decide

theorem wordPressDotcom_spans_wf (env : Env) (src : List Char) (toks : List Tok) (h : Tiles toks 0 src.length) :
    RunsWF (ruleWordPressDotcom env) src toks :=
  perTok_ok _ _ src toks (fun t ht => wordPress_ok env src t ((ord_of_tiles toks _ h).2 t ht))
/-- non-vacuity of `wordPressDotcom_spans_wf`: the tokens of `wordpress.com` tile the text and the rule fires -/
example : Tiles [⟨⟨0, 13⟩, .hostname⟩] 0 (['w', 'o', 'r', 'd', 'p', 'r', 'e', 's', 's', '.', 'c', 'o', 'm']).length ∧
    ruleWordPressDotcom (env0) ['w', 'o', 'r', 'd', 'p', 'r', 'e', 's', 's', '.', 'c', 'o', 'm']
      [⟨⟨0, 13⟩, .hostname⟩] =
    .ok [⟨⟨0, 13⟩, [.replaceWith ['W', 'o', 'r', 'd', 'P', 'r', 'e', 's', 's', '.', 'c', 'o', 'm']], 24, 0⟩] := by decide

/-! ## LinkingVerbs -/

theorem linkingVerbs_spans_wf (env : Env) (src : List Char) (toks : List Tok) (h : Tiles toks 0 src.length) :
    RunsWF (ruleLinkingVerbs env) src toks :=
  overPieces_ok _ _ _ src toks (ord_of_tiles toks _ h) (fun piece ho => linkingVerbs_ok env src piece ho)
/-- non-vacuity of `linkingVerbs_spans_wf`: the tokens of `quick is` tile the text and the rule fires -/
example : Tiles [⟨⟨0, 5⟩, .word⟩, ⟨⟨5, 6⟩, .space 1⟩, ⟨⟨6, 8⟩, .word⟩] 0 (['q', 'u', 'i', 'c', 'k', ' ', 'i', 's']).length ∧
    ruleLinkingVerbs ({ env0 with wordFlags := fun w => if w == ['q', 'u', 'i', 'c', 'k'] then 32768 else if w == ['i', 's'] then 2048 else 0 }) ['q', 'u', 'i', 'c', 'k', ' ', 'i', 's']
      [⟨⟨0, 5⟩, .word⟩, ⟨⟨5, 6⟩, .space 1⟩, ⟨⟨6, 8⟩, .word⟩] =
    .ok [⟨⟨6, 8⟩, [], 25, 0⟩] := by decide

/-! ## the per-token rules and LinkingVerbs need no token order either (stronger siblings of the `Tiles` versions) -/

/-- **CapitalizePersonalPronouns on well-formed tokens inside the text, in any order, zero-width ones included** (the
Markdown shape): the rule reads one token at a time -/
theorem capitalizePersonalPronouns_spans_wf_any_order (env : Env) (src : List Char) (toks : List Tok) (h : InText src toks) :
    RunsWF (ruleCapitalizePersonalPronouns env) src toks :=
  perTok_ok _ _ src toks (fun t ht => by
    have hin := h t ht
    simp only [capitalizePronounTok]
    split
    · exact ⟨[], rfl, by simp⟩
    · obtain ⟨cs, e⟩ := getContent_ok' t.span src hin.1 hin.2
      rw [e]
      simp only []
      split
      · exact ⟨_, rfl, fun l hl => by rw [List.mem_singleton.mp hl]; exact hin⟩
      · exact ⟨[], rfl, by simp⟩)
/-- non-vacuity of `capitalizePersonalPronouns_spans_wf_any_order`: tokens of the Markdown parser's shape (a zero-width `ParagraphBreak` at offset 0 AFTER the words of `i ate 9.`) are `InText`, not in text order, and the rule fires -/
example : InText ['i', ' ', 'a', 't', 'e', ' ', '9', '.']
      [⟨⟨0, 1⟩, .word⟩, ⟨⟨1, 2⟩, .space 1⟩, ⟨⟨2, 5⟩, .word⟩, ⟨⟨5, 6⟩, .space 1⟩, ⟨⟨6, 7⟩, .number 10 none⟩, ⟨⟨7, 8⟩, .punct .Period⟩, ⟨⟨0, 0⟩, .paragraphBreak⟩] ∧
    ruleCapitalizePersonalPronouns (env0) ['i', ' ', 'a', 't', 'e', ' ', '9', '.']
      [⟨⟨0, 1⟩, .word⟩, ⟨⟨1, 2⟩, .space 1⟩, ⟨⟨2, 5⟩, .word⟩, ⟨⟨5, 6⟩, .space 1⟩, ⟨⟨6, 7⟩, .number 10 none⟩, ⟨⟨7, 8⟩, .punct .Period⟩, ⟨⟨0, 0⟩, .paragraphBreak⟩] =
    .ok [⟨⟨0, 1⟩, [.replaceWith ['I']], 22, 0⟩] := ⟨by unfold InText TokIn; decide, by decide⟩

/-- the same for WordPressDotcom -/
theorem wordPressDotcom_spans_wf_any_order (env : Env) (src : List Char) (toks : List Tok) (h : InText src toks) :
    RunsWF (ruleWordPressDotcom env) src toks :=
  perTok_ok _ _ src toks (fun t ht => by
    have hin := h t ht
    simp only [wordPressTok]
    split
    · exact ⟨[], rfl, by simp⟩
    · obtain ⟨cs, e⟩ := getContent_ok' t.span src hin.1 hin.2
      rw [e]
      simp only []
      split
      · exact ⟨_, rfl, fun l hl => by rw [List.mem_singleton.mp hl]; exact hin⟩
      · exact ⟨[], rfl, by simp⟩)
/-- non-vacuity of `wordPressDotcom_spans_wf_any_order`: tokens of the Markdown parser's shape (a zero-width `ParagraphBreak` at offset 0 AFTER the words of `wordpress.com`) are `InText`, not in text order, and the rule fires -/
example : InText ['w', 'o', 'r', 'd', 'p', 'r', 'e', 's', 's', '.', 'c', 'o', 'm']
      [⟨⟨0, 13⟩, .hostname⟩, ⟨⟨0, 0⟩, .paragraphBreak⟩] ∧
    ruleWordPressDotcom (env0) ['w', 'o', 'r', 'd', 'p', 'r', 'e', 's', 's', '.', 'c', 'o', 'm']
      [⟨⟨0, 13⟩, .hostname⟩, ⟨⟨0, 0⟩, .paragraphBreak⟩] =
    .ok [⟨⟨0, 13⟩, [.replaceWith ['W', 'o', 'r', 'd', 'P', 'r', 'e', 's', 's', '.', 'c', 'o', 'm']], 24, 0⟩] := ⟨by unfold InText TokIn; decide, by decide⟩

/-- **LinkingVerbs in any order**: its loop over the chunk only remembers the last word token -/
theorem linkingVerbs_spans_wf_any_order (env : Env) (src : List Char) (toks : List Tok) (h : InText src toks) :
    RunsWF (ruleLinkingVerbs env) src toks :=
  overPieces_okh inText_hyp _ _ src toks h (fun piece hp => by
    have go : ∀ (ts : List Tok), InText src ts → ∀ prev : Option Tok,
        ∃ ls, linkingGo env src prev ts = .ok ls ∧ ∀ l ∈ ls, LintOK src.length l := by
      intro ts
      induction ts with
      | nil => intro _ _; exact ⟨[], rfl, by simp⟩
      | cons t ts ih =>
        intro hts prev
        have ht := hts t (by simp)
        obtain ⟨r, er, hr⟩ := ih (fun u hu => hts u (List.mem_cons_of_mem _ hu)) (if t.kind.isWord = true then some t else prev)
        have hat : ∃ l, linkingAt env src prev t = .ok l ∧ ∀ x ∈ l, LintOK src.length x := by
          simp only [linkingAt]
          split
          · cases prev with
            | none => exact ⟨[], rfl, by simp⟩
            | some p =>
              simp only []
              split
              · obtain ⟨cs, e⟩ := getContent_ok' t.span src ht.1 ht.2
                rw [e]
                exact ⟨_, rfl, fun l hl => by rw [List.mem_singleton.mp hl]; exact ht⟩
              · exact ⟨[], rfl, by simp⟩
          · exact ⟨[], rfl, by simp⟩
        obtain ⟨l, el, hl⟩ := hat
        refine ⟨l ++ r, by simp only [linkingGo, el, er], ?_⟩
        intro x hx
        rcases List.mem_append.mp hx with hx | hx
        · exact hl x hx
        · exact hr x hx
    exact go piece hp none)
/-- non-vacuity of `linkingVerbs_spans_wf_any_order`: tokens of the Markdown parser's shape (a zero-width `ParagraphBreak` at offset 0 AFTER the words of `quick is`) are `InText`, not in text order, and the rule fires -/
example : InText ['q', 'u', 'i', 'c', 'k', ' ', 'i', 's']
      [⟨⟨0, 5⟩, .word⟩, ⟨⟨5, 6⟩, .space 1⟩, ⟨⟨6, 8⟩, .word⟩, ⟨⟨0, 0⟩, .paragraphBreak⟩] ∧
    ruleLinkingVerbs ({ env0 with wordFlags := fun w => if w == ['q', 'u', 'i', 'c', 'k'] then 32768 else if w == ['i', 's'] then 2048 else 0 }) ['q', 'u', 'i', 'c', 'k', ' ', 'i', 's']
      [⟨⟨0, 5⟩, .word⟩, ⟨⟨5, 6⟩, .space 1⟩, ⟨⟨6, 8⟩, .word⟩, ⟨⟨0, 0⟩, .paragraphBreak⟩] =
    .ok [⟨⟨6, 8⟩, [], 25, 0⟩] := ⟨by unfold InText TokIn; decide, by decide⟩
/-! ## the rules that index the whole document -/

/-- `Span::new(space.start, comma.end)`, `toks.1.unwrap()`, `get_content(..).first().unwrap()` -/
theorem commaFixes_spans_wf (env : Env) (src : List Char) (toks : List Tok) (h : Tiles toks 0 src.length) :
    RunsWF (ruleCommaFixes env) src toks :=
  walkE_ok _ _ (fun pre suf ho => commaAt_ok src pre suf ho) toks [] (ord_of_tiles toks _ h)
/-- non-vacuity of `commaFixes_spans_wf`: the tokens of `foo ,bar` tile the text and the rule fires -/
example : Tiles [⟨⟨0, 3⟩, .word⟩, ⟨⟨3, 4⟩, .space 1⟩, ⟨⟨4, 5⟩, .punct .Comma⟩, ⟨⟨5, 8⟩, .word⟩] 0 (['f', 'o', 'o', ' ', ',', 'b', 'a', 'r']).length ∧
    ruleCommaFixes (env0) ['f', 'o', 'o', ' ', ',', 'b', 'a', 'r']
      [⟨⟨0, 3⟩, .word⟩, ⟨⟨3, 4⟩, .space 1⟩, ⟨⟨4, 5⟩, .punct .Comma⟩, ⟨⟨5, 8⟩, .word⟩] =
    .ok [⟨⟨3, 5⟩, [.replaceWith [',', ' ']], 26, 5⟩] := by decide

/-- the text order is needed: a blank positioned AFTER its comma → `Span::new(6, 3)` -/
example : ruleCommaFixes env0 ['a', 'b', ',', 'c', 'd', 'e', ' ']
    [⟨⟨0, 2⟩, .word⟩, ⟨⟨6, 7⟩, .space 1⟩, ⟨⟨2, 3⟩, .punct .Comma⟩, ⟨⟨3, 6⟩, .word⟩] = .error .spanNew := by decide

theorem mergeWords_spans_wf (env : Env) (src : List Char) (toks : List Tok) (h : Tiles toks 0 src.length) :
    RunsWF (ruleMergeWords env) src toks :=
  walkE_ok _ _ (fun pre suf ho => mergeAt_ok env src pre suf ho) toks [] (ord_of_tiles toks _ h)
/-- non-vacuity of `mergeWords_spans_wf`: the tokens of `The refore` tile the text and the rule fires -/
example : Tiles [⟨⟨0, 3⟩, .word⟩, ⟨⟨3, 4⟩, .space 1⟩, ⟨⟨4, 10⟩, .word⟩] 0 (['T', 'h', 'e', ' ', 'r', 'e', 'f', 'o', 'r', 'e']).length ∧
    ruleMergeWords ({ env0 with wordFlags := fun w => if w == ['T', 'h', 'e', 'r', 'e', 'f', 'o', 'r', 'e'] then 524288 else 0 }) ['T', 'h', 'e', ' ', 'r', 'e', 'f', 'o', 'r', 'e']
      [⟨⟨0, 3⟩, .word⟩, ⟨⟨3, 4⟩, .space 1⟩, ⟨⟨4, 10⟩, .word⟩] =
    .ok [⟨⟨0, 10⟩, [.replaceWith ['T', 'h', 'e', 'r', 'e', 'f', 'o', 'r', 'e']], 27, 0⟩] := by decide

theorem adjectiveOfA_spans_wf (env : Env) (src : List Char) (toks : List Tok) (h : Tiles toks 0 src.length) :
    RunsWF (ruleAdjectiveOfA env) src toks :=
  walkE_ok _ _ (fun pre suf ho => adjOfAAt_ok env src pre suf ho) toks [] (ord_of_tiles toks _ h)
/-- non-vacuity of `adjectiveOfA_spans_wf`: the tokens of `big  of a` tile the text and the rule fires -/
example : Tiles [⟨⟨0, 3⟩, .word⟩, ⟨⟨3, 5⟩, .space 2⟩, ⟨⟨5, 7⟩, .word⟩, ⟨⟨7, 8⟩, .space 1⟩, ⟨⟨8, 9⟩, .word⟩] 0 (['b', 'i', 'g', ' ', ' ', 'o', 'f', ' ', 'a']).length ∧
    ruleAdjectiveOfA ({ env0 with wordFlags := fun w => if w == ['b', 'i', 'g'] then 32776 else 0 }) ['b', 'i', 'g', ' ', ' ', 'o', 'f', ' ', 'a']
      [⟨⟨0, 3⟩, .word⟩, ⟨⟨3, 5⟩, .space 2⟩, ⟨⟨5, 7⟩, .word⟩, ⟨⟨7, 8⟩, .space 1⟩, ⟨⟨8, 9⟩, .word⟩] =
    .ok [⟨⟨0, 9⟩, [.replaceWith ['b', 'i', 'g', ' ', ' ', 'a'], .replaceWith ['b', 'i', 'g', ' ', 'a']], 31, 0⟩] := by decide

/-- `Span::new(prep.start, word.end)`, up to three times per window (`-ed` has two stems) -/
theorem inflectedVerbAfterTo_spans_wf (env : Env) (src : List Char) (toks : List Tok) (h : Tiles toks 0 src.length) :
    RunsWF (ruleInflectedVerbAfterTo env) src toks :=
  walkE_ok _ _ (fun pre suf ho => inflectedAt_ok env src pre suf ho) toks [] (ord_of_tiles toks _ h)
/-- non-vacuity of `inflectedVerbAfterTo_spans_wf`: the tokens of `to agreed` tile the text and the rule fires -/
example : Tiles [⟨⟨0, 2⟩, .word⟩, ⟨⟨2, 3⟩, .space 1⟩, ⟨⟨3, 9⟩, .word⟩] 0 (['t', 'o', ' ', 'a', 'g', 'r', 'e', 'e', 'd']).length ∧
    ruleInflectedVerbAfterTo ({ env0 with wordFlags := fun w => if w == ['t', 'o'] then 32769 else if w == ['a', 'g', 'r', 'e', 'e'] then 32896 else if w == ['a', 'g', 'r', 'e'] then 32896 else 0 }) ['t', 'o', ' ', 'a', 'g', 'r', 'e', 'e', 'd']
      [⟨⟨0, 2⟩, .word⟩, ⟨⟨2, 3⟩, .space 1⟩, ⟨⟨3, 9⟩, .word⟩] =
    .ok [⟨⟨0, 9⟩, [.replaceWith ['t', 'o', ' ', 'a', 'g', 'r', 'e']], 34, 0⟩, ⟨⟨0, 9⟩, [.replaceWith ['t', 'o', ' ', 'a', 'g', 'r', 'e', 'e']], 34, 0⟩] := by decide

/-! ## the rules around a pattern tree -/

/-- **OxfordComma on well-formed tokens inside the text, in any order**, when every `and` / `or` / `nor` is a
conjunction for the dictionary -/
theorem oxfordComma_spans_wf_any_order (env : Env) (src : List Char) (toks : List Tok) (h : InText src toks)
    (hc : ConjOK env src toks) : RunsWF (ruleOxfordComma env) src toks :=
  overPieces_okh (inTextConj_hyp env) _ _ src toks ⟨h, hc⟩ (fun piece hp => oxford_ok env src piece hp)
/-- non-vacuity of `oxfordComma_spans_wf_any_order`: tokens of the Markdown parser's shape (a zero-width `ParagraphBreak` at offset 0 AFTER the words of `so, cat and dog`) are `InText`, not in text order, and the rule fires -/
example : InText ['s', 'o', ',', ' ', 'c', 'a', 't', ' ', 'a', 'n', 'd', ' ', 'd', 'o', 'g']
      [⟨⟨0, 2⟩, .word⟩, ⟨⟨2, 3⟩, .punct .Comma⟩, ⟨⟨3, 4⟩, .space 1⟩, ⟨⟨4, 7⟩, .word⟩, ⟨⟨7, 8⟩, .space 1⟩, ⟨⟨8, 11⟩, .word⟩, ⟨⟨11, 12⟩, .space 1⟩, ⟨⟨12, 15⟩, .word⟩, ⟨⟨0, 0⟩, .paragraphBreak⟩] ∧
    ConjOK ({ env0 with wordFlags := fun w => if w == ['s', 'o'] then 32834 else if w == ['c', 'a', 't'] then 32832 else if w == ['d', 'o', 'g'] then 32832 else if w == ['a', 'n', 'd'] then 32770 else 0 }) ['s', 'o', ',', ' ', 'c', 'a', 't', ' ', 'a', 'n', 'd', ' ', 'd', 'o', 'g']
      [⟨⟨0, 2⟩, .word⟩, ⟨⟨2, 3⟩, .punct .Comma⟩, ⟨⟨3, 4⟩, .space 1⟩, ⟨⟨4, 7⟩, .word⟩, ⟨⟨7, 8⟩, .space 1⟩, ⟨⟨8, 11⟩, .word⟩, ⟨⟨11, 12⟩, .space 1⟩, ⟨⟨12, 15⟩, .word⟩, ⟨⟨0, 0⟩, .paragraphBreak⟩] ∧
    ruleOxfordComma ({ env0 with wordFlags := fun w => if w == ['s', 'o'] then 32834 else if w == ['c', 'a', 't'] then 32832 else if w == ['d', 'o', 'g'] then 32832 else if w == ['a', 'n', 'd'] then 32770 else 0 }) ['s', 'o', ',', ' ', 'c', 'a', 't', ' ', 'a', 'n', 'd', ' ', 'd', 'o', 'g']
      [⟨⟨0, 2⟩, .word⟩, ⟨⟨2, 3⟩, .punct .Comma⟩, ⟨⟨3, 4⟩, .space 1⟩, ⟨⟨4, 7⟩, .word⟩, ⟨⟨7, 8⟩, .space 1⟩, ⟨⟨8, 11⟩, .word⟩, ⟨⟨11, 12⟩, .space 1⟩, ⟨⟨12, 15⟩, .word⟩, ⟨⟨0, 0⟩, .paragraphBreak⟩] =
    .ok [⟨⟨4, 7⟩, [.insertAfter [',']], 29, 0⟩] := ⟨by unfold InText TokIn; decide, by unfold ConjOK; decide, by decide⟩

theorem oxfordComma_spans_wf (env : Env) (src : List Char) (toks : List Tok) (h : Tiles toks 0 src.length)
    (hc : ConjOK env src toks) : RunsWF (ruleOxfordComma env) src toks :=
  oxfordComma_spans_wf_any_order env src toks (inText_of_tiles src toks h) hc
/-- non-vacuity of `oxfordComma_spans_wf`: the tokens of `so, cat and dog` tile the text, `ConjOK` holds (`and` is a conjunction for this dictionary) and the rule fires -/
example : Tiles [⟨⟨0, 2⟩, .word⟩, ⟨⟨2, 3⟩, .punct .Comma⟩, ⟨⟨3, 4⟩, .space 1⟩, ⟨⟨4, 7⟩, .word⟩, ⟨⟨7, 8⟩, .space 1⟩, ⟨⟨8, 11⟩, .word⟩, ⟨⟨11, 12⟩, .space 1⟩, ⟨⟨12, 15⟩, .word⟩] 0 (['s', 'o', ',', ' ', 'c', 'a', 't', ' ', 'a', 'n', 'd', ' ', 'd', 'o', 'g']).length ∧
    ConjOK ({ env0 with wordFlags := fun w => if w == ['s', 'o'] then 32834 else if w == ['c', 'a', 't'] then 32832 else if w == ['d', 'o', 'g'] then 32832 else if w == ['a', 'n', 'd'] then 32770 else 0 }) ['s', 'o', ',', ' ', 'c', 'a', 't', ' ', 'a', 'n', 'd', ' ', 'd', 'o', 'g']
      [⟨⟨0, 2⟩, .word⟩, ⟨⟨2, 3⟩, .punct .Comma⟩, ⟨⟨3, 4⟩, .space 1⟩, ⟨⟨4, 7⟩, .word⟩, ⟨⟨7, 8⟩, .space 1⟩, ⟨⟨8, 11⟩, .word⟩, ⟨⟨11, 12⟩, .space 1⟩, ⟨⟨12, 15⟩, .word⟩] ∧
    ruleOxfordComma ({ env0 with wordFlags := fun w => if w == ['s', 'o'] then 32834 else if w == ['c', 'a', 't'] then 32832 else if w == ['d', 'o', 'g'] then 32832 else if w == ['a', 'n', 'd'] then 32770 else 0 }) ['s', 'o', ',', ' ', 'c', 'a', 't', ' ', 'a', 'n', 'd', ' ', 'd', 'o', 'g']
      [⟨⟨0, 2⟩, .word⟩, ⟨⟨2, 3⟩, .punct .Comma⟩, ⟨⟨3, 4⟩, .space 1⟩, ⟨⟨4, 7⟩, .word⟩, ⟨⟨7, 8⟩, .space 1⟩, ⟨⟨8, 11⟩, .word⟩, ⟨⟨11, 12⟩, .space 1⟩, ⟨⟨12, 15⟩, .word⟩] =
    .ok [⟨⟨4, 7⟩, [.insertAfter [',']], 29, 0⟩] := ⟨by decide, by unfold ConjOK; decide, by decide⟩

/-- a dictionary for which `so` is a nominal and a conjunction, `cat` and `dog` nominals, and `and` is NOT a
conjunction -/
def envNoConj : Env :=
  { env0 with wordFlags := fun w => if w == ['s', 'o'] then 2 + 64 + 32768 else if w == ['c', 'a', 't'] || w == ['d', 'o', 'g'] then 64 + 32768 else 0 }

/-- the text `so, cat and dog` and its tokens -/
def soCatSrc : List Char := ['s', 'o', ',', ' ', 'c', 'a', 't', ' ', 'a', 'n', 'd', ' ', 'd', 'o', 'g']
def soCatToks : List Tok :=
  [⟨⟨0, 2⟩, .word⟩, ⟨⟨2, 3⟩, .punct .Comma⟩, ⟨⟨3, 4⟩, .space 1⟩, ⟨⟨4, 7⟩, .word⟩, ⟨⟨7, 8⟩, .space 1⟩, ⟨⟨8, 11⟩, .word⟩,
  ⟨⟨11, 12⟩, .space 1⟩, ⟨⟨12, 15⟩, .word⟩]

example : (document asciiCls noExt soCatSrc).toOption = some soCatToks := by decide

/-- **without `ConjOK` the rule panics**: on `so, cat and dog` the last "conjunction" of the match is `so` at
index 0, and `conj_index - 2` underflows -/
example : ruleOxfordComma envNoConj soCatSrc soCatToks = .error .underflow := by decide

theorem noOxfordComma_spans_wf_any_order (env : Env) (src : List Char) (toks : List Tok) (h : InText src toks) :
    RunsWF (ruleNoOxfordComma env) src toks :=
  overPieces_okh inText_hyp _ _ src toks h (fun piece hp => noOxford_ok env src piece hp)
/-- non-vacuity of `noOxfordComma_spans_wf_any_order`: tokens of the Markdown parser's shape (a zero-width `ParagraphBreak` at offset 0 AFTER the words of `cat, dog, and x`) are `InText`, not in text order, and the rule fires -/
example : InText ['c', 'a', 't', ',', ' ', 'd', 'o', 'g', ',', ' ', 'a', 'n', 'd', ' ', 'x']
      [⟨⟨0, 3⟩, .word⟩, ⟨⟨3, 4⟩, .punct .Comma⟩, ⟨⟨4, 5⟩, .space 1⟩, ⟨⟨5, 8⟩, .word⟩, ⟨⟨8, 9⟩, .punct .Comma⟩, ⟨⟨9, 10⟩, .space 1⟩, ⟨⟨10, 13⟩, .word⟩, ⟨⟨13, 14⟩, .space 1⟩, ⟨⟨14, 15⟩, .word⟩, ⟨⟨0, 0⟩, .paragraphBreak⟩] ∧
    ruleNoOxfordComma ({ env0 with wordFlags := fun w => if w == ['c', 'a', 't'] then 32832 else if w == ['d', 'o', 'g'] then 32832 else 0 }) ['c', 'a', 't', ',', ' ', 'd', 'o', 'g', ',', ' ', 'a', 'n', 'd', ' ', 'x']
      [⟨⟨0, 3⟩, .word⟩, ⟨⟨3, 4⟩, .punct .Comma⟩, ⟨⟨4, 5⟩, .space 1⟩, ⟨⟨5, 8⟩, .word⟩, ⟨⟨8, 9⟩, .punct .Comma⟩, ⟨⟨9, 10⟩, .space 1⟩, ⟨⟨10, 13⟩, .word⟩, ⟨⟨13, 14⟩, .space 1⟩, ⟨⟨14, 15⟩, .word⟩, ⟨⟨0, 0⟩, .paragraphBreak⟩] =
    .ok [⟨⟨8, 9⟩, [.remove], 30, 0⟩] := ⟨by unfold InText TokIn; decide, by decide⟩

theorem noOxfordComma_spans_wf (env : Env) (src : List Char) (toks : List Tok) (h : Tiles toks 0 src.length) :
    RunsWF (ruleNoOxfordComma env) src toks := noOxfordComma_spans_wf_any_order env src toks (inText_of_tiles src toks h)
/-- non-vacuity of `noOxfordComma_spans_wf`: the tokens of `cat, dog, and x` tile the text and the rule fires -/
example : Tiles [⟨⟨0, 3⟩, .word⟩, ⟨⟨3, 4⟩, .punct .Comma⟩, ⟨⟨4, 5⟩, .space 1⟩, ⟨⟨5, 8⟩, .word⟩, ⟨⟨8, 9⟩, .punct .Comma⟩, ⟨⟨9, 10⟩, .space 1⟩, ⟨⟨10, 13⟩, .word⟩, ⟨⟨13, 14⟩, .space 1⟩, ⟨⟨14, 15⟩, .word⟩] 0 (['c', 'a', 't', ',', ' ', 'd', 'o', 'g', ',', ' ', 'a', 'n', 'd', ' ', 'x']).length ∧
    ruleNoOxfordComma ({ env0 with wordFlags := fun w => if w == ['c', 'a', 't'] then 32832 else if w == ['d', 'o', 'g'] then 32832 else 0 }) ['c', 'a', 't', ',', ' ', 'd', 'o', 'g', ',', ' ', 'a', 'n', 'd', ' ', 'x']
      [⟨⟨0, 3⟩, .word⟩, ⟨⟨3, 4⟩, .punct .Comma⟩, ⟨⟨4, 5⟩, .space 1⟩, ⟨⟨5, 8⟩, .word⟩, ⟨⟨8, 9⟩, .punct .Comma⟩, ⟨⟨9, 10⟩, .space 1⟩, ⟨⟨10, 13⟩, .word⟩, ⟨⟨13, 14⟩, .space 1⟩, ⟨⟨14, 15⟩, .word⟩] =
    .ok [⟨⟨8, 9⟩, [.remove], 30, 0⟩] := by decide

theorem widelyAccepted_spans_wf_any_order (env : Env) (src : List Char) (toks : List Tok) (h : InText src toks) :
    RunsWF (ruleWidelyAccepted env) src toks :=
  overPieces_okh inText_hyp _ _ src toks h (fun piece hp => widely_ok env src piece hp)
/-- non-vacuity of `widelyAccepted_spans_wf_any_order`: tokens of the Markdown parser's shape (a zero-width `ParagraphBreak` at offset 0 AFTER the words of `Wide used`) are `InText`, not in text order, and the rule fires -/
example : InText ['W', 'i', 'd', 'e', ' ', 'u', 's', 'e', 'd']
      [⟨⟨0, 4⟩, .word⟩, ⟨⟨4, 5⟩, .space 1⟩, ⟨⟨5, 9⟩, .word⟩, ⟨⟨0, 0⟩, .paragraphBreak⟩] ∧
    ruleWidelyAccepted (env0) ['W', 'i', 'd', 'e', ' ', 'u', 's', 'e', 'd']
      [⟨⟨0, 4⟩, .word⟩, ⟨⟨4, 5⟩, .space 1⟩, ⟨⟨5, 9⟩, .word⟩, ⟨⟨0, 0⟩, .paragraphBreak⟩] =
    .ok [⟨⟨0, 4⟩, [.replaceWith ['W', 'i', 'd', 'e', 'l', 'y']], 32, 0⟩] := ⟨by unfold InText TokIn; decide, by decide⟩

theorem widelyAccepted_spans_wf_r2 (env : Env) (src : List Char) (toks : List Tok) (h : Tiles toks 0 src.length) :
    RunsWF (ruleWidelyAccepted env) src toks := widelyAccepted_spans_wf_any_order env src toks (inText_of_tiles src toks h)
/-- non-vacuity of `widelyAccepted_spans_wf_r2`: the tokens of `Wide used` tile the text and the rule fires -/
example : Tiles [⟨⟨0, 4⟩, .word⟩, ⟨⟨4, 5⟩, .space 1⟩, ⟨⟨5, 9⟩, .word⟩] 0 (['W', 'i', 'd', 'e', ' ', 'u', 's', 'e', 'd']).length ∧
    ruleWidelyAccepted (env0) ['W', 'i', 'd', 'e', ' ', 'u', 's', 'e', 'd']
      [⟨⟨0, 4⟩, .word⟩, ⟨⟨4, 5⟩, .space 1⟩, ⟨⟨5, 9⟩, .word⟩] =
    .ok [⟨⟨0, 4⟩, [.replaceWith ['W', 'i', 'd', 'e', 'l', 'y']], 32, 0⟩] := by decide

/-- TheHowWhy slices `matched_tokens[0..2]`: every alternative of its pattern matches at least three tokens
(`theHowWhyPat_three`) -/
theorem theHowWhy_spans_wf_any_order (env : Env) (src : List Char) (toks : List Tok) (h : InText src toks) :
    RunsWF (ruleTheHowWhy env) src toks :=
  overPieces_okh inText_hyp _ _ src toks h (fun piece hp => theHowWhy_ok env src piece hp)
/-- non-vacuity of `theHowWhy_spans_wf_any_order`: tokens of the Markdown parser's shape (a zero-width `ParagraphBreak` at offset 0 AFTER the words of `the  how it`) are `InText`, not in text order, and the rule fires -/
example : InText ['t', 'h', 'e', ' ', ' ', 'h', 'o', 'w', ' ', 'i', 't']
      [⟨⟨0, 3⟩, .word⟩, ⟨⟨3, 5⟩, .space 2⟩, ⟨⟨5, 8⟩, .word⟩, ⟨⟨8, 9⟩, .space 1⟩, ⟨⟨9, 11⟩, .word⟩, ⟨⟨0, 0⟩, .paragraphBreak⟩] ∧
    ruleTheHowWhy (env0) ['t', 'h', 'e', ' ', ' ', 'h', 'o', 'w', ' ', 'i', 't']
      [⟨⟨0, 3⟩, .word⟩, ⟨⟨3, 5⟩, .space 2⟩, ⟨⟨5, 8⟩, .word⟩, ⟨⟨8, 9⟩, .space 1⟩, ⟨⟨9, 11⟩, .word⟩, ⟨⟨0, 0⟩, .paragraphBreak⟩] =
    .ok [⟨⟨0, 5⟩, [.remove], 33, 0⟩] := ⟨by unfold InText TokIn; decide, by decide⟩

theorem theHowWhy_spans_wf_r2 (env : Env) (src : List Char) (toks : List Tok) (h : Tiles toks 0 src.length) :
    RunsWF (ruleTheHowWhy env) src toks := theHowWhy_spans_wf_any_order env src toks (inText_of_tiles src toks h)
/-- non-vacuity of `theHowWhy_spans_wf_r2`: the tokens of `the  how it` tile the text and the rule fires -/
example : Tiles [⟨⟨0, 3⟩, .word⟩, ⟨⟨3, 5⟩, .space 2⟩, ⟨⟨5, 8⟩, .word⟩, ⟨⟨8, 9⟩, .space 1⟩, ⟨⟨9, 11⟩, .word⟩] 0 (['t', 'h', 'e', ' ', ' ', 'h', 'o', 'w', ' ', 'i', 't']).length ∧
    ruleTheHowWhy (env0) ['t', 'h', 'e', ' ', ' ', 'h', 'o', 'w', ' ', 'i', 't']
      [⟨⟨0, 3⟩, .word⟩, ⟨⟨3, 5⟩, .space 2⟩, ⟨⟨5, 8⟩, .word⟩, ⟨⟨8, 9⟩, .space 1⟩, ⟨⟨9, 11⟩, .word⟩] =
    .ok [⟨⟨0, 5⟩, [.remove], 33, 0⟩] := by decide

/-- `match_to_lint` alone is NOT total: on a one-token slice (which the pattern never hands over) it panics -/
example : theHowWhyMatch env0 ['t', 'h', 'e'] [⟨⟨0, 3⟩, .word⟩] = .error .sliceOOB := by decide

/-! ## every suggestion of the thirteen rules is a local edit -/

theorem spelledNumbers_suggestions_local (env : Env) (src : List Char) (toks : List Tok) (h : Tiles toks 0 src.length) :
    SuggestionsLocal (ruleSpelledNumbers env) src toks := suggestions_local _ src toks (spelledNumbers_spans_wf env src toks h)
theorem capitalizePersonalPronouns_suggestions_local (env : Env) (src : List Char) (toks : List Tok) (h : Tiles toks 0 src.length) :
    SuggestionsLocal (ruleCapitalizePersonalPronouns env) src toks :=
  suggestions_local _ src toks (capitalizePersonalPronouns_spans_wf env src toks h)
theorem wordPressDotcom_suggestions_local (env : Env) (src : List Char) (toks : List Tok) (h : Tiles toks 0 src.length) :
    SuggestionsLocal (ruleWordPressDotcom env) src toks := suggestions_local _ src toks (wordPressDotcom_spans_wf env src toks h)
theorem commaFixes_suggestions_local (env : Env) (src : List Char) (toks : List Tok) (h : Tiles toks 0 src.length) :
    SuggestionsLocal (ruleCommaFixes env) src toks := suggestions_local _ src toks (commaFixes_spans_wf env src toks h)
theorem mergeWords_suggestions_local (env : Env) (src : List Char) (toks : List Tok) (h : Tiles toks 0 src.length) :
    SuggestionsLocal (ruleMergeWords env) src toks := suggestions_local _ src toks (mergeWords_spans_wf env src toks h)
theorem adjectiveOfA_suggestions_local (env : Env) (src : List Char) (toks : List Tok) (h : Tiles toks 0 src.length) :
    SuggestionsLocal (ruleAdjectiveOfA env) src toks := suggestions_local _ src toks (adjectiveOfA_spans_wf env src toks h)
theorem inflectedVerbAfterTo_suggestions_local (env : Env) (src : List Char) (toks : List Tok) (h : Tiles toks 0 src.length) :
    SuggestionsLocal (ruleInflectedVerbAfterTo env) src toks :=
  suggestions_local _ src toks (inflectedVerbAfterTo_spans_wf env src toks h)
theorem oxfordComma_suggestions_local (env : Env) (src : List Char) (toks : List Tok) (h : InText src toks)
    (hc : ConjOK env src toks) : SuggestionsLocal (ruleOxfordComma env) src toks :=
  suggestions_local _ src toks (oxfordComma_spans_wf_any_order env src toks h hc)
theorem noOxfordComma_suggestions_local (env : Env) (src : List Char) (toks : List Tok) (h : InText src toks) :
    SuggestionsLocal (ruleNoOxfordComma env) src toks := suggestions_local _ src toks (noOxfordComma_spans_wf_any_order env src toks h)
theorem widelyAccepted_suggestions_local (env : Env) (src : List Char) (toks : List Tok) (h : InText src toks) :
    SuggestionsLocal (ruleWidelyAccepted env) src toks := suggestions_local _ src toks (widelyAccepted_spans_wf_any_order env src toks h)
theorem theHowWhy_suggestions_local (env : Env) (src : List Char) (toks : List Tok) (h : InText src toks) :
    SuggestionsLocal (ruleTheHowWhy env) src toks := suggestions_local _ src toks (theHowWhy_spans_wf_any_order env src toks h)

/-! ## all thirteen, from the characters of a document -/

/-- **All thirteen, on documents**: whichever rule the driver's table `ruleByName2` dispatches to, run on the tokens of ANY
plain-English document (any class table, any in-bounds url / e-mail / hostname lexer, any `Env`), returns — no panic —
and every lint has `start ≤ end ≤ text length`: the hypothesis `Tiles` of the per-rule theorems discharged by
`on_documents`. OxfordComma keeps its monitored premise `ConjOK` (on the document's tokens); no other rule has one. -/
theorem thirteen_rules_on_documents (cls : Cls) (ext : Ext) (src : List Char) (hext : ExtOK ext src.length)
    (env : Env) (name : String) (r : Env → PieceRule) (hr : ruleByName2 name = some r)
    (hc : name = "OxfordComma" → ∀ toks, document cls ext src = .ok toks → ConjOK env src toks) :
    ∃ ls, docRule cls ext (r env) src = .ok ls ∧ ∀ l ∈ ls, l.span.start ≤ l.span.stop ∧ l.span.stop ≤ src.length := by
  obtain ⟨toks, e, hT, _⟩ := on_documents cls ext src hext
  simp only [docRule, e]
  unfold ruleByName2 at hr
  split at hr <;> cases hr
  · exact spelledNumbers_spans_wf env src toks hT
  · exact capitalizePersonalPronouns_spans_wf env src toks hT
  · exact avoidCurses_spans_wf env src toks hT
  · exact wordPressDotcom_spans_wf env src toks hT
  · exact linkingVerbs_spans_wf env src toks hT
  · exact commaFixes_spans_wf env src toks hT
  · exact mergeWords_spans_wf env src toks hT
  · exact adjectiveOfA_spans_wf env src toks hT
  · exact oxfordComma_spans_wf env src toks hT (hc rfl toks e)
  · exact noOxfordComma_spans_wf env src toks hT
  · exact widelyAccepted_spans_wf_r2 env src toks hT
  · exact theHowWhy_spans_wf_r2 env src toks hT
  · exact inflectedVerbAfterTo_spans_wf env src toks hT

/-- non-vacuity of `thirteen_rules_on_documents`: at `foo ,bar` for CommaFixes (which fires there: below) … -/
example : ∃ ls, docRule asciiCls noExt (ruleCommaFixes env0) ['f', 'o', 'o', ' ', ',', 'b', 'a', 'r'] = .ok ls ∧
    ∀ l ∈ ls, l.span.start ≤ l.span.stop ∧ l.span.stop ≤ 8 :=
  thirteen_rules_on_documents asciiCls noExt _ (by intro _ _ _ h; cases h) env0 "CommaFixes" _ rfl (fun h => absurd h (by decide))

/-- … and with the premise `ConjOK` met, at `x, y or z` for OxfordComma (`or` a conjunction for the dictionary; the rule
reports `y`, 3..4, on the document's tokens) -/
example : (∃ ls, docRule asciiCls noExt (ruleOxfordComma { env0 with wordFlags := fun w =>
        if w == ['o', 'r'] then 2 + 32768 else if w == ['x'] || w == ['y'] || w == ['z'] then 64 + 32768 else 0 })
      ['x', ',', ' ', 'y', ' ', 'o', 'r', ' ', 'z'] = .ok ls ∧ ∀ l ∈ ls, l.span.start ≤ l.span.stop ∧ l.span.stop ≤ 9) ∧
    ruleOxfordComma { env0 with wordFlags := fun w =>
        if w == ['o', 'r'] then 2 + 32768 else if w == ['x'] || w == ['y'] || w == ['z'] then 64 + 32768 else 0 }
      ['x', ',', ' ', 'y', ' ', 'o', 'r', ' ', 'z']
      [⟨⟨0, 1⟩, .word⟩, ⟨⟨1, 2⟩, .punct .Comma⟩, ⟨⟨2, 3⟩, .space 1⟩, ⟨⟨3, 4⟩, .word⟩, ⟨⟨4, 5⟩, .space 1⟩, ⟨⟨5, 7⟩, .word⟩,
        ⟨⟨7, 8⟩, .space 1⟩, ⟨⟨8, 9⟩, .word⟩] = .ok [⟨⟨3, 4⟩, [.insertAfter [',']], 29, 0⟩] := by
  have e : document asciiCls noExt ['x', ',', ' ', 'y', ' ', 'o', 'r', ' ', 'z'] =
      .ok [⟨⟨0, 1⟩, .word⟩, ⟨⟨1, 2⟩, .punct .Comma⟩, ⟨⟨2, 3⟩, .space 1⟩, ⟨⟨3, 4⟩, .word⟩, ⟨⟨4, 5⟩, .space 1⟩, ⟨⟨5, 7⟩, .word⟩,
        ⟨⟨7, 8⟩, .space 1⟩, ⟨⟨8, 9⟩, .word⟩] := by decide
  refine ⟨thirteen_rules_on_documents asciiCls noExt _ (by intro _ _ _ h; cases h) { env0 with wordFlags := fun w =>
        if w == ['o', 'r'] then 2 + 32768 else if w == ['x'] || w == ['y'] || w == ['z'] then 64 + 32768 else 0 }
      "OxfordComma" ruleOxfordComma rfl (fun _ toks h => ?_), by decide⟩
  rw [e] at h
  cases h
  unfold ConjOK
  decide

/-! ## on the tokens of real sentences (non-vacuity; kernel-evaluated) -/

/-- `i ate 9.` — CapitalizePersonalPronouns at 0..1, SpelledNumbers at 6..7 (the value handed over as data) -/
example : docRule asciiCls noExt (ruleCapitalizePersonalPronouns env0) ['i', ' ', 'a', 't', 'e', ' ', '9', '.'] =
      .ok [⟨⟨0, 1⟩, [.replaceWith ['I']], 22, 0⟩] ∧
    docRule asciiCls noExt (ruleSpelledNumbers { env0 with numVal := fun _ => .int 9 }) ['i', ' ', 'a', 't', 'e', ' ', '9', '.'] =
      .ok [⟨⟨6, 7⟩, [.replaceWith ['n', 'i', 'n', 'e']], 21, 0⟩] := by decide

/-- … and the suggestion applied by the modelled `Suggestion::apply`: `i ate nine.` -/
example : (toSuggestion (.replaceWith ['n', 'i', 'n', 'e'])).apply ⟨6, 7⟩ ['i', ' ', 'a', 't', 'e', ' ', '9', '.'] =
    .ok ['i', ' ', 'a', 't', 'e', ' ', 'n', 'i', 'n', 'e', '.'] := by decide

/-- `foo ,bar` → blank and comma replaced by `, `; `a，b` → the full-width comma by `, ` -/
example : docRule asciiCls noExt (ruleCommaFixes env0) ['f', 'o', 'o', ' ', ',', 'b', 'a', 'r'] =
      .ok [⟨⟨3, 5⟩, [.replaceWith [',', ' ']], 26, 5⟩] := by decide

/-- `The refore` with a dictionary that knows `Therefore` only: MergeWords reports the three tokens -/
def envTherefore : Env :=
  { env0 with wordFlags := fun w => if w == ['T', 'h', 'e', 'r', 'e', 'f', 'o', 'r', 'e'] then 2 ^ 19 else 0 }

example : docRule asciiCls noExt (ruleMergeWords envTherefore) ['T', 'h', 'e', ' ', 'r', 'e', 'f', 'o', 'r', 'e'] =
    .ok [⟨⟨0, 10⟩, [.replaceWith ['T', 'h', 'e', 'r', 'e', 'f', 'o', 'r', 'e']], 27, 0⟩] := by decide

/-- `big  of a` with `big` an adjective: both blanks are offered -/
def envBig : Env := { env0 with wordFlags := fun w => if w == ['b', 'i', 'g'] then 8 + 32768 else 0 }

example : docRule asciiCls noExt (ruleAdjectiveOfA envBig) ['b', 'i', 'g', ' ', ' ', 'o', 'f', ' ', 'a'] =
    .ok [⟨⟨0, 9⟩, [.replaceWith ['b', 'i', 'g', ' ', ' ', 'a'], .replaceWith ['b', 'i', 'g', ' ', 'a']], 31, 0⟩] := by decide

/-- `to agreed` with `to` a preposition and a dictionary for which `agre` and `agree` are verbs and not nouns:
both stems of `-ed` are offered, as two lints on the same span -/
def envAgree : Env :=
  { env0 with wordFlags := fun w => if w == ['t', 'o'] then 1 + 32768 else if w == ['a', 'g', 'r', 'e', 'e'] || w == ['a', 'g', 'r', 'e'] then 128 + 32768 else 0 }

example : docRule asciiCls noExt (ruleInflectedVerbAfterTo envAgree) ['t', 'o', ' ', 'a', 'g', 'r', 'e', 'e', 'd'] =
    .ok [⟨⟨0, 9⟩, [.replaceWith ['t', 'o', ' ', 'a', 'g', 'r', 'e']], 34, 0⟩, ⟨⟨0, 9⟩, [.replaceWith ['t', 'o', ' ', 'a', 'g', 'r', 'e', 'e']], 34, 0⟩] := by
  decide

/-- `so, cat and dog` with `and` a conjunction: the Oxford comma goes after `cat` (4..7) -/
def envConj : Env :=
  { env0 with wordFlags := fun w => if w == ['s', 'o'] then 2 + 64 + 32768 else if w == ['c', 'a', 't'] || w == ['d', 'o', 'g'] then 64 + 32768
      else if w == ['a', 'n', 'd'] then 2 + 32768 else 0 }

example : ruleOxfordComma envConj soCatSrc soCatToks = .ok [⟨⟨4, 7⟩, [.insertAfter [',']], 29, 0⟩] := by decide

/-- the hypotheses of `oxfordComma_spans_wf` hold of it: the tokens tile the text, and the only word that
`WordSet[and, or, nor]` accepts is a conjunction for `envConj` -/
example : Tiles soCatToks 0 soCatSrc.length ∧ ∀ t ∈ soCatToks, wordSetAtom andOrNor soCatSrc [t] = .ok 1 → hasFlag envConj soCatSrc t 1 = true := by
  decide

/-- `the  how it` — `the` and the blank after it go; `the how to` is left alone (and so is `the how` at the end
of a chunk: `Invert` answers 0 on the empty slice) -/
example : docRule asciiCls noExt (ruleTheHowWhy env0) ['t', 'h', 'e', ' ', ' ', 'h', 'o', 'w', ' ', 'i', 't'] = .ok [⟨⟨0, 5⟩, [.remove], 33, 0⟩] ∧
    docRule asciiCls noExt (ruleTheHowWhy env0) ['t', 'h', 'e', ' ', 'h', 'o', 'w'] = .ok [] ∧
    docRule asciiCls noExt (ruleTheHowWhy env0) ['t', 'h', 'e', ' ', 'h', 'o', 'w', ' ', 't', 'o'] = .ok [] := by decide

/-- `Wide used` keeps its capital: `Widely` -/
example : docRule asciiCls noExt (ruleWidelyAccepted env0) ['W', 'i', 'd', 'e', ' ', 'u', 's', 'e', 'd'] =
    .ok [⟨⟨0, 4⟩, [.replaceWith ['W', 'i', 'd', 'e', 'l', 'y']], 32, 0⟩] := by decide

/-! ## the generic constructions of `Props/C03c.lean` offer only local edits (w22 audit)

`suggestions_local` is about any `PieceRule`; C03c (MapPhraseLinter, closed compounds, proper nouns, `merge_linters!`)
is upstream of this file, so the composed statements live here. -/

/-- every suggestion of a `MapPhraseLinter` over a plain tree applies and edits only the flagged span -/
theorem mapPhrase_suggestions_local (env : Env) (p : RPat) (hp : p.plain = true) (forms : List (List Char))
    (src : List Char) (toks : List Tok) (h : InText src toks) :
    SuggestionsLocal (ruleMapPhrase env p forms) src toks :=
  suggestions_local _ _ _ (mapPhrase_spans_wf env p hp forms src toks h)

/-- … over ANY tree, on tiling tokens with short words and a sound dictionary -/
theorem mapPhrase_suggestions_local_full (env : Env) (hd : DictOK env) (hc : CanonOK env) (p : RPat)
    (hw : WordsShort env p) (forms : List (List Char)) (src : List Char) (toks : List Tok)
    (h : Tiles toks 0 src.length) (hs : ShortWords env src toks) :
    SuggestionsLocal (ruleMapPhrase env p forms) src toks :=
  suggestions_local _ _ _ (mapPhrase_spans_wf_full env hd hc p hw forms src toks h hs)

/-- every row of `closed_compounds.rs` -/
theorem closedCompound_suggestions_local (env : Env) (psrc : List Char) (ptoks : List Tok) (good : List Char)
    (r : PieceRule) (hr : ruleClosedCompound env psrc ptoks good = some r) (src : List Char) (toks : List Tok)
    (h : InText src toks) : SuggestionsLocal r src toks :=
  suggestions_local _ _ _ (closedCompound_spans_wf env psrc ptoks good r hr src toks h)

/-- every entry of `proper_noun_rules.json` -/
theorem properNoun_suggestions_local (env : Env) (rows : List PNRow) (hrows : ∀ r ∈ rows, IsPhrasePat r.pat)
    (src : List Char) (toks : List Tok) (h : InText src toks) :
    SuggestionsLocal (ruleProperNoun env rows) src toks :=
  suggestions_local _ _ _ (properNoun_spans_wf env rows hrows src toks h)

/-- a `merge_linters!` rule whose children run and point into the text -/
theorem mergeLinters_suggestions_local (rs : List PieceRule) (src : List Char) (toks : List Tok)
    (h : ∀ r ∈ rs, RunsWF r src toks) : SuggestionsLocal (mergeLinters rs) src toks :=
  suggestions_local _ _ _ (mergeLinters_spans_wf rs src toks h)

/-- non-vacuity of `mapPhrase_suggestions_local`, applied: `We In  tact now.` — the one suggestion of the one
lint (`Intact` for 3..11) applies and yields `We Intact now.` -/
example : (toSuggestion (.replaceWith ['I', 'n', 't', 'a', 'c', 't'])).apply ⟨3, 11⟩ C01.srcIntact =
    .ok ['W', 'e', ' ', 'I', 'n', 't', 'a', 'c', 't', ' ', 'n', 'o', 'w', '.'] := by
  have h := mapPhrase_suggestions_local env0 C12.intactPat (by decide) [['i', 'n', 't', 'a', 'c', 't']]
    C01.srcIntact C01.toksIntact inText_weIntact _ (by decide : ruleMapPhrase env0 C12.intactPat [['i', 'n', 't', 'a', 'c', 't']]
      C01.srcIntact C01.toksIntact = .ok [⟨⟨3, 11⟩, [.replaceWith ['I', 'n', 't', 'a', 'c', 't']], 13, 0⟩])
    _ (List.mem_singleton.mpr rfl) _ (List.mem_singleton.mpr rfl)
  rw [h]; decide

end Harper.C03
