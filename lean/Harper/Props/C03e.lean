import Harper.Lemmas.Rules2
import Harper.Lemmas.Rules2Walk
import Harper.Lemmas.Rules2Pat
import Harper.Props.C03
import Harper.Props.C03b
import Harper.Props.C03c
/-!
# C03 (hand-written rules, batch 2) — spans point into the text; suggestions are local edits

For the thirteen rules of `Model/Rules2.lean` (compared lint for lint with the real struct rule, run alone, on
every run of the check):

* `<rule>_spans_wf`: on the tokens of a document (`Tiles toks 0 src.length` — what `document_tiles` proves of
  every plain-English document) the rule returns — no `Span::new`, `get_span_content`, slice, `unwrap` or
  subtraction panic — and every lint has `start ≤ stop ≤ src.length` (`RunsWF`). The rules built around a
  pattern tree need no token order (`…_spans_wf_any_order`: well-formed tokens inside the text, zero-width ones
  included — what the Markdown front-end delivers); the three rules that do index arithmetic over the whole
  document (CommaFixes, MergeWords, AdjectiveOfA, InflectedVerbAfterTo: `Span::new(first.start, last.end)`) need the text order, with
  a kernel-checked witness that they panic without it.
* OxfordComma's `matched_toks[conj_index - 2]` is safe under `ConjOK`: every word that `WordSet[and, or, nor]`
  accepts is a conjunction for the dictionary (monitored on every real document; the word list is ASCII and
  the dictionary lower-cases). Without it the subtraction underflows: kernel-checked witness.
* `suggestions_local`: **every suggestion of every lint of a run that `RunsWF` is a local edit**: the modelled
  `Suggestion::apply` returns `src[..start] ++ new ++ src[end..]` (from `apply_spec` of `Props/C03.lean`);
  instantiated for each rule (`<rule>_suggestions_local`).
-/
namespace Harper.C03
open Harper Harper.Chunks Harper.Rules Harper.Leaves Harper.Rules2
open Harper.C12 (docRule env0 noExt)
open Harper.C02 (asciiCls)

/-! ## suggestions are local edits -/

/-- a rule's suggestion as the `Suggestion` of `Model/Suggestion.lean` -/
def toSuggestion : Sugg → Suggestion Char
  | .replaceWith cs => .replaceWith cs
  | .remove => .remove
  | .insertAfter cs => .insertAfter cs

/-- every suggestion of every lint applies, and changes the text only inside the lint's span -/
def SuggestionsLocal (r : PieceRule) (src : List Char) (toks : List Tok) : Prop :=
  ∀ ls, r src toks = .ok ls → ∀ l ∈ ls, ∀ sg ∈ l.suggs,
    (toSuggestion sg).apply l.span src =
      .ok (src.take l.span.start ++ (toSuggestion sg).newText ((src.drop l.span.start).take (l.span.stop - l.span.start)) ++
        src.drop l.span.stop)

/-- **a run whose lints point into the text offers only local edits** -/
theorem suggestions_local (r : PieceRule) (src : List Char) (toks : List Tok) (h : RunsWF r src toks) :
    SuggestionsLocal r src toks := by
  obtain ⟨ls, e, hl⟩ := h
  intro ls' e' l hlm sg _
  rw [e] at e'
  cases e'
  exact apply_spec (toSuggestion sg) src l.span (hl l hlm).1 (hl l hlm).2

/-! ## the per-token rules -/

theorem spelledNumbers_spans_wf (env : Env) (src : List Char) (toks : List Tok) (h : Tiles toks 0 src.length) :
    RunsWF (ruleSpelledNumbers env) src toks :=
  perTok_ok _ _ src toks (fun t ht => spelledNumbers_ok env _ src t ((ord_of_tiles toks _ h).2 t ht))

theorem capitalizePersonalPronouns_spans_wf (env : Env) (src : List Char) (toks : List Tok) (h : Tiles toks 0 src.length) :
    RunsWF (ruleCapitalizePersonalPronouns env) src toks :=
  perTok_ok _ _ src toks (fun t ht => capitalizePronoun_ok src t ((ord_of_tiles toks _ h).2 t ht))

theorem avoidCurses_spans_wf (env : Env) (src : List Char) (toks : List Tok) (h : Tiles toks 0 src.length) :
    RunsWF (ruleAvoidCurses env) src toks :=
  perTok_ok _ _ src toks (fun t ht => avoidCurses_ok env _ src t ((ord_of_tiles toks _ h).2 t ht))

theorem wordPressDotcom_spans_wf (env : Env) (src : List Char) (toks : List Tok) (h : Tiles toks 0 src.length) :
    RunsWF (ruleWordPressDotcom env) src toks :=
  perTok_ok _ _ src toks (fun t ht => wordPress_ok env src t ((ord_of_tiles toks _ h).2 t ht))

/-! ## LinkingVerbs -/

theorem linkingVerbs_spans_wf (env : Env) (src : List Char) (toks : List Tok) (h : Tiles toks 0 src.length) :
    RunsWF (ruleLinkingVerbs env) src toks :=
  overPieces_ok _ _ _ src toks (ord_of_tiles toks _ h) (fun piece ho => linkingVerbs_ok env src piece ho)

/-! ## the rules that index the whole document -/

/-- `Span::new(space.start, comma.end)`, `toks.1.unwrap()`, `get_content(..).first().unwrap()` -/
theorem commaFixes_spans_wf (env : Env) (src : List Char) (toks : List Tok) (h : Tiles toks 0 src.length) :
    RunsWF (ruleCommaFixes env) src toks :=
  walkE_ok _ _ (fun pre suf ho => commaAt_ok src pre suf ho) toks [] (ord_of_tiles toks _ h)

/-- the text order is needed: a blank positioned AFTER its comma → `Span::new(6, 3)` -/
example : ruleCommaFixes env0 ['a', 'b', ',', 'c', 'd', 'e', ' ']
    [⟨⟨0, 2⟩, .word⟩, ⟨⟨6, 7⟩, .space 1⟩, ⟨⟨2, 3⟩, .punct .Comma⟩, ⟨⟨3, 6⟩, .word⟩] = .error .spanNew := by decide

theorem mergeWords_spans_wf (env : Env) (src : List Char) (toks : List Tok) (h : Tiles toks 0 src.length) :
    RunsWF (ruleMergeWords env) src toks :=
  walkE_ok _ _ (fun pre suf ho => mergeAt_ok env src pre suf ho) toks [] (ord_of_tiles toks _ h)

theorem adjectiveOfA_spans_wf (env : Env) (src : List Char) (toks : List Tok) (h : Tiles toks 0 src.length) :
    RunsWF (ruleAdjectiveOfA env) src toks :=
  walkE_ok _ _ (fun pre suf ho => adjOfAAt_ok env src pre suf ho) toks [] (ord_of_tiles toks _ h)

/-- `Span::new(prep.start, word.end)`, up to three times per window (`-ed` has two stems) -/
theorem inflectedVerbAfterTo_spans_wf (env : Env) (src : List Char) (toks : List Tok) (h : Tiles toks 0 src.length) :
    RunsWF (ruleInflectedVerbAfterTo env) src toks :=
  walkE_ok _ _ (fun pre suf ho => inflectedAt_ok env src pre suf ho) toks [] (ord_of_tiles toks _ h)

/-! ## the rules around a pattern tree -/

/-- **OxfordComma on well-formed tokens inside the text, in any order**, when every `and` / `or` / `nor` is a
conjunction for the dictionary -/
theorem oxfordComma_spans_wf_any_order (env : Env) (src : List Char) (toks : List Tok) (h : InText src toks)
    (hc : ConjOK env src toks) : RunsWF (ruleOxfordComma env) src toks :=
  overPieces_okh (inTextConj_hyp env) _ _ src toks ⟨h, hc⟩ (fun piece hp => oxford_ok env src piece hp)

theorem oxfordComma_spans_wf (env : Env) (src : List Char) (toks : List Tok) (h : Tiles toks 0 src.length)
    (hc : ConjOK env src toks) : RunsWF (ruleOxfordComma env) src toks :=
  oxfordComma_spans_wf_any_order env src toks (inText_of_tiles src toks h) hc

/-- a dictionary for which `so` is a nominal and a conjunction, `cat` and `dog` nominals, and `and` is NOT a
conjunction -/
def envNoConj : Env :=
  { env0 with wordFlags := fun w => if w == ['s', 'o'] then 2 + 64 + 32768 else if w == ['c', 'a', 't'] || w == ['d', 'o', 'g'] then 64 + 32768 else 0 }

/-- the text `so, cat and dog` and its tokens -/
def soCatSrc : List Char := ['s', 'o', ',', ' ', 'c', 'a', 't', ' ', 'a', 'n', 'd', ' ', 'd', 'o', 'g']
def soCatToks : List Tok :=
  [⟨⟨0, 2⟩, .word⟩, ⟨⟨2, 3⟩, .punct .Comma⟩, ⟨⟨3, 4⟩, .space 1⟩, ⟨⟨4, 7⟩, .word⟩, ⟨⟨7, 8⟩, .space 1⟩, ⟨⟨8, 11⟩, .word⟩,
  ⟨⟨11, 12⟩, .space 1⟩, ⟨⟨12, 15⟩, .word⟩]

example : (document asciiCls noExt soCatSrc).toOption = some soCatToks := by decide

/-- **without `ConjOK` the rule panics**: on `so, cat and dog` the last "conjunction" of the match is `so` at
index 0, and `conj_index - 2` underflows -/
example : ruleOxfordComma envNoConj soCatSrc soCatToks = .error .underflow := by decide

theorem noOxfordComma_spans_wf_any_order (env : Env) (src : List Char) (toks : List Tok) (h : InText src toks) :
    RunsWF (ruleNoOxfordComma env) src toks :=
  overPieces_okh inText_hyp _ _ src toks h (fun piece hp => noOxford_ok env src piece hp)

theorem noOxfordComma_spans_wf (env : Env) (src : List Char) (toks : List Tok) (h : Tiles toks 0 src.length) :
    RunsWF (ruleNoOxfordComma env) src toks := noOxfordComma_spans_wf_any_order env src toks (inText_of_tiles src toks h)

theorem widelyAccepted_spans_wf_any_order (env : Env) (src : List Char) (toks : List Tok) (h : InText src toks) :
    RunsWF (ruleWidelyAccepted env) src toks :=
  overPieces_okh inText_hyp _ _ src toks h (fun piece hp => widely_ok env src piece hp)

theorem widelyAccepted_spans_wf_r2 (env : Env) (src : List Char) (toks : List Tok) (h : Tiles toks 0 src.length) :
    RunsWF (ruleWidelyAccepted env) src toks := widelyAccepted_spans_wf_any_order env src toks (inText_of_tiles src toks h)

/-- TheHowWhy slices `matched_tokens[0..2]`: every alternative of its pattern matches at least three tokens
(`theHowWhyPat_three`) -/
theorem theHowWhy_spans_wf_any_order (env : Env) (src : List Char) (toks : List Tok) (h : InText src toks) :
    RunsWF (ruleTheHowWhy env) src toks :=
  overPieces_okh inText_hyp _ _ src toks h (fun piece hp => theHowWhy_ok env src piece hp)

theorem theHowWhy_spans_wf_r2 (env : Env) (src : List Char) (toks : List Tok) (h : Tiles toks 0 src.length) :
    RunsWF (ruleTheHowWhy env) src toks := theHowWhy_spans_wf_any_order env src toks (inText_of_tiles src toks h)

/-- `match_to_lint` alone is NOT total: on a one-token slice (which the pattern never hands over) it panics -/
example : theHowWhyMatch env0 ['t', 'h', 'e'] [⟨⟨0, 3⟩, .word⟩] = .error .sliceOOB := by decide

/-! ## every suggestion of the thirteen rules is a local edit -/

theorem spelledNumbers_suggestions_local (env : Env) (src : List Char) (toks : List Tok) (h : Tiles toks 0 src.length) :
    SuggestionsLocal (ruleSpelledNumbers env) src toks := suggestions_local _ src toks (spelledNumbers_spans_wf env src toks h)
theorem capitalizePersonalPronouns_suggestions_local (env : Env) (src : List Char) (toks : List Tok) (h : Tiles toks 0 src.length) :
    SuggestionsLocal (ruleCapitalizePersonalPronouns env) src toks :=
  suggestions_local _ src toks (capitalizePersonalPronouns_spans_wf env src toks h)
theorem wordPressDotcom_suggestions_local (env : Env) (src : List Char) (toks : List Tok) (h : Tiles toks 0 src.length) :
    SuggestionsLocal (ruleWordPressDotcom env) src toks := suggestions_local _ src toks (wordPressDotcom_spans_wf env src toks h)
theorem commaFixes_suggestions_local (env : Env) (src : List Char) (toks : List Tok) (h : Tiles toks 0 src.length) :
    SuggestionsLocal (ruleCommaFixes env) src toks := suggestions_local _ src toks (commaFixes_spans_wf env src toks h)
theorem mergeWords_suggestions_local (env : Env) (src : List Char) (toks : List Tok) (h : Tiles toks 0 src.length) :
    SuggestionsLocal (ruleMergeWords env) src toks := suggestions_local _ src toks (mergeWords_spans_wf env src toks h)
theorem adjectiveOfA_suggestions_local (env : Env) (src : List Char) (toks : List Tok) (h : Tiles toks 0 src.length) :
    SuggestionsLocal (ruleAdjectiveOfA env) src toks := suggestions_local _ src toks (adjectiveOfA_spans_wf env src toks h)
theorem inflectedVerbAfterTo_suggestions_local (env : Env) (src : List Char) (toks : List Tok) (h : Tiles toks 0 src.length) :
    SuggestionsLocal (ruleInflectedVerbAfterTo env) src toks :=
  suggestions_local _ src toks (inflectedVerbAfterTo_spans_wf env src toks h)
theorem oxfordComma_suggestions_local (env : Env) (src : List Char) (toks : List Tok) (h : InText src toks)
    (hc : ConjOK env src toks) : SuggestionsLocal (ruleOxfordComma env) src toks :=
  suggestions_local _ src toks (oxfordComma_spans_wf_any_order env src toks h hc)
theorem noOxfordComma_suggestions_local (env : Env) (src : List Char) (toks : List Tok) (h : InText src toks) :
    SuggestionsLocal (ruleNoOxfordComma env) src toks := suggestions_local _ src toks (noOxfordComma_spans_wf_any_order env src toks h)
theorem widelyAccepted_suggestions_local (env : Env) (src : List Char) (toks : List Tok) (h : InText src toks) :
    SuggestionsLocal (ruleWidelyAccepted env) src toks := suggestions_local _ src toks (widelyAccepted_spans_wf_any_order env src toks h)
theorem theHowWhy_suggestions_local (env : Env) (src : List Char) (toks : List Tok) (h : InText src toks) :
    SuggestionsLocal (ruleTheHowWhy env) src toks := suggestions_local _ src toks (theHowWhy_spans_wf_any_order env src toks h)

/-! ## on the tokens of real sentences (non-vacuity; kernel-evaluated) -/

/-- `i ate 9.` — CapitalizePersonalPronouns at 0..1, SpelledNumbers at 6..7 (the value handed over as data) -/
example : docRule asciiCls noExt (ruleCapitalizePersonalPronouns env0) ['i', ' ', 'a', 't', 'e', ' ', '9', '.'] =
      .ok [⟨⟨0, 1⟩, [.replaceWith ['I']], 22, 0⟩] ∧
    docRule asciiCls noExt (ruleSpelledNumbers { env0 with numVal := fun _ => .int 9 }) ['i', ' ', 'a', 't', 'e', ' ', '9', '.'] =
      .ok [⟨⟨6, 7⟩, [.replaceWith ['n', 'i', 'n', 'e']], 21, 0⟩] := by decide

/-- … and the suggestion applied by the modelled `Suggestion::apply`: `i ate nine.` -/
example : (toSuggestion (.replaceWith ['n', 'i', 'n', 'e'])).apply ⟨6, 7⟩ ['i', ' ', 'a', 't', 'e', ' ', '9', '.'] =
    .ok ['i', ' ', 'a', 't', 'e', ' ', 'n', 'i', 'n', 'e', '.'] := by decide

/-- `foo ,bar` → blank and comma replaced by `, `; `a，b` → the full-width comma by `, ` -/
example : docRule asciiCls noExt (ruleCommaFixes env0) ['f', 'o', 'o', ' ', ',', 'b', 'a', 'r'] =
      .ok [⟨⟨3, 5⟩, [.replaceWith [',', ' ']], 26, 5⟩] := by decide

/-- `The refore` with a dictionary that knows `Therefore` only: MergeWords reports the three tokens -/
def envTherefore : Env :=
  { env0 with wordFlags := fun w => if w == ['T', 'h', 'e', 'r', 'e', 'f', 'o', 'r', 'e'] then 2 ^ 19 else 0 }

example : docRule asciiCls noExt (ruleMergeWords envTherefore) ['T', 'h', 'e', ' ', 'r', 'e', 'f', 'o', 'r', 'e'] =
    .ok [⟨⟨0, 10⟩, [.replaceWith ['T', 'h', 'e', 'r', 'e', 'f', 'o', 'r', 'e']], 27, 0⟩] := by decide

/-- `big  of a` with `big` an adjective: both blanks are offered -/
def envBig : Env := { env0 with wordFlags := fun w => if w == ['b', 'i', 'g'] then 8 + 32768 else 0 }

example : docRule asciiCls noExt (ruleAdjectiveOfA envBig) ['b', 'i', 'g', ' ', ' ', 'o', 'f', ' ', 'a'] =
    .ok [⟨⟨0, 9⟩, [.replaceWith ['b', 'i', 'g', ' ', ' ', 'a'], .replaceWith ['b', 'i', 'g', ' ', 'a']], 31, 0⟩] := by decide

/-- `to agreed` with `to` a preposition and a dictionary for which `agre` and `agree` are verbs and not nouns:
both stems of `-ed` are offered, as two lints on the same span -/
def envAgree : Env :=
  { env0 with wordFlags := fun w => if w == ['t', 'o'] then 1 + 32768 else if w == ['a', 'g', 'r', 'e', 'e'] || w == ['a', 'g', 'r', 'e'] then 128 + 32768 else 0 }

example : docRule asciiCls noExt (ruleInflectedVerbAfterTo envAgree) ['t', 'o', ' ', 'a', 'g', 'r', 'e', 'e', 'd'] =
    .ok [⟨⟨0, 9⟩, [.replaceWith ['t', 'o', ' ', 'a', 'g', 'r', 'e']], 34, 0⟩, ⟨⟨0, 9⟩, [.replaceWith ['t', 'o', ' ', 'a', 'g', 'r', 'e', 'e']], 34, 0⟩] := by
  decide

/-- `so, cat and dog` with `and` a conjunction: the Oxford comma goes after `cat` (4..7) -/
def envConj : Env :=
  { env0 with wordFlags := fun w => if w == ['s', 'o'] then 2 + 64 + 32768 else if w == ['c', 'a', 't'] || w == ['d', 'o', 'g'] then 64 + 32768
      else if w == ['a', 'n', 'd'] then 2 + 32768 else 0 }

example : ruleOxfordComma envConj soCatSrc soCatToks = .ok [⟨⟨4, 7⟩, [.insertAfter [',']], 29, 0⟩] := by decide

/-- the hypotheses of `oxfordComma_spans_wf` hold of it: the tokens tile the text, and the only word that
`WordSet[and, or, nor]` accepts is a conjunction for `envConj` -/
example : Tiles soCatToks 0 soCatSrc.length ∧ ∀ t ∈ soCatToks, wordSetAtom andOrNor soCatSrc [t] = .ok 1 → hasFlag envConj soCatSrc t 1 = true := by
  decide

/-- `the  how it` — `the` and the blank after it go; `the how to` is left alone (and so is `the how` at the end
of a chunk: `Invert` answers 0 on the empty slice) -/
example : docRule asciiCls noExt (ruleTheHowWhy env0) ['t', 'h', 'e', ' ', ' ', 'h', 'o', 'w', ' ', 'i', 't'] = .ok [⟨⟨0, 5⟩, [.remove], 33, 0⟩] ∧
    docRule asciiCls noExt (ruleTheHowWhy env0) ['t', 'h', 'e', ' ', 'h', 'o', 'w'] = .ok [] ∧
    docRule asciiCls noExt (ruleTheHowWhy env0) ['t', 'h', 'e', ' ', 'h', 'o', 'w', ' ', 't', 'o'] = .ok [] := by decide

/-- `Wide used` keeps its capital: `Widely` -/
example : docRule asciiCls noExt (ruleWidelyAccepted env0) ['W', 'i', 'd', 'e', ' ', 'u', 's', 'e', 'd'] =
    .ok [⟨⟨0, 4⟩, [.replaceWith ['W', 'i', 'd', 'e', 'l', 'y']], 32, 0⟩] := by decide

end Harper.C03
