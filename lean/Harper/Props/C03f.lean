import Harper.Lemmas.MergeRules
import Harper.Lemmas.SpellRule
import Harper.Props.C03d
import Harper.Props.C03e
import Harper.Props.C01Merge
/-!
# C03 (`merge_linters!` rules) — spans point into the text, outputs are pairwise disjoint, suggestions are local edits

For HopHope, CompoundNouns, PronounContraction, LetsConfusion (`Model/MergeRules.lean`, compared lint for lint with the real
structs on every run of the check):

* `<rule>_spans_wf : RunsWF …`: on well-formed tokens inside the text — ANY order, zero-width ones included — the merged rule
  returns and every lint has `start ≤ stop ≤ src.length`;
* `<rule>_disjoint`: what it returns is pairwise disjoint and in text order (each lint ends before the next starts):
  `remove_overlaps` (`C13.removeOverlaps_disjoint` through `mergeLinters_disjoint`);
* `<rule>_suggestions_local`: every suggestion is an edit inside the lint's span (`Suggestion::apply` = splice);
* `mergedRule_subset`: every lint of a merged rule is a lint of one of its children (the macro adds nothing);
* `mergeChild_span_within_match`: a child's lint lies inside `matched_tokens.span()`.

`pronounContraction_…` under `ContractLowerOK env`, `compoundNouns_…` under `DictOK env` (see `Props/C01Merge.lean`).

SpellCheck as a rule (`Model/SpellRule.lean`): `spellCheck_spans_wf`; `spellCheck_span_is_word` (every lint sits on exactly one
word token); `spellCheck_suggestions_replace` (at most three suggestions, each a `ReplaceWith`); `spellCheck_suggestions_local`.
-/
namespace Harper.C03
open Harper Harper.Chunks Harper.Rules Harper.Leaves Harper.PatternRules Harper.MergeRules

/-- a `FineE` child, on tokens in any order: no panic, every lint in the text -/
theorem mergeChild_spans_wf (env : Env) (c : PRule) (hc : FineE env c) (src : List Char) (toks : List Tok) (h : InText src toks) :
    RunsWF (c.rule env) src toks := PRule.rule_okE env c hc src toks h

/-- **a `merge_linters!` rule over `FineE` children** returns, and every lint points into the text -/
theorem mergedRule_spans_wf (env : Env) (children : List PRule) (hc : ∀ c ∈ children, FineE env c) (src : List Char)
    (toks : List Tok) (h : InText src toks) : RunsWF (mergedRule env children) src toks := by
  apply mergeLinters_spans_wf
  intro r hr
  obtain ⟨c, hcm, rfl⟩ := List.mem_map.mp hr
  exact PRule.rule_okE env c (hc c hcm) src toks h

/-- **its output is pairwise disjoint, in text order** -/
theorem mergedRule_disjoint (env : Env) (children : List PRule) (hc : ∀ c ∈ children, FineE env c) (src : List Char)
    (toks : List Tok) (h : InText src toks) (ls : List RuleLint) (e : mergedRule env children src toks = .ok ls) :
    ls.Pairwise (fun a b => a.span.stop ≤ b.span.start) := by
  apply mergeLinters_disjoint _ src toks ls e
  intro cands hcands c hcm
  obtain ⟨cands', e', hall⟩ := collectE_ok (LintOK src.length) (fun (r : PieceRule) => r src toks) (children.map fun c => c.rule env)
    (fun r hr => by
      obtain ⟨c, hcm, rfl⟩ := List.mem_map.mp hr
      exact PRule.rule_okE env c (hc c hcm) src toks h)
  rw [e'] at hcands
  cases hcands
  exact (hall c hcm).1

/-- **the macro adds nothing**: every lint of the merged rule is a lint of one of its children on the same document -/
theorem mergedRule_subset (env : Env) (children : List PRule) (src : List Char) (toks : List Tok) (ls : List RuleLint)
    (e : mergedRule env children src toks = .ok ls) (l : RuleLint) (hl : l ∈ ls) :
    ∃ c ∈ children, ∃ a, c.rule env src toks = .ok a ∧ l ∈ a := by
  simp only [mergedRule, mergeLinters] at e
  cases hc : collectE (fun (r : PieceRule) => r src toks) (children.map fun c => c.rule env) with
  | error err => rw [hc] at e; cases e
  | ok cands =>
    rw [hc] at e
    simp only [Except.map, Except.ok.injEq] at e
    subst e
    obtain ⟨r, hr, a, ha, hla⟩ := collectE_mem _ _ _ hc l (removeOverlapsRL_mem cands l hl)
    obtain ⟨c, hcm, rfl⟩ := List.mem_map.mp hr
    exact ⟨c, hcm, a, ha, hla⟩

/-- a child reports nothing outside its match: the lint's span lies inside `matched_tokens.span()` -/
theorem mergeChild_span_within_match (env : Env) (c : PRule) (src : List Char) (matched : List Tok) (ls : List RuleLint)
    (h : c.spec.run env src matched = .ok ls) (l : RuleLint) (hl : l ∈ ls) (sp : Span) (hsp : spanOf matched = some sp) :
    sp.start ≤ l.span.start ∧ l.span.stop ≤ sp.stop :=
  matchToLint_span_within_match env c.spec src matched ls h l hl sp hsp

/-! ## the four rules -/

theorem hopHope_spans_wf (env : Env) (src : List Char) (toks : List Tok) (h : InText src toks) : RunsWF (ruleHopHope env) src toks :=
  mergedRule_spans_wf env _ (hopHope_children env) src toks h

theorem letsConfusion_spans_wf (env : Env) (src : List Char) (toks : List Tok) (h : InText src toks) :
    RunsWF (ruleLetsConfusion env) src toks := mergedRule_spans_wf env _ (letsConfusion_children env) src toks h

theorem pronounContraction_spans_wf (env : Env) (hl : ContractLowerOK env) (src : List Char) (toks : List Tok) (h : InText src toks) :
    RunsWF (rulePronounContraction env) src toks := mergedRule_spans_wf env _ (pronounContraction_children env hl) src toks h

theorem compoundNouns_spans_wf (env : Env) (hd : DictOK env) (src : List Char) (toks : List Tok) (h : InText src toks) :
    RunsWF (ruleCompoundNouns env) src toks := mergedRule_spans_wf env _ (compoundNouns_children env hd) src toks h

theorem hopHope_disjoint (env : Env) (src : List Char) (toks : List Tok) (h : InText src toks) (ls : List RuleLint)
    (e : ruleHopHope env src toks = .ok ls) : ls.Pairwise (fun a b => a.span.stop ≤ b.span.start) :=
  mergedRule_disjoint env _ (hopHope_children env) src toks h ls e

theorem letsConfusion_disjoint (env : Env) (src : List Char) (toks : List Tok) (h : InText src toks) (ls : List RuleLint)
    (e : ruleLetsConfusion env src toks = .ok ls) : ls.Pairwise (fun a b => a.span.stop ≤ b.span.start) :=
  mergedRule_disjoint env _ (letsConfusion_children env) src toks h ls e

theorem pronounContraction_disjoint (env : Env) (hl : ContractLowerOK env) (src : List Char) (toks : List Tok) (h : InText src toks)
    (ls : List RuleLint) (e : rulePronounContraction env src toks = .ok ls) : ls.Pairwise (fun a b => a.span.stop ≤ b.span.start) :=
  mergedRule_disjoint env _ (pronounContraction_children env hl) src toks h ls e

theorem compoundNouns_disjoint (env : Env) (hd : DictOK env) (src : List Char) (toks : List Tok) (h : InText src toks)
    (ls : List RuleLint) (e : ruleCompoundNouns env src toks = .ok ls) : ls.Pairwise (fun a b => a.span.stop ≤ b.span.start) :=
  mergedRule_disjoint env _ (compoundNouns_children env hd) src toks h ls e

theorem hopHope_suggestions_local (env : Env) (src : List Char) (toks : List Tok) (h : InText src toks) :
    SuggestionsLocal (ruleHopHope env) src toks := suggestions_local _ src toks (hopHope_spans_wf env src toks h)

theorem letsConfusion_suggestions_local (env : Env) (src : List Char) (toks : List Tok) (h : InText src toks) :
    SuggestionsLocal (ruleLetsConfusion env) src toks := suggestions_local _ src toks (letsConfusion_spans_wf env src toks h)

theorem pronounContraction_suggestions_local (env : Env) (hl : ContractLowerOK env) (src : List Char) (toks : List Tok)
    (h : InText src toks) : SuggestionsLocal (rulePronounContraction env) src toks :=
  suggestions_local _ src toks (pronounContraction_spans_wf env hl src toks h)

theorem compoundNouns_suggestions_local (env : Env) (hd : DictOK env) (src : List Char) (toks : List Tok) (h : InText src toks) :
    SuggestionsLocal (ruleCompoundNouns env) src toks := suggestions_local _ src toks (compoundNouns_spans_wf env hd src toks h)

/-! ## non-vacuity (kernel-evaluated) -/

open Harper.C01 (envM)

/-- tokens of the Markdown parser's shape (a zero-width `ParagraphBreak` at an earlier offset after the words) are `InText` -/
example : InText c!"# let's us go"
    [⟨⟨2, 7⟩, .word⟩, ⟨⟨7, 8⟩, .space 1⟩, ⟨⟨8, 10⟩, .word⟩, ⟨⟨10, 11⟩, .space 1⟩, ⟨⟨11, 13⟩, .word⟩, ⟨⟨2, 2⟩, .paragraphBreak⟩] := by
  intro t ht
  simp only [List.mem_cons, List.mem_nil_iff, or_false] at ht
  rcases ht with rfl | rfl | rfl | rfl | rfl | rfl <;> exact ⟨by decide, by decide⟩

/-- … and LetsConfusion on them: `let's us` → `lets us` / `let's`, span over the three matched tokens -/
example : ruleLetsConfusion { envM with wordFlags := fun w => if w == c!"us" then 2^6 + 2^12 + 2^15 else 0 } c!"# let's us go"
      [⟨⟨2, 7⟩, .word⟩, ⟨⟨7, 8⟩, .space 1⟩, ⟨⟨8, 10⟩, .word⟩, ⟨⟨10, 11⟩, .space 1⟩, ⟨⟨11, 13⟩, .word⟩, ⟨⟨2, 2⟩, .paragraphBreak⟩] =
    .ok [⟨⟨2, 10⟩, [.replaceWith c!"lets us", .replaceWith c!"let's"], 54, 0⟩] := by decide

/-- two children on overlapping tokens, different spans: `a note book is` with `book is` also a compound (`bookis`):
GeneralCompoundNouns reports `note book`, ImpliedInstantiated… would report it too; the output is one lint -/
example : (ruleCompoundNouns envM c!"a note book is"
      [⟨⟨0, 1⟩, .word⟩, ⟨⟨1, 2⟩, .space 1⟩, ⟨⟨2, 6⟩, .word⟩, ⟨⟨6, 7⟩, .space 1⟩, ⟨⟨7, 11⟩, .word⟩, ⟨⟨11, 12⟩, .space 1⟩, ⟨⟨12, 14⟩, .word⟩]).map
      (·.length) = .ok 1 := by decide

/-! ## SpellCheck as a rule -/

open Harper.SpellRule

theorem spellCheck_spans_wf (senv : SpellEnv) (hs : SuggestOK senv) (src : List Char) (toks : List Tok) (h : InText src toks) :
    RunsWF (ruleSpellCheck senv) src toks :=
  perTok_ok _ src.length src toks (fun t ht => spellTok_ok senv hs src t (h t ht))

/-- **every lint of SpellCheck sits on exactly one word token** (no hypothesis: whatever the tokens and the dictionary are) -/
theorem spellCheck_span_is_word (senv : SpellEnv) (src : List Char) (toks : List Tok) (ls : List RuleLint)
    (e : ruleSpellCheck senv src toks = .ok ls) (l : RuleLint) (hl : l ∈ ls) : ∃ t ∈ toks, t.kind.isWord = true ∧ l.span = t.span := by
  obtain ⟨t, ht, a, ha, hla⟩ := collectE_mem _ _ _ e l hl
  have := spellTok_shape senv src t a ha l hla
  exact ⟨t, ht, this.1, this.2.1⟩

/-- **at most three suggestions, each a `ReplaceWith`**; message code 60 -/
theorem spellCheck_suggestions_replace (senv : SpellEnv) (src : List Char) (toks : List Tok) (ls : List RuleLint)
    (e : ruleSpellCheck senv src toks = .ok ls) (l : RuleLint) (hl : l ∈ ls) :
    l.suggs.length ≤ 3 ∧ (∀ s ∈ l.suggs, ∃ cs, s = .replaceWith cs) ∧ l.msg = 60 := by
  obtain ⟨t, _, a, ha, hla⟩ := collectE_mem _ _ _ e l hl
  have := spellTok_shape senv src t a ha l hla
  exact ⟨this.2.2.1, this.2.2.2.1, this.2.2.2.2⟩

theorem spellCheck_suggestions_local (senv : SpellEnv) (hs : SuggestOK senv) (src : List Char) (toks : List Tok) (h : InText src toks) :
    SuggestionsLocal (ruleSpellCheck senv) src toks := suggestions_local _ src toks (spellCheck_spans_wf senv hs src toks h)

/-- the hypotheses hold of `spellEnv0` restricted to words whose search returns -/
example : ruleSpellCheck C01.spellEnv0 c!"# Teh" [⟨⟨2, 5⟩, .word⟩, ⟨⟨2, 2⟩, .paragraphBreak⟩] =
    .ok [⟨⟨2, 5⟩, [.replaceWith c!"Te", .replaceWith c!"Tet"], 60, 0⟩] := by decide

end Harper.C03
