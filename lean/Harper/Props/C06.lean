import Harper.Model.Spell
import Harper.Lemmas.SpellRule
/-!
# C06 — a word is reported misspelt exactly when the dictionary does not contain it

Decision logic of `SpellCheck::lint` over any dictionary whose keys are unique (the word map is a
hash map keyed by the lower-cased normalized spelling, so this holds by construction), for any
`lower` / `normalize` functions satisfying the stated laws (monitored on every word seen).
Lexing of the word (which characters form one `Word` token) is C02's business; two classes of
dictionary entries the lexer cannot produce as one token are recorded findings.
-/
namespace Harper.C06
open Harper.Spell

/-- keys are unique: what a map keyed by `WordId` guarantees -/
def UniqueKeys (f : Fns) (dict : List Entry) : Prop :=
  dict.Pairwise (fun a b => key f a.canon ≠ key f b.canon)

/-- laws of `to_lower` / `normalized` used below (monitored on every word the harness sees) -/
structure Laws (f : Fns) : Prop where
  norm_idem : ∀ w, f.normalize (f.normalize w) = f.normalize w
  key_lower : ∀ w, key f (f.lower w) = key f w

theorem lookup_of_mem (f : Fns) (dict : List Entry) (hu : UniqueKeys f dict) (e : Entry)
    (he : e ∈ dict) (w : List Char) (hk : key f w = key f e.canon) : lookup f dict w = some e := by
  induction dict with
  | nil => cases he
  | cons d ds ih =>
    have ⟨h1, h2⟩ := List.pairwise_cons.mp hu
    unfold lookup
    rw [List.find?_cons]
    rcases List.mem_cons.mp he with rfl | he'
    · have : (key f e.canon == key f w) = true := by rw [hk]; exact beq_self_eq_true _
      rw [this]
    · have hne : (key f d.canon == key f w) = false := by
        rw [hk]; exact beq_eq_false_iff_ne.mpr (h1 e he')
      rw [hne]
      exact ih h2 he'

/-- a listed word, in its listed (normalized) capitalisation and admitted by the dialect, is
never reported -/
theorem listed_accepted (f : Fns) (_hl : Laws f) (dict : List Entry) (hu : UniqueKeys f dict)
    (e : Entry) (he : e ∈ dict) (hd : e.dialectOk = true) (hn : f.normalize e.canon = e.canon) :
    accept f dict e.canon = true := by
  have h1 : lookup f dict e.canon = some e := lookup_of_mem f dict hu e he _ rfl
  have h2 : lookup f dict (f.normalize e.canon) = some e := by rw [hn]; exact h1
  simp [accept, h1, hd, containsExact, h2, hn]

/-- a capitalised / upper-case form `w` of a lower-case entry (`lower w = e.canon`) is accepted -/
theorem capitalised_accepted (f : Fns) (hl : Laws f) (dict : List Entry) (hu : UniqueKeys f dict)
    (e : Entry) (he : e ∈ dict) (hd : e.dialectOk = true) (hn : f.normalize e.canon = e.canon)
    (w : List Char) (hw : f.lower w = e.canon) : accept f dict w = true := by
  have hk : key f w = key f e.canon := by rw [← hl.key_lower w, hw]
  have h1 : lookup f dict w = some e := lookup_of_mem f dict hu e he _ hk
  have h2 : lookup f dict e.canon = some e := lookup_of_mem f dict hu e he _ rfl
  simp [accept, h1, hd, containsExact, hw, hn, h2]

/-- a word whose key no entry has is reported -/
theorem unlisted_flagged (f : Fns) (dict : List Entry) (w : List Char)
    (h : ∀ e ∈ dict, key f e.canon ≠ key f w) : accept f dict w = false := by
  have : lookup f dict w = none := by
    unfold lookup
    rw [List.find?_eq_none]
    intro e he
    simpa using h e he
  simp [accept, this]

/-- an accepted word's key is an entry's key (nothing outside the dictionary is accepted) -/
theorem accepted_is_listed (f : Fns) (dict : List Entry) (w : List Char)
    (h : accept f dict w = true) : ∃ e ∈ dict, key f e.canon = key f w ∧ e.dialectOk = true := by
  unfold accept at h
  split at h
  · rename_i e he
    have hm := List.mem_of_find?_eq_some he
    have hp := List.find?_some he
    simp at h hp
    exact ⟨e, hm, hp, h.1⟩
  · cases h

/-- every suggestion is an entry of the active dialect, up to upper-casing its first letter;
at most three are offered -/
theorem suggestions_are_words (f : Fns) (dict : List Entry) (fuzzy : List (List Char))
    (cap : Bool) (up : List Char → List Char) :
    (suggestions f dict fuzzy cap up).length ≤ 3 ∧
    ∀ s ∈ suggestions f dict fuzzy cap up,
      ∃ s₀ ∈ fuzzy, (s = s₀ ∨ s = up s₀) ∧
        ∃ e ∈ dict, key f e.canon = key f s₀ ∧ e.dialectOk = true := by
  unfold suggestions
  simp only
  have hkept : ∀ s₀ ∈ (fuzzy.filter fun s => match lookup f dict s with
      | some e => e.dialectOk | none => false).take 3,
      s₀ ∈ fuzzy ∧ ∃ e ∈ dict, key f e.canon = key f s₀ ∧ e.dialectOk = true := by
    intro s₀ hs
    have hs' := List.mem_of_mem_take hs
    have ⟨hm, hp⟩ := List.mem_filter.mp hs'
    refine ⟨hm, ?_⟩
    split at hp
    · rename_i e he
      have hmem := List.mem_of_find?_eq_some he
      have hk := List.find?_some he
      simp at hk
      exact ⟨e, hmem, hk, hp⟩
    · cases hp
  split
  · refine ⟨by simp [List.length_take]; omega, ?_⟩
    intro s hs
    obtain ⟨s₀, hs₀, rfl⟩ := List.mem_map.mp hs
    have ⟨h1, h2⟩ := hkept s₀ hs₀
    exact ⟨s₀, h1, Or.inr rfl, h2⟩
  · refine ⟨by simp [List.length_take]; omega, ?_⟩
    intro s hs
    have ⟨h1, h2⟩ := hkept s hs
    exact ⟨s, h1, Or.inl rfl, h2⟩

/-! ### non-vacuity: an ASCII instance (kernel-evaluated) -/

def asciiLower (w : List Char) : List Char :=
  w.map fun c => if 'A' ≤ c ∧ c ≤ 'Z' then Char.ofNat (c.toNat + 32) else c
def fnsAscii : Fns := ⟨asciiLower, id⟩
def tinyDict : List Entry := [⟨['c','a','t'], true⟩, ⟨['P','a','r','i','s'], true⟩, ⟨['l','i','f','t'], false⟩]

example : UniqueKeys fnsAscii tinyDict := by unfold UniqueKeys tinyDict; decide
example : accept fnsAscii tinyDict ['c','a','t'] = true := by decide
example : accept fnsAscii tinyDict ['C','A','T'] = true := by decide      -- upper-case form of a lower-case entry
example : accept fnsAscii tinyDict ['P','a','r','i','s'] = true := by decide
example : accept fnsAscii tinyDict ['p','a','r','i','s'] = false := by decide  -- listed only capitalised
example : accept fnsAscii tinyDict ['l','i','f','t'] = false := by decide      -- other dialect
example : accept fnsAscii tinyDict ['d','o','g'] = false := by decide

/-! ### w22: joint witnesses of the hypotheses, the exact characterisation, listed-spelling suggestions -/

/-- `asciiLower` is idempotent on one character (26 capital letters checked by the kernel) -/
theorem asciiLower_idem1 (c : Char) : asciiLower (asciiLower [c]) = asciiLower [c] := by
  by_cases h : 'A' ≤ c ∧ c ≤ 'Z'
  · have h1 : 65 ≤ c.toNat := by
      have := UInt32.le_iff_toNat_le.mp (Char.le_def.mp h.1); simpa using this
    have h2 : c.toNat ≤ 90 := by
      have := UInt32.le_iff_toNat_le.mp (Char.le_def.mp h.2); simpa using this
    have key : ∀ n, n < 26 →
        asciiLower (asciiLower [Char.ofNat (65 + n)]) = asciiLower [Char.ofNat (65 + n)] := by decide
    have := key (c.toNat - 65) (by omega)
    rwa [show 65 + (c.toNat - 65) = c.toNat by omega, Char.ofNat_toNat] at this
  · simp [asciiLower, h]

/-- the ASCII instance satisfies `Laws`: the hypotheses `Laws` + `UniqueKeys` are jointly satisfiable -/
theorem laws_fnsAscii : Laws fnsAscii where
  norm_idem _ := rfl
  key_lower w := by
    show asciiLower (id (asciiLower w)) = asciiLower (id w)
    induction w with
    | nil => rfl
    | cons c w ih =>
      have h1 := asciiLower_idem1 c
      simp only [id, asciiLower, List.map_cons, List.map_nil, List.cons.injEq, and_true] at h1 ih ⊢
      exact ⟨h1, ih⟩

theorem uniqueKeys_tinyDict : UniqueKeys fnsAscii tinyDict := by unfold UniqueKeys tinyDict; decide

/-- non-vacuity of `lookup_of_mem`: all hypotheses at once, a capitalised entry found under an
upper-case query -/
example : lookup fnsAscii tinyDict ['P','A','R','I','S'] = some ⟨['P','a','r','i','s'], true⟩ :=
  lookup_of_mem fnsAscii tinyDict uniqueKeys_tinyDict ⟨['P','a','r','i','s'], true⟩ (by decide)
    ['P','A','R','I','S'] (by decide)

/-- non-vacuity of `listed_accepted`: the capitalised entry of a three-entry dictionary (one entry of
another dialect), `Laws` and `UniqueKeys` together -/
example : accept fnsAscii tinyDict ['P','a','r','i','s'] = true :=
  listed_accepted fnsAscii laws_fnsAscii tinyDict uniqueKeys_tinyDict ⟨['P','a','r','i','s'], true⟩
    (by decide) rfl rfl

/-- non-vacuity of `capitalised_accepted`: `Cat` and `CAT` for the lower-case entry `cat` -/
example : accept fnsAscii tinyDict ['C','a','t'] = true ∧ accept fnsAscii tinyDict ['C','A','T'] = true :=
  ⟨capitalised_accepted fnsAscii laws_fnsAscii tinyDict uniqueKeys_tinyDict ⟨['c','a','t'], true⟩
      (by decide) rfl rfl ['C','a','t'] (by decide),
   capitalised_accepted fnsAscii laws_fnsAscii tinyDict uniqueKeys_tinyDict ⟨['c','a','t'], true⟩
      (by decide) rfl rfl ['C','A','T'] (by decide)⟩

/-- non-vacuity of `unlisted_flagged`: `Dog` has no entry's key in the three-entry dictionary -/
example : accept fnsAscii tinyDict ['D','o','g'] = false :=
  unlisted_flagged fnsAscii tinyDict ['D','o','g'] (by decide)

/-- non-vacuity of `accepted_is_listed` (hypothesis `accept … = true` on a non-trivial word) -/
example : ∃ e ∈ tinyDict, key fnsAscii e.canon = key fnsAscii ['C','A','T'] ∧ e.dialectOk = true :=
  accepted_is_listed fnsAscii tinyDict ['C','A','T'] (by decide)

/-- **Exact characterisation of the decision** (both directions at once, for every word — listed or
not): under `Laws` and `UniqueKeys`, `w` is accepted iff some entry has `w`'s key, admits the
dialect, and its listed spelling is the normalized `w` or the normalized lower-cased `w`.
Hence: a key no entry has ⇒ reported (`unlisted_flagged`); and a word whose key IS listed is still
reported when the dialect excludes it or the capitalisation is neither the listed one nor an
upper-casing of it (`paris` against `Paris`). -/
theorem accept_iff (f : Fns) (hl : Laws f) (dict : List Entry) (hu : UniqueKeys f dict)
    (w : List Char) :
    accept f dict w = true ↔
      ∃ e ∈ dict, key f e.canon = key f w ∧ e.dialectOk = true ∧
        (e.canon = f.normalize w ∨ e.canon = f.normalize (f.lower w)) := by
  have hk1 : key f (f.normalize w) = key f w := by simp [key, hl.norm_idem]
  have hk2 : key f (f.normalize (f.lower w)) = key f w := by
    rw [← hl.key_lower w]; simp [key, hl.norm_idem]
  have e1 : lookup f dict (f.normalize w) = lookup f dict w := by simp [lookup, hk1]
  have e2 : lookup f dict (f.normalize (f.lower w)) = lookup f dict w := by simp [lookup, hk2]
  constructor
  · intro h
    unfold accept at h
    split at h
    · rename_i e he
      have hm := List.mem_of_find?_eq_some he
      have hp := List.find?_some he
      simp only [containsExact, e1, e2, he, Bool.and_eq_true, Bool.or_eq_true, beq_iff_eq] at h hp
      exact ⟨e, hm, hp, h.1, h.2⟩
    · cases h
  · rintro ⟨e, he, hk, hd, hc⟩
    have h1 : lookup f dict w = some e := lookup_of_mem f dict hu e he w hk.symm
    simp only [accept, h1, containsExact, e1, e2, hd, Bool.true_and, Bool.or_eq_true, beq_iff_eq]
    exact hc

/-- non-vacuity of `accept_iff`, and the case the one-directional theorems do not speak about:
`paris` has a listed key (entry `Paris`) and is reported all the same -/
example : accept fnsAscii tinyDict ['p','a','r','i','s'] = false ∧
    ∃ e ∈ tinyDict, key fnsAscii e.canon = key fnsAscii ['p','a','r','i','s'] := by
  refine ⟨?_, ⟨['P','a','r','i','s'], true⟩, by decide, by decide⟩
  apply Bool.eq_false_iff.mpr
  intro h
  obtain ⟨e, he, hk, _, hc⟩ := (accept_iff fnsAscii laws_fnsAscii tinyDict uniqueKeys_tinyDict _).mp h
  simp only [tinyDict, List.mem_cons, List.not_mem_nil, or_false] at he
  rcases he with rfl | rfl | rfl <;> revert hk hc <;> decide

/-- **Suggestions are listed spellings** (what the property says; `suggestions_are_words` only gives
"has the key of an entry"): when every fuzzy candidate is the listed spelling of some entry — which is
what `suggest_correct_spelling` delivers (C15 `fuzzy_sound`: every result is a word of the
dictionary) — every suggestion is, up to `up` on a capitalised misspelling, the listed spelling of
an entry that admits the dialect. -/
theorem suggestions_are_words_strong (f : Fns) (dict : List Entry) (hu : UniqueKeys f dict)
    (fuzzy : List (List Char)) (hf : ∀ s ∈ fuzzy, ∃ e ∈ dict, e.canon = s)
    (cap : Bool) (up : List Char → List Char) :
    ∀ s ∈ suggestions f dict fuzzy cap up,
      ∃ e ∈ dict, e.dialectOk = true ∧ e.canon ∈ fuzzy ∧
        (if cap = true then s = up e.canon else s = e.canon) := by
  have hkept : ∀ s₀ ∈ (fuzzy.filter fun s => match lookup f dict s with
      | some e => e.dialectOk | none => false).take 3,
      ∃ e ∈ dict, e.dialectOk = true ∧ e.canon ∈ fuzzy ∧ s₀ = e.canon := by
    intro s₀ hs
    have ⟨hm, hp⟩ := List.mem_filter.mp (List.mem_of_mem_take hs)
    obtain ⟨e, he, rfl⟩ := hf s₀ hm
    rw [lookup_of_mem f dict hu e he e.canon rfl] at hp
    exact ⟨e, he, hp, hm, rfl⟩
  intro s hs
  unfold suggestions at hs
  simp only at hs
  split at hs
  · rename_i hc
    obtain ⟨s₀, hs₀, rfl⟩ := List.mem_map.mp hs
    obtain ⟨e, he, hd, hm, rfl⟩ := hkept s₀ hs₀
    exact ⟨e, he, hd, hm, by simp [hc]⟩
  · rename_i hc
    obtain ⟨e, he, hd, hm, rfl⟩ := hkept s hs
    exact ⟨e, he, hd, hm, by simp [hc]⟩

/-- non-vacuity of `suggestions_are_words(_strong)`: four candidates, the other-dialect entry is
dropped, the first letter is upper-cased, order kept -/
example : suggestions fnsAscii tinyDict [['c','a','t'], ['l','i','f','t'], ['P','a','r','i','s']] true
      (fun s => match s with | [] => [] | c :: r => c.toUpper :: r)
    = [['C','a','t'], ['P','a','r','i','s']] ∧
    (∀ s ∈ [['c','a','t'], ['l','i','f','t'], ['P','a','r','i','s']], ∃ e ∈ tinyDict, e.canon = s) := by
  decide

/-- without the hypothesis on `fuzzy` the weaker theorem cannot be improved: a candidate that is
only a re-casing of an entry passes the filter of the model (the real code never produces one) -/
example : suggestions fnsAscii tinyDict [['p','a','r','i','s']] false id = [['p','a','r','i','s']] := by
  decide

/-! ### w24: the suggestion list as the driver runs it (op `sugg`: `Spell.lintSuggestions`) and as the rule `SpellCheck` of
w21 (op `spellr`: `SpellRule.postProcess`) computes it

`Spell.lintSuggestions` = back-off over the three searches, `suggestionsE` (= `suggestions` + the `unwrap` of the dialect filter),
capitalisation decided by the misspelt word's first letter. Op `sugg` compares it with the suggestion list of the lint a real
`SpellCheck` reports, on the curated dictionary and exhaustively on small ones. -/

/-- the back-off loop returns one of the searches (the first non-empty one), or nothing when every search is empty -/
theorem backoff_spec (rounds : List (List (List Char))) :
    (backoff rounds = [] ∧ ∀ r ∈ rounds, r = []) ∨
    (∃ pre r post, rounds = pre ++ r :: post ∧ (∀ p ∈ pre, p = []) ∧ r ≠ [] ∧ backoff rounds = r) := by
  induction rounds with
  | nil => exact Or.inl ⟨rfl, by simp⟩
  | cons r rs ih =>
    cases r with
    | nil =>
      rcases ih with ⟨h1, h2⟩ | ⟨pre, r, post, h1, h2, h3, h4⟩
      · refine Or.inl ⟨by simpa [backoff] using h1, ?_⟩
        intro x hx
        rcases List.mem_cons.mp hx with rfl | hx
        · rfl
        · exact h2 x hx
      · refine Or.inr ⟨[] :: pre, r, post, by simp [h1], ?_, h3, by simpa [backoff] using h4⟩
        intro x hx
        rcases List.mem_cons.mp hx with rfl | hx
        · rfl
        · exact h2 x hx
    | cons c cs => exact Or.inr ⟨[], c :: cs, rs, rfl, by simp, by simp, by simp [backoff]⟩

/-- `suggestionsE` is `suggestions` unless the code panics, and it panics exactly when some candidate has the key of no entry
(`get_word_metadata(v).unwrap()`), whichever the other candidates are -/
theorem suggestionsE_eq (f : Fns) (dict : List Entry) (fuzzy : List (List Char)) (cap : Bool) (up : List Char → List Char) :
    ((∀ s ∈ fuzzy, ∃ e ∈ dict, key f e.canon = key f s) ∧
        suggestionsE f dict fuzzy cap up = .ok (suggestions f dict fuzzy cap up)) ∨
    ((∃ s ∈ fuzzy, ∀ e ∈ dict, key f e.canon ≠ key f s) ∧ suggestionsE f dict fuzzy cap up = .error .unwrapNone) := by
  unfold suggestionsE
  by_cases h : fuzzy.all (fun s => (lookup f dict s).isSome) = true
  · left
    refine ⟨?_, by simp only [h, if_true]⟩
    intro s hs
    have h1 := List.all_eq_true.mp h s hs
    obtain ⟨e, he⟩ := Option.isSome_iff_exists.mp h1
    have hm := List.mem_of_find?_eq_some he
    have hk := List.find?_some he
    exact ⟨e, hm, by simpa using hk⟩
  · right
    refine ⟨?_, by simp only [h]; rfl⟩
    have h' : ¬ ∀ s ∈ fuzzy, (lookup f dict s).isSome = true := fun hh => h (List.all_eq_true.mpr hh)
    have ⟨s, hs⟩ := Classical.not_forall.mp h'
    have ⟨hs1, hs2⟩ := Classical.not_imp.mp hs
    refine ⟨s, hs1, ?_⟩
    intro e he hk
    apply hs2
    unfold lookup
    rw [List.find?_isSome]
    exact ⟨e, he, by simp [hk]⟩

/-- no panic when every candidate is a listed spelling (`hf`, monitored by the harness on every candidate list) -/
theorem suggestionsE_ok (f : Fns) (dict : List Entry) (fuzzy : List (List Char))
    (hf : ∀ s ∈ fuzzy, ∃ e ∈ dict, e.canon = s) (cap : Bool) (up : List Char → List Char) :
    suggestionsE f dict fuzzy cap up = .ok (suggestions f dict fuzzy cap up) := by
  rcases suggestionsE_eq f dict fuzzy cap up with ⟨_, h⟩ | ⟨⟨s, hs, hn⟩, _⟩
  · exact h
  · obtain ⟨e, he, rfl⟩ := hf s hs
    exact absurd rfl (hn e he)

/-- the suggestions keep the order of the candidates: without capitalisation they are the first three candidates (at most) the
dialect allows -/
theorem suggestions_order (f : Fns) (dict : List Entry) (fuzzy : List (List Char)) (up : List Char → List Char) :
    (suggestions f dict fuzzy false up).Sublist fuzzy ∧
    (suggestions f dict fuzzy false up).length =
      min 3 (fuzzy.filter fun s => match lookup f dict s with | some e => e.dialectOk | none => false).length ∧
    ∀ cap, suggestions f dict fuzzy cap up =
      if cap = true then (suggestions f dict fuzzy false up).map up else suggestions f dict fuzzy false up := by
  refine ⟨?_, ?_, ?_⟩
  · simp only [suggestions, Bool.false_eq_true, if_false]
    exact (List.take_sublist _ _).trans List.filter_sublist
  · simp only [suggestions, Bool.false_eq_true, if_false, List.length_take]
    rfl
  · intro cap
    cases cap <;> simp [suggestions]

/-- **the corollary on what op `sugg` runs.** Under `UniqueKeys`, when every candidate of the search the back-off loop stops at
is a listed spelling: `lintSuggestions` does not panic, offers at most three words, and each is — up to `up` on its first letter
when the misspelt word starts with an upper-case letter — the listed spelling of an entry that allows the dialect and is one of
that search's candidates. -/
theorem lintSuggestions_are_words (f : Fns) (dict : List Entry) (hu : UniqueKeys f dict) (isUpper : Char → Bool)
    (up : Char → Char) (w : List Char) (rounds : List (List (List Char)))
    (hf : ∀ s ∈ backoff rounds, ∃ e ∈ dict, e.canon = s) :
    ∃ out, lintSuggestions f dict isUpper up w rounds = .ok out ∧ out.length ≤ 3 ∧
      ∀ s ∈ out, ∃ e ∈ dict, e.dialectOk = true ∧ e.canon ∈ backoff rounds ∧
        (if startsUpper isUpper w = true then s = capFirst up e.canon else s = e.canon) := by
  refine ⟨_, suggestionsE_ok f dict _ hf _ _, (suggestions_are_words f dict _ _ _).1, ?_⟩
  exact suggestions_are_words_strong f dict hu _ hf _ _

/-- without `hf`: whatever the searches returned, a list that IS offered has at most three words, each a candidate of the chosen
search (up to its first letter) sharing its key with an entry that allows the dialect; otherwise the code panics -/
theorem lintSuggestions_cases (f : Fns) (dict : List Entry) (isUpper : Char → Bool) (up : Char → Char) (w : List Char)
    (rounds : List (List (List Char))) :
    lintSuggestions f dict isUpper up w rounds = .error .unwrapNone ∨
    ∃ out, lintSuggestions f dict isUpper up w rounds = .ok out ∧ out.length ≤ 3 ∧
      ∀ s ∈ out, ∃ s₀ ∈ backoff rounds, (s = s₀ ∨ s = capFirst up s₀) ∧
        ∃ e ∈ dict, key f e.canon = key f s₀ ∧ e.dialectOk = true := by
  rcases suggestionsE_eq f dict (backoff rounds) (startsUpper isUpper w) (capFirst up) with ⟨_, h⟩ | ⟨_, h⟩
  · exact Or.inr ⟨_, h, (suggestions_are_words f dict _ _ _).1, (suggestions_are_words f dict _ _ _).2⟩
  · exact Or.inl h

/-! #### the same list in `SpellCheck` as a rule (w21, `Model/SpellRule.lean`, op `spellr`)

`SpellRule.postProcess` works on the result of the uncached search AFTER the dialect filter (data of `spellr`, recomputed by the
harness from the public API); `Spell.suggestions` contains the filter. They are one function (`postProcess_eq_suggestions`,
`Lemmas/SpellRule.lean`); here the statement for what the two ops run. -/

/-- `Spell.capFirst` is `SpellRule.capitaliseFirst` -/
theorem capFirst_eq (up : Char → Char) : capFirst up = SpellRule.capitaliseFirst up := by
  funext w; cases w <;> rfl

/-- **what `spellr` runs is what `sugg` runs**: when the dialect filter does not panic, `lintSuggestions` returns
`SpellRule.postProcess` of the filtered result of the back-off search -/
theorem spellRule_suggestions_eq (senv : SpellRule.SpellEnv) (f : Fns) (dict : List Entry) (w : List Char)
    (rounds : List (List (List Char))) (h : ∀ s ∈ backoff rounds, ∃ e ∈ dict, key f e.canon = key f s) :
    lintSuggestions f dict senv.isUpper senv.upperFirst w rounds =
      .ok (SpellRule.postProcess senv w ((backoff rounds).filter fun s =>
        match lookup f dict s with | some e => e.dialectOk | none => false)) := by
  rcases suggestionsE_eq f dict (backoff rounds) (startsUpper senv.isUpper w) (capFirst senv.upperFirst) with
    ⟨_, h1⟩ | ⟨⟨s, hs, hn⟩, _⟩
  · have e := SpellRule.postProcess_eq_suggestions senv f dict (backoff rounds) w
    rw [lintSuggestions, h1, capFirst_eq]
    refine congrArg Except.ok ?_
    cases w with
    | nil => exact e.symm
    | cons c cs => exact e.symm
  · obtain ⟨e, he, hk⟩ := h s hs
    exact absurd hk (hn e he)

/-- **`suggestions_are_words_strong` for the lint the rule `SpellCheck` reports** (`SpellRule.spellLintOf`, the lint of
`ruleSpellCheck` / `spellCheckLint` / `spellSession`): when the word data hold the dialect-filtered result of the back-off search
over a dictionary with unique keys and every candidate is a listed spelling, every suggestion of the lint is `ReplaceWith` the
listed spelling of an entry allowed by the dialect, its first letter upper-cased when the misspelt word's is -/
theorem spellRule_suggestions_are_words (senv : SpellRule.SpellEnv) (f : Fns) (dict : List Entry) (hu : UniqueKeys f dict)
    (w : List Char) (rounds : List (List (List Char))) (hf : ∀ s ∈ backoff rounds, ∃ e ∈ dict, e.canon = s) (sp : Span) :
    let l := SpellRule.spellLintOf senv sp w ((backoff rounds).filter fun s =>
      match lookup f dict s with | some e => e.dialectOk | none => false)
    l.suggs.length ≤ 3 ∧
    ∀ sg ∈ l.suggs, ∃ e ∈ dict, e.dialectOk = true ∧ e.canon ∈ backoff rounds ∧
      sg = .replaceWith (if startsUpper senv.isUpper w = true then capFirst senv.upperFirst e.canon else e.canon) := by
  obtain ⟨out, h1, h2, h3⟩ := lintSuggestions_are_words f dict hu senv.isUpper senv.upperFirst w rounds hf
  have hk : ∀ s ∈ backoff rounds, ∃ e ∈ dict, key f e.canon = key f s := by
    intro s hs
    obtain ⟨e, he, rfl⟩ := hf s hs
    exact ⟨e, he, rfl⟩
  rw [spellRule_suggestions_eq senv f dict w rounds hk] at h1
  cases h1
  simp only [SpellRule.spellLintOf, List.length_map]
  refine ⟨h2, ?_⟩
  intro sg hsg
  obtain ⟨s, hs, rfl⟩ := List.mem_map.mp hsg
  obtain ⟨e, he, hd, hm, hc⟩ := h3 s hs
  refine ⟨e, he, hd, hm, ?_⟩
  split
  · rename_i hcap; rw [if_pos hcap] at hc; rw [hc]
  · rename_i hcap; rw [if_neg hcap] at hc; rw [hc]

/-! #### non-vacuity, on the ASCII instance -/

def asciiIsUpper (c : Char) : Bool := decide ('A' ≤ c ∧ c ≤ 'Z')
def asciiUp (c : Char) : Char := if 'a' ≤ c ∧ c ≤ 'z' then Char.ofNat (c.toNat - 32) else c

/-- six entries, five allowed by the dialect (one capitalised), one of another dialect -/
def sixDict : List Entry :=
  [⟨['c','a','t'], true⟩, ⟨['c','o','t'], true⟩, ⟨['c','u','t'], true⟩, ⟨['c','a','r','t'], true⟩, ⟨['C','a','t','o'], true⟩,
   ⟨['c','a','t','s'], false⟩]

theorem uniqueKeys_sixDict : UniqueKeys fnsAscii sixDict := by unfold UniqueKeys sixDict; decide

/-- what the item asks for: the misspelt `Cta` (capitalised), the first search empty, the second returning a lower-case entry, the
entry of another dialect (`lift`, filtered out) and a capitalised entry: `Cat`, `Paris`, in this order -/
example : lintSuggestions fnsAscii tinyDict asciiIsUpper asciiUp ['C','t','a']
      [[], [['c','a','t'], ['l','i','f','t'], ['P','a','r','i','s']], [['d','o','g']]]
    = .ok [['C','a','t'], ['P','a','r','i','s']] := by decide

/-- non-vacuity of `lintSuggestions_are_words`: all hypotheses at once on that input (`UniqueKeys`, every candidate of the chosen
search a listed spelling); the third search holds `dog`, which no entry lists — it is not looked at -/
example : ∃ out, lintSuggestions fnsAscii tinyDict asciiIsUpper asciiUp ['C','t','a']
      [[], [['c','a','t'], ['l','i','f','t'], ['P','a','r','i','s']], [['d','o','g']]] = .ok out ∧ out.length ≤ 3 ∧
      ∀ s ∈ out, ∃ e ∈ tinyDict, e.dialectOk = true ∧
        e.canon ∈ backoff [[], [['c','a','t'], ['l','i','f','t'], ['P','a','r','i','s']], [['d','o','g']]] ∧
        (if startsUpper asciiIsUpper ['C','t','a'] = true then s = capFirst asciiUp e.canon else s = e.canon) :=
  lintSuggestions_are_words fnsAscii tinyDict uniqueKeys_tinyDict asciiIsUpper asciiUp ['C','t','a'] _ (by decide)

/-- more than three allowed candidates: the first three in the order of the search, the other-dialect `cats` skipped BEFORE the
cut (it is second), the capitalised entry `Cato` and `cart` cut off; lower-case misspelling: nothing is upper-cased -/
example : lintSuggestions fnsAscii sixDict asciiIsUpper asciiUp ['c','t']
      [[['c','a','t'], ['c','a','t','s'], ['c','o','t'], ['c','u','t'], ['C','a','t','o'], ['c','a','r','t']]]
    = .ok [['c','a','t'], ['c','o','t'], ['c','u','t']] := by decide

/-- non-vacuity of `lintSuggestions_are_words` with more candidates than are offered, upper-case misspelling `CT` -/
example : ∃ out, lintSuggestions fnsAscii sixDict asciiIsUpper asciiUp ['C','T']
      [[['c','a','t'], ['c','a','t','s'], ['c','o','t'], ['c','u','t'], ['C','a','t','o'], ['c','a','r','t']]] = .ok out ∧
      out.length ≤ 3 ∧
      ∀ s ∈ out, ∃ e ∈ sixDict, e.dialectOk = true ∧
        e.canon ∈ backoff [[['c','a','t'], ['c','a','t','s'], ['c','o','t'], ['c','u','t'], ['C','a','t','o'], ['c','a','r','t']]] ∧
        (if startsUpper asciiIsUpper ['C','T'] = true then s = capFirst asciiUp e.canon else s = e.canon) :=
  lintSuggestions_are_words fnsAscii sixDict uniqueKeys_sixDict asciiIsUpper asciiUp ['C','T'] _ (by decide)

example : lintSuggestions fnsAscii sixDict asciiIsUpper asciiUp ['C','T']
      [[['c','a','t'], ['c','a','t','s'], ['c','o','t'], ['c','u','t'], ['C','a','t','o'], ['c','a','r','t']]]
    = .ok [['C','a','t'], ['C','o','t'], ['C','u','t']] := by decide

/-- the panic of the code: a candidate of the chosen search that the dictionary does not know (`dog`), although the others are
fine — and the second disjunct of `suggestionsE_eq` / first of `lintSuggestions_cases` is inhabited -/
example : lintSuggestions fnsAscii tinyDict asciiIsUpper asciiUp ['c','t','a'] [[['c','a','t'], ['d','o','g']]]
    = .error .unwrapNone := by decide

/-- non-vacuity of `suggestionsE_ok` and of both disjuncts of `suggestionsE_eq` -/
example : suggestionsE fnsAscii tinyDict [['c','a','t'], ['l','i','f','t']] true (capFirst asciiUp) = .ok [['C','a','t']] ∧
    (∀ s ∈ [['c','a','t'], ['l','i','f','t']], ∃ e ∈ tinyDict, e.canon = s) ∧
    suggestionsE fnsAscii tinyDict [['d','o','g']] true (capFirst asciiUp) = .error .unwrapNone ∧
    (∃ s ∈ [['d','o','g']], ∀ e ∈ tinyDict, key fnsAscii e.canon ≠ key fnsAscii s) := by decide

/-- non-vacuity of `backoff_spec`, second disjunct with a non-empty prefix of empty searches; and the first disjunct -/
example : backoff [[], [], [['c','a','t']], [['d','o','g']]] = [['c','a','t']] ∧ backoff [[], [], []] = [] := by decide

/-- non-vacuity of `suggestions_order`: the filter drops the second of five candidates, the cut the fifth -/
example : suggestions fnsAscii sixDict [['c','a','t'], ['c','a','t','s'], ['c','o','t'], ['c','u','t'], ['c','a','r','t']] false id
    = [['c','a','t'], ['c','o','t'], ['c','u','t']] := by decide

/-- a `SpellEnv` for the examples: ASCII `is_uppercase` / `to_uppercase` -/
def envAscii : SpellRule.SpellEnv := ⟨fun _ => default, asciiIsUpper, asciiUp⟩

/-- non-vacuity of `spellRule_suggestions_eq`: the rule's post-processing of the filtered search result of the example above IS the
list op `sugg` computes -/
example : lintSuggestions fnsAscii tinyDict asciiIsUpper asciiUp ['C','t','a']
      [[], [['c','a','t'], ['l','i','f','t'], ['P','a','r','i','s']], [['d','o','g']]]
    = .ok (SpellRule.postProcess envAscii ['C','t','a'] [['c','a','t'], ['P','a','r','i','s']]) :=
  spellRule_suggestions_eq envAscii fnsAscii tinyDict ['C','t','a'] _ (by decide)

/-- non-vacuity of `spellRule_suggestions_are_words`: the lint of the rule on `Cta` offers `ReplaceWith Cat`, `ReplaceWith Paris` -/
example : (SpellRule.spellLintOf envAscii ⟨0, 3⟩ ['C','t','a'] [['c','a','t'], ['P','a','r','i','s']]).suggs
    = [.replaceWith ['C','a','t'], .replaceWith ['P','a','r','i','s']] := by decide

example :
    let l := SpellRule.spellLintOf envAscii ⟨0, 3⟩ ['C','t','a']
      ((backoff [[], [['c','a','t'], ['l','i','f','t'], ['P','a','r','i','s']]]).filter fun s =>
        match lookup fnsAscii tinyDict s with | some e => e.dialectOk | none => false)
    l.suggs.length ≤ 3 ∧
    ∀ sg ∈ l.suggs, ∃ e ∈ tinyDict, e.dialectOk = true ∧
      e.canon ∈ backoff [[], [['c','a','t'], ['l','i','f','t'], ['P','a','r','i','s']]] ∧
      sg = .replaceWith (if startsUpper envAscii.isUpper ['C','t','a'] = true then capFirst envAscii.upperFirst e.canon
        else e.canon) :=
  spellRule_suggestions_are_words envAscii fnsAscii tinyDict uniqueKeys_tinyDict ['C','t','a']
    [[], [['c','a','t'], ['l','i','f','t'], ['P','a','r','i','s']]] (by decide) ⟨0, 3⟩

end Harper.C06
