import Harper.Model.Spell
/-!
# C06 — a word is reported misspelt exactly when the dictionary does not contain it

Decision logic of `SpellCheck::lint` over any dictionary whose keys are unique (the word map is a
hash map keyed by the lower-cased normalized spelling, so this holds by construction), for any
`lower` / `normalize` functions satisfying the stated laws (monitored on every word seen).
Lexing of the word (which characters form one `Word` token) is C02's business; two classes of
dictionary entries the lexer cannot produce as one token are recorded findings.
-/
namespace Harper.C06
open Harper.Spell

/-- keys are unique: what a map keyed by `WordId` guarantees -/
def UniqueKeys (f : Fns) (dict : List Entry) : Prop :=
  dict.Pairwise (fun a b => key f a.canon ≠ key f b.canon)

/-- laws of `to_lower` / `normalized` used below (monitored on every word the harness sees) -/
structure Laws (f : Fns) : Prop where
  norm_idem : ∀ w, f.normalize (f.normalize w) = f.normalize w
  key_lower : ∀ w, key f (f.lower w) = key f w

theorem lookup_of_mem (f : Fns) (dict : List Entry) (hu : UniqueKeys f dict) (e : Entry)
    (he : e ∈ dict) (w : List Char) (hk : key f w = key f e.canon) : lookup f dict w = some e := by
  induction dict with
  | nil => cases he
  | cons d ds ih =>
    have ⟨h1, h2⟩ := List.pairwise_cons.mp hu
    unfold lookup
    rw [List.find?_cons]
    rcases List.mem_cons.mp he with rfl | he'
    · have : (key f e.canon == key f w) = true := by rw [hk]; exact beq_self_eq_true _
      rw [this]
    · have hne : (key f d.canon == key f w) = false := by
        rw [hk]; exact beq_eq_false_iff_ne.mpr (h1 e he')
      rw [hne]
      exact ih h2 he'

/-- a listed word, in its listed (normalized) capitalisation and admitted by the dialect, is
never reported -/
theorem listed_accepted (f : Fns) (_hl : Laws f) (dict : List Entry) (hu : UniqueKeys f dict)
    (e : Entry) (he : e ∈ dict) (hd : e.dialectOk = true) (hn : f.normalize e.canon = e.canon) :
    accept f dict e.canon = true := by
  have h1 : lookup f dict e.canon = some e := lookup_of_mem f dict hu e he _ rfl
  have h2 : lookup f dict (f.normalize e.canon) = some e := by rw [hn]; exact h1
  simp [accept, h1, hd, containsExact, h2, hn]

/-- a capitalised / upper-case form `w` of a lower-case entry (`lower w = e.canon`) is accepted -/
theorem capitalised_accepted (f : Fns) (hl : Laws f) (dict : List Entry) (hu : UniqueKeys f dict)
    (e : Entry) (he : e ∈ dict) (hd : e.dialectOk = true) (hn : f.normalize e.canon = e.canon)
    (w : List Char) (hw : f.lower w = e.canon) : accept f dict w = true := by
  have hk : key f w = key f e.canon := by rw [← hl.key_lower w, hw]
  have h1 : lookup f dict w = some e := lookup_of_mem f dict hu e he _ hk
  have h2 : lookup f dict e.canon = some e := lookup_of_mem f dict hu e he _ rfl
  simp [accept, h1, hd, containsExact, hw, hn, h2]

/-- a word whose key no entry has is reported -/
theorem unlisted_flagged (f : Fns) (dict : List Entry) (w : List Char)
    (h : ∀ e ∈ dict, key f e.canon ≠ key f w) : accept f dict w = false := by
  have : lookup f dict w = none := by
    unfold lookup
    rw [List.find?_eq_none]
    intro e he
    simpa using h e he
  simp [accept, this]

/-- an accepted word's key is an entry's key (nothing outside the dictionary is accepted) -/
theorem accepted_is_listed (f : Fns) (dict : List Entry) (w : List Char)
    (h : accept f dict w = true) : ∃ e ∈ dict, key f e.canon = key f w ∧ e.dialectOk = true := by
  unfold accept at h
  split at h
  · rename_i e he
    have hm := List.mem_of_find?_eq_some he
    have hp := List.find?_some he
    simp at h hp
    exact ⟨e, hm, hp, h.1⟩
  · cases h

/-- every suggestion is an entry of the active dialect, up to upper-casing its first letter;
at most three are offered -/
theorem suggestions_are_words (f : Fns) (dict : List Entry) (fuzzy : List (List Char))
    (cap : Bool) (up : List Char → List Char) :
    (suggestions f dict fuzzy cap up).length ≤ 3 ∧
    ∀ s ∈ suggestions f dict fuzzy cap up,
      ∃ s₀ ∈ fuzzy, (s = s₀ ∨ s = up s₀) ∧
        ∃ e ∈ dict, key f e.canon = key f s₀ ∧ e.dialectOk = true := by
  unfold suggestions
  simp only
  have hkept : ∀ s₀ ∈ (fuzzy.filter fun s => match lookup f dict s with
      | some e => e.dialectOk | none => false).take 3,
      s₀ ∈ fuzzy ∧ ∃ e ∈ dict, key f e.canon = key f s₀ ∧ e.dialectOk = true := by
    intro s₀ hs
    have hs' := List.mem_of_mem_take hs
    have ⟨hm, hp⟩ := List.mem_filter.mp hs'
    refine ⟨hm, ?_⟩
    split at hp
    · rename_i e he
      have hmem := List.mem_of_find?_eq_some he
      have hk := List.find?_some he
      simp at hk
      exact ⟨e, hmem, hk, hp⟩
    · cases hp
  split
  · refine ⟨by simp [List.length_take]; omega, ?_⟩
    intro s hs
    obtain ⟨s₀, hs₀, rfl⟩ := List.mem_map.mp hs
    have ⟨h1, h2⟩ := hkept s₀ hs₀
    exact ⟨s₀, h1, Or.inr rfl, h2⟩
  · refine ⟨by simp [List.length_take]; omega, ?_⟩
    intro s hs
    have ⟨h1, h2⟩ := hkept s hs
    exact ⟨s, h1, Or.inl rfl, h2⟩

/-! ### non-vacuity: an ASCII instance (kernel-evaluated) -/

def asciiLower (w : List Char) : List Char :=
  w.map fun c => if 'A' ≤ c ∧ c ≤ 'Z' then Char.ofNat (c.toNat + 32) else c
def fnsAscii : Fns := ⟨asciiLower, id⟩
def tinyDict : List Entry := [⟨['c','a','t'], true⟩, ⟨['P','a','r','i','s'], true⟩, ⟨['l','i','f','t'], false⟩]

example : UniqueKeys fnsAscii tinyDict := by unfold UniqueKeys tinyDict; decide
example : accept fnsAscii tinyDict ['c','a','t'] = true := by decide
example : accept fnsAscii tinyDict ['C','A','T'] = true := by decide      -- upper-case form of a lower-case entry
example : accept fnsAscii tinyDict ['P','a','r','i','s'] = true := by decide
example : accept fnsAscii tinyDict ['p','a','r','i','s'] = false := by decide  -- listed only capitalised
example : accept fnsAscii tinyDict ['l','i','f','t'] = false := by decide      -- other dialect
example : accept fnsAscii tinyDict ['d','o','g'] = false := by decide

/-! ### w22: joint witnesses of the hypotheses, the exact characterisation, listed-spelling suggestions -/

/-- `asciiLower` is idempotent on one character (26 capital letters checked by the kernel) -/
theorem asciiLower_idem1 (c : Char) : asciiLower (asciiLower [c]) = asciiLower [c] := by
  by_cases h : 'A' ≤ c ∧ c ≤ 'Z'
  · have h1 : 65 ≤ c.toNat := by
      have := UInt32.le_iff_toNat_le.mp (Char.le_def.mp h.1); simpa using this
    have h2 : c.toNat ≤ 90 := by
      have := UInt32.le_iff_toNat_le.mp (Char.le_def.mp h.2); simpa using this
    have key : ∀ n, n < 26 →
        asciiLower (asciiLower [Char.ofNat (65 + n)]) = asciiLower [Char.ofNat (65 + n)] := by decide
    have := key (c.toNat - 65) (by omega)
    rwa [show 65 + (c.toNat - 65) = c.toNat by omega, Char.ofNat_toNat] at this
  · simp [asciiLower, h]

/-- the ASCII instance satisfies `Laws`: the hypotheses `Laws` + `UniqueKeys` are jointly satisfiable -/
theorem laws_fnsAscii : Laws fnsAscii where
  norm_idem _ := rfl
  key_lower w := by
    show asciiLower (id (asciiLower w)) = asciiLower (id w)
    induction w with
    | nil => rfl
    | cons c w ih =>
      have h1 := asciiLower_idem1 c
      simp only [id, asciiLower, List.map_cons, List.map_nil, List.cons.injEq, and_true] at h1 ih ⊢
      exact ⟨h1, ih⟩

theorem uniqueKeys_tinyDict : UniqueKeys fnsAscii tinyDict := by unfold UniqueKeys tinyDict; decide

/-- non-vacuity of `lookup_of_mem`: all hypotheses at once, a capitalised entry found under an
upper-case query -/
example : lookup fnsAscii tinyDict ['P','A','R','I','S'] = some ⟨['P','a','r','i','s'], true⟩ :=
  lookup_of_mem fnsAscii tinyDict uniqueKeys_tinyDict ⟨['P','a','r','i','s'], true⟩ (by decide)
    ['P','A','R','I','S'] (by decide)

/-- non-vacuity of `listed_accepted`: the capitalised entry of a three-entry dictionary (one entry of
another dialect), `Laws` and `UniqueKeys` together -/
example : accept fnsAscii tinyDict ['P','a','r','i','s'] = true :=
  listed_accepted fnsAscii laws_fnsAscii tinyDict uniqueKeys_tinyDict ⟨['P','a','r','i','s'], true⟩
    (by decide) rfl rfl

/-- non-vacuity of `capitalised_accepted`: `Cat` and `CAT` for the lower-case entry `cat` -/
example : accept fnsAscii tinyDict ['C','a','t'] = true ∧ accept fnsAscii tinyDict ['C','A','T'] = true :=
  ⟨capitalised_accepted fnsAscii laws_fnsAscii tinyDict uniqueKeys_tinyDict ⟨['c','a','t'], true⟩
      (by decide) rfl rfl ['C','a','t'] (by decide),
   capitalised_accepted fnsAscii laws_fnsAscii tinyDict uniqueKeys_tinyDict ⟨['c','a','t'], true⟩
      (by decide) rfl rfl ['C','A','T'] (by decide)⟩

/-- non-vacuity of `unlisted_flagged`: `Dog` has no entry's key in the three-entry dictionary -/
example : accept fnsAscii tinyDict ['D','o','g'] = false :=
  unlisted_flagged fnsAscii tinyDict ['D','o','g'] (by decide)

/-- non-vacuity of `accepted_is_listed` (hypothesis `accept … = true` on a non-trivial word) -/
example : ∃ e ∈ tinyDict, key fnsAscii e.canon = key fnsAscii ['C','A','T'] ∧ e.dialectOk = true :=
  accepted_is_listed fnsAscii tinyDict ['C','A','T'] (by decide)

/-- **Exact characterisation of the decision** (both directions at once, for every word — listed or
not): under `Laws` and `UniqueKeys`, `w` is accepted iff some entry has `w`'s key, admits the
dialect, and its listed spelling is the normalized `w` or the normalized lower-cased `w`.
Hence: a key no entry has ⇒ reported (`unlisted_flagged`); and a word whose key IS listed is still
reported when the dialect excludes it or the capitalisation is neither the listed one nor an
upper-casing of it (`paris` against `Paris`). -/
theorem accept_iff (f : Fns) (hl : Laws f) (dict : List Entry) (hu : UniqueKeys f dict)
    (w : List Char) :
    accept f dict w = true ↔
      ∃ e ∈ dict, key f e.canon = key f w ∧ e.dialectOk = true ∧
        (e.canon = f.normalize w ∨ e.canon = f.normalize (f.lower w)) := by
  have hk1 : key f (f.normalize w) = key f w := by simp [key, hl.norm_idem]
  have hk2 : key f (f.normalize (f.lower w)) = key f w := by
    rw [← hl.key_lower w]; simp [key, hl.norm_idem]
  have e1 : lookup f dict (f.normalize w) = lookup f dict w := by simp [lookup, hk1]
  have e2 : lookup f dict (f.normalize (f.lower w)) = lookup f dict w := by simp [lookup, hk2]
  constructor
  · intro h
    unfold accept at h
    split at h
    · rename_i e he
      have hm := List.mem_of_find?_eq_some he
      have hp := List.find?_some he
      simp only [containsExact, e1, e2, he, Bool.and_eq_true, Bool.or_eq_true, beq_iff_eq] at h hp
      exact ⟨e, hm, hp, h.1, h.2⟩
    · cases h
  · rintro ⟨e, he, hk, hd, hc⟩
    have h1 : lookup f dict w = some e := lookup_of_mem f dict hu e he w hk.symm
    simp only [accept, h1, containsExact, e1, e2, hd, Bool.true_and, Bool.or_eq_true, beq_iff_eq]
    exact hc

/-- non-vacuity of `accept_iff`, and the case the one-directional theorems do not speak about:
`paris` has a listed key (entry `Paris`) and is reported all the same -/
example : accept fnsAscii tinyDict ['p','a','r','i','s'] = false ∧
    ∃ e ∈ tinyDict, key fnsAscii e.canon = key fnsAscii ['p','a','r','i','s'] := by
  refine ⟨?_, ⟨['P','a','r','i','s'], true⟩, by decide, by decide⟩
  apply Bool.eq_false_iff.mpr
  intro h
  obtain ⟨e, he, hk, _, hc⟩ := (accept_iff fnsAscii laws_fnsAscii tinyDict uniqueKeys_tinyDict _).mp h
  simp only [tinyDict, List.mem_cons, List.not_mem_nil, or_false] at he
  rcases he with rfl | rfl | rfl <;> revert hk hc <;> decide

/-- **Suggestions are listed spellings** (what the property says; `suggestions_are_words` only gives
"has the key of an entry"): when every fuzzy candidate is the listed spelling of some entry — which is
what `suggest_correct_spelling` delivers (C15 `fuzzy_sound`: every result is a word of the
dictionary) — every suggestion is, up to `up` on a capitalised misspelling, the listed spelling of
an entry that admits the dialect. -/
theorem suggestions_are_words_strong (f : Fns) (dict : List Entry) (hu : UniqueKeys f dict)
    (fuzzy : List (List Char)) (hf : ∀ s ∈ fuzzy, ∃ e ∈ dict, e.canon = s)
    (cap : Bool) (up : List Char → List Char) :
    ∀ s ∈ suggestions f dict fuzzy cap up,
      ∃ e ∈ dict, e.dialectOk = true ∧ e.canon ∈ fuzzy ∧
        (if cap = true then s = up e.canon else s = e.canon) := by
  have hkept : ∀ s₀ ∈ (fuzzy.filter fun s => match lookup f dict s with
      | some e => e.dialectOk | none => false).take 3,
      ∃ e ∈ dict, e.dialectOk = true ∧ e.canon ∈ fuzzy ∧ s₀ = e.canon := by
    intro s₀ hs
    have ⟨hm, hp⟩ := List.mem_filter.mp (List.mem_of_mem_take hs)
    obtain ⟨e, he, rfl⟩ := hf s₀ hm
    rw [lookup_of_mem f dict hu e he e.canon rfl] at hp
    exact ⟨e, he, hp, hm, rfl⟩
  intro s hs
  unfold suggestions at hs
  simp only at hs
  split at hs
  · rename_i hc
    obtain ⟨s₀, hs₀, rfl⟩ := List.mem_map.mp hs
    obtain ⟨e, he, hd, hm, rfl⟩ := hkept s₀ hs₀
    exact ⟨e, he, hd, hm, by simp [hc]⟩
  · rename_i hc
    obtain ⟨e, he, hd, hm, rfl⟩ := hkept s hs
    exact ⟨e, he, hd, hm, by simp [hc]⟩

/-- non-vacuity of `suggestions_are_words(_strong)`: four candidates, the other-dialect entry is
dropped, the first letter is upper-cased, order kept -/
example : suggestions fnsAscii tinyDict [['c','a','t'], ['l','i','f','t'], ['P','a','r','i','s']] true
      (fun s => match s with | [] => [] | c :: r => c.toUpper :: r)
    = [['C','a','t'], ['P','a','r','i','s']] ∧
    (∀ s ∈ [['c','a','t'], ['l','i','f','t'], ['P','a','r','i','s']], ∃ e ∈ tinyDict, e.canon = s) := by
  decide

/-- without the hypothesis on `fuzzy` the weaker theorem cannot be improved: a candidate that is
only a re-casing of an entry passes the filter of the model (the real code never produces one) -/
example : suggestions fnsAscii tinyDict [['p','a','r','i','s']] false id = [['p','a','r','i','s']] := by
  decide

end Harper.C06
