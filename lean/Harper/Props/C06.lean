import Harper.Model.Spell
/-!
# C06 — a word is reported misspelt exactly when the dictionary does not contain it

Decision logic of `SpellCheck::lint` over any dictionary whose keys are unique (the word map is a
hash map keyed by the lower-cased normalized spelling, so this holds by construction), for any
`lower` / `normalize` functions satisfying the stated laws (monitored on every word seen).
Lexing of the word (which characters form one `Word` token) is C02's business; two classes of
dictionary entries the lexer cannot produce as one token are recorded findings.
-/
namespace Harper.C06
open Harper.Spell

/-- keys are unique: what a map keyed by `WordId` guarantees -/
def UniqueKeys (f : Fns) (dict : List Entry) : Prop :=
  dict.Pairwise (fun a b => key f a.canon ≠ key f b.canon)

/-- laws of `to_lower` / `normalized` used below (monitored on every word the harness sees) -/
structure Laws (f : Fns) : Prop where
  norm_idem : ∀ w, f.normalize (f.normalize w) = f.normalize w
  key_lower : ∀ w, key f (f.lower w) = key f w

theorem lookup_of_mem (f : Fns) (dict : List Entry) (hu : UniqueKeys f dict) (e : Entry)
    (he : e ∈ dict) (w : List Char) (hk : key f w = key f e.canon) : lookup f dict w = some e := by
  induction dict with
  | nil => cases he
  | cons d ds ih =>
    have ⟨h1, h2⟩ := List.pairwise_cons.mp hu
    unfold lookup
    rw [List.find?_cons]
    rcases List.mem_cons.mp he with rfl | he'
    · have : (key f e.canon == key f w) = true := by rw [hk]; exact beq_self_eq_true _
      rw [this]
    · have hne : (key f d.canon == key f w) = false := by
        rw [hk]; exact beq_eq_false_iff_ne.mpr (h1 e he')
      rw [hne]
      exact ih h2 he'

/-- a listed word, in its listed (normalized) capitalisation and admitted by the dialect, is
never reported -/
theorem listed_accepted (f : Fns) (_hl : Laws f) (dict : List Entry) (hu : UniqueKeys f dict)
    (e : Entry) (he : e ∈ dict) (hd : e.dialectOk = true) (hn : f.normalize e.canon = e.canon) :
    accept f dict e.canon = true := by
  have h1 : lookup f dict e.canon = some e := lookup_of_mem f dict hu e he _ rfl
  have h2 : lookup f dict (f.normalize e.canon) = some e := by rw [hn]; exact h1
  simp [accept, h1, hd, containsExact, h2, hn]

/-- a capitalised / upper-case form `w` of a lower-case entry (`lower w = e.canon`) is accepted -/
theorem capitalised_accepted (f : Fns) (hl : Laws f) (dict : List Entry) (hu : UniqueKeys f dict)
    (e : Entry) (he : e ∈ dict) (hd : e.dialectOk = true) (hn : f.normalize e.canon = e.canon)
    (w : List Char) (hw : f.lower w = e.canon) : accept f dict w = true := by
  have hk : key f w = key f e.canon := by rw [← hl.key_lower w, hw]
  have h1 : lookup f dict w = some e := lookup_of_mem f dict hu e he _ hk
  have h2 : lookup f dict e.canon = some e := lookup_of_mem f dict hu e he _ rfl
  simp [accept, h1, hd, containsExact, hw, hn, h2]

/-- a word whose key no entry has is reported -/
theorem unlisted_flagged (f : Fns) (dict : List Entry) (w : List Char)
    (h : ∀ e ∈ dict, key f e.canon ≠ key f w) : accept f dict w = false := by
  have : lookup f dict w = none := by
    unfold lookup
    rw [List.find?_eq_none]
    intro e he
    simpa using h e he
  simp [accept, this]

/-- an accepted word's key is an entry's key (nothing outside the dictionary is accepted) -/
theorem accepted_is_listed (f : Fns) (dict : List Entry) (w : List Char)
    (h : accept f dict w = true) : ∃ e ∈ dict, key f e.canon = key f w ∧ e.dialectOk = true := by
  unfold accept at h
  split at h
  · rename_i e he
    have hm := List.mem_of_find?_eq_some he
    have hp := List.find?_some he
    simp at h hp
    exact ⟨e, hm, hp, h.1⟩
  · cases h

/-- every suggestion is an entry of the active dialect, up to upper-casing its first letter;
at most three are offered -/
theorem suggestions_are_words (f : Fns) (dict : List Entry) (fuzzy : List (List Char))
    (cap : Bool) (up : List Char → List Char) :
    (suggestions f dict fuzzy cap up).length ≤ 3 ∧
    ∀ s ∈ suggestions f dict fuzzy cap up,
      ∃ s₀ ∈ fuzzy, (s = s₀ ∨ s = up s₀) ∧
        ∃ e ∈ dict, key f e.canon = key f s₀ ∧ e.dialectOk = true := by
  unfold suggestions
  simp only
  have hkept : ∀ s₀ ∈ (fuzzy.filter fun s => match lookup f dict s with
      | some e => e.dialectOk | none => false).take 3,
      s₀ ∈ fuzzy ∧ ∃ e ∈ dict, key f e.canon = key f s₀ ∧ e.dialectOk = true := by
    intro s₀ hs
    have hs' := List.mem_of_mem_take hs
    have ⟨hm, hp⟩ := List.mem_filter.mp hs'
    refine ⟨hm, ?_⟩
    split at hp
    · rename_i e he
      have hmem := List.mem_of_find?_eq_some he
      have hk := List.find?_some he
      simp at hk
      exact ⟨e, hmem, hk, hp⟩
    · cases hp
  split
  · refine ⟨by simp [List.length_take]; omega, ?_⟩
    intro s hs
    obtain ⟨s₀, hs₀, rfl⟩ := List.mem_map.mp hs
    have ⟨h1, h2⟩ := hkept s₀ hs₀
    exact ⟨s₀, h1, Or.inr rfl, h2⟩
  · refine ⟨by simp [List.length_take]; omega, ?_⟩
    intro s hs
    have ⟨h1, h2⟩ := hkept s hs
    exact ⟨s, h1, Or.inl rfl, h2⟩

/-! ### non-vacuity: an ASCII instance (kernel-evaluated) -/

def asciiLower (w : List Char) : List Char :=
  w.map fun c => if 'A' ≤ c ∧ c ≤ 'Z' then Char.ofNat (c.toNat + 32) else c
def fnsAscii : Fns := ⟨asciiLower, id⟩
def tinyDict : List Entry := [⟨['c','a','t'], true⟩, ⟨['P','a','r','i','s'], true⟩, ⟨['l','i','f','t'], false⟩]

example : UniqueKeys fnsAscii tinyDict := by unfold UniqueKeys tinyDict; decide
example : accept fnsAscii tinyDict ['c','a','t'] = true := by decide
example : accept fnsAscii tinyDict ['C','A','T'] = true := by decide      -- upper-case form of a lower-case entry
example : accept fnsAscii tinyDict ['P','a','r','i','s'] = true := by decide
example : accept fnsAscii tinyDict ['p','a','r','i','s'] = false := by decide  -- listed only capitalised
example : accept fnsAscii tinyDict ['l','i','f','t'] = false := by decide      -- other dialect
example : accept fnsAscii tinyDict ['d','o','g'] = false := by decide

end Harper.C06
