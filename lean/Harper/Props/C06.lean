import Harper.Model.Spell
import Harper.Lemmas.SpellRule
import Harper.Props.C02b
/-!
# C06 — a word is reported misspelt exactly when the dictionary does not contain it

Decision logic of `SpellCheck::lint` over any dictionary whose keys are unique (the word map is a
hash map keyed by the lower-cased normalized spelling, so this holds by construction), for any
`lower` / `normalize` functions satisfying the stated laws (monitored on every word seen).
Lexing of the word (which characters form one `Word` token) is C02's business; two classes of
dictionary entries the lexer cannot produce as one token are recorded findings.
-/
namespace Harper.C06
open Harper.Spell

/-- keys are unique: what a map keyed by `WordId` guarantees -/
def UniqueKeys (f : Fns) (dict : List Entry) : Prop :=
  dict.Pairwise (fun a b => key f a.canon ≠ key f b.canon)

/-- laws of `to_lower` / `normalized` used below (monitored on every word the harness sees) -/
structure Laws (f : Fns) : Prop where
  norm_idem : ∀ w, f.normalize (f.normalize w) = f.normalize w
  key_lower : ∀ w, key f (f.lower w) = key f w

theorem lookup_of_mem (f : Fns) (dict : List Entry) (hu : UniqueKeys f dict) (e : Entry)
    (he : e ∈ dict) (w : List Char) (hk : key f w = key f e.canon) : lookup f dict w = some e := by
  induction dict with
  | nil => cases he
  | cons d ds ih =>
    have ⟨h1, h2⟩ := List.pairwise_cons.mp hu
    unfold lookup
    rw [List.find?_cons]
    rcases List.mem_cons.mp he with rfl | he'
    · have : (key f e.canon == key f w) = true := by rw [hk]; exact beq_self_eq_true _
      rw [this]
    · have hne : (key f d.canon == key f w) = false := by
        rw [hk]; exact beq_eq_false_iff_ne.mpr (h1 e he')
      rw [hne]
      exact ih h2 he'

/-- a listed word, in its listed (normalized) capitalisation and admitted by the dialect, is
never reported -/
theorem listed_accepted (f : Fns) (_hl : Laws f) (dict : List Entry) (hu : UniqueKeys f dict)
    (e : Entry) (he : e ∈ dict) (hd : e.dialectOk = true) (hn : f.normalize e.canon = e.canon) :
    accept f dict e.canon = true := by
  have h1 : lookup f dict e.canon = some e := lookup_of_mem f dict hu e he _ rfl
  have h2 : lookup f dict (f.normalize e.canon) = some e := by rw [hn]; exact h1
  simp [accept, h1, hd, containsExact, h2, hn]

/-- a capitalised / upper-case form `w` of a lower-case entry (`lower w = e.canon`) is accepted -/
theorem capitalised_accepted (f : Fns) (hl : Laws f) (dict : List Entry) (hu : UniqueKeys f dict)
    (e : Entry) (he : e ∈ dict) (hd : e.dialectOk = true) (hn : f.normalize e.canon = e.canon)
    (w : List Char) (hw : f.lower w = e.canon) : accept f dict w = true := by
  have hk : key f w = key f e.canon := by rw [← hl.key_lower w, hw]
  have h1 : lookup f dict w = some e := lookup_of_mem f dict hu e he _ hk
  have h2 : lookup f dict e.canon = some e := lookup_of_mem f dict hu e he _ rfl
  simp [accept, h1, hd, containsExact, hw, hn, h2]

/-- a word whose key no entry has is reported -/
theorem unlisted_flagged (f : Fns) (dict : List Entry) (w : List Char)
    (h : ∀ e ∈ dict, key f e.canon ≠ key f w) : accept f dict w = false := by
  have : lookup f dict w = none := by
    unfold lookup
    rw [List.find?_eq_none]
    intro e he
    simpa using h e he
  simp [accept, this]

/-- an accepted word's key is an entry's key (nothing outside the dictionary is accepted) -/
theorem accepted_is_listed (f : Fns) (dict : List Entry) (w : List Char)
    (h : accept f dict w = true) : ∃ e ∈ dict, key f e.canon = key f w ∧ e.dialectOk = true := by
  unfold accept at h
  split at h
  · rename_i e he
    have hm := List.mem_of_find?_eq_some he
    have hp := List.find?_some he
    simp at h hp
    exact ⟨e, hm, hp, h.1⟩
  · cases h

/-- every suggestion is an entry of the active dialect, up to upper-casing its first letter;
at most three are offered -/
theorem suggestions_are_words (f : Fns) (dict : List Entry) (fuzzy : List (List Char))
    (cap : Bool) (up : List Char → List Char) :
    (suggestions f dict fuzzy cap up).length ≤ 3 ∧
    ∀ s ∈ suggestions f dict fuzzy cap up,
      ∃ s₀ ∈ fuzzy, (s = s₀ ∨ s = up s₀) ∧
        ∃ e ∈ dict, key f e.canon = key f s₀ ∧ e.dialectOk = true := by
  unfold suggestions
  simp only
  have hkept : ∀ s₀ ∈ (fuzzy.filter fun s => match lookup f dict s with
      | some e => e.dialectOk | none => false).take 3,
      s₀ ∈ fuzzy ∧ ∃ e ∈ dict, key f e.canon = key f s₀ ∧ e.dialectOk = true := by
    intro s₀ hs
    have hs' := List.mem_of_mem_take hs
    have ⟨hm, hp⟩ := List.mem_filter.mp hs'
    refine ⟨hm, ?_⟩
    split at hp
    · rename_i e he
      have hmem := List.mem_of_find?_eq_some he
      have hk := List.find?_some he
      simp at hk
      exact ⟨e, hmem, hk, hp⟩
    · cases hp
  split
  · refine ⟨by simp [List.length_take]; omega, ?_⟩
    intro s hs
    obtain ⟨s₀, hs₀, rfl⟩ := List.mem_map.mp hs
    have ⟨h1, h2⟩ := hkept s₀ hs₀
    exact ⟨s₀, h1, Or.inr rfl, h2⟩
  · refine ⟨by simp [List.length_take]; omega, ?_⟩
    intro s hs
    have ⟨h1, h2⟩ := hkept s hs
    exact ⟨s, h1, Or.inl rfl, h2⟩

/-! ### non-vacuity: an ASCII instance (kernel-evaluated) -/

def asciiLower (w : List Char) : List Char :=
  w.map fun c => if 'A' ≤ c ∧ c ≤ 'Z' then Char.ofNat (c.toNat + 32) else c
def fnsAscii : Fns := ⟨asciiLower, id⟩
def tinyDict : List Entry := [⟨['c','a','t'], true⟩, ⟨['P','a','r','i','s'], true⟩, ⟨['l','i','f','t'], false⟩]

example : UniqueKeys fnsAscii tinyDict := by unfold UniqueKeys tinyDict; decide
example : accept fnsAscii tinyDict ['c','a','t'] = true := by decide
example : accept fnsAscii tinyDict ['C','A','T'] = true := by decide      -- upper-case form of a lower-case entry
example : accept fnsAscii tinyDict ['P','a','r','i','s'] = true := by decide
example : accept fnsAscii tinyDict ['p','a','r','i','s'] = false := by decide  -- listed only capitalised
example : accept fnsAscii tinyDict ['l','i','f','t'] = false := by decide      -- other dialect
example : accept fnsAscii tinyDict ['d','o','g'] = false := by decide

/-! ### w22: joint witnesses of the hypotheses, the exact characterisation, listed-spelling suggestions -/

/-- `asciiLower` is idempotent on one character (26 capital letters checked by the kernel) -/
theorem asciiLower_idem1 (c : Char) : asciiLower (asciiLower [c]) = asciiLower [c] := by
  by_cases h : 'A' ≤ c ∧ c ≤ 'Z'
  · have h1 : 65 ≤ c.toNat := by
      have := UInt32.le_iff_toNat_le.mp (Char.le_def.mp h.1); simpa using this
    have h2 : c.toNat ≤ 90 := by
      have := UInt32.le_iff_toNat_le.mp (Char.le_def.mp h.2); simpa using this
    have key : ∀ n, n < 26 →
        asciiLower (asciiLower [Char.ofNat (65 + n)]) = asciiLower [Char.ofNat (65 + n)] := by decide
    have := key (c.toNat - 65) (by omega)
    rwa [show 65 + (c.toNat - 65) = c.toNat by omega, Char.ofNat_toNat] at this
  · simp [asciiLower, h]

/-- the ASCII instance satisfies `Laws`: the hypotheses `Laws` + `UniqueKeys` are jointly satisfiable -/
theorem laws_fnsAscii : Laws fnsAscii where
  norm_idem _ := rfl
  key_lower w := by
    show asciiLower (id (asciiLower w)) = asciiLower (id w)
    induction w with
    | nil => rfl
    | cons c w ih =>
      have h1 := asciiLower_idem1 c
      simp only [id, asciiLower, List.map_cons, List.map_nil, List.cons.injEq, and_true] at h1 ih ⊢
      exact ⟨h1, ih⟩

theorem uniqueKeys_tinyDict : UniqueKeys fnsAscii tinyDict := by unfold UniqueKeys tinyDict; decide

/-- non-vacuity of `lookup_of_mem`: all hypotheses at once, a capitalised entry found under an
upper-case query -/
example : lookup fnsAscii tinyDict ['P','A','R','I','S'] = some ⟨['P','a','r','i','s'], true⟩ :=
  lookup_of_mem fnsAscii tinyDict uniqueKeys_tinyDict ⟨['P','a','r','i','s'], true⟩ (by decide)
    ['P','A','R','I','S'] (by decide)

/-- non-vacuity of `listed_accepted`: the capitalised entry of a three-entry dictionary (one entry of
another dialect), `Laws` and `UniqueKeys` together -/
example : accept fnsAscii tinyDict ['P','a','r','i','s'] = true :=
  listed_accepted fnsAscii laws_fnsAscii tinyDict uniqueKeys_tinyDict ⟨['P','a','r','i','s'], true⟩
    (by decide) rfl rfl

/-- non-vacuity of `capitalised_accepted`: `Cat` and `CAT` for the lower-case entry `cat` -/
example : accept fnsAscii tinyDict ['C','a','t'] = true ∧ accept fnsAscii tinyDict ['C','A','T'] = true :=
  ⟨capitalised_accepted fnsAscii laws_fnsAscii tinyDict uniqueKeys_tinyDict ⟨['c','a','t'], true⟩
      (by decide) rfl rfl ['C','a','t'] (by decide),
   capitalised_accepted fnsAscii laws_fnsAscii tinyDict uniqueKeys_tinyDict ⟨['c','a','t'], true⟩
      (by decide) rfl rfl ['C','A','T'] (by decide)⟩

/-- non-vacuity of `unlisted_flagged`: `Dog` has no entry's key in the three-entry dictionary -/
example : accept fnsAscii tinyDict ['D','o','g'] = false :=
  unlisted_flagged fnsAscii tinyDict ['D','o','g'] (by decide)

/-- non-vacuity of `accepted_is_listed` (hypothesis `accept … = true` on a non-trivial word) -/
example : ∃ e ∈ tinyDict, key fnsAscii e.canon = key fnsAscii ['C','A','T'] ∧ e.dialectOk = true :=
  accepted_is_listed fnsAscii tinyDict ['C','A','T'] (by decide)

/-- **Exact characterisation of the decision** (both directions at once, for every word — listed or
not): under `Laws` and `UniqueKeys`, `w` is accepted iff some entry has `w`'s key, admits the
dialect, and its listed spelling is the normalized `w` or the normalized lower-cased `w`.
Hence: a key no entry has ⇒ reported (`unlisted_flagged`); and a word whose key IS listed is still
reported when the dialect excludes it or the capitalisation is neither the listed one nor an
upper-casing of it (`paris` against `Paris`). -/
theorem accept_iff (f : Fns) (hl : Laws f) (dict : List Entry) (hu : UniqueKeys f dict)
    (w : List Char) :
    accept f dict w = true ↔
      ∃ e ∈ dict, key f e.canon = key f w ∧ e.dialectOk = true ∧
        (e.canon = f.normalize w ∨ e.canon = f.normalize (f.lower w)) := by
  have hk1 : key f (f.normalize w) = key f w := by simp [key, hl.norm_idem]
  have hk2 : key f (f.normalize (f.lower w)) = key f w := by
    rw [← hl.key_lower w]; simp [key, hl.norm_idem]
  have e1 : lookup f dict (f.normalize w) = lookup f dict w := by simp [lookup, hk1]
  have e2 : lookup f dict (f.normalize (f.lower w)) = lookup f dict w := by simp [lookup, hk2]
  constructor
  · intro h
    unfold accept at h
    split at h
    · rename_i e he
      have hm := List.mem_of_find?_eq_some he
      have hp := List.find?_some he
      simp only [containsExact, e1, e2, he, Bool.and_eq_true, Bool.or_eq_true, beq_iff_eq] at h hp
      exact ⟨e, hm, hp, h.1, h.2⟩
    · cases h
  · rintro ⟨e, he, hk, hd, hc⟩
    have h1 : lookup f dict w = some e := lookup_of_mem f dict hu e he w hk.symm
    simp only [accept, h1, containsExact, e1, e2, hd, Bool.true_and, Bool.or_eq_true, beq_iff_eq]
    exact hc

/-- non-vacuity of `accept_iff`, and the case the one-directional theorems do not speak about:
`paris` has a listed key (entry `Paris`) and is reported all the same -/
example : accept fnsAscii tinyDict ['p','a','r','i','s'] = false ∧
    ∃ e ∈ tinyDict, key fnsAscii e.canon = key fnsAscii ['p','a','r','i','s'] := by
  refine ⟨?_, ⟨['P','a','r','i','s'], true⟩, by decide, by decide⟩
  apply Bool.eq_false_iff.mpr
  intro h
  obtain ⟨e, he, hk, _, hc⟩ := (accept_iff fnsAscii laws_fnsAscii tinyDict uniqueKeys_tinyDict _).mp h
  simp only [tinyDict, List.mem_cons, List.not_mem_nil, or_false] at he
  rcases he with rfl | rfl | rfl <;> revert hk hc <;> decide

/-- **Suggestions are listed spellings** (what the property says; `suggestions_are_words` only gives
"has the key of an entry"): when every fuzzy candidate is the listed spelling of some entry — which is
what `suggest_correct_spelling` delivers (C15 `fuzzy_sound`: every result is a word of the
dictionary) — every suggestion is, up to `up` on a capitalised misspelling, the listed spelling of
an entry that admits the dialect. -/
theorem suggestions_are_words_strong (f : Fns) (dict : List Entry) (hu : UniqueKeys f dict)
    (fuzzy : List (List Char)) (hf : ∀ s ∈ fuzzy, ∃ e ∈ dict, e.canon = s)
    (cap : Bool) (up : List Char → List Char) :
    ∀ s ∈ suggestions f dict fuzzy cap up,
      ∃ e ∈ dict, e.dialectOk = true ∧ e.canon ∈ fuzzy ∧
        (if cap = true then s = up e.canon else s = e.canon) := by
  have hkept : ∀ s₀ ∈ (fuzzy.filter fun s => match lookup f dict s with
      | some e => e.dialectOk | none => false).take 3,
      ∃ e ∈ dict, e.dialectOk = true ∧ e.canon ∈ fuzzy ∧ s₀ = e.canon := by
    intro s₀ hs
    have ⟨hm, hp⟩ := List.mem_filter.mp (List.mem_of_mem_take hs)
    obtain ⟨e, he, rfl⟩ := hf s₀ hm
    rw [lookup_of_mem f dict hu e he e.canon rfl] at hp
    exact ⟨e, he, hp, hm, rfl⟩
  intro s hs
  unfold suggestions at hs
  simp only at hs
  split at hs
  · rename_i hc
    obtain ⟨s₀, hs₀, rfl⟩ := List.mem_map.mp hs
    obtain ⟨e, he, hd, hm, rfl⟩ := hkept s₀ hs₀
    exact ⟨e, he, hd, hm, by simp [hc]⟩
  · rename_i hc
    obtain ⟨e, he, hd, hm, rfl⟩ := hkept s hs
    exact ⟨e, he, hd, hm, by simp [hc]⟩

/-- non-vacuity of `suggestions_are_words(_strong)`: four candidates, the other-dialect entry is
dropped, the first letter is upper-cased, order kept -/
example : suggestions fnsAscii tinyDict [['c','a','t'], ['l','i','f','t'], ['P','a','r','i','s']] true
      (fun s => match s with | [] => [] | c :: r => c.toUpper :: r)
    = [['C','a','t'], ['P','a','r','i','s']] ∧
    (∀ s ∈ [['c','a','t'], ['l','i','f','t'], ['P','a','r','i','s']], ∃ e ∈ tinyDict, e.canon = s) := by
  decide

/-- without the hypothesis on `fuzzy` the weaker theorem cannot be improved: a candidate that is
only a re-casing of an entry passes the filter of the model (the real code never produces one) -/
example : suggestions fnsAscii tinyDict [['p','a','r','i','s']] false id = [['p','a','r','i','s']] := by
  decide

/-! ### w24: the suggestion list as the driver runs it (op `sugg`: `Spell.lintSuggestions`) and as the rule `SpellCheck` of
w21 (op `spellr`: `SpellRule.postProcess`) computes it

`Spell.lintSuggestions` = back-off over the three searches, `suggestionsE` (= `suggestions` + the `unwrap` of the dialect filter),
capitalisation decided by the misspelt word's first letter. Op `sugg` compares it with the suggestion list of the lint a real
`SpellCheck` reports, on the curated dictionary and exhaustively on small ones. -/

/-- the back-off loop returns one of the searches (the first non-empty one), or nothing when every search is empty -/
theorem backoff_spec (rounds : List (List (List Char))) :
    (backoff rounds = [] ∧ ∀ r ∈ rounds, r = []) ∨
    (∃ pre r post, rounds = pre ++ r :: post ∧ (∀ p ∈ pre, p = []) ∧ r ≠ [] ∧ backoff rounds = r) := by
  induction rounds with
  | nil => exact Or.inl ⟨rfl, by simp⟩
  | cons r rs ih =>
    cases r with
    | nil =>
      rcases ih with ⟨h1, h2⟩ | ⟨pre, r, post, h1, h2, h3, h4⟩
      · refine Or.inl ⟨by simpa [backoff] using h1, ?_⟩
        intro x hx
        rcases List.mem_cons.mp hx with rfl | hx
        · rfl
        · exact h2 x hx
      · refine Or.inr ⟨[] :: pre, r, post, by simp [h1], ?_, h3, by simpa [backoff] using h4⟩
        intro x hx
        rcases List.mem_cons.mp hx with rfl | hx
        · rfl
        · exact h2 x hx
    | cons c cs => exact Or.inr ⟨[], c :: cs, rs, rfl, by simp, by simp, by simp [backoff]⟩

/-- `suggestionsE` is `suggestions` unless the code panics, and it panics exactly when some candidate has the key of no entry
(`get_word_metadata(v).unwrap()`), whichever the other candidates are -/
theorem suggestionsE_eq (f : Fns) (dict : List Entry) (fuzzy : List (List Char)) (cap : Bool) (up : List Char → List Char) :
    ((∀ s ∈ fuzzy, ∃ e ∈ dict, key f e.canon = key f s) ∧
        suggestionsE f dict fuzzy cap up = .ok (suggestions f dict fuzzy cap up)) ∨
    ((∃ s ∈ fuzzy, ∀ e ∈ dict, key f e.canon ≠ key f s) ∧ suggestionsE f dict fuzzy cap up = .error .unwrapNone) := by
  unfold suggestionsE
  by_cases h : fuzzy.all (fun s => (lookup f dict s).isSome) = true
  · left
    refine ⟨?_, by simp only [h, if_true]⟩
    intro s hs
    have h1 := List.all_eq_true.mp h s hs
    obtain ⟨e, he⟩ := Option.isSome_iff_exists.mp h1
    have hm := List.mem_of_find?_eq_some he
    have hk := List.find?_some he
    exact ⟨e, hm, by simpa using hk⟩
  · right
    refine ⟨?_, by simp only [h]; rfl⟩
    have h' : ¬ ∀ s ∈ fuzzy, (lookup f dict s).isSome = true := fun hh => h (List.all_eq_true.mpr hh)
    have ⟨s, hs⟩ := Classical.not_forall.mp h'
    have ⟨hs1, hs2⟩ := Classical.not_imp.mp hs
    refine ⟨s, hs1, ?_⟩
    intro e he hk
    apply hs2
    unfold lookup
    rw [List.find?_isSome]
    exact ⟨e, he, by simp [hk]⟩

/-- no panic when every candidate is a listed spelling (`hf`, monitored by the harness on every candidate list) -/
theorem suggestionsE_ok (f : Fns) (dict : List Entry) (fuzzy : List (List Char))
    (hf : ∀ s ∈ fuzzy, ∃ e ∈ dict, e.canon = s) (cap : Bool) (up : List Char → List Char) :
    suggestionsE f dict fuzzy cap up = .ok (suggestions f dict fuzzy cap up) := by
  rcases suggestionsE_eq f dict fuzzy cap up with ⟨_, h⟩ | ⟨⟨s, hs, hn⟩, _⟩
  · exact h
  · obtain ⟨e, he, rfl⟩ := hf s hs
    exact absurd rfl (hn e he)

/-- the suggestions keep the order of the candidates: without capitalisation they are the first three candidates (at most) the
dialect allows -/
theorem suggestions_order (f : Fns) (dict : List Entry) (fuzzy : List (List Char)) (up : List Char → List Char) :
    (suggestions f dict fuzzy false up).Sublist fuzzy ∧
    (suggestions f dict fuzzy false up).length =
      min 3 (fuzzy.filter fun s => match lookup f dict s with | some e => e.dialectOk | none => false).length ∧
    ∀ cap, suggestions f dict fuzzy cap up =
      if cap = true then (suggestions f dict fuzzy false up).map up else suggestions f dict fuzzy false up := by
  refine ⟨?_, ?_, ?_⟩
  · simp only [suggestions, Bool.false_eq_true, if_false]
    exact (List.take_sublist _ _).trans List.filter_sublist
  · simp only [suggestions, Bool.false_eq_true, if_false, List.length_take]
    rfl
  · intro cap
    cases cap <;> simp [suggestions]

/-- **the corollary on what op `sugg` runs.** Under `UniqueKeys`, when every candidate of the search the back-off loop stops at
is a listed spelling: `lintSuggestions` does not panic, offers at most three words, and each is — up to `up` on its first letter
when the misspelt word starts with an upper-case letter — the listed spelling of an entry that allows the dialect and is one of
that search's candidates. -/
theorem lintSuggestions_are_words (f : Fns) (dict : List Entry) (hu : UniqueKeys f dict) (isUpper : Char → Bool)
    (up : Char → Char) (w : List Char) (rounds : List (List (List Char)))
    (hf : ∀ s ∈ backoff rounds, ∃ e ∈ dict, e.canon = s) :
    ∃ out, lintSuggestions f dict isUpper up w rounds = .ok out ∧ out.length ≤ 3 ∧
      ∀ s ∈ out, ∃ e ∈ dict, e.dialectOk = true ∧ e.canon ∈ backoff rounds ∧
        (if startsUpper isUpper w = true then s = capFirst up e.canon else s = e.canon) := by
  refine ⟨_, suggestionsE_ok f dict _ hf _ _, (suggestions_are_words f dict _ _ _).1, ?_⟩
  exact suggestions_are_words_strong f dict hu _ hf _ _

/-- without `hf`: whatever the searches returned, a list that IS offered has at most three words, each a candidate of the chosen
search (up to its first letter) sharing its key with an entry that allows the dialect; otherwise the code panics -/
theorem lintSuggestions_cases (f : Fns) (dict : List Entry) (isUpper : Char → Bool) (up : Char → Char) (w : List Char)
    (rounds : List (List (List Char))) :
    lintSuggestions f dict isUpper up w rounds = .error .unwrapNone ∨
    ∃ out, lintSuggestions f dict isUpper up w rounds = .ok out ∧ out.length ≤ 3 ∧
      ∀ s ∈ out, ∃ s₀ ∈ backoff rounds, (s = s₀ ∨ s = capFirst up s₀) ∧
        ∃ e ∈ dict, key f e.canon = key f s₀ ∧ e.dialectOk = true := by
  rcases suggestionsE_eq f dict (backoff rounds) (startsUpper isUpper w) (capFirst up) with ⟨_, h⟩ | ⟨_, h⟩
  · exact Or.inr ⟨_, h, (suggestions_are_words f dict _ _ _).1, (suggestions_are_words f dict _ _ _).2⟩
  · exact Or.inl h

/-! #### the same list in `SpellCheck` as a rule (w21, `Model/SpellRule.lean`, op `spellr`)

`SpellRule.postProcess` works on the result of the uncached search AFTER the dialect filter (data of `spellr`, recomputed by the
harness from the public API); `Spell.suggestions` contains the filter. They are one function (`postProcess_eq_suggestions`,
`Lemmas/SpellRule.lean`); here the statement for what the two ops run. -/

/-- `Spell.capFirst` is `SpellRule.capitaliseFirst` -/
theorem capFirst_eq (up : Char → Char) : capFirst up = SpellRule.capitaliseFirst up := by
  funext w; cases w <;> rfl

/-- **what `spellr` runs is what `sugg` runs**: when the dialect filter does not panic, `lintSuggestions` returns
`SpellRule.postProcess` of the filtered result of the back-off search -/
theorem spellRule_suggestions_eq (senv : SpellRule.SpellEnv) (f : Fns) (dict : List Entry) (w : List Char)
    (rounds : List (List (List Char))) (h : ∀ s ∈ backoff rounds, ∃ e ∈ dict, key f e.canon = key f s) :
    lintSuggestions f dict senv.isUpper senv.upperFirst w rounds =
      .ok (SpellRule.postProcess senv w ((backoff rounds).filter fun s =>
        match lookup f dict s with | some e => e.dialectOk | none => false)) := by
  rcases suggestionsE_eq f dict (backoff rounds) (startsUpper senv.isUpper w) (capFirst senv.upperFirst) with
    ⟨_, h1⟩ | ⟨⟨s, hs, hn⟩, _⟩
  · have e := SpellRule.postProcess_eq_suggestions senv f dict (backoff rounds) w
    rw [lintSuggestions, h1, capFirst_eq]
    refine congrArg Except.ok ?_
    cases w with
    | nil => exact e.symm
    | cons c cs => exact e.symm
  · obtain ⟨e, he, hk⟩ := h s hs
    exact absurd hk (hn e he)

/-- **`suggestions_are_words_strong` for the lint the rule `SpellCheck` reports** (`SpellRule.spellLintOf`, the lint of
`ruleSpellCheck` / `spellCheckLint` / `spellSession`): when the word data hold the dialect-filtered result of the back-off search
over a dictionary with unique keys and every candidate is a listed spelling, every suggestion of the lint is `ReplaceWith` the
listed spelling of an entry allowed by the dialect, its first letter upper-cased when the misspelt word's is -/
theorem spellRule_suggestions_are_words (senv : SpellRule.SpellEnv) (f : Fns) (dict : List Entry) (hu : UniqueKeys f dict)
    (w : List Char) (rounds : List (List (List Char))) (hf : ∀ s ∈ backoff rounds, ∃ e ∈ dict, e.canon = s) (sp : Span) :
    let l := SpellRule.spellLintOf senv sp w ((backoff rounds).filter fun s =>
      match lookup f dict s with | some e => e.dialectOk | none => false)
    l.suggs.length ≤ 3 ∧
    ∀ sg ∈ l.suggs, ∃ e ∈ dict, e.dialectOk = true ∧ e.canon ∈ backoff rounds ∧
      sg = .replaceWith (if startsUpper senv.isUpper w = true then capFirst senv.upperFirst e.canon else e.canon) := by
  obtain ⟨out, h1, h2, h3⟩ := lintSuggestions_are_words f dict hu senv.isUpper senv.upperFirst w rounds hf
  have hk : ∀ s ∈ backoff rounds, ∃ e ∈ dict, key f e.canon = key f s := by
    intro s hs
    obtain ⟨e, he, rfl⟩ := hf s hs
    exact ⟨e, he, rfl⟩
  rw [spellRule_suggestions_eq senv f dict w rounds hk] at h1
  cases h1
  simp only [SpellRule.spellLintOf, List.length_map]
  refine ⟨h2, ?_⟩
  intro sg hsg
  obtain ⟨s, hs, rfl⟩ := List.mem_map.mp hsg
  obtain ⟨e, he, hd, hm, hc⟩ := h3 s hs
  refine ⟨e, he, hd, hm, ?_⟩
  split
  · rename_i hcap; rw [if_pos hcap] at hc; rw [hc]
  · rename_i hcap; rw [if_neg hcap] at hc; rw [hc]

/-! #### non-vacuity, on the ASCII instance -/

def asciiIsUpper (c : Char) : Bool := decide ('A' ≤ c ∧ c ≤ 'Z')
def asciiUp (c : Char) : Char := if 'a' ≤ c ∧ c ≤ 'z' then Char.ofNat (c.toNat - 32) else c

/-- six entries, five allowed by the dialect (one capitalised), one of another dialect -/
def sixDict : List Entry :=
  [⟨['c','a','t'], true⟩, ⟨['c','o','t'], true⟩, ⟨['c','u','t'], true⟩, ⟨['c','a','r','t'], true⟩, ⟨['C','a','t','o'], true⟩,
   ⟨['c','a','t','s'], false⟩]

theorem uniqueKeys_sixDict : UniqueKeys fnsAscii sixDict := by unfold UniqueKeys sixDict; decide

/-- what the item asks for: the misspelt `Cta` (capitalised), the first search empty, the second returning a lower-case entry, the
entry of another dialect (`lift`, filtered out) and a capitalised entry: `Cat`, `Paris`, in this order -/
example : lintSuggestions fnsAscii tinyDict asciiIsUpper asciiUp ['C','t','a']
      [[], [['c','a','t'], ['l','i','f','t'], ['P','a','r','i','s']], [['d','o','g']]]
    = .ok [['C','a','t'], ['P','a','r','i','s']] := by decide

/-- non-vacuity of `lintSuggestions_are_words`: all hypotheses at once on that input (`UniqueKeys`, every candidate of the chosen
search a listed spelling); the third search holds `dog`, which no entry lists — it is not looked at -/
example : ∃ out, lintSuggestions fnsAscii tinyDict asciiIsUpper asciiUp ['C','t','a']
      [[], [['c','a','t'], ['l','i','f','t'], ['P','a','r','i','s']], [['d','o','g']]] = .ok out ∧ out.length ≤ 3 ∧
      ∀ s ∈ out, ∃ e ∈ tinyDict, e.dialectOk = true ∧
        e.canon ∈ backoff [[], [['c','a','t'], ['l','i','f','t'], ['P','a','r','i','s']], [['d','o','g']]] ∧
        (if startsUpper asciiIsUpper ['C','t','a'] = true then s = capFirst asciiUp e.canon else s = e.canon) :=
  lintSuggestions_are_words fnsAscii tinyDict uniqueKeys_tinyDict asciiIsUpper asciiUp ['C','t','a'] _ (by decide)

/-- more than three allowed candidates: the first three in the order of the search, the other-dialect `cats` skipped BEFORE the
cut (it is second), the capitalised entry `Cato` and `cart` cut off; lower-case misspelling: nothing is upper-cased -/
example : lintSuggestions fnsAscii sixDict asciiIsUpper asciiUp ['c','t']
      [[['c','a','t'], ['c','a','t','s'], ['c','o','t'], ['c','u','t'], ['C','a','t','o'], ['c','a','r','t']]]
    = .ok [['c','a','t'], ['c','o','t'], ['c','u','t']] := by decide

/-- non-vacuity of `lintSuggestions_are_words` with more candidates than are offered, upper-case misspelling `CT` -/
example : ∃ out, lintSuggestions fnsAscii sixDict asciiIsUpper asciiUp ['C','T']
      [[['c','a','t'], ['c','a','t','s'], ['c','o','t'], ['c','u','t'], ['C','a','t','o'], ['c','a','r','t']]] = .ok out ∧
      out.length ≤ 3 ∧
      ∀ s ∈ out, ∃ e ∈ sixDict, e.dialectOk = true ∧
        e.canon ∈ backoff [[['c','a','t'], ['c','a','t','s'], ['c','o','t'], ['c','u','t'], ['C','a','t','o'], ['c','a','r','t']]] ∧
        (if startsUpper asciiIsUpper ['C','T'] = true then s = capFirst asciiUp e.canon else s = e.canon) :=
  lintSuggestions_are_words fnsAscii sixDict uniqueKeys_sixDict asciiIsUpper asciiUp ['C','T'] _ (by decide)

example : lintSuggestions fnsAscii sixDict asciiIsUpper asciiUp ['C','T']
      [[['c','a','t'], ['c','a','t','s'], ['c','o','t'], ['c','u','t'], ['C','a','t','o'], ['c','a','r','t']]]
    = .ok [['C','a','t'], ['C','o','t'], ['C','u','t']] := by decide

/-- the panic of the code: a candidate of the chosen search that the dictionary does not know (`dog`), although the others are
fine — and the second disjunct of `suggestionsE_eq` / first of `lintSuggestions_cases` is inhabited -/
example : lintSuggestions fnsAscii tinyDict asciiIsUpper asciiUp ['c','t','a'] [[['c','a','t'], ['d','o','g']]]
    = .error .unwrapNone := by decide

/-- non-vacuity of `suggestionsE_ok` and of both disjuncts of `suggestionsE_eq` -/
example : suggestionsE fnsAscii tinyDict [['c','a','t'], ['l','i','f','t']] true (capFirst asciiUp) = .ok [['C','a','t']] ∧
    (∀ s ∈ [['c','a','t'], ['l','i','f','t']], ∃ e ∈ tinyDict, e.canon = s) ∧
    suggestionsE fnsAscii tinyDict [['d','o','g']] true (capFirst asciiUp) = .error .unwrapNone ∧
    (∃ s ∈ [['d','o','g']], ∀ e ∈ tinyDict, key fnsAscii e.canon ≠ key fnsAscii s) := by decide

/-- non-vacuity of `backoff_spec`, second disjunct with a non-empty prefix of empty searches; and the first disjunct -/
example : backoff [[], [], [['c','a','t']], [['d','o','g']]] = [['c','a','t']] ∧ backoff [[], [], []] = [] := by decide

/-- non-vacuity of `suggestions_order`: the filter drops the second of five candidates, the cut the fifth -/
example : suggestions fnsAscii sixDict [['c','a','t'], ['c','a','t','s'], ['c','o','t'], ['c','u','t'], ['c','a','r','t']] false id
    = [['c','a','t'], ['c','o','t'], ['c','u','t']] := by decide

/-- a `SpellEnv` for the examples: ASCII `is_uppercase` / `to_uppercase` -/
def envAscii : SpellRule.SpellEnv := ⟨fun _ => default, asciiIsUpper, asciiUp⟩

/-- non-vacuity of `spellRule_suggestions_eq`: the rule's post-processing of the filtered search result of the example above IS the
list op `sugg` computes -/
example : lintSuggestions fnsAscii tinyDict asciiIsUpper asciiUp ['C','t','a']
      [[], [['c','a','t'], ['l','i','f','t'], ['P','a','r','i','s']], [['d','o','g']]]
    = .ok (SpellRule.postProcess envAscii ['C','t','a'] [['c','a','t'], ['P','a','r','i','s']]) :=
  spellRule_suggestions_eq envAscii fnsAscii tinyDict ['C','t','a'] _ (by decide)

/-- non-vacuity of `spellRule_suggestions_are_words`: the lint of the rule on `Cta` offers `ReplaceWith Cat`, `ReplaceWith Paris` -/
example : (SpellRule.spellLintOf envAscii ⟨0, 3⟩ ['C','t','a'] [['c','a','t'], ['P','a','r','i','s']]).suggs
    = [.replaceWith ['C','a','t'], .replaceWith ['P','a','r','i','s']] := by decide

example :
    let l := SpellRule.spellLintOf envAscii ⟨0, 3⟩ ['C','t','a']
      ((backoff [[], [['c','a','t'], ['l','i','f','t'], ['P','a','r','i','s']]]).filter fun s =>
        match lookup fnsAscii tinyDict s with | some e => e.dialectOk | none => false)
    l.suggs.length ≤ 3 ∧
    ∀ sg ∈ l.suggs, ∃ e ∈ tinyDict, e.dialectOk = true ∧
      e.canon ∈ backoff [[], [['c','a','t'], ['l','i','f','t'], ['P','a','r','i','s']]] ∧
      sg = .replaceWith (if startsUpper envAscii.isUpper ['C','t','a'] = true then capFirst envAscii.upperFirst e.canon
        else e.canon) :=
  spellRule_suggestions_are_words envAscii fnsAscii tinyDict uniqueKeys_tinyDict ['C','t','a']
    [[], [['c','a','t'], ['l','i','f','t'], ['P','a','r','i','s']]] (by decide) ⟨0, 3⟩

/-! ### w26: C06 at sentence level — the loop of `SpellCheck::lint` reports exactly the words the dictionary does not accept

`spell_check.rs`, `SpellCheck::lint`: `for word in document.iter_words() { if <accepted> { continue }; …; lints.push(Lint { span:
word.span, .. }) }`. The model of the loop is `SpellRule.ruleSpellCheck` (no cache), `SpellRule.spellCheckLint` (the code, with its
`word_cache`) and `SpellRule.spellSession` (one instance over several documents — what op `spellr` of the driver runs). The
theorems above are about the test `<accepted>` on ONE word; these are about the run over a token list: which tokens get a lint, how
many, on which span, in which order. `SpellRule.flagged senv src t` is the loop's own test (`t` is a word token and the `continue`
condition rejects its characters), `SpellRule.lintAt senv src t` the lint the loop body pushes for `t` (span `t.span`). -/

section sentence
open Harper Harper.Rules Harper.Leaves Harper.SpellRule

/-- **`SpellCheck::lint` reports exactly the unaccepted words.** On tokens inside the text, with a search that does not panic on a
flagged word (`SuggestOK`): the rule returns, IN TOKEN ORDER, exactly one lint per word token whose characters the `continue`
condition does not accept, the lint of that token (`lintAt`, span = the token's span); accepted word tokens and tokens that are
not words contribute nothing. In particular the list of lint spans is the list of spans of the unaccepted word tokens. -/
theorem spellCheck_exact (senv : SpellEnv) (hs : SuggestOK senv) (src : List Char) (toks : List Tok) (h : InText src toks) :
    ∃ ls, ruleSpellCheck senv src toks = .ok ls ∧
      ls = (toks.filter (flagged senv src)).map (lintAt senv src) ∧
      ls.map (·.span) =
        (toks.filter fun t => t.kind.isWord && !accepted (senv.data (textOf src t.span))).map (·.span) := by
  refine ⟨_, ruleSpellCheck_eq senv hs src toks h, rfl, ?_⟩
  rw [List.map_map]
  rfl

/-- the same without any hypothesis on the search: a run that returns, returns exactly those lints … -/
theorem spellCheck_exact_of_ok (senv : SpellEnv) (src : List Char) (toks : List Tok) (h : InText src toks) (ls : List RuleLint)
    (e : ruleSpellCheck senv src toks = .ok ls) :
    ls = (toks.filter (flagged senv src)).map (lintAt senv src) ∧
      ls.map (·.span) =
        (toks.filter fun t => t.kind.isWord && !accepted (senv.data (textOf src t.span))).map (·.span) := by
  have e' := ruleSpellCheck_eq_of_ok senv src toks h ls e
  refine ⟨e', ?_⟩
  rw [e', List.map_map]
  rfl

/-- … and a run panics exactly when the search of some flagged word does (`get_word_metadata(v).unwrap()` inside
`cached_suggest_correct_spelling`), with that panic -/
theorem spellCheck_panics_iff (senv : SpellEnv) (src : List Char) (toks : List Tok) (h : InText src toks) :
    (∃ p, ruleSpellCheck senv src toks = .error p) ↔
      ∃ t ∈ toks, flagged senv src t = true ∧ (senv.data (textOf src t.span)).suggest = none := by
  rcases ruleSpellCheck_cases senv src toks h with ⟨e, hall⟩ | ⟨e, hex⟩
  · constructor
    · rintro ⟨p, hp⟩; rw [e] at hp; cases hp
    · rintro ⟨t, ht, hf, hn⟩; exact absurd hn (hall t ht hf)
  · exact ⟨fun _ => hex, fun _ => ⟨_, e⟩⟩

/-- **the same of the code with its `word_cache`** (`spellCheckLint`: `SpellCheck::lint` of an instance whose cache is `st`, any
capacity): whatever the cache holds — entries this rule produced for this dictionary, `CacheInv` — the lints are those of
`spellCheck_exact` -/
theorem spellCheck_cached_exact (senv : SpellEnv) (hs : SuggestOK senv) (cap : Nat) (st : WordCache) (hi : CacheInv senv st)
    (src : List Char) (toks : List Tok) (h : InText src toks) :
    (spellCheckLint senv cap st src toks).1 = .ok ((toks.filter (flagged senv src)).map (lintAt senv src)) := by
  rw [spellCheckLint, (spellGo_spec senv id (keySound_id senv) cap src toks st ((keyInv_id senv st).mpr hi)).1]
  exact ruleSpellCheck_eq senv hs src toks h

/-- **what op `spellr` of the driver runs** (`spellSession … id cap []`: one `SpellCheck` with an empty cache of any capacity linting
the documents in turn): every document gets exactly the lints of its unaccepted word tokens, whatever was linted before it -/
theorem spellSession_exact (senv : SpellEnv) (hs : SuggestOK senv) (cap : Nat) (docs : List (List Char × List Tok))
    (h : ∀ d ∈ docs, InText d.1 d.2) :
    spellSession senv id cap [] docs =
      docs.map fun d => .ok ((d.2.filter (flagged senv d.1)).map (lintAt senv d.1)) := by
  rw [spellSession_spec senv id (keySound_id senv) cap docs [] (keyInv_nil senv id)]
  exact List.map_congr_left fun d hd => ruleSpellCheck_eq senv hs d.1 d.2 (h d hd)

/-- **every lint covers exactly one unaccepted word**: a lint of a run that returned is the lint of a word token of the list
whose characters are not accepted; its span is that token's span, so the text under the lint is exactly the word's characters -/
theorem spellCheck_lint_covers_word (senv : SpellEnv) (src : List Char) (toks : List Tok) (h : InText src toks)
    (ls : List RuleLint) (e : ruleSpellCheck senv src toks = .ok ls) (l : RuleLint) (hl : l ∈ ls) :
    ∃ t ∈ toks, t.kind.isWord = true ∧ accepted (senv.data (textOf src t.span)) = false ∧ l = lintAt senv src t ∧
      l.span = t.span ∧ l.span.getContent src = .ok (textOf src t.span) := by
  rw [ruleSpellCheck_eq_of_ok senv src toks h ls e] at hl
  obtain ⟨t, ht, rfl⟩ := List.mem_map.mp hl
  obtain ⟨ht1, ht2⟩ := List.mem_filter.mp ht
  simp only [flagged, Bool.and_eq_true, Bool.not_eq_true'] at ht2
  exact ⟨t, ht1, ht2.1, ht2.2, rfl, rfl, getContent_textOf src t (h t ht1)⟩

/-- **the converse clause: every unaccepted word is reported**, on exactly its span -/
theorem spellCheck_reports_every_unaccepted (senv : SpellEnv) (src : List Char) (toks : List Tok) (h : InText src toks)
    (ls : List RuleLint) (e : ruleSpellCheck senv src toks = .ok ls) (t : Tok) (ht : t ∈ toks) (hw : t.kind.isWord = true)
    (ha : accepted (senv.data (textOf src t.span)) = false) : ∃ l ∈ ls, l = lintAt senv src t ∧ l.span = t.span := by
  rw [ruleSpellCheck_eq_of_ok senv src toks h ls e]
  refine ⟨_, List.mem_map.mpr ⟨t, List.mem_filter.mpr ⟨ht, ?_⟩, rfl⟩, rfl, rfl⟩
  simp only [flagged, hw, ha, Bool.not_false, Bool.and_self]

/-- **exactly one lint per unaccepted word, none on an accepted one**: when the word tokens have pairwise different spans
(tokens that tile the text do, `spellCheck_tiled` below), the lints lying on the span of a word token `t` are exactly one when
`t`'s characters are not accepted and none when they are -/
theorem spellCheck_lints_per_word (senv : SpellEnv) (src : List Char) (toks : List Tok) (h : InText src toks)
    (hd : (toks.filter fun t => t.kind.isWord).Pairwise fun a b => a.span ≠ b.span)
    (ls : List RuleLint) (e : ruleSpellCheck senv src toks = .ok ls) (t : Tok) (ht : t ∈ toks) (hw : t.kind.isWord = true) :
    (ls.filter fun l => l.span = t.span).length = if accepted (senv.data (textOf src t.span)) = true then 0 else 1 := by
  rw [ruleSpellCheck_eq_of_ok senv src toks h ls e, count_lints_on_span]
  have hff : toks.filter (flagged senv src) =
      (toks.filter fun t => t.kind.isWord).filter fun t => !accepted (senv.data (textOf src t.span)) := by
    rw [List.filter_filter]
    exact List.filter_congr fun x _ => by simp only [flagged, Bool.and_comm]
  rw [hff, count_span_filter _ _ hd t (List.mem_filter.mpr ⟨ht, hw⟩)]
  cases accepted (senv.data (textOf src t.span)) <;> rfl

/-- tokens that tile the text (what `Document::new` delivers for plain English, `C02.document_tiles`): all hypotheses on the
tokens hold, and for EVERY token `t` — word or not — the number of lints on `t`'s span is one when `t` is an unaccepted word and
zero otherwise -/
theorem spellCheck_tiled (senv : SpellEnv) (hs : SuggestOK senv) (src : List Char) (toks : List Tok)
    (ht : Tiles toks 0 src.length) :
    ∃ ls, ruleSpellCheck senv src toks = .ok ls ∧ ls = (toks.filter (flagged senv src)).map (lintAt senv src) ∧
      ∀ t ∈ toks, (ls.filter fun l => l.span = t.span).length = if flagged senv src t = true then 1 else 0 := by
  refine ⟨_, ruleSpellCheck_eq senv hs src toks (inText_of_tiles src toks ht), rfl, ?_⟩
  intro t htm
  rw [count_lints_on_span]
  exact count_span_filter _ toks (tiles_spans_distinct toks 0 src.length ht).2 t htm

/-- **plain-English documents**: `Document::new(text, &PlainEnglish, _)` followed by `SpellCheck::lint` — the tokens exist, and
the lints are exactly those of the unaccepted word tokens, one per token (`C02.document_tiles` + `spellCheck_tiled`) -/
theorem spellCheck_document (cls : Cls) (ext : Ext) (src : List Char) (hext : ExtOK ext src.length) (senv : SpellEnv)
    (hs : SuggestOK senv) :
    ∃ toks ls, document cls ext src = .ok toks ∧ ruleSpellCheck senv src toks = .ok ls ∧
      ls = (toks.filter (flagged senv src)).map (lintAt senv src) ∧
      ∀ t ∈ toks, (ls.filter fun l => l.span = t.span).length = if flagged senv src t = true then 1 else 0 := by
  obtain ⟨toks, e, ht⟩ := C02.document_tiles cls ext src hext
  obtain ⟨ls, e1, e2, e3⟩ := spellCheck_tiled senv hs src toks ht
  exact ⟨toks, ls, e, e1, e2, e3⟩

/-! #### the bridge to the dictionary: `SpellRule.FaithfulTo senv f dict` — the `continue` condition of `senv` IS `Spell.accept` over
`dict` (true of every `SpellEnv` whose word data are `SpellRule.dataOf f dict _`, `faithfulTo_dataOf`) -/

/-- **the run in terms of the dictionary**: the lint spans are, in order, the spans of the word tokens whose characters
`Spell.accept` rejects -/
theorem spellCheck_exact_dict (senv : SpellEnv) (f : Fns) (dict : List Entry) (hf : FaithfulTo senv f dict)
    (hs : SuggestOK senv) (src : List Char) (toks : List Tok) (h : InText src toks) :
    ∃ ls, ruleSpellCheck senv src toks = .ok ls ∧
      ls.map (·.span) = (toks.filter fun t => t.kind.isWord && !accept f dict (textOf src t.span)).map (·.span) := by
  obtain ⟨ls, e, _, e2⟩ := spellCheck_exact senv hs src toks h
  refine ⟨ls, e, ?_⟩
  rw [e2]
  congr 1
  exact List.filter_congr fun t _ => by rw [hf]

/-- **C06 at rule level, both directions, per word token**: over a dictionary with unique keys and `lower` / `normalize`
satisfying `Laws`, for a word token `t` of a token list whose word tokens have different spans, the number of lints on `t`'s span
is ZERO when some entry has the key of `t`'s characters, allows the dialect and is spelt as the (normalized) characters or
their lower-casing — the word is in the dictionary — and ONE otherwise: every word the dictionary does not contain is reported,
once, on exactly its span; no word it contains is -/
theorem spellCheck_reported_iff_not_in_dictionary (senv : SpellEnv) (f : Fns) (hl : Laws f) (dict : List Entry)
    (hu : UniqueKeys f dict) (hf : FaithfulTo senv f dict) (src : List Char) (toks : List Tok) (h : InText src toks)
    (hd : (toks.filter fun t => t.kind.isWord).Pairwise fun a b => a.span ≠ b.span)
    (ls : List RuleLint) (e : ruleSpellCheck senv src toks = .ok ls) (t : Tok) (ht : t ∈ toks) (hw : t.kind.isWord = true) :
    ((∃ en ∈ dict, key f en.canon = key f (textOf src t.span) ∧ en.dialectOk = true ∧
        (en.canon = f.normalize (textOf src t.span) ∨ en.canon = f.normalize (f.lower (textOf src t.span)))) →
      (ls.filter fun l => l.span = t.span).length = 0) ∧
    ((¬ ∃ en ∈ dict, key f en.canon = key f (textOf src t.span) ∧ en.dialectOk = true ∧
        (en.canon = f.normalize (textOf src t.span) ∨ en.canon = f.normalize (f.lower (textOf src t.span)))) →
      (ls.filter fun l => l.span = t.span).length = 1 ∧ ∃ l ∈ ls, l.span = t.span ∧ l = lintAt senv src t) := by
  have hc := spellCheck_lints_per_word senv src toks h hd ls e t ht hw
  rw [hf] at hc
  have hiff := accept_iff f hl dict hu (textOf src t.span)
  constructor
  · intro hin
    rw [hc, if_pos (hiff.mpr hin)]
  · intro hnin
    have ha : accept f dict (textOf src t.span) = false := by
      cases hacc : accept f dict (textOf src t.span) with
      | false => rfl
      | true => exact absurd (hiff.mp hacc) hnin
    refine ⟨by rw [hc, ha]; rfl, ?_⟩
    obtain ⟨l, hl1, hl2, hl3⟩ := spellCheck_reports_every_unaccepted senv src toks h ls e t ht hw (by rw [hf, ha])
    exact ⟨l, hl1, hl3, hl2⟩

/-- a word token whose key no entry has (a word that is not in the dictionary in any capitalisation) is reported, whatever the
other tokens are — no law, no uniqueness needed -/
theorem spellCheck_unlisted_reported (senv : SpellEnv) (f : Fns) (dict : List Entry) (hf : FaithfulTo senv f dict)
    (src : List Char) (toks : List Tok) (h : InText src toks) (ls : List RuleLint)
    (e : ruleSpellCheck senv src toks = .ok ls) (t : Tok) (ht : t ∈ toks) (hw : t.kind.isWord = true)
    (hn : ∀ en ∈ dict, key f en.canon ≠ key f (textOf src t.span)) : ∃ l ∈ ls, l.span = t.span := by
  obtain ⟨l, hl1, _, hl3⟩ := spellCheck_reports_every_unaccepted senv src toks h ls e t ht hw
    (by rw [hf]; exact unlisted_flagged f dict _ hn)
  exact ⟨l, hl1, hl3⟩

/-! #### non-vacuity: `teh Cat lift` over `tinyDict` (`cat`, `Paris`, `lift` of another dialect) -/

/-- a `SpellEnv` BUILT from the dictionary `tinyDict` (`dataOf`): the search offers `cat` for `teh`, nothing otherwise -/
def envTiny : SpellEnv :=
  ⟨dataOf fnsAscii tinyDict fun w => if w = ['t','e','h'] then some [['c','a','t']] else some [], asciiIsUpper, asciiUp⟩

theorem faithful_envTiny : FaithfulTo envTiny fnsAscii tinyDict := faithfulTo_dataOf _ _ _ _ _

theorem suggestOK_envTiny : SuggestOK envTiny := by
  intro w _
  show (if w = ['t','e','h'] then some [['c','a','t']] else some []) ≠ none
  split <;> exact Option.some_ne_none _

/-- `teh Cat lift`: five tokens; `teh` (unknown) and `lift` (other dialect) are reported on their spans, `Cat` (capitalised form of
the entry `cat`) and the spaces are not -/
def tehCatLift : List Char := ['t','e','h',' ','C','a','t',' ','l','i','f','t']
def tehCatLiftToks : List Tok := [⟨⟨0, 3⟩, .word⟩, ⟨⟨3, 4⟩, .space 1⟩, ⟨⟨4, 7⟩, .word⟩, ⟨⟨7, 8⟩, .space 1⟩, ⟨⟨8, 12⟩, .word⟩]

example : ruleSpellCheck envTiny tehCatLift tehCatLiftToks =
    .ok [⟨⟨0, 3⟩, [.replaceWith ['c','a','t']], 60, 1⟩, ⟨⟨8, 12⟩, [], 60, 0⟩] := by decide

theorem tiles_tehCatLift : Tiles tehCatLiftToks 0 tehCatLift.length := by decide

/-- non-vacuity of `spellCheck_exact` / `spellCheck_exact_dict` / `spellCheck_tiled`: all hypotheses together -/
example : ∃ ls, ruleSpellCheck envTiny tehCatLift tehCatLiftToks = .ok ls ∧
    ls.map (·.span) = (tehCatLiftToks.filter fun t => t.kind.isWord && !accept fnsAscii tinyDict (textOf tehCatLift t.span)).map
      (·.span) :=
  spellCheck_exact_dict envTiny fnsAscii tinyDict faithful_envTiny suggestOK_envTiny tehCatLift tehCatLiftToks
    (inText_of_tiles _ _ tiles_tehCatLift)

example : (tehCatLiftToks.filter fun t => t.kind.isWord && !accept fnsAscii tinyDict (textOf tehCatLift t.span)).map (·.span) =
    [⟨0, 3⟩, ⟨8, 12⟩] := by decide

example : ∃ ls, ruleSpellCheck envTiny tehCatLift tehCatLiftToks = .ok ls ∧
    ls = (tehCatLiftToks.filter (flagged envTiny tehCatLift)).map (lintAt envTiny tehCatLift) ∧
    ∀ t ∈ tehCatLiftToks, (ls.filter fun l => l.span = t.span).length = if flagged envTiny tehCatLift t = true then 1 else 0 :=
  spellCheck_tiled envTiny suggestOK_envTiny tehCatLift tehCatLiftToks tiles_tehCatLift

/-- non-vacuity of `spellCheck_reported_iff_not_in_dictionary` (`Laws`, `UniqueKeys`, `FaithfulTo`, tokens in the text with
different spans, a run that returned): `Cat` is in the dictionary — no lint on `4..7`; `lift` is not (its entry is of another
dialect) — one lint on `8..12` -/
example : ∀ ls, ruleSpellCheck envTiny tehCatLift tehCatLiftToks = .ok ls →
    (ls.filter fun l => l.span = (⟨4, 7⟩ : Span)).length = 0 ∧ (ls.filter fun l => l.span = (⟨8, 12⟩ : Span)).length = 1 := by
  intro ls e
  have hin := inText_of_tiles _ _ tiles_tehCatLift
  have hd : (tehCatLiftToks.filter fun t => t.kind.isWord).Pairwise fun a b => a.span ≠ b.span := by decide
  refine ⟨(spellCheck_reported_iff_not_in_dictionary envTiny fnsAscii laws_fnsAscii tinyDict uniqueKeys_tinyDict faithful_envTiny
      tehCatLift tehCatLiftToks hin hd ls e ⟨⟨4, 7⟩, .word⟩ (by decide) rfl).1
        ⟨⟨['c','a','t'], true⟩, by decide, by decide, rfl, Or.inr (by decide)⟩,
    ((spellCheck_reported_iff_not_in_dictionary envTiny fnsAscii laws_fnsAscii tinyDict uniqueKeys_tinyDict faithful_envTiny
      tehCatLift tehCatLiftToks hin hd ls e ⟨⟨8, 12⟩, .word⟩ (by decide) rfl).2 ?_).1⟩
  rintro ⟨en, hen, _, hd', _⟩
  simp only [tinyDict, List.mem_cons, List.not_mem_nil, or_false] at hen
  rcases hen with rfl | rfl | rfl
  · revert ‹key fnsAscii _ = _›; decide
  · revert ‹key fnsAscii _ = _›; decide
  · cases hd'

/-- the word cache and the session of the driver on the same text, linted twice by one instance with a one-entry cache -/
example : spellSession envTiny id 1 [] [(tehCatLift, tehCatLiftToks), (tehCatLift, tehCatLiftToks)] =
    [.ok [⟨⟨0, 3⟩, [.replaceWith ['c','a','t']], 60, 1⟩, ⟨⟨8, 12⟩, [], 60, 0⟩],
     .ok [⟨⟨0, 3⟩, [.replaceWith ['c','a','t']], 60, 1⟩, ⟨⟨8, 12⟩, [], 60, 0⟩]] := by decide

/-- **the hypothesis "different spans" of `spellCheck_lints_per_word` is needed**: a token list that names the same word twice
(never produced by `Document::new`) gets two lints on that span -/
example : (ruleSpellCheck envTiny ['t','e','h'] [⟨⟨0, 3⟩, .word⟩, ⟨⟨0, 3⟩, .word⟩]).map
    (fun ls => (ls.filter fun l => l.span = (⟨0, 3⟩ : Span)).length) = .ok 2 := by decide

/-- **`SuggestOK` is needed for `spellCheck_exact`, and `spellCheck_panics_iff` is not vacuous**: a flagged word whose search
panics ends the run -/
example : ruleSpellCheck { envTiny with data := fun _ => ⟨false, false, false, false, none⟩ } tehCatLift tehCatLiftToks =
    .error .unwrapNone := by decide

/-- non-vacuity of `spellCheck_exact_of_ok`, `spellCheck_lint_covers_word`, `spellCheck_reports_every_unaccepted`,
`spellCheck_unlisted_reported` on that run (which returns, by the evaluated example above): every lint sits on an unaccepted word
token; `lift` is reported; `teh`, whose key no entry has, is reported -/
example : ∀ ls, ruleSpellCheck envTiny tehCatLift tehCatLiftToks = .ok ls →
    ls = (tehCatLiftToks.filter (flagged envTiny tehCatLift)).map (lintAt envTiny tehCatLift) ∧
    (∀ l ∈ ls, ∃ t ∈ tehCatLiftToks, t.kind.isWord = true ∧ accepted (envTiny.data (textOf tehCatLift t.span)) = false ∧
      l = lintAt envTiny tehCatLift t ∧ l.span = t.span ∧ l.span.getContent tehCatLift = .ok (textOf tehCatLift t.span)) ∧
    (∃ l ∈ ls, l = lintAt envTiny tehCatLift ⟨⟨8, 12⟩, .word⟩ ∧ l.span = ⟨8, 12⟩) ∧
    (∃ l ∈ ls, l.span = ⟨0, 3⟩) := by
  intro ls e
  have hin := inText_of_tiles _ _ tiles_tehCatLift
  exact ⟨(spellCheck_exact_of_ok envTiny tehCatLift tehCatLiftToks hin ls e).1,
    spellCheck_lint_covers_word envTiny tehCatLift tehCatLiftToks hin ls e,
    spellCheck_reports_every_unaccepted envTiny tehCatLift tehCatLiftToks hin ls e ⟨⟨8, 12⟩, .word⟩ (by decide) rfl (by decide),
    spellCheck_unlisted_reported envTiny fnsAscii tinyDict faithful_envTiny tehCatLift tehCatLiftToks hin ls e ⟨⟨0, 3⟩, .word⟩
      (by decide) rfl (by decide)⟩

/-- non-vacuity of `spellCheck_panics_iff` (direction ←, on the panicking dictionary of the last example) -/
example : ∃ p, ruleSpellCheck { envTiny with data := fun _ => ⟨false, false, false, false, none⟩ } tehCatLift tehCatLiftToks =
    .error p :=
  (spellCheck_panics_iff _ tehCatLift tehCatLiftToks (inText_of_tiles _ _ tiles_tehCatLift)).mpr
    ⟨⟨⟨0, 3⟩, .word⟩, by decide, rfl, rfl⟩

/-- non-vacuity of `spellCheck_cached_exact`: a cache that already holds the entry for `teh` (`CacheInv`), capacity 1 -/
example : (spellCheckLint envTiny 1 [(['t','e','h'], [['c','a','t']])] tehCatLift tehCatLiftToks).1 =
    .ok ((tehCatLiftToks.filter (flagged envTiny tehCatLift)).map (lintAt envTiny tehCatLift)) :=
  spellCheck_cached_exact envTiny suggestOK_envTiny 1 _ (by
      intro en hen
      simp only [List.mem_singleton] at hen
      subst hen
      rfl)
    tehCatLift tehCatLiftToks (inText_of_tiles _ _ tiles_tehCatLift)

/-- non-vacuity of `spellSession_exact`: the two-document session evaluated above -/
example : spellSession envTiny id 1 [] [(tehCatLift, tehCatLiftToks), (tehCatLift, tehCatLiftToks)] =
    [(tehCatLift, tehCatLiftToks), (tehCatLift, tehCatLiftToks)].map fun d =>
      .ok ((d.2.filter (flagged envTiny d.1)).map (lintAt envTiny d.1)) :=
  spellSession_exact envTiny suggestOK_envTiny 1 _ (by
    intro d hd
    simp only [List.mem_cons, List.not_mem_nil, or_false, or_self] at hd
    subst hd
    exact inText_of_tiles _ _ tiles_tehCatLift)

/-- non-vacuity of `spellCheck_document`: the ASCII class table, no external tokens; the tokens `Document::new` delivers for
`teh Cat lift` are the five of the example -/
example : ∃ toks ls, document C02.asciiCls (fun _ => none) tehCatLift = .ok toks ∧
    ruleSpellCheck envTiny tehCatLift toks = .ok ls ∧
    ls = (toks.filter (flagged envTiny tehCatLift)).map (lintAt envTiny tehCatLift) ∧
    ∀ t ∈ toks, (ls.filter fun l => l.span = t.span).length = if flagged envTiny tehCatLift t = true then 1 else 0 :=
  spellCheck_document C02.asciiCls (fun _ => none) tehCatLift (by intro _ _ _ h; cases h) envTiny suggestOK_envTiny

example : document C02.asciiCls (fun _ => none) tehCatLift = .ok tehCatLiftToks := by decide

end sentence

/-! ### w26 — `listed_accepted` without the `Laws` it never used (audit w22 §4 C06 (c)) -/

/-- a listed word, in its listed (normalized) capitalisation and admitted by the dialect, is never reported — for ANY
pair of `lower` / `normalize` functions (no `Laws`: the exact-spelling path of `accept` compares the entry with itself) -/
theorem listed_accepted_any_fns (f : Fns) (dict : List Entry) (hu : UniqueKeys f dict)
    (e : Entry) (he : e ∈ dict) (hd : e.dialectOk = true) (hn : f.normalize e.canon = e.canon) :
    accept f dict e.canon = true := by
  have h1 : lookup f dict e.canon = some e := lookup_of_mem f dict hu e he _ rfl
  have h2 : lookup f dict (f.normalize e.canon) = some e := by rw [hn]; exact h1
  simp [accept, h1, hd, containsExact, h2, hn]

/-- non-vacuity: the capitalised entry `Paris` of `tinyDict` -/
example : accept fnsAscii tinyDict ['P','a','r','i','s'] = true :=
  listed_accepted_any_fns fnsAscii tinyDict uniqueKeys_tinyDict ⟨['P','a','r','i','s'], true⟩ (by decide) rfl rfl

end Harper.C06
