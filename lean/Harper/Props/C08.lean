import Harper.Lemmas.PosConv
import Harper.Props.C03
/-!
# C08 — diagnostics and quick-fix edits land exactly on the flagged text

Property theorems only; helper lemmas are in `Harper/Lemmas/PosConv.lean`. The model
(`Harper/Model/PosConv.lean`) is `pos_conv.rs` line by line plus the `TextEdit` construction of
`diagnostics.rs`, the filter of `generate_code_actions`, and an LSP client (`clientOffset`,
`clientApply`: the specification side). `len16` is `char::len_utf16`; the theorems hold for any
`len16 ≥ 1`.

Vocabulary: `lineOf src i` = number of `'\n'` before `i`; `newlines src` = number of `'\n'`;
`NoLoneCR src` = every `'\r'` is followed by `'\n'`; `InsideCRLF src i` = `i` is between the
`'\r'` and `'\n'` of one terminator; `LineStart pre` = `pre` is empty or ends in `'\n'`.
-/
namespace Harper.C08
open Harper Harper.PosConv

/-! ### `index_to_position` is right -/

/-- `index_to_position` of an index inside the text never panics; `line` is the number of `'\n'`
before the index and `character` the UTF-16 width of the text since the last `'\n'`
(`pre` = the complete lines before, `tail` = the current line up to the index). -/
theorem indexToPosition_spec (len16 : Char → Nat) (src : List Char) (i : Nat)
    (hi : i ≤ src.length) :
    ∃ p, indexToPosition len16 src i = .ok p ∧ p.line = lineOf src i ∧
      ∃ pre tail, src.take i = pre ++ tail ∧ LineStart pre ∧ '\n' ∉ tail ∧
        p.character = sum16 len16 tail := by
  obtain ⟨pre, tail, rest, rfl, rfl, hp, ht⟩ := decomp_at src i hi
  refine ⟨_, indexToPosition_decomp len16 pre tail rest hp ht, ?_, pre, tail,
    take_pre_tail pre tail rest, hp, ht, rfl⟩
  exact (lineOf_decomp pre tail rest ht).symm

/-- … and panics (slice out of bounds) for an index beyond the end. -/
theorem indexToPosition_panics (len16 : Char → Nat) (src : List Char) (i : Nat)
    (hi : src.length < i) : indexToPosition len16 src i = .error .sliceOOB := by
  unfold indexToPosition slice
  simp [hi]

example : indexToPosition len16Ex firstSecnd 12 = .ok ⟨1, 0⟩ := by decide
example : indexToPosition len16Ex ['a', '😀', '\n', '😀', 'b'] 4 = .ok ⟨1, 2⟩ := by decide
example : indexToPosition len16Ex ['a'] 2 = .error .sliceOOB := by decide

/-- non-vacuity of the hypothesis `∀ c, 1 ≤ len16 c` carried by the theorems below: the example
width function (2 for the astral `😀`, 1 otherwise) satisfies it -/
theorem len16Ex_pos : ∀ c, 1 ≤ len16Ex c := by
  intro c; unfold len16Ex; split <;> omega

/-- … and so does `char::len_utf16` itself (2 from U+10000 on, else 1), whose values are in {1, 2};
`😀` is astral -/
example : ∀ c : Char, (if 0x10000 ≤ c.toNat then 2 else 1 : Nat) = 1 ∨
    (if 0x10000 ≤ c.toNat then 2 else 1 : Nat) = 2 := by
  intro c; split <;> simp
example : len16Ex '😀' = 2 ∧ len16Ex 'a' = 1 ∧ 0x10000 ≤ '😀'.toNat := by decide

/-! ### `position_to_index ∘ index_to_position`: right except on the last line -/

/-- `position_to_index` never panics: the two popped newline indices are ordered and inside the
text, whatever the position. -/
theorem positionToIndex_total (len16 : Char → Nat) (src : List Char) (p : Position) :
    ∃ i, positionToIndex len16 src p = .ok i := by
  have hL := two_pops_le ((nlIdx 0 src).take (p.line + 1)) src.length
    ((nlIdx_pairwise 0 src).sublist (List.take_sublist _ _))
    (fun x hx => by have := (nlIdx_bounds 0 src x (List.mem_of_mem_take hx)).2; omega)
  unfold positionToIndex slice
  simp only []
  rw [if_neg (by omega)]
  simp only []
  split
  · exact ⟨_, rfl⟩
  · split <;> exact ⟨_, rfl⟩

/-- The round trip index → position → index is the identity for every index that is not on the
last line of a multi-line text (`len16 ≥ 1` is what `char::len_utf16` guarantees). -/
theorem positionToIndex_roundtrip_partial (len16 : Char → Nat) (h16 : ∀ c, 1 ≤ len16 c)
    (src : List Char) (i : Nat) (hi : i ≤ src.length)
    (h : lineOf src i < newlines src ∨ newlines src = 0) :
    ∃ p, indexToPosition len16 src i = .ok p ∧ positionToIndex len16 src p = .ok i := by
  obtain ⟨pre, tail, rest, rfl, rfl, hp, ht⟩ := decomp_at src i hi
  refine ⟨_, indexToPosition_decomp len16 pre tail rest hp ht, ?_⟩
  rw [lineOf_decomp pre tail rest ht, newlines_decomp pre tail rest ht] at h
  rcases h with h | h
  · -- a '\n' follows: the scan runs over this line, terminator included
    have hmem : '\n' ∈ rest := by
      apply List.count_pos_iff.mp; omega
    obtain ⟨mid, post, rfl, hm⟩ := split_first_nl rest hmem
    have hsrc : pre ++ tail ++ (mid ++ '\n' :: post) = pre ++ ((tail ++ mid) ++ ['\n']) ++ post := by
      simp
    have hline : '\n' ∉ tail ++ mid := by
      simp only [List.mem_append, not_or]; exact ⟨ht, hm⟩
    rw [hsrc, positionToIndex_mid len16 pre (tail ++ mid) post hp hline]
    have hscan := scanLoop_prefix' len16 h16 tail (mid ++ ['\n']) (by simp) 0 0
    simp only [Nat.zero_add] at hscan
    rw [show tail ++ mid ++ ['\n'] = tail ++ (mid ++ ['\n']) by simp, hscan]
  · -- no '\n' at all
    have hpre : pre = [] := by
      apply lineStart_no_nl pre hp
      intro hm
      have := List.count_pos_iff.mpr hm
      omega
    subst hpre
    have hr : '\n' ∉ rest := by
      intro hm
      have := List.count_pos_iff.mpr hm
      omega
    have hsrc : '\n' ∉ [] ++ tail ++ rest := by
      simp only [List.nil_append, List.mem_append, not_or]; exact ⟨ht, hr⟩
    rw [positionToIndex_noNewline len16 _ hsrc]
    by_cases hrest : rest = []
    · subst hrest
      have hscan := scanLoop_all len16 h16 tail 0 0
      simp only [Nat.zero_add] at hscan
      simp only [List.nil_append, List.append_nil, List.length_nil, Nat.zero_add, hscan]
      by_cases htl : tail = []
      · subst htl; simp
      · have := sum16_pos len16 h16 tail htl
        simp [htl, this]
    · have hscan := scanLoop_prefix' len16 h16 tail rest hrest 0 0
      simp only [Nat.zero_add] at hscan
      simp only [List.nil_append, List.length_nil, Nat.zero_add, hscan]


/-- non-vacuity: an index on a middle line of a text with CRLF and an astral character, and
the whole of a one-line text, satisfy the hypotheses -/
example : lineOf ['a', '\r', '\n', '😀', 'b', '\n', 'c'] 4 < newlines ['a', '\r', '\n', '😀', 'b', '\n', 'c'] := by
  decide
example : positionToIndex len16Ex ['a', '\r', '\n', '😀', 'b', '\n', 'c'] ⟨1, 2⟩ = .ok 4 := by decide
example : newlines ['a', '😀', 'b'] = 0 := by decide

/-- non-vacuity of `positionToIndex_roundtrip_partial`: the theorem applied to both witnesses
(middle line of a CRLF text after an astral character; a one-line text) -/
example : ∃ p, indexToPosition len16Ex ['a', '\r', '\n', '😀', 'b', '\n', 'c'] 4 = .ok p ∧
    positionToIndex len16Ex ['a', '\r', '\n', '😀', 'b', '\n', 'c'] p = .ok 4 :=
  positionToIndex_roundtrip_partial len16Ex len16Ex_pos _ 4 (by decide) (Or.inl (by decide))
example : ∃ p, indexToPosition len16Ex ['a', '😀', 'b'] 2 = .ok p ∧
    positionToIndex len16Ex ['a', '😀', 'b'] p = .ok 2 :=
  positionToIndex_roundtrip_partial len16Ex len16Ex_pos _ 2 (by decide) (Or.inr (by decide))

/-- **The round trip is wrong on the last line of a multi-line text** (recorded finding
`c08-last-line`): in `"First line.\nSecnd line"` index 12 (the `S`) is position (1,0), and
position (1,0) is resolved to index 0 — `take(line + 1)` yields only one newline index, so the
two `pop`s select the *previous* line. The pinned tests `end_of_line` and `issue_250` assert this
behaviour. -/
theorem last_line_wrong :
    indexToPosition len16Ex firstSecnd 12 = .ok ⟨1, 0⟩ ∧
    positionToIndex len16Ex firstSecnd ⟨1, 0⟩ = .ok 0 := by decide

/-- hence the full-strength round-trip statement is false of the code -/
theorem roundtrip_false :
    ¬ ∀ (src : List Char) (i : Nat), i ≤ src.length →
      ∃ p, indexToPosition len16Ex src i = .ok p ∧ positionToIndex len16Ex src p = .ok i := by
  intro h
  obtain ⟨p, h1, h2⟩ := h firstSecnd 12 (by decide)
  rw [last_line_wrong.1] at h1
  cases h1
  rw [last_line_wrong.2] at h2
  exact absurd h2 (by decide)

/-- The hypothesis of `positionToIndex_roundtrip_partial` is exact: for **every** index on the
last line of a text with at least one `'\n'` the round trip returns a strictly smaller index
(one on the previous line, or at best the start of the last line). -/
theorem last_line_always_wrong (len16 : Char → Nat)
    (src : List Char) (i : Nat) (hi : i ≤ src.length)
    (hn : 1 ≤ newlines src) (hl : lineOf src i = newlines src) :
    ∃ p k, indexToPosition len16 src i = .ok p ∧ positionToIndex len16 src p = .ok k ∧ k < i := by
  obtain ⟨pre, tail, rest, rfl, rfl, hp, ht⟩ := decomp_at src i hi
  suffices h : ∃ k, positionToIndex len16 (pre ++ tail ++ rest)
      ⟨pre.count '\n', sum16 len16 tail⟩ = .ok k ∧ k < pre.length + tail.length by
    obtain ⟨k, hk, hlt⟩ := h
    exact ⟨_, k, indexToPosition_decomp len16 pre tail rest hp ht, hk, hlt⟩
  rw [lineOf_decomp pre tail rest ht, newlines_decomp pre tail rest ht] at hl
  rw [newlines_decomp pre tail rest ht] at hn
  have hrest : '\n' ∉ rest := fun hm => by have := List.count_pos_iff.mpr hm; omega
  have hpne : pre ≠ [] := by rintro rfl; simp only [List.count_nil] at hn hl; omega
  -- pre = pre0 ++ line ++ "\n"
  obtain ⟨pre1, rfl⟩ : ∃ pre1, pre = pre1 ++ ['\n'] := by
    rcases hp with h | h
    · exact absurd h hpne
    · rcases List.eq_nil_or_concat pre with rfl | ⟨ys, y, rfl⟩
      · exact absurd rfl hpne
      · simp at h; exact ⟨ys, by simp [h]⟩
  obtain ⟨pre0, line, rfl, hp0, hline⟩ := split_last_nl pre1
  have hcnt : (pre0 ++ line ++ ['\n']).count '\n' = pre0.count '\n' + 1 := by
    simp [List.count_append, count_nl_zero line hline]
  have hsrc : pre0 ++ line ++ ['\n'] ++ tail ++ rest = pre0 ++ (line ++ ['\n']) ++ (tail ++ rest) := by
    simp
  have hlast : '\n' ∉ tail ++ rest := by
    simp only [List.mem_append, not_or]; exact ⟨ht, hrest⟩
  rw [hsrc, hcnt, positionToIndex_lastline len16 pre0 line (tail ++ rest) hp0 hline hlast _ _
    (by omega)]
  have hlen : (pre0 ++ line ++ ['\n']).length = pre0.length + (line ++ ['\n']).length := by
    simp
  rw [hlen]
  by_cases htl : tail = []
  · subst htl
    have hsc : scanLoop len16 0 0 0 (line ++ ['\n']) = .inl 0 := by
      cases line <;> simp [scanLoop]
    refine ⟨pre0.length + 0, ?_, by simp⟩
    simp [sum16, hsc]
  · have hpos : 0 < tail.length := List.length_pos_iff.mpr htl
    cases hsc : scanLoop len16 (sum16 len16 tail) 0 0 (line ++ ['\n']) with
    | inl k =>
      have := (scanLoop_inl_lt len16 _ _ _ _ _ hsc).2
      exact ⟨_, rfl, by omega⟩
    | inr trav =>
      simp only []
      split
      · exact ⟨_, rfl, by omega⟩
      · exact ⟨_, rfl, by simp; omega⟩

/-- non-vacuity of `last_line_always_wrong` -/
example : 1 ≤ newlines firstSecnd ∧ lineOf firstSecnd 12 = newlines firstSecnd := by decide

/-- the same after a trailing newline (`"a\n"`, index 2 = end of text ↦ (1,0) ↦ 0) -/
example : indexToPosition len16Ex ['a', '\n'] 2 = .ok ⟨1, 0⟩ ∧
    positionToIndex len16Ex ['a', '\n'] ⟨1, 0⟩ = .ok 0 := by decide

/-- **Exact characterisation of the round trip**, both directions in one statement: for an index
inside the text, index → position → index returns the index **iff** the index is not on the last
line of a text that has at least one `'\n'` (`positionToIndex_roundtrip_partial` is `←`,
`last_line_always_wrong` gives `→`). -/
theorem roundtrip_iff (len16 : Char → Nat) (h16 : ∀ c, 1 ≤ len16 c)
    (src : List Char) (i : Nat) (hi : i ≤ src.length) :
    (∃ p, indexToPosition len16 src i = .ok p ∧ positionToIndex len16 src p = .ok i) ↔
      (lineOf src i < newlines src ∨ newlines src = 0) := by
  constructor
  · rintro ⟨p, hp, hpi⟩
    by_cases h : lineOf src i < newlines src ∨ newlines src = 0
    · exact h
    · exfalso
      have hle : lineOf src i ≤ newlines src := (List.take_sublist i src).count_le '\n'
      obtain ⟨p', k, hp', hk, hlt⟩ := last_line_always_wrong len16 src i hi (by omega) (by omega)
      rw [hp] at hp'; cases hp'
      rw [hpi] at hk; cases hk; omega
  · exact positionToIndex_roundtrip_partial len16 h16 src i hi

/-- non-vacuity of `roundtrip_iff`, the failing side: no position round-trips index 12 of
`"First line.\nSecnd line"` -/
example : ¬ ∃ p, indexToPosition len16Ex firstSecnd 12 = .ok p ∧
    positionToIndex len16Ex firstSecnd p = .ok 12 := by
  rw [roundtrip_iff len16Ex len16Ex_pos firstSecnd 12 (by decide)]; decide

/-! ### A client reads every range exactly where the lint is -/

/-- Strong form: if no `'\r'` before `i` lacks its `'\n'` *within the text before `i`* (this
excludes both a lone `'\r'` before `i` and `i` sitting between `'\r'` and `'\n'`), an LSP client
decodes the position the server sends for `i` as `i`. -/
theorem client_decode_encode_prefix (len16 : Char → Nat) (h16 : ∀ c, 1 ≤ len16 c)
    (src : List Char) (i : Nat) (hi : i ≤ src.length) (hcr : NoLoneCR (src.take i)) :
    ∃ p, indexToPosition len16 src i = .ok p ∧ clientOffset len16 src p = i := by
  obtain ⟨pre, tail, rest, rfl, rfl, hp, ht⟩ := decomp_at src i hi
  refine ⟨_, indexToPosition_decomp len16 pre tail rest hp ht, ?_⟩
  rw [take_pre_tail] at hcr
  have hpre := NoLoneCR_pre pre tail hp hcr
  have htl := tail_no_cr pre tail ht hcr
  simp only [clientOffset]
  rw [List.append_assoc, clientOffsetLC_lines len16 pre (tail ++ rest) _ hp hpre,
    clientOffsetLC_zero, clientCol_tail len16 h16 tail rest ht htl]

/-- non-vacuity of `client_decode_encode_prefix`: a lone `'\r'` AFTER the index does no harm (the
text as a whole is not `NoLoneCR`, so `client_decode_encode` does not apply) -/
example : ∃ p, indexToPosition len16Ex ['a', '😀', '\r', 'b'] 2 = .ok p ∧
    clientOffset len16Ex ['a', '😀', '\r', 'b'] p = 2 :=
  client_decode_encode_prefix len16Ex len16Ex_pos _ 2 (by decide) (by decide)
example : ¬ NoLoneCR ['a', '😀', '\r', 'b'] := by decide

/-- `client_decode_encode`: in a text where every `'\r'` is followed by `'\n'`, for every index
that is not between a `'\r'` and its `'\n'`, the client decodes the server's position as that
index. -/
theorem client_decode_encode (len16 : Char → Nat) (h16 : ∀ c, 1 ≤ len16 c)
    (src : List Char) (i : Nat) (hcr : NoLoneCR src) (hin : ¬ InsideCRLF src i)
    (hi : i ≤ src.length) :
    ∃ p, indexToPosition len16 src i = .ok p ∧ clientOffset len16 src p = i := by
  apply client_decode_encode_prefix len16 h16 src i hi
  intro j hj hc
  have hji : j < i := by simp only [List.length_take] at hj; omega
  rw [List.getElem?_take_of_lt hji] at hc
  have h1 := hcr j (by omega) hc
  by_cases hlt : j + 1 < i
  · rwa [List.getElem?_take_of_lt hlt]
  · exfalso
    apply hin
    have hij : i = j + 1 := by omega
    subst hij
    exact ⟨by omega, by simpa using hc, h1⟩

/-- non-vacuity: a CRLF text with an astral character; index 4 is after `😀` on line 1 -/
example : NoLoneCR ['a', '\r', '\n', '😀', 'b'] ∧ ¬ InsideCRLF ['a', '\r', '\n', '😀', 'b'] 4 := by decide
example : indexToPosition len16Ex ['a', '\r', '\n', '😀', 'b'] 4 = .ok ⟨1, 2⟩ ∧
    clientOffset len16Ex ['a', '\r', '\n', '😀', 'b'] ⟨1, 2⟩ = 4 := by decide

/-- non-vacuity of `client_decode_encode`: the theorem applied to that witness -/
example : ∃ p, indexToPosition len16Ex ['a', '\r', '\n', '😀', 'b'] 4 = .ok p ∧
    clientOffset len16Ex ['a', '\r', '\n', '😀', 'b'] p = 4 :=
  client_decode_encode len16Ex len16Ex_pos _ 4 (by decide) (by decide) (by decide)

/-- the side condition `¬ InsideCRLF` is needed: index 2 of `"a\r\nb"` is sent as (0,2), which a
client clamps to the end of line 0 = index 1 (real lints never end there: monitored by the
harness) -/
theorem inside_crlf_needed :
    NoLoneCR ['a', '\r', '\n', 'b'] ∧ InsideCRLF ['a', '\r', '\n', 'b'] 2 ∧
    indexToPosition len16Ex ['a', '\r', '\n', 'b'] 2 = .ok ⟨0, 2⟩ ∧
    clientOffset len16Ex ['a', '\r', '\n', 'b'] ⟨0, 2⟩ = 1 := by decide

/-- the side condition `NoLoneCR` is needed, and this one is a defect of the server (recorded
finding `c08-lone-cr`): LSP ends a line at a lone `'\r'`, `pos_conv.rs` does not. In `"a\rb"`
the `b` (index 2) is published as (0,2); the client has it at (1,0) and reads (0,2) as index 1. -/
theorem lone_cr_misplaced :
    ¬ NoLoneCR ['a', '\r', 'b'] ∧ ¬ InsideCRLF ['a', '\r', 'b'] 2 ∧
    indexToPosition len16Ex ['a', '\r', 'b'] 2 = .ok ⟨0, 2⟩ ∧
    clientOffset len16Ex ['a', '\r', 'b'] ⟨0, 2⟩ = 1 ∧
    clientOffset len16Ex ['a', '\r', 'b'] ⟨1, 0⟩ = 2 := by decide

/-- Every diagnostic range, read by a client, covers exactly the lint's characters. -/
theorem diagnostic_range_exact (len16 : Char → Nat) (h16 : ∀ c, 1 ≤ len16 c)
    (src : List Char) (sp : Span) (hel : sp.stop ≤ src.length) (hse : sp.start ≤ sp.stop)
    (hcr : NoLoneCR src) (h1 : ¬ InsideCRLF src sp.start) (h2 : ¬ InsideCRLF src sp.stop) :
    ∃ r, spanToRange len16 src sp = .ok r ∧
      clientOffset len16 src r.start = sp.start ∧ clientOffset len16 src r.stop = sp.stop := by
  obtain ⟨p, hp, hpc⟩ := client_decode_encode len16 h16 src sp.start hcr h1 (by omega)
  obtain ⟨q, hq, hqc⟩ := client_decode_encode len16 h16 src sp.stop hcr h2 hel
  exact ⟨⟨p, q⟩, by simp [spanToRange, hp, hq], hpc, hqc⟩

/-- non-vacuity of `diagnostic_range_exact`: the lint `😀b` on line 1 of a CRLF text; its range is
(1,0)–(1,3) (the astral character is two columns wide) -/
example : ∃ r, spanToRange len16Ex ['a', '\r', '\n', '😀', 'b', '\n'] ⟨3, 5⟩ = .ok r ∧
    clientOffset len16Ex ['a', '\r', '\n', '😀', 'b', '\n'] r.start = 3 ∧
    clientOffset len16Ex ['a', '\r', '\n', '😀', 'b', '\n'] r.stop = 5 :=
  diagnostic_range_exact len16Ex len16Ex_pos _ ⟨3, 5⟩ (by decide) (by decide) (by decide)
    (by decide) (by decide)
example : spanToRange len16Ex ['a', '\r', '\n', '😀', 'b', '\n'] ⟨3, 5⟩ = .ok ⟨⟨1, 0⟩, ⟨1, 3⟩⟩ := by
  decide

/-! ### Quick-fix edits -/

/-- `textEdit_equiv`: for a lint span inside the text, the `TextEdit` the server builds for any
of the three suggestion kinds, applied the way a client applies it, gives exactly the text that
applying the suggestion to the character span gives. -/
theorem textEdit_equiv (len16 : Char → Nat) (h16 : ∀ c, 1 ≤ len16 c)
    (src : List Char) (sugg : Sugg) (sp : Span)
    (hse : sp.start ≤ sp.stop) (hel : sp.stop ≤ src.length)
    (hcr : NoLoneCR src) (h1 : ¬ InsideCRLF src sp.start) (h2 : ¬ InsideCRLF src sp.stop) :
    ∃ e, editOf len16 src sugg sp = .ok e ∧ clientApply len16 src e = applySpec sugg sp src := by
  obtain ⟨r, hr, hs, he⟩ := diagnostic_range_exact len16 h16 src sp hel hse hcr h1 h2
  cases sugg with
  | replaceWith x =>
    exact ⟨⟨r, x⟩, by simp [editOf, hr], by simp [clientApply, applySpec, hs, he]⟩
  | remove =>
    exact ⟨⟨r, []⟩, by simp [editOf, hr], by simp [clientApply, applySpec, hs, he]⟩
  | insertAfter x =>
    by_cases hlt : sp.start < src.length
    · have hc : sp.getContent src = .ok ((src.drop sp.start).take (sp.stop - sp.start)) := by
        unfold Span.getContent
        rw [if_neg (by omega), if_neg (by omega)]
      refine ⟨⟨r, (src.drop sp.start).take (sp.stop - sp.start) ++ x⟩, by simp [editOf, hr, hc], ?_⟩
      have htk : src.take sp.stop =
          src.take sp.start ++ (src.drop sp.start).take (sp.stop - sp.start) := by
        have := List.take_add (l := src) (i := sp.start) (j := sp.stop - sp.start)
        rwa [show sp.start + (sp.stop - sp.start) = sp.stop by omega] at this
      simp [clientApply, applySpec, hs, he, htk]
    · have hc : sp.getContent src = .ok [] := by
        unfold Span.getContent
        rw [if_neg (by omega), if_pos (by omega)]
        have : (sp.stop == sp.start) = true := by simp; omega
        simp [this]
      refine ⟨⟨r, [] ++ x⟩, by simp [editOf, hr, hc], ?_⟩
      have : sp.start = sp.stop := by omega
      simp [clientApply, applySpec, hs, he, this]

/-- non-vacuity: replace `😀b` on line 1 of a CRLF text -/
example : editOf len16Ex ['a', '\r', '\n', '😀', 'b', '\n'] (.insertAfter ['!']) ⟨3, 5⟩ =
    .ok ⟨⟨⟨1, 0⟩, ⟨1, 3⟩⟩, ['😀', 'b', '!']⟩ := by decide
example : clientApply len16Ex ['a', '\r', '\n', '😀', 'b', '\n'] ⟨⟨⟨1, 0⟩, ⟨1, 3⟩⟩, ['😀', 'b', '!']⟩ =
    ['a', '\r', '\n', '😀', 'b', '!', '\n'] := by decide

/-- non-vacuity of `textEdit_equiv`: the theorem applied to that edit, and to a replacement on the
LAST line of a multi-line text without trailing newline (edits are right there: the client decodes
the range, `position_to_index` is not involved) -/
example : ∃ e, editOf len16Ex ['a', '\r', '\n', '😀', 'b', '\n'] (.insertAfter ['!']) ⟨3, 5⟩ = .ok e ∧
    clientApply len16Ex ['a', '\r', '\n', '😀', 'b', '\n'] e =
      applySpec (.insertAfter ['!']) ⟨3, 5⟩ ['a', '\r', '\n', '😀', 'b', '\n'] :=
  textEdit_equiv len16Ex len16Ex_pos _ _ ⟨3, 5⟩ (by decide) (by decide) (by decide) (by decide)
    (by decide)
example : ∃ e, editOf len16Ex firstSecnd (.replaceWith ['S', 'e', 'c', 'o', 'n', 'd']) ⟨12, 17⟩ = .ok e ∧
    clientApply len16Ex firstSecnd e =
      applySpec (.replaceWith ['S', 'e', 'c', 'o', 'n', 'd']) ⟨12, 17⟩ firstSecnd :=
  textEdit_equiv len16Ex len16Ex_pos _ _ ⟨12, 17⟩ (by decide) (by decide) (by decide) (by decide)
    (by decide)

/-- `textEdit_equiv` against the model of the REAL `Suggestion::apply` (`Harper/Model/Suggestion.lean`,
the definition the driver op `apply` of C03 runs) instead of the splice `applySpec` written for this
file: the client's result is exactly what `Suggestion::apply` returns, which in particular does not
panic. -/
theorem textEdit_equiv_apply (len16 : Char → Nat) (h16 : ∀ c, 1 ≤ len16 c)
    (src : List Char) (sugg : Sugg) (sp : Span)
    (hse : sp.start ≤ sp.stop) (hel : sp.stop ≤ src.length)
    (hcr : NoLoneCR src) (h1 : ¬ InsideCRLF src sp.start) (h2 : ¬ InsideCRLF src sp.stop) :
    ∃ e, editOf len16 src sugg sp = .ok e ∧
      (match sugg with
        | .replaceWith r => Suggestion.replaceWith r
        | .insertAfter r => Suggestion.insertAfter r
        | .remove => (Suggestion.remove : Suggestion Char)).apply sp src
        = .ok (clientApply len16 src e) := by
  obtain ⟨e, he, hc⟩ := textEdit_equiv len16 h16 src sugg sp hse hel hcr h1 h2
  refine ⟨e, he, ?_⟩
  rw [hc]
  cases sugg with
  | replaceWith r => simpa [applySpec] using C03.apply_replace src r sp hse hel
  | remove => simpa [applySpec] using C03.apply_remove src sp hse hel
  | insertAfter r =>
    have := C03.apply_insertAfter src r sp hse hel
    rw [this]
    have htk : src.take sp.stop =
        src.take sp.start ++ (src.drop sp.start).take (sp.stop - sp.start) := by
      have := List.take_add (l := src) (i := sp.start) (j := sp.stop - sp.start)
      rwa [show sp.start + (sp.stop - sp.start) = sp.stop by omega] at this
    simp [applySpec, htk]

/-! ### Code actions -/

/-- `codeActions_found_partial`: a code-action request whose start is the position of any
character `i` of a non-empty lint (and whose end is the position of any `j ≥ i`; `j = i` is a
caret) selects that lint — **provided** neither `i` nor `j` is on the last line of a multi-line
text. What is missing is exactly the recorded finding: on that last line the lint is *not* found
(`last_line_no_actions`) and a range request can panic (`last_line_request_panics`). -/
theorem codeActions_found_partial (len16 : Char → Nat) (h16 : ∀ c, 1 ≤ len16 c)
    (src : List Char) (lint : Span) (i j : Nat)
    (hs : lint.start ≤ i) (he : i < lint.stop) (hij : i ≤ j) (hj : j ≤ src.length)
    (hli : lineOf src i < newlines src ∨ newlines src = 0)
    (hlj : lineOf src j < newlines src ∨ newlines src = 0) :
    ∃ p q, indexToPosition len16 src i = .ok p ∧ indexToPosition len16 src j = .ok q ∧
      selects len16 src ⟨p, q⟩ lint = .ok true := by
  obtain ⟨p, hp, hpi⟩ := positionToIndex_roundtrip_partial len16 h16 src i (by omega) hli
  obtain ⟨q, hq, hqj⟩ := positionToIndex_roundtrip_partial len16 h16 src j hj hlj
  refine ⟨p, q, hp, hq, ?_⟩
  have hnew : Span.new i j = .ok ⟨i, j⟩ := by
    unfold Span.new; rw [if_neg (by omega)]
  simp only [selects, rangeToSpan, hpi, hqj, hnew, Span.overlapsWith, Span.withLen]
  have h1 : lint.start < i + 1 := by omega
  simp [h1, he]

/-- non-vacuity: the lint `😀b` on line 1 of three, caret before `b` -/
example : selects len16Ex ['a', '\n', '😀', 'b', '\n', 'c'] ⟨⟨1, 2⟩, ⟨1, 2⟩⟩ ⟨2, 4⟩ = .ok true := by decide

/-- non-vacuity of `codeActions_found_partial`: the theorem applied to a selection from before `b`
to the end of the lint `😀b` on line 1 of three -/
example : ∃ p q, indexToPosition len16Ex ['a', '\n', '😀', 'b', '\n', 'c'] 3 = .ok p ∧
    indexToPosition len16Ex ['a', '\n', '😀', 'b', '\n', 'c'] 4 = .ok q ∧
    selects len16Ex ['a', '\n', '😀', 'b', '\n', 'c'] ⟨p, q⟩ ⟨2, 4⟩ = .ok true :=
  codeActions_found_partial len16Ex len16Ex_pos _ ⟨2, 4⟩ 3 4 (by decide) (by decide) (by decide)
    (by decide) (Or.inl (by decide)) (Or.inl (by decide))

/-- the hypothesis `i < lint.stop` is sharp: a caret AT the end position of the range ((1,3), index 4)
does not select the lint -/
example : selects len16Ex ['a', '\n', '😀', 'b', '\n', 'c'] ⟨⟨1, 3⟩, ⟨1, 3⟩⟩ ⟨2, 4⟩ = .ok false := by
  decide

/-- on the last line the lint is not found: caret on the `S` of `Secnd` -/
theorem last_line_no_actions :
    selects len16Ex firstSecnd ⟨⟨1, 0⟩, ⟨1, 0⟩⟩ ⟨12, 17⟩ = .ok false := by decide

/-- … and a selection from the `'\n'` of `"ab\ncd"` to the `c` (both inside the lint `b\nc`)
makes `range_to_span` call `Span::new(2, 0)`, which panics -/
theorem last_line_request_panics :
    indexToPosition len16Ex ['a', 'b', '\n', 'c', 'd'] 2 = .ok ⟨0, 2⟩ ∧
    indexToPosition len16Ex ['a', 'b', '\n', 'c', 'd'] 3 = .ok ⟨1, 0⟩ ∧
    selects len16Ex ['a', 'b', '\n', 'c', 'd'] ⟨⟨0, 2⟩, ⟨1, 0⟩⟩ ⟨1, 4⟩ = .error .spanNew := by decide

/-! ### w26 — "a code-action request inside a diagnostic's range returns that lint's fixes"

`codeActions_found_partial` only says that the `overlaps_with` filter of `generate_code_actions` KEEPS the lint. The three
theorems below are about the edits the request is answered with: `codeActionEdits` (`Lemmas/PosConv.lean`) composes the
model's `rangeToSpan`, `Span.overlapsWith`, `Span.withLen` and `editOf` exactly as `generate_code_actions` /
`lint_to_code_actions` do (`range_to_span(..).with_len(1)`, `.filter(..)`, `.flat_map(lint_to_code_actions)`, one
`TextEdit` per suggestion). What stays outside: the lints are DATA here (that `generate_code_actions` lints under
`new_curated()` merged with the user's configuration, removes the ignored lints and sorts by priority is not
modelled; the order of `lints` below is whatever that pipeline yields), and the range-less commands appended after
the edits. -/

/-- the three constructors of `Sugg` as C03's `Suggestion` (the model of the real `Suggestion::apply`) -/
def toSuggestion : Sugg → Suggestion Char
  | .replaceWith r => .replaceWith r
  | .insertAfter r => .insertAfter r
  | .remove => .remove

/-- `lint_to_code_actions` cannot panic on a suggestion of a lint whose span is inside the text: `span_to_range` and
`get_content_string` succeed (no assumption on line terminators — those only matter for how a CLIENT reads the range). -/
theorem editOf_ok (len16 : Char → Nat) (src : List Char) (sugg : Sugg) (sp : Span)
    (hse : sp.start ≤ sp.stop) (hel : sp.stop ≤ src.length) :
    ∃ e, editOf len16 src sugg sp = .ok e := by
  obtain ⟨a, ha, _⟩ := indexToPosition_spec len16 src sp.start (by omega)
  obtain ⟨b, hb, _⟩ := indexToPosition_spec len16 src sp.stop hel
  have hr : spanToRange len16 src sp = .ok ⟨a, b⟩ := by simp [spanToRange, ha, hb]
  cases sugg with
  | replaceWith x => exact ⟨⟨⟨a, b⟩, x⟩, by simp [editOf, hr]⟩
  | remove => exact ⟨⟨⟨a, b⟩, []⟩, by simp [editOf, hr]⟩
  | insertAfter x =>
    have hc : ∃ c, sp.getContent src = .ok c := by
      unfold Span.getContent
      rw [if_neg (by omega)]
      by_cases hlt : sp.start < src.length
      · rw [if_neg (by omega)]; exact ⟨_, rfl⟩
      · rw [if_pos (by omega)]
        have : (sp.stop == sp.start) = true := by simp; omega
        simp [this]
    obtain ⟨c, hc⟩ := hc
    exact ⟨⟨⟨a, b⟩, c ++ x⟩, by simp [editOf, hr, hc]⟩

/-- **The answer to a code-action request, exactly.** All lint spans inside the text; the request runs from the
position of `i` to the position of `j ≥ i`, neither on the last line of a multi-line text (the recorded finding,
as in `codeActions_found_partial`). Then `generate_code_actions` does not panic and its quick-fix edits are, in lint
order and per lint in suggestion order, the `TextEdit` of EVERY suggestion of EXACTLY the lints whose span overlaps
the one character at `i` — nothing dropped, nothing added, no edit of a lint elsewhere. -/
theorem codeActions_edits_exact_partial (len16 : Char → Nat) (h16 : ∀ c, 1 ≤ len16 c)
    (src : List Char) (lints : List (Span × List Sugg))
    (hok : ∀ l ∈ lints, l.1.start ≤ l.1.stop ∧ l.1.stop ≤ src.length)
    (i j : Nat) (hi : i < src.length) (hij : i ≤ j) (hj : j ≤ src.length)
    (hli : lineOf src i < newlines src ∨ newlines src = 0)
    (hlj : lineOf src j < newlines src ∨ newlines src = 0) :
    ∃ p q, indexToPosition len16 src i = .ok p ∧ indexToPosition len16 src j = .ok q ∧
      codeActionEdits len16 src ⟨p, q⟩ lints =
        .ok ((lints.filter fun l => l.1.overlapsWith ⟨i, i + 1⟩).flatMap fun l => l.2.map (editOr len16 src l.1)) ∧
      ∀ l ∈ lints, ∀ s ∈ l.2, editOf len16 src s l.1 = .ok (editOr len16 src l.1 s) := by
  obtain ⟨p, hp, hpi⟩ := positionToIndex_roundtrip_partial len16 h16 src i (by omega) hli
  obtain ⟨q, hq, hqj⟩ := positionToIndex_roundtrip_partial len16 h16 src j hj hlj
  have hnew : Span.new i j = .ok ⟨i, j⟩ := by
    unfold Span.new; rw [if_neg (by omega)]
  have hall : ∀ l ∈ lints, ∀ s ∈ l.2, editOf len16 src s l.1 = .ok (editOr len16 src l.1 s) := by
    intro l hl s _
    obtain ⟨e, he⟩ := editOf_ok len16 src s l.1 (hok l hl).1 (hok l hl).2
    rw [he, editOr_of_ok he]
  refine ⟨p, q, hp, hq, ?_, hall⟩
  simp only [codeActionEdits, rangeToSpan, hpi, hqj, hnew, Span.withLen]
  exact flatEdits_ok len16 src (editOr len16 src) _
    (fun l hl s hs => hall l (List.mem_filter.1 hl).1 s hs)

/-- **"… returns that lint's fixes."** A request started on any character `i` of a non-empty lint `(lint, suggs)` of
the document is answered with an edit for each of its suggestions, and each of them — when the lint's ends do not
split a `\r\n` — applied by a client gives exactly what `Suggestion::apply` (C03's model) gives on the character
span; and every edit in the answer is such a fix of a lint under `i` (no foreign edits). -/
theorem codeActions_fixes_partial (len16 : Char → Nat) (h16 : ∀ c, 1 ≤ len16 c)
    (src : List Char) (lints : List (Span × List Sugg))
    (hok : ∀ l ∈ lints, l.1.start ≤ l.1.stop ∧ l.1.stop ≤ src.length)
    (hcr : NoLoneCR src)
    (hcrlf : ∀ l ∈ lints, ¬ InsideCRLF src l.1.start ∧ ¬ InsideCRLF src l.1.stop)
    (lint : Span) (suggs : List Sugg) (hmem : (lint, suggs) ∈ lints)
    (i j : Nat) (hs : lint.start ≤ i) (he : i < lint.stop) (hij : i ≤ j) (hj : j ≤ src.length)
    (hli : lineOf src i < newlines src ∨ newlines src = 0)
    (hlj : lineOf src j < newlines src ∨ newlines src = 0) :
    ∃ p q es, indexToPosition len16 src i = .ok p ∧ indexToPosition len16 src j = .ok q ∧
      codeActionEdits len16 src ⟨p, q⟩ lints = .ok es ∧
      (∀ s ∈ suggs, ∃ e ∈ es, editOf len16 src s lint = .ok e ∧
        (toSuggestion s).apply lint src = .ok (clientApply len16 src e)) ∧
      (∀ e ∈ es, ∃ l ∈ lints, l.1.start ≤ i ∧ i < l.1.stop ∧ ∃ s ∈ l.2, editOf len16 src s l.1 = .ok e ∧
        (toSuggestion s).apply l.1 src = .ok (clientApply len16 src e)) := by
  have hlen : lint.stop ≤ src.length := (hok _ hmem).2
  obtain ⟨p, q, hp, hq, hes, hall⟩ :=
    codeActions_edits_exact_partial len16 h16 src lints hok i j (by omega) hij hj hli hlj
  have happly : ∀ l ∈ lints, ∀ s ∈ l.2,
      (toSuggestion s).apply l.1 src = .ok (clientApply len16 src (editOr len16 src l.1 s)) := by
    intro l hl s hs
    obtain ⟨e, he1, he2⟩ := textEdit_equiv_apply len16 h16 src s l.1 (hok l hl).1 (hok l hl).2 hcr
      (hcrlf l hl).1 (hcrlf l hl).2
    have := hall l hl s hs
    rw [he1] at this
    cases this
    cases s <;> simpa [toSuggestion] using he2
  refine ⟨p, q, _, hp, hq, hes, ?_, ?_⟩
  · intro s hs
    refine ⟨editOr len16 src lint s, ?_, hall _ hmem s hs, happly _ hmem s hs⟩
    simp only [List.mem_flatMap, List.mem_filter, List.mem_map]
    refine ⟨(lint, suggs), ⟨hmem, ?_⟩, s, hs, rfl⟩
    simp [Span.overlapsWith]; omega
  · intro e hemem
    simp only [List.mem_flatMap, List.mem_filter, List.mem_map] at hemem
    obtain ⟨l, ⟨hl, hov⟩, s, hs, rfl⟩ := hemem
    simp [Span.overlapsWith] at hov
    exact ⟨l, hl, by omega, by omega, s, hs, hall l hl s hs, happly l hl s hs⟩

/-- non-vacuity of `codeActions_edits_exact_partial` / `codeActions_fixes_partial`: `"a\n😀b\nc teh\n"`, three lints —
`😀b` (2..4, two suggestions), `a` (0..1, one suggestion, NOT under the caret), `b` (3..4, `Remove`, under the caret
too); the request is a caret before `b` (index 3). The answer: the two edits of the first lint, then the one of the
third, none of the second. -/
def lintsEx : List (Span × List Sugg) :=
  [(⟨2, 4⟩, [.replaceWith ['x'], .insertAfter ['!']]), (⟨0, 1⟩, [.replaceWith ['A']]), (⟨3, 4⟩, [.remove])]
def srcEx : List Char := ['a', '\n', '😀', 'b', '\n', 'c']

example : codeActionEdits len16Ex srcEx ⟨⟨1, 2⟩, ⟨1, 2⟩⟩ lintsEx =
    .ok [⟨⟨⟨1, 0⟩, ⟨1, 3⟩⟩, ['x']⟩, ⟨⟨⟨1, 0⟩, ⟨1, 3⟩⟩, ['😀', 'b', '!']⟩, ⟨⟨⟨1, 2⟩, ⟨1, 3⟩⟩, []⟩] := by decide

example : ∃ p q es, indexToPosition len16Ex srcEx 3 = .ok p ∧ indexToPosition len16Ex srcEx 3 = .ok q ∧
    codeActionEdits len16Ex srcEx ⟨p, q⟩ lintsEx = .ok es ∧
    (∀ s ∈ [Sugg.replaceWith ['x'], .insertAfter ['!']], ∃ e ∈ es, editOf len16Ex srcEx s ⟨2, 4⟩ = .ok e ∧
      (toSuggestion s).apply ⟨2, 4⟩ srcEx = .ok (clientApply len16Ex srcEx e)) ∧
    (∀ e ∈ es, ∃ l ∈ lintsEx, l.1.start ≤ 3 ∧ 3 < l.1.stop ∧ ∃ s ∈ l.2, editOf len16Ex srcEx s l.1 = .ok e ∧
      (toSuggestion s).apply l.1 srcEx = .ok (clientApply len16Ex srcEx e)) :=
  codeActions_fixes_partial len16Ex len16Ex_pos srcEx lintsEx (by decide) (by decide) (by decide) ⟨2, 4⟩ _
    (by decide) 3 3 (by decide) (by decide) (by decide) (by decide) (Or.inl (by decide)) (Or.inl (by decide))

/-- the last-line restriction is needed for the edits as for the filter: on the last line of `First line\nSecnd` the
answer to a caret on `S` is EMPTY although the lint `Secnd` (12..17) has a fix (the recorded finding, seen at the
level of the answer) -/
example : codeActionEdits len16Ex firstSecnd ⟨⟨1, 0⟩, ⟨1, 0⟩⟩ [(⟨12, 17⟩, [.replaceWith ['S', 'e', 'c', 'o', 'n', 'd']])] =
    .ok [] := by decide

/-- a lint WITHOUT suggestions under the caret contributes no edit and cannot make the call panic even when its span
is outside the text (`span_to_range` sits inside the per-suggestion closure); one WITH a suggestion does -/
example : codeActionEdits len16Ex ['a', 'b'] ⟨⟨0, 0⟩, ⟨0, 0⟩⟩ [(⟨0, 9⟩, [])] = .ok [] ∧
    codeActionEdits len16Ex ['a', 'b'] ⟨⟨0, 0⟩, ⟨0, 0⟩⟩ [(⟨0, 9⟩, [.remove])] = .error .sliceOOB := by decide

end Harper.C08
