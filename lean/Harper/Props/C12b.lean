import Harper.Lemmas.LexExt
import Harper.Lemmas.Rules
import Harper.Lemmas.RulesPattern
import Harper.Props.C12
import Harper.Props.C02b
/-!
# C12 (continued) — concrete rules are paragraph-local: theorems, not assumptions

`Props/C12.lean` proves `paragraphs_separately` for ANY rule that is `XLocal`; which real rules are
local was left to the oracle. Here eleven real rules are in the model (`Model/Rules.lean`: the code as
it iterates — per chunk, per sentence, per token, `remove_overlaps` — compared lint for lint with the
real rule, run alone, on every run of the check) and their locality is PROVED:

* `XLocalE` (`Lemmas/Rules.lean`) is `XLocal` for rules that can panic and that report full lints
  (span, suggestions, message): nothing on the empty piece; text after the paragraph does not
  matter; moving a piece together with its text moves the lints — and the panics.
  `…_xlocal : XLocalE …Piece` for LongSentences (per sentence), Spaces (per sentence), RepeatedWords
  (per chunk), the candidates of CurrencyPlacement (per chunk), EllipsisLength,
  NumberSuffixCapitalization, CorrectNumberSuffix, UnclosedQuotes (per token), ModalOf (per chunk:
  `run_on_chunk` of its pattern with `match_to_lint`, itself translation invariant), AnA (per chunk),
  SentenceCapitalization (per paragraph).
* `overPieces_append` is `lint_append` for such rules; `currencyPlacement_appends` adds
  `remove_overlaps` (run on the lints of the whole document: it cannot mix the two sides, because
  every lint of `P` ends inside `P`).
* `…_paragraphs_separately`: composed with `document_append` exactly as `paragraphs_separately` is —
  from the characters of `P` and `D` to the lints (or the panic) of the rule, with NO hypothesis
  about the rule. `ParagraphPair` bundles the hypotheses of `paragraphs_separately` on the two texts.
* `unclosedQuotes_local_noquotes`: UnclosedQuotes reads `twin_loc`, which `match_quotes` computes
  over the whole document; it is paragraph-local exactly under the premise of C12 (no quotation
  mark in `P`), and not otherwise (witness).
* A `CurrencyPlacement` whose windows slide over `document.tokens()` (seeded change `C12r2`) is not
  a chunk-local rule: kernel-checked witness.
* `asRule_xlocal`: every `XLocalE` rule is an `XLocal` rule of `Props/C12.lean`, so `lint_append`,
  `lint_append_sentences`, `lint_append_chunks`, `paragraphs_separately` apply to the modelled rules.
-/
namespace Harper.C12
open Harper Harper.Chunks Harper.Rules

/-! ## every token of a plain-English document is `tokOK` -/

/-- non-empty, and a suffixed `Number` token covers its two suffix characters -/
theorem document_tokOK (cls : Cls) (ext : Ext) (src : List Char) (hext : ExtOK ext src.length) (toks : List Tok)
    (h : document cls ext src = .ok toks) : ∀ t ∈ toks, tokOK t = true := by
  obtain ⟨toks', e, hT⟩ := C02.document_tiles cls ext src hext
  rw [h] at e
  cases e
  obtain ⟨_, hb, _⟩ := C02.tiles_inbounds_sorted toks 0 src.length hT
  intro t ht
  have ht' := hb t ht
  simp only [tokOK, Bool.and_eq_true, decide_eq_true_eq]
  refine ⟨ht'.2.1, ?_⟩
  cases hk : t.kind with
  | number r o =>
    cases o with
    | none => simp [numSuffix]
    | some s =>
      obtain ⟨pre, c1, c2, htxt, _⟩ := C02.number_suffix_shape cls ext src hext toks h t ht r s hk
      have hl := congrArg List.length htxt
      simp only [List.length_take, List.length_drop, List.length_append, List.length_cons, List.length_nil] at hl
      simp only [numSuffix, decide_eq_true_eq]
      omega
  | _ => simp [numSuffix]

/-! ## locality of each modelled rule's piece function -/

theorem longSentences_xlocal : XLocalE longSentencesPiece := Rules.longSentences_xlocal
theorem spaces_xlocal : XLocalE spacesPiece := Rules.spaces_xlocal
theorem repeatedWords_xlocal (env : Env) : XLocalE (repeatedWordsPiece env) := Rules.repeatedWords_xlocal env
/-- the candidates of CurrencyPlacement in one chunk (adjacent pairs and 4-token windows) -/
theorem currencyPlacement_xlocal (env : Env) : XLocalE (currencyChunk env) := currencyChunk_xlocal env
theorem ellipsisLength_xlocal : XLocalE (perTok ellipsisTok) := perTok_xlocal ellipsis_tokLocal
theorem numberSuffixCapitalization_xlocal (env : Env) : XLocalE (perTok (numberSuffixCapTok env)) :=
  perTok_xlocal (numberSuffixCap_tokLocal env)
theorem correctNumberSuffix_xlocal (env : Env) : XLocalE (perTok (correctNumberSuffixTok env)) :=
  perTok_xlocal (correctNumberSuffix_tokLocal env)
/-- on given tokens UnclosedQuotes is local; what is NOT local is `match_quotes` (see below) -/
theorem unclosedQuotes_xlocal : XLocalE (perTok unclosedQuoteTok) := perTok_xlocal unclosedQuote_tokLocal
/-- `ModalOf::match_to_lint` moves with its match (any number of matched tokens) -/
theorem modalOfMatch_translation (env : Env) (P D : List Char) (m : List Tok) (j : Nat) :
    modalOfMatch env (P ++ D) (shiftDoc P.length j m) = (modalOfMatch env D m).map (shiftRLs P.length) :=
  modalOfMatch_shift env P D m j

/-- the whole pattern linter on one chunk: `run_on_chunk` of the pattern of `ModalOf::default()` (an
`EitherPattern` of four `SequencePattern`s over `WordSet`, `AnyCapitalization`, `WhitespacePattern` and
"any word": every combinator looks only at kinds, spans and the characters under its tokens —
`modalOfPat_local`) with `match_to_lint` -/
theorem modalOf_xlocal (env : Env) : XLocalE (modalOfPiece env) := Rules.modalOf_xlocal env

/-- AnA per chunk: consecutive word tokens with nothing word-like or unlintable between; `starts_with_vowel`
reads only the second word's characters -/
theorem anA_xlocal (env : Env) : XLocalE (anaPiece env) := Rules.anA_xlocal env

/-- SentenceCapitalization per paragraph: the short-label exemption counts the paragraph's sentences
and the words of its chunks; then sentence by sentence, the first non-whitespace token's characters,
its metadata and the dictionary's capitalisation of that word -/
theorem sentenceCapitalization_xlocal (env : Env) : XLocalE (sentCapParagraph env) := sentCap_xlocal env

/-- the hypotheses of `XLocalE` are about `tokOK` pieces; a real sentence's tokens are -/
example : ∀ t ∈ [(⟨⟨0, 1⟩, .word⟩ : Tok), ⟨⟨1, 3⟩, .space 2⟩, ⟨⟨3, 6⟩, .number 10 (some .st)⟩, ⟨⟨6, 7⟩, .punct .Period⟩],
    tokOK t = true ∧ t.span.stop ≤ 7 := by decide

/-! ## two documents joined at a paragraph break -/

/-- `r` on the tokens of `P ++ D` = `r` on those of `P`, then `r` on those of `D` moved behind —
lints and panics (`joinE`) -/
def Appends (r : PieceRule) : Prop :=
  ∀ (P D : List Char) (A0 : List Tok) (brk : Tok) (td : List Tok), brk.kind.isParagraphBreak = true →
    (∀ t ∈ A0 ++ [brk], tokOK t = true ∧ t.span.stop ≤ P.length) → (∀ t ∈ td, tokOK t = true) →
    r (P ++ D) ((A0 ++ [brk]) ++ shiftDoc P.length (A0 ++ [brk]).length td) =
      joinE P.length (r P (A0 ++ [brk])) (r D td)

theorem appends_sentences (r : PieceRule) (hr : XLocalE r) : Appends (overPieces iterSentences r) :=
  fun P D A0 brk td hb hin hd =>
    overPieces_append isSentenceTerminator (fun j k => isSentenceTerminator_shiftTwin j k) r hr P D A0 brk
      (isSentenceTerminator_of_break hb) td hin hd

theorem appends_paragraphs (r : PieceRule) (hr : XLocalE r) : Appends (overPieces iterParagraphs r) :=
  fun P D A0 brk td hb hin hd =>
    overPieces_append Kind.isParagraphBreak (fun j k => isParagraphBreak_shiftTwin j k) r hr P D A0 brk hb td hin hd

theorem appends_chunks (r : PieceRule) (hr : XLocalE r) : Appends (overPieces iterChunks r) :=
  fun P D A0 brk td hb hin hd =>
    overPieces_append isChunkTerminator (fun j k => isChunkTerminator_shiftTwin j k) r hr P D A0 brk
      (isChunkTerminator_of_break hb) td hin hd

theorem appends_perTok (f : List Char → Tok → Except Panic (List RuleLint)) (hf : TokLocal f) : Appends (perTok f) :=
  fun P D A0 brk td _ hin hd => perTok_append hf P D (A0 ++ [brk]) td _ hin hd

theorem longSentences_appends (env : Env) : Appends (ruleLongSentences env) := appends_sentences _ longSentences_xlocal
theorem spaces_appends (env : Env) : Appends (ruleSpaces env) := appends_sentences _ spaces_xlocal
theorem repeatedWords_appends (env : Env) : Appends (ruleRepeatedWords env) := appends_chunks _ (repeatedWords_xlocal env)
theorem modalOf_appends (env : Env) : Appends (ruleModalOf env) := appends_chunks _ (modalOf_xlocal env)
theorem anA_appends (env : Env) : Appends (ruleAnA env) := appends_chunks _ (anA_xlocal env)
theorem sentenceCapitalization_appends (env : Env) : Appends (ruleSentenceCapitalization env) :=
  appends_paragraphs _ (sentenceCapitalization_xlocal env)
theorem ellipsisLength_appends (env : Env) : Appends (ruleEllipsisLength env) := appends_perTok _ ellipsis_tokLocal
theorem numberSuffixCapitalization_appends (env : Env) : Appends (ruleNumberSuffixCapitalization env) :=
  appends_perTok _ (numberSuffixCap_tokLocal env)
theorem correctNumberSuffix_appends (env : Env) : Appends (ruleCorrectNumberSuffix env) :=
  appends_perTok _ (correctNumberSuffix_tokLocal env)
theorem unclosedQuotes_appends (env : Env) : Appends (ruleUnclosedQuotes env) := appends_perTok _ unclosedQuote_tokLocal
/-- candidates chunk by chunk, then `remove_overlaps` on all of them: the lints of `P` end inside
`P`, so the sweep never lets a lint of one side remove a lint of the other -/
theorem currencyPlacement_appends (env : Env) : Appends (ruleCurrencyPlacement env) :=
  fun P D A0 brk td hb hin hd => currencyPlacement_append env P D A0 brk hb td hin hd

/-! ## end to end: from the characters of `P` and `D` -/

/-- the rule alone on `Document::new(src, &PlainEnglish, _)` -/
def docRule (cls : Cls) (ext : Ext) (r : PieceRule) (src : List Char) : Except Panic (List RuleLint) :=
  match document cls ext src with
  | .error e => .error e
  | .ok toks => r src toks

/-- the hypotheses of `paragraphs_separately` on the two texts: `P = P0 ++ '\n'^k` (`k ≥ 2`) is a
paragraph followed by its break, free of quotation marks; `D` does not start with a newline; the
class table obeys its three laws; the url / e-mail / hostname lexers are in bounds, local to each
side and newline-free -/
structure ParagraphPair (cls : Cls) (P0 D : List Char) (k : Nat) (extP extD extPD : Ext) : Prop where
  cls_ok : ClsOK cls
  two : 2 ≤ k
  no_nl_end : NoNlEnd P0
  d_head : D.head? ≠ some '\n'
  no_quotes : NoQuoteChars (P0 ++ List.replicate k '\n')
  ext_local : ExtLocal extP extD extPD (P0 ++ List.replicate k '\n').length
  ext_ok_p : ExtOK extP (P0 ++ List.replicate k '\n').length
  ext_ok_d : ExtOK extD D.length
  ext_no_nl : ExtNoNl extP (P0 ++ List.replicate k '\n')

/-- **C12 for one rule that `Appends`, end to end**: lexer, condensing passes, piece iterator,
rule. The lints (or the panic) on `P ++ D` are those on `P` followed by those on `D` moved by `|P|`. -/
theorem separately_of_appends (r : PieceRule) (hr : Appends r) (cls : Cls) (P0 D : List Char) (k : Nat)
    (extP extD extPD : Ext) (h : ParagraphPair cls P0 D k extP extD extPD) :
    docRule cls extPD r ((P0 ++ List.replicate k '\n') ++ D) =
      joinE (P0 ++ List.replicate k '\n').length (docRule cls extP r (P0 ++ List.replicate k '\n')) (docRule cls extD r D) := by
  obtain ⟨A0, pb, td, hpb, eP, eD, ePD, hin⟩ :=
    document_append cls h.cls_ok P0 D k h.two h.no_nl_end h.d_head h.no_quotes extP extD extPD h.ext_local h.ext_ok_p
      h.ext_ok_d h.ext_no_nl
  have hokP := document_tokOK cls extP _ h.ext_ok_p _ eP
  have hokD := document_tokOK cls extD _ h.ext_ok_d _ eD
  generalize P0 ++ List.replicate k '\n' = P at *
  have hbk : pb.kind.isParagraphBreak = true := by rw [hpb]; rfl
  have ePD' : document cls extPD (P ++ D) = .ok ((A0 ++ [pb]) ++ shiftDoc P.length (A0 ++ [pb]).length td) := ePD
  simp only [docRule, eP, eD, ePD']
  exact hr P D A0 pb td hbk (fun t ht => ⟨hokP t ht, hin t ht⟩) hokD

theorem longSentences_paragraphs_separately (env : Env) (cls : Cls) (P0 D : List Char) (k : Nat)
    (extP extD extPD : Ext) (h : ParagraphPair cls P0 D k extP extD extPD) :
    docRule cls extPD (ruleLongSentences env) ((P0 ++ List.replicate k '\n') ++ D) =
      joinE (P0 ++ List.replicate k '\n').length (docRule cls extP (ruleLongSentences env) (P0 ++ List.replicate k '\n'))
        (docRule cls extD (ruleLongSentences env) D) :=
  separately_of_appends _ (longSentences_appends env) cls P0 D k extP extD extPD h

theorem currencyPlacement_paragraphs_separately (env : Env) (cls : Cls) (P0 D : List Char) (k : Nat)
    (extP extD extPD : Ext) (h : ParagraphPair cls P0 D k extP extD extPD) :
    docRule cls extPD (ruleCurrencyPlacement env) ((P0 ++ List.replicate k '\n') ++ D) =
      joinE (P0 ++ List.replicate k '\n').length (docRule cls extP (ruleCurrencyPlacement env) (P0 ++ List.replicate k '\n'))
        (docRule cls extD (ruleCurrencyPlacement env) D) :=
  separately_of_appends _ (currencyPlacement_appends env) cls P0 D k extP extD extPD h

theorem spaces_paragraphs_separately (env : Env) (cls : Cls) (P0 D : List Char) (k : Nat)
    (extP extD extPD : Ext) (h : ParagraphPair cls P0 D k extP extD extPD) :
    docRule cls extPD (ruleSpaces env) ((P0 ++ List.replicate k '\n') ++ D) =
      joinE (P0 ++ List.replicate k '\n').length (docRule cls extP (ruleSpaces env) (P0 ++ List.replicate k '\n'))
        (docRule cls extD (ruleSpaces env) D) :=
  separately_of_appends _ (spaces_appends env) cls P0 D k extP extD extPD h

theorem repeatedWords_paragraphs_separately (env : Env) (cls : Cls) (P0 D : List Char) (k : Nat)
    (extP extD extPD : Ext) (h : ParagraphPair cls P0 D k extP extD extPD) :
    docRule cls extPD (ruleRepeatedWords env) ((P0 ++ List.replicate k '\n') ++ D) =
      joinE (P0 ++ List.replicate k '\n').length (docRule cls extP (ruleRepeatedWords env) (P0 ++ List.replicate k '\n'))
        (docRule cls extD (ruleRepeatedWords env) D) :=
  separately_of_appends _ (repeatedWords_appends env) cls P0 D k extP extD extPD h

theorem ellipsisLength_paragraphs_separately (env : Env) (cls : Cls) (P0 D : List Char) (k : Nat)
    (extP extD extPD : Ext) (h : ParagraphPair cls P0 D k extP extD extPD) :
    docRule cls extPD (ruleEllipsisLength env) ((P0 ++ List.replicate k '\n') ++ D) =
      joinE (P0 ++ List.replicate k '\n').length (docRule cls extP (ruleEllipsisLength env) (P0 ++ List.replicate k '\n'))
        (docRule cls extD (ruleEllipsisLength env) D) :=
  separately_of_appends _ (ellipsisLength_appends env) cls P0 D k extP extD extPD h

theorem numberSuffixCapitalization_paragraphs_separately (env : Env) (cls : Cls) (P0 D : List Char) (k : Nat)
    (extP extD extPD : Ext) (h : ParagraphPair cls P0 D k extP extD extPD) :
    docRule cls extPD (ruleNumberSuffixCapitalization env) ((P0 ++ List.replicate k '\n') ++ D) =
      joinE (P0 ++ List.replicate k '\n').length
        (docRule cls extP (ruleNumberSuffixCapitalization env) (P0 ++ List.replicate k '\n'))
        (docRule cls extD (ruleNumberSuffixCapitalization env) D) :=
  separately_of_appends _ (numberSuffixCapitalization_appends env) cls P0 D k extP extD extPD h

theorem correctNumberSuffix_paragraphs_separately (env : Env) (cls : Cls) (P0 D : List Char) (k : Nat)
    (extP extD extPD : Ext) (h : ParagraphPair cls P0 D k extP extD extPD) :
    docRule cls extPD (ruleCorrectNumberSuffix env) ((P0 ++ List.replicate k '\n') ++ D) =
      joinE (P0 ++ List.replicate k '\n').length
        (docRule cls extP (ruleCorrectNumberSuffix env) (P0 ++ List.replicate k '\n'))
        (docRule cls extD (ruleCorrectNumberSuffix env) D) :=
  separately_of_appends _ (correctNumberSuffix_appends env) cls P0 D k extP extD extPD h

theorem modalOf_paragraphs_separately (env : Env) (cls : Cls) (P0 D : List Char) (k : Nat)
    (extP extD extPD : Ext) (h : ParagraphPair cls P0 D k extP extD extPD) :
    docRule cls extPD (ruleModalOf env) ((P0 ++ List.replicate k '\n') ++ D) =
      joinE (P0 ++ List.replicate k '\n').length (docRule cls extP (ruleModalOf env) (P0 ++ List.replicate k '\n'))
        (docRule cls extD (ruleModalOf env) D) :=
  separately_of_appends _ (modalOf_appends env) cls P0 D k extP extD extPD h

theorem anA_paragraphs_separately (env : Env) (cls : Cls) (P0 D : List Char) (k : Nat)
    (extP extD extPD : Ext) (h : ParagraphPair cls P0 D k extP extD extPD) :
    docRule cls extPD (ruleAnA env) ((P0 ++ List.replicate k '\n') ++ D) =
      joinE (P0 ++ List.replicate k '\n').length (docRule cls extP (ruleAnA env) (P0 ++ List.replicate k '\n'))
        (docRule cls extD (ruleAnA env) D) :=
  separately_of_appends _ (anA_appends env) cls P0 D k extP extD extPD h

theorem sentenceCapitalization_paragraphs_separately (env : Env) (cls : Cls) (P0 D : List Char) (k : Nat)
    (extP extD extPD : Ext) (h : ParagraphPair cls P0 D k extP extD extPD) :
    docRule cls extPD (ruleSentenceCapitalization env) ((P0 ++ List.replicate k '\n') ++ D) =
      joinE (P0 ++ List.replicate k '\n').length
        (docRule cls extP (ruleSentenceCapitalization env) (P0 ++ List.replicate k '\n'))
        (docRule cls extD (ruleSentenceCapitalization env) D) :=
  separately_of_appends _ (sentenceCapitalization_appends env) cls P0 D k extP extD extPD h

/-- **UnclosedQuotes is paragraph-local when `P` contains no quotation mark** (`ParagraphPair.no_quotes`,
the premise of C12): then no quote of `D` can find its twin in `P`, `match_quotes` pairs the quotes
of `D` among themselves exactly as it does for `D` alone, and an unpaired quote stays unpaired. -/
theorem unclosedQuotes_local_noquotes (env : Env) (cls : Cls) (P0 D : List Char) (k : Nat)
    (extP extD extPD : Ext) (h : ParagraphPair cls P0 D k extP extD extPD) :
    docRule cls extPD (ruleUnclosedQuotes env) ((P0 ++ List.replicate k '\n') ++ D) =
      joinE (P0 ++ List.replicate k '\n').length (docRule cls extP (ruleUnclosedQuotes env) (P0 ++ List.replicate k '\n'))
        (docRule cls extD (ruleUnclosedQuotes env) D) :=
  separately_of_appends _ (unclosedQuotes_appends env) cls P0 D k extP extD extPD h

/-! ## non-vacuity and counter-examples (kernel-evaluated) -/

open Harper.C02 (asciiCls)

/-- an `Env` for ASCII texts: a number's `to_string()` is its text, no word metadata -/
def env0 : Env where
  numStr := id
  numVal := fun _ => .nonInt
  wordFlags := fun _ => 0
  lower := fun c => [lowerAscii c]
  isLower := fun c => 'a' ≤ c && c ≤ 'z'
  isUpper := fun c => 'A' ≤ c && c ≤ 'Z'
  isAlpha := isAsciiAlpha
  isAlnum := isAsciiAlnum
  isWs := fun c => c == ' ' || c == '\t' || c == '\n'
  canonical := fun _ => none

def noExt : Ext := fun _ => none

/-- `ParagraphPair` is satisfiable: `It cost 4$.¶¶` + `a $ 20 the the` -/
example : ParagraphPair asciiCls ['I', 't', ' ', 'c', 'o', 's', 't', ' ', '4', '$', '.'] ['a', ' ', '$', ' ', '2', '0', ' ', 't', 'h', 'e', ' ', 't', 'h', 'e']
    2 noExt noExt noExt where
  cls_ok := ⟨by decide, by decide, by
    intro c h
    simp only [asciiCls, isAsciiDigit, Bool.and_eq_true, decide_eq_true_eq] at h
    refine ⟨?_, ?_, ?_⟩
    · simp only [isAsciiAlpha, Bool.or_eq_false_iff, Bool.and_eq_false_imp, decide_eq_true_eq, decide_eq_false_iff_not]
      constructor <;> intro h3 <;> intro h4
      · exact absurd (Char.le_trans h3 h.2) (by decide)
      · exact absurd (Char.le_trans h3 h.2) (by decide)
    · intro hc; subst hc; exact absurd h.1 (by decide)
    · intro hc; subst hc; exact absurd h.1 (by decide)⟩
  two := by decide
  no_nl_end := by decide
  d_head := by decide
  no_quotes := by decide
  ext_local := ⟨fun _ _ => rfl, fun _ => rfl⟩
  ext_ok_p := by intro _ _ _ h; cases h
  ext_ok_d := by intro _ _ _ h; cases h
  ext_no_nl := by intro _ _ _ h; cases h

/-- … and the conclusion computed on it: CurrencyPlacement and RepeatedWords report in BOTH paragraphs
(`4$` → `$4` at 8..10; `$ 20` → `$20` and `the the` → `the`, moved by 13) -/
example : docRule asciiCls noExt (ruleCurrencyPlacement env0)
      (['I', 't', ' ', 'c', 'o', 's', 't', ' ', '4', '$', '.', '\n', '\n'] ++ ['a', ' ', '$', ' ', '2', '0', ' ', 't', 'h', 'e', ' ', 't', 'h', 'e']) =
    .ok [⟨⟨8, 10⟩, [.replaceWith ['$', '4']], 2, 0⟩, ⟨⟨15, 19⟩, [.replaceWith ['$', '2', '0']], 2, 0⟩] := by decide

example : docRule asciiCls noExt (ruleRepeatedWords env0)
      (['I', 't', ' ', 'c', 'o', 's', 't', ' ', '4', '$', '.', '\n', '\n'] ++ ['a', ' ', '$', ' ', '2', '0', ' ', 't', 'h', 'e', ' ', 't', 'h', 'e']) =
    .ok [⟨⟨20, 27⟩, [.replaceWith ['t', 'h', 'e']], 5, 0⟩] := by decide

/-- **UnclosedQuotes is NOT paragraph-local when `P` contains a quotation mark**: `"a.¶¶` + `b"` —
together the two marks are twins and nothing is reported; separately each is unclosed -/
example : docRule asciiCls noExt (ruleUnclosedQuotes env0) (['"', 'a', '.', '\n', '\n'] ++ ['b', '"']) = .ok [] ∧
    docRule asciiCls noExt (ruleUnclosedQuotes env0) ['"', 'a', '.', '\n', '\n'] = .ok [⟨⟨0, 1⟩, [], 8, 0⟩] ∧
    docRule asciiCls noExt (ruleUnclosedQuotes env0) ['b', '"'] = .ok [⟨⟨1, 2⟩, [], 8, 0⟩] := by decide

/-- the tokens of `ab.¶¶` and of `$ 20` -/
def witP : List Tok := [⟨⟨0, 2⟩, .word⟩, ⟨⟨2, 3⟩, .punct .Period⟩, ⟨⟨3, 5⟩, .paragraphBreak⟩]
def witD : List Tok := [⟨⟨0, 1⟩, .punct .Currency⟩, ⟨⟨1, 2⟩, .space 1⟩, ⟨⟨2, 4⟩, .number 10 none⟩]

example : (document asciiCls noExt ['a', 'b', '.', '\n', '\n']).toOption = some witP ∧
    (document asciiCls noExt ['$', ' ', '2', '0']).toOption = some witD := by decide

/-- the seeded change `C12r2-currency-window-over-document`: with both windows sliding over
`document.tokens()`, the 4-token window `(¶¶, $, ␣, 20)` reports `$ 20` → `$20` at the start of the
second paragraph, which `$ 20` alone (three tokens, no window) never gets -/
example : ruleCurrencyPlacementWholeDoc env0 (['a', 'b', '.', '\n', '\n'] ++ ['$', ' ', '2', '0']) (witP ++ shiftDoc 5 3 witD) =
      .ok [⟨⟨5, 9⟩, [.replaceWith ['$', '2', '0']], 2, 0⟩] ∧
    ruleCurrencyPlacementWholeDoc env0 ['$', ' ', '2', '0'] witD = .ok [] ∧
    ruleCurrencyPlacementWholeDoc env0 ['a', 'b', '.', '\n', '\n'] witP = .ok [] := by decide

/-- hence the whole-document CurrencyPlacement does not commute with joining paragraphs … -/
example : ¬ Appends (ruleCurrencyPlacementWholeDoc env0) := by
  intro h
  have := h ['a', 'b', '.', '\n', '\n'] ['$', ' ', '2', '0'] [⟨⟨0, 2⟩, .word⟩, ⟨⟨2, 3⟩, .punct .Period⟩] ⟨⟨3, 5⟩, .paragraphBreak⟩ witD
    rfl (by decide) (by decide)
  revert this
  decide

/-- … and is NOT a chunk-local rule: its candidates are not `overPieces iterChunks f` for any
`XLocalE f` (for the real rule they are, with `f = currencyChunk env`: `currencyPlacement_xlocal`) -/
example : ¬ ∃ f : PieceRule, XLocalE f ∧ ∀ src toks, currencyChunk env0 src toks = overPieces iterChunks f src toks := by
  rintro ⟨f, hf, heq⟩
  have h := appends_chunks f hf ['a', 'b', '.', '\n', '\n'] ['$', ' ', '2', '0'] [⟨⟨0, 2⟩, .word⟩, ⟨⟨2, 3⟩, .punct .Period⟩]
    ⟨⟨3, 5⟩, .paragraphBreak⟩ witD rfl (by decide) (by decide)
  rw [← heq, ← heq, ← heq] at h
  revert h
  decide

/-! ## the modelled rules as `XLocal` rules of `Props/C12.lean` -/

/-- a lint as `Props/C12.lean` sees it: where it is and which message -/
def toPLint (l : RuleLint) : PLint := ⟨l.span, l.msg⟩

/-- a piece rule as an abstract `Rule` (on pieces of `tokOK` tokens — every piece of a document) -/
def asRule (r : PieceRule) : Rule := fun src piece =>
  if piece.all tokOK then
    match r src piece with
    | .ok ls => ls.map toPLint
    | .error _ => []
  else []

theorem asRule_xlocal (r : PieceRule) (hr : XLocalE r) : XLocal (asRule r) where
  nil := by intro src; simp [asRule, hr.nil]
  left := by
    intro P D piece hp
    simp only [asRule]
    split
    · rename_i hall
      rw [hr.left P D piece (fun t ht => ⟨List.all_eq_true.mp hall t ht, hp t ht⟩)]
    · rfl
  right := by
    intro P D piece j
    simp only [asRule]
    have hall : (shiftDoc P.length j piece).all tokOK = piece.all tokOK := by
      simp only [shiftDoc_eq_map, List.all_map]
      congr 1
      funext t
      simp
    rw [hall]
    split
    · rename_i hok
      rw [hr.right P D piece j (fun t ht => List.all_eq_true.mp hok t ht)]
      cases r D piece with
      | error e => rfl
      | ok ls => simp [Except.map, shiftRLs, shiftLints, toPLint, shiftRL, shiftSpan]
    · rfl

/-- e.g. `lint_append_sentences` of `Props/C12.lean` now applies to Spaces with no hypothesis left -/
theorem spaces_lint_append (P D : List Char) (A0 : List Tok) (brk : Tok) (hb : brk.kind.isParagraphBreak = true)
    (td tpd : List Tok) (hin : ∀ t ∈ A0 ++ [brk], t.span.stop ≤ P.length) (hdoc : DocAppend tpd (A0 ++ [brk]) td P.length) :
    lintBy iterSentences (asRule spacesPiece) (P ++ D) tpd =
      lintBy iterSentences (asRule spacesPiece) P (A0 ++ [brk]) ++
        shiftLints P.length (lintBy iterSentences (asRule spacesPiece) D td) :=
  lint_append_sentences _ (asRule_xlocal _ spaces_xlocal) P D A0 brk hb td tpd hin hdoc

/-- … and `lint_append_chunks` to RepeatedWords and to the candidates of CurrencyPlacement -/
theorem repeatedWords_lint_append (env : Env) (P D : List Char) (A0 : List Tok) (brk : Tok)
    (hb : brk.kind.isParagraphBreak = true) (td tpd : List Tok) (hin : ∀ t ∈ A0 ++ [brk], t.span.stop ≤ P.length)
    (hdoc : DocAppend tpd (A0 ++ [brk]) td P.length) :
    lintBy iterChunks (asRule (repeatedWordsPiece env)) (P ++ D) tpd =
      lintBy iterChunks (asRule (repeatedWordsPiece env)) P (A0 ++ [brk]) ++
        shiftLints P.length (lintBy iterChunks (asRule (repeatedWordsPiece env)) D td) :=
  lint_append_chunks _ (asRule_xlocal _ (repeatedWords_xlocal env)) P D A0 brk hb td tpd hin hdoc

/-! ## non-vacuity, continued; the `Consequently` clause; the modelled url / e-mail / hostname lexers -/

theorem clsOK_ascii : ClsOK asciiCls := ⟨by decide, by decide, by
  intro c h
  simp only [asciiCls, isAsciiDigit, Bool.and_eq_true, decide_eq_true_eq] at h
  refine ⟨?_, ?_, ?_⟩
  · simp only [isAsciiAlpha, Bool.or_eq_false_iff, Bool.and_eq_false_imp, decide_eq_true_eq, decide_eq_false_iff_not]
    constructor <;> intro h3 <;> intro h4
    · exact absurd (Char.le_trans h3 h.2) (by decide)
    · exact absurd (Char.le_trans h3 h.2) (by decide)
  · intro hc; subst hc; exact absurd h.1 (by decide)
  · intro hc; subst hc; exact absurd h.1 (by decide)⟩

/-- non-vacuity of `document_tokOK`: the document of `It cost 4$. 1st` -/
example : ∀ t ∈ [(⟨⟨0, 2⟩, .word⟩ : Tok), ⟨⟨2, 3⟩, .space 1⟩, ⟨⟨3, 7⟩, .word⟩, ⟨⟨7, 8⟩, .space 1⟩, ⟨⟨8, 9⟩, .number 10 none⟩,
      ⟨⟨9, 10⟩, .punct .Currency⟩, ⟨⟨10, 11⟩, .punct .Period⟩, ⟨⟨11, 12⟩, .space 1⟩, ⟨⟨12, 15⟩, .number 10 (some .st)⟩], tokOK t = true :=
  document_tokOK asciiCls noExt ['I', 't', ' ', 'c', 'o', 's', 't', ' ', '4', '$', '.', ' ', '1', 's', 't'] (fun _ _ _ h => by cases h) _ rfl

/-- with no url / e-mail / hostname token anywhere, `ParagraphPair` is four decidable conditions on the characters -/
theorem paragraphPair_noExt (cls : Cls) (hc : ClsOK cls) (P0 D : List Char) (k : Nat) (hk : 2 ≤ k) (hend : NoNlEnd P0)
    (hD : D.head? ≠ some '\n') (hq : NoQuoteChars (P0 ++ List.replicate k '\n')) :
    ParagraphPair cls P0 D k noExt noExt noExt where
  cls_ok := hc
  two := hk
  no_nl_end := hend
  d_head := hD
  no_quotes := hq
  ext_local := ⟨fun _ _ => rfl, fun _ => rfl⟩
  ext_ok_p := by intro _ _ _ h; cases h
  ext_ok_d := by intro _ _ _ h; cases h
  ext_no_nl := by intro _ _ _ h; cases h

/-- behind `P`, the table of the three MODELLED lexers (`Model/LexExt.lean`) for `P ++ D` is their table for `D` -/
theorem extOfSrc_behind (P D : List Char) (i : Nat) : extOfSrc (P ++ D) (P.length + i) = extOfSrc D i := by
  simp only [extOfSrc, List.drop_length_add_append]

/-- **`ParagraphPair` for the url / e-mail / hostname lexers AS MODELLED (`extOfSrc`: the tables computed from the
texts, not handed over), from conditions on the characters only — every one decidable** (the quantifiers are
bounded): inside `P` the three lexers find the same with and without `D` behind (`hloc`: false exactly for the
recorded finding `c12-lex-at-lookahead`, see below), and no token they find in `P` contains a newline (`hnl`).
`ExtOK` is `extOfSrc_ok`; the half of `ExtLocal` behind `P` is unconditional. -/
theorem paragraphPair_of_text (cls : Cls) (hc : ClsOK cls) (P0 D : List Char) (k : Nat) (hk : 2 ≤ k) (hend : NoNlEnd P0)
    (hD : D.head? ≠ some '\n') (hq : NoQuoteChars (P0 ++ List.replicate k '\n'))
    (hloc : ∀ pos, pos < (P0 ++ List.replicate k '\n').length →
      extOfSrc ((P0 ++ List.replicate k '\n') ++ D) pos = extOfSrc (P0 ++ List.replicate k '\n') pos)
    (hnl : ∀ pos, pos < (P0 ++ List.replicate k '\n').length → ∀ kn ∈ extOfSrc (P0 ++ List.replicate k '\n') pos,
      ∀ c ∈ ((P0 ++ List.replicate k '\n').drop pos).take kn.2, c ≠ '\n') :
    ParagraphPair cls P0 D k (extOfSrc (P0 ++ List.replicate k '\n')) (extOfSrc D)
      (extOfSrc ((P0 ++ List.replicate k '\n') ++ D)) where
  cls_ok := hc
  two := hk
  no_nl_end := hend
  d_head := hD
  no_quotes := hq
  ext_local := ⟨hloc, extOfSrc_behind _ D⟩
  ext_ok_p := extOfSrc_ok _
  ext_ok_d := extOfSrc_ok _
  ext_no_nl := by
    intro pos kd n h
    by_cases hp : pos < (P0 ++ List.replicate k '\n').length
    · exact hnl pos hp (kd, n) h
    · intro c hc
      rw [List.drop_eq_nil_of_le (by omega)] at hc
      simp at hc

/-- non-vacuity of `paragraphPair_of_text`: `It cost 4$, ask a@b.c now.¶¶` + `the the: 4$` — real words in both texts, an e-mail
address in `P` (so the table is not empty), a colon and no `@` in `D`; every condition is checked by evaluation -/
theorem paragraphPair_mail : ParagraphPair asciiCls ['I', 't', ' ', 'c', 'o', 's', 't', ' ', '4', '$', ',', ' ', 'a', 's', 'k', ' ', 'a', '@', 'b', '.', 'c', ' ', 'n', 'o', 'w', '.']
    ['t', 'h', 'e', ' ', 't', 'h', 'e', ':', ' ', '4', '$'] 2
    (extOfSrc (['I', 't', ' ', 'c', 'o', 's', 't', ' ', '4', '$', ',', ' ', 'a', 's', 'k', ' ', 'a', '@', 'b', '.', 'c', ' ', 'n', 'o', 'w', '.'] ++ List.replicate 2 '\n'))
    (extOfSrc ['t', 'h', 'e', ' ', 't', 'h', 'e', ':', ' ', '4', '$'])
    (extOfSrc ((['I', 't', ' ', 'c', 'o', 's', 't', ' ', '4', '$', ',', ' ', 'a', 's', 'k', ' ', 'a', '@', 'b', '.', 'c', ' ', 'n', 'o', 'w', '.'] ++ List.replicate 2 '\n') ++
      ['t', 'h', 'e', ' ', 't', 'h', 'e', ':', ' ', '4', '$'])) :=
  paragraphPair_of_text asciiCls clsOK_ascii _ _ 2 (by decide) (by decide) (by decide) (by decide) (by decide) (by decide)

/-- the table is not empty: the e-mail address at 16..21 -/
example : extOfSrc (['I', 't', ' ', 'c', 'o', 's', 't', ' ', '4', '$', ',', ' ', 'a', 's', 'k', ' ', 'a', '@', 'b', '.', 'c', ' ', 'n', 'o', 'w', '.'] ++ List.replicate 2 '\n') 16 = some (.email, 5) := by
  decide

/-- … and the conclusion of `currencyPlacement_paragraphs_separately` / `repeatedWords_paragraphs_separately` on it, computed
with the modelled lexers: lints in BOTH paragraphs (`4$` at 8..10; `the the` and `4$` behind, moved by 28) -/
example : docRule asciiCls (extOfSrc ((['I', 't', ' ', 'c', 'o', 's', 't', ' ', '4', '$', ',', ' ', 'a', 's', 'k', ' ', 'a', '@', 'b', '.', 'c', ' ', 'n', 'o', 'w', '.'] ++ List.replicate 2 '\n') ++ ['t', 'h', 'e', ' ', 't', 'h', 'e', ':', ' ', '4', '$']))
      (ruleCurrencyPlacement env0) ((['I', 't', ' ', 'c', 'o', 's', 't', ' ', '4', '$', ',', ' ', 'a', 's', 'k', ' ', 'a', '@', 'b', '.', 'c', ' ', 'n', 'o', 'w', '.'] ++ List.replicate 2 '\n') ++ ['t', 'h', 'e', ' ', 't', 'h', 'e', ':', ' ', '4', '$']) =
    .ok [⟨⟨8, 10⟩, [.replaceWith ['$', '4']], 2, 0⟩, ⟨⟨37, 39⟩, [.replaceWith ['$', '4']], 2, 0⟩] := by decide

example : docRule asciiCls (extOfSrc ((['I', 't', ' ', 'c', 'o', 's', 't', ' ', '4', '$', ',', ' ', 'a', 's', 'k', ' ', 'a', '@', 'b', '.', 'c', ' ', 'n', 'o', 'w', '.'] ++ List.replicate 2 '\n') ++ ['t', 'h', 'e', ' ', 't', 'h', 'e', ':', ' ', '4', '$']))
      (ruleRepeatedWords env0) ((['I', 't', ' ', 'c', 'o', 's', 't', ' ', '4', '$', ',', ' ', 'a', 's', 'k', ' ', 'a', '@', 'b', '.', 'c', ' ', 'n', 'o', 'w', '.'] ++ List.replicate 2 '\n') ++ ['t', 'h', 'e', ' ', 't', 'h', 'e', ':', ' ', '4', '$']) =
    .ok [⟨⟨28, 35⟩, [.replaceWith ['t', 'h', 'e']], 5, 0⟩] := by decide

/-- **`hloc` is what the recorded finding `c12-lex-at-lookahead` violates**, here with the lexers as modelled: with an
`@` in `D` (`Ping @x.`) `lex_email_address` takes the LAST `@` of the whole rest of the text, the address in `P` is no
longer found, and the document of the whole is not the two documents put together -/
example : ¬ (∀ pos, pos < (['I', 't', ' ', 'c', 'o', 's', 't', ' ', '4', '$', ',', ' ', 'a', 's', 'k', ' ', 'a', '@', 'b', '.', 'c', ' ', 'n', 'o', 'w', '.'] ++ List.replicate 2 '\n').length →
      extOfSrc ((['I', 't', ' ', 'c', 'o', 's', 't', ' ', '4', '$', ',', ' ', 'a', 's', 'k', ' ', 'a', '@', 'b', '.', 'c', ' ', 'n', 'o', 'w', '.'] ++ List.replicate 2 '\n') ++ ['P', 'i', 'n', 'g', ' ', '@', 'x', '.']) pos = extOfSrc (['I', 't', ' ', 'c', 'o', 's', 't', ' ', '4', '$', ',', ' ', 'a', 's', 'k', ' ', 'a', '@', 'b', '.', 'c', ' ', 'n', 'o', 'w', '.'] ++ List.replicate 2 '\n') pos) := by decide

example : extOfSrc ((['I', 't', ' ', 'c', 'o', 's', 't', ' ', '4', '$', ',', ' ', 'a', 's', 'k', ' ', 'a', '@', 'b', '.', 'c', ' ', 'n', 'o', 'w', '.'] ++ List.replicate 2 '\n') ++ ['P', 'i', 'n', 'g', ' ', '@', 'x', '.']) 16 = none := by decide

example : (document asciiCls (extOfSrc ((['I', 't', ' ', 'c', 'o', 's', 't', ' ', '4', '$', ',', ' ', 'a', 's', 'k', ' ', 'a', '@', 'b', '.', 'c', ' ', 'n', 'o', 'w', '.'] ++ List.replicate 2 '\n') ++ ['P', 'i', 'n', 'g', ' ', '@', 'x', '.'])) ((['I', 't', ' ', 'c', 'o', 's', 't', ' ', '4', '$', ',', ' ', 'a', 's', 'k', ' ', 'a', '@', 'b', '.', 'c', ' ', 'n', 'o', 'w', '.'] ++ List.replicate 2 '\n') ++ ['P', 'i', 'n', 'g', ' ', '@', 'x', '.'])).toOption ≠
    (do let tp ← (document asciiCls (extOfSrc (['I', 't', ' ', 'c', 'o', 's', 't', ' ', '4', '$', ',', ' ', 'a', 's', 'k', ' ', 'a', '@', 'b', '.', 'c', ' ', 'n', 'o', 'w', '.'] ++ List.replicate 2 '\n')) (['I', 't', ' ', 'c', 'o', 's', 't', ' ', '4', '$', ',', ' ', 'a', 's', 'k', ' ', 'a', '@', 'b', '.', 'c', ' ', 'n', 'o', 'w', '.'] ++ List.replicate 2 '\n')).toOption
        let td ← (document asciiCls (extOfSrc ['P', 'i', 'n', 'g', ' ', '@', 'x', '.']) ['P', 'i', 'n', 'g', ' ', '@', 'x', '.']).toOption
        pure (tp ++ shiftDoc 28 tp.length td)) := by decide

/-! ### "editing one paragraph never changes, moves or hides a lint in another paragraph" -/

/-- **The second sentence of C12 for every rule that `Appends`** (the eleven rules above; every `MapPhraseLinter` and
`ProperNounCapitalizationLinter` of `Props/C12c.lean`): two texts with the same continuation `D` behind different first
paragraphs report the SAME lints `ld` for `D` — those of `D` checked alone — moved by `|P|` resp. `|P'|`: none changed,
none hidden, none added. (With a panic on either side: `separately_of_appends`.) -/
theorem edit_first_paragraph_rule (r : PieceRule) (hr : Appends r) (cls : Cls) (P0 P0' D : List Char) (k k' : Nat)
    (extP extP' extD extPD extPD' : Ext) (h : ParagraphPair cls P0 D k extP extD extPD)
    (h' : ParagraphPair cls P0' D k' extP' extD extPD') (lp lp' ld : List RuleLint)
    (eP : docRule cls extP r (P0 ++ List.replicate k '\n') = .ok lp)
    (eP' : docRule cls extP' r (P0' ++ List.replicate k' '\n') = .ok lp')
    (eD : docRule cls extD r D = .ok ld) :
    docRule cls extPD r ((P0 ++ List.replicate k '\n') ++ D) = .ok (lp ++ shiftRLs (P0 ++ List.replicate k '\n').length ld) ∧
    docRule cls extPD' r ((P0' ++ List.replicate k' '\n') ++ D) = .ok (lp' ++ shiftRLs (P0' ++ List.replicate k' '\n').length ld) := by
  rw [separately_of_appends r hr cls P0 D k extP extD extPD h, separately_of_appends r hr cls P0' D k' extP' extD extPD' h', eP, eP', eD]
  exact ⟨rfl, rfl⟩

/-- … and changing the text AFTER the paragraph break changes no lint of the first paragraph, not even its place -/
theorem edit_later_text_rule (r : PieceRule) (hr : Appends r) (cls : Cls) (P0 D D' : List Char) (k : Nat)
    (extP extD extD' extPD extPD' : Ext) (h : ParagraphPair cls P0 D k extP extD extPD)
    (h' : ParagraphPair cls P0 D' k extP extD' extPD') (lp ld ld' : List RuleLint)
    (eP : docRule cls extP r (P0 ++ List.replicate k '\n') = .ok lp)
    (eD : docRule cls extD r D = .ok ld) (eD' : docRule cls extD' r D' = .ok ld') :
    docRule cls extPD r ((P0 ++ List.replicate k '\n') ++ D) = .ok (lp ++ shiftRLs (P0 ++ List.replicate k '\n').length ld) ∧
    docRule cls extPD' r ((P0 ++ List.replicate k '\n') ++ D') = .ok (lp ++ shiftRLs (P0 ++ List.replicate k '\n').length ld') := by
  rw [separately_of_appends r hr cls P0 D k extP extD extPD h, separately_of_appends r hr cls P0 D' k extP extD' extPD' h', eP, eD, eD']
  exact ⟨rfl, rfl⟩

/-- a second first paragraph in front of the same `D`: `Pay 5$.¶¶` -/
theorem paragraphPair_pay : ParagraphPair asciiCls ['P', 'a', 'y', ' ', '5', '$', '.']
    ['t', 'h', 'e', ' ', 't', 'h', 'e', ':', ' ', '4', '$'] 2
    (extOfSrc (['P', 'a', 'y', ' ', '5', '$', '.'] ++ List.replicate 2 '\n'))
    (extOfSrc ['t', 'h', 'e', ' ', 't', 'h', 'e', ':', ' ', '4', '$'])
    (extOfSrc ((['P', 'a', 'y', ' ', '5', '$', '.'] ++ List.replicate 2 '\n') ++ ['t', 'h', 'e', ' ', 't', 'h', 'e', ':', ' ', '4', '$'])) :=
  paragraphPair_of_text asciiCls clsOK_ascii _ _ 2 (by decide) (by decide) (by decide) (by decide) (by decide) (by decide)

/-- non-vacuity of `edit_first_paragraph_rule` (CurrencyPlacement, the modelled lexers): the first paragraph
`It cost 4$, ask a@b.c now.¶¶` edited to `Pay 5$.¶¶`; the lint `4$` of `the the: 4$` is reported at 37..39 before
and at 18..20 after — same lint, moved by the change of length -/
example : docRule asciiCls (extOfSrc ((['I', 't', ' ', 'c', 'o', 's', 't', ' ', '4', '$', ',', ' ', 'a', 's', 'k', ' ', 'a', '@', 'b', '.', 'c', ' ', 'n', 'o', 'w', '.'] ++ List.replicate 2 '\n') ++ ['t', 'h', 'e', ' ', 't', 'h', 'e', ':', ' ', '4', '$'])) (ruleCurrencyPlacement env0)
      ((['I', 't', ' ', 'c', 'o', 's', 't', ' ', '4', '$', ',', ' ', 'a', 's', 'k', ' ', 'a', '@', 'b', '.', 'c', ' ', 'n', 'o', 'w', '.'] ++ List.replicate 2 '\n') ++ ['t', 'h', 'e', ' ', 't', 'h', 'e', ':', ' ', '4', '$']) =
      .ok ([⟨⟨8, 10⟩, [.replaceWith ['$', '4']], 2, 0⟩] ++ shiftRLs (['I', 't', ' ', 'c', 'o', 's', 't', ' ', '4', '$', ',', ' ', 'a', 's', 'k', ' ', 'a', '@', 'b', '.', 'c', ' ', 'n', 'o', 'w', '.'] ++ List.replicate 2 '\n').length [⟨⟨9, 11⟩, [.replaceWith ['$', '4']], 2, 0⟩]) ∧
    docRule asciiCls (extOfSrc ((['P', 'a', 'y', ' ', '5', '$', '.'] ++ List.replicate 2 '\n') ++ ['t', 'h', 'e', ' ', 't', 'h', 'e', ':', ' ', '4', '$'])) (ruleCurrencyPlacement env0)
      ((['P', 'a', 'y', ' ', '5', '$', '.'] ++ List.replicate 2 '\n') ++ ['t', 'h', 'e', ' ', 't', 'h', 'e', ':', ' ', '4', '$']) =
      .ok ([⟨⟨4, 6⟩, [.replaceWith ['$', '5']], 2, 0⟩] ++ shiftRLs (['P', 'a', 'y', ' ', '5', '$', '.'] ++ List.replicate 2 '\n').length [⟨⟨9, 11⟩, [.replaceWith ['$', '4']], 2, 0⟩]) :=
  edit_first_paragraph_rule _ (currencyPlacement_appends env0) asciiCls _ _ _ 2 2 _ _ _ _ _ paragraphPair_mail paragraphPair_pay
    _ _ _ (by decide) (by decide) (by decide)

/-- non-vacuity of `edit_later_text_rule`: `the the: 4$` edited to `Ping`: the lint of the first paragraph stays at 8..10 -/
example : docRule asciiCls (extOfSrc ((['I', 't', ' ', 'c', 'o', 's', 't', ' ', '4', '$', ',', ' ', 'a', 's', 'k', ' ', 'a', '@', 'b', '.', 'c', ' ', 'n', 'o', 'w', '.'] ++ List.replicate 2 '\n') ++ ['t', 'h', 'e', ' ', 't', 'h', 'e', ':', ' ', '4', '$'])) (ruleCurrencyPlacement env0)
      ((['I', 't', ' ', 'c', 'o', 's', 't', ' ', '4', '$', ',', ' ', 'a', 's', 'k', ' ', 'a', '@', 'b', '.', 'c', ' ', 'n', 'o', 'w', '.'] ++ List.replicate 2 '\n') ++ ['t', 'h', 'e', ' ', 't', 'h', 'e', ':', ' ', '4', '$']) =
      .ok ([⟨⟨8, 10⟩, [.replaceWith ['$', '4']], 2, 0⟩] ++ shiftRLs (['I', 't', ' ', 'c', 'o', 's', 't', ' ', '4', '$', ',', ' ', 'a', 's', 'k', ' ', 'a', '@', 'b', '.', 'c', ' ', 'n', 'o', 'w', '.'] ++ List.replicate 2 '\n').length [⟨⟨9, 11⟩, [.replaceWith ['$', '4']], 2, 0⟩]) ∧
    docRule asciiCls (extOfSrc ((['I', 't', ' ', 'c', 'o', 's', 't', ' ', '4', '$', ',', ' ', 'a', 's', 'k', ' ', 'a', '@', 'b', '.', 'c', ' ', 'n', 'o', 'w', '.'] ++ List.replicate 2 '\n') ++ ['P', 'i', 'n', 'g'])) (ruleCurrencyPlacement env0)
      ((['I', 't', ' ', 'c', 'o', 's', 't', ' ', '4', '$', ',', ' ', 'a', 's', 'k', ' ', 'a', '@', 'b', '.', 'c', ' ', 'n', 'o', 'w', '.'] ++ List.replicate 2 '\n') ++ ['P', 'i', 'n', 'g']) =
      .ok ([⟨⟨8, 10⟩, [.replaceWith ['$', '4']], 2, 0⟩] ++ shiftRLs (['I', 't', ' ', 'c', 'o', 's', 't', ' ', '4', '$', ',', ' ', 'a', 's', 'k', ' ', 'a', '@', 'b', '.', 'c', ' ', 'n', 'o', 'w', '.'] ++ List.replicate 2 '\n').length []) :=
  edit_later_text_rule _ (currencyPlacement_appends env0) asciiCls _ _ _ 2 _ _ _ _ _ paragraphPair_mail
    (paragraphPair_of_text asciiCls clsOK_ascii _ _ 2 (by decide) (by decide) (by decide) (by decide) (by decide) (by decide))
    _ _ _ (by decide) (by decide) (by decide)

/-- non-vacuity of `spaces_lint_append` / `repeatedWords_lint_append`: the documents of `a  b.¶¶` and `c c` -/
example : lintBy iterSentences (asRule spacesPiece) (['a', ' ', ' ', 'b', '.', '\n', '\n'] ++ ['c', ' ', 'c'])
      (([⟨⟨0, 1⟩, .word⟩, ⟨⟨1, 3⟩, .space 2⟩, ⟨⟨3, 4⟩, .word⟩, ⟨⟨4, 5⟩, .punct .Period⟩] ++ [⟨⟨5, 7⟩, .paragraphBreak⟩]) ++
        shiftDoc 7 5 [⟨⟨0, 1⟩, .word⟩, ⟨⟨1, 2⟩, .space 1⟩, ⟨⟨2, 3⟩, .word⟩]) =
    lintBy iterSentences (asRule spacesPiece) ['a', ' ', ' ', 'b', '.', '\n', '\n']
        ([⟨⟨0, 1⟩, .word⟩, ⟨⟨1, 3⟩, .space 2⟩, ⟨⟨3, 4⟩, .word⟩, ⟨⟨4, 5⟩, .punct .Period⟩] ++ [⟨⟨5, 7⟩, .paragraphBreak⟩]) ++
      shiftLints 7 (lintBy iterSentences (asRule spacesPiece) ['c', ' ', 'c'] [⟨⟨0, 1⟩, .word⟩, ⟨⟨1, 2⟩, .space 1⟩, ⟨⟨2, 3⟩, .word⟩]) :=
  spaces_lint_append _ _ _ ⟨⟨5, 7⟩, .paragraphBreak⟩ rfl _ _ (by decide) rfl

example : lintBy iterChunks (asRule (repeatedWordsPiece env0)) (['a', ' ', ' ', 'b', '.', '\n', '\n'] ++ ['c', ' ', 'c'])
      (([⟨⟨0, 1⟩, .word⟩, ⟨⟨1, 3⟩, .space 2⟩, ⟨⟨3, 4⟩, .word⟩, ⟨⟨4, 5⟩, .punct .Period⟩] ++ [⟨⟨5, 7⟩, .paragraphBreak⟩]) ++
        shiftDoc 7 5 [⟨⟨0, 1⟩, .word⟩, ⟨⟨1, 2⟩, .space 1⟩, ⟨⟨2, 3⟩, .word⟩]) =
    lintBy iterChunks (asRule (repeatedWordsPiece env0)) ['a', ' ', ' ', 'b', '.', '\n', '\n']
        ([⟨⟨0, 1⟩, .word⟩, ⟨⟨1, 3⟩, .space 2⟩, ⟨⟨3, 4⟩, .word⟩, ⟨⟨4, 5⟩, .punct .Period⟩] ++ [⟨⟨5, 7⟩, .paragraphBreak⟩]) ++
      shiftLints 7 (lintBy iterChunks (asRule (repeatedWordsPiece env0)) ['c', ' ', 'c'] [⟨⟨0, 1⟩, .word⟩, ⟨⟨1, 2⟩, .space 1⟩, ⟨⟨2, 3⟩, .word⟩]) :=
  repeatedWords_lint_append env0 _ _ _ ⟨⟨5, 7⟩, .paragraphBreak⟩ rfl _ _ (by decide) rfl

/-- … and the lints they speak about: the double blank at 1..3 (Spaces), `c c` at 7..10 (RepeatedWords) -/
example : lintBy iterSentences (asRule spacesPiece) (['a', ' ', ' ', 'b', '.', '\n', '\n'] ++ ['c', ' ', 'c'])
      (([⟨⟨0, 1⟩, .word⟩, ⟨⟨1, 3⟩, .space 2⟩, ⟨⟨3, 4⟩, .word⟩, ⟨⟨4, 5⟩, .punct .Period⟩] ++ [⟨⟨5, 7⟩, .paragraphBreak⟩]) ++
        shiftDoc 7 5 [⟨⟨0, 1⟩, .word⟩, ⟨⟨1, 2⟩, .space 1⟩, ⟨⟨2, 3⟩, .word⟩]) = [⟨⟨1, 3⟩, 3⟩] ∧
    lintBy iterChunks (asRule (repeatedWordsPiece env0)) (['a', ' ', ' ', 'b', '.', '\n', '\n'] ++ ['c', ' ', 'c'])
      (([⟨⟨0, 1⟩, .word⟩, ⟨⟨1, 3⟩, .space 2⟩, ⟨⟨3, 4⟩, .word⟩, ⟨⟨4, 5⟩, .punct .Period⟩] ++ [⟨⟨5, 7⟩, .paragraphBreak⟩]) ++
        shiftDoc 7 5 [⟨⟨0, 1⟩, .word⟩, ⟨⟨1, 2⟩, .space 1⟩, ⟨⟨2, 3⟩, .word⟩]) = [⟨⟨7, 10⟩, 5⟩] := by decide

/-! ## the modelled url / e-mail / hostname lexers do not look past the newline that ends `P` — unless `D` contains `@` -/

theorem position_append_some (p : Char → Bool) (a t : List Char) (i : Nat) (h : position p a = some i) :
    position p (a ++ t) = some i := by
  induction a generalizing i with
  | nil => simp [position] at h
  | cons c a ih =>
    simp only [List.cons_append, position] at h ⊢
    split
    · rename_i hc; simpa [hc] using h
    · rename_i hc
      simp only [hc] at h
      cases hp : position p a with
      | none => simp [hp] at h
      | some j => rw [ih j hp]; simpa [hp] using h

theorem position_append_none (p : Char → Bool) (a t : List Char) (h : position p a = none) :
    position p (a ++ t) = (position p t).map (· + a.length) := by
  induction a with
  | nil => simp
  | cons c a ih =>
    simp only [List.cons_append, position] at h ⊢
    split
    · rename_i hc; simp [hc] at h
    · rename_i hc
      simp only [hc] at h
      cases hp : position p a with
      | some j => simp [hp] at h
      | none =>
        rw [ih hp]
        cases position p t <;> simp
        omega

theorem position_none_iff (p : Char → Bool) (l : List Char) : position p l = none ↔ ∀ c ∈ l, p c = false := by
  induction l with
  | nil => simp [position]
  | cons c l ih =>
    simp only [position, List.mem_cons, forall_eq_or_imp]
    split
    · rename_i hc; simp [hc]
    · rename_i hc
      simp only [Option.map_eq_none_iff, ih, hc]
      simp

theorem position_spec (p : Char → Bool) (l : List Char) (i : Nat) (h : position p l = some i) :
    ∃ c, l[i]? = some c ∧ p c = true ∧ ∀ d ∈ l.take i, p d = false := by
  induction l generalizing i with
  | nil => simp [position] at h
  | cons c l ih =>
    simp only [position] at h
    split at h
    · rename_i hc; cases h; exact ⟨c, rfl, hc, by simp⟩
    · rename_i hc
      cases hp : position p l with
      | none => simp [hp] at h
      | some j =>
        simp [hp] at h
        subst h
        obtain ⟨d, h1, h2, h3⟩ := ih j hp
        refine ⟨d, by simpa using h1, h2, ?_⟩
        intro e he
        simp only [List.take_succ_cons, List.mem_cons] at he
        rcases he with rfl | he
        · simpa using hc
        · exact h3 e he

/-! ### the first `|a| + 1` characters -/

theorem getElem?_nl (a D : List Char) (i : Nat) (h : i ≤ a.length) : (a ++ '\n' :: D)[i]? = (a ++ ['\n'])[i]? := by
  by_cases hi : i < a.length
  · rw [List.getElem?_append_left hi, List.getElem?_append_left hi]
  · have : i = a.length := by omega
    subst this
    simp

theorem take_nl (a D : List Char) (i : Nat) (h : i ≤ a.length + 1) : (a ++ '\n' :: D).take i = (a ++ ['\n']).take i := by
  by_cases hi : i ≤ a.length
  · rw [List.take_append_of_le_length hi, List.take_append_of_le_length hi]
  · have : i = a.length + 1 := by omega
    subst this
    rw [show a ++ '\n' :: D = (a ++ ['\n']) ++ D by simp]
    rw [List.take_append_of_le_length (by simp)]

/-! ### `lex_hostname` -/

theorem nl_not_dot : ('\n' == '.') = false := by decide
theorem nl_not_host : isHostChar '\n' = false := by decide

theorem hostnameLoop_nl (D a : List Char) (passed : Nat) :
    hostnameLoop passed (a ++ '\n' :: D) = hostnameLoop passed (a ++ ['\n']) := by
  induction a generalizing passed with
  | nil => simp [hostnameLoop, nl_not_dot, nl_not_host]
  | cons c a ih =>
    simp only [List.cons_append, hostnameLoop]
    split
    · exact ih _
    · split
      · exact ih _
      · rfl

theorem hostnameLoop_nl_le (t a : List Char) (passed : Nat) : hostnameLoop passed (a ++ '\n' :: t) ≤ passed + a.length := by
  induction a generalizing passed with
  | nil => simp [hostnameLoop, nl_not_dot, nl_not_host]
  | cons c a ih =>
    simp only [List.cons_append, hostnameLoop, List.length_cons]
    split
    · have := ih (passed + 1); omega
    · split
      · have := ih (passed + 1); omega
      · omega

theorem lexHostname_nl (D a : List Char) : lexHostname (a ++ '\n' :: D) = lexHostname (a ++ ['\n']) := by
  cases a with
  | nil => rfl
  | cons c a =>
    simp only [lexHostname, List.cons_append]
    split
    · rfl
    · have := hostnameLoop_nl D (c :: a) 0
      simp only [List.cons_append] at this
      rw [this]

theorem lexHostname_nl_le (t a : List Char) (n : Nat) (h : lexHostname (a ++ '\n' :: t) = some n) : n ≤ a.length := by
  cases a with
  | nil => simp [lexHostname, isAsciiAlnum, isAsciiDigit, isAsciiAlpha] at h
  | cons c a =>
    simp only [lexHostname, List.cons_append] at h
    split at h
    · cases h
    · cases h
      have := hostnameLoop_nl_le t (c :: a) 0
      simpa using this

theorem lexHostnameToken_nl (D a : List Char) : lexHostnameToken (a ++ '\n' :: D) = lexHostnameToken (a ++ ['\n']) := by
  unfold lexHostnameToken
  rw [lexHostname_nl D a]
  cases h : lexHostname (a ++ ['\n']) with
  | none => rfl
  | some len =>
    have hle : len ≤ a.length := lexHostname_nl_le [] a len h
    simp only
    split
    · rfl
    · have f1 : ¬ (a ++ '\n' :: D).length < len - 1 := by
        simp only [List.length_append, List.length_cons]; omega
      have f2 : ¬ (a ++ ['\n']).length < len - 1 := by
        simp only [List.length_append, List.length_cons]; omega
      rw [if_neg f1, if_neg f2, take_nl a D (len - 1) (by omega), getElem?_nl a D (len - 1) (by omega)]

/-! ### `lex_email_address` -/

theorem lastPosition_none (p : Char → Bool) (t : List Char) (ht : ∀ c ∈ t, p c = false) : lastPosition p t = none := by
  induction t with
  | nil => rfl
  | cons c t ih =>
    simp only [List.mem_cons, forall_eq_or_imp] at ht
    simp only [lastPosition, ih ht.2, ht.1]
    simp

theorem lastPosition_append_none (p : Char → Bool) (a t : List Char) (ht : ∀ c ∈ t, p c = false) :
    lastPosition p (a ++ t) = lastPosition p a := by
  induction a with
  | nil => simp [lastPosition_none p t ht, lastPosition]
  | cons c a ih => simp only [List.cons_append, lastPosition, ih]

theorem at_not_in_nl_cons (D : List Char) (hD : ∀ c ∈ D, c ≠ '@') : ∀ c ∈ '\n' :: D, (c == '@') = false := by
  intro c hc
  simp only [List.mem_cons] at hc
  rcases hc with rfl | hc
  · decide
  · simpa using hD c hc

theorem lexEmailAddress_nl (D a : List Char) (hD : ∀ c ∈ D, c ≠ '@') :
    lexEmailAddress (a ++ '\n' :: D) = lexEmailAddress (a ++ ['\n']) := by
  unfold lexEmailAddress
  rw [lastPosition_append_none _ a ('\n' :: D) (at_not_in_nl_cons D hD),
    lastPosition_append_none _ a ['\n'] (at_not_in_nl_cons [] (by simp))]
  cases h : lastPosition (fun x => x == '@') a with
  | none => rfl
  | some atLoc =>
    have hlt := lastPosition_lt _ a atLoc h
    simp only
    rw [List.take_append_of_le_length (by omega), List.take_append_of_le_length (by omega),
      List.drop_append_of_le_length (by omega), List.drop_append_of_le_length (by omega), lexHostname_nl D]

/-! ### `lex_url` -/

theorem nl_not_xchar : (isReserved '\n' || isUnreserved '\n') = false := by decide
theorem nl_not_hex : isAsciiHex '\n' = false := by decide

theorem xchar_cons (c : Char) (cs : List Char) : lexXcharString (c :: cs) =
    if isReserved c || isUnreserved c then lexXcharString cs + 1
    else match cs with
      | h1 :: h2 :: r => if c == '%' && isAsciiHex h1 && isAsciiHex h2 then lexXcharString r + 3 else 0
      | _ => 0 := by
  cases cs with
  | nil => rfl
  | cons h1 t =>
    cases t with
    | nil => rfl
    | cons h2 r => rfl

theorem xchar_nl (t : List Char) : lexXcharString ('\n' :: t) = 0 := by
  rw [xchar_cons, nl_not_xchar]
  have : ('\n' == '%') = false := by decide
  simp only [this, Bool.false_and, Bool.false_eq_true, if_false]
  split <;> rfl

theorem lexXcharString_nl_aux (D : List Char) : ∀ (n : Nat) (b : List Char), b.length ≤ n →
    lexXcharString (b ++ '\n' :: D) = lexXcharString (b ++ ['\n']) ∧ lexXcharString (b ++ ['\n']) ≤ b.length := by
  intro n
  induction n with
  | zero =>
    intro b hb
    have : b = [] := List.eq_nil_of_length_eq_zero (by omega)
    subst this
    rw [List.nil_append, List.nil_append, xchar_nl, xchar_nl]
    exact ⟨rfl, Nat.le_refl _⟩
  | succ n ih =>
    intro b hb
    cases b with
    | nil => exact ih [] (by simp)
    | cons c b =>
      simp only [List.length_cons] at hb
      simp only [List.cons_append, List.length_cons]
      rw [xchar_cons c (b ++ '\n' :: D), xchar_cons c (b ++ ['\n'])]
      split
      · obtain ⟨e, l⟩ := ih b (by omega)
        exact ⟨by rw [e], by omega⟩
      · cases b with
        | nil =>
          cases D with
          | nil => exact ⟨rfl, Nat.zero_le _⟩
          | cons h2 r =>
            simp only [List.nil_append, nl_not_hex, Bool.and_false, Bool.false_and, Bool.false_eq_true, if_false]
            exact ⟨trivial, Nat.zero_le _⟩
        | cons h1 b =>
          cases b with
          | nil =>
            simp only [List.nil_append, List.cons_append, nl_not_hex, Bool.and_false, Bool.false_eq_true, if_false]
            exact ⟨trivial, Nat.zero_le _⟩
          | cons h2 r =>
            simp only [List.cons_append, List.length_cons] at hb ⊢
            obtain ⟨e, l⟩ := ih r (by omega)
            split
            · exact ⟨by rw [e], by omega⟩
            · exact ⟨rfl, by omega⟩

theorem lexXcharString_nl (D b : List Char) : lexXcharString (b ++ '\n' :: D) = lexXcharString (b ++ ['\n']) :=
  (lexXcharString_nl_aux D b.length b (Nat.le_refl _)).1

theorem lexXcharString_nl_le (b : List Char) : lexXcharString (b ++ ['\n']) ≤ b.length :=
  (lexXcharString_nl_aux [] b.length b (Nat.le_refl _)).2

theorem pathLoop_nl (D : List Char) : ∀ (fuel : Nat) (b : List Char),
    pathLoop fuel (b ++ '\n' :: D) = pathLoop fuel (b ++ ['\n']) := by
  intro fuel
  induction fuel with
  | zero => intro b; rfl
  | succ fuel ih =>
    intro b
    cases b with
    | nil => rfl
    | cons c b =>
      simp only [List.cons_append, pathLoop]
      split
      · rfl
      · rw [lexXcharString_nl D b]
        split
        · rfl
        · rw [List.drop_append_of_le_length (lexXcharString_nl_le b), List.drop_append_of_le_length (lexXcharString_nl_le b), ih]

theorem position_nl (p : Char → Bool) (hp : p '\n' = true) (b D : List Char) :
    position p (b ++ '\n' :: D) = position p (b ++ ['\n']) ∧ ∃ i, position p (b ++ ['\n']) = some i ∧ i ≤ b.length := by
  cases h : position p b with
  | some i =>
    rw [position_append_some p b _ i h, position_append_some p b _ i h]
    exact ⟨rfl, i, rfl, Nat.le_of_lt (position_lt p b i h)⟩
  | none =>
    rw [position_append_none p b _ h, position_append_none p b _ h]
    simp [position, hp]

theorem nl_not_digit : (!isAsciiDigit '\n') = true := by decide

theorem lexHostport_nl (D b : List Char) : lexHostport (b ++ '\n' :: D) = lexHostport (b ++ ['\n']) ∧
    ∀ n, lexHostport (b ++ ['\n']) = some n → n ≤ b.length := by
  unfold lexHostport
  rw [lexHostname_nl D b]
  cases h : lexHostname (b ++ ['\n']) with
  | none => exact ⟨rfl, fun _ h => by cases h⟩
  | some he =>
    have hle : he ≤ b.length := lexHostname_nl_le [] b he h
    simp only
    rw [getElem?_nl b D he hle]
    obtain ⟨e, i, hi, hil⟩ := position_nl (fun c => !isAsciiDigit c) nl_not_digit b D
    split
    · rw [e, hi]
      refine ⟨rfl, ?_⟩
      intro n hn
      simp only [Option.getD_some, Option.some.injEq] at hn
      omega
    · refine ⟨rfl, ?_⟩
      intro n hn
      cases hn
      exact hle

theorem position_at_nl (r D : List Char) (hD : ∀ c ∈ D, c ≠ '@') :
    (∃ i, i < r.length ∧ position (· == '@') r = some i ∧ position (· == '@') (r ++ '\n' :: D) = some i ∧
      position (· == '@') (r ++ ['\n']) = some i) ∨
    (position (· == '@') (r ++ '\n' :: D) = none ∧ position (· == '@') (r ++ ['\n']) = none) := by
  cases h : position (· == '@') r with
  | some i =>
    exact Or.inl ⟨i, position_lt _ r i h, rfl, position_append_some _ r _ i h, position_append_some _ r _ i h⟩
  | none =>
    right
    rw [position_append_none _ r _ h, position_append_none _ r _ h,
      (position_none_iff _ ('\n' :: D)).mpr (at_not_in_nl_cons D hD),
      (position_none_iff _ ['\n']).mpr (at_not_in_nl_cons [] (by simp))]
    exact ⟨rfl, rfl⟩

theorem loginHostportStart_nl (D r : List Char) (hD : ∀ c ∈ D, c ≠ '@') :
    loginHostportStart (r ++ '\n' :: D) = loginHostportStart (r ++ ['\n']) ∧
    ∀ hs, loginHostportStart (r ++ ['\n']) = some hs → hs ≤ r.length := by
  unfold loginHostportStart
  rcases position_at_nl r D hD with ⟨i, hi, _, e1, e2⟩ | ⟨e1, e2⟩
  · rw [e1, e2]
    simp only
    rw [List.take_append_of_le_length (by omega), List.take_append_of_le_length (by omega)]
    refine ⟨rfl, ?_⟩
    intro hs h
    split at h
    · cases h
    · split at h
      · cases h
      · cases h; omega
  · rw [e1, e2]
    exact ⟨rfl, fun hs h => by cases h; omega⟩

theorem lexLogin_nl (D r : List Char) (hD : ∀ c ∈ D, c ≠ '@') :
    lexLogin (r ++ '\n' :: D) = lexLogin (r ++ ['\n']) ∧ ∀ n, lexLogin (r ++ ['\n']) = some n → n ≤ r.length := by
  unfold lexLogin
  obtain ⟨e, hb⟩ := loginHostportStart_nl D r hD
  rw [e]
  cases h : loginHostportStart (r ++ ['\n']) with
  | none => exact ⟨rfl, fun _ h => by cases h⟩
  | some hs =>
    have hle := hb hs h
    simp only
    rw [List.drop_append_of_le_length hle, List.drop_append_of_le_length hle]
    obtain ⟨e2, hb2⟩ := lexHostport_nl D (r.drop hs)
    rw [e2]
    refine ⟨rfl, ?_⟩
    intro n hn
    cases h2 : lexHostport (List.drop hs r ++ ['\n']) with
    | none => rw [h2] at hn; cases hn
    | some he =>
      rw [h2] at hn
      cases hn
      have := hb2 he h2
      simp only [List.length_drop] at this
      omega

theorem ipSchemepart_slash (rest : List Char) : lexIpSchemepart ('/' :: '/' :: rest) =
    some ((lexLogin rest).getD 0 + pathLoop (rest.length + 1) (rest.drop ((lexLogin rest).getD 0)) + 2) := rfl

theorem ipSchemepart_none1 (c : Char) (t : List Char) (h : c ≠ '/') : lexIpSchemepart (c :: t) = none := by
  unfold lexIpSchemepart
  split
  · rename_i heq; simp only [List.cons.injEq] at heq; exact absurd heq.1 h
  · rfl

theorem ipSchemepart_none2 (c d : Char) (t : List Char) (h : d ≠ '/') : lexIpSchemepart (c :: d :: t) = none := by
  unfold lexIpSchemepart
  split
  · rename_i heq; simp only [List.cons.injEq] at heq; exact absurd heq.2.1 h
  · rfl

theorem lexIpSchemepart_nl (D a : List Char) (hD : ∀ c ∈ D, c ≠ '@') :
    lexIpSchemepart (a ++ '\n' :: D) = lexIpSchemepart (a ++ ['\n']) := by
  cases a with
  | nil => rw [List.nil_append, List.nil_append, ipSchemepart_none1 _ _ (by decide), ipSchemepart_none1 _ _ (by decide)]
  | cons c1 a =>
    cases a with
    | nil =>
      simp only [List.cons_append, List.nil_append]
      rw [ipSchemepart_none2 _ _ _ (by decide), ipSchemepart_none2 _ _ _ (by decide)]
    | cons c2 r =>
      simp only [List.cons_append]
      by_cases h1 : c1 = '/'
      · by_cases h2 : c2 = '/'
        · subst h1; subst h2
          rw [ipSchemepart_slash, ipSchemepart_slash]
          obtain ⟨e, hb⟩ := lexLogin_nl D r hD
          rw [e]
          have hle : (lexLogin (r ++ ['\n'])).getD 0 ≤ r.length := by
            cases h : lexLogin (r ++ ['\n']) with
            | none => simp
            | some n => simpa using hb n h
          rw [List.drop_append_of_le_length hle, List.drop_append_of_le_length hle, pathLoop_nl D]
          rw [pathLoop_fuel ((r ++ '\n' :: D).length + 1) ((r ++ ['\n']).length + 1)]
          · simp only [List.length_append, List.length_drop, List.length_cons, List.length_nil]; omega
          · simp only [List.length_append, List.length_drop, List.length_cons, List.length_nil]; omega
        · rw [ipSchemepart_none2 _ _ _ h2, ipSchemepart_none2 _ _ _ h2]
      · rw [ipSchemepart_none1 _ _ h1, ipSchemepart_none1 _ _ h1]

theorem nl_not_scheme : validSchemeChar '\n' = false := by decide

theorem lexUrl_nl (D a : List Char) (hD : ∀ c ∈ D, c ≠ '@') : lexUrl (a ++ '\n' :: D) = lexUrl (a ++ ['\n']) := by
  unfold lexUrl
  cases h : position (· == ':') a with
  | some sep =>
    have hlt := position_lt _ a sep h
    rw [position_append_some _ a _ sep h, position_append_some _ a _ sep h]
    simp only
    rw [List.take_append_of_le_length (by omega), List.take_append_of_le_length (by omega),
      List.drop_append_of_le_length (by omega), List.drop_append_of_le_length (by omega), lexIpSchemepart_nl D _ hD]
  | none =>
    rw [position_append_none _ a _ h, position_append_none _ a _ h]
    have e2 : position (· == ':') ['\n'] = none := by decide
    rw [e2]
    cases h2 : position (· == ':') ('\n' :: D) with
    | none => rfl
    | some j =>
      simp only [Option.map_some, Option.map_none]
      have hj : j ≠ 0 := by
        intro h0; subst h0
        obtain ⟨c, hc1, hc2, _⟩ := position_spec _ _ _ h2
        simp only [List.getElem?_cons_zero, Option.some.injEq] at hc1
        subst hc1
        revert hc2; decide
      have : ((a ++ '\n' :: D).take (j + a.length)).all validSchemeChar = false := by
        rw [List.all_eq_false]
        refine ⟨'\n', ?_, by simp [nl_not_scheme]⟩
        rw [List.mem_take_iff_getElem]
        refine ⟨a.length, by simp; omega, by simp⟩
      rw [this]
      rfl

/-- **the look-ahead of the three modelled lexers, stated on the characters**: behind a newline only an `@` can change
what `lex_url` / `lex_email_address` / `lex_hostname_token` find before it (a `:` cannot: the scheme would contain the
newline) -/
theorem extOfSrc_nl (D a : List Char) (hD : ∀ c ∈ D, c ≠ '@') (pos : Nat) (hp : pos ≤ a.length) :
    extOfSrc ((a ++ ['\n']) ++ D) pos = extOfSrc (a ++ ['\n']) pos := by
  simp only [extOfSrc]
  have e1 : ((a ++ ['\n']) ++ D).drop pos = a.drop pos ++ '\n' :: D := by
    rw [List.append_assoc, List.drop_append_of_le_length hp]; rfl
  have e2 : (a ++ ['\n']).drop pos = a.drop pos ++ ['\n'] := List.drop_append_of_le_length hp
  rw [e1, e2, lexUrl_nl D _ hD, lexEmailAddress_nl D _ hD, lexHostnameToken_nl D]

theorem extOfSrc_local_of_atFree (P0 D : List Char) (k : Nat) (hk : 1 ≤ k) (hD : ∀ c ∈ D, c ≠ '@') (pos : Nat)
    (hp : pos < (P0 ++ List.replicate k '\n').length) :
    extOfSrc ((P0 ++ List.replicate k '\n') ++ D) pos = extOfSrc (P0 ++ List.replicate k '\n') pos := by
  obtain ⟨j, rfl⟩ : ∃ j, k = j + 1 := ⟨k - 1, by omega⟩
  rw [List.replicate_succ', ← List.append_assoc] at hp ⊢
  exact extOfSrc_nl D _ hD pos (by simp only [List.length_append, List.length_cons, List.length_nil] at hp ⊢; omega)

/-! ### no token of the three modelled lexers contains a newline (in a text without `"`) -/

theorem noNl_append {a b : List Char} (ha : NoNl a) (hb : NoNl b) : NoNl (a ++ b) := by
  intro c hc
  rcases List.mem_append.mp hc with h | h
  · exact ha c h
  · exact hb c h

theorem noNl_take_add (l : List Char) (i j : Nat) (h1 : NoNl (l.take i)) (h2 : NoNl ((l.drop i).take j)) :
    NoNl (l.take (i + j)) := by
  rw [List.take_add]; exact noNl_append h1 h2

theorem noNl_of_all (p : Char → Bool) (hp : p '\n' = false) (l : List Char) (h : ∀ c ∈ l, p c = true) : NoNl l := by
  intro c hc e
  subst e
  have := h _ hc
  rw [hp] at this
  cases this

theorem hostnameLoop_chars (s : List Char) (passed : Nat) :
    ∃ m, hostnameLoop passed s = passed + m ∧ NoNl (s.take m) := by
  induction s generalizing passed with
  | nil => exact ⟨0, rfl, by intro c hc; simp at hc⟩
  | cons c s ih =>
    simp only [hostnameLoop]
    split
    · rename_i hc
      obtain ⟨m, e, hm⟩ := ih (passed + 1)
      refine ⟨m + 1, by omega, ?_⟩
      intro d hd
      simp only [List.take_succ_cons, List.mem_cons] at hd
      rcases hd with rfl | hd
      · intro e2; subst e2; exact absurd hc (by decide)
      · exact hm d hd
    · split
      · rename_i hc
        obtain ⟨m, e, hm⟩ := ih (passed + 1)
        refine ⟨m + 1, by omega, ?_⟩
        intro d hd
        simp only [List.take_succ_cons, List.mem_cons] at hd
        rcases hd with rfl | hd
        · intro e2; subst e2; exact absurd hc (by decide)
        · exact hm d hd
      · exact ⟨0, rfl, by intro c hc; simp at hc⟩

theorem lexHostname_noNl (s : List Char) (n : Nat) (h : lexHostname s = some n) : NoNl (s.take n) := by
  unfold lexHostname at h
  cases s with
  | nil => cases h
  | cons c s =>
    simp only at h
    split at h
    · cases h
    · cases h
      obtain ⟨m, e, hm⟩ := hostnameLoop_chars (c :: s) 0
      rw [e, Nat.zero_add]
      exact hm

theorem lexHostnameToken_noNl (s : List Char) (k : Kind) (n : Nat) (h : lexHostnameToken s = some (k, n)) :
    NoNl (s.take n) := by
  unfold lexHostnameToken at h
  cases h1 : lexHostname s with
  | none => rw [h1] at h; cases h
  | some len =>
    rw [h1] at h
    simp only at h
    split at h
    · cases h
    · split at h
      · cases h
      · split at h
        · cases h
        · split at h
          · cases h
          · cases h
            exact lexHostname_noNl s _ h1

theorem noNl_take_succ (l : List Char) (i : Nat) (h1 : NoNl (l.take i)) (h2 : ∀ c, l[i]? = some c → c ≠ '\n') :
    NoNl (l.take (i + 1)) := by
  rw [List.take_add_one]
  refine noNl_append h1 ?_
  intro c hc
  cases h : l[i]? with
  | none => rw [h] at hc; simp at hc
  | some d =>
    rw [h] at hc
    simp only [Option.toList_some, List.mem_singleton] at hc
    subst hc
    exact h2 c h

theorem lastPosition_spec (p : Char → Bool) (l : List Char) (i : Nat) (h : lastPosition p l = some i) :
    ∃ c, l[i]? = some c ∧ p c = true := by
  induction l generalizing i with
  | nil => simp [lastPosition] at h
  | cons c l ih =>
    unfold lastPosition at h
    split at h
    · rename_i j hj
      cases h
      obtain ⟨d, h1, h2⟩ := ih j hj
      exact ⟨d, by simpa using h1, h2⟩
    · split at h
      · rename_i hc; cases h; exact ⟨c, rfl, hc⟩
      · cases h

theorem nl_not_unquoted : validUnquotedChar '\n' = false := by decide

theorem validateLocalPart_noNl (lp : List Char) (h : validateLocalPart lp = true) (hq : lp.head? ≠ some '"') : NoNl lp := by
  have hq' : (lp.head? == some '"') = false := by simpa using hq
  unfold validateLocalPart at h
  simp only [hq', Bool.false_and, Bool.false_eq_true, if_false] at h
  split at h
  · cases h
  · split at h
    · cases h
    · rename_i hall
      simp only [Bool.not_eq_true', Bool.not_eq_false] at hall
      exact noNl_of_all validUnquotedChar nl_not_unquoted lp (List.all_eq_true.mp hall)

theorem lexEmailAddress_noNl (s : List Char) (k : Kind) (n : Nat) (h : lexEmailAddress s = some (k, n))
    (hq : s.head? ≠ some '"') : NoNl (s.take n) := by
  unfold lexEmailAddress at h
  cases h1 : lastPosition (fun x => x == '@') s with
  | none => rw [h1] at h; cases h
  | some atLoc =>
    rw [h1] at h
    simp only at h
    split at h
    · cases h
    · rename_i hv
      simp only [Bool.not_eq_true', Bool.not_eq_false] at hv
      cases h2 : lexHostname (s.drop (atLoc + 1)) with
      | none => rw [h2] at h; cases h
      | some dl =>
        rw [h2] at h
        simp only at h
        split at h
        · cases h
        · cases h
          obtain ⟨c, hc1, hc2⟩ := lastPosition_spec _ s atLoc h1
          refine noNl_take_add s (atLoc + 1) dl ?_ (lexHostname_noNl _ _ h2)
          refine noNl_take_succ s atLoc ?_ ?_
          · apply validateLocalPart_noNl _ hv
            rw [List.head?_take]
            split
            · simp
            · exact hq
          · intro d hd e
            rw [hc1] at hd
            cases hd
            subst e
            revert hc2; decide

theorem lexXcharString_noNl (b : List Char) : NoNl (b.take (lexXcharString b)) := by
  fun_induction lexXcharString b with
  | case1 => intro c hc; simp at hc
  | case2 c cs hx ih =>
    intro d hd
    simp only [List.take_succ_cons, List.mem_cons] at hd
    rcases hd with rfl | hd
    · intro e; subst e; rw [nl_not_xchar] at hx; cases hx
    · exact ih d hd
  | case3 c h1 h2 r hx hc ih =>
    intro d hd
    simp only [Bool.and_eq_true] at hc
    simp only [List.take_succ_cons, List.mem_cons] at hd
    rcases hd with rfl | rfl | rfl | hd
    · intro e; subst e; exact absurd hc.1.1 (by decide)
    · intro e; subst e; exact absurd hc.1.2 (by decide)
    · intro e; subst e; exact absurd hc.2 (by decide)
    · exact ih d hd
  | case4 => intro c hc; simp at hc
  | case5 => intro c hc; simp at hc

theorem nl_not_uchar1 : ('\n' == ';' || '\n' == '?' || '\n' == '&' || '\n' == '=') = false := by decide
theorem nl_not_unreserved : isUnreserved '\n' = false := by decide

theorem isUcharPlusString_noNl (l : List Char) : isUcharPlusString l = true → NoNl l := by
  fun_induction isUcharPlusString l with
  | case1 => intro _ c hc; simp at hc
  | case2 c cs hx ih =>
    intro h d hd
    simp only [List.mem_cons] at hd
    rcases hd with rfl | hd
    · intro e; subst e; rw [nl_not_uchar1] at hx; cases hx
    · exact ih h d hd
  | case3 c cs hx hu ih =>
    intro h d hd
    simp only [List.mem_cons] at hd
    rcases hd with rfl | hd
    · intro e; subst e; rw [nl_not_unreserved] at hu; cases hu
    · exact ih h d hd
  | case4 c h1 h2 r hx hu hc ih =>
    intro h d hd
    simp only [Bool.and_eq_true] at hc
    simp only [List.mem_cons] at hd
    rcases hd with rfl | rfl | rfl | hd
    · intro e; subst e; exact absurd hc.1.1 (by decide)
    · intro e; subst e; exact absurd hc.1.2 (by decide)
    · intro e; subst e; exact absurd hc.2 (by decide)
    · exact ih h d hd
  | case5 => intro h; cases h
  | case6 => intro h; cases h

theorem nl_digit : isAsciiDigit '\n' = false := by decide

theorem lexHostport_noNl (x : List Char) (he : Nat) (h : lexHostport x = some he) : NoNl (x.take he) := by
  unfold lexHostport at h
  cases h1 : lexHostname x with
  | none => rw [h1] at h; cases h
  | some hostnameEnd =>
    rw [h1] at h
    simp only at h
    split at h
    · cases h
      cases hp : position (fun c => !isAsciiDigit c) x with
      | none =>
        simp only [Option.getD_none, List.take_length]
        have := (position_none_iff _ x).mp hp
        exact noNl_of_all isAsciiDigit nl_digit x (fun c hc => by simpa using this c hc)
      | some i =>
        simp only [Option.getD_some]
        obtain ⟨_, _, _, h3⟩ := position_spec _ x i hp
        exact noNl_of_all isAsciiDigit nl_digit _ (fun c hc => by simpa using h3 c hc)
    · cases h
      exact lexHostname_noNl x _ h1

theorem lexLogin_noNl (rest : List Char) (n : Nat) (h : lexLogin rest = some n) : NoNl (rest.take n) := by
  unfold lexLogin at h
  simp only at h
  cases h1 : loginHostportStart rest with
  | none => rw [h1] at h; cases h
  | some hs =>
    rw [h1] at h
    simp only at h
    cases h2 : lexHostport (rest.drop hs) with
    | none => rw [h2] at h; cases h
    | some he =>
      rw [h2] at h
      cases h
      refine noNl_take_add rest hs he ?_ (lexHostport_noNl _ _ h2)
      unfold loginHostportStart at h1
      cases hp : position (fun x => x == '@') rest with
      | none => rw [hp] at h1; cases h1; intro c hc; simp at hc
      | some credEnd =>
        rw [hp] at h1
        simp only at h1
        split at h1
        · cases h1
        · split at h1
          · cases h1
          · rename_i hu
            simp only [Bool.not_eq_true', Bool.not_eq_false] at hu
            cases h1
            obtain ⟨c, hc1, hc2, _⟩ := position_spec _ rest credEnd hp
            refine noNl_take_succ rest credEnd (isUcharPlusString_noNl _ hu) ?_
            intro d hd e
            rw [hc1] at hd
            cases hd
            subst e
            revert hc2; decide

theorem pathLoop_noNl : ∀ (fuel : Nat) (b : List Char), NoNl (b.take (pathLoop fuel b)) := by
  intro fuel
  induction fuel with
  | zero => intro b c hc; simp [pathLoop] at hc
  | succ fuel ih =>
    intro b
    cases b with
    | nil => intro c hc; simp at hc
    | cons c r =>
      simp only [pathLoop]
      split
      · intro c hc; simp at hc
      · rename_i hsl
        have hc : c = '/' := by simpa using hsl
        subst hc
        split
        · intro d hd
          simp only [List.take_succ_cons, List.take_zero, List.mem_singleton] at hd
          subst hd; decide
        · rw [show 1 + lexXcharString r + pathLoop fuel (r.drop (lexXcharString r)) =
            (lexXcharString r + pathLoop fuel (r.drop (lexXcharString r))) + 1 by omega]
          intro d hd
          simp only [List.take_succ_cons, List.mem_cons] at hd
          rcases hd with rfl | hd
          · decide
          · exact noNl_take_add r _ _ (lexXcharString_noNl r) (ih _) d hd

theorem lexIpSchemepart_noNl (t : List Char) (m : Nat) (h : lexIpSchemepart t = some m) : NoNl (t.take m) := by
  unfold lexIpSchemepart at h
  split at h
  · rename_i rest
    simp only [Option.some.injEq] at h
    subst h
    intro d hd
    simp only [List.take_succ_cons, List.mem_cons] at hd
    rcases hd with rfl | rfl | hd
    · decide
    · decide
    · refine noNl_take_add rest _ _ ?_ (pathLoop_noNl _ _) d hd
      cases hl : lexLogin rest with
      | none => intro c hc; simp at hc
      | some n => simpa using lexLogin_noNl rest n hl
  · cases h

theorem lexUrl_noNl (s : List Char) (k : Kind) (n : Nat) (h : lexUrl s = some (k, n)) : NoNl (s.take n) := by
  unfold lexUrl at h
  cases hp : position (fun x => x == ':') s with
  | none => rw [hp] at h; cases h
  | some sep =>
    rw [hp] at h
    simp only at h
    split at h
    · cases h
    · rename_i hall
      simp only [Bool.not_eq_true', Bool.not_eq_false] at hall
      cases h2 : lexIpSchemepart (s.drop (sep + 1)) with
      | none => rw [h2] at h; cases h
      | some urlEnd =>
        rw [h2] at h
        cases h
        rw [show urlEnd + sep + 1 = (sep + 1) + urlEnd by omega]
        refine noNl_take_add s _ _ ?_ (lexIpSchemepart_noNl _ _ h2)
        obtain ⟨c, hc1, hc2, _⟩ := position_spec _ s sep hp
        refine noNl_take_succ s sep (noNl_of_all validSchemeChar nl_not_scheme _ (List.all_eq_true.mp hall)) ?_
        intro d hd e
        rw [hc1] at hd
        cases hd
        subst e
        revert hc2; decide

/-- **no url / e-mail / hostname token of the modelled lexers contains a newline** when the text has no `"` (an
e-mail address with a QUOTED local part may: `"a⏎b"@c.d`) -/
theorem extOfSrc_noNl (P : List Char) (hq : NoQuoteChars P) : ExtNoNl (extOfSrc P) P := by
  intro pos k n h
  simp only [extOfSrc] at h
  have hhead : (P.drop pos).head? ≠ some '"' := by
    intro e
    have : '"' ∈ P.drop pos := List.mem_of_mem_head? e
    have := hq '"' (List.mem_of_mem_drop this)
    revert this; decide
  cases h1 : lexUrl (P.drop pos) with
  | some f =>
    rw [h1] at h
    cases h
    exact lexUrl_noNl _ _ _ h1
  | none =>
    rw [h1] at h
    simp only at h
    cases h2 : lexEmailAddress (P.drop pos) with
    | some f =>
      rw [h2] at h
      cases h
      exact lexEmailAddress_noNl _ _ _ h2 hhead
    | none =>
      rw [h2] at h
      exact lexHostnameToken_noNl _ _ _ h

/-! ## C12 end to end, from the characters of `P` and `D` and nothing else -/

/-- **`ParagraphPair` holds of the three lexers as modelled whenever `D` contains no `@`** — the only condition beyond
the wording of C12 (`P` a paragraph free of quotation marks followed by its break, `D` the rest); no hypothesis about
tokens, tables or lexers is left. -/
theorem paragraphPair_atFree (cls : Cls) (hc : ClsOK cls) (P0 D : List Char) (k : Nat) (hk : 2 ≤ k) (hend : NoNlEnd P0)
    (hD : D.head? ≠ some '\n') (hq : NoQuoteChars (P0 ++ List.replicate k '\n')) (hat : ∀ c ∈ D, c ≠ '@') :
    ParagraphPair cls P0 D k (extOfSrc (P0 ++ List.replicate k '\n')) (extOfSrc D)
      (extOfSrc ((P0 ++ List.replicate k '\n') ++ D)) :=
  paragraphPair_of_text cls hc P0 D k hk hend hD hq (extOfSrc_local_of_atFree P0 D k (by omega) hat)
    (fun pos _ kn hkn => extOfSrc_noNl _ hq pos kn.1 kn.2 hkn)

/-- **C12 for every rule that `Appends`, from the characters alone** (`parsePlainFull`'s table, i.e. every lexer
modelled): the lints — or the panic — on `P ++ D` are those on `P` followed by those on `D` moved by `|P|`. -/
theorem separately_atFree (r : PieceRule) (hr : Appends r) (cls : Cls) (hc : ClsOK cls) (P0 D : List Char) (k : Nat)
    (hk : 2 ≤ k) (hend : NoNlEnd P0) (hD : D.head? ≠ some '\n') (hq : NoQuoteChars (P0 ++ List.replicate k '\n'))
    (hat : ∀ c ∈ D, c ≠ '@') :
    docRule cls (extOfSrc ((P0 ++ List.replicate k '\n') ++ D)) r ((P0 ++ List.replicate k '\n') ++ D) =
      joinE (P0 ++ List.replicate k '\n').length
        (docRule cls (extOfSrc (P0 ++ List.replicate k '\n')) r (P0 ++ List.replicate k '\n'))
        (docRule cls (extOfSrc D) r D) :=
  separately_of_appends r hr cls P0 D k _ _ _ (paragraphPair_atFree cls hc P0 D k hk hend hD hq hat)

/-- the same for the abstract paragraph-local rules of `Props/C12.lean` -/
theorem paragraphs_separately_atFree (cls : Cls) (hc : ClsOK cls) (P0 D : List Char) (k : Nat) (hk : 2 ≤ k)
    (hend : NoNlEnd P0) (hD : D.head? ≠ some '\n') (hq : NoQuoteChars (P0 ++ List.replicate k '\n'))
    (hat : ∀ c ∈ D, c ≠ '@') (r : Rule) (hr : XLocal r) :
    ∃ lp ld, lintDoc cls (extOfSrc (P0 ++ List.replicate k '\n')) iterParagraphs r (P0 ++ List.replicate k '\n') = .ok lp ∧
      lintDoc cls (extOfSrc D) iterParagraphs r D = .ok ld ∧
      lintDoc cls (extOfSrc ((P0 ++ List.replicate k '\n') ++ D)) iterParagraphs r ((P0 ++ List.replicate k '\n') ++ D) =
        .ok (lp ++ shiftLints (P0 ++ List.replicate k '\n').length ld) :=
  have h := paragraphPair_atFree cls hc P0 D k hk hend hD hq hat
  paragraphs_separately cls hc P0 D k hk hend hD hq _ _ _ h.ext_local h.ext_ok_p h.ext_ok_d h.ext_no_nl r hr

/-- non-vacuity of `paragraphPair_atFree` / `separately_atFree`: `It cost 4$, ask a@b.c now.¶¶` + `the the: 4$` (the pair of
`paragraphPair_mail`; its lints, in both paragraphs, are computed above) — the five conditions, all on the characters -/
example : docRule asciiCls (extOfSrc ((['I', 't', ' ', 'c', 'o', 's', 't', ' ', '4', '$', ',', ' ', 'a', 's', 'k', ' ', 'a', '@', 'b', '.', 'c', ' ', 'n', 'o', 'w', '.'] ++ List.replicate 2 '\n') ++ ['t', 'h', 'e', ' ', 't', 'h', 'e', ':', ' ', '4', '$']))
      (ruleCurrencyPlacement env0) ((['I', 't', ' ', 'c', 'o', 's', 't', ' ', '4', '$', ',', ' ', 'a', 's', 'k', ' ', 'a', '@', 'b', '.', 'c', ' ', 'n', 'o', 'w', '.'] ++ List.replicate 2 '\n') ++ ['t', 'h', 'e', ' ', 't', 'h', 'e', ':', ' ', '4', '$']) =
    joinE (['I', 't', ' ', 'c', 'o', 's', 't', ' ', '4', '$', ',', ' ', 'a', 's', 'k', ' ', 'a', '@', 'b', '.', 'c', ' ', 'n', 'o', 'w', '.'] ++ List.replicate 2 '\n').length
      (docRule asciiCls (extOfSrc (['I', 't', ' ', 'c', 'o', 's', 't', ' ', '4', '$', ',', ' ', 'a', 's', 'k', ' ', 'a', '@', 'b', '.', 'c', ' ', 'n', 'o', 'w', '.'] ++ List.replicate 2 '\n')) (ruleCurrencyPlacement env0) (['I', 't', ' ', 'c', 'o', 's', 't', ' ', '4', '$', ',', ' ', 'a', 's', 'k', ' ', 'a', '@', 'b', '.', 'c', ' ', 'n', 'o', 'w', '.'] ++ List.replicate 2 '\n'))
      (docRule asciiCls (extOfSrc ['t', 'h', 'e', ' ', 't', 'h', 'e', ':', ' ', '4', '$']) (ruleCurrencyPlacement env0) ['t', 'h', 'e', ' ', 't', 'h', 'e', ':', ' ', '4', '$']) :=
  separately_atFree _ (currencyPlacement_appends env0) asciiCls clsOK_ascii _ _ 2 (by decide) (by decide) (by decide) (by decide)
    (by decide)

/-- **`hat` is needed also when `P` contains no `@`**: `lex_url`'s login part looks for the FIRST `@` of the whole rest of
the text. `Go to s://a.b/c now.¶¶` alone has the URL `s://a.b/c` (5..14); followed by `x@y` the URL is `s://` only -/
example : extOfSrc (['G', 'o', ' ', 't', 'o', ' ', 's', ':', '/', '/', 'a', '.', 'b', '/', 'c', ' ', 'n', 'o', 'w', '.'] ++ List.replicate 2 '\n') 6 = some (.url, 9) ∧
    extOfSrc ((['G', 'o', ' ', 't', 'o', ' ', 's', ':', '/', '/', 'a', '.', 'b', '/', 'c', ' ', 'n', 'o', 'w', '.'] ++ List.replicate 2 '\n') ++ ['x', '@', 'y']) 6 = some (.url, 4) := by decide

/-- **`ParagraphPair.two` (`k ≥ 2`) is needed**: one newline does not end the paragraph — `the⏎` + `the` checked together
is a repeated word across the newline (one lint, 0..7), checked separately it is nothing; with two newlines nothing
is reported either way -/
example : docRule asciiCls noExt (ruleRepeatedWords env0) ((['t', 'h', 'e'] ++ List.replicate 1 '\n') ++ ['t', 'h', 'e']) =
      .ok [⟨⟨0, 7⟩, [.replaceWith ['t', 'h', 'e']], 5, 0⟩] ∧
    docRule asciiCls noExt (ruleRepeatedWords env0) (['t', 'h', 'e'] ++ List.replicate 1 '\n') = .ok [] ∧
    docRule asciiCls noExt (ruleRepeatedWords env0) ['t', 'h', 'e'] = .ok [] ∧
    docRule asciiCls noExt (ruleRepeatedWords env0) ((['t', 'h', 'e'] ++ List.replicate 2 '\n') ++ ['t', 'h', 'e']) = .ok [] := by
  decide

/-- non-vacuity of `paragraphPair_atFree` with a URL and a hostname in `P` (so that `lexUrl_nl`, `lexUrl_noNl`,
`lexHostnameToken_nl`, `lexHostnameToken_noNl` and everything below them are exercised on tokens that exist):
`Go to s://a.b/c or x.y now.¶¶` + `the the` -/
example : ParagraphPair asciiCls ['G', 'o', ' ', 't', 'o', ' ', 's', ':', '/', '/', 'a', '.', 'b', '/', 'c', ' ', 'o', 'r', ' ', 'x', '.', 'y', ' ', 'n', 'o', 'w', '.'] ['t', 'h', 'e', ' ', 't', 'h', 'e'] 2
    (extOfSrc (['G', 'o', ' ', 't', 'o', ' ', 's', ':', '/', '/', 'a', '.', 'b', '/', 'c', ' ', 'o', 'r', ' ', 'x', '.', 'y', ' ', 'n', 'o', 'w', '.'] ++ List.replicate 2 '\n')) (extOfSrc ['t', 'h', 'e', ' ', 't', 'h', 'e']) (extOfSrc ((['G', 'o', ' ', 't', 'o', ' ', 's', ':', '/', '/', 'a', '.', 'b', '/', 'c', ' ', 'o', 'r', ' ', 'x', '.', 'y', ' ', 'n', 'o', 'w', '.'] ++ List.replicate 2 '\n') ++ ['t', 'h', 'e', ' ', 't', 'h', 'e'])) :=
  paragraphPair_atFree asciiCls clsOK_ascii _ _ 2 (by decide) (by decide) (by decide) (by decide) (by decide)

example : extOfSrc ((['G', 'o', ' ', 't', 'o', ' ', 's', ':', '/', '/', 'a', '.', 'b', '/', 'c', ' ', 'o', 'r', ' ', 'x', '.', 'y', ' ', 'n', 'o', 'w', '.'] ++ List.replicate 2 '\n') ++ ['t', 'h', 'e', ' ', 't', 'h', 'e']) 6 = some (.url, 9) ∧
    extOfSrc ((['G', 'o', ' ', 't', 'o', ' ', 's', ':', '/', '/', 'a', '.', 'b', '/', 'c', ' ', 'o', 'r', ' ', 'x', '.', 'y', ' ', 'n', 'o', 'w', '.'] ++ List.replicate 2 '\n') ++ ['t', 'h', 'e', ' ', 't', 'h', 'e']) 19 = some (.hostname, 3) := by decide

/-- … and RepeatedWords on it: nothing in `P`, `the the` behind it at 29..36 -/
example : docRule asciiCls (extOfSrc ((['G', 'o', ' ', 't', 'o', ' ', 's', ':', '/', '/', 'a', '.', 'b', '/', 'c', ' ', 'o', 'r', ' ', 'x', '.', 'y', ' ', 'n', 'o', 'w', '.'] ++ List.replicate 2 '\n') ++ ['t', 'h', 'e', ' ', 't', 'h', 'e'])) (ruleRepeatedWords env0) ((['G', 'o', ' ', 't', 'o', ' ', 's', ':', '/', '/', 'a', '.', 'b', '/', 'c', ' ', 'o', 'r', ' ', 'x', '.', 'y', ' ', 'n', 'o', 'w', '.'] ++ List.replicate 2 '\n') ++ ['t', 'h', 'e', ' ', 't', 'h', 'e']) =
    .ok [⟨⟨29, 36⟩, [.replaceWith ['t', 'h', 'e']], 5, 0⟩] := by decide

/-- non-vacuity of `paragraphPair_noExt` and of `unclosedQuotes_local_noquotes` in the case it is about — a quotation
mark in `D`, none in `P`: `a.¶¶` + `b"`; the unclosed quote of `D` (1..2 alone) is reported at 5..6 -/
example : docRule asciiCls noExt (ruleUnclosedQuotes env0) ((['a', '.'] ++ List.replicate 2 '\n') ++ ['b', '"']) =
    joinE (['a', '.'] ++ List.replicate 2 '\n').length
      (docRule asciiCls noExt (ruleUnclosedQuotes env0) (['a', '.'] ++ List.replicate 2 '\n'))
      (docRule asciiCls noExt (ruleUnclosedQuotes env0) ['b', '"']) :=
  unclosedQuotes_local_noquotes env0 asciiCls _ _ 2 _ _ _
    (paragraphPair_noExt asciiCls clsOK_ascii ['a', '.'] ['b', '"'] 2 (by decide) (by decide) (by decide) (by decide))

example : docRule asciiCls noExt (ruleUnclosedQuotes env0) ((['a', '.'] ++ List.replicate 2 '\n') ++ ['b', '"']) =
    .ok [⟨⟨5, 6⟩, [], 8, 0⟩] := by decide

end Harper.C12
