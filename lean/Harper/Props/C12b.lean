import Harper.Lemmas.Rules
import Harper.Lemmas.RulesPattern
import Harper.Props.C12
import Harper.Props.C02b
/-!
# C12 (continued) — concrete rules are paragraph-local: theorems, not assumptions

`Props/C12.lean` proves `paragraphs_separately` for ANY rule that is `XLocal`; which real rules are
local was left to the oracle. Here eleven real rules are in the model (`Model/Rules.lean`: the code as
it iterates — per chunk, per sentence, per token, `remove_overlaps` — compared lint for lint with the
real rule, run alone, on every run of the check) and their locality is PROVED:

* `XLocalE` (`Lemmas/Rules.lean`) is `XLocal` for rules that can panic and that report full lints
  (span, suggestions, message): nothing on the empty piece; text after the paragraph does not
  matter; moving a piece together with its text moves the lints — and the panics.
  `…_xlocal : XLocalE …Piece` for LongSentences (per sentence), Spaces (per sentence), RepeatedWords
  (per chunk), the candidates of CurrencyPlacement (per chunk), EllipsisLength,
  NumberSuffixCapitalization, CorrectNumberSuffix, UnclosedQuotes (per token), ModalOf (per chunk:
  `run_on_chunk` of its pattern with `match_to_lint`, itself translation invariant), AnA (per chunk),
  SentenceCapitalization (per paragraph).
* `overPieces_append` is `lint_append` for such rules; `currencyPlacement_appends` adds
  `remove_overlaps` (run on the lints of the whole document: it cannot mix the two sides, because
  every lint of `P` ends inside `P`).
* `…_paragraphs_separately`: composed with `document_append` exactly as `paragraphs_separately` is —
  from the characters of `P` and `D` to the lints (or the panic) of the rule, with NO hypothesis
  about the rule. `ParagraphPair` bundles the hypotheses of `paragraphs_separately` on the two texts.
* `unclosedQuotes_local_noquotes`: UnclosedQuotes reads `twin_loc`, which `match_quotes` computes
  over the whole document; it is paragraph-local exactly under the premise of C12 (no quotation
  mark in `P`), and not otherwise (witness).
* A `CurrencyPlacement` whose windows slide over `document.tokens()` (seeded change `C12r2`) is not
  a chunk-local rule: kernel-checked witness.
* `asRule_xlocal`: every `XLocalE` rule is an `XLocal` rule of `Props/C12.lean`, so `lint_append`,
  `lint_append_sentences`, `lint_append_chunks`, `paragraphs_separately` apply to the modelled rules.
-/
namespace Harper.C12
open Harper Harper.Chunks Harper.Rules

/-! ## every token of a plain-English document is `tokOK` -/

/-- non-empty, and a suffixed `Number` token covers its two suffix characters -/
theorem document_tokOK (cls : Cls) (ext : Ext) (src : List Char) (hext : ExtOK ext src.length) (toks : List Tok)
    (h : document cls ext src = .ok toks) : ∀ t ∈ toks, tokOK t = true := by
  obtain ⟨toks', e, hT⟩ := C02.document_tiles cls ext src hext
  rw [h] at e
  cases e
  obtain ⟨_, hb, _⟩ := C02.tiles_inbounds_sorted toks 0 src.length hT
  intro t ht
  have ht' := hb t ht
  simp only [tokOK, Bool.and_eq_true, decide_eq_true_eq]
  refine ⟨ht'.2.1, ?_⟩
  cases hk : t.kind with
  | number r o =>
    cases o with
    | none => simp [numSuffix]
    | some s =>
      obtain ⟨pre, c1, c2, htxt, _⟩ := C02.number_suffix_shape cls ext src hext toks h t ht r s hk
      have hl := congrArg List.length htxt
      simp only [List.length_take, List.length_drop, List.length_append, List.length_cons, List.length_nil] at hl
      simp only [numSuffix, decide_eq_true_eq]
      omega
  | _ => simp [numSuffix]

/-! ## locality of each modelled rule's piece function -/

theorem longSentences_xlocal : XLocalE longSentencesPiece := Rules.longSentences_xlocal
theorem spaces_xlocal : XLocalE spacesPiece := Rules.spaces_xlocal
theorem repeatedWords_xlocal (env : Env) : XLocalE (repeatedWordsPiece env) := Rules.repeatedWords_xlocal env
/-- the candidates of CurrencyPlacement in one chunk (adjacent pairs and 4-token windows) -/
theorem currencyPlacement_xlocal (env : Env) : XLocalE (currencyChunk env) := currencyChunk_xlocal env
theorem ellipsisLength_xlocal : XLocalE (perTok ellipsisTok) := perTok_xlocal ellipsis_tokLocal
theorem numberSuffixCapitalization_xlocal (env : Env) : XLocalE (perTok (numberSuffixCapTok env)) :=
  perTok_xlocal (numberSuffixCap_tokLocal env)
theorem correctNumberSuffix_xlocal (env : Env) : XLocalE (perTok (correctNumberSuffixTok env)) :=
  perTok_xlocal (correctNumberSuffix_tokLocal env)
/-- on given tokens UnclosedQuotes is local; what is NOT local is `match_quotes` (see below) -/
theorem unclosedQuotes_xlocal : XLocalE (perTok unclosedQuoteTok) := perTok_xlocal unclosedQuote_tokLocal
/-- `ModalOf::match_to_lint` moves with its match (any number of matched tokens) -/
theorem modalOfMatch_translation (env : Env) (P D : List Char) (m : List Tok) (j : Nat) :
    modalOfMatch env (P ++ D) (shiftDoc P.length j m) = (modalOfMatch env D m).map (shiftRLs P.length) :=
  modalOfMatch_shift env P D m j

/-- the whole pattern linter on one chunk: `run_on_chunk` of the pattern of `ModalOf::default()` (an
`EitherPattern` of four `SequencePattern`s over `WordSet`, `AnyCapitalization`, `WhitespacePattern` and
"any word": every combinator looks only at kinds, spans and the characters under its tokens —
`modalOfPat_local`) with `match_to_lint` -/
theorem modalOf_xlocal (env : Env) : XLocalE (modalOfPiece env) := Rules.modalOf_xlocal env

/-- AnA per chunk: consecutive word tokens with nothing word-like or unlintable between; `starts_with_vowel`
reads only the second word's characters -/
theorem anA_xlocal (env : Env) : XLocalE (anaPiece env) := Rules.anA_xlocal env

/-- SentenceCapitalization per paragraph: the short-label exemption counts the paragraph's sentences
and the words of its chunks; then sentence by sentence, the first non-whitespace token's characters,
its metadata and the dictionary's capitalisation of that word -/
theorem sentenceCapitalization_xlocal (env : Env) : XLocalE (sentCapParagraph env) := sentCap_xlocal env

/-- the hypotheses of `XLocalE` are about `tokOK` pieces; a real sentence's tokens are -/
example : ∀ t ∈ [(⟨⟨0, 1⟩, .word⟩ : Tok), ⟨⟨1, 3⟩, .space 2⟩, ⟨⟨3, 6⟩, .number 10 (some .st)⟩, ⟨⟨6, 7⟩, .punct .Period⟩],
    tokOK t = true ∧ t.span.stop ≤ 7 := by decide

/-! ## two documents joined at a paragraph break -/

/-- `r` on the tokens of `P ++ D` = `r` on those of `P`, then `r` on those of `D` moved behind —
lints and panics (`joinE`) -/
def Appends (r : PieceRule) : Prop :=
  ∀ (P D : List Char) (A0 : List Tok) (brk : Tok) (td : List Tok), brk.kind.isParagraphBreak = true →
    (∀ t ∈ A0 ++ [brk], tokOK t = true ∧ t.span.stop ≤ P.length) → (∀ t ∈ td, tokOK t = true) →
    r (P ++ D) ((A0 ++ [brk]) ++ shiftDoc P.length (A0 ++ [brk]).length td) =
      joinE P.length (r P (A0 ++ [brk])) (r D td)

theorem appends_sentences (r : PieceRule) (hr : XLocalE r) : Appends (overPieces iterSentences r) :=
  fun P D A0 brk td hb hin hd =>
    overPieces_append isSentenceTerminator (fun j k => isSentenceTerminator_shiftTwin j k) r hr P D A0 brk
      (isSentenceTerminator_of_break hb) td hin hd

theorem appends_paragraphs (r : PieceRule) (hr : XLocalE r) : Appends (overPieces iterParagraphs r) :=
  fun P D A0 brk td hb hin hd =>
    overPieces_append Kind.isParagraphBreak (fun j k => isParagraphBreak_shiftTwin j k) r hr P D A0 brk hb td hin hd

theorem appends_chunks (r : PieceRule) (hr : XLocalE r) : Appends (overPieces iterChunks r) :=
  fun P D A0 brk td hb hin hd =>
    overPieces_append isChunkTerminator (fun j k => isChunkTerminator_shiftTwin j k) r hr P D A0 brk
      (isChunkTerminator_of_break hb) td hin hd

theorem appends_perTok (f : List Char → Tok → Except Panic (List RuleLint)) (hf : TokLocal f) : Appends (perTok f) :=
  fun P D A0 brk td _ hin hd => perTok_append hf P D (A0 ++ [brk]) td _ hin hd

theorem longSentences_appends (env : Env) : Appends (ruleLongSentences env) := appends_sentences _ longSentences_xlocal
theorem spaces_appends (env : Env) : Appends (ruleSpaces env) := appends_sentences _ spaces_xlocal
theorem repeatedWords_appends (env : Env) : Appends (ruleRepeatedWords env) := appends_chunks _ (repeatedWords_xlocal env)
theorem modalOf_appends (env : Env) : Appends (ruleModalOf env) := appends_chunks _ (modalOf_xlocal env)
theorem anA_appends (env : Env) : Appends (ruleAnA env) := appends_chunks _ (anA_xlocal env)
theorem sentenceCapitalization_appends (env : Env) : Appends (ruleSentenceCapitalization env) :=
  appends_paragraphs _ (sentenceCapitalization_xlocal env)
theorem ellipsisLength_appends (env : Env) : Appends (ruleEllipsisLength env) := appends_perTok _ ellipsis_tokLocal
theorem numberSuffixCapitalization_appends (env : Env) : Appends (ruleNumberSuffixCapitalization env) :=
  appends_perTok _ (numberSuffixCap_tokLocal env)
theorem correctNumberSuffix_appends (env : Env) : Appends (ruleCorrectNumberSuffix env) :=
  appends_perTok _ (correctNumberSuffix_tokLocal env)
theorem unclosedQuotes_appends (env : Env) : Appends (ruleUnclosedQuotes env) := appends_perTok _ unclosedQuote_tokLocal
/-- candidates chunk by chunk, then `remove_overlaps` on all of them: the lints of `P` end inside
`P`, so the sweep never lets a lint of one side remove a lint of the other -/
theorem currencyPlacement_appends (env : Env) : Appends (ruleCurrencyPlacement env) :=
  fun P D A0 brk td hb hin hd => currencyPlacement_append env P D A0 brk hb td hin hd

/-! ## end to end: from the characters of `P` and `D` -/

/-- the rule alone on `Document::new(src, &PlainEnglish, _)` -/
def docRule (cls : Cls) (ext : Ext) (r : PieceRule) (src : List Char) : Except Panic (List RuleLint) :=
  match document cls ext src with
  | .error e => .error e
  | .ok toks => r src toks

/-- the hypotheses of `paragraphs_separately` on the two texts: `P = P0 ++ '\n'^k` (`k ≥ 2`) is a
paragraph followed by its break, free of quotation marks; `D` does not start with a newline; the
class table obeys its three laws; the url / e-mail / hostname lexers are in bounds, local to each
side and newline-free -/
structure ParagraphPair (cls : Cls) (P0 D : List Char) (k : Nat) (extP extD extPD : Ext) : Prop where
  cls_ok : ClsOK cls
  two : 2 ≤ k
  no_nl_end : NoNlEnd P0
  d_head : D.head? ≠ some '\n'
  no_quotes : NoQuoteChars (P0 ++ List.replicate k '\n')
  ext_local : ExtLocal extP extD extPD (P0 ++ List.replicate k '\n').length
  ext_ok_p : ExtOK extP (P0 ++ List.replicate k '\n').length
  ext_ok_d : ExtOK extD D.length
  ext_no_nl : ExtNoNl extP (P0 ++ List.replicate k '\n')

/-- **C12 for one rule that `Appends`, end to end**: lexer, condensing passes, piece iterator,
rule. The lints (or the panic) on `P ++ D` are those on `P` followed by those on `D` moved by `|P|`. -/
theorem separately_of_appends (r : PieceRule) (hr : Appends r) (cls : Cls) (P0 D : List Char) (k : Nat)
    (extP extD extPD : Ext) (h : ParagraphPair cls P0 D k extP extD extPD) :
    docRule cls extPD r ((P0 ++ List.replicate k '\n') ++ D) =
      joinE (P0 ++ List.replicate k '\n').length (docRule cls extP r (P0 ++ List.replicate k '\n')) (docRule cls extD r D) := by
  obtain ⟨A0, pb, td, hpb, eP, eD, ePD, hin⟩ :=
    document_append cls h.cls_ok P0 D k h.two h.no_nl_end h.d_head h.no_quotes extP extD extPD h.ext_local h.ext_ok_p
      h.ext_ok_d h.ext_no_nl
  have hokP := document_tokOK cls extP _ h.ext_ok_p _ eP
  have hokD := document_tokOK cls extD _ h.ext_ok_d _ eD
  generalize P0 ++ List.replicate k '\n' = P at *
  have hbk : pb.kind.isParagraphBreak = true := by rw [hpb]; rfl
  have ePD' : document cls extPD (P ++ D) = .ok ((A0 ++ [pb]) ++ shiftDoc P.length (A0 ++ [pb]).length td) := ePD
  simp only [docRule, eP, eD, ePD']
  exact hr P D A0 pb td hbk (fun t ht => ⟨hokP t ht, hin t ht⟩) hokD

theorem longSentences_paragraphs_separately (env : Env) (cls : Cls) (P0 D : List Char) (k : Nat)
    (extP extD extPD : Ext) (h : ParagraphPair cls P0 D k extP extD extPD) :
    docRule cls extPD (ruleLongSentences env) ((P0 ++ List.replicate k '\n') ++ D) =
      joinE (P0 ++ List.replicate k '\n').length (docRule cls extP (ruleLongSentences env) (P0 ++ List.replicate k '\n'))
        (docRule cls extD (ruleLongSentences env) D) :=
  separately_of_appends _ (longSentences_appends env) cls P0 D k extP extD extPD h

theorem currencyPlacement_paragraphs_separately (env : Env) (cls : Cls) (P0 D : List Char) (k : Nat)
    (extP extD extPD : Ext) (h : ParagraphPair cls P0 D k extP extD extPD) :
    docRule cls extPD (ruleCurrencyPlacement env) ((P0 ++ List.replicate k '\n') ++ D) =
      joinE (P0 ++ List.replicate k '\n').length (docRule cls extP (ruleCurrencyPlacement env) (P0 ++ List.replicate k '\n'))
        (docRule cls extD (ruleCurrencyPlacement env) D) :=
  separately_of_appends _ (currencyPlacement_appends env) cls P0 D k extP extD extPD h

theorem spaces_paragraphs_separately (env : Env) (cls : Cls) (P0 D : List Char) (k : Nat)
    (extP extD extPD : Ext) (h : ParagraphPair cls P0 D k extP extD extPD) :
    docRule cls extPD (ruleSpaces env) ((P0 ++ List.replicate k '\n') ++ D) =
      joinE (P0 ++ List.replicate k '\n').length (docRule cls extP (ruleSpaces env) (P0 ++ List.replicate k '\n'))
        (docRule cls extD (ruleSpaces env) D) :=
  separately_of_appends _ (spaces_appends env) cls P0 D k extP extD extPD h

theorem repeatedWords_paragraphs_separately (env : Env) (cls : Cls) (P0 D : List Char) (k : Nat)
    (extP extD extPD : Ext) (h : ParagraphPair cls P0 D k extP extD extPD) :
    docRule cls extPD (ruleRepeatedWords env) ((P0 ++ List.replicate k '\n') ++ D) =
      joinE (P0 ++ List.replicate k '\n').length (docRule cls extP (ruleRepeatedWords env) (P0 ++ List.replicate k '\n'))
        (docRule cls extD (ruleRepeatedWords env) D) :=
  separately_of_appends _ (repeatedWords_appends env) cls P0 D k extP extD extPD h

theorem ellipsisLength_paragraphs_separately (env : Env) (cls : Cls) (P0 D : List Char) (k : Nat)
    (extP extD extPD : Ext) (h : ParagraphPair cls P0 D k extP extD extPD) :
    docRule cls extPD (ruleEllipsisLength env) ((P0 ++ List.replicate k '\n') ++ D) =
      joinE (P0 ++ List.replicate k '\n').length (docRule cls extP (ruleEllipsisLength env) (P0 ++ List.replicate k '\n'))
        (docRule cls extD (ruleEllipsisLength env) D) :=
  separately_of_appends _ (ellipsisLength_appends env) cls P0 D k extP extD extPD h

theorem numberSuffixCapitalization_paragraphs_separately (env : Env) (cls : Cls) (P0 D : List Char) (k : Nat)
    (extP extD extPD : Ext) (h : ParagraphPair cls P0 D k extP extD extPD) :
    docRule cls extPD (ruleNumberSuffixCapitalization env) ((P0 ++ List.replicate k '\n') ++ D) =
      joinE (P0 ++ List.replicate k '\n').length
        (docRule cls extP (ruleNumberSuffixCapitalization env) (P0 ++ List.replicate k '\n'))
        (docRule cls extD (ruleNumberSuffixCapitalization env) D) :=
  separately_of_appends _ (numberSuffixCapitalization_appends env) cls P0 D k extP extD extPD h

theorem correctNumberSuffix_paragraphs_separately (env : Env) (cls : Cls) (P0 D : List Char) (k : Nat)
    (extP extD extPD : Ext) (h : ParagraphPair cls P0 D k extP extD extPD) :
    docRule cls extPD (ruleCorrectNumberSuffix env) ((P0 ++ List.replicate k '\n') ++ D) =
      joinE (P0 ++ List.replicate k '\n').length
        (docRule cls extP (ruleCorrectNumberSuffix env) (P0 ++ List.replicate k '\n'))
        (docRule cls extD (ruleCorrectNumberSuffix env) D) :=
  separately_of_appends _ (correctNumberSuffix_appends env) cls P0 D k extP extD extPD h

theorem modalOf_paragraphs_separately (env : Env) (cls : Cls) (P0 D : List Char) (k : Nat)
    (extP extD extPD : Ext) (h : ParagraphPair cls P0 D k extP extD extPD) :
    docRule cls extPD (ruleModalOf env) ((P0 ++ List.replicate k '\n') ++ D) =
      joinE (P0 ++ List.replicate k '\n').length (docRule cls extP (ruleModalOf env) (P0 ++ List.replicate k '\n'))
        (docRule cls extD (ruleModalOf env) D) :=
  separately_of_appends _ (modalOf_appends env) cls P0 D k extP extD extPD h

theorem anA_paragraphs_separately (env : Env) (cls : Cls) (P0 D : List Char) (k : Nat)
    (extP extD extPD : Ext) (h : ParagraphPair cls P0 D k extP extD extPD) :
    docRule cls extPD (ruleAnA env) ((P0 ++ List.replicate k '\n') ++ D) =
      joinE (P0 ++ List.replicate k '\n').length (docRule cls extP (ruleAnA env) (P0 ++ List.replicate k '\n'))
        (docRule cls extD (ruleAnA env) D) :=
  separately_of_appends _ (anA_appends env) cls P0 D k extP extD extPD h

theorem sentenceCapitalization_paragraphs_separately (env : Env) (cls : Cls) (P0 D : List Char) (k : Nat)
    (extP extD extPD : Ext) (h : ParagraphPair cls P0 D k extP extD extPD) :
    docRule cls extPD (ruleSentenceCapitalization env) ((P0 ++ List.replicate k '\n') ++ D) =
      joinE (P0 ++ List.replicate k '\n').length
        (docRule cls extP (ruleSentenceCapitalization env) (P0 ++ List.replicate k '\n'))
        (docRule cls extD (ruleSentenceCapitalization env) D) :=
  separately_of_appends _ (sentenceCapitalization_appends env) cls P0 D k extP extD extPD h

/-- **UnclosedQuotes is paragraph-local when `P` contains no quotation mark** (`ParagraphPair.no_quotes`,
the premise of C12): then no quote of `D` can find its twin in `P`, `match_quotes` pairs the quotes
of `D` among themselves exactly as it does for `D` alone, and an unpaired quote stays unpaired. -/
theorem unclosedQuotes_local_noquotes (env : Env) (cls : Cls) (P0 D : List Char) (k : Nat)
    (extP extD extPD : Ext) (h : ParagraphPair cls P0 D k extP extD extPD) :
    docRule cls extPD (ruleUnclosedQuotes env) ((P0 ++ List.replicate k '\n') ++ D) =
      joinE (P0 ++ List.replicate k '\n').length (docRule cls extP (ruleUnclosedQuotes env) (P0 ++ List.replicate k '\n'))
        (docRule cls extD (ruleUnclosedQuotes env) D) :=
  separately_of_appends _ (unclosedQuotes_appends env) cls P0 D k extP extD extPD h

/-! ## non-vacuity and counter-examples (kernel-evaluated) -/

open Harper.C02 (asciiCls)

/-- an `Env` for ASCII texts: a number's `to_string()` is its text, no word metadata -/
def env0 : Env where
  numStr := id
  numVal := fun _ => .nonInt
  wordFlags := fun _ => 0
  lower := fun c => [lowerAscii c]
  isLower := fun c => 'a' ≤ c && c ≤ 'z'
  isUpper := fun c => 'A' ≤ c && c ≤ 'Z'
  isAlpha := isAsciiAlpha
  isAlnum := isAsciiAlnum
  isWs := fun c => c == ' ' || c == '\t' || c == '\n'
  canonical := fun _ => none

def noExt : Ext := fun _ => none

/-- `ParagraphPair` is satisfiable: `It cost 4$.¶¶` + `a $ 20 the the` -/
example : ParagraphPair asciiCls ['I', 't', ' ', 'c', 'o', 's', 't', ' ', '4', '$', '.'] ['a', ' ', '$', ' ', '2', '0', ' ', 't', 'h', 'e', ' ', 't', 'h', 'e']
    2 noExt noExt noExt where
  cls_ok := ⟨by decide, by decide, by
    intro c h
    simp only [asciiCls, isAsciiDigit, Bool.and_eq_true, decide_eq_true_eq] at h
    refine ⟨?_, ?_, ?_⟩
    · simp only [isAsciiAlpha, Bool.or_eq_false_iff, Bool.and_eq_false_imp, decide_eq_true_eq, decide_eq_false_iff_not]
      constructor <;> intro h3 <;> intro h4
      · exact absurd (Char.le_trans h3 h.2) (by decide)
      · exact absurd (Char.le_trans h3 h.2) (by decide)
    · intro hc; subst hc; exact absurd h.1 (by decide)
    · intro hc; subst hc; exact absurd h.1 (by decide)⟩
  two := by decide
  no_nl_end := by decide
  d_head := by decide
  no_quotes := by decide
  ext_local := ⟨fun _ _ => rfl, fun _ => rfl⟩
  ext_ok_p := by intro _ _ _ h; cases h
  ext_ok_d := by intro _ _ _ h; cases h
  ext_no_nl := by intro _ _ _ h; cases h

/-- … and the conclusion computed on it: CurrencyPlacement and RepeatedWords report in BOTH paragraphs
(`4$` → `$4` at 8..10; `$ 20` → `$20` and `the the` → `the`, moved by 13) -/
example : docRule asciiCls noExt (ruleCurrencyPlacement env0)
      (['I', 't', ' ', 'c', 'o', 's', 't', ' ', '4', '$', '.', '\n', '\n'] ++ ['a', ' ', '$', ' ', '2', '0', ' ', 't', 'h', 'e', ' ', 't', 'h', 'e']) =
    .ok [⟨⟨8, 10⟩, [.replaceWith ['$', '4']], 2, 0⟩, ⟨⟨15, 19⟩, [.replaceWith ['$', '2', '0']], 2, 0⟩] := by decide

example : docRule asciiCls noExt (ruleRepeatedWords env0)
      (['I', 't', ' ', 'c', 'o', 's', 't', ' ', '4', '$', '.', '\n', '\n'] ++ ['a', ' ', '$', ' ', '2', '0', ' ', 't', 'h', 'e', ' ', 't', 'h', 'e']) =
    .ok [⟨⟨20, 27⟩, [.replaceWith ['t', 'h', 'e']], 5, 0⟩] := by decide

/-- **UnclosedQuotes is NOT paragraph-local when `P` contains a quotation mark**: `"a.¶¶` + `b"` —
together the two marks are twins and nothing is reported; separately each is unclosed -/
example : docRule asciiCls noExt (ruleUnclosedQuotes env0) (['"', 'a', '.', '\n', '\n'] ++ ['b', '"']) = .ok [] ∧
    docRule asciiCls noExt (ruleUnclosedQuotes env0) ['"', 'a', '.', '\n', '\n'] = .ok [⟨⟨0, 1⟩, [], 8, 0⟩] ∧
    docRule asciiCls noExt (ruleUnclosedQuotes env0) ['b', '"'] = .ok [⟨⟨1, 2⟩, [], 8, 0⟩] := by decide

/-- the tokens of `ab.¶¶` and of `$ 20` -/
def witP : List Tok := [⟨⟨0, 2⟩, .word⟩, ⟨⟨2, 3⟩, .punct .Period⟩, ⟨⟨3, 5⟩, .paragraphBreak⟩]
def witD : List Tok := [⟨⟨0, 1⟩, .punct .Currency⟩, ⟨⟨1, 2⟩, .space 1⟩, ⟨⟨2, 4⟩, .number 10 none⟩]

example : (document asciiCls noExt ['a', 'b', '.', '\n', '\n']).toOption = some witP ∧
    (document asciiCls noExt ['$', ' ', '2', '0']).toOption = some witD := by decide

/-- the seeded change `C12r2-currency-window-over-document`: with both windows sliding over
`document.tokens()`, the 4-token window `(¶¶, $, ␣, 20)` reports `$ 20` → `$20` at the start of the
second paragraph, which `$ 20` alone (three tokens, no window) never gets -/
example : ruleCurrencyPlacementWholeDoc env0 (['a', 'b', '.', '\n', '\n'] ++ ['$', ' ', '2', '0']) (witP ++ shiftDoc 5 3 witD) =
      .ok [⟨⟨5, 9⟩, [.replaceWith ['$', '2', '0']], 2, 0⟩] ∧
    ruleCurrencyPlacementWholeDoc env0 ['$', ' ', '2', '0'] witD = .ok [] ∧
    ruleCurrencyPlacementWholeDoc env0 ['a', 'b', '.', '\n', '\n'] witP = .ok [] := by decide

/-- hence the whole-document CurrencyPlacement does not commute with joining paragraphs … -/
example : ¬ Appends (ruleCurrencyPlacementWholeDoc env0) := by
  intro h
  have := h ['a', 'b', '.', '\n', '\n'] ['$', ' ', '2', '0'] [⟨⟨0, 2⟩, .word⟩, ⟨⟨2, 3⟩, .punct .Period⟩] ⟨⟨3, 5⟩, .paragraphBreak⟩ witD
    rfl (by decide) (by decide)
  revert this
  decide

/-- … and is NOT a chunk-local rule: its candidates are not `overPieces iterChunks f` for any
`XLocalE f` (for the real rule they are, with `f = currencyChunk env`: `currencyPlacement_xlocal`) -/
example : ¬ ∃ f : PieceRule, XLocalE f ∧ ∀ src toks, currencyChunk env0 src toks = overPieces iterChunks f src toks := by
  rintro ⟨f, hf, heq⟩
  have h := appends_chunks f hf ['a', 'b', '.', '\n', '\n'] ['$', ' ', '2', '0'] [⟨⟨0, 2⟩, .word⟩, ⟨⟨2, 3⟩, .punct .Period⟩]
    ⟨⟨3, 5⟩, .paragraphBreak⟩ witD rfl (by decide) (by decide)
  rw [← heq, ← heq, ← heq] at h
  revert h
  decide

/-! ## the modelled rules as `XLocal` rules of `Props/C12.lean` -/

/-- a lint as `Props/C12.lean` sees it: where it is and which message -/
def toPLint (l : RuleLint) : PLint := ⟨l.span, l.msg⟩

/-- a piece rule as an abstract `Rule` (on pieces of `tokOK` tokens — every piece of a document) -/
def asRule (r : PieceRule) : Rule := fun src piece =>
  if piece.all tokOK then
    match r src piece with
    | .ok ls => ls.map toPLint
    | .error _ => []
  else []

theorem asRule_xlocal (r : PieceRule) (hr : XLocalE r) : XLocal (asRule r) where
  nil := by intro src; simp [asRule, hr.nil]
  left := by
    intro P D piece hp
    simp only [asRule]
    split
    · rename_i hall
      rw [hr.left P D piece (fun t ht => ⟨List.all_eq_true.mp hall t ht, hp t ht⟩)]
    · rfl
  right := by
    intro P D piece j
    simp only [asRule]
    have hall : (shiftDoc P.length j piece).all tokOK = piece.all tokOK := by
      simp only [shiftDoc_eq_map, List.all_map]
      congr 1
      funext t
      simp
    rw [hall]
    split
    · rename_i hok
      rw [hr.right P D piece j (fun t ht => List.all_eq_true.mp hok t ht)]
      cases r D piece with
      | error e => rfl
      | ok ls => simp [Except.map, shiftRLs, shiftLints, toPLint, shiftRL, shiftSpan]
    · rfl

/-- e.g. `lint_append_sentences` of `Props/C12.lean` now applies to Spaces with no hypothesis left -/
theorem spaces_lint_append (P D : List Char) (A0 : List Tok) (brk : Tok) (hb : brk.kind.isParagraphBreak = true)
    (td tpd : List Tok) (hin : ∀ t ∈ A0 ++ [brk], t.span.stop ≤ P.length) (hdoc : DocAppend tpd (A0 ++ [brk]) td P.length) :
    lintBy iterSentences (asRule spacesPiece) (P ++ D) tpd =
      lintBy iterSentences (asRule spacesPiece) P (A0 ++ [brk]) ++
        shiftLints P.length (lintBy iterSentences (asRule spacesPiece) D td) :=
  lint_append_sentences _ (asRule_xlocal _ spaces_xlocal) P D A0 brk hb td tpd hin hdoc

/-- … and `lint_append_chunks` to RepeatedWords and to the candidates of CurrencyPlacement -/
theorem repeatedWords_lint_append (env : Env) (P D : List Char) (A0 : List Tok) (brk : Tok)
    (hb : brk.kind.isParagraphBreak = true) (td tpd : List Tok) (hin : ∀ t ∈ A0 ++ [brk], t.span.stop ≤ P.length)
    (hdoc : DocAppend tpd (A0 ++ [brk]) td P.length) :
    lintBy iterChunks (asRule (repeatedWordsPiece env)) (P ++ D) tpd =
      lintBy iterChunks (asRule (repeatedWordsPiece env)) P (A0 ++ [brk]) ++
        shiftLints P.length (lintBy iterChunks (asRule (repeatedWordsPiece env)) D td) :=
  lint_append_chunks _ (asRule_xlocal _ (repeatedWords_xlocal env)) P D A0 brk hb td tpd hin hdoc

end Harper.C12
