import Harper.Lemmas.Parse
/-!
# C01 — checking any text never crashes or hangs (lexer / plain-parser part)

What is proved here, for every text, every Unicode class table and every in-bounds behaviour of
the url / e-mail / hostname lexers: `lex_token` always finds a token that consumes at least one
and at most the remaining characters (`lex_catch` gives totality, the per-lexer bounds give
progress), hence `PlainEnglish::parse` never reaches its `panic!()`, never builds an invalid
span, and finishes within `length` iterations. The pattern framework is in
`Harper/Props/C01Pattern.lean`; rules and third-party parsers are explored by the harness.
-/
namespace Harper.C01
open Harper

/-- `PlainEnglish::parse` returns normally on every input. -/
theorem parsePlain_total (cls : Cls) (ext : Ext) (src : List Char) (hext : ExtOK ext src.length) :
    ∃ toks, parsePlain cls ext src = .ok toks := by
  obtain ⟨toks, h, _⟩ := parseLoop_tiles cls ext src.length hext (src.length + 1) 0 src
    (by omega) (by omega)
  exact ⟨toks, h⟩

/-- … in at most `length` loop iterations (one token per iteration, at most one token per
character): the fuel `length + 1` is never exhausted. -/
theorem parsePlain_steps (cls : Cls) (ext : Ext) (src : List Char) (hext : ExtOK ext src.length) :
    ∀ toks, parsePlain cls ext src = .ok toks → toks.length ≤ src.length := by
  intro toks h
  obtain ⟨toks', h', _, hc⟩ := parseLoop_tiles cls ext src.length hext (src.length + 1) 0 src
    (by omega) (by omega)
  unfold parsePlain at h
  rw [h'] at h
  cases h
  exact hc

/-- a lexer that returned `next_index = 0` would hang the loop: the model's fuel runs out
(why the per-lexer lower bound `1 ≤ n` matters) -/
example : (match parseLoop ⟨fun _ => false, fun _ => false, fun _ => false⟩
      (fun _ => some (.url, 0)) 3 0 ['a', ':'] with
    | .error .outOfFuel => true | _ => false) = true := by decide

/-- `ExtOK` is satisfiable -/
example : ExtOK (fun p => if p = 0 then some (.url, 3) else none) 3 := by
  intro pos k n h
  by_cases hp : pos = 0
  · simp [hp] at h; omega
  · simp [hp] at h

/-- non-vacuity of `parsePlain_total` / `parsePlain_steps`: the external table that reports a three-character URL at
offset 0 is in bounds for the five-character text `a:b c`; both theorems applied to it … -/
example : ∃ toks, parsePlain ⟨fun _ => false, fun _ => false, fun _ => false⟩
      (fun p => if p = 0 then some (.url, 3) else none) ['a', ':', 'b', ' ', 'c'] = .ok toks ∧ toks.length ≤ 5 := by
  have hext : ExtOK (fun p => if p = 0 then some (.url, 3) else none) ['a', ':', 'b', ' ', 'c'].length := by
    intro pos k n h
    by_cases hp : pos = 0
    · simp [hp] at h; simp; omega
    · simp [hp] at h
  obtain ⟨toks, h⟩ := parsePlain_total ⟨fun _ => false, fun _ => false, fun _ => false⟩ _ ['a', ':', 'b', ' ', 'c'] hext
  exact ⟨toks, h, parsePlain_steps _ _ _ hext toks h⟩

/-- … and what the parser computes there: the URL token from the table, then the model's own lexers (with the empty
class table `c` is caught by `lex_catch`) -/
example : parsePlain ⟨fun _ => false, fun _ => false, fun _ => false⟩
      (fun p => if p = 0 then some (.url, 3) else none) ['a', ':', 'b', ' ', 'c'] =
    .ok [⟨⟨0, 3⟩, .url⟩, ⟨⟨3, 4⟩, .space 1⟩, ⟨⟨4, 5⟩, .unlintable⟩] := by rfl

end Harper.C01
