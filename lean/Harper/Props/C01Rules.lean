import Harper.Lemmas.PatternRules
import Harper.Props.C01Leaves
/-!
# C01 (shipped `PatternLinter` rules) — none of the 28 rules panics

`Model/PatternRules.lean` has the pattern tree and the `match_to_lint` of every rule that `LintGroup::new_curated`
registers with `insert_pattern_rule!` (ModalOf is in `Model/Rules.lean`), and of TheHowWhy and WidelyAccepted
(`PatternLinter`s registered with `insert_struct_rule!`) — compared with the REAL rule structs on every run of the
check (`prulem`: `pattern().matches` on every suffix; `prule`: the lints; `pmtl`: `match_to_lint` on its matches
and on arbitrary short slices, where its index expressions panic).

Generic layer (any pattern tree `p`, any `match_to_lint` given as a `Spec`):

* `matches_at_least` / `matches_at_most`: a NON-ZERO answer of a tree is at least `p.minLen`, and at most `p.maxLen`
  where that is defined (sequences / alternatives of single-token closures) — on any tokens, no hypothesis;
* `matchToLint_total`: on in-text tokens (any order, zero-width ones included) whose number fits the spec's index
  expressions (`matched_tokens[i]`, `[a..b]`, `[len - k]`, Dashes' `match len { 2 .. 3 .. _ => panic!() }`) the
  `match_to_lint` returns;
* `patternRule_total`: hence a rule whose tree is `plain`, whose own computations are total, and whose spec fits every
  length between `minLen` and `maxLen` (`Fine`) never panics — pattern, `run_on_chunk`, `match_to_lint`.

Per rule: `Fine` holds of each of the 28 (`allPatternRules_fine`, the side conditions are discharged by `decide` /
`omega`), so `shippedRule_total` and one corollary per rule name. The witnesses at the end show that the length
conditions are needed: every index expression does panic on a slice the rule's own pattern cannot produce.
-/
namespace Harper.C01
open Harper Harper.Chunks Harper.Rules Harper.Leaves Harper.PatternRules

/-! ## how many tokens a tree matches -/

/-- **a non-zero answer of a pattern tree is at least its `minLen`** — what makes `matched_tokens[i]` safe -/
theorem matches_at_least (env : Env) (p : RPat) (src : List Char) (toks : List Tok) (n : Nat)
    (h : p.matcher env src toks = .ok n) (hn : n ≠ 0) : p.minLen ≤ n := matcher_lb env p src toks n h hn

/-- … and at most its `maxLen`, where the model knows one -/
theorem matches_at_most (env : Env) (p : RPat) (k : Nat) (hk : p.maxLen = some k) (src : List Char) (toks : List Tok) (n : Nat)
    (h : p.matcher env src toks = .ok n) : n ≤ k := matcher_ub env p k hk src toks n h

/-- Dashes matches two or three tokens, never four -/
example : patDashes.minLen = 2 ∧ patDashes.maxLen = some 3 := by decide

/-- UseGenitive's `matched_tokens[2]`, ThenThan's `[len - 3]`, Hereby's `[0..3]`: the trees match at least five tokens -/
example : patUseGenitive.minLen = 5 ∧ patThenThan.minLen = 5 ∧ patHereby.minLen = 5 := by decide

/-! ## `match_to_lint` -/

/-- **every `match_to_lint` given as a `Spec`**: on in-text tokens, in any order, of a number that fits its index
expressions it returns (at most one lint) -/
theorem matchToLint_total (env : Env) (s : Spec) (hg : s.Good) (src : List Char) (matched : List Tok)
    (h : InText src matched) (hf : s.Fits matched.length) : ∃ ls, s.run env src matched = .ok ls :=
  (Spec.run_ok env s hg src matched h hf).imp fun _ h => h.1

/-- the five rules that compute something of their own before the lint is built do so totally and locally -/
theorem customSteps_good : CustomGood 0 backGuard ∧ CustomGood 1 piqueCorrect ∧ CustomGood 0 pronounGuard ∧
    CustomGood 0 initialismCorrection ∧ CustomGood 0 timeExpansion :=
  ⟨backGuard_good, piqueCorrect_good, pronounGuard_good, initialismCorrection_good, timeExpansion_good⟩

/-! ## the rule -/

/-- **a fine rule never panics** on well-formed tokens inside the text — in ANY order, zero-width tokens included
(what the Markdown front-end delivers): the pattern tree, `run_on_chunk`, `match_to_lint` -/
theorem patternRule_total (env : Env) (r : PRule) (hr : Fine r) (src : List Char) (toks : List Tok) (h : InText src toks) :
    ∃ ls, r.rule env src toks = .ok ls :=
  (overPieces_okh inText_hyp _ _ src toks h (fun piece hpc => PRule.piece_ok env r hr src piece hpc)).imp fun _ h => h.1

/-- **every rule of the table is fine** -/
theorem shippedRules_fine : ∀ x ∈ allPatternRules, Fine x.2 := allPatternRules_fine

/-- **every shipped `PatternLinter` rule, by name** -/
theorem shippedRule_total (env : Env) (name : String) (r : PRule) (hn : patternRuleByName name = some r) (src : List Char)
    (toks : List Tok) (h : InText src toks) : ∃ ls, r.rule env src toks = .ok ls :=
  patternRule_total env r (fine_of_name name r hn) src toks h

/-- the table has the 28 names -/
example : allPatternRules.map (·.1) = ["BackInTheDay", "Dashes", "OutOfDate", "ThenThan", "PiqueInterest", "WasAloud", "HyphenateNumberDay", "LeftRightHand", "Hereby", "Likewise", "Nobody", "Whereas", "PossessiveYour", "MultipleSequentialPronouns", "DotInitialisms", "BoringWords", "UseGenitive", "ThatWhich", "SomewhatSomething", "DespiteOf", "ChockFull", "Confident", "Oxymorons", "Hedging", "ExpandTimeShorthands", "ForNoun", "TheHowWhy", "WidelyAccepted"] := by decide

/-! ## one corollary per rule -/

theorem backInTheDay_total (env : Env) (src : List Char) (toks : List Tok) (h : InText src toks) :
    ∃ ls, (PRule.rule env ⟨patBackInTheDay, specBackInTheDay⟩) src toks = .ok ls := patternRule_total env _ fineBackInTheDay src toks h
theorem dashes_total (env : Env) (src : List Char) (toks : List Tok) (h : InText src toks) :
    ∃ ls, (PRule.rule env ⟨patDashes, specDashes⟩) src toks = .ok ls := patternRule_total env _ fineDashes src toks h
theorem outOfDate_total (env : Env) (src : List Char) (toks : List Tok) (h : InText src toks) :
    ∃ ls, (PRule.rule env ⟨patOutOfDate, specOutOfDate⟩) src toks = .ok ls := patternRule_total env _ fineOutOfDate src toks h
theorem thenThan_total (env : Env) (src : List Char) (toks : List Tok) (h : InText src toks) :
    ∃ ls, (PRule.rule env ⟨patThenThan, specThenThan⟩) src toks = .ok ls := patternRule_total env _ fineThenThan src toks h
theorem piqueInterest_total (env : Env) (src : List Char) (toks : List Tok) (h : InText src toks) :
    ∃ ls, (PRule.rule env ⟨patPiqueInterest, specPiqueInterest⟩) src toks = .ok ls := patternRule_total env _ finePiqueInterest src toks h
theorem wasAloud_total (env : Env) (src : List Char) (toks : List Tok) (h : InText src toks) :
    ∃ ls, (PRule.rule env ⟨patWasAloud, specWasAloud⟩) src toks = .ok ls := patternRule_total env _ fineWasAloud src toks h
theorem hyphenateNumberDay_total (env : Env) (src : List Char) (toks : List Tok) (h : InText src toks) :
    ∃ ls, (PRule.rule env ⟨patHyphenateNumberDay, specHyphenateNumberDay⟩) src toks = .ok ls := patternRule_total env _ fineHyphenateNumberDay src toks h
theorem leftRightHand_total (env : Env) (src : List Char) (toks : List Tok) (h : InText src toks) :
    ∃ ls, (PRule.rule env ⟨patLeftRightHand, specLeftRightHand⟩) src toks = .ok ls := patternRule_total env _ fineLeftRightHand src toks h
theorem hereby_total (env : Env) (src : List Char) (toks : List Tok) (h : InText src toks) :
    ∃ ls, (PRule.rule env ⟨patHereby, specHereby⟩) src toks = .ok ls := patternRule_total env _ fineHereby src toks h
theorem likewise_total (env : Env) (src : List Char) (toks : List Tok) (h : InText src toks) :
    ∃ ls, (PRule.rule env ⟨patLikewise, specLikewise⟩) src toks = .ok ls := patternRule_total env _ fineLikewise src toks h
theorem nobody_total (env : Env) (src : List Char) (toks : List Tok) (h : InText src toks) :
    ∃ ls, (PRule.rule env ⟨patNobody, specNobody⟩) src toks = .ok ls := patternRule_total env _ fineNobody src toks h
theorem whereas_total (env : Env) (src : List Char) (toks : List Tok) (h : InText src toks) :
    ∃ ls, (PRule.rule env ⟨patWhereas, specWhereas⟩) src toks = .ok ls := patternRule_total env _ fineWhereas src toks h
theorem possessiveYour_total (env : Env) (src : List Char) (toks : List Tok) (h : InText src toks) :
    ∃ ls, (PRule.rule env ⟨patPossessiveYour, specPossessiveYour⟩) src toks = .ok ls := patternRule_total env _ finePossessiveYour src toks h
theorem multipleSequentialPronouns_total (env : Env) (src : List Char) (toks : List Tok) (h : InText src toks) :
    ∃ ls, (PRule.rule env ⟨patMultipleSequentialPronouns, specMultipleSequentialPronouns⟩) src toks = .ok ls := patternRule_total env _ fineMultipleSequentialPronouns src toks h
theorem dotInitialisms_total (env : Env) (src : List Char) (toks : List Tok) (h : InText src toks) :
    ∃ ls, (PRule.rule env ⟨patDotInitialisms, specDotInitialisms⟩) src toks = .ok ls := patternRule_total env _ fineDotInitialisms src toks h
theorem boringWords_total (env : Env) (src : List Char) (toks : List Tok) (h : InText src toks) :
    ∃ ls, (PRule.rule env ⟨patBoringWords, specBoringWords⟩) src toks = .ok ls := patternRule_total env _ fineBoringWords src toks h
theorem useGenitive_total (env : Env) (src : List Char) (toks : List Tok) (h : InText src toks) :
    ∃ ls, (PRule.rule env ⟨patUseGenitive, specUseGenitive⟩) src toks = .ok ls := patternRule_total env _ fineUseGenitive src toks h
theorem thatWhich_total (env : Env) (src : List Char) (toks : List Tok) (h : InText src toks) :
    ∃ ls, (PRule.rule env ⟨patThatWhich, specThatWhich⟩) src toks = .ok ls := patternRule_total env _ fineThatWhich src toks h
theorem somewhatSomething_total (env : Env) (src : List Char) (toks : List Tok) (h : InText src toks) :
    ∃ ls, (PRule.rule env ⟨patSomewhatSomething, specSomewhatSomething⟩) src toks = .ok ls := patternRule_total env _ fineSomewhatSomething src toks h
theorem despiteOf_total (env : Env) (src : List Char) (toks : List Tok) (h : InText src toks) :
    ∃ ls, (PRule.rule env ⟨patDespiteOf, specDespiteOf⟩) src toks = .ok ls := patternRule_total env _ fineDespiteOf src toks h
theorem chockFull_total (env : Env) (src : List Char) (toks : List Tok) (h : InText src toks) :
    ∃ ls, (PRule.rule env ⟨patChockFull, specChockFull⟩) src toks = .ok ls := patternRule_total env _ fineChockFull src toks h
theorem confident_total (env : Env) (src : List Char) (toks : List Tok) (h : InText src toks) :
    ∃ ls, (PRule.rule env ⟨patConfident, specConfident⟩) src toks = .ok ls := patternRule_total env _ fineConfident src toks h
theorem oxymorons_total (env : Env) (src : List Char) (toks : List Tok) (h : InText src toks) :
    ∃ ls, (PRule.rule env ⟨patOxymorons, specOxymorons⟩) src toks = .ok ls := patternRule_total env _ fineOxymorons src toks h
theorem hedging_total (env : Env) (src : List Char) (toks : List Tok) (h : InText src toks) :
    ∃ ls, (PRule.rule env ⟨patHedging, specHedging⟩) src toks = .ok ls := patternRule_total env _ fineHedging src toks h
theorem expandTimeShorthands_total (env : Env) (src : List Char) (toks : List Tok) (h : InText src toks) :
    ∃ ls, (PRule.rule env ⟨patExpandTimeShorthands, specExpandTimeShorthands⟩) src toks = .ok ls := patternRule_total env _ fineExpandTimeShorthands src toks h
theorem forNoun_total (env : Env) (src : List Char) (toks : List Tok) (h : InText src toks) :
    ∃ ls, (PRule.rule env ⟨patForNoun, specForNoun⟩) src toks = .ok ls := patternRule_total env _ fineForNoun src toks h
theorem theHowWhy_total (env : Env) (src : List Char) (toks : List Tok) (h : InText src toks) :
    ∃ ls, (PRule.rule env ⟨patTheHowWhy, specTheHowWhy⟩) src toks = .ok ls := patternRule_total env _ fineTheHowWhy src toks h
theorem widelyAccepted_total (env : Env) (src : List Char) (toks : List Tok) (h : InText src toks) :
    ∃ ls, (PRule.rule env ⟨patWidelyAccepted, specWidelyAccepted⟩) src toks = .ok ls := patternRule_total env _ fineWidelyAccepted src toks h

/-! ## the length conditions are needed (kernel-evaluated) -/

open Harper.C12 (env0)

/-- four hyphens handed to Dashes' `match_to_lint`: `panic!("Received unexpected number of tokens.")` — its pattern
never matches four (`matches_at_most`) -/
example : specDashes.run env0 ['-', '-', '-', '-']
    [⟨⟨0, 1⟩, .punct .Hyphen⟩, ⟨⟨1, 2⟩, .punct .Hyphen⟩, ⟨⟨2, 3⟩, .punct .Hyphen⟩, ⟨⟨3, 4⟩, .punct .Hyphen⟩] = .error .assertFail := by decide

/-- … while the rule on `a----b` reports an em dash over the first three (and nothing for the fourth) -/
example : PRule.rule env0 ⟨patDashes, specDashes⟩ ['a', '-', '-', '-', '-', 'b']
    [⟨⟨0, 1⟩, .word⟩, ⟨⟨1, 2⟩, .punct .Hyphen⟩, ⟨⟨2, 3⟩, .punct .Hyphen⟩, ⟨⟨3, 4⟩, .punct .Hyphen⟩, ⟨⟨4, 5⟩, .punct .Hyphen⟩, ⟨⟨5, 6⟩, .word⟩] =
    .ok [⟨⟨1, 4⟩, [.replaceWith ['—']], 21, 3⟩] := by decide

/-- ThenThan's `matched_tokens[matched_tokens.len() - 3]` on two tokens: `usize` underflow -/
example : specThenThan.run env0 ['a', ' '] [⟨⟨0, 1⟩, .word⟩, ⟨⟨1, 2⟩, .space 1⟩] = .error .underflow := by decide

/-- UseGenitive's `matched_tokens[2]`, Hereby's `matched_tokens[0..3]` on two tokens: out of bounds -/
example : specUseGenitive.run env0 ['a', ' '] [⟨⟨0, 1⟩, .word⟩, ⟨⟨1, 2⟩, .space 1⟩] = .error .sliceOOB ∧
    specHereby.run env0 ['a', ' '] [⟨⟨0, 1⟩, .word⟩, ⟨⟨1, 2⟩, .space 1⟩] = .error .sliceOOB := by decide

/-- the hypotheses of `matchToLint_total` hold of a real match: `here by` + verb, five tokens -/
example : specHereby.run env0 ['h', 'e', 'r', 'e', ' ', 'b', 'y', ' ', 'g', 'o']
    [⟨⟨0, 4⟩, .word⟩, ⟨⟨4, 5⟩, .space 1⟩, ⟨⟨5, 7⟩, .word⟩, ⟨⟨7, 8⟩, .space 1⟩, ⟨⟨8, 10⟩, .word⟩] =
    .ok [⟨⟨0, 7⟩, [.replaceWith ['h', 'e', 'r', 'e', 'b', 'y']], 28, 0⟩] := by decide

end Harper.C01
