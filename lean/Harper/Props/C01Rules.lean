import Harper.Lemmas.PatternRules
import Harper.Props.C01Leaves
import Harper.Props.C01Pattern
/-!
# C01 (shipped `PatternLinter` rules) — none of the 28 rules panics

`Model/PatternRules.lean` has the pattern tree and the `match_to_lint` of every rule that `LintGroup::new_curated`
registers with `insert_pattern_rule!` (ModalOf is in `Model/Rules.lean`), and of TheHowWhy and WidelyAccepted
(`PatternLinter`s registered with `insert_struct_rule!`) — compared with the REAL rule structs on every run of the
check (`prulem`: `pattern().matches` on every suffix; `prule`: the lints; `pmtl`: `match_to_lint` on its matches
and on arbitrary short slices, where its index expressions panic).

Generic layer (any pattern tree `p`, any `match_to_lint` given as a `Spec`):

* `matches_at_least` / `matches_at_most`: a NON-ZERO answer of a tree is at least `p.minLen`, and at most `p.maxLen`
  where that is defined (sequences / alternatives of single-token closures) — on any tokens, no hypothesis;
* `matchToLint_total`: on in-text tokens (any order, zero-width ones included) whose number fits the spec's index
  expressions (`matched_tokens[i]`, `[a..b]`, `[len - k]`, Dashes' `match len { 2 .. 3 .. _ => panic!() }`) the
  `match_to_lint` returns;
* `matchToLint_reads_bound_variables` / `shippedRule_reads_bound_variables`: `Fits` also asks that every `.var i` refers to a
  text bound before it (`let`s are counted, the rules' own computations by `customSteps_yield`), so the interpreter's default
  for an unbound variable is never taken; a spec with an unbound variable is not `Fits` / `Fine` (`unbound_variable_not_fits`);
* `patternRule_total`: hence a rule whose tree is `plain`, whose own computations are total, and whose spec fits every
  length between `minLen` and `maxLen` (`Fine`) never panics — pattern, `run_on_chunk`, `match_to_lint`.

Per rule: `Fine` holds of each of the 28 (`allPatternRules_fine`, the side conditions are discharged by `decide` /
`omega`), so `shippedRule_total` and one corollary per rule name. The witnesses at the end show that the length
conditions are needed: every index expression does panic on a slice the rule's own pattern cannot produce.
-/
namespace Harper.C01
open Harper Harper.Chunks Harper.Rules Harper.Leaves Harper.PatternRules
open Harper.C12 (env0)

/-! ## how many tokens a tree matches -/

/-- **a non-zero answer of a pattern tree is at least its `minLen`** — what makes `matched_tokens[i]` safe -/
theorem matches_at_least (env : Env) (p : RPat) (src : List Char) (toks : List Tok) (n : Nat)
    (h : p.matcher env src toks = .ok n) (hn : n ≠ 0) : p.minLen ≤ n := matcher_lb env p src toks n h hn

/-- … and at most its `maxLen`, where the model knows one -/
theorem matches_at_most (env : Env) (p : RPat) (k : Nat) (hk : p.maxLen = some k) (src : List Char) (toks : List Tok) (n : Nat)
    (h : p.matcher env src toks = .ok n) : n ≤ k := matcher_ub env p k hk src toks n h

/-- non-vacuity of `matches_at_least` / `matches_at_most`: Dashes' tree on `---b` answers 3 (non-zero), and the two theorems
give `2 ≤ 3 ≤ 3` -/
example : patDashes.matcher env0 c!"---b" [⟨⟨0, 1⟩, .punct .Hyphen⟩, ⟨⟨1, 2⟩, .punct .Hyphen⟩, ⟨⟨2, 3⟩, .punct .Hyphen⟩, ⟨⟨3, 4⟩, .word⟩] = .ok 3 ∧
    patDashes.minLen ≤ 3 ∧ 3 ≤ 3 :=
  have h : patDashes.matcher env0 c!"---b" [⟨⟨0, 1⟩, .punct .Hyphen⟩, ⟨⟨1, 2⟩, .punct .Hyphen⟩, ⟨⟨2, 3⟩, .punct .Hyphen⟩, ⟨⟨3, 4⟩, .word⟩] = .ok 3 := by
    decide
  ⟨h, matches_at_least env0 patDashes _ _ 3 h (by decide), matches_at_most env0 patDashes 3 (by decide) _ _ 3 h⟩

/-- Dashes matches two or three tokens, never four -/
example : patDashes.minLen = 2 ∧ patDashes.maxLen = some 3 := by decide

/-- UseGenitive's `matched_tokens[2]`, ThenThan's `[len - 3]`, Hereby's `[0..3]`: the trees match at least five tokens -/
example : patUseGenitive.minLen = 5 ∧ patThenThan.minLen = 5 ∧ patHereby.minLen = 5 := by decide

/-! ## `match_to_lint` -/

/-- **every `match_to_lint` given as a `Spec`**: on in-text tokens, in any order, of a number that fits its index
expressions it returns (at most one lint) -/
theorem matchToLint_total (env : Env) (s : Spec) (hg : s.Good) (src : List Char) (matched : List Tok)
    (h : InText src matched) (hf : s.Fits matched.length) : ∃ ls, s.run env src matched = .ok ls :=
  (Spec.run_ok env s hg src matched h hf).imp fun _ h => h.1

/-- non-vacuity of `matchToLint_total`: Hereby's spec is `Good`, it `Fits` five tokens, the five tokens of `here by go`
are in the text — and the `match_to_lint` returns a lint (last example of this file) -/
example : specHereby.Good ∧ specHereby.Fits 5 ∧
    InText c!"here by go" [⟨⟨0, 4⟩, .word⟩, ⟨⟨4, 5⟩, .space 1⟩, ⟨⟨5, 7⟩, .word⟩, ⟨⟨7, 8⟩, .space 1⟩, ⟨⟨8, 10⟩, .word⟩] :=
  ⟨fineHereby.good, fineHereby.fits 5 (by decide) (by decide), by unfold InText TokIn; decide⟩

/-! ### every variable a `match_to_lint` uses is bound

A text `.var i` of a `Spec` is the `i`-th `let` of the Rust function; the interpreter reads it with `vars.getD i []`, so a
spec that referred to a variable it never bound would still "return" (with the empty text) — and would correspond to no Rust
code. `Spec.Fits` therefore counts the texts bound so far (`.bind` one; a computation of the rule's own as many as it hands
on, `CustomYields`) and asks `i <` that number of every `.var i`. Under `Fits` the default is dead: the interpreter equals the
one that has no default (`Spec.run?`: `vars[i]?`, `none` for an unbound variable). -/

/-- **a fitting text never reads an unbound variable** -/
theorem txt_reads_bound_variables (n : Nat) (src : List Char) (matched : List Tok) (vars : List (List Char)) (t : Txt)
    (hf : t.Fits n vars.length) : t.eval? src matched vars = some (t.eval src matched vars) := Txt.eval?_eq n src matched vars t hf

/-- non-vacuity of `txt_reads_bound_variables`: WasAloud's `format!("{verb} allowed")` with `verb` bound fits, and evaluates to
the bound text followed by the literal -/
example : (Txt.cat (.var 0) (.lit c!" allowed")).Fits 3 [c!"was"].length ∧
    (Txt.cat (.var 0) (.lit c!" allowed")).eval [] [] [c!"was"] = .ok (some c!"was allowed") :=
  ⟨⟨Nat.zero_lt_one, trivial⟩, by decide⟩

/-- **a fitting `match_to_lint` never reads an unbound variable**: interpreted with the default `[]` for an unbound `.var`
it is what it is interpreted without the default — on ANY tokens of that number (no other hypothesis) -/
theorem matchToLint_reads_bound_variables (env : Env) (s : Spec) (src : List Char) (matched : List Tok)
    (hf : s.Fits matched.length) : s.run? env src matched = some (s.run env src matched) := Spec.run?_eq env s src matched hf

/-- non-vacuity of `matchToLint_reads_bound_variables`: WasAloud's spec (`.bind` of the verb, then `.var 0` in the suggestion)
fits the three tokens of `was aloud`, and both interpreters give the lint -/
example : specWasAloud.Fits 3 ∧
    specWasAloud.run? env0 c!"was aloud" [⟨⟨0, 3⟩, .word⟩, ⟨⟨3, 4⟩, .space 1⟩, ⟨⟨4, 9⟩, .word⟩] =
      some (.ok [⟨⟨0, 9⟩, [.replaceWith c!"was allowed"], 25, 0⟩]) :=
  ⟨fineWasAloud.fits 3 (by decide) (by decide), by decide⟩

/-- **every shipped `PatternLinter` rule, by name, on every number of tokens its tree can match** -/
theorem shippedRule_reads_bound_variables (env : Env) (name : String) (r : PRule) (hn : patternRuleByName name = some r)
    (src : List Char) (matched : List Tok) (hmin : r.pat.minLen ≤ matched.length)
    (hmax : ∀ k, r.pat.maxLen = some k → matched.length ≤ k) : r.spec.run? env src matched = some (r.spec.run env src matched) :=
  Spec.run?_eq env r.spec src matched ((fine_of_name name r hn).fits _ hmin hmax)

/-- non-vacuity of `shippedRule_reads_bound_variables`: MultipleSequentialPronouns binds `[raw, second]` only on a match of three
tokens — where its two suggestions are `.var 0`, `.var 1` — and nothing otherwise — where it has no suggestion; three tokens
satisfy the hypotheses -/
example : patternRuleByName "MultipleSequentialPronouns" = some ⟨patMultipleSequentialPronouns, specMultipleSequentialPronouns⟩ ∧
    patMultipleSequentialPronouns.minLen ≤ 3 ∧ patMultipleSequentialPronouns.maxLen = none ∧
    specMultipleSequentialPronouns.suggs 3 = [.replace (.var 0), .replace (.var 1)] ∧ specMultipleSequentialPronouns.suggs 5 = [] :=
  ⟨rfl, by decide, by decide, rfl, rfl⟩

/-- how many texts the five computations hand on: none (two guards), one, or — MultipleSequentialPronouns — two on three tokens -/
theorem customSteps_yield (n : Nat) : CustomYields n 0 backGuard ∧ CustomYields n 1 piqueCorrect ∧
    CustomYields n (if n = 3 then 2 else 0) pronounGuard ∧ CustomYields n 1 initialismCorrection ∧ CustomYields n 1 timeExpansion :=
  ⟨backGuard_yields n, piqueCorrect_yields n, pronounGuard_yields n, initialismCorrection_yields n, timeExpansion_yields n⟩

/-- non-vacuity of `customSteps_yield` (each conjunct is an implication from "the computation goes on with `vs`"): they do go
on — `he she` gives the two pronouns, `peak` its correction -/
example : pronounGuard env0 c!"he she" [⟨⟨0, 2⟩, .word⟩, ⟨⟨2, 3⟩, .space 1⟩, ⟨⟨3, 6⟩, .word⟩] = .ok (some [c!"he", c!"she"]) ∧
    piqueCorrect env0 c!"peak" [⟨⟨0, 4⟩, .word⟩] = .ok (some [c!"pique"]) ∧
    backGuard env0 c!"back" [⟨⟨0, 4⟩, .word⟩] = .ok (some []) := by decide

/-- a spec that uses a variable it never binds: DotInitialisms' suggestion without the computation that binds it -/
def specUnbound : Spec where
  span := .whole
  suggs := fun _ => [.replace (.var 0)]
  msg := 34

/-- the same with the `let` -/
def specBound : Spec where
  before := [.bind (.sel .first)]
  span := .whole
  suggs := fun _ => [.replace (.var 0)]
  msg := 34

/-- NEGATIVE: the spec with the unbound variable fits NO number of tokens (before `Fits` counted the bound texts it fitted
every number: no index expression), so no rule with it is `Fine` … -/
theorem unbound_variable_not_fits (n : Nat) : ¬ specUnbound.Fits n := by
  intro h
  have := h.steps (.replace (.var 0)) (by simp [specUnbound])
  exact Nat.not_lt_zero _ this

/-- … whatever its tree is -/
theorem unbound_variable_not_fine (p : RPat) (hmax : p.maxLen = none) : ¬ Fine ⟨p, specUnbound⟩ := fun h =>
  unbound_variable_not_fits p.minLen (h.fits p.minLen (Nat.le_refl _) (fun k hk => by rw [show (PRule.mk p specUnbound).pat.maxLen = p.maxLen from rfl, hmax] at hk; cases hk))

/-- non-vacuity of `unbound_variable_not_fine`: Whereas' tree (no upper bound in the model) with that spec -/
example : patWhereas.maxLen = none ∧ ¬ Fine ⟨patWhereas, specUnbound⟩ := ⟨by decide, unbound_variable_not_fine _ (by decide)⟩

/-- … although its custom steps are `Good` (there is none) and the interpreter with the default "returns": the suggestion is the
EMPTY text, which no Rust `match_to_lint` computes; the interpreter without the default says `none` -/
example : specUnbound.Good ∧
    specUnbound.run env0 c!"ie." [⟨⟨0, 2⟩, .word⟩, ⟨⟨2, 3⟩, .punct .Period⟩] = .ok [⟨⟨0, 3⟩, [.replaceWith []], 34, 0⟩] ∧
    specUnbound.run? env0 c!"ie." [⟨⟨0, 2⟩, .word⟩, ⟨⟨2, 3⟩, .punct .Period⟩] = none :=
  ⟨⟨good_of_noCustom _ rfl, good_of_noCustom _ rfl⟩, by decide, by decide⟩

/-- POSITIVE: with the `let` the spec fits every number of tokens, a rule with it is `Fine`, and the two interpreters agree -/
theorem bound_variable_fits (n : Nat) : specBound.Fits n := by
  unfold specBound
  fits_tac

example : Fine ⟨patWhereas, specBound⟩ ∧
    specBound.run? env0 c!"ie." [⟨⟨0, 2⟩, .word⟩, ⟨⟨2, 3⟩, .punct .Period⟩] = some (.ok [⟨⟨0, 3⟩, [.replaceWith c!"ie"], 34, 0⟩]) ∧
    specBound.run env0 c!"ie." [⟨⟨0, 2⟩, .word⟩, ⟨⟨2, 3⟩, .punct .Period⟩] = .ok [⟨⟨0, 3⟩, [.replaceWith c!"ie"], 34, 0⟩] :=
  ⟨{ plain := fineWhereas.plain, loc := fineWhereas.loc, good := ⟨good_of_noCustom _ rfl, good_of_noCustom _ rfl⟩,
      fits := fun n _ _ => bound_variable_fits n }, by decide, by decide⟩

/-- a variable bound AFTER the place that uses it does not count: `.var 0` inside the first `.bind` -/
example : ¬ (Spec.Fits { before := [.bind (.var 0)], span := .whole, suggs := fun _ => [], msg := 0 } 1) := by
  intro h
  exact Nat.not_lt_zero _ h.steps.1

/-- the five rules that compute something of their own before the lint is built do so totally and locally -/
theorem customSteps_good : CustomGood 0 backGuard ∧ CustomGood 1 piqueCorrect ∧ CustomGood 0 pronounGuard ∧
    CustomGood 0 initialismCorrection ∧ CustomGood 0 timeExpansion :=
  ⟨backGuard_good, piqueCorrect_good, pronounGuard_good, initialismCorrection_good, timeExpansion_good⟩

/-! ## the rule -/

/-- **a fine rule never panics** on well-formed tokens inside the text — in ANY order, zero-width tokens included
(what the Markdown front-end delivers): the pattern tree, `run_on_chunk`, `match_to_lint` -/
theorem patternRule_total (env : Env) (r : PRule) (hr : Fine r) (src : List Char) (toks : List Tok) (h : InText src toks) :
    ∃ ls, r.rule env src toks = .ok ls :=
  (overPieces_okh inText_hyp _ _ src toks h (fun piece hpc => PRule.piece_ok env r hr src piece hpc)).imp fun _ h => h.1

/-- **every rule of the table is fine** -/
theorem shippedRules_fine : ∀ x ∈ allPatternRules, Fine x.2 := allPatternRules_fine

/-- **every shipped `PatternLinter` rule, by name** -/
theorem shippedRule_total (env : Env) (name : String) (r : PRule) (hn : patternRuleByName name = some r) (src : List Char)
    (toks : List Tok) (h : InText src toks) : ∃ ls, r.rule env src toks = .ok ls :=
  patternRule_total env r (fine_of_name name r hn) src toks h

/-- non-vacuity of `patternRule_total` / `shippedRule_total`: the name `"Dashes"` is in the table, its rule is `Fine`, the
tokens of `a----b` are in the text (the rule's lint on them: the example at the end of this file) -/
example : patternRuleByName "Dashes" = some ⟨patDashes, specDashes⟩ ∧ Fine ⟨patDashes, specDashes⟩ ∧
    InText c!"a----b" [⟨⟨0, 1⟩, .word⟩, ⟨⟨1, 2⟩, .punct .Hyphen⟩, ⟨⟨2, 3⟩, .punct .Hyphen⟩, ⟨⟨3, 4⟩, .punct .Hyphen⟩, ⟨⟨4, 5⟩, .punct .Hyphen⟩, ⟨⟨5, 6⟩, .word⟩] :=
  ⟨rfl, fineDashes, by unfold InText TokIn; decide⟩

/-- the table has the 28 names -/
example : allPatternRules.map (·.1) = ["BackInTheDay", "Dashes", "OutOfDate", "ThenThan", "PiqueInterest", "WasAloud", "HyphenateNumberDay", "LeftRightHand", "Hereby", "Likewise", "Nobody", "Whereas", "PossessiveYour", "MultipleSequentialPronouns", "DotInitialisms", "BoringWords", "UseGenitive", "ThatWhich", "SomewhatSomething", "DespiteOf", "ChockFull", "Confident", "Oxymorons", "Hedging", "ExpandTimeShorthands", "ForNoun", "TheHowWhy", "WidelyAccepted"] := by decide

/-! ## one corollary per rule -/

theorem backInTheDay_total (env : Env) (src : List Char) (toks : List Tok) (h : InText src toks) :
    ∃ ls, (PRule.rule env ⟨patBackInTheDay, specBackInTheDay⟩) src toks = .ok ls := patternRule_total env _ fineBackInTheDay src toks h
/-- non-vacuity of `backInTheDay_total`: the tokens of `back in the days` are in the text and the rule fires -/
example : InText c!"back in the days" [⟨⟨0, 4⟩, .word⟩, ⟨⟨4, 5⟩, .space 1⟩, ⟨⟨5, 7⟩, .word⟩, ⟨⟨7, 8⟩, .space 1⟩, ⟨⟨8, 11⟩, .word⟩, ⟨⟨11, 12⟩, .space 1⟩, ⟨⟨12, 16⟩, .word⟩] ∧
    PRule.rule env0 ⟨patBackInTheDay, specBackInTheDay⟩ c!"back in the days"
      [⟨⟨0, 4⟩, .word⟩, ⟨⟨4, 5⟩, .space 1⟩, ⟨⟨5, 7⟩, .word⟩, ⟨⟨7, 8⟩, .space 1⟩, ⟨⟨8, 11⟩, .word⟩, ⟨⟨11, 12⟩, .space 1⟩, ⟨⟨12, 16⟩, .word⟩] =
    .ok [⟨⟨0, 16⟩, [.replaceWith c!"back in the day"], 20, 0⟩] := ⟨by unfold InText TokIn; decide, by decide⟩
theorem dashes_total (env : Env) (src : List Char) (toks : List Tok) (h : InText src toks) :
    ∃ ls, (PRule.rule env ⟨patDashes, specDashes⟩) src toks = .ok ls := patternRule_total env _ fineDashes src toks h
/-- non-vacuity of `dashes_total`: the tokens of `a--b` are in the text and the rule fires -/
example : InText c!"a--b" [⟨⟨0, 1⟩, .word⟩, ⟨⟨1, 2⟩, .punct .Hyphen⟩, ⟨⟨2, 3⟩, .punct .Hyphen⟩, ⟨⟨3, 4⟩, .word⟩] ∧
    PRule.rule env0 ⟨patDashes, specDashes⟩ c!"a--b"
      [⟨⟨0, 1⟩, .word⟩, ⟨⟨1, 2⟩, .punct .Hyphen⟩, ⟨⟨2, 3⟩, .punct .Hyphen⟩, ⟨⟨3, 4⟩, .word⟩] =
    .ok [⟨⟨1, 3⟩, [.replaceWith ['–']], 21, 2⟩] := ⟨by unfold InText TokIn; decide, by decide⟩
theorem outOfDate_total (env : Env) (src : List Char) (toks : List Tok) (h : InText src toks) :
    ∃ ls, (PRule.rule env ⟨patOutOfDate, specOutOfDate⟩) src toks = .ok ls := patternRule_total env _ fineOutOfDate src toks h
/-- non-vacuity of `outOfDate_total`: the tokens of `out of date` are in the text and the rule fires -/
example : InText c!"out of date" [⟨⟨0, 3⟩, .word⟩, ⟨⟨3, 4⟩, .space 1⟩, ⟨⟨4, 6⟩, .word⟩, ⟨⟨6, 7⟩, .space 1⟩, ⟨⟨7, 11⟩, .word⟩] ∧
    PRule.rule env0 ⟨patOutOfDate, specOutOfDate⟩ c!"out of date"
      [⟨⟨0, 3⟩, .word⟩, ⟨⟨3, 4⟩, .space 1⟩, ⟨⟨4, 6⟩, .word⟩, ⟨⟨6, 7⟩, .space 1⟩, ⟨⟨7, 11⟩, .word⟩] =
    .ok [⟨⟨0, 11⟩, [.replaceWith c!"out-of-date"], 22, 0⟩] := ⟨by unfold InText TokIn; decide, by decide⟩
theorem thenThan_total (env : Env) (src : List Char) (toks : List Tok) (h : InText src toks) :
    ∃ ls, (PRule.rule env ⟨patThenThan, specThenThan⟩) src toks = .ok ls := patternRule_total env _ fineThenThan src toks h
/-- non-vacuity of `thenThan_total`: the tokens of `bigger then you` are in the text and the rule fires -/
example : InText c!"bigger then you" [⟨⟨0, 6⟩, .word⟩, ⟨⟨6, 7⟩, .space 1⟩, ⟨⟨7, 11⟩, .word⟩, ⟨⟨11, 12⟩, .space 1⟩, ⟨⟨12, 15⟩, .word⟩] ∧
    PRule.rule { env0 with wordFlags := fun w => if w == c!"bigger" then 8 else 0 } ⟨patThenThan, specThenThan⟩ c!"bigger then you"
      [⟨⟨0, 6⟩, .word⟩, ⟨⟨6, 7⟩, .space 1⟩, ⟨⟨7, 11⟩, .word⟩, ⟨⟨11, 12⟩, .space 1⟩, ⟨⟨12, 15⟩, .word⟩] =
    .ok [⟨⟨7, 11⟩, [.replaceWith c!"than"], 23, 0⟩] := ⟨by unfold InText TokIn; decide, by decide⟩
theorem piqueInterest_total (env : Env) (src : List Char) (toks : List Tok) (h : InText src toks) :
    ∃ ls, (PRule.rule env ⟨patPiqueInterest, specPiqueInterest⟩) src toks = .ok ls := patternRule_total env _ finePiqueInterest src toks h
/-- non-vacuity of `piqueInterest_total`: the tokens of `peak my interest` are in the text and the rule fires -/
example : InText c!"peak my interest" [⟨⟨0, 4⟩, .word⟩, ⟨⟨4, 5⟩, .space 1⟩, ⟨⟨5, 7⟩, .word⟩, ⟨⟨7, 8⟩, .space 1⟩, ⟨⟨8, 16⟩, .word⟩] ∧
    PRule.rule { env0 with wordFlags := fun w => if w == c!"my" then 16384 else 0 } ⟨patPiqueInterest, specPiqueInterest⟩ c!"peak my interest"
      [⟨⟨0, 4⟩, .word⟩, ⟨⟨4, 5⟩, .space 1⟩, ⟨⟨5, 7⟩, .word⟩, ⟨⟨7, 8⟩, .space 1⟩, ⟨⟨8, 16⟩, .word⟩] =
    .ok [⟨⟨0, 4⟩, [.replaceWith c!"pique"], 24, 0⟩] := ⟨by unfold InText TokIn; decide, by decide⟩
theorem wasAloud_total (env : Env) (src : List Char) (toks : List Tok) (h : InText src toks) :
    ∃ ls, (PRule.rule env ⟨patWasAloud, specWasAloud⟩) src toks = .ok ls := patternRule_total env _ fineWasAloud src toks h
/-- non-vacuity of `wasAloud_total`: the tokens of `was aloud` are in the text and the rule fires -/
example : InText c!"was aloud" [⟨⟨0, 3⟩, .word⟩, ⟨⟨3, 4⟩, .space 1⟩, ⟨⟨4, 9⟩, .word⟩] ∧
    PRule.rule env0 ⟨patWasAloud, specWasAloud⟩ c!"was aloud"
      [⟨⟨0, 3⟩, .word⟩, ⟨⟨3, 4⟩, .space 1⟩, ⟨⟨4, 9⟩, .word⟩] =
    .ok [⟨⟨0, 9⟩, [.replaceWith c!"was allowed"], 25, 0⟩] := ⟨by unfold InText TokIn; decide, by decide⟩
theorem hyphenateNumberDay_total (env : Env) (src : List Char) (toks : List Tok) (h : InText src toks) :
    ∃ ls, (PRule.rule env ⟨patHyphenateNumberDay, specHyphenateNumberDay⟩) src toks = .ok ls := patternRule_total env _ fineHyphenateNumberDay src toks h
/-- non-vacuity of `hyphenateNumberDay_total`: the tokens of `5 day plan` are in the text and the rule fires -/
example : InText c!"5 day plan" [⟨⟨0, 1⟩, .number 10 none⟩, ⟨⟨1, 2⟩, .space 1⟩, ⟨⟨2, 5⟩, .word⟩, ⟨⟨5, 6⟩, .space 1⟩, ⟨⟨6, 10⟩, .word⟩] ∧
    PRule.rule { env0 with wordFlags := fun w => if w == c!"plan" then 33088 else 0 } ⟨patHyphenateNumberDay, specHyphenateNumberDay⟩ c!"5 day plan"
      [⟨⟨0, 1⟩, .number 10 none⟩, ⟨⟨1, 2⟩, .space 1⟩, ⟨⟨2, 5⟩, .word⟩, ⟨⟨5, 6⟩, .space 1⟩, ⟨⟨6, 10⟩, .word⟩] =
    .ok [⟨⟨1, 2⟩, [.replaceWith c!"-"], 26, 0⟩] := ⟨by unfold InText TokIn; decide, by decide⟩
theorem leftRightHand_total (env : Env) (src : List Char) (toks : List Tok) (h : InText src toks) :
    ∃ ls, (PRule.rule env ⟨patLeftRightHand, specLeftRightHand⟩) src toks = .ok ls := patternRule_total env _ fineLeftRightHand src toks h
/-- non-vacuity of `leftRightHand_total`: the tokens of `left hand side` are in the text and the rule fires -/
example : InText c!"left hand side" [⟨⟨0, 4⟩, .word⟩, ⟨⟨4, 5⟩, .space 1⟩, ⟨⟨5, 9⟩, .word⟩, ⟨⟨9, 10⟩, .space 1⟩, ⟨⟨10, 14⟩, .word⟩] ∧
    PRule.rule { env0 with wordFlags := fun w => if w == c!"side" then 256 else 0 } ⟨patLeftRightHand, specLeftRightHand⟩ c!"left hand side"
      [⟨⟨0, 4⟩, .word⟩, ⟨⟨4, 5⟩, .space 1⟩, ⟨⟨5, 9⟩, .word⟩, ⟨⟨9, 10⟩, .space 1⟩, ⟨⟨10, 14⟩, .word⟩] =
    .ok [⟨⟨4, 5⟩, [.replaceWith c!"-"], 27, 0⟩] := ⟨by unfold InText TokIn; decide, by decide⟩
theorem hereby_total (env : Env) (src : List Char) (toks : List Tok) (h : InText src toks) :
    ∃ ls, (PRule.rule env ⟨patHereby, specHereby⟩) src toks = .ok ls := patternRule_total env _ fineHereby src toks h
/-- non-vacuity of `hereby_total`: the tokens of `here by go` are in the text and the rule fires -/
example : InText c!"here by go" [⟨⟨0, 4⟩, .word⟩, ⟨⟨4, 5⟩, .space 1⟩, ⟨⟨5, 7⟩, .word⟩, ⟨⟨7, 8⟩, .space 1⟩, ⟨⟨8, 10⟩, .word⟩] ∧
    PRule.rule { env0 with wordFlags := fun w => if w == c!"go" then 128 else 0 } ⟨patHereby, specHereby⟩ c!"here by go"
      [⟨⟨0, 4⟩, .word⟩, ⟨⟨4, 5⟩, .space 1⟩, ⟨⟨5, 7⟩, .word⟩, ⟨⟨7, 8⟩, .space 1⟩, ⟨⟨8, 10⟩, .word⟩] =
    .ok [⟨⟨0, 7⟩, [.replaceWith c!"hereby"], 28, 0⟩] := ⟨by unfold InText TokIn; decide, by decide⟩
theorem likewise_total (env : Env) (src : List Char) (toks : List Tok) (h : InText src toks) :
    ∃ ls, (PRule.rule env ⟨patLikewise, specLikewise⟩) src toks = .ok ls := patternRule_total env _ fineLikewise src toks h
/-- non-vacuity of `likewise_total`: the tokens of `like wise` are in the text and the rule fires -/
example : InText c!"like wise" [⟨⟨0, 4⟩, .word⟩, ⟨⟨4, 5⟩, .space 1⟩, ⟨⟨5, 9⟩, .word⟩] ∧
    PRule.rule env0 ⟨patLikewise, specLikewise⟩ c!"like wise"
      [⟨⟨0, 4⟩, .word⟩, ⟨⟨4, 5⟩, .space 1⟩, ⟨⟨5, 9⟩, .word⟩] =
    .ok [⟨⟨0, 9⟩, [.replaceWith c!"likewise"], 29, 0⟩] := ⟨by unfold InText TokIn; decide, by decide⟩
theorem nobody_total (env : Env) (src : List Char) (toks : List Tok) (h : InText src toks) :
    ∃ ls, (PRule.rule env ⟨patNobody, specNobody⟩) src toks = .ok ls := patternRule_total env _ fineNobody src toks h
/-- non-vacuity of `nobody_total`: the tokens of `no body cares` are in the text and the rule fires -/
example : InText c!"no body cares" [⟨⟨0, 2⟩, .word⟩, ⟨⟨2, 3⟩, .space 1⟩, ⟨⟨3, 7⟩, .word⟩, ⟨⟨7, 8⟩, .space 1⟩, ⟨⟨8, 13⟩, .word⟩] ∧
    PRule.rule { env0 with wordFlags := fun w => if w == c!"cares" then 128 else 0 } ⟨patNobody, specNobody⟩ c!"no body cares"
      [⟨⟨0, 2⟩, .word⟩, ⟨⟨2, 3⟩, .space 1⟩, ⟨⟨3, 7⟩, .word⟩, ⟨⟨7, 8⟩, .space 1⟩, ⟨⟨8, 13⟩, .word⟩] =
    .ok [⟨⟨0, 7⟩, [.replaceWith c!"nobody"], 30, 0⟩] := ⟨by unfold InText TokIn; decide, by decide⟩
theorem whereas_total (env : Env) (src : List Char) (toks : List Tok) (h : InText src toks) :
    ∃ ls, (PRule.rule env ⟨patWhereas, specWhereas⟩) src toks = .ok ls := patternRule_total env _ fineWhereas src toks h
/-- non-vacuity of `whereas_total`: the tokens of `where as` are in the text and the rule fires -/
example : InText c!"where as" [⟨⟨0, 5⟩, .word⟩, ⟨⟨5, 6⟩, .space 1⟩, ⟨⟨6, 8⟩, .word⟩] ∧
    PRule.rule env0 ⟨patWhereas, specWhereas⟩ c!"where as"
      [⟨⟨0, 5⟩, .word⟩, ⟨⟨5, 6⟩, .space 1⟩, ⟨⟨6, 8⟩, .word⟩] =
    .ok [⟨⟨0, 8⟩, [.replaceWith c!"whereas"], 31, 0⟩] := ⟨by unfold InText TokIn; decide, by decide⟩
theorem possessiveYour_total (env : Env) (src : List Char) (toks : List Tok) (h : InText src toks) :
    ∃ ls, (PRule.rule env ⟨patPossessiveYour, specPossessiveYour⟩) src toks = .ok ls := patternRule_total env _ finePossessiveYour src toks h
/-- non-vacuity of `possessiveYour_total`: the tokens of `you cat` are in the text and the rule fires -/
example : InText c!"you cat" [⟨⟨0, 3⟩, .word⟩, ⟨⟨3, 4⟩, .space 1⟩, ⟨⟨4, 7⟩, .word⟩] ∧
    PRule.rule { env0 with wordFlags := fun w => if w == c!"cat" then 64 else 0 } ⟨patPossessiveYour, specPossessiveYour⟩ c!"you cat"
      [⟨⟨0, 3⟩, .word⟩, ⟨⟨3, 4⟩, .space 1⟩, ⟨⟨4, 7⟩, .word⟩] =
    .ok [⟨⟨0, 3⟩, [.replaceWith c!"your", .replaceWith ['y', 'o', 'u', '\'', 'r', 'e', ' ', 'a', 'n']], 32, 0⟩] := ⟨by unfold InText TokIn; decide, by decide⟩
theorem multipleSequentialPronouns_total (env : Env) (src : List Char) (toks : List Tok) (h : InText src toks) :
    ∃ ls, (PRule.rule env ⟨patMultipleSequentialPronouns, specMultipleSequentialPronouns⟩) src toks = .ok ls := patternRule_total env _ fineMultipleSequentialPronouns src toks h
/-- non-vacuity of `multipleSequentialPronouns_total`: the tokens of `he she` are in the text and the rule fires -/
example : InText c!"he she" [⟨⟨0, 2⟩, .word⟩, ⟨⟨2, 3⟩, .space 1⟩, ⟨⟨3, 6⟩, .word⟩] ∧
    PRule.rule env0 ⟨patMultipleSequentialPronouns, specMultipleSequentialPronouns⟩ c!"he she"
      [⟨⟨0, 2⟩, .word⟩, ⟨⟨2, 3⟩, .space 1⟩, ⟨⟨3, 6⟩, .word⟩] =
    .ok [⟨⟨0, 6⟩, [.replaceWith c!"he", .replaceWith c!"she"], 33, 0⟩] := ⟨by unfold InText TokIn; decide, by decide⟩
theorem dotInitialisms_total (env : Env) (src : List Char) (toks : List Tok) (h : InText src toks) :
    ∃ ls, (PRule.rule env ⟨patDotInitialisms, specDotInitialisms⟩) src toks = .ok ls := patternRule_total env _ fineDotInitialisms src toks h
/-- non-vacuity of `dotInitialisms_total`: the tokens of `ie.` are in the text and the rule fires -/
example : InText c!"ie." [⟨⟨0, 2⟩, .word⟩, ⟨⟨2, 3⟩, .punct .Period⟩] ∧
    PRule.rule env0 ⟨patDotInitialisms, specDotInitialisms⟩ c!"ie."
      [⟨⟨0, 2⟩, .word⟩, ⟨⟨2, 3⟩, .punct .Period⟩] =
    .ok [⟨⟨0, 3⟩, [.replaceWith c!"i.e."], 34, 0⟩] := ⟨by unfold InText TokIn; decide, by decide⟩
theorem boringWords_total (env : Env) (src : List Char) (toks : List Tok) (h : InText src toks) :
    ∃ ls, (PRule.rule env ⟨patBoringWords, specBoringWords⟩) src toks = .ok ls := patternRule_total env _ fineBoringWords src toks h
/-- non-vacuity of `boringWords_total`: the tokens of `very` are in the text and the rule fires -/
example : InText c!"very" [⟨⟨0, 4⟩, .word⟩] ∧
    PRule.rule env0 ⟨patBoringWords, specBoringWords⟩ c!"very"
      [⟨⟨0, 4⟩, .word⟩] =
    .ok [⟨⟨0, 4⟩, [], 35, 0⟩] := ⟨by unfold InText TokIn; decide, by decide⟩
theorem useGenitive_total (env : Env) (src : List Char) (toks : List Tok) (h : InText src toks) :
    ∃ ls, (PRule.rule env ⟨patUseGenitive, specUseGenitive⟩) src toks = .ok ls := patternRule_total env _ fineUseGenitive src toks h
/-- non-vacuity of `useGenitive_total`: the tokens of `see there dog` are in the text and the rule fires -/
example : InText c!"see there dog" [⟨⟨0, 3⟩, .word⟩, ⟨⟨3, 4⟩, .space 1⟩, ⟨⟨4, 9⟩, .word⟩, ⟨⟨9, 10⟩, .space 1⟩, ⟨⟨10, 13⟩, .word⟩] ∧
    PRule.rule { env0 with wordFlags := fun w => if w == c!"dog" then 256 else 0 } ⟨patUseGenitive, specUseGenitive⟩ c!"see there dog"
      [⟨⟨0, 3⟩, .word⟩, ⟨⟨3, 4⟩, .space 1⟩, ⟨⟨4, 9⟩, .word⟩, ⟨⟨9, 10⟩, .space 1⟩, ⟨⟨10, 13⟩, .word⟩] =
    .ok [⟨⟨4, 9⟩, [.replaceWith c!"their"], 36, 0⟩] := ⟨by unfold InText TokIn; decide, by decide⟩
theorem thatWhich_total (env : Env) (src : List Char) (toks : List Tok) (h : InText src toks) :
    ∃ ls, (PRule.rule env ⟨patThatWhich, specThatWhich⟩) src toks = .ok ls := patternRule_total env _ fineThatWhich src toks h
/-- non-vacuity of `thatWhich_total`: the tokens of `that that` are in the text and the rule fires -/
example : InText c!"that that" [⟨⟨0, 4⟩, .word⟩, ⟨⟨4, 5⟩, .space 1⟩, ⟨⟨5, 9⟩, .word⟩] ∧
    PRule.rule env0 ⟨patThatWhich, specThatWhich⟩ c!"that that"
      [⟨⟨0, 4⟩, .word⟩, ⟨⟨4, 5⟩, .space 1⟩, ⟨⟨5, 9⟩, .word⟩] =
    .ok [⟨⟨0, 9⟩, [.replaceWith c!"that which"], 37, 0⟩] := ⟨by unfold InText TokIn; decide, by decide⟩
theorem somewhatSomething_total (env : Env) (src : List Char) (toks : List Tok) (h : InText src toks) :
    ∃ ls, (PRule.rule env ⟨patSomewhatSomething, specSomewhatSomething⟩) src toks = .ok ls := patternRule_total env _ fineSomewhatSomething src toks h
/-- non-vacuity of `somewhatSomething_total`: the tokens of `somewhat of a` are in the text and the rule fires -/
example : InText c!"somewhat of a" [⟨⟨0, 8⟩, .word⟩, ⟨⟨8, 9⟩, .space 1⟩, ⟨⟨9, 11⟩, .word⟩, ⟨⟨11, 12⟩, .space 1⟩, ⟨⟨12, 13⟩, .word⟩] ∧
    PRule.rule env0 ⟨patSomewhatSomething, specSomewhatSomething⟩ c!"somewhat of a"
      [⟨⟨0, 8⟩, .word⟩, ⟨⟨8, 9⟩, .space 1⟩, ⟨⟨9, 11⟩, .word⟩, ⟨⟨11, 12⟩, .space 1⟩, ⟨⟨12, 13⟩, .word⟩] =
    .ok [⟨⟨0, 8⟩, [.replaceWith c!"something"], 38, 0⟩] := ⟨by unfold InText TokIn; decide, by decide⟩
theorem despiteOf_total (env : Env) (src : List Char) (toks : List Tok) (h : InText src toks) :
    ∃ ls, (PRule.rule env ⟨patDespiteOf, specDespiteOf⟩) src toks = .ok ls := patternRule_total env _ fineDespiteOf src toks h
/-- non-vacuity of `despiteOf_total`: the tokens of `despite of` are in the text and the rule fires -/
example : InText c!"despite of" [⟨⟨0, 7⟩, .word⟩, ⟨⟨7, 8⟩, .space 1⟩, ⟨⟨8, 10⟩, .word⟩] ∧
    PRule.rule env0 ⟨patDespiteOf, specDespiteOf⟩ c!"despite of"
      [⟨⟨0, 7⟩, .word⟩, ⟨⟨7, 8⟩, .space 1⟩, ⟨⟨8, 10⟩, .word⟩] =
    .ok [⟨⟨0, 10⟩, [.replaceWith c!"despite", .replaceWith c!"in spite of"], 39, 0⟩] := ⟨by unfold InText TokIn; decide, by decide⟩
theorem chockFull_total (env : Env) (src : List Char) (toks : List Tok) (h : InText src toks) :
    ∃ ls, (PRule.rule env ⟨patChockFull, specChockFull⟩) src toks = .ok ls := patternRule_total env _ fineChockFull src toks h
/-- non-vacuity of `chockFull_total`: the tokens of `chalk full` are in the text and the rule fires -/
example : InText c!"chalk full" [⟨⟨0, 5⟩, .word⟩, ⟨⟨5, 6⟩, .space 1⟩, ⟨⟨6, 10⟩, .word⟩] ∧
    PRule.rule env0 ⟨patChockFull, specChockFull⟩ c!"chalk full"
      [⟨⟨0, 5⟩, .word⟩, ⟨⟨5, 6⟩, .space 1⟩, ⟨⟨6, 10⟩, .word⟩] =
    .ok [⟨⟨0, 10⟩, [.replaceWith c!"chock-full"], 40, 1⟩] := ⟨by unfold InText TokIn; decide, by decide⟩
theorem confident_total (env : Env) (src : List Char) (toks : List Tok) (h : InText src toks) :
    ∃ ls, (PRule.rule env ⟨patConfident, specConfident⟩) src toks = .ok ls := patternRule_total env _ fineConfident src toks h
/-- non-vacuity of `confident_total`: the tokens of `very confidant` are in the text and the rule fires -/
example : InText c!"very confidant" [⟨⟨0, 4⟩, .word⟩, ⟨⟨4, 5⟩, .space 1⟩, ⟨⟨5, 14⟩, .word⟩] ∧
    PRule.rule env0 ⟨patConfident, specConfident⟩ c!"very confidant"
      [⟨⟨0, 4⟩, .word⟩, ⟨⟨4, 5⟩, .space 1⟩, ⟨⟨5, 14⟩, .word⟩] =
    .ok [⟨⟨5, 14⟩, [.replaceWith c!"confident"], 41, 0⟩] := ⟨by unfold InText TokIn; decide, by decide⟩
theorem oxymorons_total (env : Env) (src : List Char) (toks : List Tok) (h : InText src toks) :
    ∃ ls, (PRule.rule env ⟨patOxymorons, specOxymorons⟩) src toks = .ok ls := patternRule_total env _ fineOxymorons src toks h
/-- non-vacuity of `oxymorons_total`: the tokens of `amateur expert` are in the text and the rule fires -/
example : InText c!"amateur expert" [⟨⟨0, 7⟩, .word⟩, ⟨⟨7, 8⟩, .space 1⟩, ⟨⟨8, 14⟩, .word⟩] ∧
    PRule.rule env0 ⟨patOxymorons, specOxymorons⟩ c!"amateur expert"
      [⟨⟨0, 7⟩, .word⟩, ⟨⟨7, 8⟩, .space 1⟩, ⟨⟨8, 14⟩, .word⟩] =
    .ok [⟨⟨0, 14⟩, [], 42, 0⟩] := ⟨by unfold InText TokIn; decide, by decide⟩
theorem hedging_total (env : Env) (src : List Char) (toks : List Tok) (h : InText src toks) :
    ∃ ls, (PRule.rule env ⟨patHedging, specHedging⟩) src toks = .ok ls := patternRule_total env _ fineHedging src toks h
/-- non-vacuity of `hedging_total`: the tokens of `to a certain degree` are in the text and the rule fires -/
example : InText c!"to a certain degree" [⟨⟨0, 2⟩, .word⟩, ⟨⟨2, 3⟩, .space 1⟩, ⟨⟨3, 4⟩, .word⟩, ⟨⟨4, 5⟩, .space 1⟩, ⟨⟨5, 12⟩, .word⟩, ⟨⟨12, 13⟩, .space 1⟩, ⟨⟨13, 19⟩, .word⟩] ∧
    PRule.rule env0 ⟨patHedging, specHedging⟩ c!"to a certain degree"
      [⟨⟨0, 2⟩, .word⟩, ⟨⟨2, 3⟩, .space 1⟩, ⟨⟨3, 4⟩, .word⟩, ⟨⟨4, 5⟩, .space 1⟩, ⟨⟨5, 12⟩, .word⟩, ⟨⟨12, 13⟩, .space 1⟩, ⟨⟨13, 19⟩, .word⟩] =
    .ok [⟨⟨0, 19⟩, [], 43, 0⟩] := ⟨by unfold InText TokIn; decide, by decide⟩
theorem expandTimeShorthands_total (env : Env) (src : List Char) (toks : List Tok) (h : InText src toks) :
    ∃ ls, (PRule.rule env ⟨patExpandTimeShorthands, specExpandTimeShorthands⟩) src toks = .ok ls := patternRule_total env _ fineExpandTimeShorthands src toks h
/-- non-vacuity of `expandTimeShorthands_total`: the tokens of `5 hrs` are in the text and the rule fires -/
example : InText c!"5 hrs" [⟨⟨0, 1⟩, .number 10 none⟩, ⟨⟨1, 2⟩, .space 1⟩, ⟨⟨2, 5⟩, .word⟩] ∧
    PRule.rule env0 ⟨patExpandTimeShorthands, specExpandTimeShorthands⟩ c!"5 hrs"
      [⟨⟨0, 1⟩, .number 10 none⟩, ⟨⟨1, 2⟩, .space 1⟩, ⟨⟨2, 5⟩, .word⟩] =
    .ok [⟨⟨2, 5⟩, [.replaceWith c!"hours"], 44, 0⟩] := ⟨by unfold InText TokIn; decide, by decide⟩
theorem forNoun_total (env : Env) (src : List Char) (toks : List Tok) (h : InText src toks) :
    ∃ ls, (PRule.rule env ⟨patForNoun, specForNoun⟩) src toks = .ok ls := patternRule_total env _ fineForNoun src toks h
/-- non-vacuity of `forNoun_total`: the tokens of `fro sure` are in the text and the rule fires -/
example : InText c!"fro sure" [⟨⟨0, 3⟩, .word⟩, ⟨⟨3, 4⟩, .space 1⟩, ⟨⟨4, 8⟩, .word⟩] ∧
    PRule.rule env0 ⟨patForNoun, specForNoun⟩ c!"fro sure"
      [⟨⟨0, 3⟩, .word⟩, ⟨⟨3, 4⟩, .space 1⟩, ⟨⟨4, 8⟩, .word⟩] =
    .ok [⟨⟨0, 3⟩, [.replaceWith c!"for"], 45, 0⟩] := ⟨by unfold InText TokIn; decide, by decide⟩
theorem theHowWhy_total (env : Env) (src : List Char) (toks : List Tok) (h : InText src toks) :
    ∃ ls, (PRule.rule env ⟨patTheHowWhy, specTheHowWhy⟩) src toks = .ok ls := patternRule_total env _ fineTheHowWhy src toks h
/-- non-vacuity of `theHowWhy_total`: the tokens of `the why x` are in the text and the rule fires -/
example : InText c!"the why x" [⟨⟨0, 3⟩, .word⟩, ⟨⟨3, 4⟩, .space 1⟩, ⟨⟨4, 7⟩, .word⟩, ⟨⟨7, 8⟩, .space 1⟩, ⟨⟨8, 9⟩, .word⟩] ∧
    PRule.rule env0 ⟨patTheHowWhy, specTheHowWhy⟩ c!"the why x"
      [⟨⟨0, 3⟩, .word⟩, ⟨⟨3, 4⟩, .space 1⟩, ⟨⟨4, 7⟩, .word⟩, ⟨⟨7, 8⟩, .space 1⟩, ⟨⟨8, 9⟩, .word⟩] =
    .ok [⟨⟨0, 4⟩, [.remove], 46, 0⟩] := ⟨by unfold InText TokIn; decide, by decide⟩
theorem widelyAccepted_total (env : Env) (src : List Char) (toks : List Tok) (h : InText src toks) :
    ∃ ls, (PRule.rule env ⟨patWidelyAccepted, specWidelyAccepted⟩) src toks = .ok ls := patternRule_total env _ fineWidelyAccepted src toks h
/-- non-vacuity of `widelyAccepted_total`: the tokens of `wide used` are in the text and the rule fires -/
example : InText c!"wide used" [⟨⟨0, 4⟩, .word⟩, ⟨⟨4, 5⟩, .space 1⟩, ⟨⟨5, 9⟩, .word⟩] ∧
    PRule.rule env0 ⟨patWidelyAccepted, specWidelyAccepted⟩ c!"wide used"
      [⟨⟨0, 4⟩, .word⟩, ⟨⟨4, 5⟩, .space 1⟩, ⟨⟨5, 9⟩, .word⟩] =
    .ok [⟨⟨0, 4⟩, [.replaceWith c!"widely"], 47, 0⟩] := ⟨by unfold InText TokIn; decide, by decide⟩

/-! ## the length conditions are needed (kernel-evaluated) -/

open Harper.C12 (env0)

/-- four hyphens handed to Dashes' `match_to_lint`: `panic!("Received unexpected number of tokens.")` — its pattern
never matches four (`matches_at_most`) -/
example : specDashes.run env0 ['-', '-', '-', '-']
    [⟨⟨0, 1⟩, .punct .Hyphen⟩, ⟨⟨1, 2⟩, .punct .Hyphen⟩, ⟨⟨2, 3⟩, .punct .Hyphen⟩, ⟨⟨3, 4⟩, .punct .Hyphen⟩] = .error .assertFail := by decide

/-- … while the rule on `a----b` reports an em dash over the first three (and nothing for the fourth) -/
example : PRule.rule env0 ⟨patDashes, specDashes⟩ ['a', '-', '-', '-', '-', 'b']
    [⟨⟨0, 1⟩, .word⟩, ⟨⟨1, 2⟩, .punct .Hyphen⟩, ⟨⟨2, 3⟩, .punct .Hyphen⟩, ⟨⟨3, 4⟩, .punct .Hyphen⟩, ⟨⟨4, 5⟩, .punct .Hyphen⟩, ⟨⟨5, 6⟩, .word⟩] =
    .ok [⟨⟨1, 4⟩, [.replaceWith ['—']], 21, 3⟩] := by decide

/-- ThenThan's `matched_tokens[matched_tokens.len() - 3]` on two tokens: `usize` underflow -/
example : specThenThan.run env0 ['a', ' '] [⟨⟨0, 1⟩, .word⟩, ⟨⟨1, 2⟩, .space 1⟩] = .error .underflow := by decide

/-- UseGenitive's `matched_tokens[2]`, Hereby's `matched_tokens[0..3]` on two tokens: out of bounds -/
example : specUseGenitive.run env0 ['a', ' '] [⟨⟨0, 1⟩, .word⟩, ⟨⟨1, 2⟩, .space 1⟩] = .error .sliceOOB ∧
    specHereby.run env0 ['a', ' '] [⟨⟨0, 1⟩, .word⟩, ⟨⟨1, 2⟩, .space 1⟩] = .error .sliceOOB := by decide

/-- the hypotheses of `matchToLint_total` hold of a real match: `here by` + verb, five tokens -/
example : specHereby.run env0 ['h', 'e', 'r', 'e', ' ', 'b', 'y', ' ', 'g', 'o']
    [⟨⟨0, 4⟩, .word⟩, ⟨⟨4, 5⟩, .space 1⟩, ⟨⟨5, 7⟩, .word⟩, ⟨⟨7, 8⟩, .space 1⟩, ⟨⟨8, 10⟩, .word⟩] =
    .ok [⟨⟨0, 7⟩, [.replaceWith ['h', 'e', 'r', 'e', 'b', 'y']], 28, 0⟩] := by decide

end Harper.C01

namespace Harper.C01
open Harper Harper.Chunks Harper.Rules Harper.Leaves Harper.PatternRules

/-! ## the Tok-level chunk iterators (`Model/Chunks.lean`): the facts `iterSplit_*` state of the kind-code model

`Chunks.split term` is `iter_chunks` / `iter_sentences` / `iter_paragraphs` (`token_string_ext.rs`) as the rule models
(`Rules.overPieces`) run them. `split_flatten` is in `Props/C01Leaves.lean`. -/

/-- **every piece of a non-empty token vector is non-empty** (`iter_chunks` &c. never hand an empty slice to a rule) … -/
theorem split_nonempty (term : Kind → Bool) (toks : List Tok) (hne : toks ≠ []) :
    ∀ c ∈ Chunks.split term toks, c ≠ [] := by
  unfold Chunks.split
  rw [if_neg (by simpa using hne)]
  exact splitGo_ne term toks []

/-- … and the empty vector is the one input with an empty piece: `Some(self)` of the "no terminator" arm -/
example : Chunks.split isChunkTerminator [] = [[]] := by decide

/-- non-vacuity of `split_nonempty`: `a, b.` -/
example : Chunks.iterChunks [⟨⟨0, 1⟩, .word⟩, ⟨⟨1, 2⟩, .punct .Comma⟩, ⟨⟨2, 3⟩, .space 1⟩, ⟨⟨3, 4⟩, .word⟩, ⟨⟨4, 5⟩, .punct .Period⟩] =
    [[⟨⟨0, 1⟩, .word⟩, ⟨⟨1, 2⟩, .punct .Comma⟩], [⟨⟨2, 3⟩, .space 1⟩, ⟨⟨3, 4⟩, .word⟩, ⟨⟨4, 5⟩, .punct .Period⟩]] := by decide

/-- **how many pieces**: one per terminator token, and one more for the tokens after the last terminator (also when
there is no token at all: the one empty piece) -/
theorem split_count (term : Kind → Bool) (toks : List Tok) :
    (Chunks.split term toks).length =
      toks.countP (fun t => term t.kind) + (if endsInTerm term toks then 0 else 1) := by
  unfold Chunks.split endsInTerm
  cases toks with
  | nil => simp
  | cons t ts =>
    rw [if_neg (by simp), splitGo_length]
    cases hl : (t :: ts).getLast? with
    | none => simp at hl
    | some l => rfl

/-- hence at most as many pieces as tokens (for the empty vector: the one empty piece) -/
theorem split_count_le (term : Kind → Bool) (toks : List Tok) :
    (Chunks.split term toks).length ≤ max 1 toks.length := by
  rw [split_count]
  unfold endsInTerm
  have h1 := List.countP_le_length (p := fun t => term t.kind) (l := toks)
  cases hl : toks.getLast? with
  | none =>
    have : toks = [] := by simpa using hl
    subst this; simp
  | some l =>
    simp only []
    by_cases hterm : term l.kind = true
    · rw [if_pos hterm]; omega
    · rw [if_neg hterm]
      -- the last token is not counted
      have hmem := List.mem_of_getLast? hl
      have hlt : toks.countP (fun t => term t.kind) < toks.length := by
        rcases Nat.lt_or_ge (toks.countP (fun t => term t.kind)) toks.length with h | h
        · exact h
        · have heq : toks.countP (fun t => term t.kind) = toks.length := by omega
          have := List.countP_eq_length.mp heq l hmem
          exact absurd this hterm
      omega

/-- **a terminator is always the last token of its piece, and every piece but the last one ends in a terminator** -/
theorem split_terminators (term : Kind → Bool) (toks : List Tok) :
    (∀ c ∈ Chunks.split term toks, c.dropLast.any (fun t => term t.kind) = false) ∧
    (∀ pre c post, Chunks.split term toks = pre ++ c :: post → post ≠ [] →
      ∃ t, c.getLast? = some t ∧ term t.kind = true) := by
  unfold Chunks.split
  split
  · refine ⟨by simp, ?_⟩
    intro pre c post h hpost
    cases pre with
    | nil => simp at h; exact absurd h.2 hpost
    | cons p pre => simp at h
  · exact ⟨splitGo_inner term toks [] rfl, splitGo_ends term toks []⟩

/-- `iter_chunks` / `iter_sentences` / `iter_paragraphs` of the rule models, all facts together -/
theorem iterChunks_tok_pieces (toks : List Tok) :
    (toks ≠ [] → ∀ c ∈ Chunks.iterChunks toks, c ≠ []) ∧
    (Chunks.iterChunks toks).length =
      toks.countP (fun t => isChunkTerminator t.kind) + (if endsInTerm isChunkTerminator toks then 0 else 1) ∧
    (Chunks.iterChunks toks).length ≤ max 1 toks.length ∧
    (∀ c ∈ Chunks.iterChunks toks, c.dropLast.any (fun t => isChunkTerminator t.kind) = false) ∧
    (∀ pre c post, Chunks.iterChunks toks = pre ++ c :: post → post ≠ [] →
      ∃ t, c.getLast? = some t ∧ isChunkTerminator t.kind = true) :=
  ⟨split_nonempty _ toks, split_count _ toks, split_count_le _ toks, (split_terminators _ toks).1, (split_terminators _ toks).2⟩

theorem iterSentences_tok_pieces (toks : List Tok) :
    (toks ≠ [] → ∀ c ∈ Chunks.iterSentences toks, c ≠ []) ∧
    (Chunks.iterSentences toks).length =
      toks.countP (fun t => isSentenceTerminator t.kind) + (if endsInTerm isSentenceTerminator toks then 0 else 1) ∧
    (Chunks.iterSentences toks).length ≤ max 1 toks.length ∧
    (∀ c ∈ Chunks.iterSentences toks, c.dropLast.any (fun t => isSentenceTerminator t.kind) = false) ∧
    (∀ pre c post, Chunks.iterSentences toks = pre ++ c :: post → post ≠ [] →
      ∃ t, c.getLast? = some t ∧ isSentenceTerminator t.kind = true) :=
  ⟨split_nonempty _ toks, split_count _ toks, split_count_le _ toks, (split_terminators _ toks).1, (split_terminators _ toks).2⟩

theorem iterParagraphs_tok_pieces (toks : List Tok) :
    (toks ≠ [] → ∀ c ∈ Chunks.iterParagraphs toks, c ≠ []) ∧
    (Chunks.iterParagraphs toks).length =
      toks.countP (fun t => t.kind.isParagraphBreak) + (if endsInTerm Kind.isParagraphBreak toks then 0 else 1) ∧
    (Chunks.iterParagraphs toks).length ≤ max 1 toks.length ∧
    (∀ c ∈ Chunks.iterParagraphs toks, c.dropLast.any (fun t => t.kind.isParagraphBreak) = false) ∧
    (∀ pre c post, Chunks.iterParagraphs toks = pre ++ c :: post → post ≠ [] →
      ∃ t, c.getLast? = some t ∧ t.kind.isParagraphBreak = true) :=
  ⟨split_nonempty _ toks, split_count _ toks, split_count_le _ toks, (split_terminators _ toks).1, (split_terminators _ toks).2⟩

/-- the count on concrete vectors: `a, b.` — two terminators, the last token is one: 2 pieces; `a, b` — one terminator and a
tail: 2 pieces; `, .` 2 pieces; no token: 1 piece -/
example : (Chunks.iterChunks [⟨⟨0, 1⟩, .word⟩, ⟨⟨1, 2⟩, .punct .Comma⟩, ⟨⟨2, 3⟩, .space 1⟩, ⟨⟨3, 4⟩, .word⟩, ⟨⟨4, 5⟩, .punct .Period⟩]).length = 2 ∧
    (Chunks.iterChunks [⟨⟨0, 1⟩, .word⟩, ⟨⟨1, 2⟩, .punct .Comma⟩, ⟨⟨2, 3⟩, .space 1⟩, ⟨⟨3, 4⟩, .word⟩]).length = 2 ∧
    (Chunks.iterChunks [⟨⟨0, 1⟩, .punct .Comma⟩, ⟨⟨1, 2⟩, .punct .Period⟩]).length = 2 ∧
    (Chunks.iterChunks []).length = 1 ∧
    endsInTerm isChunkTerminator [⟨⟨0, 1⟩, .word⟩, ⟨⟨1, 2⟩, .punct .Comma⟩] = true ∧
    endsInTerm isChunkTerminator [⟨⟨0, 1⟩, .punct .Comma⟩, ⟨⟨1, 2⟩, .word⟩] = false := by decide

/-! ## the two chunk iterators are one function -/

/-- **`Chunks.split` (tokens; what the rule models iterate) and `Pat.iterSplit` (kind codes; what `lintDoc` iterates)
cut at the same places**, for any coding of the tokens under which the two terminator tests agree, on EVERY token vector:
there is no input on which the two models of `iter_chunks` differ (empty vector: one empty piece in both; a trailing
terminator: no empty last piece in either). -/
theorem split_iterSplit (term : Kind → Bool) (term' : Nat → Bool) (code : Tok → Nat)
    (hc : ∀ t, term t.kind = term' (code t)) (toks : List Tok) :
    (Chunks.split term toks).map (List.map code) = Pat.iterSplit term' (toks.map code) :=
  split_code term term' code hc toks

/-- with the kind codes of `Model/Pattern.lean`'s table (`Rules.kindCode`) -/
theorem iterChunks_tok_code (toks : List Tok) :
    (Chunks.iterChunks toks).map (List.map tokCode) = Pat.iterChunks (toks.map tokCode) :=
  split_code _ _ tokCode (fun t => isChunkTerminator_code t.kind) toks
theorem iterSentences_tok_code (toks : List Tok) :
    (Chunks.iterSentences toks).map (List.map tokCode) = Pat.iterSentences (toks.map tokCode) :=
  split_code _ _ tokCode (fun t => isSentenceTerminator_code t.kind) toks
theorem iterParagraphs_tok_code (toks : List Tok) :
    (Chunks.iterParagraphs toks).map (List.map tokCode) = Pat.iterParagraphs (toks.map tokCode) :=
  split_code _ _ tokCode (fun t => isParagraphBreak_code t.kind) toks

/-- non-vacuity: `a, "b!` + paragraph break + `c` — codes `0 3 1 8 0 7 5 0`; both sides, evaluated -/
example :
    (Chunks.iterChunks [⟨⟨0, 1⟩, .word⟩, ⟨⟨1, 2⟩, .punct .Comma⟩, ⟨⟨2, 3⟩, .space 1⟩, ⟨⟨3, 4⟩, .quote none⟩, ⟨⟨4, 5⟩, .word⟩,
      ⟨⟨5, 6⟩, .punct .Bang⟩, ⟨⟨6, 8⟩, .paragraphBreak⟩, ⟨⟨8, 9⟩, .word⟩]).map (List.map tokCode) =
      [[0, 3], [1, 8], [0, 7], [5], [0]] ∧
    Pat.iterChunks [0, 3, 1, 8, 0, 7, 5, 0] = [[0, 3], [1, 8], [0, 7], [5], [0]] ∧
    (Chunks.iterSentences [⟨⟨0, 1⟩, .word⟩, ⟨⟨1, 2⟩, .punct .Comma⟩, ⟨⟨2, 3⟩, .space 1⟩, ⟨⟨3, 4⟩, .quote none⟩, ⟨⟨4, 5⟩, .word⟩,
      ⟨⟨5, 6⟩, .punct .Bang⟩, ⟨⟨6, 8⟩, .paragraphBreak⟩, ⟨⟨8, 9⟩, .word⟩]).map (List.map tokCode) =
      Pat.iterSentences [0, 3, 1, 8, 0, 7, 5, 0] ∧
    Pat.iterParagraphs [0, 3, 1, 8, 0, 7, 5, 0] = [[0, 3, 1, 8, 0, 7, 5], [0]] := by decide

/-! ## the two models of `run_on_chunk` -/

/-- **`Rules.runOnChunkGo` (tokens, `skip` counter, structural recursion; carries `match_to_lint`) does what
`Pat.runOnChunk` (kind codes, cursor and fuel; lists `(start, len)`) lists**: when the matcher and the kind-code pattern
answer the same on the suffixes of the chunk (`AgreeOn`) and the kind-code run returns the matches `ms`, the token-level
run is `match_to_lint` on `&chunk[s..s + n]` for each `(s, n)` of `ms`, in order, lints concatenated, the first panic of a
`match_to_lint` ending it (`Rules.lintMatches`). -/
theorem runOnChunk_link_ok (m : Matcher) (p : Pat) (code : Tok → Nat) (src : List Char) (chunk : List Tok)
    (hag : AgreeOn m p code src chunk) (f : List Char → List Tok → Except Panic (List RuleLint))
    (ms : List (Nat × Nat)) (h : Pat.runOnChunk p (chunk.map code) = .ok ms) :
    runOnChunkGo m f src 0 chunk = lintMatches f src chunk ms := by
  unfold Pat.runOnChunk at h
  rw [List.length_map] at h
  exact (runOnChunkGo_sim m p code src chunk hag f chunk 0 0 chunk.length rfl (by omega)).1 ms h

/-- … and when the kind-code run panics, so does the token-level one (with the same panic if `match_to_lint` is total;
otherwise possibly with an earlier panic of `match_to_lint`, which the kind-code model does not have) -/
theorem runOnChunk_link_error (m : Matcher) (p : Pat) (code : Tok → Nat) (src : List Char) (chunk : List Tok)
    (hag : AgreeOn m p code src chunk) (f : List Char → List Tok → Except Panic (List RuleLint))
    (e : Panic) (h : Pat.runOnChunk p (chunk.map code) = .error e) :
    ∃ e', runOnChunkGo m f src 0 chunk = .error e' ∧ ((∀ l, ∃ r, f src l = .ok r) → e' = e) := by
  unfold Pat.runOnChunk at h
  rw [List.length_map] at h
  exact (runOnChunkGo_sim m p code src chunk hag f chunk 0 0 chunk.length rfl (by omega)).2 e h

/-- both cases in one equation, for a total `match_to_lint` -/
theorem runOnChunk_link (m : Matcher) (p : Pat) (code : Tok → Nat) (src : List Char) (chunk : List Tok)
    (hag : AgreeOn m p code src chunk) (f : List Char → List Tok → Except Panic (List RuleLint))
    (hf : ∀ l, ∃ r, f src l = .ok r) :
    runOnChunkGo m f src 0 chunk =
      match Pat.runOnChunk p (chunk.map code) with
      | .ok ms => lintMatches f src chunk ms
      | .error e => .error e := by
  cases h : Pat.runOnChunk p (chunk.map code) with
  | ok ms => exact runOnChunk_link_ok m p code src chunk hag f ms h
  | error e =>
    obtain ⟨e', he', h'⟩ := runOnChunk_link_error m p code src chunk hag f e h
    rw [he', h' hf]

/-- hence `runOnChunk_safe` of the kind-code model carries over: a matcher that agrees with a contract-keeping kind-code
pattern on the chunk never makes `run_on_chunk` panic; the token-level run is `match_to_lint` over non-empty, in-chunk,
increasing and pairwise disjoint slices -/
theorem runOnChunk_link_safe (m : Matcher) (p : Pat) (hp : Pat.Contract p) (code : Tok → Nat) (src : List Char) (chunk : List Tok)
    (hag : AgreeOn m p code src chunk) (f : List Char → List Tok → Except Panic (List RuleLint)) :
    ∃ ms, runOnChunkGo m f src 0 chunk = lintMatches f src chunk ms ∧
      (∀ x ∈ ms, 1 ≤ x.2 ∧ x.1 + x.2 ≤ chunk.length) ∧
      ms.Pairwise (fun a b => a.1 + a.2 ≤ b.1) := by
  obtain ⟨ms, hms, hb, hd⟩ := runOnChunk_safe p hp (chunk.map code)
  refine ⟨ms, runOnChunk_link_ok m p code src chunk hag f ms hms, ?_, hd⟩
  intro x hx
  have := hb x hx
  rw [List.length_map] at this
  exact this

/-- `word whitespace word` in the two models: the token-level combinators of `Model/Condense.lean` and the kind-code tree of
`Model/Pattern.lean` agree on every token slice, through `tokCode` -/
theorem wordWsWord_agree (src : List Char) :
    Agree (seqPat [kindAtom Kind.isWord, whitespaceAtom, kindAtom Kind.isWord])
      (.seq (.ofList [.leaf 0, .whitespace, .leaf 0])) tokCode src :=
  seqPat_agree tokCode src [(kindAtom Kind.isWord, .leaf 0), (whitespaceAtom, .whitespace), (kindAtom Kind.isWord, .leaf 0)] (by
    intro x hx
    simp only [List.mem_cons, List.mem_nil_iff, or_false] at hx
    rcases hx with rfl | rfl | rfl
    · exact ⟨kindAtom_isWord_agree src, kindAtom_contract _ src⟩
    · exact ⟨whitespaceAtom_agree src, whitespaceAtom_contract src⟩
    · exact ⟨kindAtom_isWord_agree src, kindAtom_contract _ src⟩)

/-- a `match_to_lint` that records what it was handed: first start, last end, number of tokens -/
def recordMatch : List Char → List Tok → Except Panic (List RuleLint) := fun _ l =>
  .ok [⟨⟨(l.head?.map (·.span.start)).getD 0, (l.getLast?.map (·.span.stop)).getD 0⟩, [], 0, l.length⟩]

/-- **non-vacuity of `runOnChunk_link` / `runOnChunk_link_ok` / `runOnChunk_link_safe`**: `word ws word` over the chunk
`a b c d.` (8 tokens) — the hypotheses hold (`wordWsWord_agree`, `recordMatch` is total, the tree keeps the contract), the
kind-code run lists `(0, 3), (4, 3)`, and the token-level run hands `match_to_lint` tokens 0..3 and 4..7 -/
example :
    let chunk : List Tok := [⟨⟨0, 1⟩, .word⟩, ⟨⟨1, 2⟩, .space 1⟩, ⟨⟨2, 3⟩, .word⟩, ⟨⟨3, 4⟩, .space 1⟩, ⟨⟨4, 5⟩, .word⟩,
      ⟨⟨5, 6⟩, .space 1⟩, ⟨⟨6, 7⟩, .word⟩, ⟨⟨7, 8⟩, .punct .Period⟩]
    let m : Matcher := seqPat [kindAtom Kind.isWord, whitespaceAtom, kindAtom Kind.isWord]
    let p : Pat := .seq (.ofList [.leaf 0, .whitespace, .leaf 0])
    AgreeOn m p tokCode [] chunk ∧ Pat.Contract p ∧ (∀ l, ∃ r, recordMatch [] l = .ok r) ∧
    Pat.runOnChunk p (chunk.map tokCode) = .ok [(0, 3), (4, 3)] ∧
    runOnChunkGo m recordMatch [] 0 chunk = .ok [⟨⟨0, 3⟩, [], 0, 3⟩, ⟨⟨4, 7⟩, [], 0, 3⟩] ∧
    lintMatches recordMatch [] chunk [(0, 3), (4, 3)] = .ok [⟨⟨0, 3⟩, [], 0, 3⟩, ⟨⟨4, 7⟩, [], 0, 3⟩] := by
  refine ⟨(wordWsWord_agree []).agreeOn _, by simp [Pat.Contract, Pat.ContractL, PatList.ofList], fun l => ⟨_, rfl⟩,
    by decide, by decide, by decide⟩

/-- `AgreeOn` is a finite check on a concrete chunk: here by evaluation, for `ModalOf`-like atoms that read the text
(`anyCapAtom`) there is no kind-code counterpart — see the note below -/
example : AgreeOn (kindAtom Kind.isWord) (.leaf 0) tokCode []
    [⟨⟨0, 1⟩, .word⟩, ⟨⟨1, 2⟩, .punct .Comma⟩, ⟨⟨2, 3⟩, .word⟩] := by
  unfold AgreeOn
  decide

/-- the panic case (`runOnChunk_link_error`): a matcher and a leaf that both answer 2 on the last token — the kind-code run
and the token-level run both panic in `&chunk[c..c + n]` -/
example :
    let chunk : List Tok := [⟨⟨0, 1⟩, .punct .Comma⟩, ⟨⟨1, 2⟩, .word⟩]
    let m : Matcher := fun _ toks => .ok (if (toks.head?.map (·.kind.isWord)).getD false then 2 else 0)
    let p : Pat := .fn (fun ks => if ks.head? = some 0 then 2 else 0)
    AgreeOn m p tokCode [] chunk ∧
    Pat.runOnChunk p (chunk.map tokCode) = .error .sliceOOB ∧
    runOnChunkGo m recordMatch [] 0 chunk = .error .sliceOOB := by
  refine ⟨?_, by decide, by decide⟩
  unfold AgreeOn
  decide

/-- **the two models of `SequencePattern` differ outside the contract**: a last child that answers more than it was given
makes `Condense.seqGo` panic at once (`&tokens[tok_cursor..]`), while `Pat.seqLoop` — like the Rust loop, which slices only at
the START of the next iteration — returns the over-long length (and `run_on_chunk` panics one step later, in
`&chunk[c..c + n]`). So `seqPat_agree` needs `MContract`; with it (every shipped atom keeps it: `MOK`) the two agree. -/
example : seqPat [fun _ _ => .ok 1] [] [] = .error .sliceOOB ∧
    Pat.matchLen (.seq (.ofList [.fn (fun _ => 1)])) [] = .ok 1 ∧
    Pat.runOnChunk (.seq (.ofList [.fn (fun _ => 2)])) [0] = .error .sliceOOB ∧
    runOnChunkGo (seqPat [fun _ _ => .ok 2]) recordMatch [] 0 [⟨⟨0, 1⟩, .word⟩] = .error .sliceOOB := by decide

/-- **why the link is conditional (`AgreeOn`) and cannot be stated for the shipped rules outright**: their matchers read the
TEXT under a token (`anyCapAtom`, `wordSetAtom`, `withinEditAtom`, …), which the kind-code model abstracts away — one and the
same code list gets different answers under different source texts, so NO kind-code pattern (not even an arbitrary `fn`
leaf) agrees with such a matcher for every text. The kind-code model covers the combinators and the loops; the text-reading
leaves are covered on the token side (`runOnChunk_safe_real`, `MOK`). -/
theorem textAtom_no_code_counterpart : ¬ ∃ p : Pat, ∀ src, Agree (anyCapAtom ['o', 'f']) p tokCode src := by
  intro ⟨p, h⟩
  have h1 := h ['o', 'f'] [⟨⟨0, 2⟩, .word⟩]
  have h2 := h ['o', 'r'] [⟨⟨0, 2⟩, .word⟩]
  exact absurd (h1.trans h2.symm) (by decide)

end Harper.C01

/-! ## never hangs — UNCONDITIONALLY (w26): every `PatternLinter` and the eleven hand-written rules

`matches_never_hangs_real` / `runOnChunk_never_hangs_real` (`Props/C01Leaves.lean`) reduce "a `PatternLinter` never hangs" to
"its `match_to_lint` never reports a hang". Here that is discharged: for the `Spec` interpreter (every step, selection,
suggestion and message argument), and for each hand-written rule of `Model/Rules.lean`. No hypothesis on the environment,
the source or the tokens (spans may lie outside the text, be inverted, overlap, be out of order). -/
namespace Harper.C01
open Harper Harper.Chunks Harper.Rules Harper.Leaves Harper.PatternRules
open Harper.C12 (env0)

/-- `match_to_lint` as data never reports a hang unless one of the rule's OWN computations (`Step.custom`, an arbitrary function
in the model) does: `Spec.NoFuel` asks exactly that of the custom steps and nothing of anything else -/
theorem matchToLint_never_hangs (env : Env) (s : Spec) (hs : s.NoFuel) (src : List Char) (matched : List Tok) :
    s.run env src matched ≠ .error .outOfFuel := Spec.run_nf env s hs src matched

/-- **every `PatternLinter` — ANY pattern tree, ANY spec whose own computations do not hang — never hangs**: `run_on_chunk` on a
chunk (`piece`) and the whole linter over `iter_chunks` (`rule`), on any source and any tokens -/
theorem patternRule_never_hangs (env : Env) (r : PRule) (hs : r.spec.NoFuel) (src : List Char) (toks : List Tok) :
    r.rule env src toks ≠ .error .outOfFuel ∧ r.piece env src toks ≠ .error .outOfFuel :=
  ⟨PRule.rule_nf env r hs src toks, PRule.piece_nf env r hs src toks⟩

/-- a spec without a custom step (23 of the 28 shipped ones) needs no hypothesis at all -/
theorem patternRule_never_hangs_noCustom (env : Env) (r : PRule)
    (hb : r.spec.before.all (fun s => !Step.isCustom s) = true) (ha : r.spec.after.all (fun s => !Step.isCustom s) = true)
    (src : List Char) (toks : List Tok) : r.rule env src toks ≠ .error .outOfFuel :=
  PRule.rule_nf env r ⟨noFuel_of_noCustom _ hb, noFuel_of_noCustom _ ha⟩ src toks

/-- **the hypothesis is needed** (the planned "for ANY spec" is FALSE of the model): `Step.custom` takes an arbitrary function,
and one that answers `outOfFuel` makes the rule answer `outOfFuel` — on one word matched by `AnyPattern` -/
def specHangs : Spec where
  before := [.custom 0 fun _ _ _ => .error .outOfFuel]
  span := .whole
  suggs := fun _ => []
  msg := 0

example : (PRule.rule env0 ⟨.leaf .any, specHangs⟩) ['a'] [⟨⟨0, 1⟩, .word⟩] = .error .outOfFuel := by decide

/-- non-vacuity of `patternRule_never_hangs` / `matchToLint_never_hangs`: `Spec.NoFuel` holds of a spec WITH a custom step
(PiqueInterest's), and of one without (`patternRule_never_hangs_noCustom`: Dashes) -/
example : specPiqueInterest.NoFuel ∧ specDashes.NoFuel :=
  ⟨⟨noFuel_single _ _ piqueCorrect_nf, noFuel_of_noCustom _ rfl⟩, noFuel_of_noCustom _ rfl, noFuel_of_noCustom _ rfl⟩
example : PRule.rule env0 ⟨patDashes, specDashes⟩ ['-', '-'] [⟨⟨0, 1⟩, .punct .Hyphen⟩, ⟨⟨1, 2⟩, .punct .Hyphen⟩] ≠ .error .outOfFuel :=
  patternRule_never_hangs_noCustom env0 ⟨patDashes, specDashes⟩ rfl rfl _ _

/-- the five computations of the shipped rules never report a hang -/
theorem customSteps_never_hang : CustomNF backGuard ∧ CustomNF piqueCorrect ∧ CustomNF pronounGuard ∧
    CustomNF initialismCorrection ∧ CustomNF timeExpansion :=
  ⟨backGuard_nf, piqueCorrect_nf, pronounGuard_nf, initialismCorrection_nf, timeExpansion_nf⟩

theorem shippedSpecs_noFuel : ∀ x ∈ allPatternRules, x.2.spec.NoFuel := allPatternRules_noFuel

/-- **each of the 28 shipped `PatternLinter`s never hangs**, on any document whatsoever -/
theorem shippedRule_never_hangs (env : Env) (name : String) (r : PRule) (hn : patternRuleByName name = some r) (src : List Char)
    (toks : List Tok) : r.rule env src toks ≠ .error .outOfFuel ∧ r.piece env src toks ≠ .error .outOfFuel :=
  patternRule_never_hangs env r (noFuel_of_name name r hn) src toks

/-- non-vacuity of `shippedRule_never_hangs`: the name resolves; on garbage tokens — a word whose span 7..9 lies outside the
two-character text, an inverted span — the rules answer with the slice / underflow panic or with no lint, not with a hang -/
example : (patternRuleByName "MultipleSequentialPronouns").isSome = true ∧
    (PRule.rule env0 ⟨patMultipleSequentialPronouns, specMultipleSequentialPronouns⟩) ['m', 'e'] [⟨⟨7, 9⟩, .word⟩] = .error .sliceOOB ∧
    (PRule.rule env0 ⟨patWhereas, specWhereas⟩) ['m', 'e'] [⟨⟨2, 1⟩, .word⟩] = .error .underflow ∧
    (PRule.rule env0 ⟨patDashes, specDashes⟩) ['m', 'e'] [⟨⟨7, 9⟩, .punct .Hyphen⟩, ⟨⟨1, 0⟩, .punct .Hyphen⟩] =
      .ok [⟨⟨0, 9⟩, [.replaceWith ['–']], 21, 2⟩] := by decide

/-! ### the eleven hand-written rules of `Model/Rules.lean` -/

/-- **LongSentences, CurrencyPlacement, Spaces, RepeatedWords, EllipsisLength, NumberSuffixCapitalization, CorrectNumberSuffix,
UnclosedQuotes, ModalOf, AnA, SentenceCapitalization never hang** — every rule `ruleByName` dispatches on, for every environment,
source and token vector. (All are `for` loops over tokens / windows / pieces; ModalOf is `run_on_chunk` around a pattern
without `RepeatingPattern`.) -/
theorem handWrittenRules_never_hang (env : Env) (src : List Char) (toks : List Tok) :
    ∀ r ∈ [ruleLongSentences, ruleCurrencyPlacement, ruleSpaces, ruleRepeatedWords, ruleEllipsisLength,
      ruleNumberSuffixCapitalization, ruleCorrectNumberSuffix, ruleUnclosedQuotes, ruleModalOf, ruleAnA,
      ruleSentenceCapitalization], r env src toks ≠ .error .outOfFuel := by
  intro r hr
  simp only [List.mem_cons, List.mem_nil_iff, or_false] at hr
  rcases hr with rfl | rfl | rfl | rfl | rfl | rfl | rfl | rfl | rfl | rfl | rfl
  · exact ruleLongSentences_nf env src toks
  · exact ruleCurrencyPlacement_nf env src toks
  · exact ruleSpaces_nf env src toks
  · exact ruleRepeatedWords_nf env src toks
  · exact ruleEllipsisLength_nf env src toks
  · exact ruleNumberSuffixCapitalization_nf env src toks
  · exact ruleCorrectNumberSuffix_nf env src toks
  · exact ruleUnclosedQuotes_nf env src toks
  · exact ruleModalOf_nf env src toks
  · exact ruleAnA_nf env src toks
  · exact ruleSentenceCapitalization_nf env src toks

/-- … stated on the dispatch table: whatever `ruleByName` returns never hangs -/
theorem ruleByName_never_hangs (name : String) (r : Env → PieceRule) (hn : ruleByName name = some r) (env : Env) (src : List Char)
    (toks : List Tok) : r env src toks ≠ .error .outOfFuel := by
  unfold ruleByName at hn
  split at hn <;> cases hn
  · exact ruleLongSentences_nf env src toks
  · exact ruleCurrencyPlacement_nf env src toks
  · exact ruleSpaces_nf env src toks
  · exact ruleRepeatedWords_nf env src toks
  · exact ruleEllipsisLength_nf env src toks
  · exact ruleNumberSuffixCapitalization_nf env src toks
  · exact ruleCorrectNumberSuffix_nf env src toks
  · exact ruleUnclosedQuotes_nf env src toks
  · exact ruleModalOf_nf env src toks
  · exact ruleAnA_nf env src toks
  · exact ruleSentenceCapitalization_nf env src toks

/-- on garbage tokens: RepeatedWords and AnA read the text under an out-of-text word (slice panic), EllipsisLength under an
inverted span (underflow); LongSentences, Spaces, UnclosedQuotes do not read the text at all — no hang anywhere -/
example : ruleRepeatedWords env0 ['a'] [⟨⟨7, 9⟩, .word⟩, ⟨⟨0, 1⟩, .word⟩] = .error .sliceOOB ∧
    ruleAnA env0 ['a'] [⟨⟨0, 1⟩, .word⟩, ⟨⟨7, 9⟩, .word⟩] = .error .sliceOOB ∧
    ruleEllipsisLength env0 ['a'] [⟨⟨1, 0⟩, .punct .Ellipsis⟩] = .error .underflow ∧
    ruleSpaces env0 ['a'] [⟨⟨7, 9⟩, .space 2⟩] = .ok [⟨⟨7, 9⟩, [.replaceWith [' ']], 3, 2⟩] ∧
    ruleUnclosedQuotes env0 ['a'] [⟨⟨9, 7⟩, .quote none⟩] = .ok [⟨⟨9, 7⟩, [], 8, 0⟩] := by decide

end Harper.C01
