import Harper.Lemmas.Stats
/-!
# C19 — the statistics log reads back exactly what was written, append after append

Property theorems only; helper lemmas are in `Harper/Lemmas/Stats.lean`, the model in
`Harper/Model/Stats.lean`.

What is proved is the *framing*: serde_json's string escaping never emits a line break and is
inverted by serde_json's string parser; `BufRead::lines` splits a log written by `Stats::write`
back into exactly the serialised records; appending two writes is writing the concatenation;
`summarize` counts every lint record exactly once. The serde-*derived* (de)serialiser of `Record`
is an abstract pair `ser`/`parse` with the hypothesis `parse (ser r) = some r`, which the harness
monitors on every record (and which the real code violates for a non-finite `Number` token — see
`read_fails_of_bad_record`).
-/
namespace Harper.C19
open Harper.Stats

/-- serde_json's escaping never emits a raw line feed or carriage return, whatever the string
contains. -/
theorem escape_no_linebreak (s : List Char) : '\n' ∉ escape s ∧ '\r' ∉ escape s := by
  induction s with
  | nil => simp [escape]
  | cons c cs ih =>
    have := escapeChar_no_linebreak c
    simp only [escape, List.mem_append, not_or]
    exact ⟨⟨this.1, ih.1⟩, ⟨this.2, ih.2⟩⟩

/-- serde_json's string parser inverts serde_json's escaping, for every string. -/
theorem unescape_escape (s : List Char) : unescape (escape s) = some s :=
  unescape_escape' s

/-- a whole JSON string literal (`serde_json::to_string(&String)` then `from_str::<String>`) -/
theorem parse_jsonString (s : List Char) : parseJsonString (jsonString s) = some s :=
  parseJsonString_jsonString s

/-- `BufRead::lines` inverts "terminate every line with `\n`", provided no line contains `\n` or
ends in `\r` (both are necessary: see the examples at the end). -/
theorem lines_join (ls : List (List Char))
    (h : ∀ l ∈ ls, '\n' ∉ l ∧ l.getLast? ≠ some '\r') :
    lines ((ls.map (· ++ ['\n'])).flatten) = ls := by
  rw [← writeLog_eq_flatten]
  exact lines_writeLog ls h

/-- `Stats::read (Stats::write rs) = rs`, for any record serialiser/parser pair that round-trips
one record (monitored) and whose output is a single line (monitored; proved below for strings). -/
theorem read_write {ρ} (ser : ρ → List Char) (parse : List Char → Option ρ)
    (hrt : ∀ r, parse (ser r) = some r)
    (hline : ∀ r, '\n' ∉ ser r ∧ (ser r).getLast? ≠ some '\r')
    (rs : List ρ) : read parse (write ser rs) = some rs := by
  unfold Stats.read write
  rw [lines_writeLog _ (by
    intro l hl
    obtain ⟨r, _, rfl⟩ := List.mem_map.mp hl
    exact hline r)]
  exact parseAll_map ser parse hrt rs

/-- The hypotheses of `read_write` hold for records that are JSON strings of ARBITRARY characters
(line feeds, carriage returns, quotes, controls, astral characters, U+2028 …): this is the part of
a `Record` (token `content`) that carries user text. -/
theorem read_write_jsonString (rs : List (List Char)) :
    readLog (write jsonString rs) = some rs := by
  apply read_write jsonString parseJsonString parse_jsonString
  intro r
  refine ⟨(jsonString_no_linebreak r).1, ?_⟩
  rw [jsonString_getLast]
  decide

/-- The same for records that are a fixed, opaque skeleton (`pre … suf`, what serde's derive
writes around a token's `content`: starts with `{`, ends with `}`, contains no line break) around
one string of ARBITRARY characters. This is the serialiser the correspondence run compares byte
for byte with the real `Stats::write` (op `wlog`) and `Stats::read` (op `rlog`). -/
theorem read_write_framed (pre suf : List Char)
    (hpre : ∀ c, pre.head? = some c → isJsonWs c = false)
    (hsuf : ∀ c, suf.getLast? = some c → isJsonWs c = false)
    (hnl : '\n' ∉ pre ∧ '\r' ∉ pre ∧ '\n' ∉ suf ∧ '\r' ∉ suf)
    (rs : List (List Char)) :
    read (frameParse pre suf) (write (frameSer pre suf) rs) = some rs := by
  apply read_write (frameSer pre suf) (frameParse pre suf)
    (fun s => frameParse_frameSer pre suf s hpre hsuf)
  intro r
  exact ⟨frameSer_no_linebreak pre suf r '\n' (Or.inl rfl) hnl.1 hnl.2.2.1,
    not_getLast_of_not_mem _ _ (frameSer_no_linebreak pre suf r '\r' (Or.inr rfl) hnl.2.1 hnl.2.2.2)⟩

/-- non-vacuity of `read_write_framed`: all three hypotheses hold together for a skeleton shaped
like the real one -/
example : (∀ c, ['{', '"', 'c', '"', ':'].head? = some c → isJsonWs c = false) ∧
    (∀ c, [',', '"', 'w', '"', ':', '0', '}'].getLast? = some c → isJsonWs c = false) ∧
    ('\n' ∉ ['{', '"', 'c', '"', ':'] ∧ '\r' ∉ ['{', '"', 'c', '"', ':'] ∧
     '\n' ∉ [',', '"', 'w', '"', ':', '0', '}'] ∧ '\r' ∉ [',', '"', 'w', '"', ':', '0', '}']) := by
  decide

/-- Appending a second `Stats::write` to the same log is writing the concatenation … -/
theorem append_composes {ρ} (ser : ρ → List Char) (rs₁ rs₂ : List ρ) :
    write ser rs₁ ++ write ser rs₂ = write ser (rs₁ ++ rs₂) := by
  simp [write, writeLog_append]

/-- … hence a log written in two append sessions reads back as the concatenation, in order. -/
theorem read_append {ρ} (ser : ρ → List Char) (parse : List Char → Option ρ)
    (hrt : ∀ r, parse (ser r) = some r)
    (hline : ∀ r, '\n' ∉ ser r ∧ (ser r).getLast? ≠ some '\r')
    (rs₁ rs₂ : List ρ) : read parse (write ser rs₁ ++ write ser rs₂) = some (rs₁ ++ rs₂) := by
  rw [append_composes]
  exact read_write ser parse hrt hline _

theorem read_append_jsonString (rs₁ rs₂ : List (List Char)) :
    readLog (write jsonString rs₁ ++ write jsonString rs₂) = some (rs₁ ++ rs₂) := by
  rw [append_composes]
  exact read_write_jsonString _

/-- What the recorded defect does: if one record's serialisation does not parse back (the real
serialiser writes `null` for a non-finite number), `Stats::read` rejects the WHOLE log. -/
theorem read_fails_of_bad_record {ρ} (ser : ρ → List Char) (parse : List Char → Option ρ)
    (hline : ∀ r, '\n' ∉ ser r ∧ (ser r).getLast? ≠ some '\r')
    (rs : List ρ) (bad : ρ) (hmem : bad ∈ rs) (hbad : parse (ser bad) = none) :
    read parse (write ser rs) = none := by
  unfold Stats.read write
  rw [lines_writeLog _ (by
    intro l hl
    obtain ⟨r, _, rfl⟩ := List.mem_map.mp hl
    exact hline r)]
  induction rs with
  | nil => cases hmem
  | cons r rs ih =>
    rcases List.mem_cons.mp hmem with rfl | h
    · simp [parseAll, hbad]
    · simp only [List.map_cons, parseAll, ih h]
      split <;> rfl

/-- the serialiser of the recorded defect, in miniature: a record is either a string (written as a
JSON string) or a non-finite number (written as `null`), read back by the string parser -/
def serOrNull : Option (List Char) → List Char
  | some s => jsonString s
  | none => ['n', 'u', 'l', 'l']

theorem serOrNull_line (r : Option (List Char)) :
    '\n' ∉ serOrNull r ∧ (serOrNull r).getLast? ≠ some '\r' := by
  cases r with
  | none => decide
  | some s =>
    refine ⟨(jsonString_no_linebreak s).1, ?_⟩
    show (jsonString s).getLast? ≠ some '\r'
    rw [jsonString_getLast]; decide

/-- non-vacuity of `read_fails_of_bad_record`: every record is written on one line, the `null`
record is in the list and does not parse back — so the whole log is rejected, although the two good
records on their own read back -/
example : (none : Option (List Char)) ∈ [some ['a', '\n'], none, some ['b']] ∧
    (parseJsonString (serOrNull none)).map some = none ∧
    read (fun l => (parseJsonString l).map some)
      (write serOrNull [some ['a', '\n'], none, some ['b']]) = none ∧
    read (fun l => (parseJsonString l).map some)
      (write serOrNull [some ['a', '\n'], some ['b']]) = some [some ['a', '\n'], some ['b']] :=
  ⟨by decide, by decide,
   read_fails_of_bad_record serOrNull _ serOrNull_line _ none (by decide) (by decide), by decide⟩

/-- `Stats::summarize` counts every lint record exactly once: the total is the number of lint
records, the counter of kind `k` is the number of lint records of kind `k`, the counters add up
to the total, no kind (and no misspelt word) has two counters, a word's counter is the number of
`Word(None)` context tokens with that content, and the final configuration is the last update.
(Counters are `u32` in the code: the statement is about fewer than 2^32 records.) -/
theorem summary_counts_once (rs : List Rec) :
    (summarize rs).totalApplied = rs.countP isLint ∧
    (∀ k, getCount k (summarize rs).lintCounts = rs.countP (isLintOf k)) ∧
    total (summarize rs).lintCounts = (summarize rs).totalApplied ∧
    ((summarize rs).lintCounts.map (·.1)).Nodup ∧
    ((summarize rs).misspelled.map (·.1)).Nodup ∧
    (∀ w, getCount w (summarize rs).misspelled = (rs.map (unknownOcc w)).sum) ∧
    (summarize rs).finalConfig = lastConfig 0 rs := by
  unfold summarize
  have hn := summarizeFrom_nodup rs {} (by simp) (by simp)
  refine ⟨?_, ?_, ?_, hn.1, hn.2, ?_, ?_⟩
  · simpa using summarizeFrom_total rs {}
  · intro k; simpa [getCount] using summarizeFrom_count k rs {}
  · rw [summarizeFrom_sum, summarizeFrom_total]; simp [total]
  · intro w; simpa [getCount] using summarizeFrom_misspelled w rs {}
  · exact summarizeFrom_config rs {}

/-- Summaries are additive over appended logs: total, per-kind and per-word counters of
`rs₁ ++ rs₂` are the sums of those of `rs₁` and `rs₂`. -/
theorem summary_additive (rs₁ rs₂ : List Rec) :
    (summarize (rs₁ ++ rs₂)).totalApplied
      = (summarize rs₁).totalApplied + (summarize rs₂).totalApplied ∧
    (∀ k, getCount k (summarize (rs₁ ++ rs₂)).lintCounts
      = getCount k (summarize rs₁).lintCounts + getCount k (summarize rs₂).lintCounts) ∧
    (∀ w, getCount w (summarize (rs₁ ++ rs₂)).misspelled
      = getCount w (summarize rs₁).misspelled + getCount w (summarize rs₂).misspelled) := by
  obtain ⟨t12, c12, _, _, _, m12, _⟩ := summary_counts_once (rs₁ ++ rs₂)
  obtain ⟨t1, c1, _, _, _, m1, _⟩ := summary_counts_once rs₁
  obtain ⟨t2, c2, _, _, _, m2, _⟩ := summary_counts_once rs₂
  refine ⟨?_, ?_, ?_⟩
  · rw [t12, t1, t2, List.countP_append]
  · intro k; rw [c12, c1, c2, List.countP_append]
  · intro w; rw [m12, m1, m2, List.map_append, List.sum_append]

/-! ### Non-vacuity and witnesses (concrete, kernel-evaluated) -/

/-- newline, CR, quote, backslash, tab, NUL, 0x1F, DEL, é, U+2028, astral -/
example : escape ['a', '\n', '\r', '"', '\\', '\t', '\x00', '\x1f', '\x7f', 'é', '\u2028', '😀'] =
    ['a', '\\', 'n', '\\', 'r', '\\', '"', '\\', '\\', '\\', 't',
     '\\', 'u', '0', '0', '0', '0', '\\', 'u', '0', '0', '1', 'f', '\x7f', 'é', '\u2028', '😀'] := by
  decide

example : parseJsonString (jsonString ['a', '\n', '\r', '"', '\\', '\x00', '\x1f', '😀'])
    = some ['a', '\n', '\r', '"', '\\', '\x00', '\x1f', '😀'] := by decide

/-- the parser also accepts what serde_json never writes: `\/`, upper-case hex, surrogate pairs -/
example : unescape ['\\', '/', '\\', 'u', '0', '0', '4', 'A', '\\', 'u', 'D', '8', '3', 'D',
    '\\', 'u', 'd', 'e', '0', '0'] = some ['/', 'J', '😀'] := by decide

/-- … and rejects a raw quote, a raw control character, a lone surrogate, a dangling backslash -/
example : unescape ['a', '"'] = none ∧ unescape ['\n'] = none ∧
    unescape ['\\', 'u', 'd', '8', '3', 'd'] = none ∧ unescape ['\\'] = none := by decide

/-- the hypotheses of `lines_join` / `read_write` are satisfied by a non-trivial log (an empty
line, a line with an inner CR, a line with U+2028) -/
example : ∀ l ∈ [['{', '}'], [], ['a', '\r', 'b'], ['\u2028']],
    '\n' ∉ l ∧ l.getLast? ≠ some '\r' := by decide

example : lines (writeLog [['{', '}'], [], ['a', '\r', 'b'], ['\u2028']])
    = [['{', '}'], [], ['a', '\r', 'b'], ['\u2028']] := by decide

/-- both hypotheses are necessary: a raw line feed splits a record, a trailing CR is eaten -/
example : lines (writeLog [['a', '\n', 'b']]) = [['a'], ['b']] := by decide
example : lines (writeLog [['a', '\r']]) = [['a']] := by decide

/-- `BufRead::lines` corner cases: no line after a final `\n`; CRLF; only one CR is stripped; an
unterminated last line keeps its CR -/
example : lines [] = [] ∧ lines ['\n'] = [[]] ∧ lines ['a', '\r', '\n', 'b'] = [['a'], ['b']] ∧
    lines ['\r', '\r', '\n'] = [['\r']] ∧ lines ['a', '\n', 'b', '\r'] = [['a'], ['b', '\r']] := by
  decide

/-- two append sessions with hostile text read back as the concatenation -/
example : readLog (write jsonString [['\n'], ['"', '\r']] ++ write jsonString [[], ['😀', '\x01']])
    = some [['\n'], ['"', '\r'], [], ['😀', '\x01']] := by decide

/-- the hypotheses of `read_write_framed` hold for a skeleton shaped like the real one -/
example : (∀ c, ['{', '"', 'c', '"', ':'].head? = some c → isJsonWs c = false) ∧
    (∀ c, [',', '"', 'w', '"', ':', '0', '}'].getLast? = some c → isJsonWs c = false) := by
  decide

example : read (frameParse ['{', '"', 'c', '"', ':'] [',', '"', 'w', '"', ':', '0', '}'])
    (write (frameSer ['{', '"', 'c', '"', ':'] [',', '"', 'w', '"', ':', '0', '}']) [['\n', '"'], ['😀']])
    = some [['\n', '"'], ['😀']] := by decide

/-- `Stats::read` is lenient where serde_json is: CRLF line ends and trailing blanks are accepted,
a blank line is not -/
example : readLog ['"', 'a', '"', '\r', '\n', '"', 'b', '"', ' ', '\n'] = some [['a'], ['b']] ∧
    readLog ['"', 'a', '"', '\n', '\n'] = none := by decide

/-- a summary over lints of two kinds, a config update in between, repeated unknown words -/
example : summarize [.lint 0 [['t', 'e', 'h']], .configUpdate 3, .lint 7 [], .lint 0 [['t', 'e', 'h'], ['x']]]
    = { lintCounts := [(0, 2), (7, 1)], totalApplied := 3, finalConfig := 3,
        misspelled := [(['t', 'e', 'h'], 2), (['x'], 1)] } := by decide

end Harper.C19
