import Harper.Lemmas.Title
/-!
# C18 — title-casing only changes letter case and is idempotent

Property theorems only; helper lemmas are in `Harper/Lemmas/Title.lean`. The model
(`Harper/Model/Title.lean`) is `make_title_case` as written, over code points, with the real tokens
and, per token, the data the code consults (supplied by the harness). Case mapping is ASCII, as in
the code (`to_ascii_uppercase` / `to_ascii_lowercase`).
-/
namespace Harper.C18
open Harper Harper.Title

/-- A run that returns, returns a buffer as long as the text under `toks.span()`. -/
theorem title_length_of_ok (toks : List TTok) (src out : List Nat) (lo hi : Nat)
    (h : makeTitleCase toks src = .ok out) (hs : spanOf toks = some (lo, hi)) :
    out.length = hi - lo := by
  cases toks with
  | nil => simp [spanOf] at hs
  | cons first rest =>
    obtain ⟨lo', hi', out0, hsp, hg, _, rfl⟩ := makeTitleCase_ok rfl h
    rw [hs] at hsp
    injection hsp with hsp
    injection hsp with h1 h2
    subst h1; subst h2
    simp only [List.length_mapIdx]
    exact (getContent_ok hg).2.1

/-- Same length: if the tokens are in order inside the text, word-like tokens are non-empty and
every consulted canonical spelling is at least as long as its token (it has the token's length for
every dictionary entry — monitored), title-casing returns (no panic) a string of the length of
the text under the tokens; of the whole text when the tokens cover it. -/
theorem title_length (first : TTok) (rest : List TTok) (src : List Nat) (hi : Nat)
    (hsp : spanOf (first :: rest) = some (first.start, hi)) (hhi : hi ≤ src.length)
    (hb : Bounded first.start hi (first :: rest)) :
    ∃ out, makeTitleCase (first :: rest) src = .ok out ∧ out.length = hi - first.start ∧
      (Covers (first :: rest) src → out.length = src.length) := by
  obtain ⟨_, hf1, hf2, _, _⟩ := hb first List.mem_cons_self
  have hle : first.start ≤ hi := by omega
  have hg : ∃ out0, Span.getContent ⟨first.start, hi⟩ src = .ok out0 := by
    unfold Span.getContent
    simp only []
    rw [if_neg (by omega)]
    split
    · split
      · exact ⟨_, rfl⟩
      · rename_i h1 h2
        exfalso
        apply h2
        simp only [beq_iff_eq]
        omega
    · exact ⟨_, rfl⟩
  obtain ⟨out0, hg⟩ := hg
  have hlen := (getContent_ok hg).2.1
  have hp : loopPanics first.start out0.length 0 ((first :: rest).filter (·.wordLike)) = false := by
    rw [hlen]
    apply loopPanics_false
    intro w hw
    obtain ⟨hm, hwl⟩ := List.mem_filter.mp hw
    obtain ⟨h1, _, h3, h4, h5⟩ := hb w hm
    exact ⟨h1, h4 hwl, h3, h5⟩
  have hok := makeTitleCase_of rfl hsp hg hp
  refine ⟨_, hok, by simp [hlen], ?_⟩
  intro hc
  unfold Covers at hc
  rw [hsp] at hc
  injection hc with hc
  injection hc with h1 h2
  simp only [List.length_mapIdx, hlen, h1, h2]
  omega

/-- non-vacuity of `title_length`: its three hypotheses hold together of `this is a test` -/
example : ∃ first rest, toksEx = first :: rest ∧ spanOf (first :: rest) = some (first.start, 14) ∧
    14 ≤ srcEx.length ∧ Bounded first.start 14 (first :: rest) :=
  ⟨_, _, rfl, by decide, by decide, by unfold Bounded; decide⟩

/-- Only case changes: at every position the output character is the input character, its ASCII
upper- or lower-case variant, or — inside a proper-noun token with a canonical spelling — the
canonical spelling's character at that offset or its ASCII upper/lower variant. -/
theorem title_only_case (first : TTok) (rest : List TTok) (src out : List Nat) (lo hi : Nat)
    (h : makeTitleCase (first :: rest) src = .ok out) (hs : spanOf (first :: rest) = some (lo, hi)) :
    ∀ i, i < out.length → ∃ x y, src[lo + i]? = some x ∧ out[i]? = some y ∧
      (CaseOf x y ∨
        ∃ w ∈ first :: rest, w.wordLike = true ∧ ∃ c, w.canon = some c ∧
          w.start - first.start ≤ i ∧ i < w.stop - first.start ∧
          ∃ y0, c[i - (w.start - first.start)]? = some y0 ∧ CaseOf y0 y) := by
  obtain ⟨lo', hi', out0, hsp, hg, _, rfl⟩ := makeTitleCase_ok rfl h
  rw [hs] at hsp
  injection hsp with hsp
  injection hsp with h1 h2
  subst h1; subst h2
  obtain ⟨_, hlen, hget⟩ := getContent_ok hg
  intro i hi'
  simp only [List.length_mapIdx] at hi'
  have hx : out0[i]? = some out0[i] := List.getElem?_eq_getElem hi'
  refine ⟨out0[i], effAll first.start 0 ((first :: rest).filter (·.wordLike)) i out0[i], ?_, ?_, ?_⟩
  · rw [← hget i (by omega)]; exact hx
  · rw [List.getElem?_mapIdx, hx]; rfl
  · have := effAll_inv (si := first.start) (allWs := (first :: rest).filter (·.wordLike))
      ((first :: rest).filter (·.wordLike)) (fun _ hw => hw) 0 (i := i)
      (Or.inl (CaseOf.refl out0[i]))
    rcases this with hc | ⟨w, hw, c, hcan, ha, hb, y0, hy0, hcase⟩
    · exact Or.inl hc
    · obtain ⟨hm, hwl⟩ := List.mem_filter.mp hw
      exact Or.inr ⟨w, hm, hwl, c, hcan, ha, hb, y0, hy0, hcase⟩

/-- First word: the first character of the first word-like token is never left an ASCII
lower-case letter (so it is upper-case whenever it is an ASCII letter). Needs what every lexed
token list has: word-like tokens in order and non-empty, none before the first token. -/
theorem title_first_upper (first : TTok) (rest : List TTok) (src out : List Nat) (w : TTok)
    (ws : List TTok) (h : makeTitleCase (first :: rest) src = .ok out)
    (hw : (first :: rest).filter (·.wordLike) = w :: ws)
    (hsorted : (w :: ws).Pairwise (fun p q => p.stop ≤ q.start))
    (hne : w.start < w.stop) (hsi : first.start ≤ w.start) :
    ∃ y, out[w.start - first.start]? = some y ∧ isAsciiLower y = false := by
  obtain ⟨lo, hi, out0, _, _, hp, rfl⟩ := makeTitleCase_ok rfl h
  rw [hw] at hp ⊢
  -- the first iteration capitalises (index == 0) and did not panic: the index is in range
  have hcap : (shouldCapToken w || (0 : Nat) == 0 || ws.isEmpty) = true := by simp
  unfold loopPanics at hp
  rw [hcap] at hp
  have hstep : stepPanics first.start out0.length w true = false := by
    cases hsp : stepPanics first.start out0.length w true
    · rfl
    · rw [hsp] at hp; simp at hp
  have hlt : w.start - first.start < out0.length := by
    unfold stepPanics at hstep
    simp only [if_true, Bool.or_eq_false_iff, decide_eq_false_iff_not] at hstep
    omega
  have hx : out0[w.start - first.start]? = some out0[w.start - first.start] :=
    List.getElem?_eq_getElem hlt
  refine ⟨_, by rw [List.getElem?_mapIdx, hx]; rfl, ?_⟩
  unfold effAll
  rw [hcap]
  have hlater : ∀ v ∈ ws, w.start - first.start < v.start - first.start := by
    intro v hv
    have := (List.pairwise_cons.mp hsorted).1 v hv
    omega
  dsimp only
  rw [effAll_id_before _ _ _ _ _ hlater]
  unfold eff
  simp only [if_true]
  exact up_not_lower _

/-- non-vacuity of `title_first_upper`: all five hypotheses hold together of `this is a test`
(first word-like token `this`, three more after it) -/
example : ∃ first rest w ws, toksEx = first :: rest ∧
    makeTitleCase (first :: rest) srcEx = .ok outEx ∧
    (first :: rest).filter (·.wordLike) = w :: ws ∧ ws.length = 3 ∧
    (w :: ws).Pairwise (fun p q => p.stop ≤ q.start) ∧ w.start < w.stop ∧ first.start ≤ w.start :=
  ⟨_, _, _, _, rfl, by decide, rfl, rfl, by decide, by decide, by decide⟩

/-- Idempotent on a fixed tokenisation: when the tokens cover the text, running the function
again on its own output (same tokens, same consulted data) changes nothing and does not panic. -/
theorem title_idempotent_tokens (toks : List TTok) (src out : List Nat)
    (h : makeTitleCase toks src = .ok out) (hc : Covers toks src) :
    makeTitleCase toks out = .ok out := by
  cases toks with
  | nil => simp [Covers, spanOf] at hc
  | cons first rest =>
    obtain ⟨lo, hi, out0, hsp, hg, hp, rfl⟩ := makeTitleCase_ok rfl h
    unfold Covers at hc
    rw [hc] at hsp
    injection hsp with hsp
    injection hsp with h1 h2
    subst h1; subst h2
    rw [getContent_full] at hg
    injection hg with hg
    subst hg
    have hlen : (src.mapIdx (fun i x =>
        effAll first.start 0 ((first :: rest).filter (·.wordLike)) i x)).length = src.length := by
      simp
    have hg' := getContent_full (src.mapIdx (fun i x =>
        effAll first.start 0 ((first :: rest).filter (·.wordLike)) i x))
    rw [hlen] at hg'
    rw [makeTitleCase_of rfl hc hg' (by rw [hlen]; exact hp)]
    congr 1
    rw [List.mapIdx_mapIdx]
    apply List.ext_getElem?
    intro i
    simp only [List.getElem?_mapIdx]
    cases src[i]? with
    | none => rfl
    | some x => exact congrArg some ((effAll_cls _ _ _ i).idem x)

/-- Idempotent: for any lexer-plus-dictionary `lexd`, if title-casing `src` returns `out`, the
tokens cover the text, and re-lexing `out` gives the same consulted data (`CaseStable` — a
hypothesis about the unmodelled lexer and dictionary, monitored by the harness on every case),
then title-casing `out` returns `out`. -/
theorem title_idempotent (lexd : List Nat → List TTok) (src out : List Nat)
    (h : titleCaseStr lexd src = .ok out) (hc : Covers (lexd src) src)
    (hs : CaseStable lexd src out) : titleCaseStr lexd out = .ok out := by
  unfold titleCaseStr at *
  rw [makeTitleCase_congr hs out]
  exact title_idempotent_tokens _ _ _ h hc

/-! ### Non-vacuity and witnesses (concrete, kernel-evaluated) -/

/-- `this is a test` → `This Is a Test` (`toksEx`, `srcEx`, `outEx` in `Lemmas/Title.lean`) -/
example : makeTitleCase toksEx srcEx = .ok outEx := by decide

/-- the hypotheses of `title_length`, `title_first_upper`, `title_idempotent_tokens` hold of it -/
example : spanOf toksEx = some (0, 14) ∧ Covers toksEx srcEx ∧
    (toksEx.filter (·.wordLike)).Pairwise (fun p q => p.stop ≤ q.start) ∧
    makeTitleCase toksEx outEx = .ok outEx := by decide

example : Bounded 0 14 toksEx := by
  unfold Bounded; decide

/-- `CaseStable` is satisfiable: a lexer whose consulted data do not depend on case -/
example : CaseStable (fun _ => toksEx) srcEx outEx ∧ titleCaseStr (fun _ => toksEx) srcEx = .ok outEx := by
  unfold CaseStable titleCaseStr; decide

/-- a proper noun takes the dictionary's spelling (`iphone` → `iPhone`), then, being first, gets
an upper-case first letter; a curly apostrophe is normalised (`o’reilly` → `O'Reilly`) -/
example : makeTitleCase [⟨0,6,true,true,false,false,[105,112,104,111,110,101],some [105,80,104,111,110,101]⟩]
    [105,112,104,111,110,101] = .ok [73,80,104,111,110,101] := by decide
example : makeTitleCase [⟨0,8,true,true,false,false,[111,8217,114,101,105,108,108,121],
      some [79,39,82,101,105,108,108,121]⟩]
    [111,8217,114,101,105,108,108,121] = .ok [79,39,82,101,105,108,108,121] := by decide

/-- shape witness: a canonical spelling SHORTER than its token makes `correct_caps[idx]` panic … -/
example : makeTitleCase [⟨0,3,true,true,false,false,[97,98,99],some [65,66]⟩] [97,98,99] =
    .error .sliceOOB := by decide
/-- … a LONGER one is silently cut to the token's length (no panic, same length). No entry of the
curated dictionary has either shape (harness monitor over all 129,991 entries × 4 spellings). -/
example : makeTitleCase [⟨0,3,true,true,false,false,[97,98,99],some [65,66,67,68]⟩] [97,98,99] =
    .ok [65,66,67] := by decide

/-- an empty word-like token at the end of the buffer panics (`output[start - start_index]`);
`Bounded` excludes it -/
example : makeTitleCase [⟨0,1,false,false,false,false,[],none⟩, ⟨1,1,true,false,false,false,[],none⟩] [32] =
    .error .sliceOOB := by decide

/-- no tokens → empty output, whatever the text (Markdown `A\n` style inputs lose characters that
no token covers: the "same length" clause is about the text under the tokens) -/
example : makeTitleCase [] [65, 10] = .ok [] ∧
    makeTitleCase [⟨0,1,true,true,false,true,[97],none⟩] [65, 10] = .ok [65] := by decide

/-- short prepositions, determiners and the five conjunctions are lower-cased as a whole, unless
first or last -/
example : makeTitleCase [⟨0,2,true,true,true,false,[111,102],none⟩, ⟨2,3,false,false,false,false,[],none⟩,
      ⟨3,6,true,true,false,false,[97,110,100],none⟩, ⟨6,7,false,false,false,false,[],none⟩,
      ⟨7,9,true,true,true,false,[105,110],none⟩]
    [79,70,32,65,78,68,32,73,78] = .ok [79,70,32,97,110,100,32,73,78] := by decide

end Harper.C18
