import Harper.Props.C02
import Harper.Lemmas.CondensePats
/-!
# C02 (continued) — `Document::parse`: every condensing pass preserves tiling

`Document::new(text, &PlainEnglish, _)` = `PlainEnglish::parse` followed by `condense_spaces`,
`condense_newlines`, `newlines_to_breaks`, `condense_contractions`, `condense_dotted_initialisms`,
`condense_number_suffixes`, `condense_ellipsis`, `condense_latin`, `match_quotes`
(`Model/Condense.lean`, compared token for token with the real `Document::new` on every run).
One theorem per pass: tokens that tile `[a, b)` still tile `[a, b)` afterwards — contiguous,
non-empty, in order, nothing lost or duplicated — and the passes that index into vectors never
panic. `document_tiles` composes them with `parsePlain_tiles`.
-/
namespace Harper.C02
open Harper

/-- `condense_spaces` (cursor advances twice after a merge, adjacency checked) -/
theorem condenseSpaces_tiles (toks : List Tok) (a b : Nat) (h : Tiles toks a b) :
    Tiles (condenseSpaces toks) a b := condenseSpaces_tiles' toks a b h

/-- `condense_newlines` -/
theorem condenseNewlines_tiles (toks : List Tok) (a b : Nat) (h : Tiles toks a b) :
    Tiles (condenseNewlines toks) a b := condenseNewlines_tiles' toks a b h

/-- `newlines_to_breaks` -/
theorem newlinesToBreaks_tiles (toks : List Tok) (a b : Nat) (h : Tiles toks a b) :
    Tiles (newlinesToBreaks toks) a b := newlinesToBreaks_tiles' toks a b h

/-- `condense_dotted_initialisms` (with the fix that closes an initialism at the end of the text) -/
theorem dottedInitialisms_tiles (toks : List Tok) (a b : Nat) (h : Tiles toks a b) :
    Tiles (dottedInitialisms toks) a b := dottedInitialisms_tiles' toks a b h

/-- `condense_number_suffixes` incl. `condense_indices`: never panics on tokens that tile a part
of the text, and preserves tiling -/
theorem numberSuffixes_tiles (src : List Char) (toks : List Tok) (a b : Nat) (h : Tiles toks a b)
    (hb : b ≤ src.length) : ∃ out, numberSuffixes src toks = .ok out ∧ Tiles out a b :=
  numberSuffixes_tiles' src toks a b h hb

/-- `condense_pattern`, generically: for a pattern that is total and bounded on the token vectors
in `P` and whose match ends are monotone (`PatOK`), `find_all_matches`' adjacent-pair filter leaves
disjoint increasing matches, the contiguity guard holds, and the loop + `remove_indices`
preserve tiling without panicking. -/
theorem condensePattern_tiles (m : Matcher) (edit : Kind → Kind) (src : List Char) (P : List Tok → Prop)
    (hp : PatOK m src P) (toks : List Tok) (a b : Nat) (hP : P toks) (h : Tiles toks a b) :
    ∃ out, condensePattern m edit src toks = .ok out ∧ Tiles out a b :=
  condensePattern_tiles_of m edit src P hp toks a b hP h

/-- `condense_contractions` (`word ' word`), unconditionally on tiling input -/
theorem condenseContractions_tiles (src : List Char) (toks : List Tok) (a b : Nat) (h : Tiles toks a b) :
    ∃ out, condenseContractions src toks = .ok out ∧ Tiles out a b :=
  condenseContractions_tiles' src toks a b h

/-- `condense_ellipsis` (two or more periods, maximal munch) -/
theorem condenseEllipsis_tiles (src : List Char) (toks : List Tok) (a b : Nat) (h : Tiles toks a b) :
    ∃ out, condenseEllipsis src toks = .ok out ∧ Tiles out a b :=
  condenseEllipsis_tiles' src toks a b h

/-- `condense_latin` (`etc.`, `vs.`, `et al.`): `get_content` never panics since the tokens lie
inside the text -/
theorem condenseLatin_tiles (src : List Char) (toks : List Tok) (a b : Nat) (h : Tiles toks a b)
    (hb : b ≤ src.length) : ∃ out, condenseLatin src toks = .ok out ∧ Tiles out a b :=
  condenseLatin_tiles' src toks a b h hb

/-- `match_quotes` only writes `twin_loc` -/
theorem matchQuotes_tiles (toks : List Tok) (a b : Nat) (h : Tiles toks a b) :
    Tiles (matchQuotes toks) a b := matchQuotes_tiles' toks a b h

/-- `Document::new(text, &PlainEnglish, _)` never panics or hangs and its final tokens tile the
text, for every text, every Unicode class table and every in-bounds behaviour of the url / e-mail /
hostname lexers: nothing is lost or duplicated by any condensing step. -/
theorem document_tiles (cls : Cls) (ext : Ext) (src : List Char) (hext : ExtOK ext src.length) :
    ∃ toks, document cls ext src = .ok toks ∧ Tiles toks 0 src.length := by
  obtain ⟨t0, e0, h0, _⟩ := parsePlain_tiles cls ext src hext
  obtain ⟨out, e, h⟩ := condenseAll_tiles src t0 src.length h0 (Nat.le_refl _)
  exact ⟨out, by simp only [document, e0, e], h⟩

/-! ### witnesses (kernel-evaluated): the quirks the model keeps -/

def chars (s : List Nat) : List Char := s.map Char.ofNat

/-- `" \t "`: three adjacent blank tokens become one (before fix `condense_spaces merges every
blank token of a run` the cursor advanced twice after a merge and only the first two were merged) -/
example : (document asciiCls (fun _ => none) [' ', '\t', ' ']).toOption =
    some [⟨⟨0, 3⟩, .space 4⟩] := by decide

/-- `a'b'c'd`: the overlap filter of `find_all_matches` compares neighbours in the ORIGINAL list, so
both later matches are dropped and only `a'b` is condensed -/
example : (document asciiCls (fun _ => none) ['a', '\'', 'b', '\'', 'c', '\'', 'd']).toOption =
    some [⟨⟨0, 3⟩, .word⟩, ⟨⟨3, 4⟩, .punct .Apostrophe⟩, ⟨⟨4, 5⟩, .word⟩, ⟨⟨5, 6⟩, .punct .Apostrophe⟩,
      ⟨⟨6, 7⟩, .word⟩] := by decide

/-- `et al.` becomes ONE `Word` token whose text contains a blank (recorded finding `c02-et-al`) -/
example : (document asciiCls (fun _ => none) ['e', 't', ' ', 'a', 'l', '.']).toOption =
    some [⟨⟨0, 6⟩, .word⟩] := by decide

/-- initialism at the end of the text, ordinal suffix, ellipsis, quote twins, paragraph break -/
example : (document asciiCls (fun _ => none)
      ['"', 'e', '.', 'g', '.', '"', ' ', '1', 's', 't', '.', '.', '.', '\n', '\n', 'a', '.', 'b', '.']).toOption =
    some [⟨⟨0, 1⟩, .quote (some 2)⟩, ⟨⟨1, 5⟩, .word⟩, ⟨⟨5, 6⟩, .quote (some 0)⟩, ⟨⟨6, 7⟩, .space 1⟩,
      ⟨⟨7, 10⟩, .number 10 (some .st)⟩, ⟨⟨10, 13⟩, .punct .Ellipsis⟩, ⟨⟨13, 15⟩, .paragraphBreak⟩,
      ⟨⟨15, 19⟩, .word⟩] := by decide

/-- the hypotheses of `condensePattern_tiles` are satisfiable: the three concrete patterns -/
example (src : List Char) : PatOK contractionPat src (fun _ => True) := contraction_patOK src
example (src : List Char) : PatOK ellipsisPat src (fun _ => True) := ellipsis_patOK src
example (src : List Char) : PatOK latinPat src (InB src) := latin_patOK src

/-- for an arbitrary pattern the adjacent-pair filter does NOT give disjoint matches: with matches
`[0,3) [1,2) [2,4)` the second is dropped (overlaps the first) and the third is kept although it
overlaps the first — `remove_indices` then loses a token -/
example : removeIndices 0 (overlapNext 1 [⟨0, 3⟩, ⟨1, 2⟩, ⟨2, 4⟩]) [(⟨0, 3⟩ : Span), ⟨1, 2⟩, ⟨2, 4⟩] =
    [⟨0, 3⟩, ⟨2, 4⟩] := by decide

end Harper.C02
