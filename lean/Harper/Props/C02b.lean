import Harper.Props.C02
import Harper.Lemmas.CondensePats
import Harper.Lemmas.Shape
import Harper.Lemmas.LexExt
import Harper.Model.DocFull
/-!
# C02 (continued) — `Document::parse`: every condensing pass preserves tiling

`Document::new(text, &PlainEnglish, _)` = `PlainEnglish::parse` followed by `condense_spaces`,
`condense_newlines`, `newlines_to_breaks`, `condense_contractions`, `condense_dotted_initialisms`,
`condense_number_suffixes`, `condense_ellipsis`, `condense_latin`, `match_quotes`
(`Model/Condense.lean`, compared token for token with the real `Document::new` on every run).
One theorem per pass: tokens that tile `[a, b)` still tile `[a, b)` afterwards — contiguous,
non-empty, in order, nothing lost or duplicated — and the passes that index into vectors never
panic. `document_tiles` composes them with `parsePlain_tiles`.
-/
namespace Harper.C02
open Harper

/-- `condense_spaces` (adjacency checked) -/
theorem condenseSpaces_tiles (toks : List Tok) (a b : Nat) (h : Tiles toks a b) :
    Tiles (condenseSpaces toks) a b := condenseSpaces_tiles' toks a b h

/-- non-vacuity of `condenseSpaces_tiles`: `a␣⇥b` at offset 2, the theorem applied; what the pass returns -/
example : Tiles (condenseSpaces [⟨⟨2,3⟩,.word⟩, ⟨⟨3,4⟩,.space 1⟩, ⟨⟨4,5⟩,.space 2⟩, ⟨⟨5,6⟩,.word⟩]) 2 6 :=
  condenseSpaces_tiles _ 2 6 (by decide)
example : condenseSpaces [⟨⟨2,3⟩,.word⟩, ⟨⟨3,4⟩,.space 1⟩, ⟨⟨4,5⟩,.space 2⟩, ⟨⟨5,6⟩,.word⟩] =
    [⟨⟨2,3⟩,.word⟩, ⟨⟨3,5⟩,.space 3⟩, ⟨⟨5,6⟩,.word⟩] := by decide

/-- `condense_newlines` -/
theorem condenseNewlines_tiles (toks : List Tok) (a b : Nat) (h : Tiles toks a b) :
    Tiles (condenseNewlines toks) a b := condenseNewlines_tiles' toks a b h

/-- non-vacuity of `condenseNewlines_tiles` -/
example : Tiles (condenseNewlines [⟨⟨2,3⟩,.word⟩, ⟨⟨3,4⟩,.newline 1⟩, ⟨⟨4,6⟩,.newline 2⟩, ⟨⟨6,7⟩,.word⟩]) 2 7 :=
  condenseNewlines_tiles _ 2 7 (by decide)
example : condenseNewlines [⟨⟨2,3⟩,.word⟩, ⟨⟨3,4⟩,.newline 1⟩, ⟨⟨4,6⟩,.newline 2⟩, ⟨⟨6,7⟩,.word⟩] =
    [⟨⟨2,3⟩,.word⟩, ⟨⟨3,6⟩,.newline 3⟩, ⟨⟨6,7⟩,.word⟩] := by decide

/-- `newlines_to_breaks` -/
theorem newlinesToBreaks_tiles (toks : List Tok) (a b : Nat) (h : Tiles toks a b) :
    Tiles (newlinesToBreaks toks) a b := newlinesToBreaks_tiles' toks a b h

/-- non-vacuity of `newlinesToBreaks_tiles` -/
example : Tiles (newlinesToBreaks [⟨⟨2,3⟩,.word⟩, ⟨⟨3,6⟩,.newline 3⟩, ⟨⟨6,7⟩,.newline 1⟩]) 2 7 :=
  newlinesToBreaks_tiles _ 2 7 (by decide)
example : newlinesToBreaks [⟨⟨2,3⟩,.word⟩, ⟨⟨3,6⟩,.newline 3⟩, ⟨⟨6,7⟩,.newline 1⟩] =
    [⟨⟨2,3⟩,.word⟩, ⟨⟨3,6⟩,.paragraphBreak⟩, ⟨⟨6,7⟩,.newline 1⟩] := by decide

/-- `condense_dotted_initialisms` (with the fix that closes an initialism at the end of the text) -/
theorem dottedInitialisms_tiles (toks : List Tok) (a b : Nat) (h : Tiles toks a b) :
    Tiles (dottedInitialisms toks) a b := dottedInitialisms_tiles' toks a b h

/-- non-vacuity of `dottedInitialisms_tiles`: `a.b.` at offset 1 running up to the end of the vector -/
example : Tiles (dottedInitialisms [⟨⟨1,2⟩,.word⟩, ⟨⟨2,3⟩,.punct .Period⟩, ⟨⟨3,4⟩,.word⟩, ⟨⟨4,5⟩,.punct .Period⟩]) 1 5 :=
  dottedInitialisms_tiles _ 1 5 (by decide)
example : dottedInitialisms [⟨⟨1,2⟩,.word⟩, ⟨⟨2,3⟩,.punct .Period⟩, ⟨⟨3,4⟩,.word⟩, ⟨⟨4,5⟩,.punct .Period⟩] =
    [⟨⟨1,5⟩,.word⟩] := by decide

/-- `condense_number_suffixes` incl. `condense_indices`: never panics on tokens that tile a part
of the text, and preserves tiling -/
theorem numberSuffixes_tiles (src : List Char) (toks : List Tok) (a b : Nat) (h : Tiles toks a b)
    (hb : b ≤ src.length) : ∃ out, numberSuffixes src toks = .ok out ∧ Tiles out a b :=
  numberSuffixes_tiles' src toks a b h hb

/-- non-vacuity of `numberSuffixes_tiles`: both hypotheses on `x2nd!`, tokens `2` `nd` tiling `[1, 4)` -/
example : ∃ out, numberSuffixes ['x', '2', 'n', 'd', '!'] [⟨⟨1,2⟩,.number 10 none⟩, ⟨⟨2,4⟩,.word⟩] = .ok out ∧
    Tiles out 1 4 := numberSuffixes_tiles _ _ 1 4 (by decide) (by decide)
example : (numberSuffixes ['x', '2', 'n', 'd', '!'] [⟨⟨1,2⟩,.number 10 none⟩, ⟨⟨2,4⟩,.word⟩]).toOption =
    some [⟨⟨1,4⟩,.number 10 (some .nd)⟩] := by decide

/-- the hypothesis `b ≤ src.length` is needed: a token beyond the text makes `get_span_content` panic -/
example : (numberSuffixes ['1'] [⟨⟨0,1⟩,.number 10 none⟩, ⟨⟨1,3⟩,.word⟩]).toOption = none := by decide

/-- `condense_pattern`, generically: for a pattern that is total and bounded on the token vectors
in `P` and whose match ends are monotone (`PatOK`), `find_all_matches`' adjacent-pair filter leaves
disjoint increasing matches, the contiguity guard holds, and the loop + `remove_indices`
preserve tiling without panicking. -/
theorem condensePattern_tiles (m : Matcher) (edit : Kind → Kind) (src : List Char) (P : List Tok → Prop)
    (hp : PatOK m src P) (toks : List Tok) (a b : Nat) (hP : P toks) (h : Tiles toks a b) :
    ∃ out, condensePattern m edit src toks = .ok out ∧ Tiles out a b :=
  condensePattern_tiles_of m edit src P hp toks a b hP h

/-- non-vacuity of `condensePattern_tiles`: `PatOK`, `P toks` and `Tiles` together (`etc.` under the Latin
pattern, `P` = every token non-empty and inside the text) -/
example : ∃ out, condensePattern latinPat id ['e', 't', 'c', '.'] [⟨⟨0,3⟩,.word⟩, ⟨⟨3,4⟩,.punct .Period⟩] = .ok out ∧
    Tiles out 0 4 :=
  condensePattern_tiles latinPat id _ _ (latin_patOK _) _ 0 4
    (by intro t ht; simp at ht; rcases ht with rfl | rfl <;> decide) (by decide)

/-- `condense_contractions` (`word ' word`), unconditionally on tiling input -/
theorem condenseContractions_tiles (src : List Char) (toks : List Tok) (a b : Nat) (h : Tiles toks a b) :
    ∃ out, condenseContractions src toks = .ok out ∧ Tiles out a b :=
  condenseContractions_tiles' src toks a b h

/-- non-vacuity of `condenseContractions_tiles`: `it's` -/
example : ∃ out, condenseContractions ['i', 't', '\'', 's']
      [⟨⟨0,2⟩,.word⟩, ⟨⟨2,3⟩,.punct .Apostrophe⟩, ⟨⟨3,4⟩,.word⟩] = .ok out ∧ Tiles out 0 4 :=
  condenseContractions_tiles _ _ 0 4 (by decide)
example : (condenseContractions ['i', 't', '\'', 's']
      [⟨⟨0,2⟩,.word⟩, ⟨⟨2,3⟩,.punct .Apostrophe⟩, ⟨⟨3,4⟩,.word⟩]).toOption = some [⟨⟨0,4⟩,.word⟩] := by decide

/-- `condense_ellipsis` (two or more periods, maximal munch) -/
theorem condenseEllipsis_tiles (src : List Char) (toks : List Tok) (a b : Nat) (h : Tiles toks a b) :
    ∃ out, condenseEllipsis src toks = .ok out ∧ Tiles out a b :=
  condenseEllipsis_tiles' src toks a b h

/-- non-vacuity of `condenseEllipsis_tiles`: `a...` -/
example : ∃ out, condenseEllipsis ['a', '.', '.', '.']
      [⟨⟨0,1⟩,.word⟩, ⟨⟨1,2⟩,.punct .Period⟩, ⟨⟨2,3⟩,.punct .Period⟩, ⟨⟨3,4⟩,.punct .Period⟩] = .ok out ∧
    Tiles out 0 4 := condenseEllipsis_tiles _ _ 0 4 (by decide)
example : (condenseEllipsis ['a', '.', '.', '.']
      [⟨⟨0,1⟩,.word⟩, ⟨⟨1,2⟩,.punct .Period⟩, ⟨⟨2,3⟩,.punct .Period⟩, ⟨⟨3,4⟩,.punct .Period⟩]).toOption =
    some [⟨⟨0,1⟩,.word⟩, ⟨⟨1,4⟩,.punct .Ellipsis⟩] := by decide

/-- `condense_latin` (`etc.`, `vs.`, `et al.`): `get_content` never panics since the tokens lie
inside the text -/
theorem condenseLatin_tiles (src : List Char) (toks : List Tok) (a b : Nat) (h : Tiles toks a b)
    (hb : b ≤ src.length) : ∃ out, condenseLatin src toks = .ok out ∧ Tiles out a b :=
  condenseLatin_tiles' src toks a b h hb

/-- non-vacuity of `condenseLatin_tiles`: `Vs.␣`, both hypotheses -/
example : ∃ out, condenseLatin ['V', 's', '.', ' '] [⟨⟨0,2⟩,.word⟩, ⟨⟨2,3⟩,.punct .Period⟩, ⟨⟨3,4⟩,.space 1⟩] = .ok out ∧
    Tiles out 0 4 := condenseLatin_tiles _ _ 0 4 (by decide) (by decide)
example : (condenseLatin ['V', 's', '.', ' '] [⟨⟨0,2⟩,.word⟩, ⟨⟨2,3⟩,.punct .Period⟩, ⟨⟨3,4⟩,.space 1⟩]).toOption =
    some [⟨⟨0,3⟩,.word⟩, ⟨⟨3,4⟩,.space 1⟩] := by decide

/-- `match_quotes` only writes `twin_loc` -/
theorem matchQuotes_tiles (toks : List Tok) (a b : Nat) (h : Tiles toks a b) :
    Tiles (matchQuotes toks) a b := matchQuotes_tiles' toks a b h

/-- non-vacuity of `matchQuotes_tiles` -/
example : Tiles (matchQuotes [⟨⟨0,1⟩,.quote none⟩, ⟨⟨1,2⟩,.word⟩, ⟨⟨2,3⟩,.quote none⟩]) 0 3 :=
  matchQuotes_tiles _ 0 3 (by decide)

/-- `Document::new(text, &PlainEnglish, _)` never panics or hangs and its final tokens tile the
text, for every text, every Unicode class table and every in-bounds behaviour of the url / e-mail /
hostname lexers: nothing is lost or duplicated by any condensing step. -/
theorem document_tiles (cls : Cls) (ext : Ext) (src : List Char) (hext : ExtOK ext src.length) :
    ∃ toks, document cls ext src = .ok toks ∧ Tiles toks 0 src.length := by
  obtain ⟨t0, e0, h0, _⟩ := parsePlain_tiles cls ext src hext
  obtain ⟨out, e, h⟩ := condenseAll_tiles src t0 src.length h0 (Nat.le_refl _)
  exact ⟨out, by simp only [document, e0, e], h⟩

/-- non-vacuity of `document_tiles` with a table that is not empty (`a a.b␣␣"`, the hostname `a.b` reported at
position 2): the theorem applied, and the tokens it speaks about -/
example : ∃ toks, document asciiCls (fun pos => if pos = 2 then some (.hostname, 3) else none)
      ['a', ' ', 'a', '.', 'b', ' ', ' ', '"'] = .ok toks ∧ Tiles toks 0 8 :=
  document_tiles asciiCls _ ['a', ' ', 'a', '.', 'b', ' ', ' ', '"'] (by
    intro pos k n h
    dsimp only at h
    split at h
    · cases h; simp only [List.length_cons, List.length_nil]; omega
    · cases h)
example : (document asciiCls (fun pos => if pos = 2 then some (.hostname, 3) else none)
      ['a', ' ', 'a', '.', 'b', ' ', ' ', '"']).toOption =
    some [⟨⟨0,1⟩,.word⟩, ⟨⟨1,2⟩,.space 1⟩, ⟨⟨2,5⟩,.hostname⟩, ⟨⟨5,7⟩,.space 2⟩, ⟨⟨7,8⟩,.quote none⟩] := by decide

/-- the property's first sentence for plain English, on the final `Document` tokens: every token covers at
least one character, lies inside the text, and the tokens are in increasing, non-overlapping order (there
are no zero-width tokens at all) -/
theorem document_inbounds_sorted (cls : Cls) (ext : Ext) (src : List Char) (hext : ExtOK ext src.length) :
    ∃ toks, document cls ext src = .ok toks ∧
      (∀ t ∈ toks, t.span.start < t.span.stop ∧ t.span.stop ≤ src.length) ∧
      toks.Pairwise (fun x y => x.span.stop ≤ y.span.start) := by
  obtain ⟨toks, e, h⟩ := document_tiles cls ext src hext
  obtain ⟨_, h2, h3⟩ := tiles_inbounds_sorted toks 0 src.length h
  exact ⟨toks, e, fun t ht => ⟨(h2 t ht).2.1, (h2 t ht).2.2⟩, h3⟩

/-- the two pipelines the driver runs are one: op `docfull` (`documentFull`, nothing handed over) is op `doc`
(`document`) on the table the model's own url / e-mail / hostname lexers compute from the text -/
theorem documentFull_eq (cls : Cls) (src : List Char) :
    documentFull cls src = document cls (extOfSrc src) src := rfl

/-- … and `PlainEnglish::parse` inside it is `parsePlainFull` (op `lexfull`) -/
theorem documentFull_eq_condense (cls : Cls) (src : List Char) :
    documentFull cls src = (parsePlainFull cls src >>= condenseAll src) := by
  simp only [documentFull, document, parsePlainFull]
  cases parsePlain cls (extOfSrc src) src <;> rfl

/-- `Document::new(text, &PlainEnglish, _)` with the url / e-mail / hostname lexers computed by the model
(`extOfSrc`, `Model/LexExt.lean`; `documentFull` is what op `docfull` runs against the real `Document::new`):
no hypothesis left but the text and the Unicode class table -/
theorem documentFull_tiles (cls : Cls) (src : List Char) :
    ∃ toks, documentFull cls src = .ok toks ∧ Tiles toks 0 src.length :=
  document_tiles cls (extOfSrc src) src (Harper.extOfSrc_ok src)

theorem documentFull_inbounds_sorted (cls : Cls) (src : List Char) :
    ∃ toks, documentFull cls src = .ok toks ∧
      (∀ t ∈ toks, t.span.start < t.span.stop ∧ t.span.stop ≤ src.length) ∧
      toks.Pairwise (fun x y => x.span.stop ≤ y.span.start) :=
  document_inbounds_sorted cls (extOfSrc src) src (Harper.extOfSrc_ok src)

/-- never a panic, never out of fuel: the table-free pipeline is total -/
theorem documentFull_total (cls : Cls) (src : List Char) : ∃ toks, documentFull cls src = .ok toks := by
  obtain ⟨toks, h, _⟩ := documentFull_tiles cls src
  exact ⟨toks, h⟩

/-- `x@y.z, it's "1st"` with the computed table: e-mail address, contraction, ordinal suffix, quote twins -/
example : (document asciiCls (extOfSrc ['x', '@', 'y', '.', 'z', ',', ' ', 'i', 't', '\'', 's', ' ', '"', '1', 's', 't', '"'])
      ['x', '@', 'y', '.', 'z', ',', ' ', 'i', 't', '\'', 's', ' ', '"', '1', 's', 't', '"']).toOption =
    some [⟨⟨0,5⟩,.email⟩, ⟨⟨5,6⟩,.punct .Comma⟩, ⟨⟨6,7⟩,.space 1⟩, ⟨⟨7,11⟩,.word⟩, ⟨⟨11,12⟩,.space 1⟩,
      ⟨⟨12,13⟩,.quote (some 7)⟩, ⟨⟨13,16⟩,.number 10 (some .st)⟩, ⟨⟨16,17⟩,.quote (some 5)⟩] := by decide

/-- the driven definition on a text with an e-mail address, a URL and a hostname inside (`it's x@y.z, http://a.b/c or
a.b 2nd`): what op `docfull` prints, kernel-evaluated — contraction and ordinal condensed around the three tokens the
model's own lexers found -/
example : (documentFull asciiCls ['i', 't', '\'', 's', ' ', 'x', '@', 'y', '.', 'z', ',', ' ', 'h', 't', 't', 'p', ':', '/', '/', 'a', '.', 'b', '/', 'c', ' ',
      'o', 'r', ' ', 'a', '.', 'b', ' ', '2', 'n', 'd']).toOption =
    some [⟨⟨0,4⟩,.word⟩, ⟨⟨4,5⟩,.space 1⟩, ⟨⟨5,10⟩,.email⟩, ⟨⟨10,11⟩,.punct .Comma⟩, ⟨⟨11,12⟩,.space 1⟩, ⟨⟨12,24⟩,.url⟩,
      ⟨⟨24,25⟩,.space 1⟩, ⟨⟨25,27⟩,.word⟩, ⟨⟨27,28⟩,.space 1⟩, ⟨⟨28,31⟩,.hostname⟩, ⟨⟨31,32⟩,.space 1⟩,
      ⟨⟨32,35⟩,.number 10 (some .nd)⟩] := by decide

/-- non-vacuity of `documentFull_tiles` / `documentFull_inbounds_sorted` on that text: the theorem applied (its
conclusion is about the 12 tokens above, which tile `[0, 35)`) -/
example : ∃ toks, documentFull asciiCls ['i', 't', '\'', 's', ' ', 'x', '@', 'y', '.', 'z', ',', ' ', 'h', 't', 't', 'p', ':', '/', '/', 'a', '.', 'b', '/', 'c', ' ',
      'o', 'r', ' ', 'a', '.', 'b', ' ', '2', 'n', 'd'] = .ok toks ∧ Tiles toks 0 35 :=
  documentFull_tiles asciiCls _
example : Tiles [⟨⟨0,4⟩,.word⟩, ⟨⟨4,5⟩,.space 1⟩, ⟨⟨5,10⟩,.email⟩, ⟨⟨10,11⟩,.punct .Comma⟩, ⟨⟨11,12⟩,.space 1⟩, ⟨⟨12,24⟩,.url⟩,
      ⟨⟨24,25⟩,.space 1⟩, ⟨⟨25,27⟩,.word⟩, ⟨⟨27,28⟩,.space 1⟩, ⟨⟨28,31⟩,.hostname⟩, ⟨⟨31,32⟩,.space 1⟩,
      ⟨⟨32,35⟩,.number 10 (some .nd)⟩] 0 35 := by decide

/-- a quirk of the real lexers kept inside the pipeline: `lex_login` looks for the first `@` in the whole rest of the
text, so an address LATER in the sentence cuts the URL down to `http://` and the host and path are lexed separately
(`see http://a.b/c, x@y.z`; the same text without the address keeps `http://a.b/c` whole, see above) -/
example : (documentFull asciiCls ['s', 'e', 'e', ' ', 'h', 't', 't', 'p', ':', '/', '/', 'a', '.', 'b', '/', 'c', ',', ' ', 'x', '@', 'y', '.', 'z']).toOption =
    some [⟨⟨0,3⟩,.word⟩, ⟨⟨3,4⟩,.space 1⟩, ⟨⟨4,11⟩,.url⟩, ⟨⟨11,14⟩,.hostname⟩, ⟨⟨14,15⟩,.punct .ForwardSlash⟩,
      ⟨⟨15,16⟩,.word⟩, ⟨⟨16,17⟩,.punct .Comma⟩, ⟨⟨17,18⟩,.space 1⟩, ⟨⟨18,23⟩,.email⟩] := by decide

/-- the computed table matters: with the empty table (op `doc` with nothing handed over) the same text has no
e-mail token — `docfull` and `doc | … |` differ exactly by what the three lexers find -/
example : (documentFull asciiCls ['x', '@', 'y', '.', 'z']).toOption = some [⟨⟨0,5⟩,.email⟩] ∧
    (document asciiCls (fun _ => none) ['x', '@', 'y', '.', 'z']).toOption =
      some [⟨⟨0,1⟩,.word⟩, ⟨⟨1,2⟩,.punct .At⟩, ⟨⟨2,4⟩,.word⟩, ⟨⟨4,5⟩,.word⟩] := by
  decide

/-! ### witnesses (kernel-evaluated): the quirks the model keeps -/

def chars (s : List Nat) : List Char := s.map Char.ofNat

/-- `" \t "`: three adjacent blank tokens become one (before fix `condense_spaces merges every
blank token of a run` the cursor advanced twice after a merge and only the first two were merged) -/
example : (document asciiCls (fun _ => none) [' ', '\t', ' ']).toOption =
    some [⟨⟨0, 3⟩, .space 4⟩] := by decide

/-- `a'b'c'd`: the overlap filter of `find_all_matches` compares neighbours in the ORIGINAL list, so
both later matches are dropped and only `a'b` is condensed -/
example : (document asciiCls (fun _ => none) ['a', '\'', 'b', '\'', 'c', '\'', 'd']).toOption =
    some [⟨⟨0, 3⟩, .word⟩, ⟨⟨3, 4⟩, .punct .Apostrophe⟩, ⟨⟨4, 5⟩, .word⟩, ⟨⟨5, 6⟩, .punct .Apostrophe⟩,
      ⟨⟨6, 7⟩, .word⟩] := by decide

/-- `et al.` becomes ONE `Word` token whose text contains a blank (recorded finding `c02-et-al`) -/
example : (document asciiCls (fun _ => none) ['e', 't', ' ', 'a', 'l', '.']).toOption =
    some [⟨⟨0, 6⟩, .word⟩] := by decide

/-- initialism at the end of the text, ordinal suffix, ellipsis, quote twins, paragraph break -/
example : (document asciiCls (fun _ => none)
      ['"', 'e', '.', 'g', '.', '"', ' ', '1', 's', 't', '.', '.', '.', '\n', '\n', 'a', '.', 'b', '.']).toOption =
    some [⟨⟨0, 1⟩, .quote (some 2)⟩, ⟨⟨1, 5⟩, .word⟩, ⟨⟨5, 6⟩, .quote (some 0)⟩, ⟨⟨6, 7⟩, .space 1⟩,
      ⟨⟨7, 10⟩, .number 10 (some .st)⟩, ⟨⟨10, 13⟩, .punct .Ellipsis⟩, ⟨⟨13, 15⟩, .paragraphBreak⟩,
      ⟨⟨15, 19⟩, .word⟩] := by decide

/-- the hypotheses of `condensePattern_tiles` are satisfiable: the three concrete patterns -/
example (src : List Char) : PatOK contractionPat src (fun _ => True) := contraction_patOK src
example (src : List Char) : PatOK ellipsisPat src (fun _ => True) := ellipsis_patOK src
example (src : List Char) : PatOK latinPat src (InB src) := latin_patOK src

/-- for an arbitrary pattern the adjacent-pair filter does NOT give disjoint matches: with matches
`[0,3) [1,2) [2,4)` the second is dropped (overlaps the first) and the third is kept although it
overlaps the first — `remove_indices` then loses a token -/
example : removeIndices 0 (overlapNext 1 [⟨0, 3⟩, ⟨1, 2⟩, ⟨2, 4⟩]) [(⟨0, 3⟩ : Span), ⟨1, 2⟩, ⟨2, 4⟩] =
    [⟨0, 3⟩, ⟨2, 4⟩] := by decide

/-! ## kind-shape facts of a `Document` -/

/-- A `Space(n)` token of a document covers only blanks and tabs, and `n` = #blanks + 2·#tabs:
true of what `lex_spaces` / `lex_tabs` produce, kept by `condense_spaces` (it adds the counts of
adjacent tokens), and no later pass rewrites a `Space` token (the pattern passes rewrite the first
token of a match only, a `Word` or a `Period`). -/
theorem space_shape (cls : Cls) (ext : Ext) (src : List Char) (hext : ExtOK ext src.length) (out : List Tok)
    (h : document cls ext src = .ok out) (t : Tok) (ht : t ∈ out) (n : Nat) (hk : t.kind = .space n) :
    (∀ c ∈ (src.drop t.span.start).take (t.span.stop - t.span.start), c = ' ' ∨ c = '\t') ∧
      n = ((src.drop t.span.start).take (t.span.stop - t.span.start)).count ' ' +
        2 * ((src.drop t.span.start).take (t.span.stop - t.span.start)).count '\t' :=
  (document_shape cls ext src hext out h t ht).1 n hk

/-- `toOption = some v` (what `decide` can check) gives `= .ok v` (what the theorems assume) -/
theorem ok_of_toOption_eq_some {α} (r : Except Panic α) (v : α) (h : r.toOption = some v) : r = .ok v := by
  cases r with
  | error e => cases h
  | ok a => simp only [Except.toOption, Option.some.injEq] at h; rw [h]

/-- the document of `2nd␣⇥"x"`, used as the witness below -/
theorem shapeWitness_doc : document asciiCls (fun _ => none) ['2', 'n', 'd', ' ', '\t', '"', 'x', '"'] =
    .ok [⟨⟨0,3⟩,.number 10 (some .nd)⟩, ⟨⟨3,5⟩,.space 3⟩, ⟨⟨5,6⟩,.quote (some 4)⟩, ⟨⟨6,7⟩,.word⟩, ⟨⟨7,8⟩,.quote (some 2)⟩] :=
  ok_of_toOption_eq_some _ _ (by decide)

/-- non-vacuity of `space_shape`: all hypotheses on the `Space(3)` token of `2nd␣⇥"x"`, the theorem applied -/
example : (∀ c ∈ [' ', '\t'], c = ' ' ∨ c = '\t') ∧ 3 = [' ', '\t'].count ' ' + 2 * [' ', '\t'].count '\t' :=
  space_shape asciiCls (fun _ => none) _ (by intro _ _ _ h; cases h) _ shapeWitness_doc
    ⟨⟨3,5⟩,.space 3⟩ (by decide) 3 rfl

/-- A `Number` token with suffix `s` ends in two characters that `NumberSuffix::from_chars` reads as
`s` (a row of the table regenerated from `number.rs`). -/
theorem number_suffix_shape (cls : Cls) (ext : Ext) (src : List Char) (hext : ExtOK ext src.length)
    (out : List Tok) (h : document cls ext src = .ok out) (t : Tok) (ht : t ∈ out) (r : Nat) (s : Suffix)
    (hk : t.kind = .number r (some s)) :
    ∃ pre c1 c2, (src.drop t.span.start).take (t.span.stop - t.span.start) = pre ++ [c1, c2] ∧
      fromCharsRow c1 c2 = some s :=
  (document_shape cls ext src hext out h t ht).2 r s hk

/-- non-vacuity of `number_suffix_shape`: the `Number` token `2nd` of the same document -/
example : ∃ pre c1 c2, ['2', 'n', 'd'] = pre ++ [c1, c2] ∧ fromCharsRow c1 c2 = some .nd :=
  number_suffix_shape asciiCls (fun _ => none) _ (by intro _ _ _ h; cases h) _ shapeWitness_doc
    ⟨⟨0,3⟩,.number 10 (some .nd)⟩ (by decide) 10 .nd rfl

/-- `match_quotes`: the twin of a quote token is a (different) quote token whose twin is the first;
stated for any token vector whose quote tokens carry no twin yet … -/
theorem matchQuotes_involutive (toks : List Tok) (hf : Fresh toks) (i j : Nat) (t : Tok)
    (h : (matchQuotes toks)[i]? = some t) (hk : t.kind = .quote (some j)) :
    ∃ u, (matchQuotes toks)[j]? = some u ∧ u.kind = .quote (some i) ∧ i ≠ j :=
  matchQuotes_twin toks hf i j t h hk

/-- non-vacuity of `matchQuotes_involutive`: `Fresh`, `h` and `hk` together (`i = 0`, `j = 2`), theorem applied -/
example : ∃ u, (matchQuotes [⟨⟨0,1⟩,.quote none⟩, ⟨⟨1,2⟩,.word⟩, ⟨⟨2,3⟩,.quote none⟩])[2]? = some u ∧
    u.kind = .quote (some 0) ∧ 0 ≠ 2 :=
  matchQuotes_involutive [⟨⟨0,1⟩,.quote none⟩, ⟨⟨1,2⟩,.word⟩, ⟨⟨2,3⟩,.quote none⟩]
    (by intro t ht x hx
        simp only [List.mem_cons, List.mem_nil_iff, or_false] at ht
        rcases ht with rfl | rfl | rfl <;> cases hx)
    0 2 ⟨⟨0,1⟩,.quote (some 2)⟩ (by decide) rfl

/-- `Fresh` is needed: a stale twin index is left alone when the quote has no partner -/
example : (matchQuotes [⟨⟨0,1⟩,.quote (some 7)⟩])[0]? = some ⟨⟨0,1⟩,.quote (some 7)⟩ := by decide

/-- … and for the tokens of a document -/
theorem document_twins_involutive (cls : Cls) (ext : Ext) (src : List Char) (out : List Tok)
    (h : document cls ext src = .ok out) (i j : Nat) (t : Tok) (hi : out[i]? = some t)
    (hk : t.kind = .quote (some j)) : ∃ u, out[j]? = some u ∧ u.kind = .quote (some i) ∧ i ≠ j := by
  obtain ⟨t8, hf, rfl⟩ := document_prequotes cls ext src out h
  exact matchQuotes_twin t8 hf i j t hi hk

/-- non-vacuity of `document_twins_involutive`: the quotation marks of `2nd␣⇥"x"` (tokens 2 and 4) -/
example : ∃ u, ([⟨⟨0,3⟩,.number 10 (some .nd)⟩, ⟨⟨3,5⟩,.space 3⟩, ⟨⟨5,6⟩,.quote (some 4)⟩, ⟨⟨6,7⟩,.word⟩,
      ⟨⟨7,8⟩,.quote (some 2)⟩] : List Tok)[4]? = some u ∧ u.kind = .quote (some 2) ∧ 2 ≠ 4 :=
  document_twins_involutive asciiCls (fun _ => none) _ _ shapeWitness_doc 2 4 _ rfl rfl

/-- of an odd number of quotation marks the last one has no twin -/
theorem matchQuotes_unpaired_last (toks : List Tok) (hf : Fresh toks) (q : Nat)
    (hodd : (quoteIdx 0 toks).length % 2 = 1) (hq : (quoteIdx 0 toks).getLast? = some q) :
    ∃ t, (matchQuotes toks)[q]? = some t ∧ t.kind = .quote none :=
  matchQuotes_unpaired toks hf q hodd hq

/-- non-vacuity of `matchQuotes_unpaired_last`: three quotation marks, the third (index 3) stays alone -/
example : ∃ t, (matchQuotes [⟨⟨0,1⟩,.quote none⟩, ⟨⟨1,2⟩,.quote none⟩, ⟨⟨2,3⟩,.word⟩, ⟨⟨3,4⟩,.quote none⟩])[3]? = some t ∧
    t.kind = .quote none :=
  matchQuotes_unpaired_last _
    (by intro t ht x hx
        simp only [List.mem_cons, List.mem_nil_iff, or_false] at ht
        rcases ht with rfl | rfl | rfl | rfl <;> cases hx)
    3 (by decide) (by decide)

/-- `match_quotes` leaves every other token as it is -/
theorem matchQuotes_only_quotes (toks : List Tok) (i : Nat) (t : Tok) (h : toks[i]? = some t)
    (hq : t.kind.isQuote = false) : (matchQuotes toks)[i]? = some t := matchQuotes_other toks i t h hq

/-- non-vacuity of `matchQuotes_only_quotes` -/
example : (matchQuotes [⟨⟨0,1⟩,.quote none⟩, ⟨⟨1,2⟩,.word⟩, ⟨⟨2,3⟩,.quote none⟩])[1]? = some ⟨⟨1,2⟩,.word⟩ :=
  matchQuotes_only_quotes _ 1 _ (by decide) rfl

/-- witnesses: `" \t  "` is one `Space(5)` token = 3 blanks + 2·1 tab; three quotation marks: the
first two are twins, the third has none -/
example : (document asciiCls (fun _ => none) [' ', '\t', ' ', ' ']).toOption = some [⟨⟨0, 4⟩, .space 5⟩] := by
  decide
example : (document asciiCls (fun _ => none) ['"', 'a', '"', '"']).toOption =
    some [⟨⟨0, 1⟩, .quote (some 2)⟩, ⟨⟨1, 2⟩, .word⟩, ⟨⟨2, 3⟩, .quote (some 0)⟩, ⟨⟨3, 4⟩, .quote none⟩] := by decide
example : Fresh [⟨⟨0, 1⟩, .quote none⟩, ⟨⟨1, 2⟩, .word⟩] := by
  intro t ht x hx
  simp only [List.mem_cons, List.mem_nil_iff, or_false] at ht
  rcases ht with rfl | rfl <;> cases hx

/-! ## the lexical shape of `Word`, `Punctuation` and `Number` tokens

What the property's second sentence says about words, punctuation marks and numbers, as far as it is true of
the code and expressible in the model (`Tok` carries the radix and the suffix of a number, not its value: that
the value is what the text denotes is checked by the oracle `number-value` on the real tokens only).
* lexer level (`PlainEnglish::parse`): `parsePlain_punct_shape`, `parsePlain_word_shape`,
  `parsePlain_number_shape`;
* `Document` level: `punct_shape` for every mark but the ellipsis (a condensed ellipsis covers two or more
  periods: witness below). A `Word` of a `Document` can contain apostrophes, periods (`e.g.`) and — `et al.` —
  white space (witness above); its shape after condensing is not a theorem here. -/
/-- a `Punctuation(p)` result of any lexer is one character long and `p` is what the regenerated table
(`Punctuation::from_char`, currency signs included) says about that character -/
theorem runLexer_punct (cls : Cls) (ext : Ext) (pos : Nat) (src : List Char) (l : LexerName) (p : Punct) (n : Nat)
    (h : runLexer cls ext pos src l = some (.punct p, n)) :
    n = 1 ∧ ∃ c r, src = c :: r ∧ punctOfChar c = some p := by
  cases l <;> simp only [runLexer] at h
  case lex_punctuation =>
    unfold lexPunctuation at h
    split at h
    · cases h
    · rename_i c r
      split at h
      · cases h
      · split at h
        · rename_i q hq
          cases h
          exact ⟨rfl, c, r, rfl, hq⟩
        · cases h
  all_goals
    first
    | (simp only [lexTabs, lexSpaces, lexNewlines, lexWord, lexCatch] at h
       repeat' (first | (cases h; done) | split at h))
    | (unfold lexRegexish at h; repeat' (first | (cases h; done) | split at h))
    | (unfold lexPluralDigit at h; repeat' (first | (cases h; done) | split at h | unfold pluralTail at h))
    | (unfold lexHexNumber at h; repeat' (first | (cases h; done) | split at h))
    | (unfold lexLongDecade at h; repeat' (first | (cases h; done) | split at h))
    | (unfold lexNumber at h; repeat' (first | (cases h; done) | split at h))
    | (repeat' (first | (cases h; done) | split at h))

/-- a `Word` result of any lexer (`lex_word`, or `lex_plural_digit`: `1s`, `a's`) consists of English-lingual
characters, ASCII letters and digits, and the apostrophe -/
theorem runLexer_word (cls : Cls) (ext : Ext) (pos : Nat) (src : List Char) (l : LexerName) (n : Nat)
    (h : runLexer cls ext pos src l = some (.word, n)) :
    ∀ c ∈ src.take n, cls.lingual c = true ∨ isAsciiAlnum c = true ∨ c = '\'' := by
  cases l <;> simp only [runLexer] at h
  case lex_word =>
    simp only [lexWord] at h
    split at h
    · cases h
    · cases h
      intro c hc
      have := cw_take_all _ _ c hc
      simp only [Bool.or_eq_true] at this
      rcases this with h1 | h1
      · exact Or.inl h1
      · exact Or.inr (Or.inl (by simp [isAsciiAlnum, h1]))
  case lex_plural_digit =>
    unfold lexPluralDigit at h
    split at h
    · cases h
    · rename_i c r0
      split at h
      · cases h
      · rename_i hc
        simp only [Bool.not_eq_eq_eq_not, Bool.not_true] at hc
        have hs : isAsciiAlnum 's' = true := by decide
        split at h
        all_goals
          unfold pluralTail at h
          split at h
          · split at h
            · cases h
              intro x hx
              simp at hx
              rcases hx with rfl | rfl | rfl <;> simp_all
            · split at h
              · cases h
                intro x hx
                simp at hx
                rcases hx with rfl | rfl | rfl <;> simp_all
              · cases h
          · cases h
  all_goals
    first
    | (simp only [lexTabs, lexSpaces, lexNewlines, lexCatch] at h
       repeat' (first | (cases h; done) | split at h))
    | (unfold lexRegexish at h; repeat' (first | (cases h; done) | split at h))
    | (unfold lexPunctuation at h; repeat' (first | (cases h; done) | split at h))
    | (unfold lexHexNumber at h; repeat' (first | (cases h; done) | split at h))
    | (unfold lexLongDecade at h; repeat' (first | (cases h; done) | split at h))
    | (unfold lexNumber at h; repeat' (first | (cases h; done) | split at h))
    | (repeat' (first | (cases h; done) | split at h))

/-- a `Number` result of any lexer carries no suffix yet and is either a decimal literal — the text is accepted by
the `str::parse::<f64>` grammar and does not end in a period — or `0x` followed by hex digits whose value fits `u64` -/
theorem runLexer_number (cls : Cls) (ext : Ext) (pos : Nat) (src : List Char) (l : LexerName) (r : Nat)
    (s : Option Suffix) (n : Nat) (h : runLexer cls ext pos src l = some (.number r s, n)) :
    s = none ∧
    ((r = 10 ∧ parsesF64 (src.take n) = true ∧ (src.take n).getLast? ≠ some '.') ∨
     (r = 16 ∧ ∃ k, n = k + 2 ∧ 1 ≤ k ∧ src.take 2 = ['0', 'x'] ∧ (∀ c ∈ (src.drop 2).take k, isAsciiHex c = true) ∧
        hexValue ((src.drop 2).take k) < 2 ^ 64)) := by
  cases l <;> simp only [runLexer] at h
  case lex_number =>
    unfold lexNumber at h
    split at h
    · cases h
    · split at h
      · cases h
      · split at h
        · cases h
        · rename_i e he
          split at h
          · rename_i m hm
            cases h
            obtain ⟨_, hns⟩ := numberLoop_accepts _ _ _ hm
            simp only [Skipped, not_or, Bool.not_eq_false] at hns
            exact ⟨rfl, Or.inl ⟨rfl, hns.2, hns.1⟩⟩
          · cases h
  case lex_hex_number =>
    unfold lexHexNumber at h
    split at h
    · rename_i z x c rest
      split at h
      · rename_i hc
        split at h
        · cases h
        · rename_i k hk
          split at h
          · rename_i hv
            cases h
            simp only [Bool.and_eq_true, beq_iff_eq] at hc
            obtain ⟨⟨rfl, rfl⟩, hc3⟩ := hc
            refine ⟨rfl, Or.inr ⟨rfl, k, rfl, ?_, rfl, ?_, ?_⟩⟩
            · simp only [hexScan, hc3, if_true] at hk
              cases hh : hexScan cls rest with
              | none => simp [hh] at hk
              | some j => simp [hh] at hk; omega
            · exact hexScan_hex cls _ k hk
            · exact hv
          · cases h
      · cases h
    · cases h
  all_goals
    first
    | (simp only [lexTabs, lexSpaces, lexNewlines, lexWord, lexCatch] at h
       repeat' (first | (cases h; done) | split at h))
    | (unfold lexRegexish at h; repeat' (first | (cases h; done) | split at h))
    | (unfold lexPunctuation at h; repeat' (first | (cases h; done) | split at h))
    | (unfold lexPluralDigit at h; repeat' (first | (cases h; done) | split at h | unfold pluralTail at h))
    | (unfold lexLongDecade at h; repeat' (first | (cases h; done) | split at h))
    | (repeat' (first | (cases h; done) | split at h))

/-- what `lex_token` returns is what one of the lexers returned -/
theorem lexToken_from_lexer (cls : Cls) (ext : Ext) (pos : Nat) (src : List Char) (kd : Kind) (n : Nat)
    (h : lexToken cls ext pos src = some (kd, n)) : ∃ l, runLexer cls ext pos src l = some (kd, n) := by
  unfold lexToken at h
  generalize Tables.lexerOrder = ls at h
  induction ls with
  | nil => cases h
  | cons l ls ih =>
    simp only [firstFound] at h
    cases hr : runLexer cls ext pos src l with
    | none => rw [hr] at h; exact ih h
    | some f =>
      rw [hr] at h
      simp only [Option.some.injEq] at h
      subst h
      exact ⟨l, hr⟩

/-- every token of `PlainEnglish::parse` is `⟨[cursor, cursor + n), k⟩` for a result `(k, n)` of `lex_token` on
the text from `cursor` on -/
theorem parseLoop_tokens (cls : Cls) (ext : Ext) (P : List Char) : ∀ (fuel cursor : Nat) (rest : List Char) (toks : List Tok),
    P.drop cursor = rest → parseLoop cls ext fuel cursor rest = .ok toks →
    ∀ t ∈ toks, lexToken cls ext t.span.start (P.drop t.span.start) = some (t.kind, t.span.stop - t.span.start) ∧
      t.span.start ≤ t.span.stop := by
  intro fuel
  induction fuel with
  | zero => intro cursor rest toks _ h; cases h
  | succ fuel ih =>
    intro cursor rest toks hsrc h
    cases rest with
    | nil => simp only [parseLoop] at h; cases h; simp
    | cons c cs =>
      simp only [parseLoop] at h
      cases hl : lexToken cls ext cursor (c :: cs) with
      | none => rw [hl] at h; cases h
      | some kn =>
        obtain ⟨k, n⟩ := kn
        rw [hl] at h
        simp only at h
        cases hp : parseLoop cls ext fuel (cursor + n) ((c :: cs).drop n) with
        | error e => rw [hp] at h; cases h
        | ok ts =>
          rw [hp] at h
          cases h
          intro t ht
          rcases List.mem_cons.mp ht with rfl | ht
          · simp only [hsrc, show cursor + n - cursor = n by omega]
            exact ⟨hl, by omega⟩
          · exact ih (cursor + n) _ ts (by rw [← hsrc, List.drop_drop]) hp t ht

theorem parsePlain_tokens (cls : Cls) (ext : Ext) (src : List Char) (toks : List Tok)
    (h : parsePlain cls ext src = .ok toks) (t : Tok) (ht : t ∈ toks) :
    ∃ l, runLexer cls ext t.span.start (src.drop t.span.start) l = some (t.kind, t.span.stop - t.span.start) := by
  obtain ⟨h1, _⟩ := parseLoop_tokens cls ext src _ 0 src toks rfl h t ht
  exact lexToken_from_lexer _ _ _ _ _ _ h1

/-- a `Punctuation(p)` token of `PlainEnglish::parse` is one character, and `p` is that character's mark -/
theorem parsePlain_punct_shape (cls : Cls) (ext : Ext) (src : List Char) (toks : List Tok)
    (h : parsePlain cls ext src = .ok toks) (t : Tok) (ht : t ∈ toks) (q : Punct) (hk : t.kind = .punct q) :
    t.span.stop = t.span.start + 1 ∧ ∃ c, src[t.span.start]? = some c ∧ punctOfChar c = some q := by
  obtain ⟨h1, h2⟩ := parseLoop_tokens cls ext src _ 0 src toks rfl h t ht
  obtain ⟨l, hl⟩ := lexToken_from_lexer _ _ _ _ _ _ h1
  rw [hk] at hl
  obtain ⟨hn, c, r, hc, hp⟩ := runLexer_punct _ _ _ _ _ _ _ hl
  refine ⟨by omega, c, ?_, hp⟩
  have := congrArg List.head? hc
  rw [List.head?_drop] at this
  simpa using this

/-- a `Word` token of `PlainEnglish::parse` contains only English-lingual characters, ASCII letters and
digits, and apostrophes … -/
theorem parsePlain_word_shape (cls : Cls) (ext : Ext) (src : List Char) (toks : List Tok)
    (h : parsePlain cls ext src = .ok toks) (t : Tok) (ht : t ∈ toks) (hk : t.kind = .word) :
    ∀ c ∈ (src.drop t.span.start).take (t.span.stop - t.span.start),
      cls.lingual c = true ∨ isAsciiAlnum c = true ∨ c = '\'' := by
  obtain ⟨h1, _⟩ := parseLoop_tokens cls ext src _ 0 src toks rfl h t ht
  obtain ⟨l, hl⟩ := lexToken_from_lexer _ _ _ _ _ _ h1
  rw [hk] at hl
  exact runLexer_word _ _ _ _ _ _ hl

/-- … hence no white space, whatever "white space" is, as long as no such character is English-lingual -/
theorem parsePlain_word_no_whitespace (cls : Cls) (ext : Ext) (src : List Char) (toks : List Tok)
    (ws : Char → Bool) (hws : ∀ c, ws c = true → cls.lingual c = false ∧ isAsciiAlnum c = false ∧ c ≠ '\'')
    (h : parsePlain cls ext src = .ok toks) (t : Tok) (ht : t ∈ toks) (hk : t.kind = .word) :
    ∀ c ∈ (src.drop t.span.start).take (t.span.stop - t.span.start), ws c = false := by
  intro c hc
  cases hw : ws c with
  | false => rfl
  | true =>
    obtain ⟨a1, a2, a3⟩ := hws c hw
    rcases parsePlain_word_shape cls ext src toks h t ht hk c hc with b | b | b
    · rw [a1] at b; cases b
    · rw [a2] at b; cases b
    · exact absurd b a3

/-- a `Number` token of `PlainEnglish::parse`: no suffix, and its text is a decimal literal of the f64 grammar
that does not end in a period, or a `0x` literal that fits `u64` -/
theorem parsePlain_number_shape (cls : Cls) (ext : Ext) (src : List Char) (toks : List Tok)
    (h : parsePlain cls ext src = .ok toks) (t : Tok) (ht : t ∈ toks) (r : Nat) (s : Option Suffix)
    (hk : t.kind = .number r s) :
    s = none ∧
    ((r = 10 ∧ parsesF64 ((src.drop t.span.start).take (t.span.stop - t.span.start)) = true ∧
        ((src.drop t.span.start).take (t.span.stop - t.span.start)).getLast? ≠ some '.') ∨
     (r = 16 ∧ ∃ k, t.span.stop - t.span.start = k + 2 ∧ 1 ≤ k ∧
        (src.drop t.span.start).take 2 = ['0', 'x'] ∧
        (∀ c ∈ ((src.drop t.span.start).drop 2).take k, isAsciiHex c = true) ∧
        hexValue (((src.drop t.span.start).drop 2).take k) < 2 ^ 64)) := by
  obtain ⟨h1, _⟩ := parseLoop_tokens cls ext src _ 0 src toks rfl h t ht
  obtain ⟨l, hl⟩ := lexToken_from_lexer _ _ _ _ _ _ h1
  rw [hk] at hl
  exact runLexer_number _ _ _ _ _ _ _ _ hl

/-- the loop of `condense_pattern` when the rewritten first token always gets a kind `p` rejects -/
theorem condLoop_keptOr_const (p : Kind → Bool) (edit : Kind → Kind) (hedit : ∀ k, p (edit k) = false)
    (orig : List Tok) (ms : List Span) : ∀ (cur : List Tok) (rem : List Nat) (ts : List Tok) (r : List Nat),
    (∀ t ∈ cur, t ∈ orig ∨ p t.kind = false) →
    condLoop edit ms cur rem = .ok (ts, r) → ∀ t ∈ ts, t ∈ orig ∨ p t.kind = false := by
  induction ms with
  | nil =>
    intro cur rem ts r hJ hc
    simp only [condLoop, Except.ok.injEq, Prod.mk.injEq] at hc
    rw [← hc.1]; exact hJ
  | cons m ms ih =>
    intro cur rem ts r hJ hc
    simp only [condLoop] at hc
    cases hs : sliceE cur m.start m.stop with
    | error e => rw [hs] at hc; cases hc
    | ok slice =>
      rw [hs] at hc
      simp only at hc
      split at hc
      · exact ih cur rem ts r hJ hc
      · cases hsp : spanOf slice with
        | none => rw [hsp] at hc; cases hc
        | some sp =>
          rw [hsp] at hc
          simp only at hc
          cases hg : cur[m.start]? with
          | none => rw [hg] at hc; cases hc
          | some t0 =>
            rw [hg] at hc
            simp only at hc
            refine ih _ _ ts r ?_ hc
            intro t ht
            rcases List.mem_or_eq_of_mem_set ht with h' | rfl
            · exact hJ t h'
            · exact Or.inr (hedit _)

theorem condensePattern_keptOr_const (p : Kind → Bool) (m : Matcher) (edit : Kind → Kind)
    (hedit : ∀ k, p (edit k) = false) (src : List Char) (toks out : List Tok)
    (hc : condensePattern m edit src toks = .ok out) : KeptOr p out toks := by
  unfold condensePattern at hc
  rw [findAllMatches_eq] at hc
  cases hf : foundFrom m src 0 toks with
  | error e => rw [hf] at hc; cases hc
  | ok found =>
    rw [hf] at hc
    simp only [Except.map] at hc
    cases hl : condLoop edit (filt found) toks [] with
    | error e => rw [hl] at hc; cases hc
    | ok r =>
      obtain ⟨ts, rem⟩ := r
      rw [hl] at hc
      simp only [Except.ok.injEq] at hc
      have := condLoop_keptOr_const p edit hedit toks (filt found) toks [] ts rem (fun t ht => Or.inl ht) hl
      intro t ht
      rw [← hc] at ht
      exact this t (removeIndices_mem _ _ _ t ht)

/-- Tokens of a kind that no condensing pass produces reach the `Document` untouched from the lexer -/
theorem document_kept (p : Kind → Bool)
    (hw : ∀ k, k.isWord = true → p k = false) (hs : ∀ n, p (.space n) = false) (hn : ∀ n, p (.newline n) = false)
    (hb : p .paragraphBreak = false) (hnum : ∀ r s, p (.number r s) = false) (hq : ∀ tw, p (.quote tw) = false)
    (hell : p (.punct .Ellipsis) = false)
    (cls : Cls) (ext : Ext) (src : List Char) (hext : ExtOK ext src.length) (out : List Tok)
    (h : document cls ext src = .ok out) :
    ∃ t0, parsePlain cls ext src = .ok t0 ∧ ∀ t ∈ out, p t.kind = true → t ∈ t0 := by
  obtain ⟨t0, e0, hT0, _⟩ := parseLoop_tiles cls ext src.length hext (src.length + 1) 0 src (by omega) (by omega)
  have e0' : parsePlain cls ext src = .ok t0 := e0
  refine ⟨t0, e0', ?_⟩
  suffices hk : KeptOr p out t0 by
    intro t ht hp
    rcases hk t ht with h' | h'
    · exact h'
    · rw [hp] at h'; cases h'
  rw [document_eq cls ext src t0 e0', prePasses_eq] at h
  have hT1 := condenseSpaces_tiles' _ _ _ hT0
  have hk1 := condenseSpaces_keptOr p hs t0
  have hT2 := condenseNewlines_tiles' _ _ _ hT1
  have hk2 := (condenseNewlines_keptOr p hn _).trans hk1
  have hT3 := newlinesToBreaks_tiles' _ _ _ hT2
  have hk3 := (newlinesToBreaks_keptOr p hb _).trans hk2
  change Except.map matchQuotes (passes48 src (newlinesToBreaks (condenseNewlines (condenseSpaces t0)))) = _ at h
  generalize newlinesToBreaks (condenseNewlines (condenseSpaces t0)) = t3 at h hT3 hk3
  unfold passes48 at h
  obtain ⟨t4, e4, hT4⟩ := condenseContractions_tiles' src t3 0 src.length hT3
  rw [e4] at h
  simp only at h
  have hk4 := (condensePattern_keptOr p contractionPat id (fun _ hk => hk) src t3 t4
      (fun k n hm hn => by obtain ⟨t, r, e, hw'⟩ := contraction_head src _ n hm hn; exact ⟨t, r, e, hw _ hw'⟩) e4).trans hk3
  have hT5 := dottedInitialisms_tiles' _ _ _ hT4
  have hk5 := (dottedInitialisms_keptOr p hw t4).trans hk4
  obtain ⟨t6, e6, hT6⟩ := numberSuffixes_tiles' src _ 0 src.length hT5 (Nat.le_refl _)
  rw [e6] at h
  simp only at h
  have hk6 := (NS_keptOr p hnum src _ t6 e6).trans hk5
  obtain ⟨t7, e7, hT7⟩ := condenseEllipsis_tiles' src t6 0 src.length hT6
  rw [e7] at h
  simp only at h
  have hk7 := (condensePattern_keptOr_const p ellipsisPat _ (fun _ => hell) src t6 t7 e7).trans hk6
  obtain ⟨t8, e8, hT8⟩ := condenseLatin_tiles' src t7 0 src.length hT7 (Nat.le_refl _)
  have hin7 : InB src t7 := hT7.inB (Nat.le_refl _)
  have hdrop : ∀ k, InB src (t7.drop k) := fun k x hx => hin7 x (List.mem_of_mem_drop hx)
  have e8' : condenseLatin src t7 = .ok t8 := e8
  rw [e8'] at h
  simp only [Except.map, Except.ok.injEq] at h
  have hk8 := (condensePattern_keptOr p latinPat id (fun _ hk => hk) src t7 t8
      (fun k n hm hn => by obtain ⟨t, r, e, hw'⟩ := latin_head src _ (hdrop k) n hm hn; exact ⟨t, r, e, hw _ hw'⟩) e8).trans hk7
  rw [← h]
  exact (matchQuotes_keptOr p hq t8).trans hk8

/-- A `Punctuation(p)` token of a `Document`, `p` not the ellipsis, is ONE character and `p` is the mark the
regenerated table (`Punctuation::from_char`, currency signs included) gives for that character: such tokens
come from `lex_punctuation` and no condensing pass rewrites them (the pattern passes rewrite a `Word`, or a
`Period` into an `Ellipsis`; the initialism pass removes periods but never rewrites one). -/
theorem punct_shape (cls : Cls) (ext : Ext) (src : List Char) (hext : ExtOK ext src.length) (out : List Tok)
    (h : document cls ext src = .ok out) (t : Tok) (ht : t ∈ out) (q : Punct) (hk : t.kind = .punct q)
    (hq : q ≠ .Ellipsis) :
    t.span.stop = t.span.start + 1 ∧ ∃ c, src[t.span.start]? = some c ∧ punctOfChar c = some q := by
  obtain ⟨t0, e0, hkept⟩ := document_kept
    (fun k => match k with | .punct p => p != .Ellipsis | _ => false)
    (by intro k hw; cases k <;> simp_all [Kind.isWord]) (fun _ => rfl) (fun _ => rfl) rfl (fun _ _ => rfl)
    (fun _ => rfl) (by decide) cls ext src hext out h
  have hmem : t ∈ t0 := hkept t ht (by rw [hk]; simpa using hq)
  exact parsePlain_punct_shape cls ext src t0 e0 t hmem q hk

/-- non-vacuity of `punct_shape`: the final `!` of `ab,cd.!` (all hypotheses together, theorem applied) -/
example : (7 : Nat) = 6 + 1 ∧ ∃ c, ['a', 'b', ',', 'c', 'd', '.', '!'][6]? = some c ∧ punctOfChar c = some .Bang :=
  punct_shape asciiCls (fun _ => none) ['a', 'b', ',', 'c', 'd', '.', '!'] (by intro _ _ _ h; cases h)
    [⟨⟨0,2⟩,.word⟩, ⟨⟨2,3⟩,.punct .Comma⟩, ⟨⟨3,5⟩,.word⟩, ⟨⟨5,6⟩,.punct .Period⟩, ⟨⟨6,7⟩,.punct .Bang⟩]
    (ok_of_toOption_eq_some _ _ (by decide)) ⟨⟨6,7⟩,.punct .Bang⟩ (by decide) .Bang rfl (by decide)

/-- the ellipsis is excluded for a reason: a condensed `Ellipsis` token covers several characters -/
example : (document asciiCls (fun _ => none) ['a', 'b', '.', '.']).toOption =
    some [⟨⟨0,2⟩,.word⟩, ⟨⟨2,4⟩,.punct .Ellipsis⟩] := by decide

/-- (after a ONE-letter word the first period belongs to a dotted initialism instead: `a..` is `a.` `.`) -/
example : (document asciiCls (fun _ => none) ['a', '.', '.']).toOption =
    some [⟨⟨0,2⟩,.word⟩, ⟨⟨2,3⟩,.punct .Period⟩] := by decide

/-- non-vacuity of the three lexer-level theorems: `a's 0x1F, 1e3.` (`a's` is `lex_plural_digit`'s `Word`) -/
theorem lexWitness_parse : parsePlain asciiCls (fun _ => none)
      ['a', '\'', 's', ' ', '0', 'x', '1', 'F', ',', ' ', '1', 'e', '3', '.'] =
    .ok [⟨⟨0,3⟩,.word⟩, ⟨⟨3,4⟩,.space 1⟩, ⟨⟨4,8⟩,.number 16 none⟩, ⟨⟨8,9⟩,.punct .Comma⟩, ⟨⟨9,10⟩,.space 1⟩,
      ⟨⟨10,13⟩,.number 10 none⟩, ⟨⟨13,14⟩,.punct .Period⟩] :=
  ok_of_toOption_eq_some _ _ (by decide)

example : (9 : Nat) = 8 + 1 ∧ ∃ c, ['a', '\'', 's', ' ', '0', 'x', '1', 'F', ',', ' ', '1', 'e', '3', '.'][8]? = some c ∧
    punctOfChar c = some .Comma :=
  parsePlain_punct_shape _ _ _ _ lexWitness_parse ⟨⟨8,9⟩,.punct .Comma⟩ (by decide) .Comma rfl

example : ∀ c ∈ ['a', '\'', 's'], asciiCls.lingual c = true ∨ isAsciiAlnum c = true ∨ c = '\'' :=
  parsePlain_word_shape _ _ _ _ lexWitness_parse ⟨⟨0,3⟩,.word⟩ (by decide) rfl

/-- the hypothesis of `parsePlain_word_no_whitespace` holds for the ASCII class table and `Char.isWhitespace` -/
example : ∀ c ∈ ['a', '\'', 's'], Char.isWhitespace c = false :=
  parsePlain_word_no_whitespace asciiCls _ _ _ Char.isWhitespace
    (by intro c hc
        simp only [Char.isWhitespace, Bool.or_eq_true, decide_eq_true_eq] at hc
        rcases hc with ((rfl | rfl) | rfl) | rfl <;> decide)
    lexWitness_parse ⟨⟨0,3⟩,.word⟩ (by decide) rfl

example : parsesF64 ['1', 'e', '3'] = true :=
  ((parsePlain_number_shape _ _ _ _ lexWitness_parse ⟨⟨10,13⟩,.number 10 none⟩ (by decide) 10 none rfl).2.resolve_right
    (by rintro ⟨h, _⟩; cases h)).2.1

end Harper.C02

namespace Harper.C02
open Harper

/-! ## `Document::parse` on NON-tiling input

The Markdown, masked (comment) and Typst front-ends do not hand `Document::parse` a tiling: their tokens lie inside
the text (`InBounds`: `start ≤ stop ≤ src.length`) but leave gaps, may be zero-width (the structural
`ParagraphBreak`s / `Newline`s) and, for Markdown, are not even in order (C02d: only the tokens that cover characters
are). What each condensing pass does with such input, without the hypothesis `Tiles`:

1. never panics? — `*_total`; `Document::parse` as a whole CAN panic on in-bounds input that is out of order
   (`condenseAll_panics_unordered`);
2. every endpoint of every output token stays inside the text, whatever the order — `*_endsInBounds`;
3. `start ≤ stop` survives — for `condense_spaces` (adjacency check), `condense_pattern` (`TokenStringExt::span` takes
   minimum and maximum), `newlines_to_breaks`, `match_quotes` on ANY in-bounds input (`*_inBounds`); NOT for
   `condense_newlines`, `condense_dotted_initialisms`, `condense_number_suffixes` (witnesses below); for every pass and
   for `Document::parse` when the input is in text order, gaps and zero-width tokens allowed (`Gap`, `*_gap`,
   `condenseAll_inbounds_sorted`).

`InBounds`, `EndsInBounds`, `Gap`, `SortedIn` are defined in `Lemmas/Condense.lean`; `InBounds src.length` is `InText src`
of `Lemmas/Leaves.lean` and the in-bounds conclusion of `mdParse_inbounds`; `Gap toks 0 n ↔ SortedIn n toks`
(`gap_iff_sortedIn`), the `Pairwise` of `SortedIn` being `Sorted` of `Lemmas/Typst.lean`. -/

/-- a ten-character text … -/
def gappySrc : List Char := ['I', '\'', 'm', ' ', ' ', '2', 'n', 'd', '.', '.']

/-- … and tokens over it that are in order and in bounds but do not tile it: nothing covers `[3, 4)`, and there is a
zero-width `ParagraphBreak` at 4 -/
def gappy : List Tok :=
  [⟨⟨0,1⟩,.word⟩, ⟨⟨1,2⟩,.punct .Apostrophe⟩, ⟨⟨2,3⟩,.word⟩, ⟨⟨4,4⟩,.paragraphBreak⟩, ⟨⟨4,5⟩,.space 1⟩,
   ⟨⟨5,6⟩,.number 10 none⟩, ⟨⟨6,8⟩,.word⟩, ⟨⟨8,9⟩,.punct .Period⟩, ⟨⟨9,10⟩,.punct .Period⟩]

example : Gap gappy 0 10 ∧ SortedIn 10 gappy ∧ InBounds gappySrc.length gappy ∧ ¬ Tiles gappy 0 10 :=
  ⟨by decide, gap_iff_sortedIn _ _ |>.mp (by decide), by decide, by decide⟩

/-- what `Document::parse` makes of it: the contraction, the number suffix and the ellipsis are condensed, the gap and
the zero-width token stay -/
example : (condenseAll gappySrc gappy).toOption =
    some [⟨⟨0,3⟩,.word⟩, ⟨⟨4,4⟩,.paragraphBreak⟩, ⟨⟨4,5⟩,.space 1⟩, ⟨⟨5,8⟩,.number 10 (some .nd)⟩,
      ⟨⟨8,10⟩,.punct .Ellipsis⟩] := by decide

/-! ### 1. never panics -/

/-- `condense_spaces`, `condense_newlines`, `newlines_to_breaks`, `condense_dotted_initialisms` and `match_quotes` are
plain functions in the model: every index they use is guarded by a length test in the Rust loops, so there is no panic
path to model, whatever the token vector. (One Rust expression is outside this statement: `a.span.len()` in
`condense_dotted_initialisms` is `end - start`, which underflows on a word token whose span is reversed; the model
uses truncated subtraction there. On `InBounds` input it cannot underflow.) -/
example : (List Tok → List Tok) × (List Tok → List Tok) × (List Tok → List Tok) × (List Tok → List Tok) ×
    (List Tok → List Tok) := (condenseSpaces, condenseNewlines, newlinesToBreaks, dottedInitialisms, matchQuotes)

/-- `condense_contractions` (`find_all_matches`, `condense_pattern`, `remove_indices`) never panics, on ANY token
vector and text: the pattern looks at token kinds only, its matches are in range, increasing and disjoint -/
theorem condenseContractions_total (src : List Char) (toks : List Tok) :
    ∃ out, condenseContractions src toks = .ok out := condenseContractions_total' src toks

/-- `condense_ellipsis` never panics, on ANY token vector and text -/
theorem condenseEllipsis_total (src : List Char) (toks : List Tok) :
    ∃ out, condenseEllipsis src toks = .ok out := condenseEllipsis_total' src toks

/-- neither hypothesis-free theorem is about well-formed input only: reversed, out-of-text, unordered tokens -/
example : (condenseContractions ['a'] [⟨⟨9,2⟩,.word⟩, ⟨⟨2,7⟩,.punct .Apostrophe⟩, ⟨⟨7,50⟩,.word⟩]).toOption =
    some [⟨⟨2,50⟩,.word⟩] := by decide
example : (condenseEllipsis ['a'] [⟨⟨9,2⟩,.punct .Period⟩, ⟨⟨2,7⟩,.punct .Period⟩, ⟨⟨0,50⟩,.word⟩]).toOption =
    some [⟨⟨2,9⟩,.punct .Ellipsis⟩, ⟨⟨0,50⟩,.word⟩] := by decide

/-- `condense_latin` never panics on in-bounds tokens, in any order, zero-width tokens included (`WordSet` and
`AnyCapitalization` read the text at the token's span) -/
theorem condenseLatin_total (src : List Char) (toks : List Tok) (hin : InBounds src.length toks) :
    ∃ out, condenseLatin src toks = .ok out := condenseLatin_total' src toks hin

/-- non-vacuity of `condenseLatin_total`: `vs.` out of order, with a zero-width word token -/
example : ∃ out, condenseLatin ['.', 'v', 's'] [⟨⟨3,3⟩,.word⟩, ⟨⟨1,3⟩,.word⟩, ⟨⟨0,1⟩,.punct .Period⟩] = .ok out :=
  condenseLatin_total _ _ (by decide)

/-- in-bounds is needed: a word token whose span is reversed makes `Span::get_content` (called by `WordSet::matches`)
panic, and so does one that ends beyond the text -/
example : (condenseLatin ['a', 'b', 'c'] [⟨⟨2,1⟩,.word⟩]).toOption = none := by decide
example : (condenseLatin ['a', 'b', 'c'] [⟨⟨2,4⟩,.word⟩]).toOption = none := by decide

/-- `condense_number_suffixes` (with `condense_indices`) never panics on in-bounds tokens, in any order -/
theorem numberSuffixes_total (src : List Char) (toks : List Tok) (hin : InBounds src.length toks) :
    ∃ out, numberSuffixes src toks = .ok out := by
  obtain ⟨out, e, _⟩ := numberSuffixes_gap' src toks hin
  exact ⟨out, e⟩

/-- non-vacuity of `numberSuffixes_total`: the suffix precedes the number in the text -/
example : ∃ out, numberSuffixes ['n', 'd', '2'] [⟨⟨2,3⟩,.number 10 none⟩, ⟨⟨0,2⟩,.word⟩, ⟨⟨3,3⟩,.word⟩] = .ok out :=
  numberSuffixes_total _ _ (by decide)

/-- FALSE for `Document::parse` as a whole: in-bounds but OUT-OF-ORDER tokens can make it panic. A one-letter word
followed in the vector by a period that precedes it in the text: `condense_dotted_initialisms` writes the period's end
into the word (`start_tok.span.end = end`), the word's span is reversed (`5..4`), and `condense_latin` →
`WordSet::matches` → `tok.span.get_content(source)` panics on it. -/
theorem condenseAll_panics_unordered :
    InBounds 10 [⟨⟨5,6⟩,.word⟩, ⟨⟨3,4⟩,.punct .Period⟩] ∧
    dottedInitialisms [⟨⟨5,6⟩,.word⟩, ⟨⟨3,4⟩,.punct .Period⟩] = [⟨⟨5,4⟩,.word⟩] ∧
    (condenseAll ['1', 'x', 'x', '.', 'x', 'a', 'x', 'x', 'x', 'x'] [⟨⟨5,6⟩,.word⟩, ⟨⟨3,4⟩,.punct .Period⟩]).toOption =
      none := by decide

/-- … and with a number in front it is `b.span.len()` in `condense_number_suffixes` that underflows -/
example : (numberSuffixes ['1', 'x', 'x', '.', 'x', 'a', 'x', 'x', 'x', 'x']
    (dottedInitialisms [⟨⟨0,1⟩,.number 10 none⟩, ⟨⟨5,6⟩,.word⟩, ⟨⟨3,4⟩,.punct .Period⟩])).toOption = none := by decide

/-! ### 2. every endpoint stays inside the text (any input: unordered, overlapping, reversed) -/

/-- `condense_spaces` -/
theorem condenseSpaces_endsInBounds (n : Nat) (toks : List Tok) (h : EndsInBounds n toks) :
    EndsInBounds n (condenseSpaces toks) :=
  condenseRun_all spacesCfg (fun sp => sp.start ≤ n ∧ sp.stop ≤ n) (fun _ _ hs hc _ => ⟨hs.1, hc.2⟩) toks h

/-- `condense_newlines` -/
theorem condenseNewlines_endsInBounds (n : Nat) (toks : List Tok) (h : EndsInBounds n toks) :
    EndsInBounds n (condenseNewlines toks) :=
  condenseRun_all newlinesCfg (fun sp => sp.start ≤ n ∧ sp.stop ≤ n) (fun _ _ hs hc _ => ⟨hs.1, hc.2⟩) toks h

/-- `newlines_to_breaks` -/
theorem newlinesToBreaks_endsInBounds (n : Nat) (toks : List Tok) (h : EndsInBounds n toks) :
    EndsInBounds n (newlinesToBreaks toks) :=
  all_of_spans (newlinesToBreaks_span toks) (fun sp => sp.start ≤ n ∧ sp.stop ≤ n) h

/-- `condense_pattern` (hence `condense_contractions`, `condense_ellipsis`, `condense_latin`), for every pattern: if it
returns, the endpoints of what it returns are inside the text -/
theorem condensePattern_endsInBounds (m : Matcher) (edit : Kind → Kind) (src : List Char) (n : Nat)
    (toks out : List Tok) (h : condensePattern m edit src toks = .ok out) (hin : EndsInBounds n toks) :
    EndsInBounds n out :=
  condensePattern_all m edit (fun sp => sp.start ≤ n ∧ sp.stop ≤ n) (hspan_ends n) src toks out h hin

/-- `condense_dotted_initialisms` -/
theorem dottedInitialisms_endsInBounds (n : Nat) (toks : List Tok) (h : EndsInBounds n toks) :
    EndsInBounds n (dottedInitialisms toks) :=
  dottedInitialisms_all (fun sp => sp.start ≤ n ∧ sp.stop ≤ n) (fun _ _ hs hc => ⟨hs.1, hc.2⟩) toks h

/-- `condense_number_suffixes` / `condense_indices` -/
theorem numberSuffixes_endsInBounds (src : List Char) (n : Nat) (toks out : List Tok)
    (h : numberSuffixes src toks = .ok out) (hin : EndsInBounds n toks) : EndsInBounds n out :=
  numberSuffixes_all (fun sp => sp.start ≤ n ∧ sp.stop ≤ n) (fun _ _ hs hc => ⟨hs.1, hc.2⟩) src toks out h hin

/-- `match_quotes` -/
theorem matchQuotes_endsInBounds (n : Nat) (toks : List Tok) (h : EndsInBounds n toks) :
    EndsInBounds n (matchQuotes toks) :=
  all_of_spans (matchQuotes_span toks) (fun sp => sp.start ≤ n ∧ sp.stop ≤ n) h

/-- all passes of `Document::parse`: whatever the token vector handed over — unordered, overlapping, even with
reversed spans — if both endpoints of every token are inside the text and `Document::parse` returns, both endpoints of
every token of the `Document` are inside the text -/
theorem condenseAll_endsInBounds (src : List Char) (n : Nat) (t0 out : List Tok)
    (h : condenseAll src t0 = .ok out) (hin : EndsInBounds n t0) : EndsInBounds n out :=
  condenseAll_all (fun sp => sp.start ≤ n ∧ sp.stop ≤ n) (fun _ _ hs hc => ⟨hs.1, hc.2⟩) (hspan_ends n) src t0 out h hin

/-- non-vacuity of the `_endsInBounds` theorems: unordered newlines (the audit's witness) with a reversed token; the
hypotheses hold, `Document::parse` returns, the conclusion is not trivial (there is a merged token, and it is reversed) -/
example : EndsInBounds 10 [⟨⟨5,6⟩,.newline 1⟩, ⟨⟨3,3⟩,.newline 2⟩, ⟨⟨9,8⟩,.space 1⟩] ∧
    (condenseAll gappySrc [⟨⟨5,6⟩,.newline 1⟩, ⟨⟨3,3⟩,.newline 2⟩, ⟨⟨9,8⟩,.space 1⟩]).toOption =
      some [⟨⟨5,3⟩,.paragraphBreak⟩, ⟨⟨9,8⟩,.space 1⟩] := by decide
example : ∀ out, condenseAll gappySrc [⟨⟨5,6⟩,.newline 1⟩, ⟨⟨3,3⟩,.newline 2⟩, ⟨⟨9,8⟩,.space 1⟩] = .ok out →
    EndsInBounds 10 out := fun out h => condenseAll_endsInBounds gappySrc 10 _ out h (by decide)

/-! ### 3. `start ≤ stop` -/

/-- `condense_spaces` keeps in-bounds tokens in bounds IN ANY ORDER: it merges only a child that starts where the run
ends ("Only condense adjacent spans"), so the merged span cannot be reversed -/
theorem condenseSpaces_inBounds (n : Nat) (toks : List Tok) (h : InBounds n toks) : InBounds n (condenseSpaces toks) :=
  condenseRun_all spacesCfg (fun sp => sp.start ≤ sp.stop ∧ sp.stop ≤ n)
    (fun s c hs hc hadj => by have := hadj rfl; exact ⟨by simp only; omega, hc.2⟩) toks h

/-- non-vacuity of `condenseSpaces_inBounds`: out-of-order spaces, two of them adjacent in the text, one zero-width -/
example : InBounds 10 [⟨⟨5,6⟩,.space 1⟩, ⟨⟨6,6⟩,.space 0⟩, ⟨⟨6,8⟩,.space 2⟩, ⟨⟨2,3⟩,.space 1⟩] ∧
    condenseSpaces [⟨⟨5,6⟩,.space 1⟩, ⟨⟨6,6⟩,.space 0⟩, ⟨⟨6,8⟩,.space 2⟩, ⟨⟨2,3⟩,.space 1⟩] =
      [⟨⟨5,8⟩,.space 3⟩, ⟨⟨2,3⟩,.space 1⟩] := by decide

/-- (a reversed span out of `condense_spaces` needs a reversed span going in) -/
example : condenseSpaces [⟨⟨5,6⟩,.space 1⟩, ⟨⟨6,2⟩,.space 1⟩] = [⟨⟨5,2⟩,.space 2⟩] := by decide

/-- FALSE for `Document::condense_newlines`, which has no adjacency check: two in-bounds newline tokens that are out of
order are merged into a REVERSED span (`5..3`). The input has the shape `mdParse_sorted_covering` (C02d) guarantees for
the Markdown front-end — in bounds, the tokens that cover characters in order, the zero-width token a `Newline` — so
that shape is not enough. -/
theorem condenseNewlines_reverses :
    InBounds 10 [⟨⟨5,6⟩,.newline 1⟩, ⟨⟨3,3⟩,.newline 2⟩] ∧
    ([⟨⟨5,6⟩,.newline 1⟩, ⟨⟨3,3⟩,.newline 2⟩].filter (fun t : Tok => decide (t.span.start < t.span.stop))).Pairwise
      (fun a b => a.span.stop ≤ b.span.start) ∧
    condenseNewlines [⟨⟨5,6⟩,.newline 1⟩, ⟨⟨3,3⟩,.newline 2⟩] = [⟨⟨5,3⟩, .newline 3⟩] ∧
    ¬ InBounds 10 (condenseNewlines [⟨⟨5,6⟩,.newline 1⟩, ⟨⟨3,3⟩,.newline 2⟩]) := by
  refine ⟨by decide, by decide, by decide, by decide⟩

/-- `newlines_to_breaks` and `match_quotes` do not touch spans -/
theorem newlinesToBreaks_inBounds (n : Nat) (toks : List Tok) (h : InBounds n toks) :
    InBounds n (newlinesToBreaks toks) :=
  all_of_spans (newlinesToBreaks_span toks) (fun sp => sp.start ≤ sp.stop ∧ sp.stop ≤ n) h

theorem matchQuotes_inBounds (n : Nat) (toks : List Tok) (h : InBounds n toks) : InBounds n (matchQuotes toks) :=
  all_of_spans (matchQuotes_span toks) (fun sp => sp.start ≤ sp.stop ∧ sp.stop ≤ n) h

/-- `condense_pattern` keeps in-bounds tokens in bounds IN ANY ORDER, for every pattern: the merged span is
`TokenStringExt::span` of the matched slice — minimum and maximum of all endpoints — so it is never reversed (and since
c3ef348 only source-contiguous slices are merged at all) -/
theorem condensePattern_inBounds (m : Matcher) (edit : Kind → Kind) (src : List Char) (n : Nat)
    (toks out : List Tok) (h : condensePattern m edit src toks = .ok out) (hin : InBounds n toks) : InBounds n out :=
  condensePattern_all m edit (fun sp => sp.start ≤ sp.stop ∧ sp.stop ≤ n) (hspan_inb n) src toks out h hin

/-- non-vacuity of `condensePattern_inBounds`: `'mI` — the contraction's tokens contiguous in the vector order but
running backwards in the text are NOT merged (`5..6 4..5` is not contiguous); `I'm` with a zero-width word is -/
example : InBounds 10 [⟨⟨5,6⟩,.word⟩, ⟨⟨4,5⟩,.punct .Apostrophe⟩, ⟨⟨3,4⟩,.word⟩] ∧
    (condenseContractions gappySrc [⟨⟨5,6⟩,.word⟩, ⟨⟨4,5⟩,.punct .Apostrophe⟩, ⟨⟨3,4⟩,.word⟩]).toOption =
      some [⟨⟨5,6⟩,.word⟩, ⟨⟨4,5⟩,.punct .Apostrophe⟩, ⟨⟨3,4⟩,.word⟩] := by decide
example : InBounds 10 [⟨⟨0,1⟩,.word⟩, ⟨⟨1,2⟩,.punct .Apostrophe⟩, ⟨⟨2,2⟩,.word⟩] ∧
    (condenseContractions gappySrc [⟨⟨0,1⟩,.word⟩, ⟨⟨1,2⟩,.punct .Apostrophe⟩, ⟨⟨2,2⟩,.word⟩]).toOption =
      some [⟨⟨0,2⟩,.word⟩] := by decide

/-- FALSE for `Document::condense_dotted_initialisms` (`start_tok.span.end = end`, no adjacency or order check) … -/
theorem dottedInitialisms_reverses :
    InBounds 10 [⟨⟨5,6⟩,.word⟩, ⟨⟨3,4⟩,.punct .Period⟩] ∧
    ¬ InBounds 10 (dottedInitialisms [⟨⟨5,6⟩,.word⟩, ⟨⟨3,4⟩,.punct .Period⟩]) := by decide

/-- … and for `Document::condense_number_suffixes` / `condense_indices`
(`tokens[idx].span.end = tokens[idx + stretch_len - 1].span.end`): the suffix `nd` lies before the number in the text, the merged span is `5..4` -/
theorem numberSuffixes_reverses :
    InBounds 10 [⟨⟨5,6⟩,.number 10 none⟩, ⟨⟨2,4⟩,.word⟩] ∧
    (numberSuffixes ['x', 'x', 'n', 'd', 'x', '1', 'x', 'x', 'x', 'x'] [⟨⟨5,6⟩,.number 10 none⟩, ⟨⟨2,4⟩,.word⟩]).toOption =
      some [⟨⟨5,4⟩,.number 10 (some .nd)⟩] := by decide

/-! ### 3'. input in text order, gaps and zero-width tokens allowed: order, `start ≤ stop` and bounds survive -/

/-- `condense_spaces` -/
theorem condenseSpaces_gap (toks : List Tok) (a b : Nat) (h : Gap toks a b) : Gap (condenseSpaces toks) a b :=
  condenseSpaces_gap' toks a b h

/-- `condense_newlines` (merges newline tokens that are neighbours in the VECTOR, across a gap in the text) -/
theorem condenseNewlines_gap (toks : List Tok) (a b : Nat) (h : Gap toks a b) : Gap (condenseNewlines toks) a b :=
  condenseNewlines_gap' toks a b h

/-- non-vacuity of `condenseSpaces_gap` / `condenseNewlines_gap`: a gap at `[3, 4)` and a zero-width newline -/
example : Gap [⟨⟨1,2⟩,.space 1⟩, ⟨⟨2,3⟩,.space 1⟩, ⟨⟨4,5⟩,.space 1⟩, ⟨⟨5,5⟩,.newline 1⟩, ⟨⟨7,8⟩,.newline 1⟩] 0 10 ∧
    condenseNewlines (condenseSpaces
      [⟨⟨1,2⟩,.space 1⟩, ⟨⟨2,3⟩,.space 1⟩, ⟨⟨4,5⟩,.space 1⟩, ⟨⟨5,5⟩,.newline 1⟩, ⟨⟨7,8⟩,.newline 1⟩]) =
      [⟨⟨1,3⟩,.space 2⟩, ⟨⟨4,5⟩,.space 1⟩, ⟨⟨5,8⟩,.newline 2⟩] := by decide

/-- `newlines_to_breaks` -/
theorem newlinesToBreaks_gap (toks : List Tok) (a b : Nat) (h : Gap toks a b) : Gap (newlinesToBreaks toks) a b :=
  gap_of_spans (newlinesToBreaks_span toks) h

/-- `condense_pattern`, generically (as `condensePattern_tiles`): never panics and keeps the order, when the tokens are
in order — a matched slice that is not contiguous in the text is left alone -/
theorem condensePattern_gap (m : Matcher) (edit : Kind → Kind) (src : List Char) (P : List Tok → Prop)
    (hp : PatOK m src P) (toks : List Tok) (a b : Nat) (hP : P toks) (h : Gap toks a b) :
    ∃ out, condensePattern m edit src toks = .ok out ∧ Gap out a b :=
  condensePattern_gap_of m edit src P hp toks a b hP h

/-- `condense_contractions` -/
theorem condenseContractions_gap (src : List Char) (toks : List Tok) (a b : Nat) (h : Gap toks a b) :
    ∃ out, condenseContractions src toks = .ok out ∧ Gap out a b := condenseContractions_gap' src toks a b h

/-- `condense_ellipsis` -/
theorem condenseEllipsis_gap (src : List Char) (toks : List Tok) (a b : Nat) (h : Gap toks a b) :
    ∃ out, condenseEllipsis src toks = .ok out ∧ Gap out a b := condenseEllipsis_gap' src toks a b h

/-- `condense_latin` -/
theorem condenseLatin_gap (src : List Char) (toks : List Tok) (a b : Nat) (h : Gap toks a b) (hb : b ≤ src.length) :
    ∃ out, condenseLatin src toks = .ok out ∧ Gap out a b := condenseLatin_gap' src toks a b h hb

/-- non-vacuity of the three (and of `condensePattern_gap` through them): `I'm` then a gap, a zero-width token and `..` -/
example : ∃ out, condenseContractions gappySrc gappy = .ok out ∧ Gap out 0 10 :=
  condenseContractions_gap _ _ 0 10 (by decide)
example : ∃ out, condenseEllipsis gappySrc gappy = .ok out ∧ Gap out 0 10 := condenseEllipsis_gap _ _ 0 10 (by decide)
example : ∃ out, condenseLatin gappySrc gappy = .ok out ∧ Gap out 0 10 :=
  condenseLatin_gap _ _ 0 10 (by decide) (by decide)
/-- a period right after `I'm` in the vector but two characters further in the text is not an ellipsis partner -/
example : (condenseEllipsis gappySrc [⟨⟨2,3⟩,.word⟩, ⟨⟨6,7⟩,.punct .Period⟩, ⟨⟨8,9⟩,.punct .Period⟩]).toOption =
    some [⟨⟨2,3⟩,.word⟩, ⟨⟨6,7⟩,.punct .Period⟩, ⟨⟨8,9⟩,.punct .Period⟩] := by decide

/-- `condense_dotted_initialisms` -/
theorem dottedInitialisms_gap (toks : List Tok) (a b : Nat) (h : Gap toks a b) : Gap (dottedInitialisms toks) a b :=
  dottedInitialisms_gap' toks a b h

/-- non-vacuity of `dottedInitialisms_gap`: `a. b.` — the space is missing from the vector, and is swallowed -/
example : Gap [⟨⟨1,2⟩,.word⟩, ⟨⟨2,3⟩,.punct .Period⟩, ⟨⟨4,5⟩,.word⟩, ⟨⟨5,6⟩,.punct .Period⟩, ⟨⟨6,6⟩,.paragraphBreak⟩] 0 10 ∧
    dottedInitialisms [⟨⟨1,2⟩,.word⟩, ⟨⟨2,3⟩,.punct .Period⟩, ⟨⟨4,5⟩,.word⟩, ⟨⟨5,6⟩,.punct .Period⟩, ⟨⟨6,6⟩,.paragraphBreak⟩] =
      [⟨⟨1,6⟩,.word⟩, ⟨⟨6,6⟩,.paragraphBreak⟩] := by decide

/-- `condense_number_suffixes` / `condense_indices`: never panics on in-bounds tokens and keeps ordered tokens ordered -/
theorem numberSuffixes_gap (src : List Char) (toks : List Tok) (a b : Nat) (h : Gap toks a b) (hb : b ≤ src.length) :
    ∃ out, numberSuffixes src toks = .ok out ∧ Gap out a b := by
  obtain ⟨out, e, hg⟩ := numberSuffixes_gap' src toks (h.inBounds hb)
  exact ⟨out, e, hg a b h⟩

/-- non-vacuity of `numberSuffixes_gap` -/
example : ∃ out, numberSuffixes gappySrc gappy = .ok out ∧ Gap out 0 10 :=
  numberSuffixes_gap _ _ 0 10 (by decide) (by decide)

/-- `match_quotes` -/
theorem matchQuotes_gap (toks : List Tok) (a b : Nat) (h : Gap toks a b) : Gap (matchQuotes toks) a b :=
  gap_of_spans (matchQuotes_span toks) h

/-- all passes of `Document::parse` on tokens in text order inside `[a, b]` of the text, gaps and zero-width tokens
allowed: it never panics and the tokens of the `Document` are again in order inside `[a, b]` -/
theorem condenseAll_gap (src : List Char) (t0 : List Tok) (a b : Nat) (h : Gap t0 a b) (hb : b ≤ src.length) :
    ∃ out, condenseAll src t0 = .ok out ∧ Gap out a b := condenseAll_gap' src t0 a b h hb

/-- the same in the words of the property: if the tokens handed to `Document::parse` are pairwise ordered
(`stop ≤ start` of every later token — the `Sorted` of `Lemmas/Typst.lean`), each with `start ≤ stop ≤ src.length`,
then `Document::parse` returns, and so are the tokens of the `Document`: in bounds, ordered, disjoint -/
theorem condenseAll_inbounds_sorted (src : List Char) (t0 : List Tok)
    (hs : t0.Pairwise (fun x y => x.span.stop ≤ y.span.start))
    (hin : ∀ t ∈ t0, t.span.start ≤ t.span.stop ∧ t.span.stop ≤ src.length) :
    ∃ out, condenseAll src t0 = .ok out ∧
      (∀ t ∈ out, t.span.start ≤ t.span.stop ∧ t.span.stop ≤ src.length) ∧
      out.Pairwise (fun x y => x.span.stop ≤ y.span.start) := by
  obtain ⟨out, e, h⟩ := condenseAll_gap src t0 0 src.length (SortedIn.gap ⟨hs, hin⟩) (Nat.le_refl _)
  exact ⟨out, e, h.sortedIn.2, h.sortedIn.1⟩

/-- non-vacuity of `condenseAll_gap` / `condenseAll_inbounds_sorted`: `gappy` (a gap, a zero-width token) -/
example : ∃ out, condenseAll gappySrc gappy = .ok out ∧
    (∀ t ∈ out, t.span.start ≤ t.span.stop ∧ t.span.stop ≤ gappySrc.length) ∧
    out.Pairwise (fun x y => x.span.stop ≤ y.span.start) :=
  condenseAll_inbounds_sorted gappySrc gappy (gap_iff_sortedIn 10 gappy |>.mp (by decide)).1 (by decide)

end Harper.C02
