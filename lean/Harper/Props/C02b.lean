import Harper.Props.C02
import Harper.Lemmas.CondensePats
import Harper.Lemmas.Shape
/-!
# C02 (continued) — `Document::parse`: every condensing pass preserves tiling

`Document::new(text, &PlainEnglish, _)` = `PlainEnglish::parse` followed by `condense_spaces`,
`condense_newlines`, `newlines_to_breaks`, `condense_contractions`, `condense_dotted_initialisms`,
`condense_number_suffixes`, `condense_ellipsis`, `condense_latin`, `match_quotes`
(`Model/Condense.lean`, compared token for token with the real `Document::new` on every run).
One theorem per pass: tokens that tile `[a, b)` still tile `[a, b)` afterwards — contiguous,
non-empty, in order, nothing lost or duplicated — and the passes that index into vectors never
panic. `document_tiles` composes them with `parsePlain_tiles`.
-/
namespace Harper.C02
open Harper

/-- `condense_spaces` (adjacency checked) -/
theorem condenseSpaces_tiles (toks : List Tok) (a b : Nat) (h : Tiles toks a b) :
    Tiles (condenseSpaces toks) a b := condenseSpaces_tiles' toks a b h

/-- `condense_newlines` -/
theorem condenseNewlines_tiles (toks : List Tok) (a b : Nat) (h : Tiles toks a b) :
    Tiles (condenseNewlines toks) a b := condenseNewlines_tiles' toks a b h

/-- `newlines_to_breaks` -/
theorem newlinesToBreaks_tiles (toks : List Tok) (a b : Nat) (h : Tiles toks a b) :
    Tiles (newlinesToBreaks toks) a b := newlinesToBreaks_tiles' toks a b h

/-- `condense_dotted_initialisms` (with the fix that closes an initialism at the end of the text) -/
theorem dottedInitialisms_tiles (toks : List Tok) (a b : Nat) (h : Tiles toks a b) :
    Tiles (dottedInitialisms toks) a b := dottedInitialisms_tiles' toks a b h

/-- `condense_number_suffixes` incl. `condense_indices`: never panics on tokens that tile a part
of the text, and preserves tiling -/
theorem numberSuffixes_tiles (src : List Char) (toks : List Tok) (a b : Nat) (h : Tiles toks a b)
    (hb : b ≤ src.length) : ∃ out, numberSuffixes src toks = .ok out ∧ Tiles out a b :=
  numberSuffixes_tiles' src toks a b h hb

/-- `condense_pattern`, generically: for a pattern that is total and bounded on the token vectors
in `P` and whose match ends are monotone (`PatOK`), `find_all_matches`' adjacent-pair filter leaves
disjoint increasing matches, the contiguity guard holds, and the loop + `remove_indices`
preserve tiling without panicking. -/
theorem condensePattern_tiles (m : Matcher) (edit : Kind → Kind) (src : List Char) (P : List Tok → Prop)
    (hp : PatOK m src P) (toks : List Tok) (a b : Nat) (hP : P toks) (h : Tiles toks a b) :
    ∃ out, condensePattern m edit src toks = .ok out ∧ Tiles out a b :=
  condensePattern_tiles_of m edit src P hp toks a b hP h

/-- `condense_contractions` (`word ' word`), unconditionally on tiling input -/
theorem condenseContractions_tiles (src : List Char) (toks : List Tok) (a b : Nat) (h : Tiles toks a b) :
    ∃ out, condenseContractions src toks = .ok out ∧ Tiles out a b :=
  condenseContractions_tiles' src toks a b h

/-- `condense_ellipsis` (two or more periods, maximal munch) -/
theorem condenseEllipsis_tiles (src : List Char) (toks : List Tok) (a b : Nat) (h : Tiles toks a b) :
    ∃ out, condenseEllipsis src toks = .ok out ∧ Tiles out a b :=
  condenseEllipsis_tiles' src toks a b h

/-- `condense_latin` (`etc.`, `vs.`, `et al.`): `get_content` never panics since the tokens lie
inside the text -/
theorem condenseLatin_tiles (src : List Char) (toks : List Tok) (a b : Nat) (h : Tiles toks a b)
    (hb : b ≤ src.length) : ∃ out, condenseLatin src toks = .ok out ∧ Tiles out a b :=
  condenseLatin_tiles' src toks a b h hb

/-- `match_quotes` only writes `twin_loc` -/
theorem matchQuotes_tiles (toks : List Tok) (a b : Nat) (h : Tiles toks a b) :
    Tiles (matchQuotes toks) a b := matchQuotes_tiles' toks a b h

/-- `Document::new(text, &PlainEnglish, _)` never panics or hangs and its final tokens tile the
text, for every text, every Unicode class table and every in-bounds behaviour of the url / e-mail /
hostname lexers: nothing is lost or duplicated by any condensing step. -/
theorem document_tiles (cls : Cls) (ext : Ext) (src : List Char) (hext : ExtOK ext src.length) :
    ∃ toks, document cls ext src = .ok toks ∧ Tiles toks 0 src.length := by
  obtain ⟨t0, e0, h0, _⟩ := parsePlain_tiles cls ext src hext
  obtain ⟨out, e, h⟩ := condenseAll_tiles src t0 src.length h0 (Nat.le_refl _)
  exact ⟨out, by simp only [document, e0, e], h⟩

/-! ### witnesses (kernel-evaluated): the quirks the model keeps -/

def chars (s : List Nat) : List Char := s.map Char.ofNat

/-- `" \t "`: three adjacent blank tokens become one (before fix `condense_spaces merges every
blank token of a run` the cursor advanced twice after a merge and only the first two were merged) -/
example : (document asciiCls (fun _ => none) [' ', '\t', ' ']).toOption =
    some [⟨⟨0, 3⟩, .space 4⟩] := by decide

/-- `a'b'c'd`: the overlap filter of `find_all_matches` compares neighbours in the ORIGINAL list, so
both later matches are dropped and only `a'b` is condensed -/
example : (document asciiCls (fun _ => none) ['a', '\'', 'b', '\'', 'c', '\'', 'd']).toOption =
    some [⟨⟨0, 3⟩, .word⟩, ⟨⟨3, 4⟩, .punct .Apostrophe⟩, ⟨⟨4, 5⟩, .word⟩, ⟨⟨5, 6⟩, .punct .Apostrophe⟩,
      ⟨⟨6, 7⟩, .word⟩] := by decide

/-- `et al.` becomes ONE `Word` token whose text contains a blank (recorded finding `c02-et-al`) -/
example : (document asciiCls (fun _ => none) ['e', 't', ' ', 'a', 'l', '.']).toOption =
    some [⟨⟨0, 6⟩, .word⟩] := by decide

/-- initialism at the end of the text, ordinal suffix, ellipsis, quote twins, paragraph break -/
example : (document asciiCls (fun _ => none)
      ['"', 'e', '.', 'g', '.', '"', ' ', '1', 's', 't', '.', '.', '.', '\n', '\n', 'a', '.', 'b', '.']).toOption =
    some [⟨⟨0, 1⟩, .quote (some 2)⟩, ⟨⟨1, 5⟩, .word⟩, ⟨⟨5, 6⟩, .quote (some 0)⟩, ⟨⟨6, 7⟩, .space 1⟩,
      ⟨⟨7, 10⟩, .number 10 (some .st)⟩, ⟨⟨10, 13⟩, .punct .Ellipsis⟩, ⟨⟨13, 15⟩, .paragraphBreak⟩,
      ⟨⟨15, 19⟩, .word⟩] := by decide

/-- the hypotheses of `condensePattern_tiles` are satisfiable: the three concrete patterns -/
example (src : List Char) : PatOK contractionPat src (fun _ => True) := contraction_patOK src
example (src : List Char) : PatOK ellipsisPat src (fun _ => True) := ellipsis_patOK src
example (src : List Char) : PatOK latinPat src (InB src) := latin_patOK src

/-- for an arbitrary pattern the adjacent-pair filter does NOT give disjoint matches: with matches
`[0,3) [1,2) [2,4)` the second is dropped (overlaps the first) and the third is kept although it
overlaps the first — `remove_indices` then loses a token -/
example : removeIndices 0 (overlapNext 1 [⟨0, 3⟩, ⟨1, 2⟩, ⟨2, 4⟩]) [(⟨0, 3⟩ : Span), ⟨1, 2⟩, ⟨2, 4⟩] =
    [⟨0, 3⟩, ⟨2, 4⟩] := by decide

/-! ## kind-shape facts of a `Document` -/

/-- A `Space(n)` token of a document covers only blanks and tabs, and `n` = #blanks + 2·#tabs:
true of what `lex_spaces` / `lex_tabs` produce, kept by `condense_spaces` (it adds the counts of
adjacent tokens), and no later pass rewrites a `Space` token (the pattern passes rewrite the first
token of a match only, a `Word` or a `Period`). -/
theorem space_shape (cls : Cls) (ext : Ext) (src : List Char) (hext : ExtOK ext src.length) (out : List Tok)
    (h : document cls ext src = .ok out) (t : Tok) (ht : t ∈ out) (n : Nat) (hk : t.kind = .space n) :
    (∀ c ∈ (src.drop t.span.start).take (t.span.stop - t.span.start), c = ' ' ∨ c = '\t') ∧
      n = ((src.drop t.span.start).take (t.span.stop - t.span.start)).count ' ' +
        2 * ((src.drop t.span.start).take (t.span.stop - t.span.start)).count '\t' :=
  (document_shape cls ext src hext out h t ht).1 n hk

/-- A `Number` token with suffix `s` ends in two characters that `NumberSuffix::from_chars` reads as
`s` (a row of the table regenerated from `number.rs`). -/
theorem number_suffix_shape (cls : Cls) (ext : Ext) (src : List Char) (hext : ExtOK ext src.length)
    (out : List Tok) (h : document cls ext src = .ok out) (t : Tok) (ht : t ∈ out) (r : Nat) (s : Suffix)
    (hk : t.kind = .number r (some s)) :
    ∃ pre c1 c2, (src.drop t.span.start).take (t.span.stop - t.span.start) = pre ++ [c1, c2] ∧
      fromCharsRow c1 c2 = some s :=
  (document_shape cls ext src hext out h t ht).2 r s hk

/-- `match_quotes`: the twin of a quote token is a (different) quote token whose twin is the first;
stated for any token vector whose quote tokens carry no twin yet … -/
theorem matchQuotes_involutive (toks : List Tok) (hf : Fresh toks) (i j : Nat) (t : Tok)
    (h : (matchQuotes toks)[i]? = some t) (hk : t.kind = .quote (some j)) :
    ∃ u, (matchQuotes toks)[j]? = some u ∧ u.kind = .quote (some i) ∧ i ≠ j :=
  matchQuotes_twin toks hf i j t h hk

/-- … and for the tokens of a document -/
theorem document_twins_involutive (cls : Cls) (ext : Ext) (src : List Char) (out : List Tok)
    (h : document cls ext src = .ok out) (i j : Nat) (t : Tok) (hi : out[i]? = some t)
    (hk : t.kind = .quote (some j)) : ∃ u, out[j]? = some u ∧ u.kind = .quote (some i) ∧ i ≠ j := by
  obtain ⟨t8, hf, rfl⟩ := document_prequotes cls ext src out h
  exact matchQuotes_twin t8 hf i j t hi hk

/-- of an odd number of quotation marks the last one has no twin -/
theorem matchQuotes_unpaired_last (toks : List Tok) (hf : Fresh toks) (q : Nat)
    (hodd : (quoteIdx 0 toks).length % 2 = 1) (hq : (quoteIdx 0 toks).getLast? = some q) :
    ∃ t, (matchQuotes toks)[q]? = some t ∧ t.kind = .quote none :=
  matchQuotes_unpaired toks hf q hodd hq

/-- `match_quotes` leaves every other token as it is -/
theorem matchQuotes_only_quotes (toks : List Tok) (i : Nat) (t : Tok) (h : toks[i]? = some t)
    (hq : t.kind.isQuote = false) : (matchQuotes toks)[i]? = some t := matchQuotes_other toks i t h hq

/-- witnesses: `" \t  "` is one `Space(5)` token = 3 blanks + 2·1 tab; three quotation marks: the
first two are twins, the third has none -/
example : (document asciiCls (fun _ => none) [' ', '\t', ' ', ' ']).toOption = some [⟨⟨0, 4⟩, .space 5⟩] := by
  decide
example : (document asciiCls (fun _ => none) ['"', 'a', '"', '"']).toOption =
    some [⟨⟨0, 1⟩, .quote (some 2)⟩, ⟨⟨1, 2⟩, .word⟩, ⟨⟨2, 3⟩, .quote (some 0)⟩, ⟨⟨3, 4⟩, .quote none⟩] := by decide
example : Fresh [⟨⟨0, 1⟩, .quote none⟩, ⟨⟨1, 2⟩, .word⟩] := by
  intro t ht x hx
  simp only [List.mem_cons, List.mem_nil_iff, or_false] at ht
  rcases ht with rfl | rfl <;> cases hx

end Harper.C02
