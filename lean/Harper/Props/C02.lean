import Harper.Lemmas.Parse
/-!
# C02 — tokens are in bounds, ordered, disjoint (plain-English parser part)

`PlainEnglish::parse` is total and its tokens tile the text, for every text, every Unicode
class table (`cls`) and every behaviour of the three external lexers (`lex_url`,
`lex_email_address`, `lex_hostname_token`) that stays inside the text (`ExtOK`, monitored on
every run). The lexer order is regenerated from `lexing/mod.rs` on every run.
-/
namespace Harper.C02
open Harper

/-- every lexer consumes at least one and at most the remaining characters -/
theorem lexToken_progress (cls : Cls) (ext : Ext) (pos : Nat) (src : List Char) (len : Nat)
    (hext : ExtOK ext len) (hlen : pos + src.length = len) (hne : src ≠ []) :
    ∃ k n, lexToken cls ext pos src = some (k, n) ∧ 1 ≤ n ∧ n ≤ src.length :=
  Harper.lexToken_progress cls ext pos src len hext hlen hne

/-- the parser never panics, never runs out of fuel, and its tokens tile `[0, len)`:
contiguous, non-empty, in order, nothing lost or duplicated; at most one token per character. -/
theorem parsePlain_tiles (cls : Cls) (ext : Ext) (src : List Char) (hext : ExtOK ext src.length) :
    ∃ toks, parsePlain cls ext src = .ok toks ∧ Tiles toks 0 src.length ∧
      toks.length ≤ src.length := by
  unfold parsePlain
  exact parseLoop_tiles cls ext src.length hext _ 0 src (by omega) (by omega)

/-- tiling implies: in bounds, increasing, pairwise disjoint -/
theorem tiles_inbounds_sorted (toks : List Tok) (a b : Nat) (h : Tiles toks a b) :
    a ≤ b ∧ (∀ t ∈ toks, a ≤ t.span.start ∧ t.span.start < t.span.stop ∧ t.span.stop ≤ b) ∧
    toks.Pairwise (fun x y => x.span.stop ≤ y.span.start) := by
  induction toks generalizing a with
  | nil => simp [Tiles] at h; subst h; simp
  | cons t ts ih =>
    obtain ⟨h1, h2, h3⟩ := h
    obtain ⟨i1, i2, i3⟩ := ih _ h3
    refine ⟨by omega, ?_, ?_⟩
    · intro x hx
      rcases List.mem_cons.mp hx with rfl | hx
      · exact ⟨by omega, by omega, i1⟩
      · have := i2 x hx; omega
    · refine List.pairwise_cons.mpr ⟨?_, i3⟩
      intro y hy
      exact (i2 y hy).1

/-! ### non-vacuity: a concrete class table and text (kernel-evaluated) -/

def asciiCls : Cls where
  lingual := isAsciiAlpha
  numeric := isAsciiDigit
  alnum := isAsciiAlnum

/-- `ExtOK` is satisfiable: no external tokens -/
example : ExtOK (fun _ => none) 5 := by intro _ _ _ h; cases h

example : (parsePlain asciiCls (fun _ => none) ['a', ' ', '1', 's', 't', '.']).toOption =
    some [⟨⟨0,1⟩,.word⟩, ⟨⟨1,2⟩,.space 1⟩, ⟨⟨2,3⟩,.number 10 none⟩, ⟨⟨3,5⟩,.word⟩,
         ⟨⟨5,6⟩,.punct .Period⟩] := by decide

/-! ### non-vacuity, continued: every hypothesis of every theorem above met together at a non-trivial value -/

/-- a table that is not empty satisfies `ExtOK`: a hostname of length 3 reported at position 2 of a text
of length 7 -/
example : ExtOK (fun pos => if pos = 2 then some (.hostname, 3) else none) 7 := by
  intro pos k n h
  dsimp only at h
  split at h
  · cases h; omega
  · cases h

/-- non-vacuity of `lexToken_progress`: its three hypotheses together, in the middle of a text (`pos = 2` of
`a 1st.`), the theorem applied -/
example : ∃ k n, lexToken asciiCls (fun _ => none) 2 ['1', 's', 't', '.'] = some (k, n) ∧ 1 ≤ n ∧ n ≤ 4 :=
  lexToken_progress asciiCls (fun _ => none) 2 ['1', 's', 't', '.'] 6
    (by intro _ _ _ h; cases h) (by decide) (by decide)

/-- … and what it finds there -/
example : lexToken asciiCls (fun _ => none) 2 ['1', 's', 't', '.'] = some (.number 10 none, 1) := by decide

/-- non-vacuity of `parsePlain_tiles` with a table that is not empty (`a a.b c`, hostname `a.b` at 2): the
theorem applied … -/
example : ∃ toks, parsePlain asciiCls (fun pos => if pos = 2 then some (.hostname, 3) else none)
      ['a', ' ', 'a', '.', 'b', ' ', 'c'] = .ok toks ∧ Tiles toks 0 7 ∧ toks.length ≤ 7 :=
  parsePlain_tiles asciiCls _ ['a', ' ', 'a', '.', 'b', ' ', 'c'] (by
    intro pos k n h
    dsimp only at h
    split at h
    · cases h; simp only [List.length_cons, List.length_nil]; omega
    · cases h)

/-- … and the tokens it speaks about -/
example : (parsePlain asciiCls (fun pos => if pos = 2 then some (.hostname, 3) else none)
      ['a', ' ', 'a', '.', 'b', ' ', 'c']).toOption =
    some [⟨⟨0,1⟩,.word⟩, ⟨⟨1,2⟩,.space 1⟩, ⟨⟨2,5⟩,.hostname⟩, ⟨⟨5,6⟩,.space 1⟩, ⟨⟨6,7⟩,.word⟩] := by decide

/-- the hypothesis `ExtOK` of `parsePlain_tiles` is needed: a table entry that leaves the text becomes a
token that leaves the text -/
example : (parsePlain asciiCls (fun pos => if pos = 0 then some (.url, 9) else none) ['a', 'b']).toOption =
    some [⟨⟨0, 9⟩, .url⟩] := by decide

/-- non-vacuity of `tiles_inbounds_sorted`: three tokens tiling `[2, 7)`, the theorem applied -/
example : (∀ t ∈ [(⟨⟨2,3⟩,.word⟩ : Tok), ⟨⟨3,5⟩,.space 2⟩, ⟨⟨5,7⟩,.word⟩],
      2 ≤ t.span.start ∧ t.span.start < t.span.stop ∧ t.span.stop ≤ 7) ∧
    [(⟨⟨2,3⟩,.word⟩ : Tok), ⟨⟨3,5⟩,.space 2⟩, ⟨⟨5,7⟩,.word⟩].Pairwise (fun x y => x.span.stop ≤ y.span.start) :=
  (tiles_inbounds_sorted _ 2 7 (by decide)).2

end Harper.C02
