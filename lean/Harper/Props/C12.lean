import Harper.Lemmas.LexAppend
import Harper.Lemmas.Chunks
import Harper.Lemmas.CondensePats
import Harper.Lemmas.DocAppend
import Harper.Props.C02
/-!
# C12 — checking two paragraphs together equals checking them separately

The text is `P ++ D`: `P` ends in a newline (a paragraph break: two or more), `D` does not start
with one — every text containing a paragraph break splits this way, right after the run of newlines.

* `lex_append`: `PlainEnglish::parse (P ++ D) = parse P ++ shift |P| (parse D)`, for every Unicode
  class table satisfying three laws (`ClsOK`) and every url / e-mail / hostname lexer whose tokens
  are local to each side (`ExtLocal`, a monitor: the real lexers are NOT local in one case, the
  recorded finding `c12-lex-at-lookahead`). None of the modelled lexers looks past the newline:
  `lex_number` scans to the last ASCII digit of the whole remaining text, but a literal it accepts
  ends in a digit and contains no newline, so the scan is harmless (`lexNumber_local`).
* `document_append`: no condensing pass merges across the paragraph break, so the document of
  `P ++ D` is the document of `P` followed by the document of `D` moved by `|P|` characters and
  `|tokens(P)|` token places (quote twins are token indices). Its conditions are about the
  CHARACTERS of the two texts: `P = P0 ++ '\n'^k` with `k ≥ 2` and `P0` not ending in a newline,
  no quotation-mark character in `P`, `D` not starting with a newline. (`parsePlain_ends_break`:
  such a `P` lexes to tokens ending in `Newline(k)`; `parsePlain_noQuotes`.) The former condition
  `SpaceOK` is gone: `condense_spaces` no longer advances its cursor twice (repaired finding
  `c12-condense-spaces-skip`), and `condenseSpaces_barrier` holds unconditionally.
* `iterParagraphs_append` / `iterSentences_append` / `iterChunks_append`: the pieces of two token
  vectors joined at a paragraph break are the pieces of the first followed by those of the second.
* `lint_append`: a rule that is a function of one piece (`XLocal`: local and translation
  invariant) reports on `P ++ D` exactly its lints on `P` followed by its lints on `D` shifted by
  `|P|`; a group of such rules reports the same lints up to the interleaving of the rule-by-rule
  concatenation (`lintGroup_append`).
* `paragraphs_separately` / `paragraphs_separately_group`: all of the above composed — from the
  characters of `P` and `D` to the lints of one rule / of a group of rules.
Assumptions left: the url / e-mail / hostname lexers are a parameter (`ExtOK`, `ExtLocal`, `ExtNoNl`:
in bounds, local to each side, no newline inside a token — all monitored; `ExtLocal` fails for the
recorded finding) and rule locality `XLocal`. In THIS file `XLocal` is a hypothesis; it is proved for
the modelled rules downstream (`Props/C12b.lean` eleven rules, `C12c` generic constructions, `C12d` the
28 pattern rules, `C12e` thirteen hand-written rules) and tested by the oracle of `harness/src/c12.rs`
on the real rule set on every run. For the MODELLED url / e-mail / hostname lexers the three table
hypotheses reduce to "`D` contains no `@`" (`C12b.paragraphPair_atFree`, w22 audit).
-/
namespace Harper.C12
open Harper Harper.Chunks

/-! ## the lexer -/

/-- no modelled lexer looks past the newline that ends `P`: the token found at any position of `P`
is the same whether or not `D` follows -/
theorem lexToken_local (cls : Cls) (hc : ClsOK cls) (ext ext' : Ext) (pos : Nat) (hext : ext' pos = ext pos)
    (p D : List Char) (hD : D.head? ≠ some '\n') :
    lexToken cls ext' pos (p ++ '\n' :: D) = lexToken cls ext pos (p ++ ['\n']) :=
  lexToken_nl cls hc ext ext' pos hext p D hD

/-- `lex_number` still scans to the last ASCII digit of everything that follows, but that cannot
change its result across a newline -/
theorem lexNumber_local (cls : Cls) (hc : ClsOK cls) (p D : List Char) :
    lexNumber cls (p ++ '\n' :: D) = lexNumber cls (p ++ ['\n']) := lexNumber_nl cls hc p D

/-- the tokens of `P ++ D` are the tokens of `P` followed by the tokens of `D` moved by `|P|` -/
theorem lex_append (cls : Cls) (hc : ClsOK cls) (P D : List Char) (hb : BoundaryOK P D)
    (extP extD extPD : Ext) (hloc : ExtLocal extP extD extPD P.length)
    (hokP : ExtOK extP P.length) (hokD : ExtOK extD D.length) :
    ∃ tp td, parsePlain cls extP P = .ok tp ∧ parsePlain cls extD D = .ok td ∧
      parsePlain cls extPD (P ++ D) = .ok (tp ++ shiftToks P.length td) :=
  lex_append' cls hc P D hb extP extD extPD hloc hokP hokD

/-! ### every condition of `lex_append` is needed (kernel-evaluated witnesses) -/

open Harper.C02 (asciiCls)

/-- the hypotheses are satisfiable -/
example : ClsOK asciiCls := ⟨by decide, by decide, by
  intro c h
  simp only [asciiCls, isAsciiDigit, Bool.and_eq_true, decide_eq_true_eq] at h
  refine ⟨?_, ?_, ?_⟩
  · simp only [isAsciiAlpha, Bool.or_eq_false_iff, Bool.and_eq_false_imp, decide_eq_true_eq, decide_eq_false_iff_not]
    have h1 := h.1; have h2 := h.2
    constructor <;> intro h3 <;> intro h4
    · exact absurd (Char.le_trans h3 h2) (by decide)
    · exact absurd (Char.le_trans h3 h2) (by decide)
  · intro hc; subst hc; exact absurd h.1 (by decide)
  · intro hc; subst hc; exact absurd h.1 (by decide)⟩
example : BoundaryOK ['a', '.', '\n', '\n'] ['b'] := by decide
example : ExtLocal (fun _ => none) (fun _ => none) (fun _ => none) 4 := ⟨fun _ _ => rfl, fun _ => rfl⟩

/-! ### non-vacuity: the theorems above applied, every hypothesis together -/

/-- the ASCII class table obeys the three laws (named, so that the witnesses below can apply the theorems) -/
theorem asciiCls_clsOK : ClsOK asciiCls := ⟨by decide, by decide, by
  intro c h
  simp only [asciiCls, isAsciiDigit, Bool.and_eq_true, decide_eq_true_eq] at h
  refine ⟨?_, ?_, ?_⟩
  · simp only [isAsciiAlpha, Bool.or_eq_false_iff, Bool.and_eq_false_imp, decide_eq_true_eq, decide_eq_false_iff_not]
    have h1 := h.1; have h2 := h.2
    constructor <;> intro h3 <;> intro h4
    · exact absurd (Char.le_trans h3 h2) (by decide)
    · exact absurd (Char.le_trans h3 h2) (by decide)
  · intro hc; subst hc; exact absurd h.1 (by decide)
  · intro hc; subst hc; exact absurd h.1 (by decide)⟩

/-- an `Ext` table that is not empty: the e-mail address `a@b` at the start of `D = a@b c` -/
theorem emailAt_ok (p len : Nat) (h : p + 3 ≤ len) : ExtOK (fun pos => if pos = p then some (.email, 3) else none) len := by
  intro pos k n hk
  dsimp only at hk
  split at hk
  · cases hk; omega
  · cases hk

theorem emailAt_local (n : Nat) :
    ExtLocal (fun _ => none) (fun pos => if pos = 0 then some (.email, 3) else none)
      (fun pos => if pos = n then some (.email, 3) else none) n := by
  refine ⟨fun pos hp => ?_, fun i => ?_⟩
  · have : pos ≠ n := by omega
    simp [this]
  · by_cases hi : i = 0
    · subst hi; simp
    · have : n + i ≠ n := by omega
      simp [hi]

/-- non-vacuity of `lexToken_local`: position 0 of `ab` + newline + `cd` -/
example : lexToken asciiCls (fun _ => none) 0 (['a', 'b'] ++ '\n' :: ['c', 'd']) =
    lexToken asciiCls (fun _ => none) 0 (['a', 'b'] ++ ['\n']) :=
  lexToken_local asciiCls asciiCls_clsOK _ _ 0 rfl ['a', 'b'] ['c', 'd'] (by decide)

example : lexToken asciiCls (fun _ => none) 0 (['a', 'b'] ++ '\n' :: ['c', 'd']) = some (.word, 2) := by decide

/-- non-vacuity of `lexNumber_local`: `5.` before the newline, a digit after it -/
example : lexNumber asciiCls (['5', '.'] ++ '\n' :: ['5']) = lexNumber asciiCls (['5', '.'] ++ ['\n']) :=
  lexNumber_local asciiCls asciiCls_clsOK ['5', '.'] ['5']

example : lexNumber asciiCls (['5', '.'] ++ '\n' :: ['5']) = some (.number 10 none, 1) := by decide

/-- non-vacuity of `lex_append`: all six hypotheses together, `a.¶¶` + `a@b c` with an e-mail token in `D` -/
example : ∃ tp td, parsePlain asciiCls (fun _ => none) ['a', '.', '\n', '\n'] = .ok tp ∧
    parsePlain asciiCls (fun pos => if pos = 0 then some (.email, 3) else none) ['a', '@', 'b', ' ', 'c'] = .ok td ∧
    parsePlain asciiCls (fun pos => if pos = 4 then some (.email, 3) else none)
      (['a', '.', '\n', '\n'] ++ ['a', '@', 'b', ' ', 'c']) = .ok (tp ++ shiftToks 4 td) :=
  lex_append asciiCls asciiCls_clsOK ['a', '.', '\n', '\n'] ['a', '@', 'b', ' ', 'c'] (by decide) _ _ _
    (emailAt_local 4) (fun _ _ _ h => by cases h) (emailAt_ok 0 5 (by decide))

/-- … and the tokens it speaks about -/
example : (parsePlain asciiCls (fun pos => if pos = 4 then some (.email, 3) else none)
      (['a', '.', '\n', '\n'] ++ ['a', '@', 'b', ' ', 'c'])).toOption =
    some [⟨⟨0, 1⟩, .word⟩, ⟨⟨1, 2⟩, .punct .Period⟩, ⟨⟨2, 4⟩, .newline 2⟩, ⟨⟨4, 7⟩, .email⟩, ⟨⟨7, 8⟩, .space 1⟩,
      ⟨⟨8, 9⟩, .word⟩] := by decide

/-- `D` must not start with a newline: the newline runs merge (`nl2` + `nl1` ≠ `nl3`) -/
example : (parsePlain asciiCls (fun _ => none) (['a', '\n', '\n'] ++ ['\n', 'b'])).toOption ≠
    (do let tp ← (parsePlain asciiCls (fun _ => none) ['a', '\n', '\n']).toOption
        let td ← (parsePlain asciiCls (fun _ => none) ['\n', 'b']).toOption
        pure (tp ++ shiftToks 3 td)) := by decide

/-- `P` must end in a newline: otherwise a word continues into `D` -/
example : (parsePlain asciiCls (fun _ => none) (['a'] ++ ['b'])).toOption ≠
    (do let tp ← (parsePlain asciiCls (fun _ => none) ['a']).toOption
        let td ← (parsePlain asciiCls (fun _ => none) ['b']).toOption
        pure (tp ++ shiftToks 1 td)) := by decide

/-- `ExtLocal` is needed: an e-mail lexer that finds `a@b` in `P` alone but (looking at a later `@`)
nothing in `P ++ D` gives different tokens — this is what the real `lex_email_address` does -/
example : (parsePlain asciiCls (fun _ => none) (['a', '@', 'b', '\n'] ++ ['@'])).toOption ≠
    (do let tp ← (parsePlain asciiCls (fun p => if p = 0 then some (.email, 3) else none) ['a', '@', 'b', '\n']).toOption
        let td ← (parsePlain asciiCls (fun _ => none) ['@']).toOption
        pure (tp ++ shiftToks 4 td)) := by decide

/-- the law "a numeric character is not an ASCII letter" is needed: with a table calling `n`
numeric, `nan` is a number only when a digit follows somewhere in `D` -/
def oddCls : Cls := { asciiCls with numeric := fun c => isAsciiDigit c || c == 'n' }
example : (parsePlain oddCls (fun _ => none) (['n', 'a', 'n', '\n'] ++ ['5'])).toOption ≠
    (do let tp ← (parsePlain oddCls (fun _ => none) ['n', 'a', 'n', '\n']).toOption
        let td ← (parsePlain oddCls (fun _ => none) ['5']).toOption
        pure (tp ++ shiftToks 4 td)) := by decide

/-! ## the condensing passes -/

/-- the document of the whole is the document of `P` followed by the document of `D` moved by `n`
characters and `|tp|` token places -/
def DocAppend' (cls : Cls) (ext : Ext) (src : List Char) (tp td : List Tok) (n : Nat) : Prop :=
  document cls ext src = .ok (tp ++ shiftDoc n tp.length td)

/-- token-level form: `X ++ [brk]` are the lexer's tokens of `P` (ending in the paragraph's newline
token, without quotation marks), `td0` those of `D` -/
theorem document_append_tokens (cls : Cls) (hc : ClsOK cls) (P D : List Char) (hb : BoundaryOK P D)
    (extP extD extPD : Ext) (hloc : ExtLocal extP extD extPD P.length)
    (hokP : ExtOK extP P.length) (hokD : ExtOK extD D.length)
    (X : List Tok) (brk : Tok) (k : Nat) (td0 : List Tok)
    (hP0 : parsePlain cls extP P = .ok (X ++ [brk])) (hD0 : parsePlain cls extD D = .ok td0)
    (hbrk : brk.kind = .newline k) (hk : k ≥ 2) (hnq : NoQuotes (X ++ [brk])) :
    ∃ A0 pb td, pb.kind = .paragraphBreak ∧ document cls extP P = .ok (A0 ++ [pb]) ∧
      document cls extD D = .ok td ∧
      DocAppend' cls extPD (P ++ D) (A0 ++ [pb]) td P.length ∧
      (∀ t ∈ A0 ++ [pb], t.span.stop ≤ P.length) :=
  document_append' cls hc P D hb extP extD extPD hloc hokP hokD X brk k td0 hP0 hD0 hbrk hk
    (parsePlain_head cls extD D hb.2 td0 hD0) hnq

/-- a text ending in a maximal run of `k` newlines lexes to tokens ending in `Newline(k)` -/
theorem parsePlain_ends_break (cls : Cls) (hc : ClsOK cls) (ext : Ext) (P0 : List Char) (k : Nat) (hk : 1 ≤ k)
    (hend : NoNlEnd P0) (hnl : ExtNoNl ext (P0 ++ List.replicate k '\n'))
    (hok : ExtOK ext (P0 ++ List.replicate k '\n').length) (toks : List Tok)
    (h : parsePlain cls ext (P0 ++ List.replicate k '\n') = .ok toks) :
    ∃ X, toks = X ++ [⟨⟨P0.length, P0.length + k⟩, .newline k⟩] :=
  Harper.parsePlain_ends_break cls hc ext P0 k hk hend hnl hok toks h

/-- a text without quotation-mark characters has no quote token -/
theorem parsePlain_noQuotes (cls : Cls) (ext : Ext) (P : List Char) (hq : NoQuoteChars P) (toks : List Tok)
    (h : parsePlain cls ext P = .ok toks) : NoQuotes toks :=
  Harper.parsePlain_noQuotes cls ext P hq toks h

/-- no token other than a `Newline` token contains a newline (the url / e-mail / hostname lexers:
by assumption `hext`) -/
theorem token_has_no_newline (cls : Cls) (hc : ClsOK cls) (ext : Ext) (pos : Nat) (src : List Char)
    (hext : ∀ k n, ext pos = some (k, n) → NoNl (src.take n)) (kd : Kind) (n : Nat)
    (h : lexToken cls ext pos src = some (kd, n)) : NoNl (src.take n) ∨ AllNl (src.take n) :=
  lexToken_chars cls hc ext pos src hext kd n h

/-- **`Document::new (P ++ D)` = `Document::new P` followed by `Document::new D` moved behind it**,
from conditions on the characters: `P = P0 ++ '\n'^k`, `k ≥ 2`, `P0` does not end in a newline,
`P` contains no quotation mark, `D` does not start with a newline. -/
theorem document_append (cls : Cls) (hc : ClsOK cls) (P0 D : List Char) (k : Nat) (hk : 2 ≤ k)
    (hend : NoNlEnd P0) (hD : D.head? ≠ some '\n') (hq : NoQuoteChars (P0 ++ List.replicate k '\n'))
    (extP extD extPD : Ext) (hloc : ExtLocal extP extD extPD (P0 ++ List.replicate k '\n').length)
    (hokP : ExtOK extP (P0 ++ List.replicate k '\n').length) (hokD : ExtOK extD D.length)
    (hnl : ExtNoNl extP (P0 ++ List.replicate k '\n')) :
    ∃ A0 pb td, pb.kind = .paragraphBreak ∧
      document cls extP (P0 ++ List.replicate k '\n') = .ok (A0 ++ [pb]) ∧
      document cls extD D = .ok td ∧
      DocAppend' cls extPD ((P0 ++ List.replicate k '\n') ++ D) (A0 ++ [pb]) td (P0 ++ List.replicate k '\n').length ∧
      (∀ t ∈ A0 ++ [pb], t.span.stop ≤ (P0 ++ List.replicate k '\n').length) := by
  obtain ⟨tp0, eP, _, _⟩ := C02.parsePlain_tiles cls extP _ hokP
  obtain ⟨td0, eD, _, _⟩ := C02.parsePlain_tiles cls extD D hokD
  obtain ⟨X, rfl⟩ := parsePlain_ends_break cls hc extP P0 k (by omega) hend hnl hokP tp0 eP
  exact document_append_tokens cls hc _ D ⟨getLast?_append_replicate P0 k (by omega), hD⟩ extP extD extPD
    hloc hokP hokD X _ k td0 eP eD rfl hk (parsePlain_noQuotes cls extP _ hq _ eP)

/-- every condensing pass also commutes with moving the tokens and the text under them; e.g. -/
theorem condenseSpaces_translation (k : Nat) (toks : List Tok) :
    condenseSpaces (shiftToks k toks) = shiftToks k (condenseSpaces toks) := condenseSpaces_shift k toks

/-- … and a `ParagraphBreak` token is a barrier for the pattern passes (here: `et al.`) -/
theorem latin_stops_at_break (src : List Char) (pb : Tok) (hpb : pb.kind = .paragraphBreak) (Y : List Tok)
    (hY : InB src (pb :: Y)) (xs : List Tok) (hxs : InB src xs) :
    latinPat src (xs ++ pb :: Y) = latinPat src xs := (latin_barrier src pb hpb Y hY).stop xs hxs

/-- regression witness of the repaired finding `c12-condense-spaces-skip`: `a·⇥¶¶` + `·⇥b` — before
the fix of `condense_spaces` (cursor advanced twice after a merge) the blanks of the second paragraph
stayed two tokens when checked together and were merged when checked separately; now both agree.
`document_append` no longer has a condition about blanks: `condenseSpaces_barrier` is unconditional. -/
theorem spaceOK_no_longer_needed :
    (document asciiCls (fun _ => none) (['a', ' ', '\t', '\n', '\n'] ++ [' ', '\t', 'b'])).toOption =
    (do let tp ← (document asciiCls (fun _ => none) ['a', ' ', '\t', '\n', '\n']).toOption
        let td ← (document asciiCls (fun _ => none) [' ', '\t', 'b']).toOption
        pure (tp ++ shiftDoc 5 tp.length td)) := by decide

/-- `condense_spaces` never merges across a token that is not a blank -/
theorem condenseSpaces_barrier (X Y : List Tok) (brk : Tok) (hb : brk.kind.isSpace = false) :
    condenseSpaces (X ++ brk :: Y) = condenseSpaces X ++ brk :: condenseSpaces Y :=
  Harper.condenseSpaces_barrier X Y brk hb

/-- the hypotheses of `document_append` are satisfiable -/
example : NoNlEnd ['a', '.', ' '] ∧ NoQuoteChars (['a', '.', ' '] ++ List.replicate 2 '\n') ∧
    ExtNoNl (fun _ => none) (['a', '.', ' '] ++ List.replicate 2 '\n') :=
  ⟨by decide, by decide, fun _ _ _ h => by cases h⟩

/-- … and its conclusion, computed -/
example : (document asciiCls (fun _ => none) (['a', '.', ' ', '\n', '\n'] ++ [' ', '"', 'b', '"'])).toOption =
    (do let tp ← (document asciiCls (fun _ => none) ['a', '.', ' ', '\n', '\n']).toOption
        let td ← (document asciiCls (fun _ => none) [' ', '"', 'b', '"']).toOption
        pure (tp ++ shiftDoc 5 tp.length td)) := by decide

/-! ### non-vacuity: each theorem of this section applied, every hypothesis together -/

/-- non-vacuity of `document_append_tokens`: `a.¶¶` + `a@b c`, every hypothesis together -/
example : ∃ A0 pb td, pb.kind = .paragraphBreak ∧
    document asciiCls (fun _ => none) ['a', '.', '\n', '\n'] = .ok (A0 ++ [pb]) ∧
    document asciiCls (fun pos => if pos = 0 then some (.email, 3) else none) ['a', '@', 'b', ' ', 'c'] = .ok td ∧
    DocAppend' asciiCls (fun pos => if pos = 4 then some (.email, 3) else none)
      (['a', '.', '\n', '\n'] ++ ['a', '@', 'b', ' ', 'c']) (A0 ++ [pb]) td 4 ∧
    (∀ t ∈ A0 ++ [pb], t.span.stop ≤ 4) :=
  document_append_tokens asciiCls asciiCls_clsOK ['a', '.', '\n', '\n'] ['a', '@', 'b', ' ', 'c'] (by decide) _ _ _
    (emailAt_local 4) (fun _ _ _ h => by cases h) (emailAt_ok 0 5 (by decide))
    [⟨⟨0, 1⟩, .word⟩, ⟨⟨1, 2⟩, .punct .Period⟩] ⟨⟨2, 4⟩, .newline 2⟩ 2
    [⟨⟨0, 3⟩, .email⟩, ⟨⟨3, 4⟩, .space 1⟩, ⟨⟨4, 5⟩, .word⟩] rfl rfl rfl (by decide) (by unfold NoQuotes; decide)

/-- non-vacuity of `parsePlain_ends_break`: `a b.` + three newlines -/
example : ∃ X, [(⟨⟨0, 1⟩, .word⟩ : Tok), ⟨⟨1, 2⟩, .space 1⟩, ⟨⟨2, 3⟩, .word⟩, ⟨⟨3, 4⟩, .punct .Period⟩, ⟨⟨4, 7⟩, .newline 3⟩] =
    X ++ [⟨⟨4, 4 + 3⟩, .newline 3⟩] :=
  parsePlain_ends_break asciiCls asciiCls_clsOK (fun _ => none) ['a', ' ', 'b', '.'] 3 (by decide) (by decide)
    (fun _ _ _ h => by cases h) (fun _ _ _ h => by cases h) _ rfl

/-- non-vacuity of `parsePlain_noQuotes` -/
example : NoQuotes [(⟨⟨0, 1⟩, .word⟩ : Tok), ⟨⟨1, 2⟩, .space 1⟩, ⟨⟨2, 3⟩, .word⟩, ⟨⟨3, 4⟩, .punct .Period⟩] :=
  parsePlain_noQuotes asciiCls (fun _ => none) ['a', ' ', 'b', '.'] (by decide) _ rfl

/-- … and the hypothesis is needed: a quotation mark lexes to a quote token -/
example : ¬ NoQuoteChars ['"', 'a'] ∧
    (parsePlain asciiCls (fun _ => none) ['"', 'a']).toOption = some [⟨⟨0, 1⟩, .quote none⟩, ⟨⟨1, 2⟩, .word⟩] := by decide

/-- non-vacuity of `token_has_no_newline`: the word `ab` before a newline; the newline run itself -/
example : NoNl (['a', 'b', '\n', 'c'].take 2) ∨ AllNl (['a', 'b', '\n', 'c'].take 2) :=
  token_has_no_newline asciiCls asciiCls_clsOK (fun _ => none) 0 ['a', 'b', '\n', 'c'] (fun _ _ h => by cases h) .word 2 (by decide)

example : NoNl (['\n', '\n', 'c'].take 2) ∨ AllNl (['\n', '\n', 'c'].take 2) :=
  token_has_no_newline asciiCls asciiCls_clsOK (fun _ => none) 0 ['\n', '\n', 'c'] (fun _ _ h => by cases h) (.newline 2) 2 (by decide)

/-- non-vacuity of `document_append`: every hypothesis together (`ab cd. ¶¶¶` + `a@b "c"`: three newlines, an
e-mail token and a quoted word in `D`), the theorem applied -/
example : ∃ A0 pb td, pb.kind = .paragraphBreak ∧
    document asciiCls (fun _ => none) (['a', 'b', ' ', 'c', 'd', '.', ' '] ++ List.replicate 3 '\n') = .ok (A0 ++ [pb]) ∧
    document asciiCls (fun pos => if pos = 0 then some (.email, 3) else none) ['a', '@', 'b', ' ', '"', 'c', '"'] = .ok td ∧
    DocAppend' asciiCls (fun pos => if pos = 10 then some (.email, 3) else none)
      ((['a', 'b', ' ', 'c', 'd', '.', ' '] ++ List.replicate 3 '\n') ++ ['a', '@', 'b', ' ', '"', 'c', '"']) (A0 ++ [pb]) td
      (['a', 'b', ' ', 'c', 'd', '.', ' '] ++ List.replicate 3 '\n').length ∧
    (∀ t ∈ A0 ++ [pb], t.span.stop ≤ (['a', 'b', ' ', 'c', 'd', '.', ' '] ++ List.replicate 3 '\n').length) :=
  document_append asciiCls asciiCls_clsOK ['a', 'b', ' ', 'c', 'd', '.', ' '] ['a', '@', 'b', ' ', '"', 'c', '"'] 3 (by decide)
    (by decide) (by decide) (by decide) _ _ _ (emailAt_local 10) (fun _ _ _ h => by cases h) (emailAt_ok 0 7 (by decide))
    (fun _ _ _ h => by cases h)

/-- … and the document it speaks about: the quotes of `D` are twins 8 ↔ 10 (alone: 2 ↔ 4, moved by the 6 tokens of `P`) -/
example : (document asciiCls (fun pos => if pos = 10 then some (.email, 3) else none)
      ((['a', 'b', ' ', 'c', 'd', '.', ' '] ++ List.replicate 3 '\n') ++ ['a', '@', 'b', ' ', '"', 'c', '"'])).toOption =
    some [⟨⟨0, 2⟩, .word⟩, ⟨⟨2, 3⟩, .space 1⟩, ⟨⟨3, 5⟩, .word⟩, ⟨⟨5, 6⟩, .punct .Period⟩, ⟨⟨6, 7⟩, .space 1⟩,
      ⟨⟨7, 10⟩, .paragraphBreak⟩, ⟨⟨10, 13⟩, .email⟩, ⟨⟨13, 14⟩, .space 1⟩, ⟨⟨14, 15⟩, .quote (some 10)⟩, ⟨⟨15, 16⟩, .word⟩,
      ⟨⟨16, 17⟩, .quote (some 8)⟩] := by decide

/-- `k ≥ 2` is needed: one newline does not end the paragraph — the document of `a` + newline ends in a `Newline(1)`
token, not in a `ParagraphBreak`, and `a`, newline, `b` is ONE paragraph -/
example : (document asciiCls (fun _ => none) (['a'] ++ List.replicate 1 '\n')).toOption =
      some [⟨⟨0, 1⟩, .word⟩, ⟨⟨1, 2⟩, .newline 1⟩] ∧
    (document asciiCls (fun _ => none) ((['a'] ++ List.replicate 1 '\n') ++ ['b'])).toOption =
      some [⟨⟨0, 1⟩, .word⟩, ⟨⟨1, 2⟩, .newline 1⟩, ⟨⟨2, 3⟩, .word⟩] ∧
    iterParagraphs [(⟨⟨0, 1⟩, .word⟩ : Tok), ⟨⟨1, 2⟩, .newline 1⟩, ⟨⟨2, 3⟩, .word⟩] =
      [[⟨⟨0, 1⟩, .word⟩, ⟨⟨1, 2⟩, .newline 1⟩, ⟨⟨2, 3⟩, .word⟩]] := by decide

/-- non-vacuity of `condenseSpaces_translation`, `latin_stops_at_break`, `condenseSpaces_barrier` -/
example : latinPat ['e', 't', 'c', '.', '\n', '\n', 'a']
      ([⟨⟨0, 3⟩, .word⟩, ⟨⟨3, 4⟩, .punct .Period⟩] ++ ⟨⟨4, 6⟩, .paragraphBreak⟩ :: [⟨⟨6, 7⟩, .word⟩]) =
    latinPat ['e', 't', 'c', '.', '\n', '\n', 'a'] [⟨⟨0, 3⟩, .word⟩, ⟨⟨3, 4⟩, .punct .Period⟩] :=
  latin_stops_at_break _ ⟨⟨4, 6⟩, .paragraphBreak⟩ rfl [⟨⟨6, 7⟩, .word⟩] (by unfold InB; decide) _ (by unfold InB; decide)

example : condenseSpaces ([⟨⟨0, 1⟩, .space 1⟩, ⟨⟨1, 2⟩, .space 2⟩] ++ ⟨⟨2, 3⟩, .word⟩ :: [⟨⟨3, 4⟩, .space 1⟩, ⟨⟨4, 5⟩, .space 2⟩]) =
    condenseSpaces [⟨⟨0, 1⟩, .space 1⟩, ⟨⟨1, 2⟩, .space 2⟩] ++ ⟨⟨2, 3⟩, .word⟩ :: condenseSpaces [⟨⟨3, 4⟩, .space 1⟩, ⟨⟨4, 5⟩, .space 2⟩] :=
  condenseSpaces_barrier _ _ ⟨⟨2, 3⟩, .word⟩ rfl

/-! ## pieces -/

/-- paragraphs of two token vectors joined at a paragraph break -/
theorem iterParagraphs_append (A0 : List Tok) (brk : Tok) (hb : brk.kind.isParagraphBreak = true) (B : List Tok) :
    iterParagraphs ((A0 ++ [brk]) ++ B) =
      iterParagraphs (A0 ++ [brk]) ++ (if B.isEmpty then [] else iterParagraphs B) :=
  split_append _ brk hb A0 B

theorem isSentenceTerminator_of_break {k : Kind} (h : k.isParagraphBreak = true) : isSentenceTerminator k = true := by
  cases k <;> simp_all [Kind.isParagraphBreak, isSentenceTerminator]

theorem isChunkTerminator_of_break {k : Kind} (h : k.isParagraphBreak = true) : isChunkTerminator k = true := by
  simp [isChunkTerminator, isSentenceTerminator_of_break h]

/-- sentences never span a paragraph break -/
theorem iterSentences_append (A0 : List Tok) (brk : Tok) (hb : brk.kind.isParagraphBreak = true) (B : List Tok) :
    iterSentences ((A0 ++ [brk]) ++ B) =
      iterSentences (A0 ++ [brk]) ++ (if B.isEmpty then [] else iterSentences B) :=
  split_append _ brk (isSentenceTerminator_of_break hb) A0 B

/-- chunks never span a paragraph break -/
theorem iterChunks_append (A0 : List Tok) (brk : Tok) (hb : brk.kind.isParagraphBreak = true) (B : List Tok) :
    iterChunks ((A0 ++ [brk]) ++ B) =
      iterChunks (A0 ++ [brk]) ++ (if B.isEmpty then [] else iterChunks B) :=
  split_append _ brk (isChunkTerminator_of_break hb) A0 B

/-- an empty second text contributes no piece, whereas on its own it is one empty piece -/
example : iterParagraphs [] = [[]] := rfl

/-! ## rules -/

/-- the document of `P ++ D` is the document of `P` followed by the document of `D` moved by `|P|`
characters and `|tokens(P)|` token places (quote twins are token indices) -/
def DocAppend (tpd tp td : List Tok) (n : Nat) : Prop := tpd = tp ++ shiftDoc n tp.length td

/-- One paragraph-local rule. `tp` ends in a paragraph break and lies inside `P`; then the lints
on the whole are the lints on `P` followed by the lints on `D` shifted by `|P|` — exactly, in
order. (Also for rules run per sentence or per chunk: `lint_append_sentences`, `lint_append_chunks`.) -/
theorem lint_append (r : Rule) (hr : XLocal r) (P D : List Char) (A0 : List Tok) (brk : Tok)
    (hb : brk.kind.isParagraphBreak = true) (td tpd : List Tok)
    (hin : ∀ t ∈ A0 ++ [brk], t.span.stop ≤ P.length)
    (hdoc : DocAppend tpd (A0 ++ [brk]) td P.length) :
    lintBy iterParagraphs r (P ++ D) tpd =
      lintBy iterParagraphs r P (A0 ++ [brk]) ++ shiftLints P.length (lintBy iterParagraphs r D td) := by
  rw [hdoc]
  exact lintBy_append _ (fun j k => isParagraphBreak_shiftTwin j k) r hr P D A0 brk hb td hin

theorem lint_append_sentences (r : Rule) (hr : XLocal r) (P D : List Char) (A0 : List Tok) (brk : Tok)
    (hb : brk.kind.isParagraphBreak = true) (td tpd : List Tok)
    (hin : ∀ t ∈ A0 ++ [brk], t.span.stop ≤ P.length)
    (hdoc : DocAppend tpd (A0 ++ [brk]) td P.length) :
    lintBy iterSentences r (P ++ D) tpd =
      lintBy iterSentences r P (A0 ++ [brk]) ++ shiftLints P.length (lintBy iterSentences r D td) := by
  rw [hdoc]
  exact lintBy_append _ (fun j k => isSentenceTerminator_shiftTwin j k) r hr P D A0 brk
    (isSentenceTerminator_of_break hb) td hin

theorem lint_append_chunks (r : Rule) (hr : XLocal r) (P D : List Char) (A0 : List Tok) (brk : Tok)
    (hb : brk.kind.isParagraphBreak = true) (td tpd : List Tok)
    (hin : ∀ t ∈ A0 ++ [brk], t.span.stop ≤ P.length)
    (hdoc : DocAppend tpd (A0 ++ [brk]) td P.length) :
    lintBy iterChunks r (P ++ D) tpd =
      lintBy iterChunks r P (A0 ++ [brk]) ++ shiftLints P.length (lintBy iterChunks r D td) := by
  rw [hdoc]
  exact lintBy_append _ (fun j k => isChunkTerminator_shiftTwin j k) r hr P D A0 brk
    (isChunkTerminator_of_break hb) td hin

/-- a whole group of paragraph-local rules: the same lints; only the interleaving of the
rule-by-rule concatenation differs -/
theorem lintGroup_append (rs : List Rule) (hrs : ∀ r ∈ rs, XLocal r) (P D : List Char) (A0 : List Tok)
    (brk : Tok) (hb : brk.kind.isParagraphBreak = true) (td tpd : List Tok)
    (hin : ∀ t ∈ A0 ++ [brk], t.span.stop ≤ P.length)
    (hdoc : DocAppend tpd (A0 ++ [brk]) td P.length) :
    (lintGroup iterParagraphs rs (P ++ D) tpd).Perm
      (lintGroup iterParagraphs rs P (A0 ++ [brk]) ++
        shiftLints P.length (lintGroup iterParagraphs rs D td)) :=
  lintGroup_append_perm _ rs _ _ _ _ _ _ _
    (fun r hr => lint_append r (hrs r hr) P D A0 brk hb td tpd hin hdoc)

/-- **C12 for one paragraph-local rule, end to end**: lexer, condensing passes, paragraph iterator
and rule composed, from conditions on the characters. `P = P0 ++ '\n'^k` (`k ≥ 2`) is a paragraph
followed by its break, free of quotation marks; `D` is any further text (not starting with a
newline). The lints on `P ++ D` are the lints on `P` followed by the lints on `D` moved by `|P|`.
Assumed, not proved: the url / e-mail / hostname lexers (`ExtOK`, `ExtLocal`, `ExtNoNl`) and
`XLocal r` (the rule). -/
theorem paragraphs_separately (cls : Cls) (hc : ClsOK cls) (P0 D : List Char) (k : Nat) (hk : 2 ≤ k)
    (hend : NoNlEnd P0) (hD : D.head? ≠ some '\n') (hq : NoQuoteChars (P0 ++ List.replicate k '\n'))
    (extP extD extPD : Ext) (hloc : ExtLocal extP extD extPD (P0 ++ List.replicate k '\n').length)
    (hokP : ExtOK extP (P0 ++ List.replicate k '\n').length) (hokD : ExtOK extD D.length)
    (hnl : ExtNoNl extP (P0 ++ List.replicate k '\n'))
    (r : Rule) (hr : XLocal r) :
    ∃ lp ld, lintDoc cls extP iterParagraphs r (P0 ++ List.replicate k '\n') = .ok lp ∧
      lintDoc cls extD iterParagraphs r D = .ok ld ∧
      lintDoc cls extPD iterParagraphs r ((P0 ++ List.replicate k '\n') ++ D) =
        .ok (lp ++ shiftLints (P0 ++ List.replicate k '\n').length ld) := by
  obtain ⟨A0, pb, td, hpb, eP, eD, ePD, hin⟩ :=
    document_append cls hc P0 D k hk hend hD hq extP extD extPD hloc hokP hokD hnl
  generalize P0 ++ List.replicate k '\n' = P at *
  have hbk : pb.kind.isParagraphBreak = true := by rw [hpb]; rfl
  have ePD' : document cls extPD (P ++ D) = .ok ((A0 ++ [pb]) ++ shiftDoc P.length (A0 ++ [pb]).length td) := ePD
  refine ⟨lintBy iterParagraphs r P (A0 ++ [pb]), lintBy iterParagraphs r D td, ?_, ?_, ?_⟩
  · simp only [lintDoc, eP, Except.map]
  · simp only [lintDoc, eD, Except.map]
  · simp only [lintDoc, ePD', Except.map]
    rw [lint_append r hr P D A0 pb hbk td _ hin rfl]

/-- **C12 for a group of paragraph-local rules, end to end**: the lints of the group on `P ++ D`
are the lints on `P` together with the lints on `D` moved by `|P|` — the same lints; only the
interleaving of the rule-by-rule concatenation differs (`List.Perm`). -/
theorem paragraphs_separately_group (cls : Cls) (hc : ClsOK cls) (P0 D : List Char) (k : Nat) (hk : 2 ≤ k)
    (hend : NoNlEnd P0) (hD : D.head? ≠ some '\n') (hq : NoQuoteChars (P0 ++ List.replicate k '\n'))
    (extP extD extPD : Ext) (hloc : ExtLocal extP extD extPD (P0 ++ List.replicate k '\n').length)
    (hokP : ExtOK extP (P0 ++ List.replicate k '\n').length) (hokD : ExtOK extD D.length)
    (hnl : ExtNoNl extP (P0 ++ List.replicate k '\n'))
    (rs : List Rule) (hrs : ∀ r ∈ rs, XLocal r) :
    ∃ lp ld lpd, lintGroupDoc cls extP iterParagraphs rs (P0 ++ List.replicate k '\n') = .ok lp ∧
      lintGroupDoc cls extD iterParagraphs rs D = .ok ld ∧
      lintGroupDoc cls extPD iterParagraphs rs ((P0 ++ List.replicate k '\n') ++ D) = .ok lpd ∧
      lpd.Perm (lp ++ shiftLints (P0 ++ List.replicate k '\n').length ld) := by
  obtain ⟨A0, pb, td, hpb, eP, eD, ePD, hin⟩ :=
    document_append cls hc P0 D k hk hend hD hq extP extD extPD hloc hokP hokD hnl
  generalize P0 ++ List.replicate k '\n' = P at *
  have hbk : pb.kind.isParagraphBreak = true := by rw [hpb]; rfl
  have ePD' : document cls extPD (P ++ D) = .ok ((A0 ++ [pb]) ++ shiftDoc P.length (A0 ++ [pb]).length td) := ePD
  refine ⟨lintGroup iterParagraphs rs P (A0 ++ [pb]), lintGroup iterParagraphs rs D td,
    lintGroup iterParagraphs rs (P ++ D) ((A0 ++ [pb]) ++ shiftDoc P.length (A0 ++ [pb]).length td), ?_, ?_, ?_, ?_⟩
  · simp only [lintGroupDoc, eP, Except.map]
  · simp only [lintGroupDoc, eD, Except.map]
  · simp only [lintGroupDoc, ePD', Except.map]
  · exact lintGroup_append rs hrs P D A0 pb hbk td _ hin rfl

/-- `XLocal` is satisfiable by a rule that reports something: flag every one-character word -/
def shortWords : Rule := fun _ piece =>
  (piece.filter fun t => t.kind.isWord && t.span.len == 1).map fun t => ⟨t.span, 0⟩

example : XLocal shortWords where
  nil := fun _ => rfl
  left := fun _ _ _ _ => rfl
  right := by
    intro P D piece j
    induction piece with
    | nil => rfl
    | cons t ts ih =>
      have hw : (shiftTwin j t.kind).isWord = t.kind.isWord := by
        cases t.kind <;> try rfl
        rename_i tw; cases tw <;> rfl
      have hl : (⟨t.span.start + P.length, t.span.stop + P.length⟩ : Span).len = t.span.len := by
        simp only [Span.len]; omega
      simp only [shortWords, shiftDoc, List.map_cons, List.filter_cons, hw, hl] at ih ⊢
      split
      · simp only [List.map_cons, shiftLints, List.cons.injEq, true_and]
        exact ih
      · exact ih

/-- a rule that looks at the position in the whole text is not `XLocal` -/
example : ¬ XLocal (fun _ piece => piece.filterMap fun t => if t.span.start = 0 then some ⟨t.span, 0⟩ else none) := by
  intro h
  have := h.right ['a'] ['b'] [⟨⟨0, 1⟩, .word⟩] 0
  simp [shiftDoc, shiftLints, shiftTwin] at this

/-! ## non-vacuity of the theorems on pieces and rules, and the `Consequently` clause -/

/-- non-vacuity of `iterParagraphs_append` / `iterSentences_append` / `iterChunks_append` (and of
`isSentenceTerminator_of_break`, `isChunkTerminator_of_break`): `a, b.¶¶` followed by `c. d` -/
example : iterChunks (([⟨⟨0, 1⟩, .word⟩, ⟨⟨1, 2⟩, .punct .Comma⟩, ⟨⟨2, 3⟩, .space 1⟩, ⟨⟨3, 4⟩, .word⟩, ⟨⟨4, 5⟩, .punct .Period⟩] ++
        [⟨⟨5, 7⟩, .paragraphBreak⟩]) ++ [⟨⟨7, 8⟩, .word⟩, ⟨⟨8, 9⟩, .punct .Period⟩, ⟨⟨9, 10⟩, .space 1⟩, ⟨⟨10, 11⟩, .word⟩]) =
    iterChunks ([⟨⟨0, 1⟩, .word⟩, ⟨⟨1, 2⟩, .punct .Comma⟩, ⟨⟨2, 3⟩, .space 1⟩, ⟨⟨3, 4⟩, .word⟩, ⟨⟨4, 5⟩, .punct .Period⟩] ++
        [⟨⟨5, 7⟩, .paragraphBreak⟩]) ++
      (if [(⟨⟨7, 8⟩, .word⟩ : Tok), ⟨⟨8, 9⟩, .punct .Period⟩, ⟨⟨9, 10⟩, .space 1⟩, ⟨⟨10, 11⟩, .word⟩].isEmpty then []
        else iterChunks [⟨⟨7, 8⟩, .word⟩, ⟨⟨8, 9⟩, .punct .Period⟩, ⟨⟨9, 10⟩, .space 1⟩, ⟨⟨10, 11⟩, .word⟩]) :=
  iterChunks_append _ ⟨⟨5, 7⟩, .paragraphBreak⟩ rfl _

example : (iterParagraphs (([⟨⟨0, 1⟩, .word⟩, ⟨⟨1, 2⟩, .punct .Comma⟩, ⟨⟨2, 3⟩, .space 1⟩, ⟨⟨3, 4⟩, .word⟩, ⟨⟨4, 5⟩, .punct .Period⟩] ++
        [⟨⟨5, 7⟩, .paragraphBreak⟩]) ++ [⟨⟨7, 8⟩, .word⟩, ⟨⟨8, 9⟩, .punct .Period⟩, ⟨⟨9, 10⟩, .space 1⟩, ⟨⟨10, 11⟩, .word⟩])).length = 2 ∧
    (iterSentences (([⟨⟨0, 1⟩, .word⟩, ⟨⟨1, 2⟩, .punct .Comma⟩, ⟨⟨2, 3⟩, .space 1⟩, ⟨⟨3, 4⟩, .word⟩, ⟨⟨4, 5⟩, .punct .Period⟩] ++
        [⟨⟨5, 7⟩, .paragraphBreak⟩]) ++ [⟨⟨7, 8⟩, .word⟩, ⟨⟨8, 9⟩, .punct .Period⟩, ⟨⟨9, 10⟩, .space 1⟩, ⟨⟨10, 11⟩, .word⟩])).length = 4 ∧
    (iterChunks (([⟨⟨0, 1⟩, .word⟩, ⟨⟨1, 2⟩, .punct .Comma⟩, ⟨⟨2, 3⟩, .space 1⟩, ⟨⟨3, 4⟩, .word⟩, ⟨⟨4, 5⟩, .punct .Period⟩] ++
        [⟨⟨5, 7⟩, .paragraphBreak⟩]) ++ [⟨⟨7, 8⟩, .word⟩, ⟨⟨8, 9⟩, .punct .Period⟩, ⟨⟨9, 10⟩, .space 1⟩, ⟨⟨10, 11⟩, .word⟩])).length = 5 := by
  decide

/-- `shortWords` is `XLocal` (the `example` above, named so that the witnesses below can apply the theorems) -/
theorem shortWords_xlocal : XLocal shortWords where
  nil := fun _ => rfl
  left := fun _ _ _ _ => rfl
  right := by
    intro P D piece j
    induction piece with
    | nil => rfl
    | cons t ts ih =>
      have hw : (shiftTwin j t.kind).isWord = t.kind.isWord := by
        cases t.kind <;> try rfl
        rename_i tw; cases tw <;> rfl
      have hl : (⟨t.span.start + P.length, t.span.stop + P.length⟩ : Span).len = t.span.len := by
        simp only [Span.len]; omega
      simp only [shortWords, shiftDoc, List.map_cons, List.filter_cons, hw, hl] at ih ⊢
      split
      · simp only [List.map_cons, shiftLints, List.cons.injEq, true_and]
        exact ih
      · exact ih

/-- non-vacuity of `lint_append` / `lint_append_sentences` / `lint_append_chunks` / `lintGroup_append`: all four
hypotheses together on the documents of `a bc.¶¶` and `de f`, a rule that reports in BOTH paragraphs -/
example : lintBy iterParagraphs shortWords (['a', ' ', 'b', 'c', '.', '\n', '\n'] ++ ['d', 'e', ' ', 'f'])
      (([⟨⟨0, 1⟩, .word⟩, ⟨⟨1, 2⟩, .space 1⟩, ⟨⟨2, 4⟩, .word⟩, ⟨⟨4, 5⟩, .punct .Period⟩] ++ [⟨⟨5, 7⟩, .paragraphBreak⟩]) ++
        shiftDoc 7 5 [⟨⟨0, 2⟩, .word⟩, ⟨⟨2, 3⟩, .space 1⟩, ⟨⟨3, 4⟩, .word⟩]) =
    lintBy iterParagraphs shortWords ['a', ' ', 'b', 'c', '.', '\n', '\n']
        ([⟨⟨0, 1⟩, .word⟩, ⟨⟨1, 2⟩, .space 1⟩, ⟨⟨2, 4⟩, .word⟩, ⟨⟨4, 5⟩, .punct .Period⟩] ++ [⟨⟨5, 7⟩, .paragraphBreak⟩]) ++
      shiftLints 7 (lintBy iterParagraphs shortWords ['d', 'e', ' ', 'f'] [⟨⟨0, 2⟩, .word⟩, ⟨⟨2, 3⟩, .space 1⟩, ⟨⟨3, 4⟩, .word⟩]) :=
  lint_append shortWords shortWords_xlocal ['a', ' ', 'b', 'c', '.', '\n', '\n'] ['d', 'e', ' ', 'f'] _ ⟨⟨5, 7⟩, .paragraphBreak⟩ rfl
    [⟨⟨0, 2⟩, .word⟩, ⟨⟨2, 3⟩, .space 1⟩, ⟨⟨3, 4⟩, .word⟩] _ (by decide) rfl

/-- … the lints it speaks about: `a` at 0..1 in the first paragraph, `f` at 10..11 in the second -/
example : lintBy iterParagraphs shortWords (['a', ' ', 'b', 'c', '.', '\n', '\n'] ++ ['d', 'e', ' ', 'f'])
      (([⟨⟨0, 1⟩, .word⟩, ⟨⟨1, 2⟩, .space 1⟩, ⟨⟨2, 4⟩, .word⟩, ⟨⟨4, 5⟩, .punct .Period⟩] ++ [⟨⟨5, 7⟩, .paragraphBreak⟩]) ++
        shiftDoc 7 5 [⟨⟨0, 2⟩, .word⟩, ⟨⟨2, 3⟩, .space 1⟩, ⟨⟨3, 4⟩, .word⟩]) = [⟨⟨0, 1⟩, 0⟩, ⟨⟨10, 11⟩, 0⟩] := by decide

example : (lintGroup iterParagraphs [shortWords, shortWords] (['a', ' ', 'b', 'c', '.', '\n', '\n'] ++ ['d', 'e', ' ', 'f'])
      (([⟨⟨0, 1⟩, .word⟩, ⟨⟨1, 2⟩, .space 1⟩, ⟨⟨2, 4⟩, .word⟩, ⟨⟨4, 5⟩, .punct .Period⟩] ++ [⟨⟨5, 7⟩, .paragraphBreak⟩]) ++
        shiftDoc 7 5 [⟨⟨0, 2⟩, .word⟩, ⟨⟨2, 3⟩, .space 1⟩, ⟨⟨3, 4⟩, .word⟩])).Perm
    (lintGroup iterParagraphs [shortWords, shortWords] ['a', ' ', 'b', 'c', '.', '\n', '\n']
        ([⟨⟨0, 1⟩, .word⟩, ⟨⟨1, 2⟩, .space 1⟩, ⟨⟨2, 4⟩, .word⟩, ⟨⟨4, 5⟩, .punct .Period⟩] ++ [⟨⟨5, 7⟩, .paragraphBreak⟩]) ++
      shiftLints 7 (lintGroup iterParagraphs [shortWords, shortWords] ['d', 'e', ' ', 'f'] [⟨⟨0, 2⟩, .word⟩, ⟨⟨2, 3⟩, .space 1⟩, ⟨⟨3, 4⟩, .word⟩])) :=
  lintGroup_append [shortWords, shortWords] (by intro r hr; simp at hr; subst hr; exact shortWords_xlocal)
    ['a', ' ', 'b', 'c', '.', '\n', '\n'] ['d', 'e', ' ', 'f'] _ ⟨⟨5, 7⟩, .paragraphBreak⟩ rfl
    [⟨⟨0, 2⟩, .word⟩, ⟨⟨2, 3⟩, .space 1⟩, ⟨⟨3, 4⟩, .word⟩] _ (by decide) rfl

/-- the group's order really differs (why `lintGroup_append` is a permutation and not an equation): rule by rule
on the whole is `P D P D`, separately it is `P P D D` -/
example : lintGroup iterParagraphs [shortWords, shortWords] (['a', ' ', 'b', 'c', '.', '\n', '\n'] ++ ['d', 'e', ' ', 'f'])
      (([⟨⟨0, 1⟩, .word⟩, ⟨⟨1, 2⟩, .space 1⟩, ⟨⟨2, 4⟩, .word⟩, ⟨⟨4, 5⟩, .punct .Period⟩] ++ [⟨⟨5, 7⟩, .paragraphBreak⟩]) ++
        shiftDoc 7 5 [⟨⟨0, 2⟩, .word⟩, ⟨⟨2, 3⟩, .space 1⟩, ⟨⟨3, 4⟩, .word⟩]) =
      [⟨⟨0, 1⟩, 0⟩, ⟨⟨10, 11⟩, 0⟩, ⟨⟨0, 1⟩, 0⟩, ⟨⟨10, 11⟩, 0⟩] := by decide

/-- non-vacuity of `paragraphs_separately`: every hypothesis together, from the CHARACTERS `a bc.¶¶` and `de f`
(real words in both, lints in both), the theorem applied -/
example : ∃ lp ld, lintDoc asciiCls (fun _ => none) iterParagraphs shortWords (['a', ' ', 'b', 'c', '.'] ++ List.replicate 2 '\n') = .ok lp ∧
    lintDoc asciiCls (fun _ => none) iterParagraphs shortWords ['d', 'e', ' ', 'f'] = .ok ld ∧
    lintDoc asciiCls (fun _ => none) iterParagraphs shortWords ((['a', ' ', 'b', 'c', '.'] ++ List.replicate 2 '\n') ++ ['d', 'e', ' ', 'f']) =
      .ok (lp ++ shiftLints (['a', ' ', 'b', 'c', '.'] ++ List.replicate 2 '\n').length ld) :=
  paragraphs_separately asciiCls asciiCls_clsOK ['a', ' ', 'b', 'c', '.'] ['d', 'e', ' ', 'f'] 2 (by decide) (by decide) (by decide)
    (by decide) _ _ _ ⟨fun _ _ => rfl, fun _ => rfl⟩ (fun _ _ _ h => by cases h) (fun _ _ _ h => by cases h)
    (fun _ _ _ h => by cases h) shortWords shortWords_xlocal

/-- … and the three lint lists it speaks about, computed: one lint in each paragraph -/
example : (lintDoc asciiCls (fun _ => none) iterParagraphs shortWords (['a', ' ', 'b', 'c', '.'] ++ List.replicate 2 '\n')).toOption = some [⟨⟨0, 1⟩, 0⟩] ∧
    (lintDoc asciiCls (fun _ => none) iterParagraphs shortWords ['d', 'e', ' ', 'f']).toOption = some [⟨⟨3, 4⟩, 0⟩] ∧
    (lintDoc asciiCls (fun _ => none) iterParagraphs shortWords
      ((['a', ' ', 'b', 'c', '.'] ++ List.replicate 2 '\n') ++ ['d', 'e', ' ', 'f'])).toOption = some [⟨⟨0, 1⟩, 0⟩, ⟨⟨10, 11⟩, 0⟩] := by decide

/-- non-vacuity of `paragraphs_separately_group` on the same texts -/
example : ∃ lp ld lpd, lintGroupDoc asciiCls (fun _ => none) iterParagraphs [shortWords, shortWords] (['a', ' ', 'b', 'c', '.'] ++ List.replicate 2 '\n') = .ok lp ∧
    lintGroupDoc asciiCls (fun _ => none) iterParagraphs [shortWords, shortWords] ['d', 'e', ' ', 'f'] = .ok ld ∧
    lintGroupDoc asciiCls (fun _ => none) iterParagraphs [shortWords, shortWords]
      ((['a', ' ', 'b', 'c', '.'] ++ List.replicate 2 '\n') ++ ['d', 'e', ' ', 'f']) = .ok lpd ∧
    lpd.Perm (lp ++ shiftLints (['a', ' ', 'b', 'c', '.'] ++ List.replicate 2 '\n').length ld) :=
  paragraphs_separately_group asciiCls asciiCls_clsOK ['a', ' ', 'b', 'c', '.'] ['d', 'e', ' ', 'f'] 2 (by decide) (by decide) (by decide)
    (by decide) _ _ _ ⟨fun _ _ => rfl, fun _ => rfl⟩ (fun _ _ _ h => by cases h) (fun _ _ _ h => by cases h)
    (fun _ _ _ h => by cases h) _ (by intro r hr; simp at hr; subst hr; exact shortWords_xlocal)

/-! ## "editing one paragraph never changes, moves or hides a lint in another paragraph" -/

/-- **The second sentence of C12, for a paragraph-local rule.** Two texts with the same continuation `D` behind
different first paragraphs `P`, `P'`: both report exactly the SAME lints `ld` for `D` (those of `D` checked alone),
moved by `|P|` resp. `|P'|` — none changed, none hidden, none added, and moved only by the change of length. -/
theorem edit_first_paragraph (cls : Cls) (hc : ClsOK cls) (P0 P0' D : List Char) (k k' : Nat) (hk : 2 ≤ k) (hk' : 2 ≤ k')
    (hend : NoNlEnd P0) (hend' : NoNlEnd P0') (hD : D.head? ≠ some '\n')
    (hq : NoQuoteChars (P0 ++ List.replicate k '\n')) (hq' : NoQuoteChars (P0' ++ List.replicate k' '\n'))
    (extP extP' extD extPD extPD' : Ext)
    (hloc : ExtLocal extP extD extPD (P0 ++ List.replicate k '\n').length)
    (hloc' : ExtLocal extP' extD extPD' (P0' ++ List.replicate k' '\n').length)
    (hokP : ExtOK extP (P0 ++ List.replicate k '\n').length) (hokP' : ExtOK extP' (P0' ++ List.replicate k' '\n').length)
    (hokD : ExtOK extD D.length)
    (hnl : ExtNoNl extP (P0 ++ List.replicate k '\n')) (hnl' : ExtNoNl extP' (P0' ++ List.replicate k' '\n'))
    (r : Rule) (hr : XLocal r) :
    ∃ lp lp' ld, lintDoc cls extD iterParagraphs r D = .ok ld ∧
      lintDoc cls extP iterParagraphs r (P0 ++ List.replicate k '\n') = .ok lp ∧
      lintDoc cls extP' iterParagraphs r (P0' ++ List.replicate k' '\n') = .ok lp' ∧
      lintDoc cls extPD iterParagraphs r ((P0 ++ List.replicate k '\n') ++ D) =
        .ok (lp ++ shiftLints (P0 ++ List.replicate k '\n').length ld) ∧
      lintDoc cls extPD' iterParagraphs r ((P0' ++ List.replicate k' '\n') ++ D) =
        .ok (lp' ++ shiftLints (P0' ++ List.replicate k' '\n').length ld) := by
  obtain ⟨lp, ld, e1, e2, e3⟩ := paragraphs_separately cls hc P0 D k hk hend hD hq extP extD extPD hloc hokP hokD hnl r hr
  obtain ⟨lp', ld', e1', e2', e3'⟩ :=
    paragraphs_separately cls hc P0' D k' hk' hend' hD hq' extP' extD extPD' hloc' hokP' hokD hnl' r hr
  rw [e2] at e2'
  cases e2'
  exact ⟨lp, lp', ld, e2, e1, e1', e3, e3'⟩

/-- … and the other way round: changing the text AFTER the paragraph break changes no lint of the first
paragraph, not even its place. -/
theorem edit_later_text (cls : Cls) (hc : ClsOK cls) (P0 D D' : List Char) (k : Nat) (hk : 2 ≤ k)
    (hend : NoNlEnd P0) (hD : D.head? ≠ some '\n') (hD' : D'.head? ≠ some '\n')
    (hq : NoQuoteChars (P0 ++ List.replicate k '\n'))
    (extP extD extD' extPD extPD' : Ext)
    (hloc : ExtLocal extP extD extPD (P0 ++ List.replicate k '\n').length)
    (hloc' : ExtLocal extP extD' extPD' (P0 ++ List.replicate k '\n').length)
    (hokP : ExtOK extP (P0 ++ List.replicate k '\n').length) (hokD : ExtOK extD D.length) (hokD' : ExtOK extD' D'.length)
    (hnl : ExtNoNl extP (P0 ++ List.replicate k '\n'))
    (r : Rule) (hr : XLocal r) :
    ∃ lp ld ld', lintDoc cls extP iterParagraphs r (P0 ++ List.replicate k '\n') = .ok lp ∧
      lintDoc cls extD iterParagraphs r D = .ok ld ∧ lintDoc cls extD' iterParagraphs r D' = .ok ld' ∧
      lintDoc cls extPD iterParagraphs r ((P0 ++ List.replicate k '\n') ++ D) =
        .ok (lp ++ shiftLints (P0 ++ List.replicate k '\n').length ld) ∧
      lintDoc cls extPD' iterParagraphs r ((P0 ++ List.replicate k '\n') ++ D') =
        .ok (lp ++ shiftLints (P0 ++ List.replicate k '\n').length ld') := by
  obtain ⟨lp, ld, e1, e2, e3⟩ := paragraphs_separately cls hc P0 D k hk hend hD hq extP extD extPD hloc hokP hokD hnl r hr
  obtain ⟨lp', ld', e1', e2', e3'⟩ :=
    paragraphs_separately cls hc P0 D' k hk hend hD' hq extP extD' extPD' hloc' hokP hokD' hnl r hr
  rw [e1] at e1'
  cases e1'
  exact ⟨lp, ld, ld', e1, e2, e2', e3, e3'⟩

/-- non-vacuity of `edit_first_paragraph`: `a bc.¶¶` edited to `x y z.¶¶¶`, the continuation `de f` unchanged —
its lint `f` is reported at 10..11 before and at 13..14 after the edit (moved by the change of length, 3) -/
example : (lintDoc asciiCls (fun _ => none) iterParagraphs shortWords
      ((['a', ' ', 'b', 'c', '.'] ++ List.replicate 2 '\n') ++ ['d', 'e', ' ', 'f'])).toOption = some [⟨⟨0, 1⟩, 0⟩, ⟨⟨10, 11⟩, 0⟩] ∧
    (lintDoc asciiCls (fun _ => none) iterParagraphs shortWords
      ((['x', ' ', 'y', ' ', 'z', 'w', '.'] ++ List.replicate 3 '\n') ++ ['d', 'e', ' ', 'f'])).toOption =
      some [⟨⟨0, 1⟩, 0⟩, ⟨⟨2, 3⟩, 0⟩, ⟨⟨13, 14⟩, 0⟩] := by decide

example : ∃ lp lp' ld, lintDoc asciiCls (fun _ => none) iterParagraphs shortWords ['d', 'e', ' ', 'f'] = .ok ld ∧
    lintDoc asciiCls (fun _ => none) iterParagraphs shortWords (['a', ' ', 'b', 'c', '.'] ++ List.replicate 2 '\n') = .ok lp ∧
    lintDoc asciiCls (fun _ => none) iterParagraphs shortWords (['x', ' ', 'y', ' ', 'z', 'w', '.'] ++ List.replicate 3 '\n') = .ok lp' ∧
    lintDoc asciiCls (fun _ => none) iterParagraphs shortWords ((['a', ' ', 'b', 'c', '.'] ++ List.replicate 2 '\n') ++ ['d', 'e', ' ', 'f']) =
      .ok (lp ++ shiftLints (['a', ' ', 'b', 'c', '.'] ++ List.replicate 2 '\n').length ld) ∧
    lintDoc asciiCls (fun _ => none) iterParagraphs shortWords ((['x', ' ', 'y', ' ', 'z', 'w', '.'] ++ List.replicate 3 '\n') ++ ['d', 'e', ' ', 'f']) =
      .ok (lp' ++ shiftLints (['x', ' ', 'y', ' ', 'z', 'w', '.'] ++ List.replicate 3 '\n').length ld) :=
  edit_first_paragraph asciiCls asciiCls_clsOK ['a', ' ', 'b', 'c', '.'] ['x', ' ', 'y', ' ', 'z', 'w', '.'] ['d', 'e', ' ', 'f'] 2 3
    (by decide) (by decide) (by decide) (by decide) (by decide) (by decide) (by decide)
    (fun _ => none) (fun _ => none) (fun _ => none) (fun _ => none) (fun _ => none)
    ⟨fun _ _ => rfl, fun _ => rfl⟩ ⟨fun _ _ => rfl, fun _ => rfl⟩ (fun _ _ _ h => by cases h) (fun _ _ _ h => by cases h)
    (fun _ _ _ h => by cases h) (fun _ _ _ h => by cases h) (fun _ _ _ h => by cases h) shortWords shortWords_xlocal

/-- non-vacuity of `edit_later_text`: `de f` edited to `g`: the first paragraph's lint stays at 0..1 -/
example : ∃ lp ld ld', lintDoc asciiCls (fun _ => none) iterParagraphs shortWords (['a', ' ', 'b', 'c', '.'] ++ List.replicate 2 '\n') = .ok lp ∧
    lintDoc asciiCls (fun _ => none) iterParagraphs shortWords ['d', 'e', ' ', 'f'] = .ok ld ∧
    lintDoc asciiCls (fun _ => none) iterParagraphs shortWords ['g'] = .ok ld' ∧
    lintDoc asciiCls (fun _ => none) iterParagraphs shortWords ((['a', ' ', 'b', 'c', '.'] ++ List.replicate 2 '\n') ++ ['d', 'e', ' ', 'f']) =
      .ok (lp ++ shiftLints (['a', ' ', 'b', 'c', '.'] ++ List.replicate 2 '\n').length ld) ∧
    lintDoc asciiCls (fun _ => none) iterParagraphs shortWords ((['a', ' ', 'b', 'c', '.'] ++ List.replicate 2 '\n') ++ ['g']) =
      .ok (lp ++ shiftLints (['a', ' ', 'b', 'c', '.'] ++ List.replicate 2 '\n').length ld') :=
  edit_later_text asciiCls asciiCls_clsOK ['a', ' ', 'b', 'c', '.'] ['d', 'e', ' ', 'f'] ['g'] 2
    (by decide) (by decide) (by decide) (by decide) (by decide) (fun _ => none) (fun _ => none) (fun _ => none) (fun _ => none) (fun _ => none)
    ⟨fun _ _ => rfl, fun _ => rfl⟩ ⟨fun _ _ => rfl, fun _ => rfl⟩ (fun _ _ _ h => by cases h) (fun _ _ _ h => by cases h)
    (fun _ _ _ h => by cases h) (fun _ _ _ h => by cases h) shortWords shortWords_xlocal

end Harper.C12
