import Harper.Lemmas.Mask
/-!
# C04 — only prose is checked, and it is located at its true position in the file

What is proved here is the *offset glue* between a third-party parser (or a line convention) and
Harper's char-indexed tokens, with the third-party outputs as universally quantified data:

* `byteToChar_exact`     tree-sitter byte ranges → char spans (`byte_spans_to_char_spans`);
* `pushAllowed_maintains`, `pushAllowed_panics_iff`, `mergeWhitespaceSep_maintains`  the `Mask`
  invariant (sorted, disjoint, in bounds);
* `maskParse_inbounds_sorted`, `maskParse_faithful`   `parsers::Mask::parse`;
* `withoutInitiators_wf`, `unitParse_faithful`        comment leaders, per-line offsets;
* `parseInlineTag_terminates`, `markInlineTags_terminates`   the JSDoc inline-tag scanner;
* `javadocMark_spec`, `javadocMark_last_window`       the JavaDoc `@tag argument` loop;
* `lhsMask_safe`, `lhsMask_classifies`                the Literate Haskell masker;
* `gitCommit_prefix`                                  the commit-message cut;
* `offsetCursor_exact`, `markdownOffsets_exact`       the Typst cursor and Markdown's
  `traversed_bytes/traversed_chars` pair.

What a grammar calls a comment, what pulldown-cmark calls a paragraph, and the Typst translator are
*not* modelled: they are explored against generator ground truth by the harness (`c04.rs`).
-/
namespace Harper.C04
open Harper

/-! ## (a) byte ranges → char spans -/

/-- For byte ranges that — after the sort and the `retain` step — are the byte offsets of an
increasing, pairwise disjoint list of *character* ranges `cs` of a well-formed UTF-8 text (given as
per-character byte groups), `byte_spans_to_char_spans` does not panic and returns exactly those
character ranges; they are in bounds, well-formed, increasing and disjoint. -/
theorem byteToChar_exact (gs : List (List Nat)) (hwf : ∀ g ∈ gs, WFGroup g) (spans : List Span)
    (cs : List (Nat × Nat)) (hret : retainStep (sortByStart spans) = cs.map (toByteSpan gs))
    (hc : CharChain gs.length 0 cs) :
    byteSpansToCharSpans gs.flatten spans = .ok (cs.map toCharSpan) ∧
      (∀ s ∈ cs.map toCharSpan, s.start ≤ s.stop ∧ s.stop ≤ gs.length) ∧
      (cs.map toCharSpan).Pairwise (fun x y => x.stop ≤ y.start) := by
  have h1 := convLoop_chain hwf cs 0 (Nat.zero_le _) hc
  rw [byteOff_zero] at h1
  obtain ⟨h2, h3⟩ := chain_pairwise gs.length cs 0 hc
  refine ⟨by unfold byteSpansToCharSpans; rw [hret]; exact h1, ?_, h3⟩
  intro s hs
  obtain ⟨p, hp, rfl⟩ := List.mem_map.mp hs
  have := h2 p hp
  simp [toCharSpan]; omega

/-- ranges that arrive already sorted and disjoint pass the sort and the `retain` step unchanged -/
theorem byteToChar_exact_sorted (gs : List (List Nat)) (hwf : ∀ g ∈ gs, WFGroup g)
    (cs : List (Nat × Nat)) (hc : CharChain gs.length 0 cs) :
    byteSpansToCharSpans gs.flatten (cs.map (toByteSpan gs)) = .ok (cs.map toCharSpan) := by
  obtain ⟨h1, h2⟩ := chain_spanStartSorted gs cs 0 hc
  refine (byteToChar_exact gs hwf _ cs ?_ hc).1
  rw [sortByStart_sorted _ h1, retainStep_abutting _ h2]

/-- "aé😀b": one, two, four and one byte -/
def sampleGroups : List (List Nat) := [[97], [195, 169], [240, 159, 152, 128], [98]]

example : ∀ g ∈ sampleGroups, WFGroup g := by
  intro g hg
  simp [sampleGroups] at hg
  rcases hg with rfl | rfl | rfl | rfl <;> exact ⟨_, _, rfl, by decide, by decide⟩

example : CharChain sampleGroups.length 0 [(1, 2), (2, 3)] := by simp [CharChain, sampleGroups]

/-- the ranges of `é` and `😀` (bytes 1..3 and 3..7), given out of order, with a nested duplicate -/
example : byteSpansToCharSpans sampleGroups.flatten [⟨3, 7⟩, ⟨1, 3⟩, ⟨3, 7⟩] = .ok [⟨1, 2⟩, ⟨2, 3⟩] := by
  decide

/-- a range that is not on a character boundary is a slice panic, as in Rust -/
example : byteSpansToCharSpans sampleGroups.flatten [⟨2, 3⟩] = .error .sliceOOB := by decide

/-- the `retain` step compares with the previous element of the *unfiltered* list: three ranges
nested under a retained one make the loop slice backwards (`source[10..3]`) -/
example : byteSpansToCharSpans (List.replicate 10 97) [⟨0, 10⟩, ⟨2, 3⟩, ⟨3, 10⟩] = .error .sliceOOB := by
  decide

/-! ## (b) the mask and the `Mask` parser -/

/-- `push_allowed` keeps the invariant when the new span does not start before the last one ends -/
theorem pushAllowed_maintains (n : Nat) (m : List Span) (a : Span) (hm : MaskOK n m)
    (ha : a.start ≤ a.stop) (hn : a.stop ≤ n) (hl : ∀ l, m.getLast? = some l → l.stop ≤ a.start) :
    ∃ m', pushAllowed m a = .ok m' ∧ MaskOK n m' :=
  let ⟨m', h1, h2, _⟩ := pushAllowed_ok hm ha hn hl
  ⟨m', h1, h2⟩

/-- … and otherwise it panics (the `assert!`), it never silently stores an overlapping span -/
theorem pushAllowed_panics_iff (m : List Span) (a : Span) :
    pushAllowed m a = .error .assertFail ↔ ∃ l, m.getLast? = some l ∧ a.start < l.stop :=
  Harper.pushAllowed_panics_iff m a

/-- `merge_whitespace_sep` terminates without panic and keeps the invariant -/
theorem mergeWhitespaceSep_maintains (isWs : Char → Bool) (src : List Char) (m : List Span)
    (hm : MaskOK src.length m) :
    ∃ m', mergeWhitespaceSep isWs src (m.length + 1) m = .ok m' ∧ MaskOK src.length m' :=
  mergeWhitespaceSep_ok isWs src (m.length + 1) m (Nat.lt_succ_self _) hm

example : MaskOK 14 [⟨0, 4⟩, ⟨5, 9⟩, ⟨10, 14⟩] := by
  refine ⟨?_, by simp⟩
  intro s hs; simp at hs; rcases hs with rfl | rfl | rfl <;> simp

/-- the test `merges_whitespace_sep` of mask/mod.rs -/
example : mergeWhitespaceSep (fun c => c == ' ' || c == '\n')
    ['w','o','r','d',' ','w','o','r','d','\n','w','o','r','d'] 4 [⟨0, 4⟩, ⟨5, 9⟩, ⟨10, 14⟩] = .ok [⟨0, 14⟩] := by
  decide

/-- Given the mask invariant and an inner parser that keeps its tokens inside the chunk it is given
and in order, `Mask::parse` does not panic, its tokens are inside the source and ordered — within a
chunk and across chunks (the paragraph break sits in the gap). -/
theorem maskParse_inbounds_sorted (src : List Char) (mask : List Span) (inner : List Char → List Tok)
    (hm : MaskOK src.length mask) (hin : InnerOK inner) :
    ∃ toks, maskParse src mask inner = .ok toks ∧
      (∀ t ∈ toks, t.span.start ≤ t.span.stop ∧ t.span.stop ≤ src.length) ∧
      toks.Pairwise (fun a b => a.span.stop ≤ b.span.start) := by
  obtain ⟨toks, h1, h2, h3, _⟩ := maskLoop_ok src inner hin mask none 0 hm (by simp) (by simp)
  exact ⟨toks, h1, fun t ht => (h2 t ht).2, h3⟩

/-- … and every token is a paragraph break or the shifted image of an inner token of a chunk that
is the text of the file at that offset: the file's text under the token is the text the inner
parser saw (`faithful_text`). -/
theorem maskParse_faithful (src : List Char) (mask : List Span) (inner : List Char → List Tok)
    (hm : MaskOK src.length mask) (hin : InnerOK inner) :
    ∃ toks, maskParse src mask inner = .ok toks ∧ Faithful inner src toks := by
  obtain ⟨toks, h1, _, _, h4⟩ := maskLoop_ok src inner hin mask none 0 hm (by simp) (by simp)
  exact ⟨toks, h1, h4⟩

/-- what `Faithful` buys: equal text under the shifted and the original token -/
theorem faithful_text (src chunk : List Char) (off : Nat) (t : Tok)
    (hc : chunk = (src.drop off).take chunk.length) (hb : t.span.stop ≤ chunk.length) :
    slice src (t.shift off).span = slice chunk t.span :=
  Harper.faithful_text t hc hb

/-- an inner parser for the examples: one `Word` over the whole chunk -/
def spy : List Char → List Tok := fun c => if c.isEmpty then [] else [⟨⟨0, c.length⟩, .word⟩]

example : InnerOK spy := by
  intro c
  unfold spy
  split <;> simp

/-- "é😀\nx" with the two lines allowed: tokens land at char offsets, the gap is a paragraph break -/
example : maskParse ['é', '😀', '\n', 'x'] [⟨0, 2⟩, ⟨3, 4⟩] spy =
    .ok [⟨⟨0, 2⟩, .word⟩, ⟨⟨2, 3⟩, .paragraphBreak⟩, ⟨⟨3, 4⟩, .word⟩] := by decide

/-! ## (c) comment leaders -/

/-- `without_initiators` never panics in `Span::new` and stays inside the line -/
theorem withoutInitiators_wf (isWs : Char → Bool) (src : List Char) :
    ∃ s, withoutInitiators isWs src = .ok s ∧ s.start ≤ s.stop ∧ s.stop ≤ src.length :=
  withoutInitiators_ok isWs src

example : withoutInitiators (· == ' ') ['/', '/', ' ', 'é', 'x', ' ', '*', '/'] = .ok ⟨3, 5⟩ := by decide
example : withoutInitiators (· == ' ') ['/', '/', '/', ' ', ' '] = .ok ⟨5, 5⟩ := by decide

/-- `Unit::parse` never panics; every token is either the line break after line `j`, at
`Σ_{j'<j}(len_j'+1) + len_j`, or the image of a token the inner parser produced at column `c` of
the stripped line `j`, landing at `Σ_{j'<j}(len_j'+1) + leader_j + c` (`UnitTokAt`); and the chunk
handed to the inner parser is the text of the file at that offset (`Faithful`). -/
theorem unitParse_faithful (isWs : Char → Bool) (src : List Char) (inner : List Char → List Tok) :
    ∃ toks, unitParse isWs src inner = .ok toks ∧ Faithful inner src toks ∧
      ∀ tok ∈ toks, UnitTokAt isWs inner (splitNl src) 0 tok := by
  have := unitLoop_ok isWs inner src (splitNl src) [] false (splitNl_ne_nil src)
    (by simp [joinNl_splitNl])
  simpa [unitParse] using this

/-- "// é\n  * 😀 x": the second line's tokens land after 5 characters of line one and its leader -/
example : unitParse (fun c => c == ' ') ['/', '/', ' ', 'é', '\n', ' ', ' ', '*', ' ', '😀', ' ', 'x'] spy =
    .ok [⟨⟨3, 4⟩, .word⟩, ⟨⟨4, 5⟩, .newline 1⟩, ⟨⟨9, 12⟩, .word⟩] := by decide

/-! ## JSDoc inline tags -/

/-- `parse_inline_tag` terminates (never out of fuel with `fuel = len + 1`) and a reported tag ends
inside the slice -/
theorem parseInlineTag_terminates (ks : List Kind) :
    ∃ r, parseInlineTag (ks.length + 1) ks = .ok r ∧ ∀ p, r = some p → p ≤ ks.length := by
  obtain ⟨r, h1, h2⟩ := parseInlineTag_ok ks (ks.length + 1) (Nat.lt_succ_self _)
  exact ⟨r, h1, fun p hp => (h2 p hp).2⟩

/-- `mark_inline_tags` terminates and neither adds nor drops tokens -/
theorem markInlineTags_terminates (toks : List Tok) :
    ∃ r, markInlineTags (toks.length + 1) toks 0 = .ok r ∧ r.length = toks.length :=
  markInlineTags_ok (toks.length + 1) toks 0 (Nat.zero_le _) (by omega)

/-- the unterminated `{@link` that used to hang: now `None` -/
example : parseInlineTag 4 [.punct .OpenCurly, .punct .At, .word] = .ok none := by decide
example : parseInlineTag 6 [.punct .OpenCurly, .punct .At, .word, .space 1, .word, .punct .CloseCurly, .word] =
    .ok (some 6) := by decide

/-! ## JavaDoc block tags, Go directives -/

/-- The block-tag loop of javadoc.rs (`for i in 3..len`, reading `tokens[i-3..=i]` of the current
vector): never indexes out of bounds; keeps the number of tokens and every span; every
`At Word Space Word` window of the token list — anywhere, THE LAST FOUR TOKENS INCLUDED — ends up
Unlintable; and a token that was changed lies in such a window and was only made Unlintable. -/
theorem javadocMark_spec (toks : List Tok) :
    ∃ r, javadocMark toks = .ok r ∧ r.length = toks.length ∧
      (∀ (j : Nat), WindowAt toks j → ∀ (k : Nat), k < 4 → r[j + k]? = (toks[j + k]?).map unl) ∧
      (∀ (k : Nat), r[k]? = toks[k]? ∨
        (r[k]? = (toks[k]?).map unl ∧ ∃ j, j ≤ k ∧ k < j + 4 ∧ WindowAt toks j)) := by
  refine ⟨jdScan toks, javadocMark_eq toks, jdScan_length toks,
    jdScan_window _ toks rfl, ?_⟩
  intro k
  by_cases h : (jdScan toks)[k]? = toks[k]?
  · exact Or.inl h
  · right
    refine ⟨?_, jdScan_unchanged _ toks rfl k h⟩
    rcases jdScan_get _ toks rfl k with h' | h'
    · exact absurd h' h
    · exact h'

/-- in particular the last window: a comment that ends in `@throws IOException` -/
theorem javadocMark_last_window (pre : List Tok) (a b c d : Tok) (h : tagWindow a b c d = true) :
    ∃ r, javadocMark (pre ++ [a, b, c, d]) = .ok r ∧
      r.drop pre.length = [unl a, unl b, unl c, unl d] := by
  obtain ⟨r, hr, hlen, hwin, _⟩ := javadocMark_spec (pre ++ [a, b, c, d])
  have hw : WindowAt (pre ++ [a, b, c, d]) pre.length := ⟨a, b, c, d, [], by simp, h⟩
  refine ⟨r, hr, ?_⟩
  apply List.ext_getElem?
  intro k
  by_cases hk : k < 4
  · have := hwin pre.length hw k hk
    rw [List.getElem?_drop, this, List.getElem?_append_right (by omega)]
    have : pre.length + k - pre.length = k := by omega
    rw [this]
    match k, hk with
    | 0, _ => rfl
    | 1, _ => rfl
    | 2, _ => rfl
    | 3, _ => rfl
  · rw [List.getElem?_eq_none (by simp [hlen]; omega), List.getElem?_eq_none (by simp; omega)]

def atT (s : Nat) : Tok := ⟨⟨s, s + 1⟩, .punct .At⟩
def wordT (s e : Nat) : Tok := ⟨⟨s, e⟩, .word⟩
def spaceT (s : Nat) : Tok := ⟨⟨s, s + 1⟩, .space 1⟩

example : tagWindow (atT 0) (wordT 1 4) (spaceT 4) (wordT 5 11) = true := by decide

/-- `/** @see Reader */`: exactly four tokens, all masked -/
example : javadocMark [atT 0, wordT 1 4, spaceT 4, wordT 5 11] =
    .ok [unl (atT 0), unl (wordT 1 4), unl (spaceT 4), unl (wordT 5 11)] := by decide

/-- `… fox\n@throws IOException` as the end of a comment: the last window is masked, the prose
before it is not -/
example : javadocMark [wordT 0 3, ⟨⟨3, 4⟩, .newline 1⟩, atT 4, wordT 5 11, spaceT 11, wordT 12 23] =
    .ok [wordT 0 3, ⟨⟨3, 4⟩, .newline 1⟩, unl (atT 4), unl (wordT 5 11), unl (spaceT 11), unl (wordT 12 23)] := by
  decide

/-- `@deprecated` alone (no argument) is not a window: left as it is -/
example : javadocMark [atT 0, wordT 1 11] = .ok [atT 0, wordT 1 11] := by decide

/-- Go: `//go:x` followed by an empty comment line: the start is moved past the end; before fix
`Span::try_get_content no longer underflows on an inverted span` this panicked in builds with
overflow checks (`Span::len` underflow); now the block yields no tokens -/
example : goParse (fun c => c == ' ' || c == '\n') ['/', '/', 'g', 'o', ':', 'x', '\n', '/', '/'] spy =
    .ok [] := by decide
/-- a directive block yields no tokens, whatever follows the directive -/
example : goParse (fun c => c == ' ' || c == '\n')
    ['/', '/', 'g', 'o', ':', 'x', '\n', '/', '/', ' ', 'a', 'b'] spy = .ok [] := by decide
example : goParse (fun c => c == ' ' || c == '\n') ['/', '/', ' ', 'a', 'b'] spy =
    .ok [⟨⟨3, 5⟩, .word⟩] := by decide

/-! ## (d) Literate Haskell -/

/-- the masker never panics (`Span::new`, the `push_allowed` assertion, the slices of
`merge_whitespace_sep`) and returns a mask satisfying the invariant — for every text -/
theorem lhsMask_safe (isWs : Char → Bool) (text code : Bool) (src : List Char) :
    ∃ m, lhsMask isWs text code src = .ok m ∧ MaskOK src.length m := by
  have h1 := lhsLoop_eq isWs text code (splitNl src) ⟨0, false, false⟩ [] (by simp)
  have h2 := lhsSelected_ok isWs text code src (splitNl src) [] ⟨0, false, false⟩ (splitNl_ne_nil src)
    (by simp [joinNl_splitNl]) rfl
  simp only [List.nil_append] at h1
  obtain ⟨m, h3, h4⟩ := mergeWhitespaceSep_ok isWs src _ _ (Nat.lt_succ_self _) h2
  exact ⟨m, by simp only [lhsMask, h1, bind, Except.bind]; exact h3, h4⟩

/-- Before whitespace merging, the allowed spans are exactly one span per line the state machine
(`lhsStep`) selects, in order, never fused; the span of a selected line `j` ends at the line's end
`loc_j + len_j` and starts at the line's start `loc_j`, or — only for a line beginning with `>` — at
`min (loc_j + 2) end` (the bird-track offset, clamped). -/
theorem lhsMask_classifies (isWs : Char → Bool) (text code : Bool) (src : List Char) :
    lhsLoop isWs text code ⟨0, false, false⟩ [] (splitNl src) =
      .ok ((lhsSelected isWs text code ⟨0, false, false⟩ (splitNl src)).map (fun p => ⟨p.1, p.2⟩)) ∧
    ∀ (st : LhsSt) (line : List Char) (a b : Nat), (lhsStep isWs text code st line).2 = some (a, b) →
      b = st.loc + line.length ∧ (a = st.loc ∨ (line.head? = some '>' ∧ a = min (st.loc + 2) b)) ∧
      (lhsStep isWs text code st line).1.loc = st.loc + line.length + 1 := by
  refine ⟨by simpa using lhsLoop_eq isWs text code (splitNl src) ⟨0, false, false⟩ [] (by simp), ?_⟩
  intro st line a b h
  have := lhsStep_props isWs text code st line
  exact ⟨(this.2 a b h).1, (this.2 a b h).2, this.1⟩

def ws (c : Char) : Bool := c == ' ' || c == '\n'

/-- "é\n\n> 😀\n\nb": the bird line is code; text mask = the two text lines -/
example : lhsMask ws true false ['é', '\n', '\n', '>', ' ', '😀', '\n', '\n', 'b'] = .ok [⟨0, 2⟩, ⟨8, 9⟩] := by
  decide
/-- … and the code mask starts two characters into the bird line -/
example : lhsMask ws false true ['é', '\n', '\n', '>', ' ', '😀', '\n', '\n', 'b'] = .ok [⟨5, 6⟩] := by decide
/-- the lone `>` that used to panic (`Span::new(2, 1)`): clamped to the line end -/
example : lhsMask ws true false ['>'] = .ok [⟨1, 1⟩] := by decide
/-- a blank line inside `\begin{code}` ends the code environment (recorded finding): `x` is text -/
example : lhsMask ws true false (beginCode ++ ['\n', 'a', '\n', '\n', 'x', '\n'] ++ endCode) =
    .ok [⟨16, 28⟩] := by decide

/-! ## (e) git commit -/

/-- The inner parser is run on the prefix of the message before the first `#`: that prefix is the
text of the file at offset 0 (so inner tokens need no shifting and are faithful), it contains no `#`,
and it is the whole text or is followed by `#`. -/
theorem gitCommit_prefix (inner : List Char → List Tok) (src : List Char) :
    gitCommitParse inner src = inner (gitCommitCut src) ∧
    gitCommitCut src = (src.drop 0).take (gitCommitCut src).length ∧
    '#' ∉ gitCommitCut src ∧
    (gitCommitCut src = src ∨ src[(gitCommitCut src).length]? = some '#') := by
  have hle := @List.findIdx_le_length _ (· == '#') src
  have hlen : (gitCommitCut src).length = src.findIdx (· == '#') := by
    simp only [gitCommitCut, List.length_take]; exact Nat.min_eq_left hle
  refine ⟨rfl, by simp [gitCommitCut], ?_, ?_⟩
  · intro hmem
    obtain ⟨i, hi, hget⟩ := List.mem_iff_getElem.mp hmem
    rw [hlen] at hi
    have := List.not_of_lt_findIdx hi
    simp [gitCommitCut, List.getElem_take] at hget
    simp [hget] at this
  · by_cases h : src.findIdx (· == '#') < src.length
    · right
      rw [hlen, List.getElem?_eq_getElem h]
      have := @List.findIdx_getElem _ (· == '#') src h
      simp at this
      rw [this]
    · left
      unfold gitCommitCut
      exact List.take_of_length_le (by omega)

example : gitCommitCut ['é', '😀', ' ', '#', 'x', '#'] = ['é', '😀', ' '] := by decide

/-! ## (f) cursors -/

/-- From the cursor of character `k` (`byte = byteOff k`), `push_to` the byte offset of character
`k' ≥ k` yields exactly the cursor of `k'`: the char field is the char index of the byte offset. -/
theorem offsetCursor_exact (gs : List (List Nat)) (hwf : ∀ g ∈ gs, WFGroup g) (k k' : Nat)
    (hk : k ≤ k') (hk' : k' ≤ gs.length) :
    Cursor.pushTo gs.flatten ⟨k, byteOff gs k⟩ (byteOff gs k') = .ok ⟨k', byteOff gs k'⟩ := by
  have hmono := byteOff_mono gs hk
  have hcount := sliceCount_groups hwf hk hk'
  unfold Cursor.pushTo
  simp only []
  rw [if_neg (by omega)]
  by_cases he : byteOff gs k' = byteOff gs k
  · rw [if_pos he]
    -- equal byte offsets: the slice is empty, hence no characters in between
    have : k' - k = 0 := by
      have h0 : sliceCount gs.flatten (byteOff gs k) (byteOff gs k') = .ok 0 := by
        have hb := isBoundary_byteOff hwf (k := k) (by omega)
        have hle := byteOff_le gs (k := k) (by omega)
        unfold sliceCount
        rw [he, if_pos ⟨Nat.le_refl _, hle, hb, hb⟩]
        simp [charCount]
      rw [hcount] at h0
      injection h0
    have : k' = k := by omega
    subst this
    rfl
  · rw [if_neg he, hcount]
    have : k + (k' - k) = k' := by omega
    simp [this]

/-- the `assert!(new_byte >= self.byte)` -/
theorem offsetCursor_assert (bs : List Nat) (c : Cursor) (nb : Nat) :
    Cursor.pushTo bs c nb = .error .assertFail ↔ nb < c.byte := by
  unfold Cursor.pushTo
  by_cases h : nb < c.byte
  · simp [h]
  · rw [if_neg h]
    constructor
    · intro hc
      split at hc
      · cases hc
      · split at hc <;> cases hc
    · intro h'; omega

/-- Markdown's `(traversed_bytes, traversed_chars)` pair: advanced to the byte offset of character
`k' ≥ k` it denotes character `k'`; an earlier range start leaves it unchanged. -/
theorem markdownOffsets_exact (gs : List (List Nat)) (hwf : ∀ g ∈ gs, WFGroup g) (k k' : Nat)
    (hk' : k' ≤ gs.length) :
    mdAdvance gs.flatten ⟨k, byteOff gs k⟩ (byteOff gs k') =
      .ok (if byteOff gs k' > byteOff gs k then ⟨k', byteOff gs k'⟩ else ⟨k, byteOff gs k⟩) := by
  unfold mdAdvance
  simp only []
  by_cases h : byteOff gs k' > byteOff gs k
  · rw [if_pos h, if_pos h]
    have hk : k ≤ k' := by
      apply Nat.le_of_not_lt
      intro hc
      have := byteOff_mono gs (Nat.le_of_lt hc)
      omega
    rw [sliceCount_groups hwf hk hk']
    have : k + (k' - k) = k' := by omega
    simp [bind, Except.bind, pure, Except.pure, this]
  · rw [if_neg h, if_neg h]; rfl

example : Cursor.pushAll sampleGroups.flatten ⟨0, 0⟩ [1, 3, 3, 7, 8] =
    .ok [⟨1, 1⟩, ⟨2, 3⟩, ⟨2, 3⟩, ⟨3, 7⟩, ⟨4, 8⟩] := by decide
/-- pushing into the middle of `é` is `doc.get(..).unwrap()` on `None` -/
example : Cursor.pushTo sampleGroups.flatten ⟨0, 0⟩ 2 = .error .unwrapNone := by decide
example : Cursor.pushTo sampleGroups.flatten ⟨2, 3⟩ 1 = .error .assertFail := by decide

end Harper.C04
